import AranyaV.Props.C22
import AranyaV.Proofs.CompileCalls
import AranyaV.Proofs.LowerCalls
import AranyaV.Proofs.TypeProg
import AranyaV.Proofs.LowerStructs
/-!
# C24 — Policies the compiler accepts do not go wrong

Full statement (see DESIGN.md 6/C24):

  `typecheck_sound` — `lowerProgram … = some prog` ⇒ `evalFn prog n f args ≠ .stuck` for
      arguments fitting `f`'s parameter types;
  `no_machine_type_error` — running the model-compiled code of an accepted program never ends in
      `invalidType / unresolvedTarget / invalidAddress / stackUnderflow / notDefined /
      alreadyDefined / invalidStructMember / invalidSchema / badState`;
  `resolve_total` — `compileProgram` succeeds, no `Unresolved` target remains, every target is
      `< |progmem|`;
  `sp_discipline` — every `RestoreSP` finds at least `saved + 1` values and leaves exactly the
      returned value on top of the stack as it was at function entry.

Proved here:

* `resolve_total` / `resolve_total_lowered` — `compileProgram` succeeds on every program
  `lowerProgram` accepts (more generally: distinct function names, every called user function
  declared), no `Branch/Jump/Call/Recall` of the image carries an `Unresolved` target, and every
  resolved target is `< |progmem|`.  All constructs, unconditional.
* `resolve_no_unresolved_partial`, `resolve_labels_distinct`, `labels_distinct` — the parts
  (no unresolved target after any successful `compileProgram`; the duplicate-label failure of
  `define_label` cannot occur).
* `sp_discipline` — for `return e` in any activation: the VM reaches `RestoreSP`
  with `v :: junk ++ base` on the stack and the saved pointer `|base|` on the call stack, so the
  "callable has consumed too many stack values" error cannot occur, and the instruction leaves
  `v :: base`.
* `no_machine_type_error_partial` — whenever the language
  semantics assigns the call an outcome (value, policy exit, foreign-function error), the VM run
  ends in exactly that outcome — in particular not in one of the machine errors above — at every
  sufficiently large step budget.
* `typecheck_sound_partial` — progress/preservation for `Model/LangLower` on the fragment
  `FragProg`: every construct of the C22 language (incl. struct literals with `...source`,
  `substruct`, `as`, foreign calls under `FfiContract`); a `match` needs a default arm, `None` +
  `Some(x)`, `Ok(x)` + `Err(y)`, or — no default, no binding, patterns nested from `true`/`false`/
  enum variants/`None`/`Some`/`Ok`/`Err` — the compiler's exhaustiveness check, which is proved
  sound for that case (`count_sound`, `total_sh`); global `let`s included.  A call of a
  declared function of an accepted program with well-typed arguments is never stuck, and what it
  returns fits the declared return type (`Proofs/TypeSound.lean: snd_all`, by induction on the
  evaluator's fuel).
* `no_machine_type_error_frag` — for accepted programs of that fragment, with no assumption on
  the evaluator: the compiled program exists and every terminating call ends, at every large
  enough step budget, in a normal or policy exit — never in a machine type error.
  Outside the fragment (a `match` without default arm with struct-literal or `Unit` patterns, or
  mixing bindings and literals beyond `None`+`Some(x)` / `Ok(x)`+`Err(y)`)
  `typecheck_sound` is covered by the tie only: every program the REAL compiler accepts is run on
  the real VM and the `MachineErrorType` is classified, and the reference evaluator must not be
  stuck.
-/
namespace AranyaV.Lang
open AranyaV.Gen.Lang

/- `instrLabel i` (Proofs/CompileTargets): the unresolved label an instruction still carries, if
any; `instrRes i`: the resolved target it carries, if any. -/

theorem resolveInstr_resolved {labels i i'} (h : resolveInstr labels i = some i') : instrLabel i' = none := by
  cases i <;> simp only [resolveInstr, Option.some.injEq, Option.map_eq_some_iff] at h
  all_goals first
    | (subst h; rfl)
    | (obtain ⟨t', ht, rfl⟩ := h
       rename_i t
       cases t with
       | Resolved n => simp [resolveTarget] at ht; subst ht; rfl
       | Unresolved l =>
         simp only [resolveTarget, Option.map_eq_some_iff] at ht
         obtain ⟨a, _, rfl⟩ := ht
         rfl)

theorem resolveTargets_resolved {labels} : ∀ {code prog}, resolveTargets labels code = some prog →
    ∀ i ∈ prog, instrLabel i = none
  | [], prog, h => by simp [resolveTargets] at h; subst h; simp
  | i :: is, prog, h => by
    simp only [resolveTargets] at h
    cases hi : resolveInstr labels i with
    | none => simp [hi] at h
    | some i' =>
      cases hr : resolveTargets labels is with
      | none => simp [hi, hr] at h
      | some is' =>
        simp [hi, hr] at h
        subst h
        intro j hj
        rcases List.mem_cons.mp hj with rfl | hj'
        · exact resolveInstr_resolved hi
        · exact resolveTargets_resolved hr j hj'

/-- **resolve_total** (`_partial`: conditional on `compileProgram` succeeding; "it always succeeds
for lowered programs" and "every target is `< |progmem|`" are covered by the tie only).
After `resolve_targets` no instruction carries an unresolved target, so the VM can never report
`UnresolvedTarget` on compiled code. -/
theorem resolve_no_unresolved_partial {sd : Defs} {funs : List FunDef} {cp : Compiled}
    (h : compileProgram sd funs = some cp) : ∀ i ∈ cp.prog, instrLabel i = none := by
  unfold compileProgram at h
  simp only at h
  split at h
  · cases hr : resolveTargets (compileUnresolved sd funs).defs (compileUnresolved sd funs).code with
    | none => rw [hr] at h; cases h
    | some prog => rw [hr] at h; cases h; exact resolveTargets_resolved hr
  · cases h

/-- the labels of a compiled program are pairwise distinct (`define_label` refuses duplicates) -/
theorem labels_distinct {sd : Defs} {funs : List FunDef} {cp : Compiled}
    (h : compileProgram sd funs = some cp) : (cp.labels.map (·.1)).Nodup := by
  unfold compileProgram at h
  simp only at h
  split at h
  · rename_i hnd
    cases hr : resolveTargets (compileUnresolved sd funs).defs (compileUnresolved sd funs).code with
    | none => rw [hr] at h; cases h
    | some prog => rw [hr] at h; cases h; simpa [labelsDistinct] using hnd
  · cases h

/-- **resolve_total, label part**: the compiler's `define_label` duplicate check ("Label … defined
twice!") never fires on model-compiled code: with distinct function names (enforced by lowering)
every label of the program — one per function, one per allocated anonymous counter value — is
distinct.  Proved by the mutual induction principle of the compile functions over every
construct (`good_all`). -/
theorem resolve_labels_distinct (sd : Defs) (funs : List FunDef) (hn : (funs.map (·.name)).Nodup) :
    labelsDistinct (compileUnresolved sd funs).defs = true :=
  labels_never_collide sd funs hn

/-- **resolve_total**: for any function list with distinct names in which every called user
function is declared (`CallsDeclared`; both are enforced by lowering, see
`resolve_total_lowered`), `compileProgram` succeeds — neither the duplicate-label check nor
`resolve_targets` can fail — no instruction of the result carries an unresolved target, and every
resolved `Branch/Jump/Call/Recall` target is `< |progmem|`.  All constructs of the fragment. -/
theorem resolve_total (sd : Defs) (funs : List FunDef) (hn : (funs.map (·.name)).Nodup)
    (hc : CallsDeclared funs) :
    ∃ cp, compileProgram sd funs = some cp ∧
      (∀ i ∈ cp.prog, instrLabel i = none) ∧
      (∀ i ∈ cp.prog, ∀ n, instrRes i = some n → n < cp.prog.length) := by
  obtain ⟨cp, hcp, hlt⟩ := resolve_total_calls sd funs hn hc
  exact ⟨cp, hcp, resolve_no_unresolved_partial hcp, hlt⟩

/-- **resolve_total for accepted programs**: whatever `lowerProgram` (the model of lower.rs)
accepts, the code generator's label resolution cannot fail on: `compileProgram` returns a program
image with no unresolved target and every target inside the image.  Unconditional. -/
theorem resolve_total_lowered {mods : List (Nat × List FfiSig)} {ffi : Nat → Nat → List Val → FfiRes}
    {sp : SProgram} {p : Program} (h : lowerProgram mods ffi sp = some p) :
    ∃ cp, compileProgram p.structs p.funs = some cp ∧
      (∀ i ∈ cp.prog, instrLabel i = none) ∧
      (∀ i ∈ cp.prog, ∀ n, instrRes i = some n → n < cp.prog.length) :=
  resolve_total p.structs p.funs (lowerProgram_funs h).1 (lowerProgram_funs h).2

/-- **sp_discipline**: `return e` in any activation.  If `e` evaluates to `v`, the VM stands at the
`RestoreSP` with `v` on top of the temporaries `junk` and the entry stack `base`, the saved stack
pointer is `|base|` (so `|stack| ≥ saved + 1`: never "callable has consumed too many stack
values"), and the instruction leaves exactly `v :: base`. -/
theorem sp_discipline (S : Sim) (hP : ProgOk S) (n : Nat) (e : Expr) (env : Env) (log l : Log) (v : Val) (wp c : Nat)
    (junk base : List Val) (fr : List Env) (K : List Nat)
    (hcode : CodeAt S.labels S.m.prog wp (compileExpr S.m.p.structs wp c (.ret e)).code)
    (hdefs : DefsOk S.labels (compileExpr S.m.p.structs wp c (.ret e)).defs)
    (hev : evalExpr S.m.p n env log e = .val v l) :
    ∃ sR : VM, Steps S.m ⟨junk ++ base, env :: fr, base.length :: K, wp, log⟩ sR ∧
      S.m.prog[sR.pc]? = some .RestoreSP ∧
      sR.stack = v :: (junk ++ base) ∧ sR.calls = base.length :: K ∧
      sR.stack.length ≥ base.length + 1 ∧
      step S.m sR = .running ⟨v :: base, env :: fr, K, sR.pc + 1, l⟩ := by
  simp only [compileExpr, codeAt_append, codeAt_cons, CodeAt.nil, and_true, res] at hcode hdefs
  have h := (sim_all S hP n).e e env log wp c junk base fr K (supE_all e) hcode.1 hdefs
  rw [hev] at h
  refine ⟨_, h, hcode.2.1, rfl, rfl, ?_, step_restoreSP hcode.2.1⟩
  simp only [List.length_cons, List.length_append]; omega

/-! ### the VM is deterministic in its step budget -/

theorem run_mono {m : Machine} : ∀ (k : Nat) (s : VM) (r : RunRes), run m k s = r → r ≠ .oof →
    ∀ j, run m (k + j) s = r
  | 0, s, r, h, hne => by simp [run] at h; exact absurd h.symm hne
  | k + 1, s, r, h, hne => by
    intro j
    have : k + 1 + j = (k + j) + 1 := by omega
    rw [this]
    simp only [run] at h ⊢
    cases hs : step m s with
    | running s' => rw [hs] at h; simp only; exact run_mono k s' r h hne j
    | exited x t => rw [hs] at h; exact h
    | error x t => rw [hs] at h; exact h

/-- **no_machine_type_error** (`_partial`: relative to the evaluator not
being stuck — `typecheck_sound` is not proved, see the file header).

If the language semantics gives the call an outcome, then at every sufficiently large step budget
the VM run of the compiled program ends in exactly that outcome: a normal exit with the value, the
policy exit, or the foreign-function error — never in `invalidType`, `unresolvedTarget`,
`invalidAddress`, `stackUnderflow`, `notDefined`, `alreadyDefined`, `invalidStructMember`,
`invalidSchema` or `badState`. -/
theorem no_machine_type_error_partial (p : Program) (cp : Compiled) (ar : Nat → Nat → Option Nat)
    (hc : compileProgram p.structs p.funs = some cp)
    (hffi : FfiOk ⟨cp.prog, p, ar⟩)
    (hstructs : ∀ n d, p.structDef n = some d → (d.map (·.1)).Nodup)
    (n f : Nat) (args : List Val) (entry : Nat) (hentry : cp.entry f = some entry)
    (hmeaning : match evalFn p n f args with | .stuck | .oof | .ret _ _ => False | _ => True) :
    ∃ k, ∀ j, match run ⟨cp.prog, p, ar⟩ (k + j) (VM.init entry args) with
      | .exited _ _ => True
      | .error e _ => e = .ffi
      | .oof => False := by
  have h := compile_correct p cp ar hc hffi hstructs n f args entry hentry
  simp only at h
  cases hr : evalFn p n f args with
  | val v l =>
    rw [hr] at h
    obtain ⟨k, t, hk, _, _⟩ := h
    exact ⟨k, fun j => by rw [run_mono k _ _ hk (by simp) j]; trivial⟩
  | exit r l =>
    rw [hr] at h
    obtain ⟨k, t, hk, _⟩ := h
    exact ⟨k, fun j => by rw [run_mono k _ _ hk (by simp) j]; trivial⟩
  | ffiErr l =>
    rw [hr] at h
    obtain ⟨k, hk⟩ := h
    exact ⟨k, fun j => by rw [run_mono k _ _ hk (by simp) j]⟩
  | ret v l => rw [hr] at hmeaning; exact absurd hmeaning id
  | stuck => rw [hr] at hmeaning; exact absurd hmeaning id
  | oof => rw [hr] at hmeaning; exact absurd hmeaning id

/-! ## typecheck_sound on a fragment, and the unconditional no_machine_type_error it gives -/

/-- **typecheck_sound** (`_partial`: the fragment `FragProg`.  Every construct of the C22 language is
covered — all operators, optionals and results with `Never` placeholders, struct literals with
and without `...source` fields, field access, `substruct`, `as` casts, global `let`s, `if` /
`check` / `let` / `return` / `debug_assert` / blocks, builtin, user (incl. recursion) and foreign
function calls (under the contract `FfiContract`), `match` expressions and statements with
literal, alternative and binding patterns — with two restrictions: (i) that some arm of a `match`
is selected must follow from a trailing default arm, from `None` + `Some(x)` arms, from `Ok(x)` +
`Err(y)` arms (`patsTotal`), or — for a match without default arm and without bindings whose
patterns are built from `true` / `false`, enum variants, `None`, `Some(..)`, `Ok(..)`, `Err(..)`
(`patsSh`) — from the compiler's own exhaustiveness check, which is proved sound for these
(`scanPats`: pairwise distinct patterns; `missingDefault`: `Ok`/`Err` literal counts, `None` +
`Some` literal count, or total count against the cardinality of the scrutinee type;
`Proofs/TypeCount.lean: count_sound`, `TypeSound.lean: total_sh`).  Outside: a match without
default arm that has struct-literal patterns (struct of bools) or a `Unit` pattern, and one that
mixes binding and literal patterns other than `None`+`Some(x)` / `Ok(x)`+`Err(y)`.
Global `let`s (literal forms, struct literals checked against the definition — the check added
to `expression_value`) are covered.

Value typing is `Fit p v t`: `Value::fits_type` (`Val.fitsType`) plus, for every struct value
inside `v`, conformance to its definition (every declared field present with a fitting value)
and, for every enum value inside `v`, that it is one of the declared variants.

If `lowerProgram` (the model of lower.rs) accepts such a program, then a call of a declared
function with arguments fitting its parameter types is never stuck at any fuel, and a value it
returns fits the declared return type. -/
theorem typecheck_sound_partial {mods : List (Nat × List FfiSig)} {ffi : Nat → Nat → List Val → FfiRes}
    {sp : SProgram} {p : Program} (h : lowerProgram mods ffi sp = some p) (hF : FragProg sp)
    (hffi : FfiContract mods ffi)
    (n f : Nat) (fd : FunDef) (args : List Val) (hfd : p.funDef f = some fd)
    (hargs : ArgsFit p args (fd.params.map (·.2))) :
    evalFn p n f args ≠ .stuck ∧ (∀ v l, evalFn p n f args = .val v l → Fit p v fd.ret) ∧
      (∀ v l, evalFn p n f args ≠ .ret v l) := by
  have hs := typecheck_sound_frag h hF hffi n f fd args hfd hargs
  refine ⟨?_, ?_, ?_⟩
  · intro he; rw [he] at hs; exact hs
  · intro v l he; rw [he] at hs; exact hs
  · intro v l he; rw [he] at hs; exact hs

/-- **no_machine_type_error** on the fragment, without any assumption about the evaluator: for a
program of the fragment accepted by `lowerProgram`, the compiled code exists (`resolve_total`),
and whenever the call terminates within the evaluator's fuel `n`, every sufficiently long VM run
of it ends in a normal exit, a policy exit or the foreign function's own error — never in `invalidType`, `unresolvedTarget`, `invalidAddress`,
`stackUnderflow`, `notDefined`, `alreadyDefined`, `invalidStructMember`, `invalidSchema`,
`badState`. -/
theorem no_machine_type_error_frag {mods : List (Nat × List FfiSig)} {ffi : Nat → Nat → List Val → FfiRes}
    {sp : SProgram} {p : Program} (h : lowerProgram mods ffi sp = some p) (hF : FragProg sp)
    (hcontract : FfiContract mods ffi) (ar : Nat → Nat → Option Nat) :
    ∃ cp, compileProgram p.structs p.funs = some cp ∧
      (FfiOk ⟨cp.prog, p, ar⟩ →
      ∀ (n f : Nat) (fd : FunDef) (args : List Val) (entry : Nat), p.funDef f = some fd → cp.entry f = some entry →
        ArgsFit p args (fd.params.map (·.2)) → evalFn p n f args ≠ .oof →
        ∃ k, ∀ j, match run ⟨cp.prog, p, ar⟩ (k + j) (VM.init entry args) with
          | .exited _ _ => True
          | .error e _ => e = .ffi
          | .oof => False) := by
  obtain ⟨cp, hcp, _, _⟩ := resolve_total_lowered h
  refine ⟨cp, hcp, ?_⟩
  intro hffi n f fd args entry hfd hentry hargs hfuel
  obtain ⟨h1, _, h3⟩ := typecheck_sound_partial h hF hcontract n f fd args hfd hargs
  apply no_machine_type_error_partial p cp ar hcp hffi (lowerProgram_structs h) n f args entry hentry
  cases hr : evalFn p n f args with
  | val v l => trivial
  | exit r l => trivial
  | ffiErr l => trivial
  | ret v l => exact h3 v l hr
  | stuck => exact h1 hr
  | oof => exact hfuel hr


/-- **no_machine_type_error with the real stack bound**: whatever holds of the unbounded model run
in the sense of `no_machine_type_error_*` holds of the bounded machine `runL` (stack of at most
`lim` values; the real `STACK_SIZE` is `Gen.Lang.stackSize = 100`) up to the additional, allowed
outcome `StackOverflow`. -/
theorem no_machine_type_error_bounded (m : Machine) (lim k : Nat) (s : VM)
    (h : match run m k s with
      | .exited _ _ => True
      | .error e _ => e = .ffi
      | .oof => False) :
    match runL m lim k s with
    | .overflow _ => True
    | .res (.exited _ _) => True
    | .res (.error e _) => e = .ffi
    | .res .oof => False := by
  rcases runL_refines m lim k s with ⟨l, ho⟩ | he
  · rw [ho]; trivial
  · rw [he]; revert h; cases run m k s <;> exact id

/-! ### non-vacuity of the fragment theorems: a two-function program (let, builtin call, `if`
statement, comparison, user call with a `None : option[never]` argument, `??`) that `lowerProgram`
accepts and that lies in the fragment; `h` builds a struct and reads a field -/
/-- `struct S { a int, b bool }`
    `function f(x int) int { let y = saturating_add(x, 1)  if y > 3 { return y }  return g(None) }`
    `function g(o option[int]) int { return o ?? 0 }`
    `function h(x int) int { let s = S { a: x, b: true }  return s.a }`
    `function k(o option[int]) int { match o { Some(z) => { return z } _ => { return 0 } }  return match 1 { 1 => 10, _ => 0 } }`
    (identifiers: S = 30, a = 31, b = 32, f = 10, g = 11, h = 12, k = 13, x = 20, y = 21, o = 22, s = 23, z = 24) -/
def exSP : SProgram :=
  { uses := [], enums := [], structs := [(30, [(31, .int), (32, .bool)])], globals := [],
    funs := [
      { name := 10, params := [(20, .int)], ret := .int,
        body := [.let_ 21 (.call 1 [.var 20, .int 1]),
                 .ifS [(.gt (.var 21) (.int 3), [.ret (.var 21)])] false [],
                 .ret (.call 11 [.none])] },
      { name := 11, params := [(22, .optional .int)], ret := .int,
        body := [.ret (.coalesce (.var 22) (.int 0))] },
      { name := 12, params := [(20, .int)], ret := .int,
        body := [.let_ 23 (.struct 30 [(31, .var 20), (32, .bool true)] []),
                 .ret (.dot (.var 23) 31)] },
      { name := 13, params := [(22, .optional .int)], ret := .int,
        body := [.mtch (.var 22) [(.values [.some (.var 24)], [.ret (.var 24)]), (.default, [.ret (.int 0)])],
                 .ret (.mtch (.int 1) [(.values [.int 1], .int 10), (.default, .int 0)])] }] }

example : (lowerProgram [] (fun _ _ _ => .bad) exSP).isSome = true := by decide
example : FragProg exSP := ⟨by decide, by decide, by decide, by decide⟩
example : FfiContract [] (fun _ _ _ => .bad) := fun mi pi m fns sig h => by simp at h

/-- `function j(o option[int]) int { return match o { Some(z) => z, None => 0 } }`: a `match` without
default arm, total by `None` + `Some(z)` (`patsTotal`) -/
def exSP2 : SProgram :=
  { uses := [], enums := [], structs := [], globals := [],
    funs := [
      { name := 14, params := [(22, .optional .int)], ret := .int,
        body := [.ret (.mtch (.var 22) [(.values [.some (.var 24)], .var 24), (.values [.none], .int 0)])] }] }
example : FragProg exSP2 := ⟨by decide, by decide, by decide, by decide⟩
example : (lowerProgram [] (fun _ _ _ => .bad) exSP2).isSome = true := by
  simp [exSP2, lowerProgram, topoOrder, findDup, builtinSigs, builtinNames, builtinRet, List.range, List.range.loop, lowerFun,
    typeDefined, scopeAdd, lowerStmts, lowerStmt, lowerExpr, scopeGet, patsOfE, scanPats, scanVals, patEq, isVar, bindingOf,
    defaultOk, lowerArmsE, lowerPat, lowerPatValsE, isLiteral, unify, Ty.matchesT, Ty.fits, missingDefault, cardinality]

/-- `enum E { A, B }`
    `function m(e enum E, b bool) int { match b { true => { return 1 } false => { } }  return match e { E::B => 2, E::A => 3 } }`:
    matches without default arm, exhaustive by the compiler's counting check (`patsFlat`) -/
def exSP3 : SProgram :=
  { uses := [], enums := [(40, [41, 42])], structs := [], globals := [],
    funs := [
      { name := 15, params := [(25, .enum 40), (26, .bool)], ret := .int,
        body := [.mtch (.var 26) [(.values [.bool true], [.ret (.int 1)]), (.values [.bool false], [])],
                 .ret (.mtch (.var 25) [(.values [.enumRef 40 42 0], .int 2), (.values [.enumRef 40 41 0], .int 3)])] }] }
example : FragProg exSP3 := ⟨by decide, by decide, by decide, by decide⟩
example : (lowerProgram [] (fun _ _ _ => .bad) exSP3).isSome = true := by
  simp [exSP3, lowerProgram, topoOrder, findDup, builtinSigs, builtinNames, builtinRet, List.range, List.range.loop, lowerFun,
    typeDefined, scopeAdd, lowerStmts, lowerStmt, lowerExpr, scopeGet, patsOfE, patsOfS, scanPats, scanVals, patEq, isVar, bindingOf,
    defaultOk, lowerArmsE, lowerArmsS, lowerPat, lowerPatValsE, isLiteral, unify, Ty.matchesT, Ty.fits, missingDefault, cardinality,
    indexOf?, indexOf?.go]

/-- `struct S { a int, b bool }  struct T { a int }  struct S2 { b bool, a int }`
    `function u(x int) struct T { let s = S { a: x, b: true }  let t = s substruct T  let r = S { b: false, ...t }  return (r as S2) substruct T }`:
    `substruct`, a struct literal with a `...source`, an `as` cast -/
def exSP4 : SProgram :=
  { uses := [], enums := [], structs := [(30, [(31, .int), (32, .bool)]), (33, [(31, .int)]), (34, [(32, .bool), (31, .int)])],
    globals := [],
    funs := [
      { name := 16, params := [(20, .int)], ret := .struct 33,
        body := [.let_ 23 (.struct 30 [(31, .var 20), (32, .bool true)] []),
                 .let_ 27 (.substruct (.var 23) 33),
                 .let_ 28 (.struct 30 [(32, .bool false)] [27]),
                 .ret (.substruct (.cast (.var 28) 34) 33)] }] }
example : FragProg exSP4 := ⟨by decide, by decide, by decide, by decide⟩
example : (lowerProgram [] (fun _ _ _ => .bad) exSP4).isSome = true := by decide

/-- `function n(o option[bool]) int { return match o { Some(true) => 1, None => 2, Some(false) => 3 } }`:
    exhaustive by counting nested literal shapes (`patsSh`, `total_sh`) -/
def exSP5 : SProgram :=
  { uses := [], enums := [], structs := [], globals := [],
    funs := [
      { name := 17, params := [(22, .optional .bool)], ret := .int,
        body := [.ret (.mtch (.var 22) [(.values [.some (.bool true)], .int 1), (.values [.none], .int 2),
                                         (.values [.some (.bool false)], .int 3)])] }] }
example : FragProg exSP5 := ⟨by decide, by decide, by decide, by decide⟩
example : (lowerProgram [] (fun _ _ _ => .bad) exSP5).isSome = true := by
  simp [exSP5, lowerProgram, topoOrder, findDup, builtinSigs, builtinNames, builtinRet, List.range, List.range.loop, lowerFun,
    typeDefined, scopeAdd, lowerStmts, lowerStmt, lowerExpr, scopeGet, patsOfE, scanPats, scanVals, patEq, isVar, bindingOf,
    defaultOk, lowerArmsE, lowerPat, lowerPatValsE, isLiteral, unify, Ty.matchesT, Ty.fits, missingDefault, cardinality]

/-! ### non-vacuity: `exProg2` of Props/C22 (a function with `let`, `if`, `return` and a builtin
call) satisfies the hypotheses of `no_machine_type_error_partial`; see the examples there. -/

end AranyaV.Lang
