import AranyaV.Spec.Sync
import AranyaV.Props.C17
/-!
# C16 — Repeated sync delivers everything

S level (`AranyaV.Spec.Sync`, any command type): a session outcome `D` for requester graph `A` and
responder graph `B` is (i) sound `D ⊆ B`, (ii) parents-closed relative to `A`, (iii) makes progress
while anything is missing.  `sessions_converge`: iterating arbitrary outcomes reaches `B ⊆ A` within
`|B \ A|` sessions, each session reducing the number of missing commands; `bidirectional`:
quiescence in both directions means equal command sets; `round_progress`: alternating sessions
reach quiescence.

M level (`AranyaV.Sync`): `fns_outcome_partial` — the commands a responder session delivers (the
stream of its `to_send` list, by C17's `session_terminates`) form an outcome, with commands
identified by their location in the responder's store, given the closure property `ToSendOK` of
the list and one delivered entry the requester lacks.
-/
namespace AranyaV.Sync
open AranyaV.Queue AranyaV.Segments AranyaV.Spec.Sync

/-! ## S level -/

/-- **Each session delivers at least one missing command while any are missing.** -/
theorem session_progress {α : Type} [DecidableEq α] {par : α → List α} {A B D : List α}
    (h : Outcome par A B D) :
    (missing (ingest A D) B).length ≤ (missing A B).length ∧
    (missing A B ≠ [] → (missing (ingest A D) B).length < (missing A B).length) :=
  AranyaV.Spec.Sync.session_progress h

/-- **Repeating sync sessions eventually gives A every command B has committed**: after `n`
sessions at most `|B \ A| - n` commands are missing, for any graph shapes and any overlap,
whatever each session delivers within `Outcome`; `|B \ A|` sessions always suffice. -/
theorem sessions_converge {α : Type} [DecidableEq α] {par : α → List α} {B A A' : List α} {n : Nat}
    (h : Run par B A n A') :
    (missing A' B).length ≤ (missing A B).length - n ∧
    ((missing A B).length ≤ n → ∀ c ∈ B, c ∈ A') :=
  AranyaV.Spec.Sync.sessions_converge h

/-- **Syncing in both directions until neither side receives anything makes the two replicas
converge** (equal command sets; equal state then is C01). -/
theorem bidirectional {α : Type} [DecidableEq α] {par : α → List α} {A B D₁ D₂ : List α}
    (h₁ : Outcome par A B D₁) (q₁ : ∀ c ∈ D₁, c ∈ A)
    (h₂ : Outcome par B A D₂) (q₂ : ∀ c ∈ D₂, c ∈ B) : ∀ c, c ∈ A ↔ c ∈ B :=
  AranyaV.Spec.Sync.bidirectional h₁ q₁ h₂ q₂

/-- one round of bidirectional sync strictly reduces what the two sides lack of each other -/
theorem round_progress {α : Type} [DecidableEq α] {par : α → List α} {A B D₁ D₂ : List α}
    (h₁ : Outcome par A B D₁) (h₂ : Outcome par B (ingest A D₁) D₂) :
    (missing (ingest A D₁) (ingest B D₂)).length + (missing (ingest B D₂) (ingest A D₁)).length
        ≤ (missing A B).length + (missing B A).length ∧
    ((missing A B).length + (missing B A).length ≠ 0 →
      (missing (ingest A D₁) (ingest B D₂)).length + (missing (ingest B D₂) (ingest A D₁)).length
        < (missing A B).length + (missing B A).length) :=
  AranyaV.Spec.Sync.round_progress h₁ h₂

/-- the design's stricter outcome (delivered ⊆ needed, closed within needed) is an outcome -/
theorem strict_outcome {α : Type} [DecidableEq α] {par : α → List α} {A B hv D : List α}
    (hA : Closed par A) (hB : Closed par B) (hhv : ∀ h ∈ hv, h ∈ A)
    (h : StrictOutcome par A B hv D) : Outcome par A B D :=
  h.outcome hA hB hhv

/-! ## M level: a responder session realises an outcome -/

/-- the responder's graph: every command location of its store -/
def graphLocs (s : Store) : List Loc := s.allLocs.filter (fun l => s.valid l)

theorem mem_graphLocs {s : Store} {l : Loc} (h : s.valid l = true) : l ∈ graphLocs s := by
  unfold graphLocs
  rw [List.mem_filter]
  refine ⟨?_, h⟩
  obtain ⟨g, hg, h1, h2⟩ := valid_iff.mp h
  unfold Store.allLocs
  rw [List.mem_flatMap]
  refine ⟨g, seg?_mem hg, ?_⟩
  unfold Seg.locs
  rw [List.mem_map]
  refine ⟨l.mc - g.first, by simp; omega, ?_⟩
  have := seg?_idx hg
  cases l; simp at h1 this ⊢; exact ⟨by omega, this⟩

/-- every location of a stream whose entries point into their segments is a command location -/
theorem streamLocs_valid {s : Store} {cov : Loc → Prop} {ts : List Loc} (hok : ToSendOK s cov ts) :
    ∀ l ∈ streamLocs s ts, s.valid l = true := by
  intro l hl
  simp only [streamLocs, List.mem_flatMap] at hl
  obtain ⟨e, he, hle⟩ := hl
  obtain ⟨k, hk, hke⟩ := List.mem_iff_getElem.mp he
  obtain ⟨⟨g, hg, hfirst⟩, _⟩ := hok k e (by simp [List.getElem?_eq_getElem hk, hke])
  obtain ⟨h1, h2, h3⟩ := mem_entryLocs.mp hle
  rw [entryIds_length_valid hg hfirst] at h3
  exact valid_of_seg (l := l) (by rw [h1]; exact hg) (by omega) (by omega)

/-- **The mechanism realises a session outcome (partial).**  Commands are identified by their
location in the responder's store `s`; `B` is the set of its command locations, `A` those whose
command the requester holds, `cov` a set of covered locations all held by the requester
(`anc*(have)`).  If the `to_send` list has the closure property `ToSendOK` and contains an entry
whose range reaches a command the requester lacks (when it lacks any), then the commands the
session delivers — `streamLocs s ts`, by `session_terminates` — form an `Outcome`:
(i) all are committed at the responder, (ii) parents are delivered earlier or already held,
(iii) something new is delivered.

`fns_outcome` below discharges both premises for `ts = find_needed_segments(..)`. -/
theorem fns_outcome_partial (s : Store) (cov : Loc → Prop) (A ts : List Loc)
    (hok : ToSendOK s cov ts) (hcov : ∀ l, cov l → l ∈ A)
    (hprog : (∃ l ∈ graphLocs s, l ∉ A) → ∃ l ∈ streamLocs s ts, l ∉ A) :
    Outcome s.parents A (graphLocs s) (streamLocs s ts) where
  sound l hl := mem_graphLocs (streamLocs_valid hok l hl)
  closed l hl p hp := by
    obtain ⟨pre, post, hsplit⟩ := List.append_of_mem hl
    rcases parents_first s cov ts hok pre post l hsplit p hp with h | h
    · exact Or.inr (hcov p h)
    · left; rw [hsplit]; exact List.mem_append_left _ h
  progress := hprog

/-- **The mechanism realises a session outcome.**  `s` is the responder's store (well formed, every
command an ancestor-or-self of a head), `commands` the requester's sample, `A` the command locations
of `s` whose command the requester holds: parents-closed, containing every sampled command the
responder can locate, and with its highest max cut among them (the requester's frontier fits in the
sample).  Then the commands delivered by the session for `ts = find_needed_segments(commands)` form
an `Outcome` — sound, parents-closed relative to `A`, and delivering something `A` lacks whenever
it lacks anything — unless the `SEGMENT_BUFFER_MAX` buffer is completely filled with entries the
requester holds entirely (`hbuf`; the wide-frontier situation of notes/C16.md is the case where
this premise fails on the real code). -/
theorem fns_outcome {s : Store} (hwf : WF s) {lim : Limits} (hcap : 1 ≤ lim.segmentMax)
    {heads : List Loc} {commands : List Addr} {ts : List Loc}
    (hh : ∀ h ∈ heads, s.valid h = true)
    (hcommitted : ∀ l, s.valid l = true → ∃ h ∈ heads, AncS s l h)
    (h : findNeeded lim s heads commands = .ok ts)
    (A : List Loc) (hA : ∀ b ∈ A, ∀ p ∈ s.parents b, p ∈ A)
    (hsample : ∀ a ∈ commands, ∀ x, getLocation s heads a = .ok (some x) → x ∈ A)
    (hmax : ∀ l ∈ A, ∃ a ∈ commands, ∃ x, getLocation s heads a = .ok (some x) ∧ l.mc ≤ x.mc)
    (hbuf : ¬ (ts.length = lim.segmentMax ∧ ∀ l ∈ streamLocs s ts, l ∈ A)) :
    Outcome s.parents A (graphLocs s) (streamLocs s ts) := by
  obtain ⟨haves, sts, F, K, hp⟩ := findNeeded_spec hwf hh h
  have hok := fns_toSendOK_of_parts hwf hp
  have hhA : ∀ x ∈ haves, x ∈ A := by
    intro x hx
    obtain ⟨_, a, ha, hg⟩ := hp.haves_ok x hx
    exact hsample a ha x hg
  have hcov : ∀ l, Cov s haves l → l ∈ A := by
    intro l ⟨x, hx, hanc⟩
    exact closed_ancS hA hanc (hhA x hx)
  have hmax' : ∀ l ∈ A, l.mc ≤ headMc haves := by
    intro l hl
    obtain ⟨a, ha, x, hg, hle⟩ := hmax l hl
    have := hp.head_max x (hp.haves_all a ha x hg)
    omega
  apply fns_outcome_partial s (Cov s haves) A ts hok hcov
  intro ⟨l, hl, hlA⟩
  have hlv : s.valid l = true := by
    have := (List.mem_filter.mp hl).2
    simpa using this
  rcases fns_progress_of_parts hcap hp hh A hA hhA hmax' hcommitted ⟨l, hlv, hlA⟩ with h1 | h2
  · exact h1
  · exact absurd h2 hbuf

/-! ## non-vacuity -/

/-- a five-command diamond: 0 ← 1 ← 3, 0 ← 2 ← 3, 3 ← 4 -/
def exPar : Nat → List Nat
  | 1 => [0] | 2 => [0] | 3 => [1, 2] | 4 => [3] | _ => []

example : Outcome exPar [0, 1] [0, 1, 2, 3, 4] [2, 3] where
  sound := by decide
  closed := by decide
  progress := fun _ => ⟨2, by decide, by decide⟩

example : Run exPar [0, 1, 2, 3, 4] [0, 1] 2 [0, 1, 2, 3, 4] :=
  .session (D := [2, 3]) ⟨by decide, by decide, fun _ => ⟨2, by decide, by decide⟩⟩
    (.session (D := [4]) ⟨by decide, by decide, fun _ => ⟨4, by decide, by decide⟩⟩ (.done _))

example : (missing [0, 1] [0, 1, 2, 3, 4]).length = 3 := by decide

/-! ## the design's `D ⊆ needed` is false of the mechanism

A six-command store taken from a real run (harness c17, seed 3, case 30): the sample contains the
responder's head `28` (location 5:4) itself, yet `find_needed_segments` puts location 5:4 into its
result and command `28` is sent again.  (The have-cursor has moved past 5:4 when segment 5 is
visited a second time, below it.)  Harmless for convergence — the requester skips commands it
holds — but it is why `Outcome` asks for soundness and closure only, not `D ⊆ needed`. -/

def ovStore : Store :=
  ⟨[{ idx := 1, first := 0, ids := [0], prior := .none, skips := [] },
    { idx := 3, first := 1, ids := [1], prior := .single ⟨0, 1⟩, skips := [] },
    { idx := 5, first := 2, ids := [2, 27, 28], prior := .single ⟨1, 3⟩, skips := [] },
    { idx := 8, first := 3, ids := [41], prior := .single ⟨2, 5⟩, skips := [] }]⟩

example : (match findNeeded Limits.real ovStore [⟨3, 8⟩, ⟨4, 5⟩] [⟨28, 4⟩, ⟨27, 3⟩, ⟨2, 2⟩, ⟨1, 1⟩] with
    | .ok l => l | .error _ => []) = [⟨3, 8⟩, ⟨4, 5⟩] := by decide

example : (match getLocation ovStore [⟨3, 8⟩, ⟨4, 5⟩] ⟨28, 4⟩ with | .ok r => r | .error _ => none) =
    some ⟨4, 5⟩ := by decide

end AranyaV.Sync
