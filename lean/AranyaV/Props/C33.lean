import AranyaV.Proofs.Conc.Arc
import AranyaV.Gen.ConcOrd
/-!
# C33 — Shared text storage is memory safe across threads

Property theorems for the transition system `AranyaV.Arc` (model of `repr.rs::arc::ArcStr`,
the hand-rolled atomic reference count behind heap-backed `Text` / `Identifier` values).
Every theorem is about every state reachable from `init n` (one allocation, one handle on
thread 0, `n` further threads) by every interleaving of `clone` (`fetch_add`), reads of the
string data, `drop` (`fetch_sub`; if it returned 1: fence, free) and moves of handles between
threads — any number of threads, any number of operations.

Level: partial — sequentially consistent interleavings only: that the `Relaxed` increment,
the `Release` decrement and the `Acquire` fence suffice on weak memory is the standard `Arc`
argument and is not mechanised.  The counter is an unbounded `Nat` (the
`assert!(old <= MAX_REFCOUNT)` guard against 2⁶³ live handles is outside the model).
-/
namespace AranyaV.Arc

open AranyaV.Conc

/-! ## memory orderings: the side condition of the sequentially consistent model -/

/-- Minimal ordering of each atomic access of `ArcStr` — the standard `Arc` protocol (the step
from this table to "SC reasoning is sound" is the unmechanised release/acquire (DRF-SC)
argument — trusted base):

* `clone` `fetch_add`: **Relaxed** — a new handle is derived from an existing one; handing it to
  another thread needs its own synchronisation anyway.
* `drop` `fetch_sub`: **Release** — the publishing write: every use of the string through this
  handle happens before the decrement …
* `drop` `fence`: **Acquire** — … and the thread that sees the count reach zero acquires all
  those decrements before it frees.  (The fence is counted as an access of its own; replacing
  the pair by a single `AcqRel` `fetch_sub` would also be correct but changes the shape and has
  to be re-classified here.) -/
def arcOrdRoles : List OrdPair :=
  [(.relaxed, .relaxed), (.release, .relaxed), (.acquire, .relaxed)]

/-- **The orderings written in `repr.rs` are at least what their roles require**, and the set
of atomic accesses (fence included) is exactly the one that was classified. -/
theorem orderings_sufficient :
    AranyaV.Gen.ConcOrd.arcShape =
      ["clone:strong:fetch_add", "drop:strong:fetch_sub", "drop:-:fence"] ∧
    sufficient arcOrdRoles AranyaV.Gen.ConcOrd.arcOrds = true :=
  ⟨rfl, by decide⟩

/-- **The counter counts the handles**: `strong` = handles owned by all threads + handles in
the middle of `drop` (before their `fetch_sub`). -/
theorem strong_eq_handles {n : Nat} {s : State} (h : Reachable n s) :
    s.strong = sumH s.ths + s.count atDrop :=
  (inv_of_reachable h).strong_eq

/-- a thread inside `clone` or reading really owns a handle (so the counter is ≥ 1 there) -/
theorem op_has_handle {n : Nat} {s : State} (h : Reachable n s) {t : Nat} {th : Th}
    (ht : s.ths[t]? = some th) (hp : th.pc = .clone ∨ th.pc = .read) : 1 ≤ th.handles := by
  have h0 := (inv_of_reachable h).handle_ops
  simp only [State.count] at h0
  cases hz : th.handles with
  | zero =>
    have : noHandleOp th = true := by
      rcases hp with hp | hp <;> simp [noHandleOp, hp, hz]
    have := countP_pos_of_get noHandleOp ht this
    omega
  | succ k => omega

/-- **Freed at most once, and never while a handle is live.** -/
theorem free_once {n : Nat} {s : State} (h : Reachable n s) :
    s.freed ≤ 1 ∧ (1 ≤ s.live → s.freed = 0 ∧ s.count atFree = 0) := by
  have hI := inv_of_reachable h
  have hs := hI.strong_eq
  refine ⟨?_, fun hl => hI.live_unfreed (by omega)⟩
  by_cases h0 : s.strong = 0
  · have := hI.dead_freed h0; omega
  · have := (hI.live_unfreed (by omega)).1; omega

/-- **No access after free**: neither the `fetch_add`/`fetch_sub` nor any read of the string
data ever touches the allocation after it was freed. -/
theorem no_access_after_free {n : Nat} {s : State} (h : Reachable n s) : s.uaf = false :=
  (inv_of_reachable h).no_uaf

/-- **No leak**: once every handle has been dropped (no thread owns one, none is in the middle
of `drop`, and the thread that saw the count reach zero has executed its free), the
allocation has been freed — exactly once. -/
theorem no_leak {n : Nat} {s : State} (h : Reachable n s) (hh : sumH s.ths = 0)
    (hd : s.count atDrop = 0) (hf : s.count atFree = 0) : s.freed = 1 := by
  have hI := inv_of_reachable h
  have hs := hI.strong_eq
  simp only [State.live] at hs
  have := hI.dead_freed (by omega); omega

/-- between the last `fetch_sub` and the free exactly one thread is responsible for freeing -/
theorem one_freer {n : Nat} {s : State} (h : Reachable n s) (hl : s.live = 0) :
    s.freed + s.count atFree = 1 := by
  have hI := inv_of_reachable h
  have hs := hI.strong_eq
  exact hI.dead_freed (by omega)

/-! ## non-vacuity -/

/-- clone on thread 0, move the clone to thread 1, both drop in an interleaved way; the second
`fetch_sub` sees 1 and frees -/
example : exec (init 1) [(0, .startClone), (0, .step), (0, .give 1), (1, .startRead),
    (0, .startDrop), (1, .step), (1, .startDrop), (0, .step), (1, .step), (1, .step)]
    = some ⟨0, 1, false, [⟨.idle, 0⟩, ⟨.idle, 0⟩]⟩ := by decide

/-- a thread without a handle cannot clone, read or drop -/
example : step (init 1) 1 .startClone = none ∧ step (init 1) 1 .startRead = none ∧
    step (init 1) 1 .startDrop = none := by decide

end AranyaV.Arc
