import AranyaV.Proofs.SegmentsSearch
import AranyaV.Proofs.SegmentsBuild
import AranyaV.Proofs.SegmentsCheck
/-!
# C11 — Command lookup and ancestry queries are exact; skip lists never change answers

Theorems about `AranyaV.Segments` (model of the segment store, `search_queued`,
`Storage::get_location`, `get_location_from`, `is_ancestor`, `skip_target_boundaries`,
`build_skip_list`).  All statements quantify over every well-formed store (any number of segments,
any segment lengths, any DAG shape), every head set, every address and every location; there is
no size bound.  The traversal is the queue-driven one (model of `TraversalQueue` from C21).

`AncS s a b` is "a is an ancestor-or-self of b" and `Anc s a b` "a is a proper ancestor of b" in the
abstract command graph `absGraph s` (parents = previous command of the segment, or the segment's
prior for its first command).
-/
namespace AranyaV.Segments
open AranyaV.Queue

/-- the abstract graph's nodes are the command locations, with the parents `AncS` is built on -/
theorem absGraph_spec (s : Store) (nd : Node) :
    nd ∈ absGraph s ↔ nd.loc ∈ s.allLocs ∧ s.cmdAt nd.loc = some nd.id ∧ nd.parents = s.parents nd.loc := by
  unfold absGraph
  rw [List.mem_filterMap]
  constructor
  · rintro ⟨l, hl, h⟩
    cases hc : s.cmdAt l with
    | none => simp [hc] at h
    | some id => simp [hc] at h; subst h; exact ⟨hl, hc, rfl⟩
  · rintro ⟨h1, h2, h3⟩
    refine ⟨nd.loc, h1, ?_⟩
    cases nd; simp at *; simp [h2, h3]

/-! ## targets of the two searches -/

/-- a location holds the command with address `a` -/
def Holds (s : Store) (a : Addr) (x : Loc) : Prop := s.cmdAt x = some a.id ∧ x.mc = a.mc

theorem cmdAt_valid {s : Store} {x : Loc} {c : Nat} (h : s.cmdAt x = some c) : s.valid x = true := by
  simp [Store.valid, h]

theorem cmdAt_seg {s : Store} {x : Loc} {g : Seg} (hg : s.seg? x.seg = some g) :
    s.cmdAt x = g.getCommand x := by
  simp [Store.cmdAt, hg]

theorem target_addr (s : Store) (a : Addr) :
    Target s a.mc (fun g => g.getByAddress a) (Holds s a) := by
  refine ⟨fun x hx => ⟨hx.2, cmdAt_valid hx.1⟩, ?_, ?_⟩
  · intro i g y hg hy
    have hgi := seg?_idx hg
    unfold Seg.getByAddress at hy
    cases hc : g.getCommand ⟨a.mc, g.idx⟩ with
    | none => simp [hc] at hy
    | some id =>
      simp only [hc] at hy
      by_cases hid : id = a.id
      · simp only [hid, if_true, Option.some.injEq] at hy
        subst hy
        refine ⟨⟨?_, rfl⟩, hgi⟩
        rw [cmdAt_seg (g := g) (by simpa [hgi] using hg), hc, hid]
      · simp [hid] at hy
  · intro i g hg hn x hx hxs
    have hgi := seg?_idx hg
    have hxg : s.seg? x.seg = some g := by rw [hxs]; exact hg
    have hc := hx.1
    rw [cmdAt_seg hxg] at hc
    have hxe : x = ⟨a.mc, g.idx⟩ := by cases x; simp at *; exact ⟨hx.2, by omega⟩
    unfold Seg.getByAddress at hn
    rw [← hxe, hc] at hn
    simp at hn

theorem target_loc (s : Store) (search : Loc) :
    Target s search.mc (isAncestorHit search) (fun x => x = search ∧ s.valid search = true) := by
  refine ⟨fun x hx => ⟨by rw [hx.1], by rw [hx.1]; exact hx.2⟩, ?_, ?_⟩
  · intro i g y hg hy
    unfold isAncestorHit at hy
    by_cases hc : (g.getCommand search).isSome = true
    · simp only [hc, if_true, Option.some.injEq] at hy
      subst hy
      obtain ⟨h1, h2, h3⟩ := getCommand_isSome.mp hc
      have hgi := seg?_idx hg
      refine ⟨⟨rfl, ?_⟩, by omega⟩
      exact valid_of_seg (g := g) (by rw [← h1, hgi]; exact hg) h2 h3
    · simp [hc] at hy
  · intro i g hg hn x hx hxs
    obtain ⟨rfl, hv⟩ := hx
    obtain ⟨g', hg', h1, h2⟩ := valid_iff.mp hv
    rw [hxs, hg] at hg'; cases hg'
    unfold isAncestorHit at hn
    have : (g.getCommand x).isSome = true :=
      getCommand_isSome.mpr ⟨by rw [seg?_idx hg, hxs], h1, h2⟩
    simp [this] at hn

/-- a search seeded with the start locations whose max cut is at least the target's -/
theorem search_from {s : Store} (hwf : WF s) {tmc : Nat} {hit : Seg → Option Loc} {T : Loc → Prop}
    (ht : Target s tmc hit T) (hs : List Loc) (hv : ∀ h ∈ hs, s.valid h = true) :
    ∃ r, searchLoop s tmc hit s.fuel (pushPriors Queue.new hs tmc) = .ok r ∧
      (∀ y, r = some y → T y ∧ ∃ h ∈ hs, AncS s y h) ∧
      (r = none → ∀ x, T x → ∀ h ∈ hs, ¬ AncS s x h) := by
  obtain ⟨hq, hin, hcov⟩ := pushPriors_spec hs tmc qok_new
  have hin' : ∀ e ∈ (pushPriors Queue.new hs tmc).unc, e ∈ hs ∧ tmc ≤ e.mc := by
    intro e he
    rcases hin e he with h | h
    · simp [Queue.new] at h
    · exact h
  obtain ⟨r, hr, h1, h2⟩ := searchLoop_spec hwf ht s.fuel _ hq
    (fun e he => ⟨hv e (hin' e he).1, (hin' e he).2⟩) (cnt_lt_fuel s _)
  refine ⟨r, hr, ?_, ?_⟩
  · intro y hy
    obtain ⟨hT, e, he, hye⟩ := h1 y hy
    exact ⟨hT, e, (hin' e he).1, hye⟩
  · intro hn x hTx h hh hxh
    have hxm := (ht.mc x hTx).1
    have hle := hxh.mc_le hwf.priors
    obtain ⟨e', he', hs', hm'⟩ := hcov h (Or.inr ⟨hh, by omega⟩)
    exact h2 hn x hTx e' he'
      (hxh.trans (chain_loc (hv h hh) (hv e' (hin' e' he').1) hs'.symm hm'))

/-! ## `search_exact` -/

/-- `Storage::get_location` is exact: on a well-formed store, searching from a committed head set
never fails; it reports a location iff the address belongs to a command that is an ancestor-or-self
of some head, and the reported location holds that command (same id, same max cut) and is itself
an ancestor-or-self of a head. -/
theorem search_exact {s : Store} (hwf : WF s) (heads : List Loc) (hh : ∀ h ∈ heads, s.valid h = true)
    (a : Addr) :
    ∃ r, getLocation s heads a = .ok r ∧
      (∀ loc, r = some loc → Holds s a loc ∧ ∃ h ∈ heads, AncS s loc h) ∧
      (r.isSome = true ↔ ∃ x, Holds s a x ∧ ∃ h ∈ heads, AncS s x h) := by
  obtain ⟨r, hr, h1, h2⟩ := search_from hwf (target_addr s a) heads hh
  refine ⟨r, hr, h1, ?_⟩
  constructor
  · intro hs
    obtain ⟨y, rfl⟩ := Option.isSome_iff_exists.mp hs
    exact ⟨y, h1 y rfl⟩
  · rintro ⟨x, hx, h, hh', hxh⟩
    cases r with
    | some _ => rfl
    | none => exact absurd hxh (h2 rfl x hx h hh')

/-- `Storage::get_location_from` is exact in the same sense, for a single start location. -/
theorem search_exact_from {s : Store} (hwf : WF s) (start : Loc) (hst : s.valid start = true)
    (a : Addr) :
    ∃ r, getLocationFrom s start a = .ok r ∧
      (∀ loc, r = some loc → Holds s a loc ∧ AncS s loc start) ∧
      (r.isSome = true ↔ ∃ x, Holds s a x ∧ AncS s x start) := by
  unfold getLocationFrom
  by_cases hlt : start.mc < a.mc
  · refine ⟨none, by simp [hlt], by simp, ?_⟩
    simp only [Option.isSome_none, Bool.false_eq_true, false_iff, not_exists, not_and]
    intro x hx hxs
    have := hxs.mc_le hwf.priors
    have := hx.2
    omega
  · simp only [hlt, if_false]
    have hq : Queue.new.push start = pushPriors Queue.new [start] a.mc := by
      simp [pushPriors]; omega
    unfold searchQueued
    rw [hq]
    obtain ⟨r, hr, h1, h2⟩ := search_from hwf (target_addr s a) [start]
      (by intro h hh; simp at hh; subst hh; exact hst)
    refine ⟨r, hr, ?_, ?_⟩
    · intro loc hl
      obtain ⟨hT, h, hh, hlh⟩ := h1 loc hl
      simp at hh; subst hh
      exact ⟨hT, hlh⟩
    · constructor
      · intro hs
        obtain ⟨y, rfl⟩ := Option.isSome_iff_exists.mp hs
        obtain ⟨hT, h, hh, hlh⟩ := h1 y rfl
        simp at hh; subst hh
        exact ⟨y, hT, hlh⟩
      · rintro ⟨x, hx, hxs⟩
        cases r with
        | some _ => rfl
        | none => exact absurd hxs (h2 rfl x hx start (by simp))

/-! ## `isAncestor_iff` -/

/-- `Storage::is_ancestor(search, start)` never fails on a well-formed store and answers `true`
exactly when `search` is a command location that is a PROPER ancestor of `start`. -/
theorem isAncestor_iff {s : Store} (hwf : WF s) (search start : Loc) (hst : s.valid start = true) :
    ∃ b, isAncestor s search start = .ok b ∧
      (b = true ↔ s.valid search = true ∧ Anc s search start) := by
  unfold isAncestor
  by_cases h0 : search.mc > start.mc ∨ search = start
  · refine ⟨false, by simp [h0], ?_⟩
    simp only [Bool.false_eq_true, false_iff, not_and]
    intro _ hanc
    have := hanc.mc_lt hwf.priors
    rcases h0 with h0 | h0
    · omega
    · subst h0; omega
  · simp only [h0, if_false]
    have hle : search.mc ≤ start.mc := by omega
    have hne : search ≠ start := fun h => h0 (Or.inr h)
    have hq : Queue.new.push start = pushPriors Queue.new [start] search.mc := by
      simp [pushPriors, hle]
    rw [hq]
    obtain ⟨r, hr, h1, h2⟩ := search_from hwf (target_loc s search) [start]
      (by intro h hh; simp at hh; subst hh; exact hst)
    rw [hr]
    refine ⟨r.isSome, rfl, ?_⟩
    constructor
    · intro hs
      obtain ⟨y, rfl⟩ := Option.isSome_iff_exists.mp hs
      obtain ⟨⟨rfl, hv⟩, h, hh, hlh⟩ := h1 y rfl
      simp at hh; subst hh
      rcases hlh.eq_or_anc with he | ha
      · exact absurd he hne
      · exact ⟨hv, ha⟩
    · rintro ⟨hv, ha⟩
      cases r with
      | some _ => rfl
      | none => exact absurd ha.ancS (h2 rfl search ⟨rfl, hv⟩ start (by simp))

/-! ## `skip_irrelevant` -/

theorem seg?_erase (s : Store) (i : Nat) :
    (eraseSkips s).seg? i = (s.seg? i).map (fun g => { g with skips := [] }) := by
  unfold Store.seg? eraseSkips
  rw [List.find?_map]
  rfl

theorem cmdAt_erase (s : Store) (l : Loc) : (eraseSkips s).cmdAt l = s.cmdAt l := by
  unfold Store.cmdAt
  rw [seg?_erase]
  cases s.seg? l.seg <;> simp [Seg.getCommand]

theorem valid_erase (s : Store) (l : Loc) : (eraseSkips s).valid l = s.valid l := by
  simp [Store.valid, cmdAt_erase]

theorem parents_erase (s : Store) (l : Loc) : (eraseSkips s).parents l = s.parents l := by
  unfold Store.parents
  rw [seg?_erase]
  cases s.seg? l.seg <;> rfl

theorem ancS_erase (s : Store) (a b : Loc) : AncS (eraseSkips s) a b ↔ AncS s a b := by
  constructor
  · intro h
    induction h with
    | refl => exact AncS.refl _
    | step _ hm ih => exact AncS.step ih (by rw [← parents_erase]; exact hm)
  · intro h
    induction h with
    | refl => exact AncS.refl _
    | step _ hm ih => exact AncS.step ih (by rw [parents_erase]; exact hm)

theorem anc_erase (s : Store) (a b : Loc) : Anc (eraseSkips s) a b ↔ Anc s a b := by
  unfold Anc
  simp only [parents_erase, ancS_erase]

/-- erasing every skip list keeps a well-formed store well formed (and the graph unchanged) -/
theorem wf_erase {s : Store} (hwf : WF s) : WF (eraseSkips s) := by
  constructor
  · intro i g hg p hp
    rw [seg?_erase] at hg
    cases h : s.seg? i with
    | none => simp [h] at hg
    | some g0 =>
      simp [h] at hg; subst hg
      rw [valid_erase]
      exact hwf.priors i g0 h p hp
  · intro i g hg k hk
    rw [seg?_erase] at hg
    cases h : s.seg? i with
    | none => simp [h] at hg
    | some g0 => simp [h] at hg; subst hg; simp at hk

/-- Skip lists never change answers: on a well-formed store whose addresses are unique,
`get_location`, `get_location_from` and `is_ancestor` return exactly what they return on the same
store with every skip list erased (a plain parent-by-parent backward search). -/
theorem skip_irrelevant {s : Store} (hwf : WF s) (hu : UniqueAddr s) (heads : List Loc)
    (hh : ∀ h ∈ heads, s.valid h = true) (start : Loc) (hst : s.valid start = true)
    (a : Addr) (search : Loc) :
    getLocation s heads a = getLocation (eraseSkips s) heads a ∧
    getLocationFrom s start a = getLocationFrom (eraseSkips s) start a ∧
    isAncestor s search start = isAncestor (eraseSkips s) search start := by
  have hwe := wf_erase hwf
  have hholds : ∀ x, Holds (eraseSkips s) a x ↔ Holds s a x := by
    intro x; simp [Holds, cmdAt_erase]
  have same : ∀ {r1 r2 : Option Loc} {P : Prop},
      (∀ l, r1 = some l → Holds s a l) → (∀ l, r2 = some l → Holds s a l) →
      (r1.isSome = true ↔ P) → (r2.isSome = true ↔ P) → r1 = r2 := by
    intro r1 r2 P h1 h2 e1 e2
    cases r1 with
    | none =>
      cases r2 with
      | none => rfl
      | some l2 => exact absurd (e1.mpr (e2.mp rfl)) (by simp)
    | some l1 =>
      cases r2 with
      | none => exact absurd (e2.mpr (e1.mp rfl)) (by simp)
      | some l2 =>
        have a1 := h1 l1 rfl
        have a2 := h2 l2 rfl
        rw [hu l1 l2 a.id a1.1 a2.1 (by rw [a1.2, a2.2])]
  refine ⟨?_, ?_, ?_⟩
  · obtain ⟨r1, e1, p1, q1⟩ := search_exact hwf heads hh a
    obtain ⟨r2, e2, p2, q2⟩ := search_exact hwe heads (by intro h hm; rw [valid_erase]; exact hh h hm) a
    rw [e1, e2]
    congr 1
    apply same (fun l hl => (p1 l hl).1) (fun l hl => (hholds l).mp (p2 l hl).1) q1
    rw [q2]
    simp only [hholds, ancS_erase]
  · obtain ⟨r1, e1, p1, q1⟩ := search_exact_from hwf start hst a
    obtain ⟨r2, e2, p2, q2⟩ := search_exact_from hwe start (by rw [valid_erase]; exact hst) a
    rw [e1, e2]
    congr 1
    apply same (fun l hl => (p1 l hl).1) (fun l hl => (hholds l).mp (p2 l hl).1) q1
    rw [q2]
    simp only [hholds, ancS_erase]
  · obtain ⟨b1, e1, q1⟩ := isAncestor_iff hwf search start hst
    obtain ⟨b2, e2, q2⟩ := isAncestor_iff hwe search start (by rw [valid_erase]; exact hst)
    rw [e1, e2]
    congr 1
    rw [valid_erase, anc_erase] at q2
    cases b1 <;> cases b2 <;> simp_all

/-! ## `boundaries` -/

theorem boundariesLoop_spec (gapMin n : Nat) (hg : 1 ≤ gapMin) :
    ∀ f b acc, n - b < f → (b = 0 ∨ b < n) → acc.Pairwise (· < ·) → (∀ a ∈ acc, 0 < a ∧ a < b) →
      ∃ l, boundariesLoop gapMin n f b acc = .ok l ∧ l.Pairwise (· < ·) ∧ (∀ a ∈ l, 0 < a ∧ a < n) ∧
        (∀ a ∈ acc, a ∈ l) := by
  intro f
  induction f with
  | zero => intro b acc h; omega
  | succ f ih =>
    intro b acc hf hb hp hacc
    unfold boundariesLoop
    by_cases h0 : b = 0
    · subst h0
      exact ⟨acc, by simp, hp, fun a ha => absurd (hacc a ha).2 (by omega), fun a ha => ha⟩
    · have hbn : b < n := by omega
      simp only [h0, if_false]
      have hnb : ¬ n < b := by omega
      simp only [hnb, if_false]
      have hp' : (acc ++ [b]).Pairwise (· < ·) := by
        rw [List.pairwise_append]
        refine ⟨hp, by simp, ?_⟩
        intro a ha c hc
        simp at hc; subst hc; exact (hacc a ha).2
      have hin : ∀ a ∈ acc ++ [b], 0 < a ∧ a < n := by
        intro a ha
        rcases List.mem_append.mp ha with h | h
        · have := hacc a h; omega
        · simp at h; subst h; omega
      by_cases hgap : n - b ≤ gapMin
      · simp only [hgap, if_true]
        exact ⟨acc ++ [b], rfl, hp', hin, fun a ha => by simp [ha]⟩
      · simp only [hgap, if_false]
        have h2 : 1 ≤ (n - b) / 2 := by
          have : 2 ≤ n - b := by omega
          omega
        have hlt : (n - b) / 2 < n - b := by omega
        obtain ⟨l, hl, a1, a2, a3⟩ := ih (b + (n - b) / 2) (acc ++ [b]) (by omega) (Or.inr (by omega)) hp'
          (by
            intro a ha
            rcases List.mem_append.mp ha with h | h
            · have := hacc a h; omega
            · simp at h; subst h; omega)
        exact ⟨l, hl, a1, a2, fun a ha => a3 a (by simp [ha])⟩

theorem minSkipGap_pos : 1 ≤ AranyaV.Gen.minSkipGap := by decide

/-- `skip_target_boundaries(n)` terminates without error for every `n` (with `MIN_SKIP_GAP ≥ 1`;
a zero gap would loop forever once the remaining gap is 1), and its result is strictly increasing
with every boundary strictly between 0 and `n`. -/
theorem boundaries (n : Nat) :
    ∃ l, skipTargetBoundaries n = .ok l ∧ l.Pairwise (· < ·) ∧ ∀ b ∈ l, 0 < b ∧ b < n := by
  obtain ⟨l, h1, h2, h3, _⟩ := boundariesLoop_spec AranyaV.Gen.minSkipGap n minSkipGap_pos (n + 1) (n / 2) []
    (by omega) (by omega) (by simp) (by simp)
  exact ⟨l, h1, h2, h3⟩

/-- the same for every gap constant ≥ 1 (the theorem does not depend on the value 10) -/
theorem boundaries_generic (gapMin n : Nat) (hg : 1 ≤ gapMin) :
    ∃ l, boundariesLoop gapMin n (n + 1) (n / 2) [] = .ok l ∧ l.Pairwise (· < ·) ∧
      ∀ b ∈ l, 0 < b ∧ b < n := by
  obtain ⟨l, h1, h2, h3, _⟩ := boundariesLoop_spec gapMin n hg (n + 1) (n / 2) []
    (by omega) (by omega) (by simp) (by simp)
  exact ⟨l, h1, h2, h3⟩

/-! ## `skip_sound` -/

/-- `SkipsOK` (every skip entry of every segment is a proper ancestor of the segment — i.e. an
ancestor-or-self of one of its priors — that never jumps into a branch) is an invariant of writing
segments: if the store is well formed, the new segment's priors are command locations with smaller
max cut, and — for a merge — the recorded last common ancestor is a common ancestor-or-self of both
parents that does not cut into a branch (`Dom`, what `lca_pair` computes), then the store with the
segment appended by `LinearStorage::write` (skip list from `build_skip_list`) is well formed again,
and the ancestor relation between old commands is unchanged. -/
theorem skip_sound {s : Store} (hwf : WF s) (idx first : Nat) (ids : List Nat) (prior : Prior)
    (lca : Option Loc) (hfresh : s.seg? idx = none) (hids : ids ≠ [])
    (hprior : ∀ p ∈ prior.toList, s.valid p = true ∧ p.mc < first)
    (hlca : ∀ l r, prior = .merge l r → ∃ c, lca = some c ∧ Dom s c l r)
    {s' : Store} (hw : s.write idx first ids prior lca = .ok s') :
    WF s' ∧ (∀ a b, s.valid b = true → (AncS s' a b ↔ AncS s a b)) := by
  unfold Store.write at hw
  cases hb : buildSkipList s prior lca first with
  | error e => simp [hb] at hw
  | ok skips =>
    simp only [hb, Except.ok.injEq] at hw
    subst hw
    have hbs := build_sound hwf prior lca first (fun p hp => (hprior p hp).1)
      (fun l r h => by obtain ⟨c, hc, hd⟩ := hlca l r h; exact ⟨c, hc, hd.1⟩) hb
    let g' : Seg := { idx := idx, first := first, ids := ids, prior := prior, skips := skips }
    have hnew : (Store.mk (s.segs ++ [g'])).seg? idx = some g' := seg?_append_new (g' := g') hfresh
    have hlen : 0 < ids.length := List.length_pos_iff.mpr hids
    have hpar' : (Store.mk (s.segs ++ [g'])).parents ⟨first, idx⟩ = prior.toList :=
      parents_first (l := ⟨first, idx⟩) (g := g') hnew rfl hlen
    have hback : ∀ {a b}, AncS (Store.mk (s.segs ++ [g'])) a b → s.valid b = true → AncS s a b :=
      fun h hb => ancS_of_append hwf.priors (g' := g') hfresh h hb
    refine ⟨⟨?_, ?_⟩, fun a b hb => ⟨fun h => hback h hb, ancS_append⟩⟩
    · -- priors
      intro i g hg p hp
      by_cases hi : idx = i
      · subst hi
        rw [hnew] at hg; cases hg
        exact ⟨valid_append (hprior p hp).1, (hprior p hp).2⟩
      · rw [seg?_append_ne (g' := g') hi] at hg
        exact ⟨valid_append (hwf.priors i g hg p hp).1, (hwf.priors i g hg p hp).2⟩
    · -- skips
      intro i g hg k hk
      by_cases hi : idx = i
      · subst hi
        rw [hnew] at hg; cases hg
        have hk' := hbs k hk
        show SkipOK _ g' k
        unfold SkipOK
        simp only [Seg.firstLoc, g']
        cases prior with
        | none => exact hk'.elim
        | single p =>
          simp only at hk'
          have hpv := (hprior p (by simp [Prior.toList])).1
          refine ⟨valid_append hk'.1, ⟨p, by rw [hpar']; simp [Prior.toList], ancS_append hk'.2.1⟩, ?_⟩
          rintro x ⟨m, hm, hxm⟩ hle
          rw [hpar'] at hm
          simp [Prior.toList] at hm; subst hm
          exact ancS_append (hk'.2.2 x (hback hxm hpv) hle)
        | merge l r =>
          obtain ⟨c, hc, hdw⟩ := hk'
          obtain ⟨c', hc', hd⟩ := hlca l r rfl
          rw [hc] at hc'; cases hc'
          have hlv := (hprior l (by simp [Prior.toList])).1
          have hrv := (hprior r (by simp [Prior.toList])).1
          refine ⟨valid_append hdw.1,
            ⟨l, by rw [hpar']; simp [Prior.toList], ancS_append (hdw.2.1.trans hd.2.1)⟩, ?_⟩
          rintro x ⟨m, hm, hxm⟩ hle
          rw [hpar'] at hm
          have hkc := hdw.2.1.mc_le hwf.priors
          have hxc : AncS s x c := by
            simp [Prior.toList] at hm
            rcases hm with rfl | rfl
            · exact hd.2.2.2 x (Or.inl (hback hxm hlv)) (by omega)
            · exact hd.2.2.2 x (Or.inr (hback hxm hrv)) (by omega)
          exact ancS_append (hdw.2.2 x hxc hle)
      · rw [seg?_append_ne (g' := g') hi] at hg
        have hks := hwf.skips i g hg k hk
        have hgi := seg?_idx hg
        have hne : g'.idx ≠ g.firstLoc.seg := by simp [Seg.firstLoc, hgi, g']; exact hi
        refine ⟨valid_append hks.1, ?_, ?_⟩
        · obtain ⟨m, hm, h⟩ := hks.2.1
          exact ⟨m, by rw [parents_append hne]; exact hm, ancS_append h⟩
        · rintro x ⟨m, hm, hxm⟩ hle
          rw [parents_append hne] at hm
          have hmv := (parent_valid hwf.priors hm).1
          exact ancS_append (hks.2.2 x ⟨m, hm, hback hxm hmv⟩ hle)

/-- Writing a segment never takes an error branch of the model (`Bug`, missing segment, fuel of
the model's loops): under the hypotheses of `skip_sound`, on a store whose merge segments carry
their recorded ancestor, `write` succeeds, and the new store has that property again (so, with
`skip_sound` and `wf_init`, every store built by `write`s from an init segment is well formed and
every `write` on it succeeds). -/
theorem write_total {s : Store} (hwf : WF s) (hm : MergeSkips s) (idx first : Nat) (ids : List Nat)
    (prior : Prior) (lca : Option Loc) (hfresh : s.seg? idx = none)
    (hprior : ∀ p ∈ prior.toList, s.valid p = true ∧ p.mc < first)
    (hlca : ∀ l r, prior = .merge l r → ∃ c, lca = some c ∧ Dom s c l r) :
    ∃ s', s.write idx first ids prior lca = .ok s' ∧ MergeSkips s' := by
  obtain ⟨skips, hb, hne⟩ := build_total hwf hm prior lca first (fun p hp => (hprior p hp).1)
    (fun l r h => by obtain ⟨c, hc, hd⟩ := hlca l r h; exact ⟨c, hc, hd.1⟩)
    (fun n => by obtain ⟨l, hl, _⟩ := boundaries n; exact ⟨l, hl⟩)
  unfold Store.write
  rw [hb]
  refine ⟨_, rfl, ?_⟩
  intro i g hg l r hp
  by_cases hi : idx = i
  · subst hi
    rw [seg?_append_new (g' := { idx := idx, first := first, ids := ids, prior := prior, skips := skips }) hfresh] at hg
    cases hg
    exact hne l r hp
  · rw [seg?_append_ne (g' := { idx := idx, first := first, ids := ids, prior := prior, skips := skips }) hi] at hg
    exact hm i g hg l r hp

/-- the first store of a graph (init segment only) is well formed -/
theorem wf_init (idx : Nat) (ids : List Nat) : WF ⟨[{ idx, first := 0, ids, prior := .none, skips := [] }]⟩ := by
  constructor
  · intro i g hg p hp
    have := seg?_mem hg
    simp at this; subst this; simp [Prior.toList] at hp
  · intro i g hg k hk
    have := seg?_mem hg
    simp at this; subst this; simp at hk

/-! ## non-vacuity: concrete well-formed stores with merges and skip lists -/

/-- init `0:0..2`, two branches `1:3..4` and `2:3`, a merge `3:5` recording the fork point `0:2`,
a tail `4:6..7` whose skip list jumps over the merge -/
def exStore : Store := ⟨[
  { idx := 0, first := 0, ids := [10, 11, 12], prior := .none, skips := [] },
  { idx := 1, first := 3, ids := [13, 14], prior := .single ⟨2, 0⟩, skips := [] },
  { idx := 2, first := 3, ids := [15], prior := .single ⟨2, 0⟩, skips := [⟨0, 0⟩] },
  { idx := 3, first := 5, ids := [16], prior := .merge ⟨4, 1⟩ ⟨3, 2⟩, skips := [⟨2, 0⟩] },
  { idx := 4, first := 6, ids := [17, 18], prior := .single ⟨5, 3⟩, skips := [⟨1, 0⟩, ⟨5, 3⟩] }]⟩

example : WF exStore := checkWF_sound (by decide)
example : UniqueAddr exStore := checkUnique_sound (by decide)
-- the searches take skips on it, and answer what reachability says
example : (getLocation exStore [⟨7, 4⟩] ⟨11, 1⟩).toOption = some ((some ⟨1, 0⟩)) := by decide
example : (getLocation exStore [⟨7, 4⟩] ⟨15, 3⟩).toOption = some ((some ⟨3, 2⟩)) := by decide
example : (getLocation exStore [⟨4, 1⟩] ⟨15, 3⟩).toOption = some (none) := by decide
example : (getLocationFrom exStore ⟨4, 1⟩ ⟨13, 3⟩).toOption = some ((some ⟨3, 1⟩)) := by decide
example : (isAncestor exStore ⟨3, 2⟩ ⟨7, 4⟩).toOption = some (true) := by decide
example : (isAncestor exStore ⟨3, 2⟩ ⟨4, 1⟩).toOption = some (false) := by decide
example : (isAncestor exStore ⟨7, 4⟩ ⟨7, 4⟩).toOption = some (false) := by decide
-- a skip entry that jumps into a branch is rejected by `SkipsOK` (the check fails) ...
def badStore : Store := ⟨[
  { idx := 0, first := 0, ids := [10, 11, 12], prior := .none, skips := [] },
  { idx := 1, first := 3, ids := [13, 14], prior := .single ⟨2, 0⟩, skips := [] },
  { idx := 2, first := 3, ids := [15], prior := .single ⟨2, 0⟩, skips := [] },
  { idx := 3, first := 5, ids := [16], prior := .merge ⟨4, 1⟩ ⟨3, 2⟩, skips := [⟨3, 1⟩] }]⟩
example : checkWF badStore = false := by decide
-- ... and indeed makes the search miss a command of the graph
example : (getLocation badStore [⟨5, 3⟩] ⟨15, 3⟩).toOption = some (none) := by decide
example : (getLocation (eraseSkips badStore) [⟨5, 3⟩] ⟨15, 3⟩).toOption = some ((some ⟨3, 2⟩)) := by decide
-- `write` on a concrete store: hypotheses of `skip_sound` are satisfiable (single prior and merge)
example : (exStore.write 5 8 [19] (.single ⟨7, 4⟩) none).toOption.isSome = true := by decide
example : Dom exStore ⟨2, 0⟩ ⟨4, 1⟩ ⟨3, 2⟩ := by
  have hp : PriorsOK exStore := (checkWF_sound (s := exStore) (by decide)).priors
  refine ⟨by decide, (ancSB_iff hp).mp (by decide), (ancSB_iff hp).mp (by decide), ?_⟩
  intro x hx hle
  have hxv : exStore.valid x = true := by
    rcases hx with h | h
    · exact h.valid hp (by decide)
    · exact h.valid hp (by decide)
  have hmem := valid_mem_allLocs hxv
  have hx' : ancSB exStore x ⟨4, 1⟩ = true ∨ ancSB exStore x ⟨3, 2⟩ = true := by
    rcases hx with h | h
    · exact Or.inl ((ancSB_iff hp).mpr h)
    · exact Or.inr ((ancSB_iff hp).mpr h)
  apply (ancSB_iff hp).mp
  have hall : ∀ y ∈ exStore.allLocs,
      (ancSB exStore y ⟨4, 1⟩ = true ∨ ancSB exStore y ⟨3, 2⟩ = true) → y.mc ≤ 2 →
        ancSB exStore y ⟨2, 0⟩ = true := by decide
  exact hall x hmem hx' hle
example : (skipTargetBoundaries 100).toOption = some ([50, 75, 87, 93]) := by decide
example : (skipTargetBoundaries 21).toOption = some ([10, 15]) := by decide
example : (skipTargetBoundaries 1).toOption = some ([]) := by decide

end AranyaV.Segments
