import AranyaV.Proofs.Text
/-!
# C32 — Text and identifier values always satisfy their invariants

Property theorems for `AranyaV.Text` (model of `aranya_policy_text::{Text, Identifier}` and
their private `Repr`).  `TextOrigin t` / `IdentOrigin i` enumerate every public way a value can
come into existence (literal macros, `FromStr`/`TryFrom<String>`, `TryFrom<&CStr>`, `+`, serde,
rkyv checked access + deserialize, the two conversions between the types); the invariants are
proved for everything so reachable, for all inputs, with no length bound (inline, static and
heap representations alike).  `MAX_INLINE` and the width of the inline length field are the
generated `AranyaV.Gen.Text` constants; the one fact needed of them, `MAX_INLINE < 2^8`
(`maxInline_fits`), is re-checked by `decide` on every run.
-/
namespace AranyaV.Text
open AranyaV.Gen.Text

def NoNul (s : List UInt8) : Prop := (0 : UInt8) ∉ s

/-! ## the representation returns exactly what was stored -/

/-- `Repr::from_str(s).as_str() == s`, for the inline (`len ≤ MAX_INLINE`, `len as u8`,
`from_utf8_unchecked(&bytes[..len])`) and the heap representation: the unchecked slice is
exactly the input that was validated. -/
theorem repr_content (s : List UInt8) : (Repr.fromStr s).asStr = s :=
  repr_content_aux maxInline_fits s

/-- which representation is chosen -/
theorem repr_kind (s : List UInt8) : (Repr.fromStr s).isInline = decide (s.length ≤ maxInline) := by
  unfold Repr.fromStr; split <;> simp_all [Repr.isInline]

example : (Repr.fromStr (List.replicate 22 97)).isInline = true ∧
    (Repr.fromStr (List.replicate 23 97)).isInline = false := by decide

/-! ## validators decide the invariants, and report the first offending index -/

theorem validateText_spec (s : List UInt8) : validateText s = .ok () ↔ NoNul s :=
  validateText_ok_iff s

theorem validateText_index (s : List UInt8) (e : TextErr) (h : validateText s = .error e) :
    ∃ i, e = .containsNul i ∧ s[i]? = some 0 ∧ ∀ k, k < i → s[k]? ≠ some 0 :=
  validateText_err s e h

theorem validateIdent_spec (s : List UInt8) : validateIdent s = .ok () ↔ IdentOK s :=
  validateIdent_ok_iff s

/-- identifiers are non-empty, pure ASCII, NUL-free, hence valid text and valid UTF-8 -/
theorem ident_is_text (s : List UInt8) (h : IdentOK s) :
    s ≠ [] ∧ (∀ c ∈ s, c.toNat < 128) ∧ NoNul s ∧ utf8Valid s = true := by
  refine ⟨?_, fun c hc => (h.bytes c hc).2, h.noNul, utf8Valid_ascii s (fun c hc => (h.bytes c hc).2)⟩
  obtain ⟨b, rest, rfl, _, _⟩ := h
  simp

example : IdentOK [97, 95, 57] := ⟨97, [95, 57], rfl, by decide, by decide⟩

/-! ## every way to obtain a value -/

inductive IdentOrigin : Identifier → Prop
  | lit {s i} : Identifier.lit s = some i → IdentOrigin i
  | fromStr {s i} : Identifier.fromStr s = .ok i → IdentOrigin i
  | fromText {t i} : Identifier.fromText t = .ok i → IdentOrigin i
  | deserialize {raw i} : Identifier.deserialize raw = .ok i → IdentOrigin i
  | rkyv {raw a} : Identifier.access raw = .ok a → IdentOrigin a.deserialize

inductive TextOrigin : Text → Prop
  | new : TextOrigin Text.new
  | lit {s t} : Text.lit s = some t → TextOrigin t
  | fromStr {s t} : Text.fromStr s = .ok t → TextOrigin t
  | fromCStr {c t} : NoNul c → Text.fromCStr c = .ok t → TextOrigin t
  | add {a b t} : TextOrigin a → TextOrigin b → Text.add a b = .val t → TextOrigin t
  | deserialize {raw t} : Text.deserialize raw = .ok t → TextOrigin t
  | rkyv {raw a} : Text.access raw = .ok a → TextOrigin a.deserialize
  | ofIdent {i} : IdentOrigin i → TextOrigin i.toText

/-- **Every identifier, however produced, matches `[a-zA-Z][a-zA-Z0-9_]*`.** -/
theorem ctor_valid_ident {i : Identifier} (h : IdentOrigin i) : IdentOK i.asStr := by
  cases h with
  | @lit s i h =>
    unfold Identifier.lit at h
    cases s with
    | nil => cases h
    | cons b rest =>
      simp only at h
      split at h
      · rename_i hc
        injection h with h; subst h
        simp only [Bool.and_eq_true, List.all_eq_true] at hc
        exact ⟨b, rest, rfl, hc.1, hc.2⟩
      · cases h
  | @fromStr s i h =>
    unfold Identifier.fromStr at h
    split at h
    · cases h
    · rename_i hv
      injection h with h; subst h
      simp only [Identifier.asStr, Text.asStr, repr_content]
      exact (validateIdent_spec s).mp hv
  | @fromText t i h =>
    unfold Identifier.fromText at h
    split at h
    · cases h
    · rename_i hv
      injection h with h; subst h
      exact (validateIdent_spec _).mp hv
  | @deserialize raw i h =>
    unfold Identifier.deserialize at h
    split at h
    · cases h
    · simp only at h
      split at h
      · cases h
      · rename_i hv
        injection h with h; subst h
        exact (validateIdent_spec _).mp hv
  | @rkyv raw a h =>
    unfold Identifier.access at h
    split at h
    · cases h
    · split at h
      · cases h
      · rename_i hv
        injection h with h; subst h
        simp only [ArchivedIdentifier.deserialize, Identifier.asStr, Text.asStr, repr_content]
        exact (validateIdent_spec _).mp hv

theorem Text.access_ok {raw : List UInt8} {a : ArchivedText} (h : Text.access raw = .ok a) :
    a.bytes = raw ∧ utf8Valid raw = true ∧ NoNul raw := by
  unfold Text.access at h
  split at h
  · cases h
  · rename_i hu
    split at h
    · cases h
    · rename_i hv
      injection h with h; subst h
      exact ⟨rfl, by simpa using hu, (validateText_spec raw).mp hv⟩

/-- the archived views themselves (what `as_str` of a checked archive returns) -/
theorem archived_valid (raw : List UInt8) :
    (∀ a, Text.access raw = .ok a → NoNul a.bytes ∧ utf8Valid a.bytes = true) ∧
    (∀ a, Identifier.access raw = .ok a → IdentOK a.bytes) := by
  refine ⟨fun a h => ?_, fun a h => ?_⟩
  · obtain ⟨e, hu, hn⟩ := Text.access_ok h
    rw [e]; exact ⟨hn, hu⟩
  · unfold Identifier.access at h
    split at h
    · cases h
    · split at h
      · cases h
      · rename_i hv
        injection h with h; subst h
        exact (validateIdent_spec _).mp hv

theorem noNul_append {a b : List UInt8} (ha : NoNul a) (hb : NoNul b) : NoNul (a ++ b) := by
  simp only [NoNul, List.mem_append, not_or]; exact ⟨ha, hb⟩

/-- **Every text, however produced, contains no NUL byte.** -/
theorem ctor_valid {t : Text} (h : TextOrigin t) : NoNul t.asStr := by
  induction h with
  | new => simp [NoNul, Text.new, Text.asStr, Repr.asStr]
  | @lit s t h =>
    unfold Text.lit at h
    split at h
    · cases h
    · rename_i hc
      injection h with h; subst h
      simpa [NoNul, Text.asStr, Repr.asStr] using hc
  | @fromStr s t h =>
    unfold Text.fromStr at h
    split at h
    · cases h
    · rename_i hv
      injection h with h; subst h
      simp only [Text.asStr, repr_content]
      exact (validateText_spec s).mp hv
  | @fromCStr c t hc h =>
    unfold Text.fromCStr at h
    split at h
    · injection h with h; subst h
      simpa only [Text.asStr, repr_content] using hc
    · cases h
  | @add a b t _ _ h iha ihb =>
    unfold Text.add at h
    simp only at h
    split at h
    · cases h
    · injection h with h; subst h
      simp only [Text.asStr, repr_content]
      exact noNul_append iha ihb
  | @deserialize raw t h =>
    unfold Text.deserialize at h
    split at h
    · cases h
    · simp only at h
      split at h
      · cases h
      · rename_i hv
        injection h with h; subst h
        exact (validateText_spec _).mp hv
  | @rkyv raw a h =>
    obtain ⟨e, _, hn⟩ := Text.access_ok h
    simp only [ArchivedText.deserialize, Text.asStr, repr_content, e]
    exact hn
  | @ofIdent i h =>
    exact (ctor_valid_ident h).noNul

example : TextOrigin ⟨Repr.fromStr [104, 105]⟩ := .fromStr (s := [104, 105]) (by rfl)

/-- concatenation can never trip its `debug_assert!` -/
theorem concat_nonul {a b : Text} (ha : TextOrigin a) (hb : TextOrigin b) :
    ∃ t, Text.add a b = .val t ∧ t.asStr = a.asStr ++ b.asStr := by
  have h := noNul_append (ctor_valid ha) (ctor_valid hb)
  unfold Text.add
  simp only [(validateText_spec _).mpr h]
  exact ⟨_, rfl, by simp [Text.asStr, repr_content]⟩

/-- `Identifier::validate`'s `debug_assert!(Text::validate(s).is_ok())` can never fire -/
theorem validateIdentDbg_no_panic (s : List UInt8) :
    validateIdentDbg s = .val (validateIdent s) := by
  unfold validateIdentDbg
  cases h : validateIdent s with
  | error e => rfl
  | ok u =>
    have := ((validateIdent_spec s).mp (by rw [h])).noNul
    simp only [(validateText_spec s).mpr this]

/-! ## UTF-8: the `from_utf8_unchecked` in `as_str` is sound -/

/-- the same enumeration, with the typing guarantee of `&str` arguments made explicit -/
inductive TextOriginU : Text → Prop
  | new : TextOriginU Text.new
  | lit {s t} : utf8Valid s = true → Text.lit s = some t → TextOriginU t
  | fromStr {s t} : utf8Valid s = true → Text.fromStr s = .ok t → TextOriginU t
  | fromCStr {c t} : Text.fromCStr c = .ok t → TextOriginU t
  | add {a b t} : TextOriginU a → TextOriginU b → Text.add a b = .val t → TextOriginU t
  | deserialize {raw t} : Text.deserialize raw = .ok t → TextOriginU t
  | rkyv {raw a} : Text.access raw = .ok a → TextOriginU a.deserialize
  | ofIdent {i} : IdentOrigin i → TextOriginU i.toText

theorem ctor_utf8 {t : Text} (h : TextOriginU t) : utf8Valid t.asStr = true := by
  induction h with
  | new => rfl
  | @lit s t hu h =>
    unfold Text.lit at h
    split at h
    · cases h
    · injection h with h; subst h; exact hu
  | @fromStr s t hu h =>
    unfold Text.fromStr at h
    split at h
    · cases h
    · injection h with h; subst h
      simpa only [Text.asStr, repr_content] using hu
  | @fromCStr c t h =>
    unfold Text.fromCStr at h
    split at h
    · rename_i hu
      injection h with h; subst h
      simpa only [Text.asStr, repr_content] using hu
    · cases h
  | @add a b t _ _ h iha ihb =>
    unfold Text.add at h
    simp only at h
    split at h
    · cases h
    · injection h with h; subst h
      simp only [Text.asStr, repr_content] at iha ihb ⊢
      rw [utf8Valid_append _ _ iha]; exact ihb
  | @deserialize raw t h =>
    unfold Text.deserialize at h
    split at h
    · cases h
    · rename_i hu
      simp only at h
      split at h
      · cases h
      · injection h with h; subst h
        simp only [Text.asStr, repr_content]
        simpa using hu
  | @rkyv raw a h =>
    obtain ⟨e, hu, _⟩ := Text.access_ok h
    simp only [ArchivedText.deserialize, Text.asStr, repr_content, e]
    exact hu
  | @ofIdent i h =>
    exact (ident_is_text _ (ctor_valid_ident h)).2.2.2

/-! ## equality, order and hash depend only on the content -/

/-- `==`, `cmp` and the bytes fed to the hasher are functions of `as_str`: values with the same
content are equal, compare `Equal` and hash alike whatever their representation — and
conversely equal / `Equal` / same hash input force the same content. -/
theorem eq_ord_hash_content (a b : Repr) :
    (a.asStr = b.asStr → a.eq b = true ∧ a.cmp b = .eq ∧ a.hashInput = b.hashInput) ∧
    (a.eq b = true → a.asStr = b.asStr) ∧
    (a.cmp b = .eq → a.asStr = b.asStr) ∧
    (a.hashInput = b.hashInput → a.asStr = b.asStr) := by
  refine ⟨fun h => ?_, fun h => ?_, fun h => ?_, fun h => ?_⟩
  · simp [Repr.eq, Repr.cmp, Repr.hashInput, h, (cmpBytes_eq_iff _ _).mpr]
  · simpa [Repr.eq] using h
  · exact (cmpBytes_eq_iff _ _).mp h
  · simpa [Repr.hashInput] using h

/-- the same content stored as static, inline/heap (via `from_str`) is indistinguishable -/
theorem repr_indep (s : List UInt8) :
    (Repr.static s).eq (Repr.fromStr s) = true ∧ (Repr.static s).cmp (Repr.fromStr s) = .eq ∧
    (Repr.static s).hashInput = (Repr.fromStr s).hashInput ∧
    (Repr.heap s).eq (Repr.fromStr s) = true := by
  have h : (Repr.static s).asStr = (Repr.fromStr s).asStr := by rw [repr_content]; rfl
  have h' : (Repr.heap s).asStr = (Repr.fromStr s).asStr := by rw [repr_content]; rfl
  exact ⟨((eq_ord_hash_content _ _).1 h).1, ((eq_ord_hash_content _ _).1 h).2.1,
    ((eq_ord_hash_content _ _).1 h).2.2, ((eq_ord_hash_content _ _).1 h').1⟩

/-- `cmp` is a genuine order on contents: antisymmetric under swapping the arguments -/
theorem cmp_swap (a b : Repr) : b.cmp a = (a.cmp b).swap := cmpBytes_swap _ _

end AranyaV.Text
