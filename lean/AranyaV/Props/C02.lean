import AranyaV.Proofs.BraidRef
import AranyaV.Proofs.BraidResult
import AranyaV.Proofs.ConvMap
/-!
# C02 — Every command is applied once, after its ancestors; merges are never evaluated

Specification side (`Spec.Braid.refBraid`, the storage independent reference braid that the real
`braid`/`evaluate_braid` is tied to by the C02/C03 harnesses), for every well-formed graph `g`
(`WF g`: distinct ids, parents listed first, at most two distinct parents) and every legal head
set (`Heads g hs`: non-empty, duplicate free, known, pairwise incomparable):

* `refBraid_total`     — the braid never ends `malformed` (fuel suffices, the available set never
                         runs empty): the result is an order or `parallelFinalize`;
* `refBraid_perm`      — the order has no duplicates, and its members are *exactly* the non-merge
                         commands of `anc*(hs)` that are not ancestors-or-self of the start; as
                         lists: `order ++ nonMerge(anc*(start))` is a permutation of
                         `nonMerge(anc*(hs))`  (every command exactly once);
* `refBraid_topo`      — a proper ancestor is evaluated before its descendant;
* `refBraid_no_merge`  — no merge command is in the order.

Mechanism side (`Braid.BraidResult`, model of `braiding.rs::BraidResult/BraidIter`):
* `BraidResult.iter_rev` — for every block size `B ≥ 1` (in particular the generated
  `BRAID_BLOCK_ENTRIES`) iteration yields exactly the reverse of the push sequence, however many
  blocks were spilled.

Mechanism side (`ConvMap`, model of the block store of `convergence_map.rs`: in-memory blocks, LRU
spill to a root index + file, reload on lookup — **with the repaired disk scan**, see notes/C02.md):
* `convMap_lookup_unaffected_by_spill` — for every well-formed map (unique keys, entries inside the
  recorded range of their block), any number of blocks in memory and on disk and any capacity:
  `should_continue` terminates (structural recursion over the root index) and behaves like the
  abstract map — absent key → `true`, nothing changes; count `> 1` → `false`, count decremented; count
  `≤ 1` → `true`, entry removed — and the result map is well-formed again, whatever was evicted or
  reloaded on the way;
* `convMap_old_scan_cycles` — the scan as it was before the repair never terminates (for every fuel)
  on a concrete map with four blocks overlapping the queried max cut: the state repeats with period
  4; the repaired scan answers at once.
-/
namespace AranyaV.Spec
open AranyaV.Gen

theorem refBraid_total {g : Graph} (hw : WF g) {hs : List Nat} (hh : Heads g hs) :
    refBraid g hs ≠ .error .malformed := by
  intro h
  have := refBraid_spec hw hh
  rw [h] at this
  exact this

/-- the final state behind a successful braid -/
theorem refBraid_final {g : Graph} (hw : WF g) {hs : List Nat} (hh : Heads g hs) {s : Nat} {o : List Nat}
    (h : refBraid g hs = .ok (s, o)) :
    ∃ st, Inv g (ancSelfAll g hs) st ∧ st.avail = [s] ∧ st.out = o := by
  have := refBraid_spec hw hh
  rw [h] at this
  exact this

theorem idxOf_lt_of_pairwise {Rel : Nat → Nat → Prop} : ∀ (l : List Nat), l.Pairwise Rel →
    ∀ {a b : Nat}, a ∈ l → b ∈ l → a ≠ b → ¬ Rel b a → l.idxOf a < l.idxOf b := by
  intro l
  induction l with
  | nil => intro _ a b ha; simp at ha
  | cons x xs ih =>
    intro hp a b ha hb hne hr
    rw [List.pairwise_cons] at hp
    rw [List.idxOf_cons, List.idxOf_cons]
    by_cases exa : x = a
    · subst exa
      have : (x == b) = false := by simpa using hne
      simp only [beq_self_eq_true, this, cond_true, cond_false]
      omega
    · have hxa : (x == a) = false := by simpa using exa
      simp only [List.mem_cons] at ha hb
      have ha' : a ∈ xs := by
        rcases ha with e | h
        · exact absurd e.symm exa
        · exact h
      by_cases exb : x = b
      · subst exb; exact absurd (hp.1 a ha') hr
      · have hxb : (x == b) = false := by simpa using exb
        have hb' : b ∈ xs := by
          rcases hb with e | h
          · exact absurd e.symm exb
          · exact h
        simp only [hxa, hxb, cond_false]
        have := ih hp.2 ha' hb' hne hr
        omega

/-- **Exactly once.**  The evaluation order has no duplicates; a command is in it iff it is a
non-merge command of `anc*(hs)` that is not an ancestor-or-self of the start (those are in the
start's stored state).  In list form: order plus the start's non-merge ancestors-or-self is a
permutation of the non-merge commands of `anc*(hs)`. -/
theorem refBraid_perm {g : Graph} (hw : WF g) {hs : List Nat} (hh : Heads g hs) {s : Nat} {o : List Nat}
    (h : refBraid g hs = .ok (s, o)) :
    o.Nodup ∧ s ∈ ancSelfAll g hs ∧
    (∀ u, u ∈ o ↔ u ∈ ancSelfAll g hs ∧ u ∉ ancSelfAll g [s] ∧ isMergeId g u = false) ∧
    (o ++ (ancSelfAll g [s]).filter (fun u => !isMergeId g u)).Perm
      ((ancSelfAll g hs).filter (fun u => !isMergeId g u)) := by
  obtain ⟨st, hi, hA, hout⟩ := refBraid_final hw hh h
  have hR := region_ancSelfAll hw hh.sub
  have hsA : s ∈ st.avail := by rw [hA]; simp
  have hsR : s ∈ ancSelfAll g hs := ((hi.aIff s).mp hsA).1
  have hself : ∀ u, u ∈ ancSelfAll g [s] ↔ Reach g u s := by
    intro u; rw [mem_ancSelfAll hw]; simp
  have hmem : ∀ u, u ∈ o ↔ u ∈ ancSelfAll g hs ∧ u ∉ ancSelfAll g [s] ∧ isMergeId g u = false := by
    intro u
    rw [← hout, hi.outEq, List.mem_filter, final_processed_iff hw hR hi hA, hself]
    simp [and_assoc]
  have hnd : o.Nodup := by rw [← hout, hi.outEq]; exact hi.pNodup.sublist List.filter_sublist
  refine ⟨hnd, hsR, hmem, ?_⟩
  have hndS : ((ancSelfAll g [s]).filter (fun u => !isMergeId g u)).Nodup :=
    (ancSelfAll_nodup hw [s] (by simp)).sublist List.filter_sublist
  have hndH : ((ancSelfAll g hs).filter (fun u => !isMergeId g u)).Nodup :=
    (ancSelfAll_nodup hw hs hh.nodup).sublist List.filter_sublist
  rw [List.perm_ext_iff_of_nodup _ hndH]
  · intro u
    rw [List.mem_append, hmem, List.mem_filter, List.mem_filter, hself]
    constructor
    · rintro (⟨h1, _, h3⟩ | ⟨h1, h2⟩)
      · exact ⟨h1, by simp [h3]⟩
      · exact ⟨hR.reach hsR h1, h2⟩
    · rintro ⟨h1, h2⟩
      by_cases hr : Reach g u s
      · exact Or.inr ⟨hr, h2⟩
      · exact Or.inl ⟨h1, hr, by simpa using h2⟩
  · rw [List.nodup_append]
    refine ⟨hnd, hndS, ?_⟩
    intro a ha b hb e
    subst e
    rw [List.mem_filter] at hb
    exact ((hmem a).mp ha).2.1 hb.1

/-- **After its ancestors.**  If `a` is a proper ancestor of `b` and both are evaluated, `a` is
evaluated first. -/
theorem refBraid_topo {g : Graph} (hw : WF g) {hs : List Nat} (hh : Heads g hs) {s : Nat} {o : List Nat}
    (h : refBraid g hs = .ok (s, o)) {a b : Nat} (hab : anc g a b = true) (ha : a ∈ o) (hb : b ∈ o) :
    o.idxOf a < o.idxOf b := by
  obtain ⟨st, hi, _, hout⟩ := refBraid_final hw hh h
  obtain ⟨hne, hr⟩ := (anc_iff hw a b).mp hab
  have hp : o.Pairwise (fun x y => ¬ Reach g y x) := by
    rw [← hout, hi.outEq]; exact hi.order.filter _
  exact idxOf_lt_of_pairwise o hp ha hb hne (fun hn => hn hr)

/-- **Merges are never evaluated.** -/
theorem refBraid_no_merge {g : Graph} (hw : WF g) {hs : List Nat} (hh : Heads g hs) {s : Nat} {o : List Nat}
    (h : refBraid g hs = .ok (s, o)) : ∀ u ∈ o, isMergeId g u = false :=
  fun u hu => (((refBraid_perm hw hh h).2.2.1 u).mp hu).2.2

/-! ## non-vacuity: a nested-merge graph

```
        1 (init)
       / \
      2   3          2,3 basic
       \ / \
   (m) 4    5        4 = merge(2,3), 5 basic 1 on 3
       |    |
       6    |        6 basic on 4
        \  /
    heads {6, 5}
```
-/
def exCmd (i : Nat) (ps : List Nat) (p : Priority) : Cmd := { id := i, parents := ps, prio := p, body := [] }

def exG : Graph :=
  [exCmd 1 [] .init, exCmd 2 [1] (.basic 0), exCmd 3 [1] (.basic 1), exCmd 4 [2, 3] .merge,
   exCmd 5 [3] (.basic 1), exCmd 6 [4] (.basic 0)]

theorem exG_wf : WF exG := wfB_sound (by decide)

theorem exG_heads : Heads exG [6, 5] := ⟨by decide, by decide, by decide, by unfold Antichain; decide⟩

/-- removal order 6, 4 (merge, not recorded), 2; then only the strand 5 remains: start 5,
evaluation order 2, 6 — the merge 4 is in the region but not in the order; 2 precedes its
descendant 6. -/
theorem exG_braid : refBraid exG [6, 5] = .ok (5, [2, 6]) := by rfl

example : ∃ s o, WF exG ∧ Heads exG [6, 5] ∧ refBraid exG [6, 5] = .ok (s, o) ∧ o ≠ [] ∧
    anc exG 2 6 = true ∧ 2 ∈ o ∧ 6 ∈ o ∧ isMergeId exG 4 = true ∧ 4 ∈ ancSelfAll exG [6, 5] :=
  ⟨5, [2, 6], exG_wf, exG_heads, exG_braid, by decide, by decide, by decide, by decide, by decide, by decide⟩

example : [2, 6].idxOf 2 < [2, 6].idxOf 6 :=
  refBraid_topo exG_wf exG_heads exG_braid (a := 2) (b := 6) (by decide) (by decide) (by decide)

end AranyaV.Spec

namespace AranyaV.Braid
open AranyaV.Gen

/-- **Spill or no spill, iteration = reverse of the pushes** (for `BRAID_BLOCK_ENTRIES`). -/
theorem BraidResult.iter_rev_real {α : Type} (xs : List α) :
    ∃ r, pushAll braidBlockEntries BraidResult.new xs = some r ∧
      (iterOf r).collect braidBlockEntries (xs.length + 1) = some xs.reverse :=
  BraidResult.iter_rev braidBlockEntries (by decide) xs

/-- non-vacuity: block size 2, five pushes: two blocks spilled, one entry in memory -/
example : pushAll 2 BraidResult.new [1, 2, 3, 4, 5] = some { mem := [5], disk := [1, 2, 3, 4] } ∧
    (iterOf { mem := [5], disk := [1, 2, 3, 4] }).collect 2 6 = some [5, 4, 3, 2, 1] := by decide

end AranyaV.Braid

namespace AranyaV.ConvMap
open AranyaV.Gen

/-- **Lookup/consume of the convergence map is unaffected by spilling** (repaired disk scan; for
every root capacity, in particular the generated `ROOT_CAPACITY`). -/
theorem convMap_lookup_unaffected_by_spill {cap key mc : Nat} {m m' : CMap} {r : Bool} (hok : Ok m)
    (hmc : ∀ e ∈ content m, e.key = key → e.mc = mc)
    (h : shouldContinue cap m key mc = .ok (m', r)) :
    Ok m' ∧ Behaves (content m) key (content m') r :=
  shouldContinue_spec hok hmc h

/-- four blocks (three in memory, one spilled) that all hold entries with max cut 5; the key 99
(max cut 5) has no entry -/
def exBlk (ks : List Nat) (last : Nat) : Block :=
  { lo := 5, hi := 5, entries := ks.map (fun k => { key := k, mc := 5, count := 2 }), last := last }

def exMap : CMap :=
  { mem := [exBlk [1, 2] 1, exBlk [3, 4] 2, exBlk [5, 6] 3], root := [exBlk [7, 8] 0], active := 0, counter := 3 }

theorem exMap_ok : Ok exMap :=
  ⟨by decide, by decide, by decide, by decide⟩

/-- one iteration of the old scan at root index 0 (the block there is in range, the key is absent) -/
def fwdStep (m : CMap) : CMap :=
  match loadBlock convRootCapacity m 0 with
  | .ok (m', _) => m'
  | .error _ => m

/-- the map after three iterations of the old scan; from here on the scan has period 4 -/
def exMap3 : CMap := fwdStep (fwdStep (fwdStep exMap))

theorem fwd_prefix (n : Nat) :
    scanFwd convRootCapacity 99 5 (n + 3) 0 exMap = scanFwd convRootCapacity 99 5 n 0 exMap3 := by rfl

theorem fwd_cycle (n : Nat) :
    scanFwd convRootCapacity 99 5 (n + 4) 0 exMap3 = scanFwd convRootCapacity 99 5 n 0 exMap3 := by rfl

theorem fwd_never3 : ∀ n, scanFwd convRootCapacity 99 5 n 0 exMap3 = .ok none := by
  intro n
  induction n using Nat.strongRecOn with
  | _ n ih =>
    match n with
    | 0 => rfl
    | 1 => rfl
    | 2 => rfl
    | 3 => rfl
    | k + 4 => rw [fwd_cycle]; exact ih k (by omega)

/-- **The scan as it was before the repair never terminates** on `exMap` for the absent key 99 (for
every amount of fuel the answer is "still scanning"), while the repaired scan answers `true` at
once and finds the present key 7 on disk (`false`: its count 2 is decremented). -/
theorem convMap_old_scan_cycles :
    (∀ fuel, scanFwd convRootCapacity 99 5 fuel 0 exMap = .ok none) ∧
    (shouldContinue convRootCapacity exMap 99 5).toOption.map (·.2) = some true ∧
    (shouldContinue convRootCapacity exMap 7 5).toOption.map (·.2) = some false := by
  refine ⟨?_, by rfl, by rfl⟩
  intro fuel
  match fuel with
  | 0 => rfl
  | 1 => rfl
  | 2 => rfl
  | k + 3 => rw [fwd_prefix]; exact fwd_never3 k

example : ∃ m' r, shouldContinue convRootCapacity exMap 7 5 = .ok (m', r) ∧ Ok m' ∧
    Behaves (content exMap) 7 (content m') r := by
  cases h : shouldContinue convRootCapacity exMap 7 5 with
  | error e =>
    have h2 : (shouldContinue convRootCapacity exMap 7 5).toOption.map (·.2) = some false := by rfl
    rw [h] at h2; cases h2
  | ok p =>
    obtain ⟨m', r⟩ := p
    exact ⟨m', r, rfl, convMap_lookup_unaffected_by_spill exMap_ok (by decide) h⟩

end AranyaV.ConvMap
