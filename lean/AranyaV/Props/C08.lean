import AranyaV.Proofs.TrxClient
/-!
# C08 — Transactions are isolated and history only grows

The client as a labelled transition system (`Model/Trx.lean`: `Op`, `step`, `run`): any number of
concurrently open transactions (`&mut ClientState` serialises the calls, so an interleaving is a
list of operations), `add_commands`, `flush`, `commit`, dropped transactions and actions.
`ClientInv` (Proofs/TrxClient.lean) holds of the empty client and is kept by every step
(`step_inv`); the theorems hold for every state satisfying it, hence after every history.
-/
namespace AranyaV.Trx
open AranyaV.Spec AranyaV.Gen

/-- a commit that reports `Ok(true)` has moved the stamp (no invariant needed) -/
theorem commit_true_stamp {st : Store} {t : Trx} {sink : List SinkEv}
    (h : (commit (some st) t sink).2.2 = .ok true) :
    ∃ st', (commit (some st) t sink).1 = some st' ∧ st'.stamp = st.stamp + 1 := by
  cases ho : t.offset with
  | none => simp [commit, ho] at h
  | some o =>
    by_cases h1 : o = st.stamp
    case neg => simp [commit, ho, h1] at h
    subst h1
    by_cases h2 : flushErr t = true
    · simp [commit, ho, h2] at h
    by_cases h3 : (flushT t).heads.isEmpty = true
    · simp [commit, ho, h2, h3] at h
    have h2' : flushErr t = false := by simpa using h2
    have h3' : (flushT t).heads.isEmpty = false := by simpa using h3
    unfold commit at h ⊢
    simp only [ho, ne_eq, not_true_eq_false, if_false, h2', h3', Bool.false_eq_true] at h ⊢
    generalize (flushT t).heads.foldl hsPush [] = hs at h ⊢
    match hs with
    | [] =>
      simp only at h ⊢
      cases hb : braidFacts (st.graph ++ (flushT t).written) [] with
      | error e => simp [hb] at h
      | ok sf => exact ⟨_, rfl, rfl⟩
    | [x] =>
      simp only at h ⊢
      cases hso : stateOf (st.graph ++ (flushT t).written) x with
      | none => simp [hso] at h
      | some s => exact ⟨_, rfl, rfl⟩
    | x :: y :: l =>
      simp only at h ⊢
      cases hb : braidFacts (st.graph ++ (flushT t).written) (x :: y :: l) with
      | error e => simp [hb] at h
      | ok sf => exact ⟨_, rfl, rfl⟩

/-- **stamp_changes.**  Every step leaves the store alone or installs a store with the next stamp;
a commit that returns `Ok(true)` and a successful action always install the next stamp.  Over a
whole history the stamp never decreases and is equal to an earlier stamp only if the committed
state is that earlier state: a stamp value is never reused for a different head set. -/
theorem stamp_changes {cl : Client} (h : ClientInv cl) {st : Store} (hst : cl.store = some st) :
    (∀ op, ∃ st', (step cl op).1.store = some st' ∧ (st' = st ∨ st'.stamp = st.stamp + 1) ∧
      ((step cl op).2 = .committed true → st'.stamp = st.stamp + 1) ∧
      ((∃ ms pubs, op = .action ms pubs) → (step cl op).2 = .done → st'.stamp = st.stamp + 1)) ∧
    (∀ ops, ∃ st', (run cl ops).store = some st' ∧ st.stamp ≤ st'.stamp ∧ (st'.stamp = st.stamp → st' = st)) := by
  constructor
  · intro op
    obtain ⟨st', extra, hs', _, hc⟩ := step_graph_prefix h op hst
    refine ⟨st', hs', hc, ?_, ?_⟩
    · intro hres
      cases op with
      | commit s =>
        simp only [step] at hres hs'
        cases hg : getSlot cl.trxs s with
        | none => rw [hg] at hres; simp at hres
        | some t =>
          rw [hg] at hres hs'
          simp only [hst] at hres hs'
          cases hr : (commit (some st) t cl.sink).2.2 with
          | error e => rw [hr] at hres; simp at hres
          | ok b =>
            rw [hr] at hres
            simp only [Res.committed.injEq] at hres
            subst hres
            obtain ⟨st'', h1, h2⟩ := commit_true_stamp hr
            rw [h1] at hs'; injection hs' with hs'; subst hs'; exact h2
      | openT s => simp [step] at hres
      | dropT s => simp [step] at hres
      | add s b =>
        simp only [step] at hres
        cases hg : getSlot cl.trxs s with
        | none => rw [hg] at hres; simp at hres
        | some t =>
          rw [hg] at hres
          simp only at hres
          split at hres <;> simp at hres
      | flush s =>
        simp only [step] at hres
        cases hg : getSlot cl.trxs s with
        | none => rw [hg] at hres; simp at hres
        | some t =>
          rw [hg] at hres
          simp only [hst] at hres
          split at hres <;> simp at hres
      | action ms pubs =>
        simp only [step] at hres
        split at hres <;> simp at hres
      | newGraph pubs =>
        simp only [step] at hres
        split at hres <;> simp at hres
    · rintro ⟨ms, pubs, rfl⟩ hres
      simp only [step, hst] at hres hs'
      rcases action_spec cl.sink ms pubs (h.store st hst) with ⟨e, evs, hc', _⟩ | ⟨st'', _, _, _, _, hc', _, _, _, _, _, _, _, hstamp, _, _⟩
      · rw [hc'] at hres; simp at hres
      · rw [hc'] at hs'; injection hs' with hs'; subst hs'; exact hstamp
  · intro ops
    obtain ⟨st', _, hs', _, hle, heq⟩ := run_graph_prefix h ops hst
    exact ⟨st', hs', hle, heq⟩

/-- **commit_cases.**  `commit` of the transaction in slot `s`:
* it never read the heads → `Ok(false)`, nothing changes;
* its stamp differs from the store's → `ConcurrentTransaction`, the committed state is untouched;
* its stamp is current → the braid of the new heads is refused and the committed state is
  untouched, or `Ok(true)` and the committed graph is the previous graph plus the commands the
  transaction accepted, the head set is its frontier, the stamp is the next one. -/
theorem commit_cases {cl : Client} (h : ClientInv cl) {st : Store} (hst : cl.store = some st)
    {s : Nat} {t : Trx} (hg : getSlot cl.trxs s = some t) :
    match t.offset with
    | none => (step cl (.commit s)).2 = .committed false ∧ (step cl (.commit s)).1.store = some st
    | some o =>
      if o ≠ st.stamp then
        (step cl (.commit s)).2 = .err .concurrentTransaction ∧ (step cl (.commit s)).1.store = some st
      else
        (∃ e, (step cl (.commit s)).2 = .err e ∧ (e = .parallelFinalize ∨ e = .bug) ∧
          (step cl (.commit s)).1.store = some st) ∨
        (∃ st', (step cl (.commit s)).2 = .committed true ∧ (step cl (.commit s)).1.store = some st' ∧
          st'.graph = st.graph ++ accepted t ∧ st'.heads = frontier (cmds st'.graph) ∧
          st'.stamp = st.stamp + 1) := by
  have hs := h.store st hst
  have ht := h.trxs s t (getSlot_mem hg)
  rw [hst] at ht
  simp only [step, hg, hst]
  cases ho : t.offset with
  | none => simp [commit, ho]
  | some o =>
    simp only
    by_cases hne : o ≠ st.stamp
    · simp [commit, ho, hne]
    · simp only [hne, if_false]
      have he : o = st.stamp := by simpa using hne
      subst he
      simp only [TrxOK, ho] at ht
      rcases commit_live cl.sink hs (ht.2 trivial) ho with ⟨e, hc, hcase⟩ | ⟨st', sink', hc, hgr, hstamp, _, hfr⟩
      · left; rw [hc]; exact ⟨e, rfl, hcase, rfl⟩
      · right; rw [hc]; exact ⟨st', rfl, rfl, hgr, hfr, hstamp⟩

/-- `ConcurrentTransaction` is returned iff the transaction's stamp is not the store's -/
theorem concurrent_iff_stamp {cl : Client} (h : ClientInv cl) {st : Store} (hst : cl.store = some st)
    {s : Nat} {t : Trx} (hg : getSlot cl.trxs s = some t) :
    (step cl (.commit s)).2 = .err .concurrentTransaction ↔ ∃ o, t.offset = some o ∧ o ≠ st.stamp := by
  have hc := commit_cases h hst hg
  cases ho : t.offset with
  | none => rw [ho] at hc; simp only at hc; rw [hc.1]; simp
  | some o =>
    rw [ho] at hc
    simp only at hc
    by_cases hne : o ≠ st.stamp
    · rw [if_pos hne] at hc; rw [hc.1]; simp [hne]
    · rw [if_neg hne] at hc
      have : o = st.stamp := by simpa using hne
      constructor
      · intro hres
        rcases hc with ⟨e, he, hcase, _⟩ | ⟨st', he, _⟩
        · rw [he] at hres; injection hres with hres; subst hres; rcases hcase with e | e <;> cases e
        · rw [he] at hres; cases hres
      · rintro ⟨o', ho', hne'⟩
        injection ho' with ho'; subst ho'; exact absurd this hne'

/-- **ConcurrentTransaction exactly when another commit happened after the first read.**  A
transaction that read the heads when the committed state was `st` and is committed after an
arbitrary further history gets `ConcurrentTransaction` iff the committed state is no longer `st`,
i.e. iff some commit or action changed the head set in between. -/
theorem concurrent_iff {cl : Client} (h : ClientInv cl) {st : Store} (hst : cl.store = some st)
    (ops : List Op) {st' : Store} {s : Nat} {t : Trx} (hst' : (run cl ops).store = some st')
    (hg : getSlot (run cl ops).trxs s = some t) (ho : t.offset = some st.stamp) :
    (step (run cl ops) (.commit s)).2 = .err .concurrentTransaction ↔ st' ≠ st := by
  rw [concurrent_iff_stamp (run_inv h ops) hst' hg]
  obtain ⟨st'', _, hs'', _, hle, heq⟩ := run_graph_prefix h ops hst
  rw [hst'] at hs''; injection hs'' with hs''; subst hs''
  constructor
  · rintro ⟨o, ho', hne⟩ e
    rw [ho] at ho'; injection ho' with ho'; subst ho'; subst e; exact hne rfl
  · intro hne
    exact ⟨st.stamp, ho, fun e => hne (heq e.symm)⟩

/-- **monotone.**  Under every interleaving the committed graph only grows: the graph after a
history is the graph before it with commands appended, so no committed command ever disappears;
and by `Props.C09.heads_cover` all of it stays reachable from the committed heads. -/
theorem monotone {cl : Client} (h : ClientInv cl) {st : Store} (hst : cl.store = some st) (ops : List Op) :
    ∃ st' extra, (run cl ops).store = some st' ∧ st'.graph = st.graph ++ extra ∧
      (∀ x ∈ ids (cmds st.graph), x ∈ ids (cmds st'.graph)) ∧
      (∀ x ∈ ids (cmds st'.graph), ∃ hd ∈ st'.heads, Reach (cmds st'.graph) x hd) := by
  obtain ⟨st', extra, hs', hg, _, _⟩ := run_graph_prefix h ops hst
  refine ⟨st', extra, hs', hg, ?_, ?_⟩
  · intro x hx; rw [hg, cmds_append, ids_append]; exact List.mem_append_left _ hx
  · have hinv := (run_inv h ops).store st' hs'
    intro x hx
    obtain ⟨t, ht, hr⟩ := reach_tip hinv.wf x hx
    exact ⟨t, (hinv.heads t).mpr ht, hr⟩

/-- the same from the very beginning: a client that starts without storage -/
theorem monotone_from_start (gid : Nat) (ops₁ ops₂ : List Op) {st : Store}
    (hst : (run { gid := gid } ops₁).store = some st) :
    ∃ st', (run { gid := gid } (ops₁ ++ ops₂)).store = some st' ∧
      ∀ x ∈ ids (cmds st.graph), x ∈ ids (cmds st'.graph) := by
  have hinv := run_inv (ClientInv.init gid) ops₁
  obtain ⟨st', _, hs', _, hsub, _⟩ := monotone hinv hst ops₂
  refine ⟨st', ?_, hsub⟩
  rw [run, List.foldl_append]; exact hs'

/-! ## non-vacuity: two transactions race; the second commit is refused; an action also races -/

private def i0 : In := { cmd := { id := 1, parents := [], prio := .init, body := [.set 0 0] }, pol := true }
private def ca : In := { cmd := { id := 2, parents := [1], prio := .basic 0, body := [.set 1 1] }, pol := false }
private def cb : In := { cmd := { id := 3, parents := [1], prio := .basic 0, body := [.set 2 2] }, pol := false }
private def pa : Cmd := { id := 7, parents := [2], prio := .basic 0, body := [.set 3 3] }
private def hist : List AranyaV.Trx.Op :=
  [.openT 0, .add 0 [i0], .commit 0, .openT 1, .openT 2, .add 1 [ca], .add 2 [cb], .commit 1]

example : (step (run { gid := 1 } hist) (.commit 2)).2 = .err .concurrentTransaction := by decide +kernel
example : (run { gid := 1 } hist).store.map (fun s => (s.stamp, s.graph.map (·.cmd.id))) = some (2, [1, 2]) := by
  decide +kernel
example : (run { gid := 1 } (hist ++ [.openT 3, .add 3 [cb], .action [] [pa]])).store.map
    (fun s => (s.stamp, s.heads)) = some (3, [7]) := by decide +kernel
example : (step (run { gid := 1 } (hist ++ [.openT 3, .add 3 [cb], .action [] [pa]])) (.commit 3)).2 =
    .err .concurrentTransaction := by decide +kernel

end AranyaV.Trx
