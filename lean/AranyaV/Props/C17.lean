import AranyaV.Proofs.Sync
import AranyaV.Proofs.SyncFnsMain
/-!
# C17 — Sync sessions are sound and terminate

Theorems about the responder's side of a session (`AranyaV.Sync`, model of
`sync/responder.rs`) and the requester's order check (`sync/requester.rs`), for every store,
every `to_send` list, every limit value and every sequence of polls — no size bound.

* `sent_committed` — every command put into a response is stored in the responder's graph;
* `session_stream` — the concatenation of a session's responses is exactly the command sequence
  the `to_send` list stands for: nothing lost, nothing repeated, whatever the batching, including
  responses that stop inside a segment;
* `parents_first` — in that sequence every command's parents are earlier in the sequence or
  covered (known to the peer), given the closure property `ToSendOK` of the `to_send` list;
* `index_inc` — response indexes are `m, m+1, …` and `SyncEnd.max_index` is their count;
  `session_accepted` — so the requester's order check never fails;
* `poll_decreases`, `session_terminates` — every successful poll that is not the last one
  decreases `(remaining segments + remaining commands)`, so the session ends with `SyncEnd`
  after at most that many responses (limits ≥ 1);
* `no_loss_on_retry` — a poll into a buffer that is too small changes nothing: the next
  successful poll answers exactly what the failed one would have answered.
-/
namespace AranyaV.Sync
open AranyaV.Queue AranyaV.Segments

/-- what is still to be sent -/
def Responder.pending (r : Responder) : List Loc := r.toSend.drop r.nextSend

/-! ## one poll in the `Send` state -/

/-- Everything `get_next` does when the message fits. -/
theorem getNext_spec (lim : Limits) (s : Store) (sz : Nat → Nat) (r : Responder) :
    match getNext lim s sz r true with
    | (r', .syncEnd m) => r.pending = [] ∧ m = r.msgIndex ∧ r' = { r with state := .idle }
    | (r', .response i cmds) =>
        r.pending ≠ [] ∧ i = r.msgIndex ∧ r'.msgIndex = r.msgIndex + 1 ∧ r'.state = r.state ∧
        r'.has = r.has ∧
        cmds ++ streamIds s r'.pending = streamIds s r.pending ∧
        weight s r'.pending ≤ weight s r.pending ∧
        (1 ≤ lim.responseMax → weight s r'.pending < weight s r.pending) ∧
        cmds.length ≤ lim.responseMax
    | (r', .err _) => r.pending ≠ [] ∧ r' = { r with state := .reset }
    | (_, .tooSmall) => False
    | (_, .endSession) => False := by
  unfold getNext
  by_cases hend : r.nextSend ≥ r.toSend.length
  · have hp : r.pending = [] := by simp [Responder.pending, List.drop_eq_nil_iff.mpr hend]
    simp [hend, hp]
  · simp only [hend, if_false]
    have hne : r.pending ≠ [] := by
      simp only [Responder.pending, ne_eq, List.drop_eq_nil_iff]; omega
    cases hgc : getCommands lim s sz r with
    | error e => exact ⟨hne, rfl⟩
    | ok b =>
      simp only [if_true]
      unfold getCommands at hgc
      have hpre : (r.toSend.take r.nextSend).length = r.nextSend := by
        rw [List.length_take]; omega
      obtain ⟨h1, h2, h3, h4, _, _, _⟩ :=
        gcLoop_spec lim s sz (r.toSend.drop r.nextSend) (r.toSend.take r.nextSend) [] 0 b
          (by rw [hpre]; exact hgc)
      rw [List.take_append_drop] at h1 h2 h3
      simp only [List.nil_append] at h1
      refine ⟨hne, by simp, by simp, by simp, by simp, h1, h2, ?_, h4 (by simp)⟩
      intro hcap
      exact h3 hne (by simp only [List.length_nil]; omega)

/-! ## sent_committed -/

/-- every id of a stream is stored at a command location of the store -/
theorem streamIds_stored (s : Store) (ts : List Loc) :
    ∀ c ∈ streamIds s ts, ∃ l ∈ streamLocs s ts, s.cmdAt l = some c := by
  intro c hc
  have h := streamIds_eq_cmdAt s ts
  have hc' : some c ∈ (streamIds s ts).map some := List.mem_map.mpr ⟨c, hc, rfl⟩
  rw [← h] at hc'
  obtain ⟨l, hl, he⟩ := List.mem_map.mp hc'
  exact ⟨l, hl, he⟩

/-- **Every command the responder sends is committed in the responder's graph**: each id of a
response is the id stored at a command location of the responder's store (an element of
`absGraph s`), namely one of the locations its `to_send` list stands for. -/
theorem sent_committed (lim : Limits) (s : Store) (sz : Nat → Nat) (r r' : Responder) (i : Nat)
    (cmds : List Nat) (h : getNext lim s sz r true = (r', .response i cmds)) :
    ∀ c ∈ cmds, ∃ l ∈ streamLocs s r.pending, s.cmdAt l = some c ∧ s.valid l = true := by
  have hs := getNext_spec lim s sz r
  rw [h] at hs
  obtain ⟨_, _, _, _, _, hstream, _⟩ := hs
  intro c hc
  have : c ∈ streamIds s r.pending := by
    rw [← hstream]; exact List.mem_append_left _ hc
  obtain ⟨l, hl, he⟩ := streamIds_stored s _ c this
  exact ⟨l, hl, he, by simp [Store.valid, he]⟩

/-! ## traces of polls -/

/-- the messages produced by a sequence of polls; `fits` says per poll whether the caller's
buffer was large enough -/
def trace (lim : Limits) (s : Store) (heads : List Loc) (sz : Nat → Nat) :
    Responder → List Bool → List PollOut
  | _, [] => []
  | r, f :: fs => (poll lim s heads sz r f).2 :: trace lim s heads sz (poll lim s heads sz r f).1 fs

def finalState (lim : Limits) (s : Store) (heads : List Loc) (sz : Nat → Nat) :
    Responder → List Bool → Responder
  | r, [] => r
  | r, f :: fs => finalState lim s heads sz (poll lim s heads sz r f).1 fs

/-- indexes are consecutive from `m`; a `SyncEnd` carries the number of responses so far -/
def IndexOK : Nat → List PollOut → Prop
  | _, [] => True
  | m, .response i _ :: rest => i = m ∧ IndexOK (m + 1) rest
  | m, .syncEnd k :: rest => k = m ∧ IndexOK m rest
  | m, _ :: rest => IndexOK m rest

/-- how a poll moves `message_index` -/
theorem poll_index (lim : Limits) (s : Store) (heads : List Loc) (sz : Nat → Nat) (r : Responder)
    (f : Bool) :
    match (poll lim s heads sz r f).2 with
    | .response i _ => i = r.msgIndex ∧ (poll lim s heads sz r f).1.msgIndex = r.msgIndex + 1
    | .syncEnd k => k = r.msgIndex ∧ (poll lim s heads sz r f).1.msgIndex = r.msgIndex
    | _ => (poll lim s heads sz r f).1.msgIndex = r.msgIndex := by
  have key : ∀ (q : Responder),
      match (getNext lim s sz q f).2 with
      | .response i _ => i = q.msgIndex ∧ (getNext lim s sz q f).1.msgIndex = q.msgIndex + 1
      | .syncEnd k => k = q.msgIndex ∧ (getNext lim s sz q f).1.msgIndex = q.msgIndex
      | _ => (getNext lim s sz q f).1.msgIndex = q.msgIndex := by
    intro q
    unfold getNext
    by_cases hend : q.nextSend ≥ q.toSend.length
    · cases f <;> simp [hend]
    · simp only [hend, if_false]
      cases getCommands lim s sz q with
      | error e => simp
      | ok b => cases f <;> simp
  unfold poll pollG
  cases hst : r.state with
  | new => simp
  | idle => simp
  | stopped => simp
  | send => simpa using key r
  | reset => cases f <;> simp
  | start =>
    simp only
    cases findNeededG specOps lim s heads r.has with
    | error e => simp
    | ok ts => simpa using key { r with state := .send, toSend := ts }

/-- **Response indexes increase by one** from the responder's `message_index`, and
`SyncEnd.max_index` is the number of responses sent — for every sequence of polls, whether or
not the messages fit the caller's buffer. -/
theorem index_inc (lim : Limits) (s : Store) (heads : List Loc) (sz : Nat → Nat) (fs : List Bool) :
    ∀ r : Responder, IndexOK r.msgIndex (trace lim s heads sz r fs) := by
  induction fs with
  | nil => intro r; trivial
  | cons f fs ih =>
    intro r
    have hp := poll_index lim s heads sz r f
    have := ih (poll lim s heads sz r f).1
    simp only [trace]
    cases ho : (poll lim s heads sz r f).2 with
    | response i cmds =>
      rw [ho] at hp
      simp only [IndexOK]
      exact ⟨hp.1, by rw [← hp.2]; exact this⟩
    | syncEnd k =>
      rw [ho] at hp
      simp only [IndexOK]
      exact ⟨hp.1, by rw [← hp.2]; exact this⟩
    | endSession => rw [ho] at hp; simp only [IndexOK]; rw [← hp]; exact this
    | tooSmall => rw [ho] at hp; simp only [IndexOK]; rw [← hp]; exact this
    | err e => rw [ho] at hp; simp only [IndexOK]; rw [← hp]; exact this

/-- the requester fed with a list of messages: the results of `get_sync_commands` -/
def reqTrace : Requester → List PollOut → List (Except SErr (Option (List Nat)))
  | _, [] => []
  | q, o :: os => (q.receive o).2 :: reqTrace (q.receive o).1 os

/-- everything `get_next` can answer, for either outcome of the buffer check -/
theorem getNext_cases (lim : Limits) (s : Store) (sz : Nat → Nat) (q : Responder) (f : Bool) :
    match getNext lim s sz q f with
    | (q', .syncEnd m) => m = q.msgIndex ∧ q'.state = .idle ∧ q'.msgIndex = q.msgIndex
    | (q', .response i _) => i = q.msgIndex ∧ q'.msgIndex = q.msgIndex + 1 ∧ q'.state = q.state
    | (q', .err _) => q'.state = .reset
    | (q', .tooSmall) => q' = q
    | (_, .endSession) => False := by
  unfold getNext
  by_cases hend : q.nextSend ≥ q.toSend.length
  · cases f <;> simp [hend]
  · simp only [hend, if_false]
    cases getCommands lim s sz q with
    | error e => simp
    | ok b => cases f <;> simp

/-- responder and requester agree on the next index while the session is running -/
def Synced (r : Responder) (q : Requester) : Prop :=
  (r.state = .start ∨ r.state = .send) →
    (q.state = .start ∨ q.state = .waiting) ∧ q.nextIndex = r.msgIndex

theorem getNext_synced (lim : Limits) (s : Store) (sz : Nat → Nat) (r : Responder) (q : Requester)
    (f : Bool) (hst : r.state = .send)
    (h : (q.state = .start ∨ q.state = .waiting) ∧ q.nextIndex = r.msgIndex) :
    (∃ v, (q.receive (getNext lim s sz r f).2).2 = .ok v) ∧
      Synced (getNext lim s sz r f).1 (q.receive (getNext lim s sz r f).2).1 := by
  have hc := getNext_cases lim s sz r f
  cases hg : getNext lim s sz r f with
  | mk r' o =>
    rw [hg] at hc
    cases o with
    | syncEnd m =>
      obtain ⟨h1, h2, _⟩ := hc
      have : q.receive (.syncEnd m) = ({ q with state := .partialSync }, .ok none) := by
        simp [Requester.receive, h.1, h1, h.2]
      simp only [this]
      exact ⟨⟨_, rfl⟩, fun hh => by rw [h2] at hh; simp at hh⟩
    | response i cmds =>
      obtain ⟨h1, h2, h3⟩ := hc
      have : q.receive (.response i cmds) =
          ({ state := .waiting, nextIndex := q.nextIndex + 1 }, .ok (some cmds)) := by
        simp [Requester.receive, h.1, h1, h.2]
      simp only [this]
      exact ⟨⟨_, rfl⟩, fun _ => ⟨Or.inr rfl, by simp [h2, h.2]⟩⟩
    | err e =>
      refine ⟨⟨_, rfl⟩, fun hh => ?_⟩
      simp only at hc; rw [hc] at hh; simp at hh
    | tooSmall =>
      simp only at hc
      refine ⟨⟨_, rfl⟩, fun _ => ?_⟩
      rw [hc]; exact h
    | endSession => exact hc.elim

theorem poll_synced (lim : Limits) (s : Store) (heads : List Loc) (sz : Nat → Nat) (r : Responder)
    (q : Requester) (f : Bool) (h : Synced r q) :
    (∃ v, (q.receive (poll lim s heads sz r f).2).2 = .ok v) ∧
      Synced (poll lim s heads sz r f).1 (q.receive (poll lim s heads sz r f).2).1 := by
  unfold poll pollG
  cases hst : r.state with
  | new => exact ⟨⟨_, rfl⟩, fun hh => by simp [hst] at hh⟩
  | idle => exact ⟨⟨_, rfl⟩, fun hh => by simp [hst] at hh⟩
  | stopped => exact ⟨⟨_, rfl⟩, fun hh => by simp [hst] at hh⟩
  | reset =>
    cases f
    · exact ⟨⟨_, rfl⟩, fun hh => by simp at hh⟩
    · exact ⟨⟨_, rfl⟩, fun hh => by simp at hh⟩
  | send => exact getNext_synced lim s sz r q f hst (h (Or.inr hst))
  | start =>
    simp only
    cases findNeededG specOps lim s heads r.has with
    | error e =>
      refine ⟨⟨_, rfl⟩, fun _ => ?_⟩
      exact h (Or.inl hst)
    | ok ts =>
      exact getNext_synced lim s sz { r with state := .send, toSend := ts } q f rfl (h (Or.inl hst))

/-- **The requester's order check never fails on what the responder sends**: feed the messages of
any sequence of polls, in order, to a requester that expects the responder's `message_index` (a
fresh pair: both 0); every `get_sync_commands` call succeeds. -/
theorem session_accepted (lim : Limits) (s : Store) (heads : List Loc) (sz : Nat → Nat)
    (fs : List Bool) : ∀ (r : Responder) (q : Requester), Synced r q →
      ∀ x ∈ reqTrace q (trace lim s heads sz r fs), ∃ v, x = .ok v := by
  induction fs with
  | nil => intro r q _ x hx; simp [trace, reqTrace] at hx
  | cons f fs ih =>
    intro r q h x hx
    obtain ⟨⟨v, hv⟩, hs⟩ := poll_synced lim s heads sz r q f h
    simp only [trace, reqTrace, List.mem_cons] at hx
    rcases hx with hx | hx
    · exact ⟨v, hx.trans hv⟩
    · exact ih _ _ hs x hx

/-! ## no loss on retry -/

/-- **A poll into a buffer that is too small does not advance the session**: if a poll in the
`Start` or `Send` state answers `too-small`, then the next poll with a large enough buffer gives
exactly the message and the state the first poll would have given with a large enough buffer. -/
theorem no_loss_on_retry (lim : Limits) (s : Store) (heads : List Loc) (sz : Nat → Nat)
    (r : Responder) (hst : r.state = .start ∨ r.state = .send)
    (h : (poll lim s heads sz r false).2 = .tooSmall) :
    poll lim s heads sz (poll lim s heads sz r false).1 true = poll lim s heads sz r true := by
  have key : ∀ q : Responder, (getNext lim s sz q false).2 = .tooSmall →
      (getNext lim s sz q false).1 = q := by
    intro q hq
    unfold getNext at hq ⊢
    by_cases hend : q.nextSend ≥ q.toSend.length
    · simp [hend]
    · simp only [hend, if_false] at hq ⊢
      cases hgc : getCommands lim s sz q with
      | error e => rw [hgc] at hq; simp at hq
      | ok b => simp
  rcases hst with hst | hst
  · unfold poll pollG at h ⊢
    simp only [hst] at h ⊢
    cases hf : findNeededG specOps lim s heads r.has with
    | error e => rw [hf] at h; simp at h
    | ok ts =>
      rw [hf] at h
      simp only at h ⊢
      rw [key _ h]
  · unfold poll pollG at h ⊢
    simp only [hst] at h ⊢
    rw [key _ h, hst]

/-- in the `Send` state a too-small buffer leaves the responder exactly as it was -/
theorem tooSmall_unchanged (lim : Limits) (s : Store) (heads : List Loc) (sz : Nat → Nat)
    (r : Responder) (hst : r.state = .send)
    (h : (poll lim s heads sz r false).2 = .tooSmall) : (poll lim s heads sz r false).1 = r := by
  unfold poll pollG at h ⊢
  simp only [hst] at h ⊢
  unfold getNext at h ⊢
  by_cases hend : r.nextSend ≥ r.toSend.length
  · simp [hend]
  · simp only [hend, if_false] at h ⊢
    cases hgc : getCommands lim s sz r with
    | error e => rw [hgc] at h; simp at h
    | ok b => simp

/-! ## termination and the session's stream -/

/-- **Every successful poll that is not the last one makes progress**: in the `Send` state, with
`COMMAND_RESPONSE_MAX ≥ 1`, a poll whose message fits either ends the session (`SyncEnd`, exactly
when nothing is left), fails, or sends a response and strictly decreases the measure
`remaining entries + remaining commands`, while the commands sent plus what is left are exactly
what was left before. -/
theorem poll_decreases (lim : Limits) (s : Store) (heads : List Loc) (sz : Nat → Nat)
    (r : Responder) (hst : r.state = .send) (hcap : 1 ≤ lim.responseMax) :
    match poll lim s heads sz r true with
    | (r', .syncEnd m) => r.pending = [] ∧ m = r.msgIndex ∧ r'.state = .idle
    | (r', .response _ cmds) =>
        r'.state = .send ∧ weight s r'.pending < weight s r.pending ∧
        cmds ++ streamIds s r'.pending = streamIds s r.pending ∧ cmds.length ≤ lim.responseMax
    | (r', .err _) => r'.state = .reset
    | (_, .tooSmall) => False
    | (_, .endSession) => False := by
  have hs := getNext_spec lim s sz r
  unfold poll pollG
  simp only [hst]
  cases hg : getNext lim s sz r true with
  | mk r' o =>
    rw [hg] at hs
    cases o with
    | syncEnd m => obtain ⟨a, b, c⟩ := hs; exact ⟨a, b, by rw [c]⟩
    | response i cmds =>
      obtain ⟨_, _, _, h4, _, h6, _, h8, h9⟩ := hs
      exact ⟨by rw [h4, hst], h8 hcap, h6, h9⟩
    | err e => rw [hs.2]
    | tooSmall => exact hs
    | endSession => exact hs

/-- the concatenation of the commands of all responses in a list of messages -/
def sentIds : List PollOut → List Nat
  | [] => []
  | .response _ cmds :: rest => cmds ++ sentIds rest
  | _ :: rest => sentIds rest

/-- a message list that consists of responses followed by one `SyncEnd` -/
def EndsWithSyncEnd : List PollOut → Prop
  | [] => False
  | [.syncEnd _] => True
  | .response _ _ :: rest => EndsWithSyncEnd rest
  | _ => False

/-- **Every session ends with `SyncEnd` after finitely many responses, and delivers exactly its
`to_send` list.**  From the `Send` state with `COMMAND_RESPONSE_MAX ≥ 1`, polling with buffers that
fit: unless `get_commands` fails (a stored command batch larger than the message buffer, or a
storage error), there is a number `n ≤ remaining entries + remaining commands` such that the
first `n` polls answer responses and poll `n + 1` answers `SyncEnd`; the concatenation of those
responses is exactly the command sequence of `to_send[next_send..]`. -/
theorem session_terminates (lim : Limits) (s : Store) (heads : List Loc) (sz : Nat → Nat)
    (hcap : 1 ≤ lim.responseMax) :
    ∀ (w : Nat) (r : Responder), r.state = .send → weight s r.pending ≤ w →
      ∃ n, n ≤ w ∧
        ((EndsWithSyncEnd (trace lim s heads sz r (List.replicate (n + 1) true)) ∧
          sentIds (trace lim s heads sz r (List.replicate (n + 1) true)) = streamIds s r.pending ∧
          (finalState lim s heads sz r (List.replicate (n + 1) true)).state = .idle) ∨
         (∃ e, (trace lim s heads sz r (List.replicate (n + 1) true)).getLast? = some (.err e))) := by
  intro w
  induction w with
  | zero =>
    intro r hst hw
    have hp := poll_decreases lim s heads sz r hst hcap
    refine ⟨0, Nat.le_refl _, ?_⟩
    cases hpo : poll lim s heads sz r true with
    | mk r' o =>
      rw [hpo] at hp
      cases o with
      | syncEnd m =>
        left
        simp only [List.replicate, trace, finalState, hpo, EndsWithSyncEnd, sentIds, hp.1, true_and]
        exact ⟨by simp, hp.2.2⟩
      | response i cmds => omega
      | err e => right; exact ⟨e, by simp [List.replicate, trace, hpo]⟩
      | tooSmall => exact hp.elim
      | endSession => exact hp.elim
  | succ w ih =>
    intro r hst hw
    have hp := poll_decreases lim s heads sz r hst hcap
    cases hpo : poll lim s heads sz r true with
    | mk r' o =>
      rw [hpo] at hp
      cases o with
      | syncEnd m =>
        refine ⟨0, by omega, Or.inl ?_⟩
        simp only [List.replicate, trace, finalState, hpo, EndsWithSyncEnd, sentIds, hp.1, true_and]
        exact ⟨by simp, hp.2.2⟩
      | err e => exact ⟨0, by omega, Or.inr ⟨e, by simp [List.replicate, trace, hpo]⟩⟩
      | tooSmall => exact hp.elim
      | endSession => exact hp.elim
      | response i cmds =>
        obtain ⟨hst', hlt, hstream, _⟩ := hp
        obtain ⟨n, hn, hres⟩ := ih r' hst' (by omega)
        refine ⟨n + 1, by omega, ?_⟩
        have htr : trace lim s heads sz r (List.replicate (n + 1 + 1) true)
            = .response i cmds :: trace lim s heads sz r' (List.replicate (n + 1) true) := by
          rw [List.replicate_succ]; simp only [trace, hpo]
        have hfin : finalState lim s heads sz r (List.replicate (n + 1 + 1) true)
            = finalState lim s heads sz r' (List.replicate (n + 1) true) := by
          rw [List.replicate_succ]; simp only [finalState, hpo]
        rcases hres with ⟨h1, h2, h3⟩ | ⟨e, he⟩
        · left
          rw [htr, hfin]
          refine ⟨?_, ?_, h3⟩
          · simpa [EndsWithSyncEnd] using h1
          · simp only [sentIds, h2]; exact hstream
        · right
          refine ⟨e, ?_⟩
          rw [htr]
          have hne : trace lim s heads sz r' (List.replicate (n + 1) true) ≠ [] := by
            rw [List.replicate_succ]; simp [trace]
          rw [List.getLast?_cons_of_ne_nil hne] at *
          exact he

/-- no `CommandOverflow`: if every stored command fits `MAX_COMMAND_LENGTH`-sized slots of the
message buffer (`COMMAND_RESPONSE_MAX * maxLen ≤` buffer capacity), `get_commands` only fails on
a storage error. -/
theorem gcLoop_no_overflow (lim : Limits) (s : Store) (sz : Nat → Nat) (maxLen : Nat)
    (hsz : ∀ i, sz i ≤ maxLen) (hbuf : lim.responseMax * maxLen ≤ lim.dataMax) :
    ∀ (ts : List Loc) (i : Nat) (acc : List Nat) (used : Nat),
      acc.length ≤ lim.responseMax → used ≤ acc.length * maxLen →
      gcLoop lim s sz ts i acc used ≠ .error .commandOverflow := by
  intro ts
  induction ts with
  | nil => intro i acc used _ _ h; simp [gcLoop] at h
  | cons loc rest ih =>
    intro i acc used hacc hused h
    unfold gcLoop at h
    by_cases hfull : acc.length ≥ lim.responseMax
    · rw [if_pos hfull] at h; cases h
    · rw [if_neg hfull] at h
      cases hg : s.seg? loc.seg with
      | none => rw [hg] at h; cases h
      | some g =>
        rw [hg] at h
        dsimp only at h
        generalize htk : List.take (lim.responseMax - acc.length) (g.getFrom loc) = tk at h
        have htklen : tk.length ≤ lim.responseMax - acc.length := by
          rw [← htk, List.length_take]; omega
        have hsum : (tk.map sz).sum ≤ tk.length * maxLen := by
          clear htk htklen h
          induction tk with
          | nil => simp
          | cons x xs ihx =>
            simp only [List.map_cons, List.sum_cons, List.length_cons]
            have := hsz x
            rw [Nat.add_mul]; omega
        have hle : used + (tk.map sz).sum ≤ lim.dataMax := by
          have h1 : (acc.length + tk.length) * maxLen ≤ lim.responseMax * maxLen :=
            Nat.mul_le_mul_right _ (by omega)
          rw [Nat.add_mul] at h1
          omega
        split at h
        · omega
        · split at h
          · cases h
          · refine ih _ _ _ ?_ ?_ h
            · simp only [List.length_append]; omega
            · simp only [List.length_append, Nat.add_mul]; omega

/-! ## parents first -/

/-- **Commands arrive parents-first.**  If the `to_send` list has the closure property
`ToSendOK`, then in the sequence of command locations it stands for — which by `session_stream`
/ `session_terminates` is the concatenation of the session's responses, whatever the batching —
every parent of every command is either covered (an ancestor-or-self of the peer's sample) or
occurs earlier in the sequence. -/
theorem parents_first (s : Store) (cov : Loc → Prop) (ts : List Loc) (hok : ToSendOK s cov ts) :
    ∀ (pre post : List Loc) (x : Loc), streamLocs s ts = pre ++ x :: post →
      ∀ p ∈ s.parents x, cov p ∨ p ∈ pre := by
  -- generalise over a prefix of entries already emitted
  suffices H : ∀ (done rest : List Loc), ts = done ++ rest →
      ∀ (pre post : List Loc) (x : Loc), streamLocs s rest = pre ++ x :: post →
        ∀ p ∈ s.parents x, cov p ∨ p ∈ streamLocs s done ++ pre from
    fun pre post x h p hp => by simpa [streamLocs] using H [] ts rfl pre post x h p hp
  intro done rest
  induction rest generalizing done with
  | nil => intro _ pre post x h; simp [streamLocs] at h
  | cons e rest ih =>
    intro hts pre post x h p hp
    have hk : ts[done.length]? = some e := by rw [hts]; simp
    obtain ⟨⟨g, hg, hfirst⟩, hpar⟩ := hok _ _ hk
    simp only [streamLocs, List.flatMap_cons] at h
    -- is x inside the range of e, or later?
    by_cases hlen : pre.length < (entryLocs s e).length
    · -- x = e's location number pre.length
      have hx : x = ⟨e.mc + pre.length, e.seg⟩ := by
        have h1 : (entryLocs s e ++ List.flatMap (entryLocs s) rest)[pre.length]? = some x := by
          rw [h]; simp
        rw [List.getElem?_append_left hlen] at h1
        unfold entryLocs at h1 hlen
        simp only [List.length_map, List.length_range] at hlen
        rw [List.getElem?_map, List.getElem?_range hlen] at h1
        simpa using h1.symm
      have hpre : pre = (entryLocs s e).take pre.length := by
        have := congrArg (List.take pre.length) h
        rw [List.take_append_of_le_length (by omega), List.take_left'] at this
        · exact this.symm
        · rfl
      have hlenE : (entryLocs s e).length = (entryIds s e).length := by simp [entryLocs]
      rw [hlenE, entryIds_length_valid hg hfirst] at hlen
      by_cases hz : pre.length = 0
      · -- the entry's first command: the closure property
        have hxe : x = e := by rw [hx, hz]; cases e; rfl
        rw [hxe] at hp
        rcases hpar p hp with hc | ⟨k', e', hk', he', hseg, hmc, hv⟩
        · exact Or.inl hc
        · right
          apply List.mem_append_left
          have he'd : done[k']? = some e' := by
            rw [hts, List.getElem?_append_left hk'] at he'; exact he'
          have hfirst' := (hok _ _ he').1
          have hin : p ∈ entryLocs s e' := mem_entryLocs_of_valid hseg hmc hv hfirst'
          simp only [streamLocs, List.mem_flatMap]
          exact ⟨e', List.mem_of_getElem? he'd, hin⟩
      · -- an inner command: its parent is the previous location, which was just sent
        have hxv : s.seg? x.seg = some g := by rw [hx]; exact hg
        have hpx := parents_inner (s := s) (l := x) hxv (by rw [hx]; simp; omega) (by rw [hx]; simp; omega)
        rw [hpx] at hp
        simp only [List.mem_singleton] at hp
        right
        apply List.mem_append_right
        rw [hpre, hp]
        have : (⟨x.mc - 1, x.seg⟩ : Loc) = ⟨e.mc + (pre.length - 1), e.seg⟩ := by
          rw [hx]; simp; omega
        rw [this]
        unfold entryLocs
        rw [← List.map_take, List.mem_map]
        refine ⟨pre.length - 1, ?_, rfl⟩
        rw [List.take_range, List.mem_range]
        have : (entryIds s e).length = g.first + g.ids.length - e.mc := entryIds_length_valid hg hfirst
        omega
    · -- x belongs to a later entry
      have hsplit : ∃ pre', pre = entryLocs s e ++ pre' ∧
          List.flatMap (entryLocs s) rest = pre' ++ x :: post := by
        refine ⟨pre.drop (entryLocs s e).length, ?_, ?_⟩
        · have h2 := congrArg (List.take (entryLocs s e).length) h
          rw [List.take_left', List.take_append_of_le_length (by omega)] at h2
          · calc pre = pre.take (entryLocs s e).length ++ pre.drop (entryLocs s e).length :=
                  (List.take_append_drop _ _).symm
              _ = _ := by rw [← h2]
          · rfl
        · have := congrArg (List.drop (entryLocs s e).length) h
          rw [List.drop_left', List.drop_append_of_le_length (by omega)] at this
          · exact this
          · rfl
      obtain ⟨pre', hpre', hrest⟩ := hsplit
      have := ih (done ++ [e]) (by rw [hts]; simp) pre' post x hrest p hp
      rcases this with hc | hm
      · exact Or.inl hc
      · right
        rw [hpre']
        simpa [streamLocs, List.flatMap_append] using hm

/-- **What `find_needed_segments` computes can be sent parents-first.**  On a well-formed store
(priors and skip entries point at ancestors with smaller max cuts — the invariant of C11) with
command locations as heads: the result `ts` of `find_needed_segments` for any sample has the
closure property, hence in the command sequence it stands for every parent of every command is an
ancestor-or-self of a command of the sample that the responder could locate (`Cov`), or occurs
earlier.  No bound on the graph, the sample or the limits. -/
theorem fns_parents_first {s : Store} (hwf : WF s) {lim : Limits} {heads : List Loc}
    {commands : List Addr} {ts : List Loc} (hh : ∀ h ∈ heads, s.valid h = true)
    (h : findNeeded lim s heads commands = .ok ts) :
    ∃ haves : List Loc,
      (∀ x ∈ haves, s.valid x = true ∧ ∃ a ∈ commands, getLocation s heads a = .ok (some x)) ∧
      ∀ (pre post : List Loc) (x : Loc), streamLocs s ts = pre ++ x :: post →
        ∀ p ∈ s.parents x, Cov s haves p ∨ p ∈ pre := by
  obtain ⟨haves, h1, h2⟩ := fns_toSendOK hwf hh h
  exact ⟨haves, h1, parents_first s (Cov s haves) ts h2⟩

/-! ## non-vacuity: concrete stores, sessions that stop inside a segment -/

/-- two segments: init + 4 commands, then 3 more; the second one starts at max cut 5 -/
def exStore : Store :=
  ⟨[{ idx := 0, first := 0, ids := [10, 11, 12, 13, 14], prior := .none, skips := [] },
    { idx := 7, first := 5, ids := [15, 16, 17], prior := .single ⟨4, 0⟩, skips := [] }]⟩

def exLim : Limits := ⟨100, 3, 100, 1000⟩

/-- a responder that has to send the tail of segment 0 from max cut 2 and all of segment 7 -/
def exResp : Responder := { state := .send, toSend := [⟨2, 0⟩, ⟨5, 7⟩], msgIndex := 4 }

example : trace exLim exStore [⟨7, 7⟩] (fun _ => 1) exResp [true, false, true, true] =
    [.response 4 [12, 13, 14], .tooSmall, .response 5 [15, 16, 17], .syncEnd 6] := by decide

/-- with two commands per response the first response stops inside segment 0 and the second one
straddles both segments -/
example : trace { exLim with responseMax := 2 } exStore [⟨7, 7⟩] (fun _ => 1) exResp
      [true, true, true, true] =
    [.response 4 [12, 13], .response 5 [14, 15], .response 6 [16, 17], .syncEnd 7] := by decide

example : ToSendOK exStore (fun l => l = ⟨1, 0⟩ ∨ l = ⟨0, 0⟩) [⟨2, 0⟩, ⟨5, 7⟩] := by
  unfold ToSendOK
  intro k e hk
  match k, hk with
  | 0, hk =>
    simp at hk; subst hk
    refine ⟨⟨_, rfl, by decide⟩, ?_⟩
    intro p hp
    have : p = ⟨1, 0⟩ := by simpa [Store.parents, Store.seg?, exStore, Seg.getCommand] using hp
    exact Or.inl (Or.inl this)
  | 1, hk =>
    simp at hk; subst hk
    refine ⟨⟨_, rfl, by decide⟩, ?_⟩
    intro p hp
    have : p = ⟨4, 0⟩ := by
      simpa [Store.parents, Store.seg?, exStore, Seg.getCommand, Prior.toList] using hp
    subst this
    exact Or.inr ⟨0, ⟨2, 0⟩, by omega, rfl, rfl, by decide, by decide⟩
  | k + 2, hk => simp at hk

/-- the example store is well formed -/
theorem exStore_wf : WF exStore := by
  have hsegs : ∀ i g, exStore.seg? i = some g → g ∈ exStore.segs := fun i g h => seg?_mem h
  constructor
  · intro i g hg p hp
    have hm := hsegs i g hg
    simp only [exStore, List.mem_cons, List.not_mem_nil, or_false] at hm
    rcases hm with rfl | rfl
    · simp [Prior.toList] at hp
    · simp only [Prior.toList, List.mem_singleton] at hp
      subst hp
      exact ⟨by decide, by decide⟩
  · intro i g hg k hk
    have hm := hsegs i g hg
    simp only [exStore, List.mem_cons, List.not_mem_nil, or_false] at hm
    rcases hm with rfl | rfl <;> simp at hk

example : ∃ haves : List Loc, ∀ (pre post : List Loc) (x : Loc),
    streamLocs exStore [⟨2, 0⟩, ⟨5, 7⟩] = pre ++ x :: post →
      ∀ p ∈ exStore.parents x, Cov exStore haves p ∨ p ∈ pre := by
  have h : findNeeded exLim exStore [⟨7, 7⟩] [⟨11, 1⟩] = .ok [⟨2, 0⟩, ⟨5, 7⟩] := by
    cases hf : findNeeded exLim exStore [⟨7, 7⟩] [⟨11, 1⟩] with
    | error e =>
      have : (match findNeeded exLim exStore [⟨7, 7⟩] [⟨11, 1⟩] with | .ok _ => true | .error _ => false) = true := by
        decide
      rw [hf] at this; cases this
    | ok l =>
      have : (match findNeeded exLim exStore [⟨7, 7⟩] [⟨11, 1⟩] with | .ok l => l | .error _ => []) =
          [⟨2, 0⟩, ⟨5, 7⟩] := by decide
      rw [hf] at this; simp only at this; rw [this]
  obtain ⟨haves, _, h2⟩ := fns_parents_first exStore_wf (by decide) h
  exact ⟨haves, h2⟩

example : (match findNeeded exLim exStore [⟨7, 7⟩] [⟨11, 1⟩] with | .ok l => l | .error _ => []) = [⟨2, 0⟩, ⟨5, 7⟩] := by
  decide

end AranyaV.Sync
