import AranyaV.Model.PeerCache
import AranyaV.Props.C11
/-!
# C20 — Peer caches only record what the peer really has

Theorems about `AranyaV.PeerCache.addCommand` (model of `PeerCache::add_command`), built on the
exactness of `get_location` / `is_ancestor` (C11).  They hold for every well-formed store, every
committed head set, every cache satisfying the invariant and every address (and so, by induction,
for every sequence of addresses starting from the empty cache).
-/
namespace AranyaV.PeerCache
open AranyaV.Queue AranyaV.Segments

/-- the entry is a command committed locally: its location holds its id and is an
ancestor-or-self of a committed head -/
def Committed (s : Store) (heads : List Loc) (h : Head) : Prop :=
  s.cmdAt h.loc = some h.id ∧ ∃ hd ∈ heads, AncS s h.loc hd

/-- two entries are different commands, neither an ancestor of the other -/
def Indep (s : Store) (a b : Head) : Prop :=
  a.loc ≠ b.loc ∧ ¬ Anc s a.loc b.loc ∧ ¬ Anc s b.loc a.loc

/-- the cache invariant -/
structure CacheInv (cap : Nat) (s : Store) (heads : List Loc) (c : List Head) : Prop where
  len : c.length ≤ cap
  committed : ∀ h ∈ c, Committed s heads h
  indep : c.Pairwise (Indep s)

/-- command ids are unique in the store (they are hashes of the commands) -/
def UniqueId (s : Store) : Prop := ∀ x y c, s.cmdAt x = some c → s.cmdAt y = some c → x = y

/-! ### `retain` -/

theorem retainLoop_fst (s : Store) (new : Head) (c : List Head) (add : Bool) :
    (retainLoop s new c add).1 = c.filter (fun o => (retainHead s new o).1) := by
  induction c generalizing add with
  | nil => rfl
  | cons o rest ih =>
    simp only [retainLoop, List.filter_cons]
    rw [ih]

theorem retainLoop_snd (s : Store) (new : Head) (c : List Head) (add : Bool) :
    (retainLoop s new c add).2 = (add && !(c.any (fun o => (retainHead s new o).2))) := by
  induction c generalizing add with
  | nil => simp [retainLoop]
  | cons o rest ih =>
    simp only [retainLoop, List.any_cons]
    rw [ih]
    cases add <;> cases (retainHead s new o).2 <;> simp

theorem anc_irrefl {s : Store} (hp : PriorsOK s) {a : Loc} : ¬ Anc s a a := by
  intro h; have := h.mc_lt hp; omega

theorem anc_asymm {s : Store} (hp : PriorsOK s) {a b : Loc} (h : Anc s a b) : ¬ Anc s b a := by
  intro h'; have := h.mc_lt hp; have := h'.mc_lt hp; omega

/-- what the closure `retain_head` decides, in terms of the graph -/
theorem retainHead_spec {s : Store} (hwf : WF s) {new old : Head} (hn : s.valid new.loc = true)
    (ho : s.valid old.loc = true) :
    ((retainHead s new old).2 = true ↔ (old.id = new.id ∨ Anc s new.loc old.loc)) ∧
    ((retainHead s new old).1 = false ↔
      (¬ (old.id = new.id ∨ Anc s new.loc old.loc) ∧ Anc s old.loc new.loc)) := by
  unfold retainHead
  by_cases hid : old.id = new.id
  · simp [hid]
  · simp only [hid, if_false, false_or]
    obtain ⟨b1, e1, q1⟩ := isAncestor_iff hwf new.loc old.loc ho
    obtain ⟨b2, e2, q2⟩ := isAncestor_iff hwf old.loc new.loc hn
    rw [e1]
    cases b1 with
    | true =>
      have := (q1.mp rfl).2
      simp [this]
    | false =>
      have h1 : ¬ Anc s new.loc old.loc := fun h => by
        have := q1.mpr ⟨hn, h⟩; cases this
      simp only [e2]
      cases b2 with
      | true =>
        have := (q2.mp rfl).2
        simp [h1, this]
      | false =>
        have h2 : ¬ Anc s old.loc new.loc := fun h => by
          have := q2.mpr ⟨ho, h⟩; cases this
        simp [h1, h2]

theorem pairwise_mem {α : Type} {R : α → α → Prop} (hs : ∀ a b, R a b → R b a) {l : List α}
    (h : l.Pairwise R) {a b : α} (ha : a ∈ l) (hb : b ∈ l) (hne : a ≠ b) : R a b := by
  induction h with
  | nil => simp at ha
  | cons hx _ ih =>
    rcases List.mem_cons.mp ha with rfl | ha'
    · rcases List.mem_cons.mp hb with rfl | hb'
      · exact absurd rfl hne
      · exact hx b hb'
    · rcases List.mem_cons.mp hb with rfl | hb'
      · exact hs _ _ (hx a ha')
      · exact ih ha' hb'

/-! ### the step -/

/-- One `add_command` on a cache satisfying the invariant, for any address:

* it never fails, and the invariant `CacheInv` holds again;
* if the address is not that of a locally committed command, nothing changes;
* otherwise, with `loc` the command's location: the entries dropped are exactly the proper
  ancestors of `loc` (everything else is kept, in order); if `loc` is an entry already or an
  ancestor of an entry, nothing changes at all; else the new entry is appended — unless the cache
  is full after the removal, in which case it is silently dropped (what the code does). -/
theorem addCommand_step {cap : Nat} {s : Store} (hwf : WF s) (hu : UniqueId s) {heads : List Loc}
    (hh : ∀ h ∈ heads, s.valid h = true) {c : List Head} (hinv : CacheInv cap s heads c) (a : Addr) :
    ∃ c', addCommandCap cap s heads c a = .ok c' ∧ CacheInv cap s heads c' ∧
      ((¬ ∃ x, Holds s a x ∧ ∃ h ∈ heads, AncS s x h) → c' = c) ∧
      (∀ loc, Holds s a loc → (∃ h ∈ heads, AncS s loc h) →
        ∃ kept, kept.Sublist c ∧ (∀ o ∈ c, (o ∈ kept ↔ ¬ Anc s o.loc loc)) ∧
          (((∃ o ∈ c, o.loc = loc ∨ Anc s loc o.loc) ∧ c' = c ∧ kept = c) ∨
           ((¬ ∃ o ∈ c, o.loc = loc ∨ Anc s loc o.loc) ∧ kept.length < cap ∧
              c' = kept ++ [⟨a.id, loc⟩]) ∨
           ((¬ ∃ o ∈ c, o.loc = loc ∨ Anc s loc o.loc) ∧ cap ≤ kept.length ∧ c' = kept))) := by
  obtain ⟨r, hr, hr1, hr2⟩ := search_exact hwf heads hh a
  unfold addCommandCap
  rw [hr]
  cases r with
  | none =>
    refine ⟨c, rfl, hinv, fun _ => rfl, ?_⟩
    intro loc hl hreach
    have : (none : Option Loc).isSome = true := hr2.mpr ⟨loc, hl, hreach⟩
    simp at this
  | some loc0 =>
    obtain ⟨hl0, hd0, hhd0, hreach0⟩ := hr1 loc0 rfl
    have hloc : (⟨a.mc, loc0.seg⟩ : Loc) = loc0 := by
      have := hl0.2; cases loc0; simp at *; omega
    simp only [hloc]
    -- abbreviations
    have hp := hwf.priors
    have hnv : s.valid loc0 = true := cmdAt_valid hl0.1
    have hov : ∀ o ∈ c, s.valid o.loc = true := fun o ho => cmdAt_valid (hinv.committed o ho).1
    have hspec : ∀ o ∈ c, _ := fun o ho =>
      retainHead_spec hwf (new := ⟨a.id, loc0⟩) (old := o) hnv (hov o ho)
    -- same id ↔ same location, for entries of the cache
    have hsame : ∀ o ∈ c, (o.id = a.id ↔ o.loc = loc0) := by
      intro o ho
      have hc := (hinv.committed o ho).1
      constructor
      · intro h; exact hu o.loc loc0 a.id (by rw [hc, h]) hl0.1
      · intro h; rw [h, hl0.1] at hc; exact (Option.some.inj hc).symm
    -- "blocked": the new command is an entry or an ancestor of an entry
    have hblocked : (c.any (fun o => (retainHead s ⟨a.id, loc0⟩ o).2) = true) ↔
        ∃ o ∈ c, o.loc = loc0 ∨ Anc s loc0 o.loc := by
      rw [List.any_eq_true]
      constructor
      · rintro ⟨o, ho, h⟩
        rcases ((hspec o ho).1).mp h with h | h
        · exact ⟨o, ho, Or.inl ((hsame o ho).mp h)⟩
        · exact ⟨o, ho, Or.inr h⟩
      · rintro ⟨o, ho, h⟩
        refine ⟨o, ho, ((hspec o ho).1).mpr ?_⟩
        rcases h with h | h
        · exact Or.inl ((hsame o ho).mpr h)
        · exact Or.inr h
    -- kept entries: exactly the non-ancestors of the new command
    have hkept : ∀ o ∈ c, ((retainHead s ⟨a.id, loc0⟩ o).1 = true ↔ ¬ Anc s o.loc loc0) := by
      intro o ho
      have h2 := (hspec o ho).2
      constructor
      · intro hk hanc
        have : (retainHead s ⟨a.id, loc0⟩ o).1 = false := h2.mpr ⟨?_, hanc⟩
        · rw [hk] at this; cases this
        · rintro (h | h)
          · have := (hsame o ho).mp h
            rw [this] at hanc; exact anc_irrefl hp hanc
          · exact anc_asymm hp hanc h
      · intro hn
        cases hb : (retainHead s ⟨a.id, loc0⟩ o).1 with
        | true => rfl
        | false => exact absurd (h2.mp hb).2 hn
    rw [show retainLoop s ⟨a.id, loc0⟩ c true =
      ((retainLoop s ⟨a.id, loc0⟩ c true).1, (retainLoop s ⟨a.id, loc0⟩ c true).2) from rfl]
    simp only [retainLoop_fst, retainLoop_snd, Bool.true_and]
    generalize hk : c.filter (fun o => (retainHead s ⟨a.id, loc0⟩ o).1) = kept
    have hsub : kept.Sublist c := by rw [← hk]; exact List.filter_sublist
    have hmem : ∀ o ∈ c, (o ∈ kept ↔ ¬ Anc s o.loc loc0) := by
      intro o ho
      rw [← hk, List.mem_filter]
      constructor
      · intro ⟨_, h⟩; exact (hkept o ho).mp h
      · intro h; exact ⟨ho, (hkept o ho).mpr h⟩
    have hkinv : CacheInv cap s heads kept :=
      ⟨Nat.le_trans hsub.length_le hinv.len, fun h hm => hinv.committed h (hsub.subset hm),
        hinv.indep.sublist hsub⟩
    have hnewc : Committed s heads ⟨a.id, loc0⟩ := ⟨hl0.1, hd0, hhd0, hreach0⟩
    -- uniqueness of the location of the address (for the step statement)
    have hloc_eq : ∀ loc, Holds s a loc → loc = loc0 := fun loc hl => hu loc loc0 a.id hl.1 hl0.1
    by_cases hb : ∃ o ∈ c, o.loc = loc0 ∨ Anc s loc0 o.loc
    · -- blocked: nothing is added, and nothing can have been removed
      have hany := hblocked.mpr hb
      simp only [hany, Bool.not_true, Bool.false_eq_true, if_false]
      obtain ⟨o, ho, hor⟩ := hb
      have hnone : ∀ o2 ∈ c, ¬ Anc s o2.loc loc0 := by
        intro o2 ho2 hanc
        have hanc2 : Anc s o2.loc o.loc := by
          rcases hor with h | h
          · rw [h]; exact hanc
          · exact Anc.trans_left hanc.ancS h
        by_cases he : o2 = o
        · rw [he] at hanc2; exact anc_irrefl hp hanc2
        · have := pairwise_mem (R := Indep s) (fun x y h => ⟨h.1.symm, h.2.2, h.2.1⟩)
            hinv.indep ho2 ho he
          exact this.2.1 hanc2
      have hkc : kept = c := by
        rw [← hk]
        exact List.filter_eq_self.mpr (fun o2 ho2 => (hkept o2 ho2).mpr (hnone o2 ho2))
      refine ⟨kept, rfl, hkinv, ?_, ?_⟩
      · intro hno; exact absurd ⟨loc0, hl0, hd0, hhd0, hreach0⟩ hno
      · intro loc hl _
        rw [hloc_eq loc hl]
        exact ⟨kept, hsub, hmem, Or.inl ⟨⟨o, ho, hor⟩, hkc, hkc⟩⟩
    · have hany : c.any (fun o => (retainHead s ⟨a.id, loc0⟩ o).2) = false := by
        rw [Bool.eq_false_iff]; exact fun h => hb (hblocked.mp h)
      simp only [hany, Bool.not_false, if_true]
      by_cases hfull : kept.length < cap
      · simp only [hfull, if_true]
        refine ⟨kept ++ [⟨a.id, loc0⟩], rfl, ⟨?_, ?_, ?_⟩, ?_, ?_⟩
        · simp; omega
        · intro h hm
          rcases List.mem_append.mp hm with h1 | h1
          · exact hkinv.committed h h1
          · simp at h1; subst h1; exact hnewc
        · rw [List.pairwise_append]
          refine ⟨hkinv.indep, by simp, ?_⟩
          intro o hok n hn
          simp at hn; subst hn
          have hoc := hsub.subset hok
          refine ⟨?_, (hmem o hoc).mp hok, ?_⟩
          · intro he; exact hb ⟨o, hoc, Or.inl he⟩
          · intro hanc; exact hb ⟨o, hoc, Or.inr hanc⟩
        · intro hno; exact absurd ⟨loc0, hl0, hd0, hhd0, hreach0⟩ hno
        · intro loc hl _
          rw [hloc_eq loc hl]
          exact ⟨kept, hsub, hmem, Or.inr (Or.inl ⟨hb, hfull, rfl⟩)⟩
      · simp only [hfull, if_false]
        refine ⟨kept, rfl, hkinv, ?_, ?_⟩
        · intro hno; exact absurd ⟨loc0, hl0, hd0, hhd0, hreach0⟩ hno
        · intro loc hl _
          rw [hloc_eq loc hl]
          exact ⟨kept, hsub, hmem, Or.inr (Or.inr ⟨hb, by omega, rfl⟩)⟩

/-- the empty cache satisfies the invariant -/
theorem cacheInv_nil (cap : Nat) (s : Store) (heads : List Loc) : CacheInv cap s heads [] :=
  ⟨Nat.zero_le _, by simp, List.Pairwise.nil⟩

/-- `CacheInv` for every address sequence and every (well-formed) graph: any sequence of
`add_command` calls runs without error and ends in a cache that holds at most `cap` entries, each
a locally committed command, pairwise not ancestor-related. -/
theorem CacheInv_all {cap : Nat} {s : Store} (hwf : WF s) (hu : UniqueId s) {heads : List Loc}
    (hh : ∀ h ∈ heads, s.valid h = true) (as : List Addr) :
    ∀ {c : List Head}, CacheInv cap s heads c →
      ∃ c', addAll cap s heads c as = .ok c' ∧ CacheInv cap s heads c' := by
  induction as with
  | nil => intro c hc; exact ⟨c, rfl, hc⟩
  | cons a as ih =>
    intro c hc
    obtain ⟨c1, h1, hinv1, _⟩ := addCommand_step hwf hu hh hc a
    unfold addAll
    rw [h1]
    exact ih hinv1

/-- the same for the real constant `PEER_HEAD_MAX`, from the empty cache -/
theorem CacheInv_reachable {s : Store} (hwf : WF s) (hu : UniqueId s) {heads : List Loc}
    (hh : ∀ h ∈ heads, s.valid h = true) (as : List Addr) :
    ∃ c', addAll AranyaV.Gen.peerHeadMax s heads [] as = .ok c' ∧
      CacheInv AranyaV.Gen.peerHeadMax s heads c' :=
  CacheInv_all hwf hu hh as (cacheInv_nil _ _ _)

/-! ## non-vacuity: a concrete store with a fork and a merge (`exStore` of C11) -/

/-- unique ids, computed -/
def checkUniqueId (s : Store) : Bool :=
  s.allLocs.all (fun x => s.allLocs.all (fun y => !(s.cmdAt x == s.cmdAt y) || x == y))

theorem checkUniqueId_sound {s : Store} (h : checkUniqueId s = true) : UniqueId s := by
  intro x y c hx hy
  simp only [checkUniqueId, List.all_eq_true, Bool.or_eq_true, Bool.not_eq_true', beq_iff_eq] at h
  have hxv : s.valid x = true := by simp [Store.valid, hx]
  have hyv : s.valid y = true := by simp [Store.valid, hy]
  rcases h x (valid_mem_allLocs hxv) y (valid_mem_allLocs hyv) with h | h
  · rw [Bool.eq_false_iff] at h
    exact absurd (by simp [hx, hy]) h
  · exact h

example : WF exStore := checkWF_sound (by decide)
example : UniqueId exStore := checkUniqueId_sound (by decide)
-- two independent branch commands are both recorded; an ancestor of an entry changes nothing;
-- a common descendant replaces both; an uncommitted / unknown address changes nothing
example : (addAll 10 exStore [⟨7, 4⟩] [] [⟨13, 3⟩, ⟨15, 3⟩]).toOption =
    some [⟨13, ⟨3, 1⟩⟩, ⟨15, ⟨3, 2⟩⟩] := by decide
example : (addAll 10 exStore [⟨7, 4⟩] [] [⟨13, 3⟩, ⟨15, 3⟩, ⟨10, 0⟩, ⟨99, 3⟩, ⟨13, 4⟩]).toOption =
    some [⟨13, ⟨3, 1⟩⟩, ⟨15, ⟨3, 2⟩⟩] := by decide
example : (addAll 10 exStore [⟨7, 4⟩] [] [⟨13, 3⟩, ⟨15, 3⟩, ⟨18, 7⟩]).toOption =
    some [⟨18, ⟨7, 4⟩⟩] := by decide
-- committed heads below the merge: the merge's descendants are not committed, hence ignored
example : (addAll 10 exStore [⟨4, 1⟩] [] [⟨13, 3⟩, ⟨18, 7⟩, ⟨15, 3⟩]).toOption =
    some [⟨13, ⟨3, 1⟩⟩] := by decide
-- a full cache drops the new entry (capacity 1 here)
example : (addAll 1 exStore [⟨7, 4⟩] [] [⟨13, 3⟩, ⟨15, 3⟩]).toOption = some [⟨13, ⟨3, 1⟩⟩] := by decide
example : 1 ≤ AranyaV.Gen.peerHeadMax := by decide

end AranyaV.PeerCache
