import AranyaV.Props.C12
import AranyaV.Props.C13
/-!
# C14 — Sessions overlay their own writes on committed facts

Model: `Session` (`Model/Session.lean`): `base_facts` (a fact index of the graph, `Chain`),
`fact_log`, `current_facts`, the two-way sorted merge `QueryIterator` (`mergeIter`), the
`PrefixIter` range scan (`findPrefixes`), and `Session::action` / `Session::receive`
(`Session.call`: checkpoint, policy call, revert on error).

* `merge_iter_eq`: for **all** ascending error-free base iterators and all sorted overlays
  (tombstones included) the merge yields exactly the overlay's live entries plus the base
  entries the overlay does not mention, in strictly ascending key order — and this
  specification determines the output.  `merge_iter_errors`: base errors are passed through
  (none lost, none invented) and the successful items are the merge of the successful base
  items.
* `session_query_eq`: exact and prefix queries of a session read the flat map
  `committed facts ⊕ session log`.
* `session_fail_unchanged`: a failed action / receive leaves the session exactly as it was.
* `session_no_commit`: no session operation has the graph in its output — a session call
  returns a session with the same `base_facts`; (graph heads / stamp / fact cache are compared
  before and after every session call by the harness).
-/
namespace AranyaV.Facts

/-! ## the merge iterator -/

/-- what the merge of an ascending base `b` and an overlay `ov` has to yield -/
structure IsOverlayAnswer (b : List (Key × Val)) (ov : FMap) (out : List (Key × Val)) : Prop where
  ascending : out.Pairwise (fun x y => x.1 < y.1)
  exact : ∀ k v, (k, v) ∈ out ↔ (ov.get k = some (some v) ∨ (ov.get k = none ∧ (k, v) ∈ b))

/-- the specification determines the output -/
theorem IsOverlayAnswer.unique {b : List (Key × Val)} {ov : FMap} {o1 o2 : List (Key × Val)}
    (h1 : IsOverlayAnswer b ov o1) (h2 : IsOverlayAnswer b ov o2) : o1 = o2 :=
  ascending_ext o1 o2 h1.ascending h2.ascending (fun x => by
    rw [show x = (x.1, x.2) from rfl, h1.exact, h2.exact])

/-- **The two-way sorted merge with tombstones** equals the sorted enumeration of
`overlay ⊕ base` minus tombstones, for all inputs. -/
theorem merge_iter_eq (b : List (Key × Val)) (ov : FMap)
    (hb : b.Pairwise (fun x y => x.1 < y.1)) (ho : Sorted ov) :
    ∃ out, mergeIter (b.map .ok) ov = out.map .ok ∧ IsOverlayAnswer b ov out :=
  ⟨mergeOk b ov, mergeIter_ok b ov, ⟨asc_mergeOk hb ho, mem_mergeOk_iff hb ho⟩⟩

/-- errors of the base iterator: every one is yielded, none is invented, and the successful
items are the merge of the base's successful items (so an error never hides or duplicates a
fact) -/
theorem merge_iter_errors (ps : List Item) (ov : FMap) :
    okItems (mergeIter ps ov) = mergeOk (okItems ps) ov ∧ errCount (mergeIter ps ov) = errCount ps :=
  mergeIter_errors ps ov

/-- an error at the head of the base is yielded before the overlay's next item -/
theorem merge_iter_error_first (e : Unit) (ps : List Item) (c : Key × Slot) (cs : FMap) :
    mergeIter (.error e :: ps) (c :: cs) = .error e :: mergeIter ps (c :: cs) := by
  rw [mergeIter.eq_def]

/-! ## session queries read `committed ⊕ session log` -/

/-- **abstraction map** of a session -/
def Session.abs (s : Session) : Flat := fun k =>
  match s.cur.get k with
  | some slot => slot
  | none => s.base.abs k

theorem Session.abs_insert (s : Session) (k : Key) (v : Val) :
    (s.insert k v).abs = update s.abs k (some v) := by
  funext k'
  unfold Session.abs Session.insert update
  simp only
  rw [get_insert]
  by_cases h : k' = k <;> simp [h]

theorem Session.abs_delete (s : Session) (k : Key) : (s.delete k).abs = update s.abs k none := by
  funext k'
  unfold Session.abs Session.delete update
  simp only
  rw [get_insert]
  by_cases h : k' = k <;> simp [h]

private theorem abs_fold (base : Chain) (log : List Update) (m : FMap) :
    (fun k => match (log.foldl (fun m u => m.insert u.1 u.2) m).get k with
      | some sl => sl | none => base.abs k) =
    replay (fun k => match m.get k with | some sl => sl | none => base.abs k) log := by
  induction log generalizing m with
  | nil => rfl
  | cons u r ih =>
    unfold replay
    rw [List.foldl_cons, List.foldl_cons]
    have hstep : (fun k => match (m.insert u.1 u.2).get k with | some sl => sl | none => base.abs k) =
        update (fun k => match m.get k with | some sl => sl | none => base.abs k) u.1 u.2 := by
      funext k'
      unfold update
      rw [get_insert]
      by_cases h : k' = u.1 <;> simp [h]
    rw [← hstep]
    exact ih (m.insert u.1 u.2)

private theorem abs_of_log (base : Chain) (log : List Update) :
    Session.abs { base := base, log := log, cur := rebuild log } = replay base.abs log := by
  have := abs_fold base log []
  exact this

/-- Exact and prefix queries of a session equal those of the flat map built from the committed
facts followed by the session's inserts and deletes (in order); prefix results are ascending
and contain no deleted fact. -/
theorem session_query_eq (s : Session) (hinv : s.Inv) (hbase : s.base.WF) :
    s.abs = replay s.base.abs s.log ∧
    (∀ k, s.query k = s.abs k) ∧
    (∀ p, ∃ out, s.queryPrefix p = out.map .ok ∧ IsPrefixAnswer s.abs p out) := by
  refine ⟨?_, ?_, ?_⟩
  · have := abs_of_log s.base s.log
    rw [← hinv] at this
    exact this
  · intro k
    unfold Session.query Session.abs
    cases s.cur.get k with
    | some slot => rfl
    | none => exact Chain.query_eq_abs s.base k
  · intro p
    have hcur : Sorted s.cur := Session.Inv_sorted hinv
    have hov : Sorted (findPrefixes s.cur p) := sorted_findPrefixes hcur p
    have hb := (queryPrefix_eq (.overNone []) Sorted.nil s.base hbase p).2
    obtain ⟨out, ho1, ho2⟩ := merge_iter_eq (s.base.queryPrefix p) (findPrefixes s.cur p) hb.ascending hov
    refine ⟨out, ho1, ⟨ho2.ascending, fun k v => ?_⟩⟩
    rw [ho2.exact, get_findPrefixes hcur, hb.exact]
    unfold Session.abs
    by_cases hp : p.isPrefixOf k = true
    · have hp' : p <+: k := List.isPrefixOf_iff_prefix.mp hp
      simp only [hp, if_true]
      cases hg : s.cur.get k with
      | none => simp [hp']
      | some slot =>
        cases slot with
        | none => simp
        | some w => simp [hp']
    · have hp' : ¬ p <+: k := fun h => hp (List.isPrefixOf_iff_prefix.mpr h)
      simp [hp, hp']

/-! ## failed calls, and no session operation touches the graph -/

/-- A failed `Session::action` / `Session::receive` (the policy wrote, then returned an error)
leaves the session's state — hence every later observation — unchanged; a successful call
appends exactly the script's writes to the log. -/
theorem session_fail_unchanged (s : Session) (hinv : s.Inv) (script : List SOp) :
    ∃ s' obs ok, s.call script = .ok (s', obs, ok) ∧ s'.Inv ∧
      (ok = false → s' = s) ∧ (ok = true → s'.log = s.log ++ scriptWrites script) := by
  obtain ⟨s', obs, ok, h1, h2, h3⟩ := session_call_fail_exact s hinv script
  refine ⟨s', obs, ok, h1, h2, h3, fun hok => ?_⟩
  subst hok
  obtain ⟨_, r2, _⟩ := Session.runScript_spec s hinv script
  unfold Session.call at h1
  simp only at h1
  generalize hr : s.runScript script = r at r2 h1
  obtain ⟨s1, o1, ok1⟩ := r
  simp only at h1 r2
  cases ok1 with
  | true => simp only [if_true] at h1; cases h1; exact r2
  | false =>
    simp only [Bool.false_eq_true, if_false] at h1
    cases hrev : s1.revert s.checkpoint with
    | error e => rw [hrev] at h1; cases h1
    | ok s2 => rw [hrev] at h1; cases h1

/-- no session operation commits: whatever a session call does, the session keeps reading the
same committed fact index, and its result type contains nothing of the graph -/
theorem session_no_commit (s : Session) (hinv : s.Inv) (script : List SOp) {s' : Session}
    {obs : List Obs} {ok : Bool} (h : s.call script = .ok (s', obs, ok)) : s'.base = s.base := by
  obtain ⟨r1, r2, r3⟩ := Session.runScript_spec s hinv script
  unfold Session.call at h
  simp only at h
  generalize hr : s.runScript script = r at r1 r2 r3 h
  obtain ⟨s1, o1, ok1⟩ := r
  simp only at h r1 r2 r3
  cases ok1 with
  | true => simp only [if_true] at h; cases h; exact r1
  | false =>
    simp only [Bool.false_eq_true, if_false] at h
    have hle : s.checkpoint ≤ s1.log.length := by
      unfold Session.checkpoint; rw [r2]; simp
    rw [Session.revert_ok r3 hle] at h
    cases h
    exact r1

/-! ## non-vacuity -/

section Examples

private def ka : Key := [[97], [1]]
private def kb : Key := [[97], [2]]
private def kc : Key := [[97], [3]]
private def kd : Key := [[97], [4]]

/-- the unit test of `session.rs`, plus a tombstone hiding a base fact and an overlay-only key -/
example : mergeIter [.ok (ka, [10]), .ok (kc, [30]), .ok (kd, [40]), .error ()]
    [(ka, none), (kb, some [21]), (kd, some [41])]
    = [.ok (kb, [21]), .ok (kc, [30]), .ok (kd, [41]), .error ()] := by
  simp [mergeIter, emitSlot, ka, kb, kc, kd]
  decide

private def sx : Session :=
  (({ base := [⟨[(ka, some [10]), (kc, some [30])], 1⟩] } : Session).delete ka).insert kb [21]

example : sx.Inv ∧ sx.base.WF := by decide
example : sx.query ka = none ∧ sx.query kb = some [21] ∧ sx.query kc = some [30] := by decide
example : sx.base.queryPrefix [[97]] = [(ka, [10]), (kc, [30])] ∧
    findPrefixes sx.cur [[97]] = [(ka, none), (kb, some [21])] := by decide
example : sx.queryPrefix [[97]] = [.ok (kb, [21]), .ok (kc, [30])] := by
  have h : sx.base.queryPrefix [[97]] = [(ka, [10]), (kc, [30])] ∧
    findPrefixes sx.cur [[97]] = [(ka, none), (kb, some [21])] := by decide
  unfold Session.queryPrefix
  rw [h.1, h.2]
  simp [mergeIter, emitSlot, ka, kb, kc]
  decide

end Examples

end AranyaV.Facts
