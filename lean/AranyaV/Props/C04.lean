import AranyaV.Spec.Braid
import AranyaV.Spec.Synth
/-!
# C04 — Lazy merges: queries and actions see the same state

Full statement: for every committed multi-head graph the fact state visible to queries and
sessions (the fact cache = `factsOf g heads`) equals the state an action observes after the
heads are collapsed into merge commands; the collapse emits no effects; the advertised hello
head is exactly the address of the merge command the collapse writes.

Proved here:
* `collapse_head_eq_synth`, `collapse_writes_fold_merges` — `collapse_heads` and
  `synthetic_head` fold identically (both through `fold_merge_pairs`): for every head list the
  collapse's resulting head is the hello head, it writes exactly `n-1` merge commands, all of
  them fold merges, the last one being the head.
* `merge_state_eq_factsOf` (`collapse_two_facts`) — the stored state of a merge command written
  on top of a graph is `factsOf` of its two parents (the merge itself is never evaluated).
Not proved (tied on the real code by harness `c04` instead): that for N ≥ 3 heads the chain of
pairwise braids stores the same facts as the N-way braid of the fact cache
(`collapse_facts`, see DESIGN.md 6/C04).
-/
namespace AranyaV.Spec

/-- `collapse_heads`: the same queue discipline as `foldPairs`, recording each merge written -/
def collapse : Nat → List HTerm → List HTerm → Option (HTerm × List HTerm)
  | _, [], _ => none
  | _, [x], w => some (x, w)
  | 0, _ :: _ :: _, _ => none
  | fuel + 1, l :: r :: rest, w => collapse fuel (rest ++ [.merge l r]) (w ++ [.merge l r])

/-- the head produced by the collapse is the synthetic hello head -/
theorem collapse_head_eq_synth (fuel : Nat) (q w : List HTerm) :
    (collapse fuel q w).map (·.1) = foldPairs fuel q := by
  induction fuel generalizing q w with
  | zero =>
    match q with
    | [] => simp [collapse, foldPairs]
    | [x] => simp [collapse, foldPairs]
    | _ :: _ :: _ => simp [collapse, foldPairs]
  | succ n ih =>
    match q with
    | [] => simp [collapse, foldPairs]
    | [x] => simp [collapse, foldPairs]
    | l :: r :: rest => simp only [collapse, foldPairs]; exact ih _ _

def HTerm.isMergeT : HTerm → Bool
  | .merge _ _ => true
  | .leaf _ => false

/-- the collapse writes exactly one merge per fold step: `|q| - 1` merges on top of what was
already written, all of them `merge` terms, and — if anything is written — the last one written
is the resulting head -/
theorem collapse_writes_fold_merges (fuel : Nat) (q w w' : List HTerm) (h : HTerm)
    (e : collapse fuel q w = some (h, w')) :
    ∃ ms, w' = w ++ ms ∧ ms.length + 1 = q.length ∧ (∀ m ∈ ms, m.isMergeT = true) ∧
      (ms ≠ [] → ms.getLast? = some h) := by
  induction fuel generalizing q w with
  | zero =>
    match q, e with
    | [x], e => simp [collapse] at e; exact ⟨[], by simp [e.2], by simp, by simp, by simp⟩
  | succ n ih =>
    match q, e with
    | [x], e => simp [collapse] at e; exact ⟨[], by simp [e.2], by simp, by simp, by simp⟩
    | l :: r :: rest, e =>
      simp only [collapse] at e
      obtain ⟨ms, h1, h2, h3, h4⟩ := ih _ _ e
      refine ⟨.merge l r :: ms, by simp [h1], by simp at h2 ⊢; omega, ?_, ?_⟩
      · intro m hm
        rcases List.mem_cons.mp hm with rfl | hm
        · rfl
        · exact h3 m hm
      · intro _
        cases ms with
        | nil =>
          -- nothing more written: the queue after this step was a singleton, its element is the head
          simp at h2
          have : rest = [] := by cases rest <;> simp_all
          subst this
          cases n with
          | zero => simp [collapse] at e; simp [e.1]
          | succ k => simp [collapse] at e; simp [e.1]
        | cons a t =>
          have := h4 (by simp)
          simpa [List.getLast?_cons_cons] using this

/-- the advertised hello head of a multi-head graph is the address of the last merge command the
collapse writes -/
theorem hello_is_last_written (heads : List Nat) (h : HTerm) (w : List HTerm)
    (e : collapse heads.length (heads.map .leaf) [] = some (h, w)) (hn : 2 ≤ heads.length) :
    synth heads = some h ∧ w.getLast? = some h := by
  constructor
  · unfold synth; rw [← collapse_head_eq_synth _ _ []]; simp [e]
  · obtain ⟨ms, h1, h2, _, h4⟩ := collapse_writes_fold_merges _ _ _ _ _ e
    simp at h1 h2
    subst h1
    apply h4
    intro hms; subst hms; simp at h2; omega

/-! ## the stored state of a written merge -/

private theorem lookup_append_of_some {α} (l₁ l₂ : List (Nat × α)) (k : Nat) (v : α)
    (h : l₁.lookup k = some v) : (l₁ ++ l₂).lookup k = some v := by
  induction l₁ with
  | nil => simp at h
  | cons p t ih =>
    obtain ⟨a, b⟩ := p
    simp only [List.cons_append, List.lookup_cons] at h ⊢
    cases hk : (k == a) with
    | true => rw [hk] at h; exact h
    | false => rw [hk] at h; exact ih h

private theorem lookup_append_of_none {α} (l₁ l₂ : List (Nat × α)) (k : Nat)
    (h : l₁.lookup k = none) : (l₁ ++ l₂).lookup k = l₂.lookup k := by
  induction l₁ with
  | nil => rfl
  | cons p t ih =>
    obtain ⟨a, b⟩ := p
    simp only [List.cons_append, List.lookup_cons] at h ⊢
    cases hk : (k == a) with
    | true => rw [hk] at h; cases h
    | false => rw [hk] at h; exact ih h

/-- the state computed for one command, given the table so far (`allStates`' fold body) -/
private def stOf (G : Graph) (acc : List (Nat × Except BraidErr Facts)) (c : Cmd) :
    Except BraidErr Facts :=
  match c.parents with
  | [] => .ok (rule c {}).1
  | [p] => match acc.lookup p with
    | some (.ok s) => .ok (rule c s).1
    | some (.error e) => .error e
    | none => .error .malformed
  | [l, r] =>
    match refBraid G [l, r] with
    | .error e => .error e
    | .ok (start, order) => match acc.lookup start with
      | some (.ok s) => .ok (applyOrder G order s)
      | some (.error e) => .error e
      | none => .error .malformed
  | _ => .error .malformed

private def stStep (G : Graph) (acc : List (Nat × Except BraidErr Facts)) (c : Cmd) :
    List (Nat × Except BraidErr Facts) := acc ++ [(c.id, stOf G acc c)]

private theorem allStates_eq (G : Graph) : allStates G = G.foldl (stStep G) [] := rfl

private theorem fold_lookup_none (G g : Graph) (k : Nat) (hfresh : ∀ c ∈ g, c.id ≠ k)
    (acc0 : List (Nat × Except BraidErr Facts)) (h : acc0.lookup k = none) :
    (g.foldl (stStep G) acc0).lookup k = none := by
  induction g generalizing acc0 with
  | nil => exact h
  | cons c t ih =>
    simp only [List.foldl_cons]
    apply ih (fun c' hc' => hfresh c' (List.mem_cons_of_mem _ hc'))
    unfold stStep
    rw [lookup_append_of_none _ _ _ h]
    have hne : (k == c.id) = false := by
      have := hfresh c (List.mem_cons_self ..)
      simp; exact fun e => this e.symm
    simp [List.lookup, hne]

/-- **The merge command a collapse writes stores exactly `factsOf` of its two parents** (in the
graph extended by that merge): the merge itself is never evaluated by the policy, its state is
the braid of the two heads. -/
theorem merge_state_eq_factsOf (g : Graph) (m : Cmd) (l r : Nat) (hm : m.parents = [l, r])
    (hfresh : ∀ c ∈ g, c.id ≠ m.id) :
    stateAt (g ++ [m]) m.id = factsOf (g ++ [m]) [l, r] := by
  have hacc := fold_lookup_none (g ++ [m]) g m.id hfresh [] (by simp)
  have htab : allStates (g ++ [m]) =
      g.foldl (stStep (g ++ [m])) [] ++ [(m.id, stOf (g ++ [m]) (g.foldl (stStep (g ++ [m])) []) m)] := by
    rw [allStates_eq, List.foldl_append]; rfl
  generalize hA : g.foldl (stStep (g ++ [m])) [] = acc at hacc htab
  have hst : stateAt (g ++ [m]) m.id = stOf (g ++ [m]) acc m := by
    unfold stateAt
    rw [htab, lookup_append_of_none _ _ _ hacc]
    simp [List.lookup]
  rw [hst]
  unfold factsOf stOf
  simp only [hm]
  cases hb : refBraid (g ++ [m]) [l, r] with
  | error e => rfl
  | ok so =>
    obtain ⟨start, order⟩ := so
    simp only
    have hlook : stateAt (g ++ [m]) start =
        match acc.lookup start with
        | some v => v
        | none => if start = m.id then stOf (g ++ [m]) acc m else .error .malformed := by
      unfold stateAt
      rw [htab]
      cases hs : acc.lookup start with
      | some v => rw [lookup_append_of_some _ _ _ _ hs]
      | none =>
        rw [lookup_append_of_none _ _ _ hs]
        by_cases he : start = m.id
        · subst he; simp [List.lookup]
        · have : (start == m.id) = false := by simpa using he
          simp [List.lookup, this, he]
    rw [hlook]
    cases hs : acc.lookup start with
    | some v => cases v <;> rfl
    | none =>
      simp only
      by_cases he : start = m.id
      · -- the lone strand cannot be the merge itself unless its own state is malformed
        simp only [he, if_true]
        unfold stOf
        simp only [hm, hb]
        rw [hs]
      · simp [he]

/-- the two-head collapse: name used in DESIGN.md -/
theorem collapse_two_facts (g : Graph) (m : Cmd) (l r : Nat) (hm : m.parents = [l, r])
    (hfresh : ∀ c ∈ g, c.id ≠ m.id) :
    stateAt (g ++ [m]) m.id = factsOf (g ++ [m]) [l, r] :=
  merge_state_eq_factsOf g m l r hm hfresh

theorem synth_fun' (h₁ h₂ : List Nat) (e : h₁ = h₂) : synth h₁ = synth h₂ := by rw [e]

/-! non-vacuity -/
example : collapse 3 [.leaf 1, .leaf 2, .leaf 3] [] =
    some (.merge (.leaf 3) (.merge (.leaf 1) (.leaf 2)),
          [.merge (.leaf 1) (.leaf 2), .merge (.leaf 3) (.merge (.leaf 1) (.leaf 2))]) := by decide

end AranyaV.Spec
