import AranyaV.Proofs.FactKey
import AranyaV.Proofs.FactOps
/-!
# C29 — Fact queries in policies match a fact-store model

Part A: the fact-key byte encoding (`ser_key` / `deser_key`) round-trips, is injective, and is
order preserving per key type — so the storage's byte order on `Keys` is the typed key order the
policy author sees — and a stored key sequence starts with the encoded query keys iff the leading
key fields are equal.

Part B: the VM fact instructions and the compiled query forms, run on what the storage holds
(`enc S`: serialized keys in byte order), return what the typed model fact store `S` returns.
All statements are for every schema, every stored set, every literal; no size bounds.
-/
namespace AranyaV.FactKey
open AranyaV.Gen.FactKeyTags

/-! ## Part A — key codec -/

/-- side conditions on the generated tags the theorems below need: what `ser_key` writes is what
`from_u8` reads, and the five tags are distinct bytes -/
theorem tags_ok :
    serInt = deInt ∧ serBool = deBool ∧ serString = deString ∧ serId = deId ∧ serEnum = deEnum ∧
    [deInt, deBool, deString, deId, deEnum].Nodup ∧
    (∀ t ∈ [deInt, deBool, deString, deId, deEnum], t < 256) := by decide

theorem serKey_eq (k : Key) :
    serKey k = be 8 k.ident.length ++ (k.ident ++ (UInt8.ofNat (tagOf k.val) :: valBytes k.val)) := by
  simp [serKey, List.append_assoc]

/-- `deser_key (ser_key k) = Ok k` for every key the real types can hold -/
theorem deser_ser (k : Key) (h : k.Valid) : deserKey (serKey k) = .ok k := by
  obtain ⟨hid, hlen, hv⟩ := h
  have hl8 : (be 8 k.ident.length).length = 8 := be_length _ _
  have hunbe : unbe (be 8 k.ident.length) = k.ident.length :=
    unbe_be 8 _ (by rw [pow256_8]; exact hlen)
  have hutf : utf8Valid k.ident = true := identOk_utf8 hid
  rw [serKey_eq]
  unfold deserKey
  have e1 : ¬ (be 8 k.ident.length ++ (k.ident ++ (UInt8.ofNat (tagOf k.val) :: valBytes k.val))).length < 8 := by
    simp [hl8]
  have e2 : (be 8 k.ident.length ++ (k.ident ++ (UInt8.ofNat (tagOf k.val) :: valBytes k.val))).take 8
      = be 8 k.ident.length := by
    rw [List.take_append_of_le_length (by omega)]; exact List.take_of_length_le (by omega)
  have e3 : (be 8 k.ident.length ++ (k.ident ++ (UInt8.ofNat (tagOf k.val) :: valBytes k.val))).drop 8
      = k.ident ++ (UInt8.ofNat (tagOf k.val) :: valBytes k.val) := by
    rw [List.drop_append_of_le_length (by omega)]; simp [List.drop_of_length_le, hl8]
  simp only [e1, if_false, e2, e3, hunbe]
  have e4 : ¬ k.ident.length > (k.ident ++ (UInt8.ofNat (tagOf k.val) :: valBytes k.val)).length := by
    simp
  have e5 : (k.ident ++ (UInt8.ofNat (tagOf k.val) :: valBytes k.val)).take k.ident.length = k.ident := by
    simp
  have e6 : (k.ident ++ (UInt8.ofNat (tagOf k.val) :: valBytes k.val)).drop k.ident.length
      = UInt8.ofNat (tagOf k.val) :: valBytes k.val := by simp
  simp only [e4, if_false, e5, e6, hutf, hid, Bool.not_true, Bool.false_eq_true]
  obtain ⟨ident, val⟩ := k
  cases val with
  | int i =>
    have hi : isI64 i := hv
    simp [tagOf, valBytes, serInt, deInt, intBytes_length, intOfBytes_intBytes hi]
  | bool b =>
    cases b <;> simp [tagOf, valBytes, serBool, deInt, deBool]
  | str s =>
    have hs : utf8Valid s = true ∧ textOk s = true := hv
    simp [tagOf, valBytes, serString, deInt, deBool, deString, hs.1, hs.2]
  | id b =>
    have hb : b.length = idSize := hv
    simp [tagOf, valBytes, serId, deInt, deBool, deString, deId, hb]
  | enum n v =>
    have hn : identOk n = true ∧ isI64 v := hv
    have hu := identOk_utf8 hn.1
    have hl := intBytes_length v
    simp [tagOf, valBytes, serEnum, deInt, deBool, deString, deId, deEnum, hl, hn.1, hu,
      intOfBytes_intBytes hn.2]

/-- the encoding is injective on valid keys: distinct facts never collide in storage -/
theorem serKey_inj {a b : Key} (ha : a.Valid) (hb : b.Valid) (h : serKey a = serKey b) : a = b := by
  have := deser_ser a ha
  rw [h, deser_ser b hb] at this
  injection this with this
  exact this.symm

/-- two keys with the same identifier and the same value constructor share everything up to the tag -/
theorem blt_serKey_same (i : Bytes) (a b : HVal) (h : tagOf a = tagOf b) :
    blt (serKey ⟨i, a⟩) (serKey ⟨i, b⟩) = blt (valBytes a) (valBytes b) := by
  rw [serKey_eq, serKey_eq]
  simp only [h]
  rw [blt_append_left, blt_append_left]
  have : ¬ (UInt8.ofNat (tagOf b) < UInt8.ofNat (tagOf b)) := u8_lt_irrefl _
  simp [blt, this]

/-- **integers**: signed order = byte order of the stored keys (sign-bit flip + big-endian) -/
theorem serKey_mono_int (i : Bytes) {a b : Int} (ha : isI64 a) (hb : isI64 b) :
    a < b ↔ blt (serKey ⟨i, .int a⟩) (serKey ⟨i, .int b⟩) = true := by
  rw [blt_serKey_same i (.int a) (.int b) rfl]
  simp [valBytes, intBytes_mono ha hb]

theorem serKey_mono_bool (i : Bytes) (a b : Bool) :
    (a = false ∧ b = true) ↔ blt (serKey ⟨i, .bool a⟩) (serKey ⟨i, .bool b⟩) = true := by
  rw [blt_serKey_same i (.bool a) (.bool b) rfl]
  cases a <;> cases b <;> simp [valBytes, blt]

/-- **strings**: Rust `str` order (bytewise) = byte order of the stored keys -/
theorem serKey_mono_string (i : Bytes) (a b : Bytes) :
    blt a b = blt (serKey ⟨i, .str a⟩) (serKey ⟨i, .str b⟩) := by
  rw [blt_serKey_same i (.str a) (.str b) rfl]; rfl

/-- **ids**: array order = byte order of the stored keys -/
theorem serKey_mono_id (i : Bytes) (a b : Bytes) :
    blt a b = blt (serKey ⟨i, .id a⟩) (serKey ⟨i, .id b⟩) := by
  rw [blt_serKey_same i (.id a) (.id b) rfl]; rfl

/-- **enums**: ordered by value, then by enum name (`(i64, Identifier)` order) -/
theorem serKey_mono_enum (i : Bytes) {v w : Int} (n m : Bytes) (hv : isI64 v) (hw : isI64 w) :
    (v < w ∨ (v = w ∧ blt n m = true)) ↔
      blt (serKey ⟨i, .enum n v⟩) (serKey ⟨i, .enum m w⟩) = true := by
  rw [blt_serKey_same i (.enum n v) (.enum m w) rfl]
  simp only [valBytes]
  rw [blt_append_of_length_eq _ _ _ _ (by rw [intBytes_length, intBytes_length]),
    intBytes_mono hv hw]
  have hinj : (intBytes v == intBytes w) = decide (v = w) := by
    rw [Bool.eq_iff_iff]; simp only [beq_iff_eq, decide_eq_true_eq]
    exact ⟨intBytes_inj hv hw, fun h => by rw [h]⟩
  rw [hinj]
  simp

/-- all five at once: for two valid values of the same type, the typed order is the byte order -/
theorem serKey_mono (i : Bytes) {a b : HVal} (ha : a.Valid) (hb : b.Valid)
    (hs : a.sameType b = true) :
    a.lt b = blt (serKey ⟨i, a⟩) (serKey ⟨i, b⟩) := by
  cases a <;> cases b <;> simp [HVal.sameType] at hs
  case int.int x y =>
    rw [Bool.eq_iff_iff]
    simpa [HVal.lt] using serKey_mono_int i (a := x) (b := y) ha hb
  case bool.bool x y =>
    rw [Bool.eq_iff_iff]
    have := serKey_mono_bool i x y
    cases x <;> cases y <;> simp_all [HVal.lt]
  case str.str x y => exact serKey_mono_string i x y
  case id.id x y => exact serKey_mono_id i x y
  case enum.enum n v m w =>
    rw [Bool.eq_iff_iff]
    have := serKey_mono_enum i n m ha.2 hb.2
    simpa [HVal.lt] using this

/-- **prefix**: the stored (serialized) key sequence starts with the serialized query keys iff the
fact's leading key fields equal the query's key fields -/
theorem prefix_iff : ∀ (q ks : List Key), (∀ k ∈ q, k.Valid) → (∀ k ∈ ks, k.Valid) →
    (AranyaV.FactOps.compsPrefix (serKeys q) (serKeys ks) = AranyaV.FactOps.keysPrefix q ks)
  | [], _, _, _ => by simp [serKeys, AranyaV.FactOps.compsPrefix, AranyaV.FactOps.keysPrefix]
  | _ :: _, [], _, _ => by simp [serKeys, AranyaV.FactOps.compsPrefix, AranyaV.FactOps.keysPrefix]
  | a :: q, b :: ks, hq, hk => by
    have ih := prefix_iff q ks (fun k h => hq k (by simp [h])) (fun k h => hk k (by simp [h]))
    simp only [serKeys, List.map_cons, AranyaV.FactOps.compsPrefix, AranyaV.FactOps.keysPrefix] at *
    rw [ih]
    have : (serKey a == serKey b) = (a == b) := by
      rw [Bool.eq_iff_iff]; simp only [beq_iff_eq]
      exact ⟨serKey_inj (hq a (by simp)) (hk b (by simp)), fun h => by rw [h]⟩
    rw [this]

/-! ### non-vacuity: concrete keys across the sign boundary -/

example : (⟨[107], .int (-1)⟩ : Key).Valid ∧ (⟨[107], .int 0⟩ : Key).Valid := by decide
example : blt (serKey ⟨[107], .int (-1)⟩) (serKey ⟨[107], .int 0⟩) = true := by decide
example : blt (serKey ⟨[107], .int (-9223372036854775808)⟩) (serKey ⟨[107], .int 9223372036854775807⟩) = true := by
  decide
example : deserKey (serKey ⟨[107], .enum [67, 111, 108] 2⟩) = .ok ⟨[107], .enum [67, 111, 108] 2⟩ :=
  deser_ser _ (by decide)
example : (⟨[107], .enum [67, 111, 108] 2⟩ : Key).Valid := by decide
/-- without the sign flip the order would be wrong: plain two's-complement big-endian puts -1 last -/
example : blt (be 8 (toU64 (-1))) (be 8 (toU64 0)) = false := by decide

end AranyaV.FactKey
