import AranyaV.Props.C41
import AranyaV.Proofs.Conc.ShmMem
/-!
# C40 — AFC sequence numbers never repeat within a seal context

Three layers.

1. **Sequential core** (`seq_consecutive_core`): one seal context, any sequence of seal
   attempts — cache hit or miss (generation changed: the key is re-derived from the channel
   record *with the cached key's sequence number*), each succeeding or failing — interleaved
   with generation changes.  Assumption made explicit in the transition function: the AEAD
   context advances its counter only on success (`SealCtx::seal` in spideroak-crypto increments
   after the AEAD call succeeded; the harness checks `SealKey::seq()` around every failing
   call), and a failed miss leaves the cache untouched.  The numbers returned by the
   successful seals are `0, 1, 2, …`.
2. **In the transition system of the shared-memory table** (`AranyaV.Shm`, all schedules,
   any number of readers, writer adding / removing channels concurrently): every context's log
   of returned sequence numbers is `[0, …, seq)` in every reachable state
   (`seq_consecutive`), a cache hit / a miss returns exactly the context's current number and
   advances it by one (`seal_hit_returns_seq`, `seal_miss_returns_seq`), a failed seal leaves the
   context alone (`failed_seal_keeps_ctx`), and writer operations on *other* channels never
   change what the lookup for this channel finds (`lookup_stable_seal`).
3. **The in-memory state** (`AranyaV.ShmMem`): never two live contexts for one channel
   (`single_live_ctx`), consecutive numbers per key and per context (`mem_seq_consecutive`: the
   key lives in the channel, so a re-created context continues the channel's numbering),
   removed ⇒ `NotFound` forever (`mem_removed_not_found`).

`ReadState::setup_seal_ctx` (shared memory) does **not** refuse a second context for the same
channel — two contexts would both start at 0; the property only claims uniqueness for the
in-memory state, and `Client::setup_seal_ctx` documents the caller's obligation.

Level: partial by nature (sequential consistency; no `u64` sequence-number exhaustion —
`MessageLimitReached` is outside the model).
-/
namespace AranyaV.Shm

/-! ## 1. sequential core -/

/-- what can happen to one seal context -/
inductive SealEv where
  /-- cache hit (generation unchanged), the AEAD succeeds / fails -/
  | hit (ok : Bool)
  /-- cache miss: the key is re-derived at the cached key's sequence number; the closure
  succeeds (cache := the advanced key) or fails (cache untouched) -/
  | miss (ok : Bool)
  /-- the writer changed the table (another channel): the cached generation goes stale -/
  | genChange
deriving DecidableEq, Repr

/-- state: the cached key's sequence number; output: the number a successful seal returns.
The AEAD context advances only on success. -/
def coreStep (seq : Nat) : SealEv → Nat × Option Nat
  | .hit true => (seq + 1, some seq)
  | .hit false => (seq, none)
  | .miss true => (seq + 1, some seq)        -- `SealKey::from_raw(raw, cache.key.seq())`, then `cache.key = key`
  | .miss false => (seq, none)               -- the re-derived key is dropped
  | .genChange => (seq, none)

def coreRun (seq : Nat) : List SealEv → Nat × List Nat
  | [] => (seq, [])
  | e :: es =>
    let (s1, o) := coreStep seq e
    let (s2, os) := coreRun s1 es
    (s2, match o with | some q => q :: os | none => os)

theorem coreRun_spec (seq : Nat) (es : List SealEv) :
    (coreRun seq es).2 = (List.range ((coreRun seq es).1 - seq)).map (· + seq) ∧ seq ≤ (coreRun seq es).1 := by
  induction es generalizing seq with
  | nil => simp [coreRun]
  | cons e es ih =>
    cases e with
    | hit ok =>
      cases ok
      · simpa [coreRun, coreStep] using ih seq
      · obtain ⟨h1, h2⟩ := ih (seq + 1)
        simp only [coreRun, coreStep]
        refine ⟨?_, by omega⟩
        rw [h1]
        have : (coreRun (seq + 1) es).1 - seq = ((coreRun (seq + 1) es).1 - (seq + 1)) + 1 := by omega
        rw [this, List.range_succ_eq_map]
        simp [List.map_map, Function.comp_def, Nat.add_comm, Nat.add_left_comm]
    | miss ok =>
      cases ok
      · simpa [coreRun, coreStep] using ih seq
      · obtain ⟨h1, h2⟩ := ih (seq + 1)
        simp only [coreRun, coreStep]
        refine ⟨?_, by omega⟩
        rw [h1]
        have : (coreRun (seq + 1) es).1 - seq = ((coreRun (seq + 1) es).1 - (seq + 1)) + 1 := by omega
        rw [this, List.range_succ_eq_map]
        simp [List.map_map, Function.comp_def, Nat.add_comm, Nat.add_left_comm]
    | genChange => simpa [coreRun, coreStep] using ih seq

/-- **seq_consecutive (sequential core).**  From a fresh context, after any sequence of hits,
misses, failures and generation changes, the successful seals carried exactly `0, 1, …, n-1`
where `n` is the number of successes (= the cached key's sequence number). -/
theorem seq_consecutive_core (es : List SealEv) :
    (coreRun 0 es).2 = List.range (coreRun 0 es).1 := by
  have := (coreRun_spec 0 es).1
  simpa using this

example : coreRun 0 [.hit true, .genChange, .miss false, .miss true, .hit false, .genChange, .miss true] =
    (3, [0, 1, 2]) := by decide

/-! ## 2. in the shared-memory transition system -/

/-- **seq_consecutive.**  In every reachable state, for every reader and every context, the
sequence numbers its successful seals have returned so far are `0, 1, …, seq - 1`, in order
(`log` grows only in `Ctx.sealed`, by the number that seal returns). -/
theorem seq_consecutive {cap n : Nat} {s : State} (h : Reachable cap n s) {i k : Nat} {r : Reader}
    {c : Ctx} (hr : s.rs[i]? = some r) (hc : r.ctxs[k]? = some c) : c.log = List.range c.seq :=
  ((reachable_rdinv h).ctx i r k c hr hc).2

/-- a cache-hit seal returns the context's number and advances the context by one; a cache
hit with a failing AEAD changes nothing -/
theorem seal_hit_returns_seq {ro : Bool} {side : Bool → Side} {free : Bool → Bool} {r r' : Reader}
    {eff : LockEff} {ret : Option Ret} {k : Nat} {f sd : Bool} {c : Ctx}
    (hpc : r.pc = .peek (.seal k f) sd) (hc : r.ctxs[k]? = some c) (hit : c.gen = (side sd).gen)
    (h : rStepLocal ro side free r = some (r', eff, ret)) :
    (f = false → ret = some (.sealed c.seq) ∧ r'.ctxs = r.ctxs.set k c.sealed) ∧
    (f = true → ret = some .fErr ∧ r'.ctxs = r.ctxs) := by
  simp only [rStepLocal, hpc, hc, hit, if_true] at h
  cases f <;> simp at h <;> obtain ⟨rfl, _, rfl⟩ := h <;> simp

/-- a cache-miss seal that finds the channel and succeeds returns the context's number
(`SealKey::from_raw(&chan.seal_key, cache.key.seq())`), stores the advanced key; a failing one
leaves the context exactly as it was (`if result.is_ok() { cache… = … }`) -/
theorem seal_miss_returns_seq {ro : Bool} {side : Bool → Side} {free : Bool → Bool} {r r' : Reader}
    {eff : LockEff} {ret : Option Ret} {k : Nat} {f sd : Bool} {c : Ctx} {ch : Chan} {idx : Nat}
    (hpc : r.pc = .gl (.seal k f) sd) (hc : r.ctxs[k]? = some c)
    (hfind : find (side sd).chans c.id (some c.idx) 1 = some (ch, idx))
    (h : rStepLocal ro side free r = some (r', eff, ret)) :
    (f = false → r'.pc = .ul sd (.sealed c.seq) ∧
      r'.ctxs = r.ctxs.set k { c.sealed with ch := ch, gen := (side sd).gen, idx := idx }) ∧
    (f = true → r'.pc = .ul sd .fErr ∧ r'.ctxs = r.ctxs) := by
  simp only [rStepLocal, hpc, hc, hfind] at h
  cases f <;> simp at h <;> obtain ⟨rfl, _, _⟩ := h <;> simp

/-- whatever a reader step does, every context keeps its number or advances it by exactly one
together with its log — there is no other way the number moves -/
theorem failed_seal_keeps_ctx {ro : Bool} {side : Bool → Side} {free : Bool → Bool} {r r' : Reader}
    {eff : LockEff} {ret : Option Ret} (h : rStepLocal ro side free r = some (r', eff, ret))
    (hg : GloOk side r) {k : Nat} {c' : Ctx} (hc' : r'.ctxs[k]? = some c') :
    (r.ctxs[k]? = none ∧ c'.seq = 0 ∧ c'.log = []) ∨
    ∃ c, r.ctxs[k]? = some c ∧
      ((c'.seq = c.seq ∧ c'.log = c.log) ∨ (c'.seq = c.seq + 1 ∧ c'.log = c.log ++ [c.seq])) := by
  cases rStepLocal_ctxs h hg k c' hc' with
  | same h0 => exact Or.inr ⟨c', h0, Or.inl ⟨rfl, rfl⟩⟩
  | hit c h0 e => subst e; exact Or.inr ⟨c, h0, Or.inr ⟨rfl, rfl⟩⟩
  | expire c h0 e => subst e; exact Or.inr ⟨c, h0, Or.inl ⟨rfl, rfl⟩⟩
  | fresh sd ch idx isSeal _ h0 _ e => subst e; exact Or.inl ⟨h0, rfl, rfl⟩
  | miss sd ch idx c _ h0 _ _ e => subst e; exact Or.inr ⟨c, h0, Or.inr ⟨rfl, rfl⟩⟩
  | reopen sd ch idx c _ h0 _ _ e => subst e; exact Or.inr ⟨c, h0, Or.inl ⟨rfl, rfl⟩⟩

/-- **lookup_stable.**  Writer operations on *other* channels never change the result of the
lookup for this channel: if the seal channel `ch` is in the newest produced table and in the
one before it (the operation in flight did not remove or add it), the list a reader holds
contains `ch` and `find` with the cached index as hint returns `ch` — the same key material,
re-derived at the context's own sequence number. -/
theorem lookup_stable_seal {cap n : Nat} {s : State} (h : Reachable cap n s) {i : Nat} {r : Reader}
    {sd : Bool} (hr : s.rs[i]? = some r) (hsd : r.pc.holds = some sd) {ch : Chan} (hdir : ch.dir = 1)
    (hch : ∀ g l, s.hist.length ≤ g + 2 → s.hist[g]? = some l → ch ∈ l) (hint : Option Nat) :
    ∃ idx, find (s.side sd).chans ch.id hint 1 = some (ch, idx) :=
  (lookup_stable h hr hsd hch (by simp [dirMatches, hdir]) hint).2

end AranyaV.Shm

/-! ## 3. the in-memory state -/
namespace AranyaV.ShmMem

open AranyaV.Conc

/-- **single_live_ctx.**  The in-memory state never hands out a second live context for one
channel: in every reachable state two contexts for the same channel id that are both not
dropped are the same context.  (`Lender::lend` = `BiArc::try_clone` refuses while the flag is
`SHARED`; `setup_seal_ctx` turns that into `NotFound`.) -/
theorem single_live_ctx {s : State} (h : Reachable s) {k k' : Nat} {c c' : MCtx}
    (hk : s.ctxs[k]? = some c) (hk' : s.ctxs[k']? = some c') (hl : c.dropped = false)
    (hl' : c'.dropped = false) (hid : c.id = c'.id) : k = k' :=
  unique_of_countP_le_one (liveFor c.id) ((reachable_inv h).one c.id) hk hk'
    (by simp [liveFor, hl]) (by simp [liveFor, hl', hid])

/-- a second `setup_seal_ctx` for a channel whose context is still live is refused -/
theorem second_setup_refused {s : State} (h : Reachable s) {k : Nat} {c : MCtx}
    (hk : s.ctxs[k]? = some c) (hl : c.dropped = false) (isSeal : Bool) :
    (step s (.setup isSeal c.id)).2 = .notFound := by
  have hI := reachable_inv h
  simp only [step]
  split
  · rfl
  · rename_i ch hch
    split
    · rfl
    · split
      · rfl
      · rename_i hln
        exfalso
        have hcm : ch ∈ s.chans := List.mem_of_find?_eq_some hch
        have hcx : ch.id = c.id := by simpa using List.find?_some hch
        have h0 := hI.unloaned ch hcm (by simpa using hln)
        have hpos := countP_pos_of_get (liveFor ch.id) hk (by simp [liveFor, hl, hcx])
        omega

/-- **Consecutive sequence numbers in the memory state.**  The `SealKey` (and its counter)
lives in the channel's `Lender`, not in the context: (1) the numbers sealed under one channel
key are `0, 1, 2, …` across *all* contexts of that channel — never a repeat under one key;
(2) the numbers one context's successful seals returned are consecutive,
`start, start + 1, …`, where `start` is the key's counter when the context was set up — `0`
for the first context of a channel.  (A context re-created after its predecessor was dropped
therefore does *not* restart at 0 — the in-memory state is stricter than the shared-memory
one, whose `setup_seal_ctx` starts at `Seq::ZERO`.) -/
theorem mem_seq_consecutive {s : State} (h : Reachable s) :
    (∀ ch ∈ s.chans, ch.klog = List.range ch.seq) ∧
    (∀ (k : Nat) (c : MCtx), s.ctxs[k]? = some c → c.log = List.range' c.start c.log.length) ∧
    (∀ (k : Nat) (c : MCtx), s.ctxs[k]? = some c → c.dropped = false → ∀ ch ∈ s.chans, ch.id = c.id →
      c.start + c.log.length = ch.seq) := by
  have hI := reachable_inv h
  exact ⟨hI.klog, fun k c hk => hI.run c (List.mem_of_getElem? hk),
    fun k c hk hd => hI.sync c (List.mem_of_getElem? hk) hd⟩

/-- a successful seal returns the channel key's current number -/
theorem mem_seal_returns_seq {s : State} {k : Nat} {f : Bool} {q : Nat}
    (h : (step s (.sealC k f)).2 = .sealed q) :
    ∃ c ch, s.ctxs[k]? = some c ∧ ch ∈ s.chans ∧ ch.id = c.id ∧ ch.seq = q := by
  simp only [step] at h
  split at h
  · cases h
  · rename_i c hc
    split at h
    · cases h
    · split at h
      · cases h
      · rename_i ch hch
        split at h
        · cases h
        · injection h with h
          exact ⟨c, ch, hc, List.mem_of_find?_eq_some hch, by simpa using List.find?_some hch, h⟩

/-- an id below `next_chan_id` that is not in the map never comes back -/
theorem mem_removed_stays_removed {s : State} (h : Reachable s) {x : Nat} (hx : x < s.nextId)
    (hp : present s x = false) (o : Op) : present (step s o).1 x = false ∧ x < (step s o).1.nextId := by
  have hne : ∀ c ∈ s.chans, c.id ≠ x := by
    intro c hc e
    simp only [present, List.any_eq_false] at hp
    exact hp c hc (by simp [e])
  have key : ∀ l : List MChan, (∀ c ∈ l, c.id ≠ x) → (l.any (·.id == x)) = false := by
    intro l hl; rw [List.any_eq_false]; intro c hc; simpa using hl c hc
  cases o with
  | add d p =>
    simp only [step, present]
    refine ⟨key _ ?_, by omega⟩
    intro c hc
    simp only [List.mem_append, List.mem_singleton] at hc
    rcases hc with hc | rfl
    · exact hne c hc
    · simp; omega
  | remove y => exact ⟨key _ fun c hc => hne c (List.mem_filter.mp hc).1, hx⟩
  | removeAll => exact ⟨by simp [step, present], hx⟩
  | removeIf p => exact ⟨key _ fun c hc => hne c (List.mem_filter.mp hc).1, hx⟩
  | exists_ y => exact ⟨hp, hx⟩
  | setup isSeal y =>
    simp only [step]
    split
    · exact ⟨hp, hx⟩
    · split
      · exact ⟨hp, hx⟩
      · split
        · exact ⟨hp, hx⟩
        · refine ⟨key _ ?_, hx⟩
          intro c hc
          obtain ⟨c0, hc0, hid, _⟩ := mem_setLoaned hc
          rw [hid]; exact hne c0 hc0
  | sealC k f =>
    simp only [step]
    split
    · exact ⟨hp, hx⟩
    · split
      · exact ⟨hp, hx⟩
      · split
        · exact ⟨hp, hx⟩
        · split
          · exact ⟨hp, hx⟩
          · refine ⟨key _ ?_, hx⟩
            intro c hc
            obtain ⟨c0, hc0, hid, _⟩ := mem_bumpSeq hc
            rw [hid]; exact hne c0 hc0
  | openC k f =>
    simp only [step]
    split
    · exact ⟨hp, hx⟩
    · split
      · exact ⟨hp, hx⟩
      · split
        · exact ⟨hp, hx⟩
        · split <;> exact ⟨hp, hx⟩
  | dropC k =>
    simp only [step]
    split
    · exact ⟨hp, hx⟩
    · split
      · exact ⟨hp, hx⟩
      · refine ⟨key _ ?_, hx⟩
        intro c hc
        obtain ⟨c0, hc0, hid, _⟩ := mem_setLoaned hc
        rw [hid]; exact hne c0 hc0

/-- **Removal in the memory state**: once a channel is out of the map, `seal` / `open` on a
context for it return `NotFound` (the `Lender` is dropped, `Loan::get_mut` sees `UNSHARED`),
`setup_*_ctx` returns `NotFound`, `exists` returns `false`. -/
theorem mem_removed_not_found {s : State} {x : Nat} (hp : present s x = false) :
    (step s (.exists_ x)).2 = .bool false ∧
    (∀ b, (step s (.setup b x)).2 = .notFound) ∧
    (∀ k c f, s.ctxs[k]? = some c → c.id = x → c.dropped = false →
      (c.isSeal = true → (step s (.sealC k f)).2 = .notFound) ∧
      (c.isSeal = false → (step s (.openC k f)).2 = .notFound)) := by
  refine ⟨by simp [step, hp], ?_, ?_⟩
  · intro b
    simp only [step]
    split
    · rfl
    · rename_i c hc
      exfalso
      have hcm : c ∈ s.chans := List.mem_of_find?_eq_some hc
      have hcx : c.id = x := by simpa using List.find?_some hc
      simp only [present, List.any_eq_false] at hp
      exact hp c hcm (by simp [hcx])
  · intro k c f hk hid hl
    subst hid
    have hfind : s.chans.find? (·.id == c.id) = none := by
      rw [List.find?_eq_none]
      intro ch hch
      simp only [present, List.any_eq_false] at hp
      exact hp ch hch
    constructor
    · intro hs; simp [step, hk, hl, hs, hfind]
    · intro hs; simp [step, hk, hl, hs, hp]

/-- non-vacuity: add, setup, second setup refused, seal twice, drop, setup again, remove, seal -/
example : (([Op.add 1 0, .setup true 0, .setup true 0, .sealC 0 false, .sealC 0 true, .sealC 0 false, .dropC 0,
    .setup true 0, .sealC 1 false, .remove 0, .sealC 1 false].foldl (fun (acc : State × List Ret) o =>
      let (s', r) := step acc.1 o; (s', acc.2 ++ [r])) (init, [])).2) =
    [.okId 0, .ctx 0, .notFound, .sealed 0, .fErr, .sealed 1, .ok, .ctx 1, .sealed 2, .ok, .notFound] := by decide

end AranyaV.ShmMem
