import AranyaV.Props.C22
import AranyaV.Proofs.C23Whole
/-!
# C23 — Untaken operands and branches are never evaluated

Two kinds of theorems, both about `Model.Compile` code on `Model.LangVM`:

* `skip_*` (**skip_region**, layout lemmas, no typing assumption, any operand code): once the
  guard's value is on the stack, the construct's own glue instructions take the pc to the join
  point in a fixed number of steps, and every pc visited lies outside the code range of the
  untaken operand / branch.  Covered: `&&`, `||`, optional coalescing `or`, `if` expressions (both
  directions), `check`; the `if`-statement chain (`skip_branch_false`: a false condition jumps
  over the branch body; `skip_branch_done`, `skip_ifS_done`: after a taken branch the remaining
  branches and the else block are jumped over); `match` (`skip_test_hit_lit`,
  `skip_test_hit_bind`, `skip_test_default`: a successful test goes straight to the arm label,
  the remaining tests are not entered; `skip_arm_done_E/S`: after an arm, `End; Jump end` stays
  inside the arm's own block and does not enter the later arms; `skip_match_done_E/S`: for arm
  `k` of a whole `match`, these two steps end at the end of the `match`).
* `untaken_*` (**untaken_indep**): using the C22 simulation for the guard only, the whole
  construct ends with the guard-determined result and with exactly the guard's foreign-call
  log, for ANY untaken operand `b` (no hypothesis on `b` at all: it may panic, call foreign
  functions, be ill-typed).
* **whole-construct pc traces** (end of the file; machinery in `Proofs/C23Whole.lean`):
  `match_trace_E/S` — a compiled `match` with any number of arms, taken arm `k` at any position —
  and `ifS_trace_taken/else/none` — an `if / else if / … / else` chain of any length — state that
  the VM goes from the construct's entry pc to its exit pc executing EXACTLY an explicit trace
  `psS ++ psT ++ prologue ++ psB ++ [End, Jump]` resp. the trace of a `ChainRun`, and that every
  pc of the trace is either a pc of a sub-run that the semantics evaluates (scrutinee, literal
  patterns / conditions evaluated so far, taken body) or a glue pc that lies outside the block
  of every untaken arm / branch (and the else block).  The run is described by inductive
  relations (`ChainRun`, `ValsRun`, `TestsRun`: which conditions / tests miss, which hits) whose
  sub-runs are `StepsVia` hypotheses; the theorems are layout theorems (no typing assumption) proved
  by induction over the branch chain / test list / arm list.  `*_of_eval`: with the C22
  simulation the descriptions exist whenever the evaluator takes that arm / branch
  (`selectArm = k`, `chainSel = k`).  `trace_function`, `trace_consistent_run`: the trace is what
  the fuelled function `runTrace` (iterating `step`) computes, and `run` passes through its end.

-/
namespace AranyaV.Lang
open AranyaV.Gen.Lang

-- `StepsVia` (execution that records the pc of every executed instruction), `InRange lo len pc`
-- (the code range `[lo, lo + len)`) and the run descriptions `ChainRun` / `ValsRun` / `TestsRun` used
-- by the whole-construct theorems at the end of this file are defined in `Proofs/C23Whole.lean`.

variable (S : Sim)

/-- **skip_region, `a && b`**: with `false` on the stack after `a`, three glue steps reach the
join point; `b`'s code (at `wpB`, length `|B|`) is never entered. -/
theorem skip_and (a b : Expr) (wp c : Nat) (σ : List Val) (sc : List Env) (K : List Nat) (lg : Log)
    (hcode : CodeAt S.labels S.m.prog wp (compileExpr S.m.p.structs wp c (.and a b)).code)
    (hdefs : DefsOk S.labels (compileExpr S.m.p.structs wp c (.and a b)).defs) :
    let A := compileExpr S.m.p.structs wp c a
    let wpB := wp + A.code.length + 3
    let B := compileExpr S.m.p.structs wpB (A.c + 2) b
    ∃ ps, StepsVia S.m ⟨.bool false :: σ, sc, K, wp + A.code.length, lg⟩ ps
        ⟨.bool false :: σ, sc, K, wp + (compileExpr S.m.p.structs wp c (.and a b)).code.length, lg⟩ ∧
      ∀ pc ∈ ps, ¬ InRange wpB B.code.length pc := by
  intro A wpB B
  simp only [compileExpr, defsOk_append, defsOk_cons, DefsOk.nil, and_true] at hdefs
  obtain ⟨⟨⟨_, hmid⟩, _⟩, hend⟩ := hdefs
  simp only [compileExpr, codeAt_append, codeAt_cons, CodeAt.nil, and_true] at hcode
  simp only [res_br hmid, res_jmp hend] at hcode
  simp only [res] at hcode
  normpc at hcode
  obtain ⟨⟨_, hbr, hcf, hj⟩, _⟩ := hcode
  refine ⟨[wp + A.code.length, wp + A.code.length + 1, wp + A.code.length + 1 + 1], ?_, ?_⟩
  · refine .next (step_branch_false hbr) (.next (step_const hcf) ?_)
    have : wp + (compileExpr S.m.p.structs wp c (.and a b)).code.length =
        wp + A.code.length + 3 + B.code.length := by
      simp only [A, wpB, B, compileExpr, List.length_append, List.length_cons, List.length_nil]; omega
    rw [this]
    exact .next (step_jump hj) (.refl _)
  · intro pc hpc
    simp only [List.mem_cons, List.not_mem_nil, or_false] at hpc
    simp only [InRange]
    rcases hpc with rfl | rfl | rfl <;> omega

/-- **skip_region, `a || b`**: with `true` on the stack after `a`, two glue steps reach the join point -/
theorem skip_or (a b : Expr) (wp c : Nat) (σ : List Val) (sc : List Env) (K : List Nat) (lg : Log)
    (hcode : CodeAt S.labels S.m.prog wp (compileExpr S.m.p.structs wp c (.or a b)).code)
    (hdefs : DefsOk S.labels (compileExpr S.m.p.structs wp c (.or a b)).defs) :
    let A := compileExpr S.m.p.structs wp c a
    let wpB := wp + A.code.length + 1
    let B := compileExpr S.m.p.structs wpB (A.c + 2) b
    ∃ ps, StepsVia S.m ⟨.bool true :: σ, sc, K, wp + A.code.length, lg⟩ ps
        ⟨.bool true :: σ, sc, K, wp + (compileExpr S.m.p.structs wp c (.or a b)).code.length, lg⟩ ∧
      ∀ pc ∈ ps, ¬ InRange wpB B.code.length pc := by
  intro A wpB B
  simp only [compileExpr, defsOk_append, defsOk_cons, DefsOk.nil, and_true] at hdefs
  obtain ⟨⟨_, _⟩, hmid, hend⟩ := hdefs
  simp only [compileExpr, codeAt_append, codeAt_cons, CodeAt.nil, and_true] at hcode
  simp only [res_br hmid, res_jmp hend] at hcode
  simp only [res] at hcode
  normpc at hcode
  obtain ⟨⟨⟨_, hbr⟩, _⟩, _, hct⟩ := hcode
  refine ⟨[wp + A.code.length, wp + A.code.length + 1 + B.code.length + 1], ?_, ?_⟩
  · refine .next (step_branch_true hbr) ?_
    have : wp + (compileExpr S.m.p.structs wp c (.or a b)).code.length =
        wp + A.code.length + 1 + B.code.length + 1 + 1 := by
      simp only [A, wpB, B, compileExpr, List.length_append, List.length_cons, List.length_nil]; omega
    rw [this]
    exact .next (step_const hct) (.refl _)
  · intro pc hpc
    simp only [List.mem_cons, List.not_mem_nil, or_false] at hpc
    simp only [InRange]
    rcases hpc with rfl | rfl <;> omega

/-- **skip_region, `a or b`** (optional coalescing): with `Some v` on the stack after `a`, four
glue steps (`Dup; Is Some; Branch; Unwrap`) leave `v` and reach the join point -/
theorem skip_coalesce (a b : Expr) (v : Val) (wp c : Nat) (σ : List Val) (sc : List Env) (K : List Nat) (lg : Log)
    (hcode : CodeAt S.labels S.m.prog wp (compileExpr S.m.p.structs wp c (.coalesce a b)).code)
    (hdefs : DefsOk S.labels (compileExpr S.m.p.structs wp c (.coalesce a b)).defs) :
    let A := compileExpr S.m.p.structs wp (c + 2) a
    let wpB := wp + A.code.length + 4
    let B := compileExpr S.m.p.structs wpB A.c b
    ∃ ps, StepsVia S.m ⟨.some v :: σ, sc, K, wp + A.code.length, lg⟩ ps
        ⟨v :: σ, sc, K, wp + (compileExpr S.m.p.structs wp c (.coalesce a b)).code.length, lg⟩ ∧
      ∀ pc ∈ ps, ¬ InRange wpB B.code.length pc := by
  intro A wpB B
  simp only [compileExpr, defsOk_append, defsOk_cons, DefsOk.nil, and_true] at hdefs
  obtain ⟨⟨_, _⟩, hsome, hend⟩ := hdefs
  simp only [compileExpr, codeAt_append, codeAt_cons, CodeAt.nil, and_true] at hcode
  simp only [res_br hsome, res_jmp hend] at hcode
  simp only [res] at hcode
  normpc at hcode
  obtain ⟨⟨⟨_, hdup, his, hbr, _⟩, _⟩, _, hun⟩ := hcode
  refine ⟨[wp + A.code.length, wp + A.code.length + 1, wp + A.code.length + 1 + 1,
    wp + A.code.length + 4 + B.code.length + 1], ?_, ?_⟩
  · refine .next (step_dup hdup) (.next (step_is his) (.next (step_branch_true hbr) ?_))
    have : wp + (compileExpr S.m.p.structs wp c (.coalesce a b)).code.length =
        wp + A.code.length + 4 + B.code.length + 1 + 1 := by
      simp only [A, wpB, B, compileExpr, List.length_append, List.length_cons, List.length_nil]; omega
    rw [this]
    exact .next (step_unwrap hun rfl) (.refl _)
  · intro pc hpc
    simp only [List.mem_cons, List.not_mem_nil, or_false] at hpc
    simp only [InRange]
    rcases hpc with rfl | rfl | rfl | rfl <;> omega

/-- **skip_region, `if c { t } else { f }`, condition true**: one step (`Branch`) lands on the
first instruction of `t`; the else branch `f` (placed first) is never entered -/
theorem skip_ite_else (cnd t f : Expr) (wp c : Nat) (σ : List Val) (sc : List Env) (K : List Nat) (lg : Log)
    (hcode : CodeAt S.labels S.m.prog wp (compileExpr S.m.p.structs wp c (.ite cnd t f)).code)
    (hdefs : DefsOk S.labels (compileExpr S.m.p.structs wp c (.ite cnd t f)).defs) :
    let C := compileExpr S.m.p.structs wp (c + 2) cnd
    let wpF := wp + C.code.length + 1
    let F := compileExpr S.m.p.structs wpF C.c f
    let wpT := wpF + F.code.length + 1
    ∃ ps, StepsVia S.m ⟨.bool true :: σ, sc, K, wp + C.code.length, lg⟩ ps ⟨σ, sc, K, wpT, lg⟩ ∧
      ∀ pc ∈ ps, ¬ InRange wpF F.code.length pc := by
  intro C wpF F wpT
  simp only [compileExpr, defsOk_append, defsOk_cons, DefsOk.nil, and_true] at hdefs
  obtain ⟨⟨⟨⟨_, _⟩, hels⟩, _⟩, hend⟩ := hdefs
  simp only [compileExpr, codeAt_append, codeAt_cons, CodeAt.nil, and_true] at hcode
  simp only [res_br hels, res_jmp hend] at hcode
  normpc at hcode
  obtain ⟨⟨⟨⟨_, hbr⟩, _⟩, _⟩, _⟩ := hcode
  refine ⟨[wp + C.code.length], .next (step_branch_true hbr) (.refl _), ?_⟩
  intro pc hpc
  simp only [List.mem_cons, List.not_mem_nil, or_false] at hpc
  simp only [InRange]
  subst hpc; omega

/-- **skip_region, `if c { t } else { f }`, condition false**: when `f` has produced its value the
`Jump` behind it goes straight to the join point; the then branch `t` is never entered -/
theorem skip_ite_then (cnd t f : Expr) (wp c : Nat) (σ : List Val) (sc : List Env) (K : List Nat) (lg : Log)
    (hcode : CodeAt S.labels S.m.prog wp (compileExpr S.m.p.structs wp c (.ite cnd t f)).code)
    (hdefs : DefsOk S.labels (compileExpr S.m.p.structs wp c (.ite cnd t f)).defs) :
    let C := compileExpr S.m.p.structs wp (c + 2) cnd
    let wpF := wp + C.code.length + 1
    let F := compileExpr S.m.p.structs wpF C.c f
    let wpT := wpF + F.code.length + 1
    let T := compileExpr S.m.p.structs wpT F.c t
    ∃ ps, StepsVia S.m ⟨σ, sc, K, wpF + F.code.length, lg⟩ ps
        ⟨σ, sc, K, wp + (compileExpr S.m.p.structs wp c (.ite cnd t f)).code.length, lg⟩ ∧
      ∀ pc ∈ ps, ¬ InRange wpT T.code.length pc := by
  intro C wpF F wpT T
  simp only [compileExpr, defsOk_append, defsOk_cons, DefsOk.nil, and_true] at hdefs
  obtain ⟨⟨⟨⟨_, _⟩, hels⟩, _⟩, hend⟩ := hdefs
  simp only [compileExpr, codeAt_append, codeAt_cons, CodeAt.nil, and_true] at hcode
  simp only [res_br hels, res_jmp hend] at hcode
  normpc at hcode
  obtain ⟨⟨⟨⟨_, _⟩, _⟩, hj⟩, _⟩ := hcode
  refine ⟨[wp + C.code.length + 1 + F.code.length], ?_, ?_⟩
  · have : wp + (compileExpr S.m.p.structs wp c (.ite cnd t f)).code.length =
        wp + C.code.length + 1 + F.code.length + 1 + T.code.length := by
      simp only [C, wpF, F, wpT, T, compileExpr, List.length_append, List.length_cons, List.length_nil]; omega
    rw [this]
    exact .next (step_jump hj) (.refl _)
  · intro pc hpc
    simp only [List.mem_cons, List.not_mem_nil, or_false] at hpc
    simp only [InRange]
    subst hpc; omega

/-- **skip_region, `check c else e`**: a true condition branches over the else expression -/
theorem skip_check (cnd els : Expr) (wp c : Nat) (σ : List Val) (sc : List Env) (K : List Nat) (lg : Log)
    (hcode : CodeAt S.labels S.m.prog wp (compileStmt S.m.p.structs wp c (.check cnd els)).code)
    (hdefs : DefsOk S.labels (compileStmt S.m.p.structs wp c (.check cnd els)).defs) :
    let C := compileExpr S.m.p.structs wp c cnd
    let E := compileExpr S.m.p.structs (wp + C.code.length + 1) (C.c + 1) els
    ∃ ps, StepsVia S.m ⟨.bool true :: σ, sc, K, wp + C.code.length, lg⟩ ps
        ⟨σ, sc, K, wp + (compileStmt S.m.p.structs wp c (.check cnd els)).code.length, lg⟩ ∧
      ∀ pc ∈ ps, ¬ InRange (wp + C.code.length + 1) E.code.length pc := by
  intro C E
  simp only [compileStmt, defsOk_append, defsOk_cons, DefsOk.nil, and_true] at hdefs
  obtain ⟨⟨_, _⟩, hok⟩ := hdefs
  simp only [compileStmt, codeAt_append, codeAt_single] at hcode
  simp only [res_br hok] at hcode
  normpc at hcode
  obtain ⟨⟨_, hbr⟩, _⟩ := hcode
  refine ⟨[wp + C.code.length], ?_, ?_⟩
  · have : wp + (compileStmt S.m.p.structs wp c (.check cnd els)).code.length =
        wp + C.code.length + 1 + E.code.length := by
      simp only [C, E, compileStmt, List.length_append, List.length_cons, List.length_nil]; omega
    rw [this]
    exact .next (step_branch_true hbr) (.refl _)
  · intro pc hpc
    simp only [List.mem_cons, List.not_mem_nil, or_false] at hpc
    simp only [InRange]
    subst hpc; omega

/-! ## untaken_indep -/

/-- **untaken_indep, `a && b`**: if `a` evaluates to `false`, the compiled `a && b` pushes `false`
and ends with exactly `a`'s foreign-call log — for every `b` whatsoever. -/
theorem untaken_and (hP : ProgOk S) (n : Nat) (a b : Expr) (env : Env) (log l : Log) (wp c : Nat)
    (junk base : List Val) (fr : List Env) (K : List Nat)
    (hcode : CodeAt S.labels S.m.prog wp (compileExpr S.m.p.structs wp c (.and a b)).code)
    (hdefs : DefsOk S.labels (compileExpr S.m.p.structs wp c (.and a b)).defs)
    (hev : evalExpr S.m.p n env log a = .val (.bool false) l) :
    Steps S.m (stAt junk base env fr K wp log)
      (stAt (.bool false :: junk) base env fr K (wp + (compileExpr S.m.p.structs wp c (.and a b)).code.length) l) := by
  obtain ⟨ps, hvia, _⟩ := skip_and S a b wp c (junk ++ base) (env :: fr) (base.length :: K) l hcode hdefs
  have hcA : CodeAt S.labels S.m.prog wp (compileExpr S.m.p.structs wp c a).code := by
    simp only [compileExpr, codeAt_append] at hcode; exact hcode.1.1
  have hdA : DefsOk S.labels (compileExpr S.m.p.structs wp c a).defs := by
    simp only [compileExpr, defsOk_append] at hdefs; exact hdefs.1.1.1
  have h := (sim_all S hP n).e a env log wp c junk base fr K (supE_all a) hcA hdA
  rw [hev] at h
  exact Steps.trans h hvia.steps

/-- **untaken_indep, `a || b`**: if `a` evaluates to `true`, the result is `true` with `a`'s log, for every `b` -/
theorem untaken_or (hP : ProgOk S) (n : Nat) (a b : Expr) (env : Env) (log l : Log) (wp c : Nat)
    (junk base : List Val) (fr : List Env) (K : List Nat)
    (hcode : CodeAt S.labels S.m.prog wp (compileExpr S.m.p.structs wp c (.or a b)).code)
    (hdefs : DefsOk S.labels (compileExpr S.m.p.structs wp c (.or a b)).defs)
    (hev : evalExpr S.m.p n env log a = .val (.bool true) l) :
    Steps S.m (stAt junk base env fr K wp log)
      (stAt (.bool true :: junk) base env fr K (wp + (compileExpr S.m.p.structs wp c (.or a b)).code.length) l) := by
  obtain ⟨ps, hvia, _⟩ := skip_or S a b wp c (junk ++ base) (env :: fr) (base.length :: K) l hcode hdefs
  have hcA : CodeAt S.labels S.m.prog wp (compileExpr S.m.p.structs wp c a).code := by
    simp only [compileExpr, codeAt_append] at hcode; exact hcode.1.1.1
  have hdA : DefsOk S.labels (compileExpr S.m.p.structs wp c a).defs := by
    simp only [compileExpr, defsOk_append] at hdefs; exact hdefs.1.1
  have h := (sim_all S hP n).e a env log wp c junk base fr K (supE_all a) hcA hdA
  rw [hev] at h
  exact Steps.trans h hvia.steps

/-- **untaken_indep, `a or b`**: if `a` evaluates to `Some v`, the result is `v` with `a`'s log, for every `b` -/
theorem untaken_coalesce (hP : ProgOk S) (n : Nat) (a b : Expr) (v : Val) (env : Env) (log l : Log) (wp c : Nat)
    (junk base : List Val) (fr : List Env) (K : List Nat)
    (hcode : CodeAt S.labels S.m.prog wp (compileExpr S.m.p.structs wp c (.coalesce a b)).code)
    (hdefs : DefsOk S.labels (compileExpr S.m.p.structs wp c (.coalesce a b)).defs)
    (hev : evalExpr S.m.p n env log a = .val (.some v) l) :
    Steps S.m (stAt junk base env fr K wp log)
      (stAt (v :: junk) base env fr K (wp + (compileExpr S.m.p.structs wp c (.coalesce a b)).code.length) l) := by
  obtain ⟨ps, hvia, _⟩ := skip_coalesce S a b v wp c (junk ++ base) (env :: fr) (base.length :: K) l hcode hdefs
  have hcA : CodeAt S.labels S.m.prog wp (compileExpr S.m.p.structs wp (c + 2) a).code := by
    simp only [compileExpr, codeAt_append] at hcode; exact hcode.1.1.1
  have hdA : DefsOk S.labels (compileExpr S.m.p.structs wp (c + 2) a).defs := by
    simp only [compileExpr, defsOk_append] at hdefs; exact hdefs.1.1
  have h := (sim_all S hP n).e a env log wp (c + 2) junk base fr K (supE_all a) hcA hdA
  rw [hev] at h
  exact Steps.trans h hvia.steps

/-- **untaken_indep, `if`**: with a true condition the compiled `if` behaves exactly as the then
branch started after the condition — for every else branch `f` (and symmetrically, `sim_ite`) -/
theorem untaken_ite_else (hP : ProgOk S) (n : Nat) (cnd t f : Expr) (env : Env) (log l : Log) (wp c : Nat)
    (junk base : List Val) (fr : List Env) (K : List Nat)
    (hcode : CodeAt S.labels S.m.prog wp (compileExpr S.m.p.structs wp c (.ite cnd t f)).code)
    (hdefs : DefsOk S.labels (compileExpr S.m.p.structs wp c (.ite cnd t f)).defs)
    (hev : evalExpr S.m.p n env log cnd = .val (.bool true) l) :
    Outcome S.m (evalExpr S.m.p n env l t) base fr K
      (fun v l' => stAt (v :: junk) base env fr K (wp + (compileExpr S.m.p.structs wp c (.ite cnd t f)).code.length) l')
      (stAt junk base env fr K wp log) := by
  obtain ⟨ps, hvia, _⟩ := skip_ite_else S cnd t f wp c (junk ++ base) (env :: fr) (base.length :: K) l hcode hdefs
  have hcode' := hcode
  simp only [compileExpr, codeAt_append] at hcode'
  have hdefs' := hdefs
  simp only [compileExpr, defsOk_append] at hdefs'
  have h := (sim_all S hP n).e cnd env log wp (c + 2) junk base fr K (supE_all cnd) hcode'.1.1.1.1 hdefs'.1.1.1.1
  rw [hev] at h
  have pre := Steps.trans h hvia.steps
  have hcT := hcode'.2
  have e1 : wp + ((compileExpr S.m.p.structs wp (c + 2) cnd).code ++ [br (Label.anon c)] ++
      (compileExpr S.m.p.structs (wp + (compileExpr S.m.p.structs wp (c + 2) cnd).code.length + 1)
        (compileExpr S.m.p.structs wp (c + 2) cnd).c f).code ++ [jmp (Label.anon (c + 1))]).length =
      wp + (compileExpr S.m.p.structs wp (c + 2) cnd).code.length + 1 +
      (compileExpr S.m.p.structs (wp + (compileExpr S.m.p.structs wp (c + 2) cnd).code.length + 1)
        (compileExpr S.m.p.structs wp (c + 2) cnd).c f).code.length + 1 := by
    simp only [List.length_append, List.length_cons, List.length_nil]; omega
  rw [e1] at hcT
  have iht := (sim_all S hP n).e t env l _ _ junk base fr K (supE_all t) hcT hdefs'.1.2
  refine Outcome.of_steps pre (Outcome.cast iht ?_)
  intro v l'; congr 1
  simp only [compileExpr, List.length_append, List.length_cons, List.length_nil]; omega

/-! ## `if`-statement chain and `match` (skip_region) -/

/-- **skip_region, `if`-statement chain, condition false**: with `false` on the stack after a
branch condition, `Not; Branch next` (two steps) reaches the next branch's test (or the else
block / the end); the branch body `Block ss End Jump` is never entered.  Stated for the head of
`compileBranches`, hence (taking suffixes) for every position of the chain. -/
theorem skip_branch_false (cnd : Expr) (ss : List Stmt) (rest : List (Expr × List Stmt)) (end_ : Label)
    (wp c : Nat) (σ : List Val) (sc : List Env) (K : List Nat) (lg : Log)
    (hcode : CodeAt S.labels S.m.prog wp (compileBranches S.m.p.structs wp c end_ ((cnd, ss) :: rest)).code)
    (hdefs : DefsOk S.labels (compileBranches S.m.p.structs wp c end_ ((cnd, ss) :: rest)).defs) :
    let C := compileExpr S.m.p.structs wp (c + 1) cnd
    let B := compileStmts S.m.p.structs (wp + C.code.length + 3) C.c ss
    let wpN := wp + C.code.length + 3 + B.code.length + 2
    ∃ ps, StepsVia S.m ⟨.bool false :: σ, sc, K, wp + C.code.length, lg⟩ ps ⟨σ, sc, K, wpN, lg⟩ ∧
      ∀ pc ∈ ps, ¬ InRange (wp + C.code.length + 2) (B.code.length + 3) pc := by
  intro C B wpN
  simp only [compileBranches, defsOk_append, defsOk_cons, DefsOk.nil, and_true] at hdefs
  obtain ⟨⟨⟨_, _⟩, hnext⟩, _⟩ := hdefs
  simp only [compileBranches, codeAt_append, codeAt_cons, CodeAt.nil, and_true] at hcode
  simp only [res_br hnext] at hcode
  simp only [res] at hcode
  normpc at hcode
  obtain ⟨⟨⟨⟨_, hnot, hbr, _⟩, _⟩, _⟩, _⟩ := hcode
  refine ⟨[wp + C.code.length, wp + C.code.length + 1], ?_, ?_⟩
  · exact .next (step_not hnot) (.next (step_branch_true hbr) (.refl _))
  · intro pc hpc
    simp only [List.mem_cons, List.not_mem_nil, or_false] at hpc
    simp only [InRange]
    rcases hpc with rfl | rfl <;> omega


/-- **skip_region, `if`-statement chain, after a taken branch**: when the body of a branch is
done, `End; Jump end` leaves for the end label without entering the remaining branches
(`compileBranches … rest`, at `wpN`). -/
theorem skip_branch_done (cnd : Expr) (ss : List Stmt) (rest : List (Expr × List Stmt)) (end_ : Label) (tgt : Nat)
    (wp c : Nat) (σ : List Val) (b : List (Nat × Val)) (env : Env) (fr : List Env) (K : List Nat) (lg : Log)
    (hcode : CodeAt S.labels S.m.prog wp (compileBranches S.m.p.structs wp c end_ ((cnd, ss) :: rest)).code)
    (hend : lookupLabel S.labels end_ = some tgt) :
    let C := compileExpr S.m.p.structs wp (c + 1) cnd
    let B := compileStmts S.m.p.structs (wp + C.code.length + 3) C.c ss
    let wpN := wp + C.code.length + 3 + B.code.length + 2
    let R := compileBranches S.m.p.structs wpN B.c end_ rest
    ∃ ps, StepsVia S.m ⟨σ, (b :: env) :: fr, K, wp + C.code.length + 3 + B.code.length, lg⟩ ps ⟨σ, env :: fr, K, tgt, lg⟩ ∧
      ∀ pc ∈ ps, ¬ InRange wpN R.code.length pc := by
  intro C B wpN R
  simp only [compileBranches, codeAt_append, codeAt_cons, CodeAt.nil, and_true] at hcode
  simp only [res_jmp hend] at hcode
  simp only [res] at hcode
  normpc at hcode
  obtain ⟨⟨_, hE, hJ⟩, _⟩ := hcode
  refine ⟨[wp + C.code.length + 3 + B.code.length, wp + C.code.length + 3 + B.code.length + 1], ?_, ?_⟩
  · exact .next (step_end hE) (.next (step_jump hJ) (.refl _))
  · intro pc hpc
    simp only [List.mem_cons, List.not_mem_nil, or_false] at hpc
    simp only [InRange]
    rcases hpc with rfl | rfl <;> omega

/-- **skip_region, `if` statement, first branch taken**: after the first branch's body the two
glue steps reach the end of the whole statement; the rest of the chain and the else block
(`[wpN, end)`) are never entered. -/
theorem skip_ifS_done (cnd : Expr) (ss : List Stmt) (rest : List (Expr × List Stmt)) (hasElse : Bool) (els : List Stmt)
    (wp c : Nat) (σ : List Val) (b : List (Nat × Val)) (env : Env) (fr : List Env) (K : List Nat) (lg : Log)
    (hcode : CodeAt S.labels S.m.prog wp (compileStmt S.m.p.structs wp c (.ifS ((cnd, ss) :: rest) hasElse els)).code)
    (hdefs : DefsOk S.labels (compileStmt S.m.p.structs wp c (.ifS ((cnd, ss) :: rest) hasElse els)).defs) :
    let C := compileExpr S.m.p.structs wp (c + 2) cnd
    let B := compileStmts S.m.p.structs (wp + C.code.length + 3) C.c ss
    let wpN := wp + C.code.length + 3 + B.code.length + 2
    let tot := (compileStmt S.m.p.structs wp c (.ifS ((cnd, ss) :: rest) hasElse els)).code.length
    ∃ ps, StepsVia S.m ⟨σ, (b :: env) :: fr, K, wp + C.code.length + 3 + B.code.length, lg⟩ ps ⟨σ, env :: fr, K, wp + tot, lg⟩ ∧
      ∀ pc ∈ ps, ¬ InRange wpN (wp + tot - wpN) pc := by
  intro C B wpN tot
  have hend : lookupLabel S.labels (Label.anon c) = some (wp + tot) := by
    cases hasElse <;>
      simp only [compileStmt, if_true, Bool.false_eq_true, if_false, defsOk_append, defsOk_cons, DefsOk.nil, and_true] at hdefs <;>
      simpa [tot, compileStmt, Nat.add_assoc] using hdefs.2
  have hcB : CodeAt S.labels S.m.prog wp (compileBranches S.m.p.structs wp (c + 1) (Label.anon c) ((cnd, ss) :: rest)).code := by
    simp only [compileStmt, codeAt_append] at hcode; exact hcode.1
  simp only [compileBranches, codeAt_append, codeAt_cons, CodeAt.nil, and_true] at hcB
  simp only [res_jmp hend] at hcB
  simp only [res] at hcB
  normpc at hcB
  obtain ⟨⟨_, hE, hJ⟩, _⟩ := hcB
  refine ⟨[wp + C.code.length + 3 + B.code.length, wp + C.code.length + 3 + B.code.length + 1], ?_, ?_⟩
  · exact .next (step_end hE) (.next (step_jump hJ) (.refl _))
  · intro pc hpc
    simp only [List.mem_cons, List.not_mem_nil, or_false] at hpc
    simp only [InRange]
    rcases hpc with rfl | rfl <;> omega

/-! ## `match` -/

/-- **skip_region, `match` dispatch, literal pattern hit**: with `true` on the stack after the
`Eq` of a literal test, the `Branch arm` goes straight to the arm label; the remaining tests of
this arm (`R`) are not entered.  (The tests of the later arms and every other arm's body lie
behind `R` resp. behind all tests; the only pc visited is the `Branch` itself.) -/
theorem skip_test_hit_lit (v : Expr) (vs : List Expr) (arm : Label) (tgt : Nat) (wp c : Nat)
    (σ : List Val) (sc : List Env) (K : List Nat) (lg : Log)
    (hw : wrapOfBinding v = none)
    (hcode : CodeAt S.labels S.m.prog wp (compilePatVals S.m.p.structs wp c arm (v :: vs)).code)
    (harm : lookupLabel S.labels arm = some tgt) :
    let E := compileExpr S.m.p.structs (wp + 1) c v
    let R := compilePatVals S.m.p.structs (wp + 1 + E.code.length + 2) E.c arm vs
    StepsVia S.m ⟨.bool true :: σ, sc, K, wp + 1 + E.code.length + 1, lg⟩ [wp + 1 + E.code.length + 1] ⟨σ, sc, K, tgt, lg⟩ ∧
      ¬ InRange (wp + 1 + E.code.length + 2) R.code.length (wp + 1 + E.code.length + 1) := by
  intro E R
  simp only [compilePatVals, hw, codeAt_append, codeAt_cons, CodeAt.nil, and_true] at hcode
  simp only [res_br harm] at hcode
  normpc at hcode
  have hbr := hcode.1.2.2
  rw [show wp + 1 + E.code.length + 1 = wp + E.code.length + 1 + 1 from by omega]
  refine ⟨.next (step_branch_true hbr) (.refl _), ?_⟩
  simp only [InRange]; omega

/-- **skip_region, `match` dispatch, binding pattern hit** (`Some(x)`, `Ok(x)`, `Err(x)`): `Dup;
Is w` left `true`; the `Branch arm` goes to the arm label, the remaining tests are not entered -/
theorem skip_test_hit_bind (v : Expr) (vs : List Expr) (w : WrapType) (arm : Label) (tgt : Nat) (wp c : Nat)
    (σ : List Val) (sc : List Env) (K : List Nat) (lg : Log)
    (hw : wrapOfBinding v = some w)
    (hcode : CodeAt S.labels S.m.prog wp (compilePatVals S.m.p.structs wp c arm (v :: vs)).code)
    (harm : lookupLabel S.labels arm = some tgt) :
    let R := compilePatVals S.m.p.structs (wp + 3) c arm vs
    StepsVia S.m ⟨.bool true :: σ, sc, K, wp + 2, lg⟩ [wp + 2] ⟨σ, sc, K, tgt, lg⟩ ∧
      ¬ InRange (wp + 3) R.code.length (wp + 2) := by
  intro R
  simp only [compilePatVals, hw, codeAt_append, codeAt_cons, CodeAt.nil, and_true] at hcode
  simp only [res_br harm] at hcode
  normpc at hcode
  obtain ⟨⟨_, _, hbr⟩, _⟩ := hcode
  refine ⟨.next (step_branch_true hbr) (.refl _), ?_⟩
  simp only [InRange]; omega

/-- **skip_region, `match` dispatch, default arm**: the `Jump arm` of a `_` arm goes to the arm
label; the tests after it are not entered -/
theorem skip_test_default (rest : List Pat) (tgt : Nat) (wp c : Nat)
    (σ : List Val) (sc : List Env) (K : List Nat) (lg : Log)
    (hcode : CodeAt S.labels S.m.prog wp (compileTestsP S.m.p.structs wp c (.default :: rest)).1.code)
    (harm : lookupLabel S.labels (Label.anon c) = some tgt) :
    let R := compileTestsP S.m.p.structs (wp + 1) (c + 1) rest
    StepsVia S.m ⟨σ, sc, K, wp, lg⟩ [wp] ⟨σ, sc, K, tgt, lg⟩ ∧ ¬ InRange (wp + 1) R.1.code.length wp := by
  intro R
  simp only [compileTestsP, codeAt_cons] at hcode
  simp only [res_jmp harm] at hcode
  refine ⟨.next (step_jump hcode.1) (.refl _), ?_⟩
  simp only [InRange]; omega

/-- **skip_region, `match` expression, after an arm**: when the body of an arm has produced its
value, `End; Jump end` leaves for the end label; both pcs lie inside the arm's own block, the
later arms (`R`, at `wpR`) are never entered.  Stated for the head of `compileArmsE`, hence (taking
suffixes) for every arm. -/
theorem skip_arm_done_E (l : Label) (ls : List Label) (pat : Pat) (body : Expr) (rest : List (Pat × Expr))
    (end_ : Label) (tgt : Nat) (wp c : Nat)
    (σ : List Val) (b : List (Nat × Val)) (env : Env) (fr : List Env) (K : List Nat) (lg : Log)
    (hcode : CodeAt S.labels S.m.prog wp (compileArmsE S.m.p.structs wp c end_ (l :: ls) ((pat, body) :: rest)).code)
    (hend : lookupLabel S.labels end_ = some tgt) :
    let B := compileExpr S.m.p.structs (wp + 1 + (armPre pat).length) c body
    let wpR := wp + 1 + (armPre pat).length + B.code.length + 2
    let R := compileArmsE S.m.p.structs wpR B.c end_ ls rest
    ∃ ps, StepsVia S.m ⟨σ, (b :: env) :: fr, K, wp + 1 + (armPre pat).length + B.code.length, lg⟩ ps ⟨σ, env :: fr, K, tgt, lg⟩ ∧
      (∀ pc ∈ ps, InRange wp (wpR - wp) pc) ∧ ∀ pc ∈ ps, ¬ InRange wpR R.code.length pc := by
  intro B wpR R
  rw [compileArmsE_cons] at hcode
  simp only [codeAt_append, codeAt_cons, CodeAt.nil, and_true] at hcode
  simp only [res_jmp hend] at hcode
  simp only [res] at hcode
  normpc at hcode
  obtain ⟨⟨_, hE, hJ⟩, _⟩ := hcode
  refine ⟨[wp + 1 + (armPre pat).length + B.code.length, wp + 1 + (armPre pat).length + B.code.length + 1], ?_, ?_, ?_⟩
  · rw [show wp + 1 + (armPre pat).length + B.code.length = wp + (armPre pat).length + 1 + B.code.length from by omega]
    exact .next (step_end hE) (.next (step_jump hJ) (.refl _))
  all_goals (
    intro pc hpc
    simp only [List.mem_cons, List.not_mem_nil, or_false] at hpc
    simp only [InRange]
    rcases hpc with rfl | rfl <;> omega)

/-- **skip_region, `match` statement, after an arm** (as `skip_arm_done_E`) -/
theorem skip_arm_done_S (l : Label) (ls : List Label) (pat : Pat) (body : List Stmt) (rest : List (Pat × List Stmt))
    (end_ : Label) (tgt : Nat) (wp c : Nat)
    (σ : List Val) (b : List (Nat × Val)) (env : Env) (fr : List Env) (K : List Nat) (lg : Log)
    (hcode : CodeAt S.labels S.m.prog wp (compileArmsS S.m.p.structs wp c end_ (l :: ls) ((pat, body) :: rest)).code)
    (hend : lookupLabel S.labels end_ = some tgt) :
    let B := compileStmts S.m.p.structs (wp + 1 + (armPre pat).length) c body
    let wpR := wp + 1 + (armPre pat).length + B.code.length + 2
    let R := compileArmsS S.m.p.structs wpR B.c end_ ls rest
    ∃ ps, StepsVia S.m ⟨σ, (b :: env) :: fr, K, wp + 1 + (armPre pat).length + B.code.length, lg⟩ ps ⟨σ, env :: fr, K, tgt, lg⟩ ∧
      (∀ pc ∈ ps, InRange wp (wpR - wp) pc) ∧ ∀ pc ∈ ps, ¬ InRange wpR R.code.length pc := by
  intro B wpR R
  rw [compileArmsS_cons] at hcode
  simp only [codeAt_append, codeAt_cons, CodeAt.nil, and_true] at hcode
  simp only [res_jmp hend] at hcode
  simp only [res] at hcode
  normpc at hcode
  obtain ⟨⟨_, hE, hJ⟩, _⟩ := hcode
  refine ⟨[wp + 1 + (armPre pat).length + B.code.length, wp + 1 + (armPre pat).length + B.code.length + 1], ?_, ?_, ?_⟩
  · rw [show wp + 1 + (armPre pat).length + B.code.length = wp + (armPre pat).length + 1 + B.code.length from by omega]
    exact .next (step_end hE) (.next (step_jump hJ) (.refl _))
  all_goals (
    intro pc hpc
    simp only [List.mem_cons, List.not_mem_nil, or_false] at hpc
    simp only [InRange]
    rcases hpc with rfl | rfl <;> omega)


/-- **skip_region, whole `match` expression, arm `k`**: arm `k`'s block sits at the address `wpk`
its label resolves to; when its body is done, `End; Jump end` (both inside the arm's own block)
reach the end of the whole `match` — no other arm is entered on the way out. -/
theorem skip_match_done_E (scrut : Expr) (arms : List (Pat × Expr)) (k : Nat) (pat : Pat) (body : Expr) (wp c : Nat)
    (σ : List Val) (b : List (Nat × Val)) (env : Env) (fr : List Env) (K : List Nat) (lg : Log)
    (hk : arms[k]? = some (pat, body))
    (hcode : CodeAt S.labels S.m.prog wp (compileExpr S.m.p.structs wp c (.mtch scrut arms)).code)
    (hdefs : DefsOk S.labels (compileExpr S.m.p.structs wp c (.mtch scrut arms)).defs) :
    ∃ wpk ck lk ps, lookupLabel S.labels lk = some wpk ∧
      CodeAt S.labels S.m.prog wpk (.Block :: armPre pat ++
        (compileExpr S.m.p.structs (wpk + 1 + (armPre pat).length) ck body).code ++ [.End, jmp (Label.anon (compileExpr S.m.p.structs wp c scrut).c)]) ∧
      StepsVia S.m ⟨σ, (b :: env) :: fr, K, wpk + 1 + (armPre pat).length + (compileExpr S.m.p.structs (wpk + 1 + (armPre pat).length) ck body).code.length, lg⟩ ps
        ⟨σ, env :: fr, K, wp + (compileExpr S.m.p.structs wp c (.mtch scrut arms)).code.length, lg⟩ ∧
      ∀ pc ∈ ps, InRange wpk (1 + (armPre pat).length + (compileExpr S.m.p.structs (wpk + 1 + (armPre pat).length) ck body).code.length + 2) pc := by
  have hlen : (compileTestsE S.m.p.structs (wp + (compileExpr S.m.p.structs wp c scrut).code.length) ((compileExpr S.m.p.structs wp c scrut).c + 1) arms).2.length = arms.length := by
    rw [compileTestsE_eq, tests_labels_length, List.length_map]
  have hklt : k < arms.length := by
    rcases Nat.lt_or_ge k arms.length with h | h
    · exact h
    · rw [List.getElem?_eq_none h] at hk; cases hk
  obtain ⟨lk, hlk⟩ : ∃ lk, (compileTestsE S.m.p.structs (wp + (compileExpr S.m.p.structs wp c scrut).code.length) ((compileExpr S.m.p.structs wp c scrut).c + 1) arms).2[k]? = some lk :=
    ⟨_, List.getElem?_eq_getElem (by omega)⟩
  have hcode' := hcode
  have hdefs' := hdefs
  simp only [compileExpr, codeAt_append, defsOk_append, defsOk_cons, DefsOk.nil, and_true] at hcode' hdefs'
  simp only [List.length_append, ← Nat.add_assoc] at hcode'
  obtain ⟨wpk, ck, hl, hcA, _⟩ := arm_layoutE S arms _ _ _ _ k pat body lk hk hlk hcode'.2 hdefs'.1.2
  have hend := hdefs'.2
  refine ⟨wpk, ck, lk, [wpk + 1 + (armPre pat).length + (compileExpr S.m.p.structs (wpk + 1 + (armPre pat).length) ck body).code.length,
    wpk + 1 + (armPre pat).length + (compileExpr S.m.p.structs (wpk + 1 + (armPre pat).length) ck body).code.length + 1], hl, hcA, ?_, ?_⟩
  · simp only [codeAt_append, codeAt_cons, CodeAt.nil, and_true] at hcA
    simp only [res_jmp hend] at hcA
    simp only [res] at hcA
    normpc at hcA
    obtain ⟨_, hE, hJ⟩ := hcA
    rw [show wpk + 1 + (armPre pat).length + (compileExpr S.m.p.structs (wpk + 1 + (armPre pat).length) ck body).code.length =
      wpk + (armPre pat).length + 1 + (compileExpr S.m.p.structs (wpk + 1 + (armPre pat).length) ck body).code.length from by omega]
    refine .next (step_end hE) (.next (step_jump ?_) (.refl _))
    rw [hJ]; congr 3
    simp only [compileExpr, List.length_append]; omega
  · intro pc hpc
    simp only [List.mem_cons, List.not_mem_nil, or_false] at hpc
    simp only [InRange]
    rcases hpc with rfl | rfl <;> omega

/-- **skip_region, whole `match` statement, arm `k`**: arm `k`'s block sits at the address `wpk`
its label resolves to; when its body is done, `End; Jump end` (both inside the arm's own block)
reach the end of the whole `match` — no other arm is entered on the way out. -/
theorem skip_match_done_S (scrut : Expr) (arms : List (Pat × List Stmt)) (k : Nat) (pat : Pat) (body : List Stmt) (wp c : Nat)
    (σ : List Val) (b : List (Nat × Val)) (env : Env) (fr : List Env) (K : List Nat) (lg : Log)
    (hk : arms[k]? = some (pat, body))
    (hcode : CodeAt S.labels S.m.prog wp (compileStmt S.m.p.structs wp c (.mtch scrut arms)).code)
    (hdefs : DefsOk S.labels (compileStmt S.m.p.structs wp c (.mtch scrut arms)).defs) :
    ∃ wpk ck lk ps, lookupLabel S.labels lk = some wpk ∧
      CodeAt S.labels S.m.prog wpk (.Block :: armPre pat ++
        (compileStmts S.m.p.structs (wpk + 1 + (armPre pat).length) ck body).code ++ [.End, jmp (Label.anon (compileExpr S.m.p.structs wp c scrut).c)]) ∧
      StepsVia S.m ⟨σ, (b :: env) :: fr, K, wpk + 1 + (armPre pat).length + (compileStmts S.m.p.structs (wpk + 1 + (armPre pat).length) ck body).code.length, lg⟩ ps
        ⟨σ, env :: fr, K, wp + (compileStmt S.m.p.structs wp c (.mtch scrut arms)).code.length, lg⟩ ∧
      ∀ pc ∈ ps, InRange wpk (1 + (armPre pat).length + (compileStmts S.m.p.structs (wpk + 1 + (armPre pat).length) ck body).code.length + 2) pc := by
  have hlen : (compileTestsS S.m.p.structs (wp + (compileExpr S.m.p.structs wp c scrut).code.length) ((compileExpr S.m.p.structs wp c scrut).c + 1) arms).2.length = arms.length := by
    rw [compileTestsS_eq, tests_labels_length, List.length_map]
  have hklt : k < arms.length := by
    rcases Nat.lt_or_ge k arms.length with h | h
    · exact h
    · rw [List.getElem?_eq_none h] at hk; cases hk
  obtain ⟨lk, hlk⟩ : ∃ lk, (compileTestsS S.m.p.structs (wp + (compileExpr S.m.p.structs wp c scrut).code.length) ((compileExpr S.m.p.structs wp c scrut).c + 1) arms).2[k]? = some lk :=
    ⟨_, List.getElem?_eq_getElem (by omega)⟩
  have hcode' := hcode
  have hdefs' := hdefs
  simp only [compileStmt, codeAt_append, defsOk_append, defsOk_cons, DefsOk.nil, and_true] at hcode' hdefs'
  simp only [List.length_append, ← Nat.add_assoc] at hcode'
  obtain ⟨wpk, ck, hl, hcA, _⟩ := arm_layoutS S arms _ _ _ _ k pat body lk hk hlk hcode'.2 hdefs'.1.2
  have hend := hdefs'.2
  refine ⟨wpk, ck, lk, [wpk + 1 + (armPre pat).length + (compileStmts S.m.p.structs (wpk + 1 + (armPre pat).length) ck body).code.length,
    wpk + 1 + (armPre pat).length + (compileStmts S.m.p.structs (wpk + 1 + (armPre pat).length) ck body).code.length + 1], hl, hcA, ?_, ?_⟩
  · simp only [codeAt_append, codeAt_cons, CodeAt.nil, and_true] at hcA
    simp only [res_jmp hend] at hcA
    simp only [res] at hcA
    normpc at hcA
    obtain ⟨_, hE, hJ⟩ := hcA
    rw [show wpk + 1 + (armPre pat).length + (compileStmts S.m.p.structs (wpk + 1 + (armPre pat).length) ck body).code.length =
      wpk + (armPre pat).length + 1 + (compileStmts S.m.p.structs (wpk + 1 + (armPre pat).length) ck body).code.length from by omega]
    refine .next (step_end hE) (.next (step_jump ?_) (.refl _))
    rw [hJ]; congr 3
    simp only [compileStmt, List.length_append]; omega
  · intro pc hpc
    simp only [List.mem_cons, List.not_mem_nil, or_false] at hpc
    simp only [InRange]
    rcases hpc with rfl | rfl <;> omega



/-! ### non-vacuity: `exE = (saturating_add(x,1) <= 5) && !(x == 3)` of Props/C22 placed at 0 satisfies
the hypotheses of `skip_and`; the three glue pcs are 6, 7, 8 and `b`'s code occupies [9, 13). -/
example : CodeAt exS.labels exS.m.prog 0 (compileExpr exS.m.p.structs 0 0 (.and (.le (.call 1 [.var 10, .int 1]) (.int 5)) (.not (.eq (.var 10) (.int 3))))).code := by
  show CodeAt exOut.defs (exOut.code.map (res exOut.defs)) 0 exOut.code
  simp [CodeAt]
example : (compileExpr [] 0 0 (.le (.call 1 [.var 10, .int 1]) (.int 5))).code.length = 6 := by decide
example : (compileExpr [] 9 2 (.not (.eq (.var 10) (.int 3)))).code.length = 4 := by decide


/-! ## whole-construct pc traces -/

/-- **whole `if / else if / … / else` statement, branch `k` taken** (any chain length, any `k`).
`hR` describes the run: the conditions of branches `0..k-1` have runs leaving `false`, the condition
of branch `k` a run leaving `true`, its body a run from behind `Block` to before `End`.  Then the VM
goes from the statement's entry `wp` to its exit `wp + tot` executing exactly the trace `ps`, and
every pc of `ps` is a pc of one of these sub-runs (`sub`: conditions evaluated so far, the taken
body) or a glue pc that lies outside the body region of every other branch and outside the else
block. -/
theorem ifS_trace_taken (brs : List (Expr × List Stmt)) (hasElse : Bool) (els : List Stmt) (wp c : Nat)
    (σ : List Val) (env : Env) (fr : List Env) (K : List Nat) (lg : Log) (k : Nat) (ps sub gl : List Nat) (t : VM)
    (hcode : CodeAt S.labels S.m.prog wp (compileStmt S.m.p.structs wp c (.ifS brs hasElse els)).code)
    (hdefs : DefsOk S.labels (compileStmt S.m.p.structs wp c (.ifS brs hasElse els)).defs)
    (hR : ChainRun S σ env fr K (wp + (compileStmt S.m.p.structs wp c (.ifS brs hasElse els)).code.length)
      wp (c + 1) brs lg true k ps sub gl t) :
    let tot := (compileStmt S.m.p.structs wp c (.ifS brs hasElse els)).code.length
    let lenB := (compileBranches S.m.p.structs wp (c + 1) (Label.anon c) brs).code.length
    StepsVia S.m ⟨σ, env :: fr, K, wp, lg⟩ ps t ∧ t.pc = wp + tot ∧
    ∀ pc ∈ ps, pc ∈ sub ∨
      ((∀ (i : Nat) (r : Nat × Nat), i ≠ k → (branchRegions S.m.p.structs wp (c + 1) brs)[i]? = some r → ¬ InRange r.1 r.2 pc) ∧
        ¬ InRange (wp + lenB) (tot - lenB) pc) := by
  intro tot lenB
  have hend : lookupLabel S.labels (Label.anon c) = some (wp + tot) := by
    cases hasElse <;>
      simp only [compileStmt, if_true, Bool.false_eq_true, if_false, defsOk_append, defsOk_cons, DefsOk.nil, and_true] at hdefs <;>
      simpa [tot, compileStmt, Nat.add_assoc] using hdefs.2
  have hcB : CodeAt S.labels S.m.prog wp (compileBranches S.m.p.structs wp (c + 1) (Label.anon c) brs).code := by
    simp only [compileStmt, codeAt_append] at hcode; exact hcode.1
  have hdB : DefsOk S.labels (compileBranches S.m.p.structs wp (c + 1) (Label.anon c) brs).defs := by
    simp only [compileStmt, defsOk_append] at hdefs; exact hdefs.1.1
  refine ⟨chain_via S hend hR hcB hdB, chain_final_taken hR, ?_⟩
  intro pc hpc
  rcases chain_sub_or_glue hR pc hpc with h | h
  · exact Or.inl h
  · refine Or.inr ⟨fun i r hik hr => chain_glue_untaken hR pc h i r hr (fun _ => hik), ?_⟩
    have := chain_glue_bounds (Label.anon c) hR pc h
    simp only [InRange]; omega

/-- **whole `if / else if / … / else` statement, the else block taken**: every condition has a run
leaving `false` (`hR`, `taken = false`), the else block's statements a run `psE`.  The VM executes
exactly `ps ++ [Block] ++ psE ++ [End]` from entry to exit, and every pc of it is a pc of a sub-run
(the conditions, the else statements) or a glue pc outside the body region of EVERY branch. -/
theorem ifS_trace_else (brs : List (Expr × List Stmt)) (els : List Stmt) (wp c : Nat)
    (σ : List Val) (env : Env) (fr : List Env) (K : List Nat) (lg : Log) (k : Nat) (ps sub gl : List Nat) (t : VM)
    (psE : List Nat) (σ' : List Val) (b : List (Nat × Val)) (env' : Env) (fr' : List Env) (K' : List Nat) (lg2 : Log)
    (hcode : CodeAt S.labels S.m.prog wp (compileStmt S.m.p.structs wp c (.ifS brs true els)).code)
    (hdefs : DefsOk S.labels (compileStmt S.m.p.structs wp c (.ifS brs true els)).defs)
    (hR : ChainRun S σ env fr K (wp + (compileStmt S.m.p.structs wp c (.ifS brs true els)).code.length)
      wp (c + 1) brs lg false k ps sub gl t) :
    let tot := (compileStmt S.m.p.structs wp c (.ifS brs true els)).code.length
    let B := compileBranches S.m.p.structs wp (c + 1) (Label.anon c) brs
    let E := compileStmts S.m.p.structs (wp + B.code.length + 1) B.c els
    StepsVia S.m ⟨σ, ([] :: env) :: fr, K, wp + B.code.length + 1, t.log⟩ psE
      ⟨σ', (b :: env') :: fr', K', wp + B.code.length + 1 + E.code.length, lg2⟩ →
    StepsVia S.m ⟨σ, env :: fr, K, wp, lg⟩ (ps ++ [wp + B.code.length] ++ psE ++ [wp + B.code.length + 1 + E.code.length])
      ⟨σ', env' :: fr', K', wp + tot, lg2⟩ ∧
    ∀ pc ∈ ps ++ [wp + B.code.length] ++ psE ++ [wp + B.code.length + 1 + E.code.length], pc ∈ sub ++ psE ∨
      ∀ (i : Nat) (r : Nat × Nat), (branchRegions S.m.p.structs wp (c + 1) brs)[i]? = some r → ¬ InRange r.1 r.2 pc := by
  intro tot B E hE
  have htot : tot = B.code.length + (E.code.length + 2) := by
    simp only [tot, B, E, compileStmt, if_true]; lens
  have hend : lookupLabel S.labels (Label.anon c) = some (wp + tot) := by
    simp only [compileStmt, if_true, defsOk_append, defsOk_cons, DefsOk.nil, and_true] at hdefs
    simpa [tot, compileStmt, Nat.add_assoc] using hdefs.2
  simp only [compileStmt, if_true, codeAt_append, codeAt_cons, CodeAt.nil, and_true, res] at hcode
  obtain ⟨hcB, ⟨hblk, _⟩, hE0⟩ := hcode
  have hE' : S.m.prog[wp + B.code.length + 1 + E.code.length]? = some .End :=
    prog_at_cast hE0 (by simp only [B, E]; lens)
  have hdB : DefsOk S.labels B.defs := by
    simp only [compileStmt, defsOk_append] at hdefs; exact hdefs.1.1
  have h1 := chain_via S hend hR hcB hdB
  obtain ⟨ht, _⟩ := chain_final_none (Label.anon c) hR
  rw [ht] at h1
  have h2 : StepsVia S.m ⟨σ, env :: fr, K, wp + B.code.length, t.log⟩ [wp + B.code.length]
      ⟨σ, ([] :: env) :: fr, K, wp + B.code.length + 1, t.log⟩ := via_cons (step_block hblk) (.refl _)
  have h3 : StepsVia S.m ⟨σ', (b :: env') :: fr', K', wp + B.code.length + 1 + E.code.length, lg2⟩
      [wp + B.code.length + 1 + E.code.length] ⟨σ', env' :: fr', K', wp + tot, lg2⟩ :=
    via_cons (step_end hE') (via_pc (.refl _) (by omega))
  refine ⟨((h1.trans h2).trans hE).trans h3, ?_⟩
  intro pc hpc
  simp only [List.mem_append, List.mem_cons, List.not_mem_nil, or_false] at hpc ⊢
  have hglue : wp + B.code.length ≤ pc →
      ∀ (i : Nat) (r : Nat × Nat), (branchRegions S.m.p.structs wp (c + 1) brs)[i]? = some r → ¬ InRange r.1 r.2 pc := by
    intro hge i r hr
    have hub : r.1 + r.2 ≤ wp + B.code.length :=
      branchRegions_ub S.m.p.structs (Label.anon c) brs wp (c + 1) r (List.mem_of_getElem? hr)
    simp only [InRange]; omega
  rcases hpc with ((hp | hp) | hp) | hp
  · rcases chain_sub_or_glue hR pc hp with h | h
    · exact Or.inl (Or.inl h)
    · exact Or.inr (fun i r hr => chain_glue_untaken hR pc h i r hr (fun h => by cases h))
  · exact Or.inr (hglue (by omega))
  · exact Or.inl (Or.inr hp)
  · exact Or.inr (hglue (by omega))

/-- **whole `if / else if / …` statement without else, no branch taken**: every condition has a run
leaving `false`; the VM executes exactly `ps` from entry to exit and no glue pc lies in the body
region of any branch. -/
theorem ifS_trace_none (brs : List (Expr × List Stmt)) (els : List Stmt) (wp c : Nat)
    (σ : List Val) (env : Env) (fr : List Env) (K : List Nat) (lg : Log) (k : Nat) (ps sub gl : List Nat) (t : VM)
    (hcode : CodeAt S.labels S.m.prog wp (compileStmt S.m.p.structs wp c (.ifS brs false els)).code)
    (hdefs : DefsOk S.labels (compileStmt S.m.p.structs wp c (.ifS brs false els)).defs)
    (hR : ChainRun S σ env fr K (wp + (compileStmt S.m.p.structs wp c (.ifS brs false els)).code.length)
      wp (c + 1) brs lg false k ps sub gl t) :
    StepsVia S.m ⟨σ, env :: fr, K, wp, lg⟩ ps
      ⟨σ, env :: fr, K, wp + (compileStmt S.m.p.structs wp c (.ifS brs false els)).code.length, t.log⟩ ∧
    ∀ pc ∈ ps, pc ∈ sub ∨
      ∀ (i : Nat) (r : Nat × Nat), (branchRegions S.m.p.structs wp (c + 1) brs)[i]? = some r → ¬ InRange r.1 r.2 pc := by
  have hend : lookupLabel S.labels (Label.anon c) =
      some (wp + (compileStmt S.m.p.structs wp c (.ifS brs false els)).code.length) := by
    simp only [compileStmt, Bool.false_eq_true, if_false, defsOk_append, defsOk_cons, DefsOk.nil, and_true] at hdefs
    simpa [compileStmt, Nat.add_assoc] using hdefs.2
  have hcB : CodeAt S.labels S.m.prog wp (compileBranches S.m.p.structs wp (c + 1) (Label.anon c) brs).code := by
    simp only [compileStmt, codeAt_append] at hcode; exact hcode.1
  have hdB : DefsOk S.labels (compileBranches S.m.p.structs wp (c + 1) (Label.anon c) brs).defs := by
    simp only [compileStmt, defsOk_append] at hdefs; exact hdefs.1.1
  have h1 := chain_via S hend hR hcB hdB
  obtain ⟨ht, _⟩ := chain_final_none (Label.anon c) hR
  rw [ht] at h1
  refine ⟨via_pc h1 (by simp [compileStmt]), ?_⟩
  intro pc hpc
  rcases chain_sub_or_glue hR pc hpc with h | h
  · exact Or.inl h
  · exact Or.inr (fun i r hr => chain_glue_untaken hR pc h i r hr (fun h => by cases h))

/-- **whole `match` expression, arm `k` taken** (any number of arms, any `k`).
Hypotheses: a run of the scrutinee (trace `psS`) leaving `sv`; a description `hT` of the dispatch —
every test of the arms before `k` misses, arm `k` is the default arm or has a hit, literal
patterns being evaluated by sub-runs; arm `k` is `(pat, body)` and its block starts at `wpk`
(`armStarts`); the arm's binding succeeds; a run `psB` of the body.  Then the VM goes from the
entry `wp` to the exit `wp + |code|` executing exactly
`psS ++ psT ++ [Block, binding] ++ psB ++ [End, Jump]`, and every pc of this trace is a pc of one
of the sub-runs (scrutinee, literal patterns evaluated so far, taken body) or a glue pc inside
the tests or inside arm `k`'s own block — never inside the block of another arm. -/
theorem match_trace_E (scrut : Expr) (arms : List (Pat × Expr)) (wp c : Nat)
    (σ : List Val) (env : Env) (fr : List Env) (K : List Nat) (lg lg1 lg2 lg3 : Log) (sv : Val) (psS : List Nat)
    (k : Nat) (lk : Label) (psT subT glT : List Nat) (pat : Pat) (body : Expr) (wpk ck : Nat) (env' : Env)
    (psB : List Nat) (σ' : List Val) (b : List (Nat × Val)) (env'' : Env) (fr' : List Env) (K' : List Nat)
    (hcode : CodeAt S.labels S.m.prog wp (compileExpr S.m.p.structs wp c (.mtch scrut arms)).code)
    (hdefs : DefsOk S.labels (compileExpr S.m.p.structs wp c (.mtch scrut arms)).defs) :
    let So := compileExpr S.m.p.structs wp c scrut
    let wpT := wp + So.code.length
    let T := compileTestsP S.m.p.structs wpT (So.c + 1) (arms.map (·.1))
    let wpA := wpT + T.1.code.length
    let eB := wpk + 1 + (armPre pat).length + (compileExpr S.m.p.structs (wpk + 1 + (armPre pat).length) ck body).code.length
    let ps := psS ++ (psT ++ List.range' wpk (1 + (armPre pat).length) ++ psB ++ [eB, eB + 1])
    StepsVia S.m ⟨σ, env :: fr, K, wp, lg⟩ psS ⟨sv :: σ, env :: fr, K, wpT, lg1⟩ →
    TestsRun S sv σ (env :: fr) K wpT (So.c + 1) (arms.map (·.1)) lg1 k lk psT subT glT lg2 →
    arms[k]? = some (pat, body) →
    (armStarts (compileExpr S.m.p.structs) wpA T.1.c arms)[k]? = some (wpk, ck) →
    bindArm S.m.p ([] :: env) sv pat = some env' →
    StepsVia S.m ⟨σ, env' :: fr, K, wpk + 1 + (armPre pat).length, lg2⟩ psB ⟨σ', (b :: env'') :: fr', K', eB, lg3⟩ →
    StepsVia S.m ⟨σ, env :: fr, K, wp, lg⟩ ps
      ⟨σ', env'' :: fr', K', wp + (compileExpr S.m.p.structs wp c (.mtch scrut arms)).code.length, lg3⟩ ∧
    ∀ pc ∈ ps, pc ∈ psS ++ subT ++ psB ∨
      ((InRange wpT T.1.code.length pc ∨ InRange wpk (armLen (compileExpr S.m.p.structs) wpk ck pat body) pc) ∧
        ∀ (i wi ci : Nat) (pi : Pat) (bi : Expr), i ≠ k →
          (armStarts (compileExpr S.m.p.structs) wpA T.1.c arms)[i]? = some (wi, ci) → arms[i]? = some (pi, bi) →
          ¬ InRange wi (armLen (compileExpr S.m.p.structs) wi ci pi bi) pc) := by
  intro So wpT T wpA eB ps hS hT hk hst hb hB
  have hlen : wp + (compileExpr S.m.p.structs wp c (.mtch scrut arms)).code.length =
      wpA + (armsG (compileExpr S.m.p.structs) wpA T.1.c (Label.anon So.c) T.2 arms).code.length := by
    simp only [compileExpr, compileTestsE_eq, armsE_eq, List.length_append, wpA, wpT, T, So]; omega
  simp only [compileExpr, compileTestsE_eq, armsE_eq, defsOk_append, defsOk_cons, DefsOk.nil, and_true, codeAt_append] at hcode hdefs
  obtain ⟨⟨⟨_, _⟩, hdA⟩, hend⟩ := hdefs
  obtain ⟨⟨_, hcT⟩, hcA0⟩ := hcode
  have hcA : CodeAt S.labels S.m.prog wpA (armsG (compileExpr S.m.p.structs) wpA T.1.c (Label.anon So.c) T.2 arms).code :=
    codeAt_cast hcA0 (by simp only [wpA, wpT, T, So]; lens)
  have hend' : lookupLabel S.labels (Label.anon So.c) =
      some (wp + (compileExpr S.m.p.structs wp c (.mtch scrut arms)).code.length) := by
    rw [hlen, hend]
  obtain ⟨h1, h2⟩ := match_core S (compileExpr S.m.p.structs) arms (Label.anon So.c)
    (wp + (compileExpr S.m.p.structs wp c (.mtch scrut arms)).code.length) wpT (So.c + 1) sv σ env fr K lg1 lg2 lg3
    k lk psT subT glT pat body wpk ck env' psB σ' b env'' fr' K' hcT hcA hdA hend' hT hk hst hb hB
  refine ⟨hS.trans h1, ?_⟩
  intro pc hpc
  rcases List.mem_append.mp hpc with hp | hp
  · exact Or.inl (by simp only [List.mem_append]; exact Or.inl (Or.inl hp))
  · rcases h2 pc hp with h | h
    · refine Or.inl ?_
      simp only [List.mem_append] at h ⊢
      rcases h with h | h
      · exact Or.inl (Or.inr h)
      · exact Or.inr h
    · exact Or.inr h

/-- **whole `match` statement, arm `k` taken** (any number of arms, any `k`).
Hypotheses: a run of the scrutinee (trace `psS`) leaving `sv`; a description `hT` of the dispatch —
every test of the arms before `k` misses, arm `k` is the default arm or has a hit, literal
patterns being evaluated by sub-runs; arm `k` is `(pat, body)` and its block starts at `wpk`
(`armStarts`); the arm's binding succeeds; a run `psB` of the body.  Then the VM goes from the
entry `wp` to the exit `wp + |code|` executing exactly
`psS ++ psT ++ [Block, binding] ++ psB ++ [End, Jump]`, and every pc of this trace is a pc of one
of the sub-runs (scrutinee, literal patterns evaluated so far, taken body) or a glue pc inside
the tests or inside arm `k`'s own block — never inside the block of another arm. -/
theorem match_trace_S (scrut : Expr) (arms : List (Pat × List Stmt)) (wp c : Nat)
    (σ : List Val) (env : Env) (fr : List Env) (K : List Nat) (lg lg1 lg2 lg3 : Log) (sv : Val) (psS : List Nat)
    (k : Nat) (lk : Label) (psT subT glT : List Nat) (pat : Pat) (body : List Stmt) (wpk ck : Nat) (env' : Env)
    (psB : List Nat) (σ' : List Val) (b : List (Nat × Val)) (env'' : Env) (fr' : List Env) (K' : List Nat)
    (hcode : CodeAt S.labels S.m.prog wp (compileStmt S.m.p.structs wp c (.mtch scrut arms)).code)
    (hdefs : DefsOk S.labels (compileStmt S.m.p.structs wp c (.mtch scrut arms)).defs) :
    let So := compileExpr S.m.p.structs wp c scrut
    let wpT := wp + So.code.length
    let T := compileTestsP S.m.p.structs wpT (So.c + 1) (arms.map (·.1))
    let wpA := wpT + T.1.code.length
    let eB := wpk + 1 + (armPre pat).length + (compileStmts S.m.p.structs (wpk + 1 + (armPre pat).length) ck body).code.length
    let ps := psS ++ (psT ++ List.range' wpk (1 + (armPre pat).length) ++ psB ++ [eB, eB + 1])
    StepsVia S.m ⟨σ, env :: fr, K, wp, lg⟩ psS ⟨sv :: σ, env :: fr, K, wpT, lg1⟩ →
    TestsRun S sv σ (env :: fr) K wpT (So.c + 1) (arms.map (·.1)) lg1 k lk psT subT glT lg2 →
    arms[k]? = some (pat, body) →
    (armStarts (compileStmts S.m.p.structs) wpA T.1.c arms)[k]? = some (wpk, ck) →
    bindArm S.m.p ([] :: env) sv pat = some env' →
    StepsVia S.m ⟨σ, env' :: fr, K, wpk + 1 + (armPre pat).length, lg2⟩ psB ⟨σ', (b :: env'') :: fr', K', eB, lg3⟩ →
    StepsVia S.m ⟨σ, env :: fr, K, wp, lg⟩ ps
      ⟨σ', env'' :: fr', K', wp + (compileStmt S.m.p.structs wp c (.mtch scrut arms)).code.length, lg3⟩ ∧
    ∀ pc ∈ ps, pc ∈ psS ++ subT ++ psB ∨
      ((InRange wpT T.1.code.length pc ∨ InRange wpk (armLen (compileStmts S.m.p.structs) wpk ck pat body) pc) ∧
        ∀ (i wi ci : Nat) (pi : Pat) (bi : List Stmt), i ≠ k →
          (armStarts (compileStmts S.m.p.structs) wpA T.1.c arms)[i]? = some (wi, ci) → arms[i]? = some (pi, bi) →
          ¬ InRange wi (armLen (compileStmts S.m.p.structs) wi ci pi bi) pc) := by
  intro So wpT T wpA eB ps hS hT hk hst hb hB
  have hlen : wp + (compileStmt S.m.p.structs wp c (.mtch scrut arms)).code.length =
      wpA + (armsG (compileStmts S.m.p.structs) wpA T.1.c (Label.anon So.c) T.2 arms).code.length := by
    simp only [compileStmt, compileTestsS_eq, armsS_eq, List.length_append, wpA, wpT, T, So]; omega
  simp only [compileStmt, compileTestsS_eq, armsS_eq, defsOk_append, defsOk_cons, DefsOk.nil, and_true, codeAt_append] at hcode hdefs
  obtain ⟨⟨⟨_, _⟩, hdA⟩, hend⟩ := hdefs
  obtain ⟨⟨_, hcT⟩, hcA0⟩ := hcode
  have hcA : CodeAt S.labels S.m.prog wpA (armsG (compileStmts S.m.p.structs) wpA T.1.c (Label.anon So.c) T.2 arms).code :=
    codeAt_cast hcA0 (by simp only [wpA, wpT, T, So]; lens)
  have hend' : lookupLabel S.labels (Label.anon So.c) =
      some (wp + (compileStmt S.m.p.structs wp c (.mtch scrut arms)).code.length) := by
    rw [hlen, hend]
  obtain ⟨h1, h2⟩ := match_core S (compileStmts S.m.p.structs) arms (Label.anon So.c)
    (wp + (compileStmt S.m.p.structs wp c (.mtch scrut arms)).code.length) wpT (So.c + 1) sv σ env fr K lg1 lg2 lg3
    k lk psT subT glT pat body wpk ck env' psB σ' b env'' fr' K' hcT hcA hdA hend' hT hk hst hb hB
  refine ⟨hS.trans h1, ?_⟩
  intro pc hpc
  rcases List.mem_append.mp hpc with hp | hp
  · exact Or.inl (by simp only [List.mem_append]; exact Or.inl (Or.inl hp))
  · rcases h2 pc hp with h | h
    · refine Or.inl ?_
      simp only [List.mem_append] at h ⊢
      rcases h with h | h
      · exact Or.inl (Or.inr h)
      · exact Or.inr h
    · exact Or.inr h



/-! ## whole-construct pc traces, semantic form (with the C22 simulation) -/

/-- **whole `if` statement, semantic form (branch `k`)**: if the evaluator finds the conditions of
branches `0..k-1` false and that of branch `k` true and the body's statements evaluate normally,
then a `ChainRun` description with `taken = true`, index `k` exists, and with it the trace and
region statement of `ifS_trace_taken`. -/
theorem ifS_taken_of_eval (hP : ProgOk S) (n : Nat) (brs : List (Expr × List Stmt)) (hasElse : Bool) (els : List Stmt)
    (wp c : Nat) (env : Env) (log : Log) (junk base : List Val) (fr : List Env) (K : List Nat)
    (k : Nat) (l1 l2 : Log) (cnd : Expr) (ss : List Stmt) (b : List (Nat × Val)) (env' : Env)
    (hcode : CodeAt S.labels S.m.prog wp (compileStmt S.m.p.structs wp c (.ifS brs hasElse els)).code)
    (hdefs : DefsOk S.labels (compileStmt S.m.p.structs wp c (.ifS brs hasElse els)).defs)
    (hsel : chainSel S.m.p n env log brs = some (some k, l1)) (hk : brs[k]? = some (cnd, ss))
    (hev : evalStmts S.m.p n ([] :: env) l1 ss = .val (b :: env') l2) :
    let tot := (compileStmt S.m.p.structs wp c (.ifS brs hasElse els)).code.length
    let lenB := (compileBranches S.m.p.structs wp (c + 1) (Label.anon c) brs).code.length
    ∃ ps sub gl, ChainRun S (junk ++ base) env fr (base.length :: K) (wp + tot) wp (c + 1) brs log true k ps sub gl
        (stAt junk base env' fr K (wp + tot) l2) ∧
      StepsVia S.m (stAt junk base env fr K wp log) ps (stAt junk base env' fr K (wp + tot) l2) ∧
      ∀ pc ∈ ps, pc ∈ sub ∨
        ((∀ (i : Nat) (r : Nat × Nat), i ≠ k → (branchRegions S.m.p.structs wp (c + 1) brs)[i]? = some r → ¬ InRange r.1 r.2 pc) ∧
          ¬ InRange (wp + lenB) (tot - lenB) pc) := by
  intro tot lenB
  have hcB : CodeAt S.labels S.m.prog wp (compileBranches S.m.p.structs wp (c + 1) (Label.anon c) brs).code := by
    simp only [compileStmt, codeAt_append] at hcode; exact hcode.1
  have hdB : DefsOk S.labels (compileBranches S.m.p.structs wp (c + 1) (Label.anon c) brs).defs := by
    simp only [compileStmt, defsOk_append] at hdefs; exact hdefs.1.1
  obtain ⟨ps, sub, gl, hR⟩ := chainRun_of_eval_taken S hP n env junk base fr K (Label.anon c) (wp + tot) brs wp (c + 1)
    log k l1 cnd ss b env' l2 hcB hdB hsel hk hev
  obtain ⟨h1, _, h3⟩ := ifS_trace_taken S brs hasElse els wp c (junk ++ base) env fr (base.length :: K) log k ps sub gl _
    hcode hdefs hR
  exact ⟨ps, sub, gl, hR, h1, h3⟩

/-- **whole `if` statement, semantic form (else block)**: if the evaluator finds every condition
false and the else block's statements evaluate normally, a `ChainRun` description with
`taken = false` and a run `psE` of the else statements exist, and with them the trace and region
statement of `ifS_trace_else`: no glue pc lies in the body region of any branch. -/
theorem ifS_else_of_eval (hP : ProgOk S) (n : Nat) (brs : List (Expr × List Stmt)) (els : List Stmt)
    (wp c : Nat) (env : Env) (log : Log) (junk base : List Val) (fr : List Env) (K : List Nat)
    (l1 l2 : Log) (b : List (Nat × Val)) (env' : Env)
    (hcode : CodeAt S.labels S.m.prog wp (compileStmt S.m.p.structs wp c (.ifS brs true els)).code)
    (hdefs : DefsOk S.labels (compileStmt S.m.p.structs wp c (.ifS brs true els)).defs)
    (hsel : chainSel S.m.p n env log brs = some (none, l1))
    (hev : evalStmts S.m.p n ([] :: env) l1 els = .val (b :: env') l2) :
    let tot := (compileStmt S.m.p.structs wp c (.ifS brs true els)).code.length
    let B := compileBranches S.m.p.structs wp (c + 1) (Label.anon c) brs
    let E := compileStmts S.m.p.structs (wp + B.code.length + 1) B.c els
    ∃ ps sub gl t psE, ChainRun S (junk ++ base) env fr (base.length :: K) (wp + tot) wp (c + 1) brs log false brs.length ps sub gl t ∧
      StepsVia S.m (stAt junk base env fr K wp log)
        (ps ++ [wp + B.code.length] ++ psE ++ [wp + B.code.length + 1 + E.code.length])
        (stAt junk base env' fr K (wp + tot) l2) ∧
      ∀ pc ∈ ps ++ [wp + B.code.length] ++ psE ++ [wp + B.code.length + 1 + E.code.length], pc ∈ sub ++ psE ∨
        ∀ (i : Nat) (r : Nat × Nat), (branchRegions S.m.p.structs wp (c + 1) brs)[i]? = some r → ¬ InRange r.1 r.2 pc := by
  intro tot B E
  have hcode' := hcode
  have hdefs' := hdefs
  simp only [compileStmt, if_true, codeAt_append, codeAt_cons, CodeAt.nil, and_true, res,
    defsOk_append, defsOk_cons, DefsOk.nil] at hcode' hdefs'
  obtain ⟨hcB, ⟨_, hcE⟩, _⟩ := hcode'
  obtain ⟨⟨hdB, hdE⟩, _⟩ := hdefs'
  obtain ⟨ps, sub, gl, t, hR, ht⟩ := chainRun_of_eval_none S hP n env junk base fr K (Label.anon c) (wp + tot) brs wp (c + 1)
    log l1 hcB hdB hsel
  have ihe := (sim_all S hP n).ss els ([] :: env) l1 (wp + B.code.length + 1) B.c junk base fr K (supSs_all els) hcE hdE
  rw [hev] at ihe
  simp only [Outcome] at ihe
  obtain ⟨psE, hE⟩ := StepsVia.of_steps ihe
  have := ifS_trace_else S brs els wp c (junk ++ base) env fr (base.length :: K) log brs.length ps sub gl t psE
    (junk ++ base) b env' fr (base.length :: K) l2 hcode hdefs hR (by rw [ht]; exact hE)
  exact ⟨ps, sub, gl, t, psE, hR, this.1, this.2⟩

/-- **whole `if` statement without else, semantic form (no branch taken)**: if the evaluator finds
every condition false, the VM goes from entry to exit and no glue pc lies in any branch body. -/
theorem ifS_none_of_eval (hP : ProgOk S) (n : Nat) (brs : List (Expr × List Stmt)) (els : List Stmt)
    (wp c : Nat) (env : Env) (log : Log) (junk base : List Val) (fr : List Env) (K : List Nat) (l1 : Log)
    (hcode : CodeAt S.labels S.m.prog wp (compileStmt S.m.p.structs wp c (.ifS brs false els)).code)
    (hdefs : DefsOk S.labels (compileStmt S.m.p.structs wp c (.ifS brs false els)).defs)
    (hsel : chainSel S.m.p n env log brs = some (none, l1)) :
    ∃ ps sub gl t, ChainRun S (junk ++ base) env fr (base.length :: K)
        (wp + (compileStmt S.m.p.structs wp c (.ifS brs false els)).code.length) wp (c + 1) brs log false brs.length ps sub gl t ∧
      StepsVia S.m (stAt junk base env fr K wp log) ps
        (stAt junk base env fr K (wp + (compileStmt S.m.p.structs wp c (.ifS brs false els)).code.length) l1) ∧
      ∀ pc ∈ ps, pc ∈ sub ∨
        ∀ (i : Nat) (r : Nat × Nat), (branchRegions S.m.p.structs wp (c + 1) brs)[i]? = some r → ¬ InRange r.1 r.2 pc := by
  have hcB : CodeAt S.labels S.m.prog wp (compileBranches S.m.p.structs wp (c + 1) (Label.anon c) brs).code := by
    simp only [compileStmt, codeAt_append] at hcode; exact hcode.1
  have hdB : DefsOk S.labels (compileBranches S.m.p.structs wp (c + 1) (Label.anon c) brs).defs := by
    simp only [compileStmt, defsOk_append] at hdefs; exact hdefs.1.1
  obtain ⟨ps, sub, gl, t, hR, ht⟩ := chainRun_of_eval_none S hP n env junk base fr K (Label.anon c)
    (wp + (compileStmt S.m.p.structs wp c (.ifS brs false els)).code.length) brs wp (c + 1) log l1 hcB hdB hsel
  have := ifS_trace_none S brs els wp c (junk ++ base) env fr (base.length :: K) log brs.length ps sub gl t hcode hdefs hR
  rw [ht] at this
  exact ⟨ps, sub, gl, t, hR, this.1, this.2⟩

/-- the pieces of a compiled `match` expression: scrutinee, tests, arms, end label -/
theorem match_parts_E (scrut : Expr) (arms : List (Pat × Expr)) (wp c : Nat)
    (hcode : CodeAt S.labels S.m.prog wp (compileExpr S.m.p.structs wp c (.mtch scrut arms)).code)
    (hdefs : DefsOk S.labels (compileExpr S.m.p.structs wp c (.mtch scrut arms)).defs) :
    let So := compileExpr S.m.p.structs wp c scrut
    let wpT := wp + So.code.length
    let T := compileTestsP S.m.p.structs wpT (So.c + 1) (arms.map (·.1))
    let wpA := wpT + T.1.code.length
    CodeAt S.labels S.m.prog wp So.code ∧ DefsOk S.labels So.defs ∧
    CodeAt S.labels S.m.prog wpT T.1.code ∧ DefsOk S.labels T.1.defs ∧
    CodeAt S.labels S.m.prog wpA (armsG (compileExpr S.m.p.structs) wpA T.1.c (Label.anon So.c) T.2 arms).code ∧
    DefsOk S.labels (armsG (compileExpr S.m.p.structs) wpA T.1.c (Label.anon So.c) T.2 arms).defs := by
  intro So wpT T wpA
  simp only [compileExpr, compileTestsE_eq, armsE_eq, defsOk_append, defsOk_cons, DefsOk.nil, and_true, codeAt_append] at hcode hdefs
  obtain ⟨⟨⟨hdS, hdT⟩, hdA⟩, _⟩ := hdefs
  obtain ⟨⟨hcS, hcT⟩, hcA0⟩ := hcode
  exact ⟨hcS, hdS, hcT, hdT, codeAt_cast hcA0 (by simp only [wpA, wpT, T, So]; lens), hdA⟩

/-- **whole `match` expression, semantic form**: if the evaluator evaluates the scrutinee to `v`, selects
arm `k` (`selectArm`), binds it and evaluates its body normally, then the run descriptions
required by `match_trace_E` exist (`TestsRun` selecting the same `k`, runs of scrutinee and
body) and with them its trace and region statement: the VM goes from entry to exit and every pc
is a sub-run pc or a glue pc inside the tests / arm `k`'s own block, outside every other arm's block. -/
theorem match_taken_of_eval_E (hP : ProgOk S) (n : Nat) (scrut : Expr) (arms : List (Pat × Expr)) (wp c : Nat)
    (env : Env) (log : Log) (junk base : List Val) (fr : List Env) (K : List Nat)
    (v : Val) (l1 l2 l3 : Log) (k : Nat) (pat : Pat) (body : Expr) (env' : Env) (r : Val)
    (hcode : CodeAt S.labels S.m.prog wp (compileExpr S.m.p.structs wp c (.mtch scrut arms)).code)
    (hdefs : DefsOk S.labels (compileExpr S.m.p.structs wp c (.mtch scrut arms)).defs)
    (hs : evalExpr S.m.p n env log scrut = .val v l1)
    (hsel : selectArm S.m.p n env l1 v (arms.map (·.1)) 0 = .val k l2)
    (hk : arms[k]? = some (pat, body))
    (hb : bindArm S.m.p ([] :: env) v pat = some env')
    (hbody : evalExpr S.m.p n env' l2 body = .val r l3) :
    let So := compileExpr S.m.p.structs wp c scrut
    let wpT := wp + So.code.length
    let T := compileTestsP S.m.p.structs wpT (So.c + 1) (arms.map (·.1))
    let wpA := wpT + T.1.code.length
    ∃ (wpk ck : Nat) (lk : Label) (psS psT subT glT psB : List Nat),
      (armStarts (compileExpr S.m.p.structs) wpA T.1.c arms)[k]? = some (wpk, ck) ∧
      TestsRun S v (junk ++ base) (env :: fr) (base.length :: K) wpT (So.c + 1) (arms.map (·.1)) l1 k lk psT subT glT l2 ∧
      StepsVia S.m (stAt junk base env fr K wp log)
        (psS ++ (psT ++ List.range' wpk (1 + (armPre pat).length) ++ psB ++
          [wpk + 1 + (armPre pat).length + (compileExpr S.m.p.structs (wpk + 1 + (armPre pat).length) ck body).code.length,
           wpk + 1 + (armPre pat).length + (compileExpr S.m.p.structs (wpk + 1 + (armPre pat).length) ck body).code.length + 1]))
        (stAt (r :: junk) base env fr K (wp + (compileExpr S.m.p.structs wp c (.mtch scrut arms)).code.length) l3) ∧
      ∀ pc ∈ (psS ++ (psT ++ List.range' wpk (1 + (armPre pat).length) ++ psB ++
          [wpk + 1 + (armPre pat).length + (compileExpr S.m.p.structs (wpk + 1 + (armPre pat).length) ck body).code.length,
           wpk + 1 + (armPre pat).length + (compileExpr S.m.p.structs (wpk + 1 + (armPre pat).length) ck body).code.length + 1])),
        pc ∈ psS ++ subT ++ psB ∨
        ((InRange wpT T.1.code.length pc ∨ InRange wpk (armLen (compileExpr S.m.p.structs) wpk ck pat body) pc) ∧
          ∀ (i wi ci : Nat) (pi : Pat) (bi : Expr), i ≠ k →
            (armStarts (compileExpr S.m.p.structs) wpA T.1.c arms)[i]? = some (wi, ci) → arms[i]? = some (pi, bi) →
            ¬ InRange wi (armLen (compileExpr S.m.p.structs) wi ci pi bi) pc) := by
  intro So wpT T wpA
  obtain ⟨hcS, hdS, hcT, hdT, hcA, hdA⟩ := match_parts_E S scrut arms wp c hcode hdefs
  have ihs := (sim_all S hP n).e scrut env log wp c junk base fr K (supE_all scrut) hcS hdS
  rw [hs] at ihs
  simp only [Outcome] at ihs
  obtain ⟨psS, hS⟩ := StepsVia.of_steps ihs
  obtain ⟨j, lk, psT, subT, glT, hj, hT⟩ := testsRun_of_select hP v env junk base fr K (arms.map (·.1)) n wpT (So.c + 1) 0 l1 k l2
    hcT hdT hsel
  have hjk : j = k := by omega
  subst hjk
  have hklt : j < arms.length := (List.getElem?_eq_some_iff.mp hk).1
  obtain ⟨⟨wpk, ck⟩, hst⟩ : ∃ e, (armStarts (compileExpr S.m.p.structs) wpA T.1.c arms)[j]? = some e :=
    ⟨_, List.getElem?_eq_getElem (by rw [armStarts_length]; exact hklt)⟩
  have hlab := tests_label hT
  have hlen : T.2.length = arms.length := by
    simp only [T]; rw [tests_labels_length, List.length_map]
  obtain ⟨_, hcArm⟩ := arm_layoutG S (compileExpr S.m.p.structs) (Label.anon So.c) arms T.2 wpA T.1.c j pat body lk wpk ck hk hlab hst hcA hdA
  have hdBody := arm_defsG S (compileExpr S.m.p.structs) (Label.anon So.c) arms T.2 wpA T.1.c j pat body wpk ck hk (by omega) hst hdA
  have hcArm' : CodeAt S.labels S.m.prog wpk ((Instruction.Block :: armPre pat) ++
      (compileExpr S.m.p.structs (wpk + 1 + (armPre pat).length) ck body).code ++ [Instruction.End, jmp (Label.anon So.c)]) := by
    simpa [List.append_assoc] using hcArm
  rw [codeAt_append, codeAt_append] at hcArm'
  have hcBody : CodeAt S.labels S.m.prog (wpk + 1 + (armPre pat).length)
      (compileExpr S.m.p.structs (wpk + 1 + (armPre pat).length) ck body).code := codeAt_cast hcArm'.1.2 (by lens)
  obtain ⟨b, rfl⟩ := bindArm_tail hb
  have ihb := (sim_all S hP n).e body (b :: env) l2 _ ck junk base fr K (supE_all body) hcBody hdBody
  rw [hbody] at ihb
  simp only [Outcome] at ihb
  obtain ⟨psB, hB⟩ := StepsVia.of_steps ihb
  have := match_trace_E S scrut arms wp c (junk ++ base) env fr (base.length :: K) log l1 l2 l3 v psS j lk psT subT glT
    pat body wpk ck (b :: env) psB (r :: (junk ++ base)) b env fr (base.length :: K) hcode hdefs hS hT hk hst hb hB
  exact ⟨wpk, ck, lk, psS, psT, subT, glT, psB, hst, hT, this.1, this.2⟩

/-- the pieces of a compiled `match` statement: scrutinee, tests, arms, end label -/
theorem match_parts_S (scrut : Expr) (arms : List (Pat × List Stmt)) (wp c : Nat)
    (hcode : CodeAt S.labels S.m.prog wp (compileStmt S.m.p.structs wp c (.mtch scrut arms)).code)
    (hdefs : DefsOk S.labels (compileStmt S.m.p.structs wp c (.mtch scrut arms)).defs) :
    let So := compileExpr S.m.p.structs wp c scrut
    let wpT := wp + So.code.length
    let T := compileTestsP S.m.p.structs wpT (So.c + 1) (arms.map (·.1))
    let wpA := wpT + T.1.code.length
    CodeAt S.labels S.m.prog wp So.code ∧ DefsOk S.labels So.defs ∧
    CodeAt S.labels S.m.prog wpT T.1.code ∧ DefsOk S.labels T.1.defs ∧
    CodeAt S.labels S.m.prog wpA (armsG (compileStmts S.m.p.structs) wpA T.1.c (Label.anon So.c) T.2 arms).code ∧
    DefsOk S.labels (armsG (compileStmts S.m.p.structs) wpA T.1.c (Label.anon So.c) T.2 arms).defs := by
  intro So wpT T wpA
  simp only [compileStmt, compileTestsS_eq, armsS_eq, defsOk_append, defsOk_cons, DefsOk.nil, and_true, codeAt_append] at hcode hdefs
  obtain ⟨⟨⟨hdS, hdT⟩, hdA⟩, _⟩ := hdefs
  obtain ⟨⟨hcS, hcT⟩, hcA0⟩ := hcode
  exact ⟨hcS, hdS, hcT, hdT, codeAt_cast hcA0 (by simp only [wpA, wpT, T, So]; lens), hdA⟩

/-- **whole `match` statement, semantic form**: if the evaluator evaluates the scrutinee to `v`, selects
arm `k` (`selectArm`), binds it and evaluates its body normally, then the run descriptions
required by `match_trace_S` exist (`TestsRun` selecting the same `k`, runs of scrutinee and
body) and with them its trace and region statement: the VM goes from entry to exit and every pc
is a sub-run pc or a glue pc inside the tests / arm `k`'s own block, outside every other arm's block. -/
theorem match_taken_of_eval_S (hP : ProgOk S) (n : Nat) (scrut : Expr) (arms : List (Pat × List Stmt)) (wp c : Nat)
    (env : Env) (log : Log) (junk base : List Val) (fr : List Env) (K : List Nat)
    (v : Val) (l1 l2 l3 : Log) (k : Nat) (pat : Pat) (body : List Stmt) (env' : Env) (b2 : List (Nat × Val)) (env'' : Env)
    (hcode : CodeAt S.labels S.m.prog wp (compileStmt S.m.p.structs wp c (.mtch scrut arms)).code)
    (hdefs : DefsOk S.labels (compileStmt S.m.p.structs wp c (.mtch scrut arms)).defs)
    (hs : evalExpr S.m.p n env log scrut = .val v l1)
    (hsel : selectArm S.m.p n env l1 v (arms.map (·.1)) 0 = .val k l2)
    (hk : arms[k]? = some (pat, body))
    (hb : bindArm S.m.p ([] :: env) v pat = some env')
    (hbody : evalStmts S.m.p n env' l2 body = .val (b2 :: env'') l3) :
    let So := compileExpr S.m.p.structs wp c scrut
    let wpT := wp + So.code.length
    let T := compileTestsP S.m.p.structs wpT (So.c + 1) (arms.map (·.1))
    let wpA := wpT + T.1.code.length
    ∃ (wpk ck : Nat) (lk : Label) (psS psT subT glT psB : List Nat),
      (armStarts (compileStmts S.m.p.structs) wpA T.1.c arms)[k]? = some (wpk, ck) ∧
      TestsRun S v (junk ++ base) (env :: fr) (base.length :: K) wpT (So.c + 1) (arms.map (·.1)) l1 k lk psT subT glT l2 ∧
      StepsVia S.m (stAt junk base env fr K wp log)
        (psS ++ (psT ++ List.range' wpk (1 + (armPre pat).length) ++ psB ++
          [wpk + 1 + (armPre pat).length + (compileStmts S.m.p.structs (wpk + 1 + (armPre pat).length) ck body).code.length,
           wpk + 1 + (armPre pat).length + (compileStmts S.m.p.structs (wpk + 1 + (armPre pat).length) ck body).code.length + 1]))
        (stAt junk base env'' fr K (wp + (compileStmt S.m.p.structs wp c (.mtch scrut arms)).code.length) l3) ∧
      ∀ pc ∈ (psS ++ (psT ++ List.range' wpk (1 + (armPre pat).length) ++ psB ++
          [wpk + 1 + (armPre pat).length + (compileStmts S.m.p.structs (wpk + 1 + (armPre pat).length) ck body).code.length,
           wpk + 1 + (armPre pat).length + (compileStmts S.m.p.structs (wpk + 1 + (armPre pat).length) ck body).code.length + 1])),
        pc ∈ psS ++ subT ++ psB ∨
        ((InRange wpT T.1.code.length pc ∨ InRange wpk (armLen (compileStmts S.m.p.structs) wpk ck pat body) pc) ∧
          ∀ (i wi ci : Nat) (pi : Pat) (bi : List Stmt), i ≠ k →
            (armStarts (compileStmts S.m.p.structs) wpA T.1.c arms)[i]? = some (wi, ci) → arms[i]? = some (pi, bi) →
            ¬ InRange wi (armLen (compileStmts S.m.p.structs) wi ci pi bi) pc) := by
  intro So wpT T wpA
  obtain ⟨hcS, hdS, hcT, hdT, hcA, hdA⟩ := match_parts_S S scrut arms wp c hcode hdefs
  have ihs := (sim_all S hP n).e scrut env log wp c junk base fr K (supE_all scrut) hcS hdS
  rw [hs] at ihs
  simp only [Outcome] at ihs
  obtain ⟨psS, hS⟩ := StepsVia.of_steps ihs
  obtain ⟨j, lk, psT, subT, glT, hj, hT⟩ := testsRun_of_select hP v env junk base fr K (arms.map (·.1)) n wpT (So.c + 1) 0 l1 k l2
    hcT hdT hsel
  have hjk : j = k := by omega
  subst hjk
  have hklt : j < arms.length := (List.getElem?_eq_some_iff.mp hk).1
  obtain ⟨⟨wpk, ck⟩, hst⟩ : ∃ e, (armStarts (compileStmts S.m.p.structs) wpA T.1.c arms)[j]? = some e :=
    ⟨_, List.getElem?_eq_getElem (by rw [armStarts_length]; exact hklt)⟩
  have hlab := tests_label hT
  have hlen : T.2.length = arms.length := by
    simp only [T]; rw [tests_labels_length, List.length_map]
  obtain ⟨_, hcArm⟩ := arm_layoutG S (compileStmts S.m.p.structs) (Label.anon So.c) arms T.2 wpA T.1.c j pat body lk wpk ck hk hlab hst hcA hdA
  have hdBody := arm_defsG S (compileStmts S.m.p.structs) (Label.anon So.c) arms T.2 wpA T.1.c j pat body wpk ck hk (by omega) hst hdA
  have hcArm' : CodeAt S.labels S.m.prog wpk ((Instruction.Block :: armPre pat) ++
      (compileStmts S.m.p.structs (wpk + 1 + (armPre pat).length) ck body).code ++ [Instruction.End, jmp (Label.anon So.c)]) := by
    simpa [List.append_assoc] using hcArm
  rw [codeAt_append, codeAt_append] at hcArm'
  have hcBody : CodeAt S.labels S.m.prog (wpk + 1 + (armPre pat).length)
      (compileStmts S.m.p.structs (wpk + 1 + (armPre pat).length) ck body).code := codeAt_cast hcArm'.1.2 (by lens)
  obtain ⟨b, rfl⟩ := bindArm_tail hb
  have ihb := (sim_all S hP n).ss body (b :: env) l2 _ ck junk base fr K (supSs_all body) hcBody hdBody
  rw [hbody] at ihb
  simp only [Outcome] at ihb
  obtain ⟨psB, hB⟩ := StepsVia.of_steps ihb
  have := match_trace_S S scrut arms wp c (junk ++ base) env fr (base.length :: K) log l1 l2 l3 v psS j lk psT subT glT
    pat body wpk ck (b :: env) psB (junk ++ base) b2 env'' fr (base.length :: K) hcode hdefs hS hT hk hst hb hB
  exact ⟨wpk, ck, lk, psS, psT, subT, glT, psB, hst, hT, this.1, this.2⟩


/-! ### the pc trace is a function of `step`, consistent with `run` -/

/-- a `StepsVia` run with trace `ps` is exactly what the fuelled trace function `runTrace` (which
iterates `step` and collects the pcs) computes with fuel `|ps|` -/
theorem trace_function {m : Machine} {s s' : VM} {ps : List Nat} (h : StepsVia m s ps s') :
    runTrace m ps.length s = (ps, s') := runTrace_of_via h

/-- … and `run` (the model of `RunState::run`) passes through the state reached after these `|ps|` steps -/
theorem trace_consistent_run {m : Machine} {s s' : VM} {ps : List Nat} (h : StepsVia m s ps s') (k : Nat) :
    run m (ps.length + k) s = run m k s' := run_of_via h k

/-- a fragment's own label table resolves its own labels when the label names are distinct -/
theorem defsOk_self : ∀ (defs : List (Label × Nat)), (defs.map (·.1)).Nodup → DefsOk defs defs
  | [], _ => DefsOk.nil
  | (l, a) :: rest, h => by
    simp only [List.map_cons, List.nodup_cons] at h
    intro q hq
    simp only [List.mem_cons] at hq
    rcases hq with rfl | hq
    · simp [lookupLabel]
    · have hne : (l == q.1) = false := by
        simp only [beq_eq_false_iff_ne, ne_eq]
        intro e; exact h.1 (e ▸ List.mem_map.mpr ⟨q, hq, rfl⟩)
      have := defsOk_self rest h.2 q hq
      simpa [lookupLabel, List.find?_cons, hne] using this

/-! ### non-vacuity: a 3-condition `if / else if / else if / else` chain taking the else

`if x == 1 { let y = 100 } else if x == 2 { let y = 200 } else if x == 3 { let y = 300 } else { let y = 400 }`
with `x = 7` (identifiers x = 10, y = 11), compiled at address 0.  Layout: conditions at 0, 10, 20;
branch body regions `Block … Jump` at [5,10), [15,20), [25,30); else block at [30,34). -/
def exBr (k v : Int) : Expr × List Stmt := (.eq (.var 10) (.int k), [.let_ 11 (.int v)])
def exIf : Stmt := .ifS [exBr 1 100, exBr 2 200, exBr 3 300] true [.let_ 11 (.int 400)]
def exIfOut : Out := compileStmt [] 0 0 exIf
def exIfS : Sim :=
  { m := { prog := exIfOut.code.map (res exIfOut.defs), p := exProg, ffiArity := fun _ _ => none }, labels := exIfOut.defs }
def exEnv (x : Int) : Env := [[(10, .int x)]]

example : exIfOut.code.length = 34 := by decide
example : branchRegions [] 0 1 [exBr 1 100, exBr 2 200, exBr 3 300] = [(5, 5), (15, 5), (25, 5)] := by decide
theorem exIf_code : CodeAt exIfS.labels exIfS.m.prog 0 (compileStmt exIfS.m.p.structs 0 0 exIf).code := by
  show CodeAt exIfOut.defs (exIfOut.code.map (res exIfOut.defs)) 0 exIfOut.code
  simp [CodeAt]
theorem exIf_defs : DefsOk exIfS.labels (compileStmt exIfS.m.p.structs 0 0 exIf).defs :=
  defsOk_self exIfOut.defs (by decide)

/-- the description of the run: three conditions leave `false` -/
theorem exIf_chain : ChainRun exIfS [] (exEnv 7) [] [] 34 0 1 [exBr 1 100, exBr 2 200, exBr 3 300] [] false 3
    [0, 1, 2, 3, 4, 10, 11, 12, 13, 14, 20, 21, 22, 23, 24] [0, 1, 2, 10, 11, 12, 20, 21, 22] [3, 4, 13, 14, 23, 24]
    ⟨[], [exEnv 7], [], 30, []⟩ := by
  have h0 : StepsVia exIfS.m ⟨[], [exEnv 7], [], 0, []⟩ [0, 1, 2] ⟨[.bool false], [exEnv 7], [], 3, []⟩ :=
    .next rfl (.next rfl (.next rfl (.refl _)))
  have h1 : StepsVia exIfS.m ⟨[], [exEnv 7], [], 10, []⟩ [10, 11, 12] ⟨[.bool false], [exEnv 7], [], 13, []⟩ :=
    .next rfl (.next rfl (.next rfl (.refl _)))
  have h2 : StepsVia exIfS.m ⟨[], [exEnv 7], [], 20, []⟩ [20, 21, 22] ⟨[.bool false], [exEnv 7], [], 23, []⟩ :=
    .next rfl (.next rfl (.next rfl (.refl _)))
  have hc := ChainRun.skip (S := exIfS) (endAddr := 34) (wp := 0) (c := 1) (cnd := (exBr 1 100).1) (ss := (exBr 1 100).2)
    (rest := [exBr 2 200, exBr 3 300]) h0
    (ChainRun.skip (wp := 10) (c := 2) (cnd := (exBr 2 200).1) (ss := (exBr 2 200).2) (rest := [exBr 3 300]) h1
      (ChainRun.skip (wp := 20) (c := 3) (cnd := (exBr 3 300).1) (ss := (exBr 3 300).2) (rest := []) h2
        (ChainRun.nil 30 4 [])))
  exact hc

/-- `ifS_trace_else` applies: the VM runs 0 → 34 through exactly these 19 pcs; the glue pcs
3, 4, 13, 14, 23, 24, 30, 33 lie in none of the three branch bodies -/
example : StepsVia exIfS.m ⟨[], [exEnv 7], [], 0, []⟩
    [0, 1, 2, 3, 4, 10, 11, 12, 13, 14, 20, 21, 22, 23, 24, 30, 31, 32, 33] ⟨[], [exEnv 7], [], 34, []⟩ :=
  (ifS_trace_else exIfS [exBr 1 100, exBr 2 200, exBr 3 300] [.let_ 11 (.int 400)] 0 0 [] (exEnv 7) [] [] [] 3 _ _ _ _
    [31, 32] [] [(11, .int 400)] (exEnv 7) [] [] [] exIf_code exIf_defs exIf_chain
    (.next rfl (.next rfl (.refl _)))).1
/-- none of the 19 pcs lies in the body region of a branch -/
example : ∀ pc ∈ [0, 1, 2, 3, 4, 10, 11, 12, 13, 14, 20, 21, 22, 23, 24, 30, 31, 32, 33],
    ¬ InRange 5 5 pc ∧ ¬ InRange 15 5 pc ∧ ¬ InRange 25 5 pc := by
  simp only [InRange]; decide
/-- the trace function computes the same list -/
example : (runTrace exIfS.m 19 ⟨[], [exEnv 7], [], 0, []⟩).1 =
    [0, 1, 2, 3, 4, 10, 11, 12, 13, 14, 20, 21, 22, 23, 24, 30, 31, 32, 33] := by decide

/-! ### non-vacuity: a 3-arm `match` taking the second arm

`match x { 1 => 10, 2 => 20, _ => 30 }` with `x = 2`, compiled at address 0.  Layout: scrutinee at 0,
tests at [1,10) (arm 0: 1–4, arm 1: 5–8, default: 9), arm blocks at [10,15), [15,20), [20,25), end 25. -/
def exArms : List (Pat × Expr) := [(.values [.int 1], .int 10), (.values [.int 2], .int 20), (.default, .int 30)]
def exM : Expr := .mtch (.var 10) exArms
def exMOut : Out := compileExpr [] 0 0 exM
def exMS : Sim :=
  { m := { prog := exMOut.code.map (res exMOut.defs), p := exProg, ffiArity := fun _ _ => none }, labels := exMOut.defs }

example : exMOut.code.length = 25 := by decide
example : armStarts (compileExpr []) 10 4 exArms = [(10, 4), (15, 4), (20, 4)] := by decide
theorem exM_code : CodeAt exMS.labels exMS.m.prog 0 (compileExpr exMS.m.p.structs 0 0 exM).code := by
  show CodeAt exMOut.defs (exMOut.code.map (res exMOut.defs)) 0 exMOut.code
  simp [CodeAt]
theorem exM_defs : DefsOk exMS.labels (compileExpr exMS.m.p.structs 0 0 exM).defs :=
  defsOk_self exMOut.defs (by decide)

/-- the dispatch: the test of arm 0 (`2 == 1`) misses, the test of arm 1 (`2 == 2`) hits -/
theorem exM_tests : TestsRun exMS (.int 2) [] [exEnv 2] [] 1 1 (exArms.map (·.1)) [] 1 (Label.anon 2)
    [1, 2, 3, 4, 5, 6, 7, 8] [2, 6] [1, 3, 4, 5, 7, 8] [] := by
  have e0 : StepsVia exMS.m ⟨[.int 2, .int 2], [exEnv 2], [], 2, []⟩ [2] ⟨[.int 1, .int 2, .int 2], [exEnv 2], [], 3, []⟩ :=
    .next rfl (.refl _)
  have e1 : StepsVia exMS.m ⟨[.int 2, .int 2], [exEnv 2], [], 6, []⟩ [6] ⟨[.int 2, .int 2, .int 2], [exEnv 2], [], 7, []⟩ :=
    .next rfl (.refl _)
  have v0 := ValsRun.litMiss (S := exMS) (sv := .int 2) (σ := []) (sc := [exEnv 2]) (K := []) (arm := Label.anon 1)
    (wp := 1) (c := 2) (v := .int 1) (vs := []) (x := .int 1) rfl e0 rfl (ValsRun.nil 5 2 [])
  have v1 := ValsRun.litHit (S := exMS) (sv := .int 2) (σ := []) (sc := [exEnv 2]) (K := []) (arm := Label.anon 2)
    (wp := 5) (c := 3) (v := .int 2) (vs := []) (x := .int 2) rfl e1 rfl
  have ht := TestsRun.miss (S := exMS) (wp := 1) (c := 1) (vs := [.int 1]) (rest := [.values [.int 2], .default]) v0
    (TestsRun.hit (wp := 5) (c := 2) (vs := [.int 2]) (rest := [.default]) v1)
  exact ht

/-- `match_trace_E` applies: the VM runs 0 → 25 through exactly these 14 pcs and leaves `20`; the
glue pcs 1, 3, 4, 5, 7, 8 (tests) and 15, 16, 18, 19 (arm 1's block) lie neither in arm 0's block
[10,15) nor in arm 2's block [20,25) -/
example : StepsVia exMS.m ⟨[], [exEnv 2], [], 0, []⟩ [0, 1, 2, 3, 4, 5, 6, 7, 8, 15, 16, 17, 18, 19]
    ⟨[.int 20], [exEnv 2], [], 25, []⟩ :=
  (match_trace_E exMS (.var 10) exArms 0 0 [] (exEnv 2) [] [] [] [] [] [] (.int 2) [0] 1 (Label.anon 2) _ _ _
    (.values [.int 2]) (.int 20) 15 4 ([] :: exEnv 2) [17] [.int 20] [] (exEnv 2) [] [] exM_code exM_defs
    (.next rfl (.refl _)) exM_tests rfl rfl rfl (.next rfl (.refl _))).1
example : (runTrace exMS.m 14 ⟨[], [exEnv 2], [], 0, []⟩).1 = [0, 1, 2, 3, 4, 5, 6, 7, 8, 15, 16, 17, 18, 19] := by decide
/-- none of the 14 pcs lies in the block of arm 0 or of arm 2 -/
example : ∀ pc ∈ [0, 1, 2, 3, 4, 5, 6, 7, 8, 15, 16, 17, 18, 19], ¬ InRange 10 5 pc ∧ ¬ InRange 20 5 pc := by
  simp only [InRange]; decide



/-! ### non-vacuity of the semantic forms: the evaluator takes the same arm / the else block -/
theorem exProgOk (prog : List Instr) (labels : List (Label × Nat)) :
    ProgOk ⟨⟨prog, exProg, fun _ _ => none⟩, labels⟩ :=
  ⟨fun f fd h => by simp [exProg, Program.funDef] at h, fun f fd h => by simp [exProg, Program.funDef] at h,
   fun mi pi vs h => by simp [exProg] at h, fun n d h => by simp [exProg, Program.structDef] at h⟩

example : evalExpr exProg 5 (exEnv 2) [] (.var 10) = .val (.int 2) [] := rfl
example : selectArm exProg 5 (exEnv 2) [] (.int 2) (exArms.map (·.1)) 0 = .val 1 [] := rfl
example : evalExpr exProg 5 ([] :: exEnv 2) [] (.int 20) = .val (.int 20) [] := rfl
/-- `match_taken_of_eval_E` applies to the example `match` (fuel 5, arm index 1) -/
example := match_taken_of_eval_E exMS (exProgOk _ _) 5 (.var 10) exArms 0 0 (exEnv 2) [] [] [] [] [] (.int 2) [] [] [] 1
  (.values [.int 2]) (.int 20) ([] :: exEnv 2) (.int 20) exM_code exM_defs rfl rfl rfl rfl rfl

example : chainSel exProg 5 (exEnv 7) [] [exBr 1 100, exBr 2 200, exBr 3 300] = some (none, []) := rfl
/-- `ifS_else_of_eval` applies to the example chain -/
example := ifS_else_of_eval exIfS (exProgOk _ _) 5 [exBr 1 100, exBr 2 200, exBr 3 300] [.let_ 11 (.int 400)] 0 0 (exEnv 7) []
  [] [] [] [] [] [] [(11, .int 400)] (exEnv 7) exIf_code exIf_defs rfl rfl

end AranyaV.Lang
