import AranyaV.Proofs.Framing
import AranyaV.Spec.Sym
/-!
# C34 — Command signatures bind command bytes, name, parent and author; sign and verify derive
the same command id

Partial by nature: the primitives (SHA-256, Ed25519) are *symbolic* here.  Two layers:

* **byte level** (`AranyaV.Framing`): theorems about the exact bytes the code feeds to the hash.
  For ALL byte strings (of Rust-representable length): `encode_string` is prefix-free, the
  tuple-hash preimage is injective in the item list (so no shift of bytes across the
  author/name/parent/data boundaries, no re-splitting, no dropped empty field collides), the
  command digest preimage determines (suite OIDs, author key id, name, parent id, data), the
  command-id preimage determines (digest, signature), and digest / command-id / merge-id /
  key-id preimages are pairwise domain separated.
* **symbolic level** (`AranyaV.Sym`): with a perfect hash and a perfect signature, the decision
  logic of `sign_cmd` / `verify_cmd` / `Ffi::verify` accepts exactly the outputs of a signing
  event: same key, same command (name, parent, data), same signature, and then the same id.

The order of the hashed items is *generated from the Rust source* (`Gen.C34.digestOrder`, …);
the theorems need every field to occur in it (`decide`-checked), so dropping a field from the
signed tuple breaks `digest_inj` and `sign_binds`.
-/
namespace AranyaV.C34
open AranyaV.Framing

/-! ## Byte level -/

/-- `encode_string` is prefix-free with a unique split point (all byte strings). -/
theorem encodeString_prefix_free {s t r r' : Bytes} (hs : Short s) (ht : Short t)
    (h : encodeString s ++ r = encodeString t ++ r') : s = t ∧ r = r' :=
  Framing.encodeString_prefix_free hs ht h

/-- The tuple-hash preimage determines the item list and the digest size: two different item
lists (different count, different split of the same bytes, any changed byte) never give the same
hash input. -/
theorem tupleHash_preimage_inj {xs ys : List Bytes} {L L' : Nat}
    (hx : AllShort xs) (hy : AllShort ys) (hL : L < 2 ^ 64) (hL' : L' < 2 ^ 64)
    (h : tupleHashPreimage xs L = tupleHashPreimage ys L') : xs = ys ∧ L = L' :=
  tupleHashPreimage_inj hx hy hL hL' h

example : tupleHashPreimage [[1, 2], [3]] 32 = [1, 16, 1, 2, 1, 8, 3, 1, 0, 2] := by
  simp [tupleHashPreimage, concatEncoded, encodeString, leftEncode, rightEncode, beDigits, leDigits]

/-- Moving bytes across the boundary of two adjacent items changes the preimage: `[u ++ v, w]`
and `[u, v ++ w]` (inside any surrounding items) collide only when nothing was moved. -/
theorem no_boundary_shift {pre post : List Bytes} {u v w : Bytes} {L : Nat}
    (hpre : AllShort pre) (hpost : AllShort post) (hu : Short (u ++ v)) (hw : Short (v ++ w))
    (hL : L < 2 ^ 64)
    (h : tupleHashPreimage (pre ++ [u ++ v, w] ++ post) L =
         tupleHashPreimage (pre ++ [u, v ++ w] ++ post) L) : v = [] := by
  have hu' : Short u := by unfold Short at *; simp at hu; omega
  have hw' : Short w := by unfold Short at *; simp at hw; omega
  have h1 : AllShort (pre ++ [u ++ v, w] ++ post) :=
    allShort_append.mpr ⟨allShort_append.mpr ⟨hpre, allShort_cons.mpr ⟨hu, allShort_cons.mpr ⟨hw', allShort_nil⟩⟩⟩, hpost⟩
  have h2 : AllShort (pre ++ [u, v ++ w] ++ post) :=
    allShort_append.mpr ⟨allShort_append.mpr ⟨hpre, allShort_cons.mpr ⟨hu', allShort_cons.mpr ⟨hw, allShort_nil⟩⟩⟩, hpost⟩
  have := (tupleHash_preimage_inj h1 h2 hL hL h).1
  simp only [List.append_assoc, List.append_cancel_left_eq, List.cons_append, List.cons.injEq] at this
  have := this.1
  simpa using this

example : tupleHashPreimage [[1, 2], [3]] 32 ≠ tupleHashPreimage [[1], [2, 3]] 32 := by
  simp [tupleHashPreimage, concatEncoded, encodeString, leftEncode, rightEncode, beDigits, leDigits]

/-- an empty item is significant (dropping an empty field changes the preimage) -/
theorem empty_item_significant {xs : List Bytes} {L : Nat} (hx : AllShort xs) (hL : L < 2 ^ 64) :
    tupleHashPreimage ([] :: xs) L ≠ tupleHashPreimage xs L := by
  intro h
  have h1 : AllShort ([] :: xs) := allShort_cons.mpr ⟨by simp [Short], hx⟩
  have := (tupleHash_preimage_inj h1 hx hL hL h).1
  exact absurd (congrArg List.length this) (by simp)

/-- all four fields of a command are Rust-sized -/
def FieldsShort (f : CmdFields) : Prop :=
  Framing.Short f.author ∧ Framing.Short f.name ∧ Framing.Short f.parent ∧ Framing.Short f.data

theorem digestItems_short {f : CmdFields} (hf : FieldsShort f) : AllShort (digestItems f) := by
  intro s hs
  simp only [digestItems, List.mem_map] at hs
  obtain ⟨fld, _, rfl⟩ := hs
  cases fld <;> simp only [CmdFields.get]
  · exact hf.1
  · exact hf.2.1
  · exact hf.2.2.1
  · exact hf.2.2.2

/-- every field of `DigestField` is hashed (side condition on the generated order) -/
theorem digestOrder_complete : ∀ fld : Gen.C34.DigestField, fld ∈ Gen.C34.digestOrder := by
  intro fld; cases fld <;> decide

/-- **The signed digest binds every input.**  Equal preimages of `Cmd::digest` (hence, for a
collision-resistant hash, equal digests) force equal suite OIDs, author key id, command name,
parent id and command data — for all byte strings, whatever their lengths, including every way
of moving bytes between adjacent fields. -/
theorem digest_inj {oids oids' : List Bytes} {f f' : CmdFields} {L L' : Nat}
    (ho : AllShort oids) (ho' : AllShort oids') (hf : FieldsShort f) (hf' : FieldsShort f')
    (hL : L < 2 ^ 64) (hL' : L' < 2 ^ 64)
    (h : digestPreimage oids f L = digestPreimage oids' f' L') :
    oids = oids' ∧ f = f' ∧ L = L' := by
  unfold digestPreimage suiteTuplePreimage at h
  have hs : Framing.Short Gen.C34.signTag := by simp [Framing.Short, Gen.C34.signTag]
  have h1 : AllShort (suiteTupleItems Gen.C34.signTag oids (digestItems f)) :=
    allShort_cons.mpr ⟨hs, allShort_append.mpr ⟨ho, digestItems_short hf⟩⟩
  have h2 : AllShort (suiteTupleItems Gen.C34.signTag oids' (digestItems f')) :=
    allShort_cons.mpr ⟨hs, allShort_append.mpr ⟨ho', digestItems_short hf'⟩⟩
  obtain ⟨hi, hl⟩ := tupleHash_preimage_inj h1 h2 hL hL' h
  obtain ⟨_, h3, h4⟩ := suiteItems_inj (by simp [digestItems]) hi
  refine ⟨h3, ?_, hl⟩
  have hget := Sym.map_eq_on (by simpa [digestItems] using h4)
  have ha := hget .author (digestOrder_complete _)
  have hn := hget .name (digestOrder_complete _)
  have hp := hget .parent (digestOrder_complete _)
  have hd := hget .data (digestOrder_complete _)
  simp only [CmdFields.get] at ha hn hp hd
  cases f; cases f'; simp_all

example : digestPreimage [[9]] ⟨[1], [2], [3], [4]⟩ 32 ≠ digestPreimage [[9]] ⟨[1], [2, 3], [], [4]⟩ 32 := by
  intro h
  have := digest_inj (L := 32) (L' := 32) (oids := [[9]]) (oids' := [[9]])
    (f := ⟨[1], [2], [3], [4]⟩) (f' := ⟨[1], [2, 3], [], [4]⟩)
    (by intro s hs; simp at hs; subst hs; simp [Framing.Short])
    (by intro s hs; simp at hs; subst hs; simp [Framing.Short])
    (by simp [FieldsShort, Framing.Short]) (by simp [FieldsShort, Framing.Short])
    (by decide) (by decide) h
  simp at this

theorem cmdIdOrder_complete : ∀ fld : Gen.C34.CmdIdField, fld ∈ Gen.C34.cmdIdOrder := by
  intro fld; cases fld <;> decide

theorem mergeIdOrder_complete : ∀ fld : Gen.C34.MergeIdField, fld ∈ Gen.C34.mergeIdOrder := by
  intro fld; cases fld <;> decide

/-- derived ids (`IdExt::new`) are injective in (per-kind tag, data items) for a fixed suite:
ids of different kinds are domain separated, ids of one kind bind every data item -/
theorem id_inj {oids : List Bytes} {tag tag' : Bytes} {d d' : List Bytes} {L : Nat}
    (ho : AllShort oids) (ht : Framing.Short tag) (ht' : Framing.Short tag')
    (hd : AllShort d) (hd' : AllShort d') (hL : L < 2 ^ 64)
    (h : idPreimage oids tag d L = idPreimage oids tag' d' L) : tag = tag' ∧ d = d' := by
  unfold idPreimage suiteTuplePreimage at h
  have hs : Framing.Short Gen.C34.idTag := by simp [Framing.Short, Gen.C34.idTag]
  have h1 : AllShort (suiteTupleItems Gen.C34.idTag oids (d ++ [tag])) :=
    allShort_cons.mpr ⟨hs, allShort_append.mpr ⟨ho, allShort_append.mpr ⟨hd, allShort_cons.mpr ⟨ht, allShort_nil⟩⟩⟩⟩
  have h2 : AllShort (suiteTupleItems Gen.C34.idTag oids (d' ++ [tag'])) :=
    allShort_cons.mpr ⟨hs, allShort_append.mpr ⟨ho, allShort_append.mpr ⟨hd', allShort_cons.mpr ⟨ht', allShort_nil⟩⟩⟩⟩
  have hi := (tupleHash_preimage_inj h1 h2 hL hL h).1
  simp only [suiteTupleItems, List.cons.injEq, List.append_cancel_left_eq, true_and] at hi
  have := List.append_inj' hi rfl
  simp only [List.cons.injEq, and_true] at this
  exact ⟨this.2, this.1⟩

/-- **The command id binds the digest and every signature byte.** -/
theorem cmdId_inj {oids : List Bytes} {d s d' s' : Bytes} {L : Nat}
    (ho : AllShort oids) (hd : Framing.Short d) (hs : Framing.Short s)
    (hd' : Framing.Short d') (hs' : Framing.Short s') (hL : L < 2 ^ 64)
    (h : cmdIdPreimage oids d s L = cmdIdPreimage oids d' s' L) : d = d' ∧ s = s' := by
  unfold cmdIdPreimage at h
  have hsh : ∀ {a b : Bytes}, Framing.Short a → Framing.Short b → AllShort (cmdIdItems a b) := by
    intro a b ha hb t ht
    simp only [cmdIdItems, List.mem_map] at ht
    obtain ⟨fld, _, rfl⟩ := ht
    cases fld <;> assumption
  have ht : Framing.Short Gen.C34.cmdIdTag := by simp [Framing.Short, Gen.C34.cmdIdTag]
  have := (id_inj ho ht ht (hsh hd hs) (hsh hd' hs') hL h).2
  have hget := Sym.map_eq_on (by simpa [cmdIdItems] using this)
  exact ⟨hget .digest (cmdIdOrder_complete _), hget .sig (cmdIdOrder_complete _)⟩

/-- merge command ids bind both parent ids, in order -/
theorem mergeId_inj {oids : List Bytes} {l r l' r' : Bytes} {L : Nat}
    (ho : AllShort oids) (hl : Framing.Short l) (hr : Framing.Short r)
    (hl' : Framing.Short l') (hr' : Framing.Short r') (hL : L < 2 ^ 64)
    (h : mergeIdPreimage oids l r L = mergeIdPreimage oids l' r' L) : l = l' ∧ r = r' := by
  unfold mergeIdPreimage at h
  have hsh : ∀ {a b : Bytes}, Framing.Short a → Framing.Short b → AllShort (mergeIdItems a b) := by
    intro a b ha hb t ht
    simp only [mergeIdItems, List.mem_map] at ht
    obtain ⟨fld, _, rfl⟩ := ht
    cases fld <;> assumption
  have ht : Framing.Short Gen.C34.mergeIdTag := by simp [Framing.Short, Gen.C34.mergeIdTag]
  have := (id_inj ho ht ht (hsh hl hr) (hsh hl' hr') hL h).2
  have hget := Sym.map_eq_on (by simpa [mergeIdItems] using this)
  exact ⟨hget .left (mergeIdOrder_complete _), hget .right (mergeIdOrder_complete _)⟩

/-- a signed command's id never equals a merge command's id preimage (domain separation) -/
theorem cmdId_ne_mergeId {oids : List Bytes} {d s l r : Bytes} {L : Nat}
    (ho : AllShort oids) (hd : Framing.Short d) (hs : Framing.Short s)
    (hl : Framing.Short l) (hr : Framing.Short r) (hL : L < 2 ^ 64) :
    cmdIdPreimage oids d s L ≠ mergeIdPreimage oids l r L := by
  intro h
  unfold cmdIdPreimage mergeIdPreimage at h
  have h1 : AllShort (cmdIdItems d s) := by
    intro t ht
    simp only [cmdIdItems, List.mem_map] at ht
    obtain ⟨fld, _, rfl⟩ := ht
    cases fld <;> assumption
  have h2 : AllShort (mergeIdItems l r) := by
    intro t ht
    simp only [mergeIdItems, List.mem_map] at ht
    obtain ⟨fld, _, rfl⟩ := ht
    cases fld <;> assumption
  have := (id_inj ho (by simp [Framing.Short, Gen.C34.cmdIdTag]) (by simp [Framing.Short, Gen.C34.mergeIdTag]) h1 h2 hL h).1
  exact absurd this (by decide)

/-- the author key id binds the exported public key bytes -/
theorem signingKeyId_inj {oids : List Bytes} {pk pk' : Bytes} {L : Nat}
    (ho : AllShort oids) (hp : Framing.Short pk) (hp' : Framing.Short pk') (hL : L < 2 ^ 64)
    (h : signingKeyIdPreimage oids pk L = signingKeyIdPreimage oids pk' L) : pk = pk' := by
  unfold signingKeyIdPreimage at h
  have ht : Framing.Short Gen.C34.signingKeyCtx := by simp [Framing.Short, Gen.C34.signingKeyCtx]
  have := (id_inj ho ht ht (allShort_cons.mpr ⟨hp, allShort_nil⟩) (allShort_cons.mpr ⟨hp', allShort_nil⟩) hL h).2
  simpa using this

/-! ## Symbolic level -/

open AranyaV.Sym

/-- **`verify_cmd` accepts exactly the outputs of `sign_cmd`.**  Verification of `(cmd, sig)`
under `pub` returns `id` iff `pub` is the public half of some key `k` and `(sig, id)` is what
`k`'s owner obtained from `sign_cmd` on this very command: every accepted signature is a signing
event, and sign and verify derive the same command id. -/
theorem verify_iff (oids : List Term) (pub : Term) (c : Cmd) (s id : Term) :
    verifyCmd oids pub c s = some id ↔ ∃ k, pub = .pk k ∧ signCmd oids k c = (s, id) := by
  simp only [verifyCmd, signCmd]
  constructor
  · intro h
    by_cases hv : verifySig pub (digest oids (signingKeyId oids pub) c) s = true
    · obtain ⟨k, rfl, rfl⟩ := verifySig_iff.mp hv
      simp only [hv, if_true, Option.some.injEq] at h
      exact ⟨k, rfl, by rw [h]⟩
    · simp [hv] at h
  · rintro ⟨k, rfl, h⟩
    simp only [Prod.mk.injEq] at h
    obtain ⟨rfl, rfl⟩ := h
    simp [verifySig]

/-- the symbolic digest binds author, name, parent and data (every field is in the signed tuple) -/
theorem sym_digest_inj {oids : List Term} {a a' : Term} {c c' : Cmd}
    (h : digest oids a c = digest oids a' c') : a = a' ∧ c = c' := by
  have := (thash_inj h).2
  have hget := Sym.map_eq_on this
  have ha := hget .author (digestOrder_complete _)
  have hn := hget .name (digestOrder_complete _)
  have hp := hget .parent (digestOrder_complete _)
  have hd := hget .data (digestOrder_complete _)
  simp only [digestField] at ha hn hp hd
  cases c; cases c'; simp_all

/-- **A signature binds the key and the whole command**: two signing events with the same
signature are the same event. -/
theorem sign_binds {oids : List Term} {k k' : Term} {c c' : Cmd}
    (h : (signCmd oids k c).1 = (signCmd oids k' c').1) : k = k' ∧ c = c' := by
  simp only [signCmd, Term.sig.injEq] at h
  exact ⟨h.1, (sym_digest_inj h.2).2⟩

/-- After an honest `sign_cmd k c`, presenting its signature verifies under `pub'` for `c'` iff
nothing was changed — `pub'` is the signer's key and `c'` is the signed command (same name, same
parent id, same data) — and then the returned id is the signer's id. -/
theorem verify_after_sign (oids : List Term) (k pub' : Term) (c c' : Cmd) (id' : Term) :
    verifyCmd oids pub' c' (signCmd oids k c).1 = some id' ↔
      pub' = .pk k ∧ c' = c ∧ id' = (signCmd oids k c).2 := by
  rw [verify_iff]
  constructor
  · rintro ⟨k', rfl, h⟩
    have h1 := congrArg Prod.fst h
    obtain ⟨rfl, rfl⟩ := sign_binds h1
    exact ⟨rfl, rfl, (congrArg Prod.snd h).symm⟩
  · rintro ⟨rfl, rfl, rfl⟩
    exact ⟨k, rfl, rfl⟩

/-- round trip: the signer's own output verifies and yields the same command id -/
theorem verify_roundtrip (oids : List Term) (k : Term) (c : Cmd) :
    verifyCmd oids (.pk k) c (signCmd oids k c).1 = some (signCmd oids k c).2 :=
  (verify_after_sign oids k (.pk k) c c _).mpr ⟨rfl, rfl, rfl⟩

/-- any other signature value is rejected for the signer's key and command -/
theorem verify_modified_sig_fails (oids : List Term) (k : Term) (c : Cmd) (s' : Term)
    (hs : s' ≠ (signCmd oids k c).1) : verifyCmd oids (.pk k) c s' = none := by
  cases h : verifyCmd oids (.pk k) c s' with
  | none => rfl
  | some id =>
    obtain ⟨k', hk, h2⟩ := (verify_iff oids _ c s' id).mp h
    cases hk
    exact absurd (congrArg Prod.fst h2).symm hs

/-- **`Ffi::verify`** accepts iff the presented (key, command, signature, claimed id) are exactly
a signing event's (key, command, signature, id): in particular a changed claimed id is rejected. -/
theorem ffi_verify_iff (oids : List Term) (pub : Term) (c : Cmd) (claimed s : Term) :
    ffiVerify oids pub c claimed s = true ↔ ∃ k, pub = .pk k ∧ signCmd oids k c = (s, claimed) := by
  unfold ffiVerify
  cases h : verifyCmd oids pub c s with
  | none =>
    simp only [Bool.false_eq_true, false_iff, not_exists, not_and]
    intro k hk h2
    have := (verify_iff oids pub c s claimed).mpr ⟨k, hk, h2⟩
    rw [h] at this; cases this
  | some id =>
    simp only [decide_eq_true_eq]
    constructor
    · rintro rfl; exact (verify_iff oids pub c s id).mp h
    · intro h2
      have := (verify_iff oids pub c s claimed).mpr h2
      rw [h] at this; exact Option.some.inj this

theorem ffi_wrong_claimed_id_fails (oids : List Term) (k : Term) (c : Cmd) (claimed : Term)
    (hc : claimed ≠ (signCmd oids k c).2) :
    ffiVerify oids (.pk k) c claimed (signCmd oids k c).1 = false := by
  cases h : ffiVerify oids (.pk k) c claimed (signCmd oids k c).1 with
  | false => rfl
  | true =>
    obtain ⟨k', hk, h2⟩ := (ffi_verify_iff oids _ c claimed _).mp h
    cases hk
    exact absurd (congrArg Prod.snd h2).symm hc

/-- the command id binds the digest and the signature (symbolic counterpart of `cmdId_inj`) -/
theorem sym_cmdId_inj {oids : List Term} {d s d' s' : Term}
    (h : cmdId oids d s = cmdId oids d' s') : d = d' ∧ s = s' := by
  have hget := Sym.map_eq_on (mkId_inj h).2
  exact ⟨hget .digest (cmdIdOrder_complete _), hget .sig (cmdIdOrder_complete _)⟩

/-- different signing events have different command ids -/
theorem signCmd_id_inj {oids : List Term} {k k' : Term} {c c' : Cmd}
    (h : (signCmd oids k c).2 = (signCmd oids k' c').2) : k = k' ∧ c = c' := by
  simp only [signCmd] at h
  have := (sym_cmdId_inj h).2
  simp only [Term.sig.injEq] at this
  exact ⟨this.1, (sym_digest_inj this.2).2⟩

-- non-vacuity: a concrete signing event verifies; a changed parent / name / key does not
example :
    let oids := [Term.lit [1]]
    let c : Cmd := ⟨.lit [65], .lit [7], .lit [1, 2, 3]⟩
    verifyCmd oids (.pk (.sk 0)) c (signCmd oids (.sk 0) c).1 = some (signCmd oids (.sk 0) c).2 ∧
    verifyCmd oids (.pk (.sk 0)) { c with parent := .lit [8] } (signCmd oids (.sk 0) c).1 = none ∧
    verifyCmd oids (.pk (.sk 0)) { c with name := .lit [65, 7] , parent := .lit [] } (signCmd oids (.sk 0) c).1 = none ∧
    verifyCmd oids (.pk (.sk 1)) c (signCmd oids (.sk 0) c).1 = none := by
  decide

end AranyaV.C34
