import AranyaV.Model.Envelope
import AranyaV.Props.C34
import AranyaV.Proofs.Trx
/-!
# C35 — replicas accept only authentic commands

*Property.*  A replica whose policy verifies signatures in its `open` blocks accepts a synced
command only if its payload, command name, parent, author and id match a valid signature by the
author's registered key; any change to these in transit causes the command to be rejected with no
facts, effects or stored commands.

PARTIAL BY NATURE: the cryptography is symbolic (`Spec.Sym`: SHA-256 is a perfect hash, Ed25519 a
perfect deterministic signature).  What is proved here is the *decision logic*: which fields of
the RECEIVED command the runtime feeds into verification (`call_rule`), that `open` runs before
the `policy` block at origin, and that with a verifying `open` block acceptance is equivalent to
"the received (payload, name, parent id, id, signature) are exactly the output of one `sign_cmd`
by the key the policy designates for the claimed author".  The byte-level injectivity of the
signed digest / id preimages is C34 (`digest_inj`, `cmdId_inj`).

Theorems
* `envelope_fields`, `open_sees_only_envelope_fields`, `braid_skips_open` — decision logic of
  `call_rule`;
* `accept_iff_authentic` (+ `recv_accept_iff`) — main theorem;
* `honest_accepted` — the unchanged command of an honest signing event is accepted;
* `accepted_reuse_unchanged`, `changed_*_rejected`, `swap_rejected`, `replay_other_parent_rejected`
  — every change of every bound field of an honest command is rejected (an adversary without the
  signing keys can only reuse honest signatures / ids);
* `merge_not_authenticated` — what the code does NOT check (recorded, see notes/C35.md);
* `rejected_no_trace_partial` (own small model of `add_single`) and `rejected_no_trace_trx`
  (the C06 mechanism theorem `Trx.addSingle_spec` specialised to a rejecting rule).
-/
namespace AranyaV.C35
open AranyaV.Sym AranyaV.Envelope

/-! ## decision logic of `call_rule` -/

/-- everything `call_rule` checks before the blocks run, at origin -/
def Pre (P : Policy) (c : WireCmd) (p : Payload) : Prop :=
  c.parent ≠ .merge ∧ c.data = some p ∧
    ∃ d, P.defs p.kind = some d ∧ c.prio = d.prio ∧ d.persistent = true ∧ P.deser p.kind p.fields = true

/-- the blocks' part of `call_rule` at origin -/
def blocks (opn : OpenFn) (rule : RuleFn) (c : WireCmd) (p : Payload) : Verdict :=
  match opn p.kind p.fields ⟨parentIdOf c.parent, p.author, c.id, p.sig⟩ with
  | .err e => .err e
  | .ok => if rule p.kind p.fields ⟨parentIdOf c.parent, p.author, c.id, p.sig⟩ then .ok else .err .rejected

/-- **`envelope_sources`** — the envelope `call_rule` builds (field sources regenerated from
vm_policy.rs) carries the RECEIVED command's parent id (`CmdId::default()` for an init command),
the author id from the payload, the RECEIVED command's id and the signature from the payload. -/
theorem envelope_sources (c : WireCmd) (p : Payload) :
    envelopeOf c p = ⟨parentIdOf c.parent, p.author, c.id, p.sig⟩ := by
  obtain ⟨id, prio, parent, pol, data⟩ := c
  cases parent <;> rfl

/-- the `open` block runs in the `OpenContext` of the payload's command name, on the payload's
serialized fields -/
theorem open_name_payload (p : Payload) :
    pickPl p Gen.C35.openName = p.kind ∧ pickPl p Gen.C35.openPayload = p.fields := ⟨rfl, rfl⟩

/-- **`envelope_fields`.**  When the pre-checks pass, `call_rule` at origin is decided by the
`open` block — run first — applied to: the command name from the payload, the payload bytes, and
the envelope made of the RECEIVED command's parent id (`CmdId::default()` for an init command),
the author id from the payload, the RECEIVED command's id and the signature from the payload;
the `policy` block only runs if `open` succeeded. -/
theorem envelope_fields (P : Policy) (opn : OpenFn) (rule : RuleFn) (c : WireCmd) (p : Payload)
    (h : Pre P c p) : callRule P opn rule .atOrigin c = blocks opn rule c p := by
  obtain ⟨hpar, hd, d, hdef, hprio, hpers, hdes⟩ := h
  unfold callRule blocks
  simp [hpar, hd, hdef, hprio, hpers, hdes, placementOk, envelope_sources, (open_name_payload p).1,
    (open_name_payload p).2]
  generalize opn p.kind p.fields ⟨parentIdOf c.parent, p.author, c.id, p.sig⟩ = v
  cases v <;> rfl

/-- if the pre-checks fail, `call_rule` fails whatever the blocks are -/
theorem pre_of_ok {P : Policy} {opn : OpenFn} {rule : RuleFn} {c : WireCmd}
    (h : callRule P opn rule .atOrigin c = .ok) : ∃ p, Pre P c p := by
  unfold callRule at h
  by_cases hpar : c.parent = .merge
  · simp [hpar] at h
  · simp only [hpar, if_false] at h
    cases hd : c.data with
    | none => simp [hd] at h
    | some p =>
      simp only [hd] at h
      cases hdef : P.defs p.kind with
      | none => simp [hdef] at h
      | some d =>
        simp only [hdef] at h
        by_cases hprio : c.prio = d.prio
        · by_cases hpers : d.persistent = true
          · by_cases hdes : P.deser p.kind p.fields = true
            · exact ⟨p, hpar, hd, d, hdef, hprio, hpers, hdes⟩
            · simp [hprio, hpers, hdes, placementOk] at h
          · simp [hprio, hpers, placementOk] at h
        · simp [hprio] at h

theorem Pre.unique {P : Policy} {c : WireCmd} {p q : Payload} (hp : Pre P c p) (hq : Pre P c q) : p = q := by
  have := hp.2.1.symm.trans hq.2.1
  exact Option.some.inj this

/-- acceptance at origin = pre-checks ∧ `open` succeeds on the envelope fields ∧ `policy` accepts -/
theorem accept_origin_iff (P : Policy) (opn : OpenFn) (rule : RuleFn) (c : WireCmd) :
    callRule P opn rule .atOrigin c = .ok ↔
      ∃ p, Pre P c p ∧ opn p.kind p.fields (envelopeOf c p) = .ok ∧ rule p.kind p.fields (envelopeOf c p) = true := by
  constructor
  · intro h
    obtain ⟨p, hp⟩ := pre_of_ok h
    rw [envelope_fields P opn rule c p hp] at h
    refine ⟨p, hp, ?_⟩
    unfold blocks at h
    rw [envelope_sources]
    cases ho : opn p.kind p.fields ⟨parentIdOf c.parent, p.author, c.id, p.sig⟩ with
    | err e => simp [ho] at h
    | ok =>
      simp only [ho] at h
      by_cases hr : rule p.kind p.fields ⟨parentIdOf c.parent, p.author, c.id, p.sig⟩ = true
      · exact ⟨rfl, hr⟩
      · simp [hr] at h
  · rintro ⟨p, hp, ho, hr⟩
    rw [envelope_fields P opn rule c p hp]
    rw [envelope_sources] at ho hr
    simp [blocks, ho, hr]

/-- **Only the envelope fields reach `open`.**  Two `open` blocks that agree on the one argument
tuple `(name, payload, ⟨parent id of the received command, author, received id, signature⟩)` give
the same `call_rule` result: nothing else of the wire command (priority, max cuts, policy bytes,
the raw data) is visible to the verification. -/
theorem open_sees_only_envelope_fields (P : Policy) (opn opn' : OpenFn) (rule : RuleFn) (c : WireCmd)
    (h : ∀ p, c.data = some p → opn p.kind p.fields (envelopeOf c p) = opn' p.kind p.fields (envelopeOf c p)) :
    callRule P opn rule .atOrigin c = callRule P opn' rule .atOrigin c := by
  unfold callRule
  cases hd : c.data with
  | none => rfl
  | some p => simp only [(open_name_payload p).1, (open_name_payload p).2, h p hd]

/-- inside a braid `open` is not run at all: authenticity is decided once, at origin -/
theorem braid_skips_open (P : Policy) (opn opn' : OpenFn) (rule : RuleFn) (c : WireCmd) :
    callRule P opn rule .inBraid c = callRule P opn' rule .inBraid c := by
  simp [callRule, Gen.C35.braidBypassesOpen]

/-! ## a verifying `open` block -/

/-- `verifyingOpen` succeeds iff the envelope's (signature, command id) are the output of
`sign_cmd` by the secret half of the key the policy designates for the claimed author, over
exactly (command name, envelope parent id, payload) -/
theorem verifyingOpen_ok_iff (oids : List Term) (keyOf : Term → Term → Term → Option Term)
    (name payload : Term) (env : Env) :
    verifyingOpen oids keyOf name payload env = .ok ↔
      ∃ k, keyOf name env.authorId payload = some (.pk k) ∧
        signCmd oids k ⟨name, env.parentId, payload⟩ = (env.sig, env.commandId) := by
  unfold verifyingOpen
  cases hk : keyOf name env.authorId payload with
  | none => simp
  | some pub =>
    simp only
    by_cases hv : ffiVerify oids pub ⟨name, env.parentId, payload⟩ env.commandId env.sig = true
    · simp only [hv, if_true, true_iff]
      obtain ⟨k, rfl, hs⟩ := (C34.ffi_verify_iff oids pub _ _ _).mp hv
      exact ⟨k, rfl, hs⟩
    · simp only [hv]
      constructor
      · intro h; cases h
      · rintro ⟨k, hk', hs⟩
        have hp : pub = .pk k := Option.some.inj hk'
        exact absurd ((C34.ffi_verify_iff oids pub _ _ _).mpr ⟨k, hp, hs⟩) hv

/-- a signing event by key `k` for the received command: the payload's signature and the
RECEIVED id are what `sign_cmd` derives from (name, parent id of the received command, payload) -/
def SignedBy (oids : List Term) (k : Term) (c : WireCmd) (p : Payload) : Prop :=
  signCmd oids k ⟨p.kind, parentIdOf c.parent, p.fields⟩ = (p.sig, c.id)

/-- **`accept_iff_authentic`.**  With a policy whose `open` verifies, `call_rule` at origin
accepts a received wire command iff it passes the structural checks (decodes, priority = the
policy's priority of the named command, persistent, fields decode), the policy designates a key
`pk k` for (name, claimed author, payload), the received (payload, name, parent id, signature, id)
are those of a signing event by `k`, and the `policy` block accepts. -/
theorem accept_iff_authentic (oids : List Term) (P : Policy) (keyOf : Term → Term → Term → Option Term)
    (rule : RuleFn) (c : WireCmd) :
    callRule P (verifyingOpen oids keyOf) rule .atOrigin c = .ok ↔
      ∃ p k, Pre P c p ∧ keyOf p.kind p.author p.fields = some (.pk k) ∧ SignedBy oids k c p ∧
        rule p.kind p.fields (envelopeOf c p) = true := by
  rw [accept_origin_iff]
  constructor
  · rintro ⟨p, hp, ho, hr⟩
    obtain ⟨k, hk, hs⟩ := (verifyingOpen_ok_iff oids keyOf _ _ _).mp ho
    rw [envelope_sources] at hk hs
    exact ⟨p, k, hp, hk, hs, hr⟩
  · rintro ⟨p, k, hp, hk, hs, hr⟩
    refine ⟨p, hp, (verifyingOpen_ok_iff oids keyOf _ _ _).mpr ⟨k, ?_, ?_⟩, hr⟩
    · rw [envelope_sources]; exact hk
    · rw [envelope_sources]; exact hs

/-- the same at the level of `add_commands`: a received command is ACCEPTED by the transaction
iff it is a located merge (no check at all — see `merge_not_authenticated`) or an authentic signed
command that is either the init command of the graph being created or a new child of a located
parent -/
theorem recv_accept_iff (oids : List Term) (P : Policy) (keyOf : Term → Term → Term → Option Term)
    (rule : RuleFn) (x : RecvCtx) (c : WireCmd) :
    recv P (verifyingOpen oids keyOf) rule x c = .accept ↔
      (x.hasStore = true ∧ x.dup = false ∧ c.parent = .merge ∧ x.mergeLocated = true) ∨
      (((x.hasStore = false ∧ x.isGraphId = true ∧ c.parent = .none ∧ c.hasPolicy = true) ∨
        (x.hasStore = true ∧ x.dup = false ∧ (∃ q, c.parent = .single q) ∧ x.parentLocated = true)) ∧
       callRule P (verifyingOpen oids keyOf) rule .atOrigin c = .ok) := by
  unfold recv
  cases hs : x.hasStore <;> cases hg : x.isGraphId <;> cases hd : x.dup <;> cases hp : c.parent <;>
    cases hl : x.parentLocated <;> cases hm : x.mergeLocated <;> cases hpol : c.hasPolicy <;>
    cases hv : callRule P (verifyingOpen oids keyOf) rule .atOrigin c <;>
    simp [ofVerdict]

/-! ## honest commands are accepted; changed ones are not -/

/-- The unchanged command of an honest signing event passes: if the receiving policy knows the
command under the shipped priority, its fields decode, the policy designates the signer's public
key for the author, and the `policy` block accepts, then `call_rule` accepts. -/
theorem honest_accepted (oids : List Term) (P : Policy) (keyOf : Term → Term → Term → Option Term)
    (rule : RuleFn) (k author name fields : Term) (parent : Parent) (prio : Prio) (pol : Bool)
    (hpar : parent ≠ .merge) (hdef : P.defs name = some ⟨prio, true⟩) (hdes : P.deser name fields = true)
    (hkey : keyOf name author fields = some (.pk k))
    (hrule : rule name fields ⟨parentIdOf parent, author, (signCmd oids k ⟨name, parentIdOf parent, fields⟩).2,
      (signCmd oids k ⟨name, parentIdOf parent, fields⟩).1⟩ = true) :
    callRule P (verifyingOpen oids keyOf) rule .atOrigin (sealCmd oids k author name fields parent prio pol) = .ok := by
  rw [accept_iff_authentic]
  refine ⟨⟨author, name, fields, (signCmd oids k ⟨name, parentIdOf parent, fields⟩).1⟩, k, ?_, hkey, ?_, ?_⟩
  · exact ⟨hpar, rfl, ⟨prio, true⟩, hdef, rfl, rfl, hdes⟩
  · simp [SignedBy, sealCmd]
  · simpa [envelope_sources, sealCmd] using hrule

/-- **An accepted command that reuses an honest signature or an honest id is that honest
command, field for field.**  Let `(sig, id) = sign_cmd k ⟨name, parent id, fields⟩` be an honest
signing event.  If a received command `c'` is accepted and carries that signature, or that id,
then its command name, parent id, payload, signature and id are all the honest ones, and the key
the policy designates for its claimed author is the signer's. -/
theorem accepted_reuse_unchanged (oids : List Term) (P : Policy) (keyOf : Term → Term → Term → Option Term)
    (rule : RuleFn) (k name pid fields : Term) (c' : WireCmd)
    (hacc : callRule P (verifyingOpen oids keyOf) rule .atOrigin c' = .ok) :
    ∃ p', c'.data = some p' ∧
      ((p'.sig = (signCmd oids k ⟨name, pid, fields⟩).1 ∨ c'.id = (signCmd oids k ⟨name, pid, fields⟩).2) →
        p'.kind = name ∧ parentIdOf c'.parent = pid ∧ p'.fields = fields ∧
        p'.sig = (signCmd oids k ⟨name, pid, fields⟩).1 ∧ c'.id = (signCmd oids k ⟨name, pid, fields⟩).2 ∧
        keyOf p'.kind p'.author p'.fields = some (.pk k)) := by
  obtain ⟨p', k', hpre, hkey, hs, _⟩ := (accept_iff_authentic oids P keyOf rule c').mp hacc
  refine ⟨p', hpre.2.1, ?_⟩
  intro hreuse
  have hev : k' = k ∧ (⟨p'.kind, parentIdOf c'.parent, p'.fields⟩ : Cmd) = ⟨name, pid, fields⟩ := by
    unfold SignedBy at hs
    rcases hreuse with h | h
    · apply C34.sign_binds (oids := oids)
      rw [hs]; exact h
    · apply C34.signCmd_id_inj (oids := oids)
      rw [hs]; exact h
  obtain ⟨rfl, hc⟩ := hev
  simp only [Cmd.mk.injEq] at hc
  obtain ⟨h1, h2, h3⟩ := hc
  unfold SignedBy at hs
  rw [h1, h2, h3] at hs
  refine ⟨h1, h2, h3, ?_, ?_, hkey⟩
  · exact (congrArg Prod.fst hs).symm
  · exact (congrArg Prod.snd hs).symm

/-- the honest wire command and a received variant of it -/
structure Variant (oids : List Term) (k author name fields : Term) (parent : Parent) where
  c' : WireCmd
  p' : Payload
  data : c'.data = some p'
  /-- the attacker has no signing key: it keeps the honest signature or the honest id -/
  reuse : p'.sig = (signCmd oids k ⟨name, parentIdOf parent, fields⟩).1 ∨
          c'.id = (signCmd oids k ⟨name, parentIdOf parent, fields⟩).2

section changed
variable (oids : List Term) (P : Policy) (keyOf : Term → Term → Term → Option Term) (rule : RuleFn)
variable {k author name fields : Term} {parent : Parent}

private theorem variant_fields (v : Variant oids k author name fields parent)
    (hacc : callRule P (verifyingOpen oids keyOf) rule .atOrigin v.c' = .ok) :
    v.p'.kind = name ∧ parentIdOf v.c'.parent = parentIdOf parent ∧ v.p'.fields = fields ∧
      v.p'.sig = (signCmd oids k ⟨name, parentIdOf parent, fields⟩).1 ∧
      v.c'.id = (signCmd oids k ⟨name, parentIdOf parent, fields⟩).2 ∧
      keyOf v.p'.kind v.p'.author v.p'.fields = some (.pk k) := by
  obtain ⟨p', hd, h⟩ := accepted_reuse_unchanged oids P keyOf rule k name (parentIdOf parent) fields v.c' hacc
  have : p' = v.p' := Option.some.inj (hd.symm.trans v.data)
  subst this
  exact h v.reuse

/-- a changed payload is rejected -/
theorem changed_payload_rejected (v : Variant oids k author name fields parent) (h : v.p'.fields ≠ fields) :
    callRule P (verifyingOpen oids keyOf) rule .atOrigin v.c' ≠ .ok :=
  fun hacc => h (variant_fields oids P keyOf rule v hacc).2.2.1

/-- a changed command name is rejected -/
theorem changed_name_rejected (v : Variant oids k author name fields parent) (h : v.p'.kind ≠ name) :
    callRule P (verifyingOpen oids keyOf) rule .atOrigin v.c' ≠ .ok :=
  fun hacc => h (variant_fields oids P keyOf rule v hacc).1

/-- a changed parent id (including `Single → None` and replay under another parent) is rejected -/
theorem changed_parent_rejected (v : Variant oids k author name fields parent)
    (h : parentIdOf v.c'.parent ≠ parentIdOf parent) :
    callRule P (verifyingOpen oids keyOf) rule .atOrigin v.c' ≠ .ok :=
  fun hacc => h (variant_fields oids P keyOf rule v hacc).2.1

/-- a changed command id is rejected (the claimed-id comparison of `crypto::verify`) -/
theorem changed_id_rejected (v : Variant oids k author name fields parent)
    (h : v.c'.id ≠ (signCmd oids k ⟨name, parentIdOf parent, fields⟩).2) :
    callRule P (verifyingOpen oids keyOf) rule .atOrigin v.c' ≠ .ok :=
  fun hacc => h (variant_fields oids P keyOf rule v hacc).2.2.2.2.1

/-- a changed signature is rejected -/
theorem changed_sig_rejected (v : Variant oids k author name fields parent)
    (h : v.p'.sig ≠ (signCmd oids k ⟨name, parentIdOf parent, fields⟩).1) :
    callRule P (verifyingOpen oids keyOf) rule .atOrigin v.c' ≠ .ok :=
  fun hacc => h (variant_fields oids P keyOf rule v hacc).2.2.2.1

/-- a changed author is rejected unless the policy designates the very same signing key for the
other author too (distinct devices have distinct registered keys: `hk`) -/
theorem changed_author_rejected (v : Variant oids k author name fields parent)
    (hk : keyOf v.p'.kind v.p'.author v.p'.fields ≠ some (.pk k)) :
    callRule P (verifyingOpen oids keyOf) rule .atOrigin v.c' ≠ .ok :=
  fun hacc => hk (variant_fields oids P keyOf rule v hacc).2.2.2.2.2

/-- a wrong priority is rejected before anything else runs (it is not signed, but it is bound to
the command name by the receiving policy) -/
theorem changed_priority_rejected (opn : OpenFn) (c : WireCmd) (p : Payload) (d : CmdDef) (hd : c.data = some p)
    (hdef : P.defs p.kind = some d) (hprio : c.prio ≠ d.prio) :
    callRule P opn rule .atOrigin c = .err .internal ∨ callRule P opn rule .atOrigin c = .err .bug := by
  unfold callRule
  by_cases hp : c.parent = .merge <;> simp [hp, hd, hdef, hprio]

end changed

/-- swapping between two honest commands: the signature of event 1 with any field of event 2
(payload, name, parent) is accepted only if the two events agree on every bound field -/
theorem swap_rejected (oids : List Term) (P : Policy) (keyOf : Term → Term → Term → Option Term) (rule : RuleFn)
    (k₁ n₁ pid₁ f₁ : Term) (c' : WireCmd) (p' : Payload) (hd : c'.data = some p')
    (hsig : p'.sig = (signCmd oids k₁ ⟨n₁, pid₁, f₁⟩).1)
    (hmix : p'.fields ≠ f₁ ∨ p'.kind ≠ n₁ ∨ parentIdOf c'.parent ≠ pid₁ ∨ c'.id ≠ (signCmd oids k₁ ⟨n₁, pid₁, f₁⟩).2) :
    callRule P (verifyingOpen oids keyOf) rule .atOrigin c' ≠ .ok := by
  intro hacc
  obtain ⟨q, hq, h⟩ := accepted_reuse_unchanged oids P keyOf rule k₁ n₁ pid₁ f₁ c' hacc
  have : q = p' := Option.some.inj (hq.symm.trans hd)
  subst this
  obtain ⟨h1, h2, h3, _, h5, _⟩ := h (Or.inl hsig)
  rcases hmix with h' | h' | h' | h'
  · exact h' h3
  · exact h' h1
  · exact h' h2
  · exact h' h5

/-- replaying an honest command, unchanged except for its parent, under a different parent -/
theorem replay_other_parent_rejected (oids : List Term) (P : Policy) (keyOf : Term → Term → Term → Option Term)
    (rule : RuleFn) (k author name fields q q' : Term) (prio : Prio) (pol : Bool) (hq : q' ≠ q) :
    callRule P (verifyingOpen oids keyOf) rule .atOrigin
      { sealCmd oids k author name fields (.single q) prio pol with parent := .single q' } ≠ .ok := by
  apply swap_rejected oids P keyOf rule k name q fields _ ⟨author, name, fields, (signCmd oids k ⟨name, q, fields⟩).1⟩
  · simp [sealCmd, parentIdOf]
  · simp
  · right; right; left
    simpa [parentIdOf] using hq

/-- **What is NOT authenticated** (the model mirrors the code): a received command whose parent
field is `Prior::Merge(l, r)` with both parents located is stored by `add_merge` without any rule,
whatever its id, priority or data. -/
theorem merge_not_authenticated (P : Policy) (opn : OpenFn) (rule : RuleFn) (x : RecvCtx) (c : WireCmd)
    (hs : x.hasStore = true) (hd : x.dup = false) (hp : c.parent = .merge) (hl : x.mergeLocated = true) :
    recv P opn rule x c = .accept := by
  simp [recv, hs, hd, hp, hl]

/-! ## a rejected command leaves no trace -/

theorem committedAux_window_rollback {E : Type} (es : List E) (st done : List E) :
    committedAux (es.map SinkEv.consume ++ [SinkEv.rollback]) st done = done := by
  induction es generalizing st with
  | nil => simp [committedAux]
  | cons e es ih => simpa [committedAux] using ih (st ++ [e])

theorem committedAux_window_commit {E : Type} (es : List E) (st done : List E) :
    committedAux (es.map SinkEv.consume ++ [SinkEv.commit]) st done = done ++ (st ++ es) := by
  induction es generalizing st with
  | nil => simp [committedAux]
  | cons e es ih =>
    have := ih (st ++ [e])
    simpa [committedAux, List.append_assoc] using this

theorem committedAux_rollback {E : Type} (sink : List (SinkEv E)) (es : List E) (st done : List E) :
    committedAux (sink ++ [SinkEv.begin] ++ es.map SinkEv.consume ++ [SinkEv.rollback]) st done =
      committedAux sink st done := by
  induction sink generalizing st done with
  | nil => simpa [committedAux] using committedAux_window_rollback es [] done
  | cons ev sink ih =>
    cases ev <;> simp only [List.cons_append, committedAux] <;> exact ih _ _

theorem committedAux_commit {E : Type} (sink : List (SinkEv E)) (es : List E) (st done : List E) :
    committedAux (sink ++ [SinkEv.begin] ++ es.map SinkEv.consume ++ [SinkEv.commit]) st done =
      committedAux sink st done ++ es := by
  induction sink generalizing st done with
  | nil => simpa [committedAux] using committedAux_window_commit es [] done
  | cons ev sink ih =>
    cases ev <;> simp only [List.cons_append, committedAux] <;> exact ih _ _

/-- a rolled-back window adds nothing to what a sink has committed — whatever came before -/
theorem committed_rollback {E : Type} (sink : List (SinkEv E)) (es : List E) :
    committed (sink ++ [SinkEv.begin] ++ es.map SinkEv.consume ++ [SinkEv.rollback]) = committed sink :=
  committedAux_rollback sink es [] []

/-- a committed window adds exactly its effects -/
theorem committed_commit {E : Type} (sink : List (SinkEv E)) (es : List E) :
    committed (sink ++ [SinkEv.begin] ++ es.map SinkEv.consume ++ [SinkEv.commit]) = committed sink ++ es :=
  committedAux_commit sink es [] []

/-- **`rejected_no_trace_partial`** (own small model of `add_single`; the mechanism-level
statement on the transaction model is `rejected_no_trace_trx` below).  Whatever `call_rule` wrote
to the perspective and emitted to the sink before it failed, after `add_single` the perspective
holds the checkpointed facts and the same commands, the sink has committed nothing new, and the
error is returned. -/
theorem rejected_no_trace_partial {F E : Type} (run : F → Run F E) (p : Persp F) (sink : List (SinkEv E))
    (id : Term) (e : PErr) (h : (run p.facts).verdict = .err e) :
    (addSingle run p sink id).1.facts = p.facts ∧ (addSingle run p sink id).1.cmds = p.cmds ∧
      committed (addSingle run p sink id).2.1 = committed sink ∧ (addSingle run p sink id).2.2 = .err e := by
  refine ⟨by simp [addSingle, h], by simp [addSingle, h], ?_, by simp [addSingle, h]⟩
  simp only [addSingle, h]
  exact committed_rollback sink _

/-- the accepting arm, for contrast: the command is appended and its effects are committed -/
theorem accepted_trace {F E : Type} (run : F → Run F E) (p : Persp F) (sink : List (SinkEv E))
    (id : Term) (h : (run p.facts).verdict = .ok) :
    (addSingle run p sink id).1.facts = (run p.facts).facts ∧ (addSingle run p sink id).1.cmds = p.cmds ++ [id] ∧
      committed (addSingle run p sink id).2.1 = committed sink ++ (run p.facts).effects := by
  refine ⟨by simp [addSingle, h], by simp [addSingle, h], ?_⟩
  simp only [addSingle, h]
  exact committed_commit sink _

/-- **Composition**: a received command that is not authentic (for a verifying policy) leaves no
facts, no committed effects and no stored command, whatever the blocks wrote before failing. -/
theorem inauthentic_no_trace_partial {F E : Type} (oids : List Term) (P : Policy)
    (keyOf : Term → Term → Term → Option Term) (rule : RuleFn) (c : WireCmd)
    (writes : F → F × List E) (p : Persp F) (sink : List (SinkEv E))
    (hna : ¬ ∃ p' k, Pre P c p' ∧ keyOf p'.kind p'.author p'.fields = some (.pk k) ∧ SignedBy oids k c p' ∧
        rule p'.kind p'.fields (envelopeOf c p') = true) :
    let run : F → Run F E := fun f =>
      ⟨(writes f).1, (writes f).2, callRule P (verifyingOpen oids keyOf) rule .atOrigin c⟩
    (addSingle run p sink c.id).1.facts = p.facts ∧ (addSingle run p sink c.id).1.cmds = p.cmds ∧
      committed (addSingle run p sink c.id).2.1 = committed sink := by
  intro run
  cases hv : callRule P (verifyingOpen oids keyOf) rule .atOrigin c with
  | ok => exact absurd ((accept_iff_authentic oids P keyOf rule c).mp hv) hna
  | err e =>
    have := rejected_no_trace_partial run p sink c.id e (by simp [run, hv])
    exact ⟨this.1, this.2.1, this.2.2.1⟩

/-- **`rejected_no_trace_trx`** — the C06 mechanism theorem (`Trx.addSingle_spec`, transaction
model of `transaction.rs` after the F1/F1b/F6 repair) specialised to a rule that rejects: the
transaction is unchanged up to a flush of the perspective that was in flight (same view of
stored + accepted commands, hence same facts at every stored command), the sink window is rolled
back, the error is returned, and the rejected id is not in the view. -/
theorem rejected_no_trace_trx {st : Trx.Store} {t : Trx.Trx} (sink : List Trx.SinkEv) {c : Spec.Cmd} {p : Nat}
    {s : Spec.Facts} (h : Trx.TrxInv st t) (hc : c.parents = [p])
    (hfresh : c.id ∉ Spec.ids (Trx.cmds (Trx.view st t)))
    (hs : Trx.stateOf (Trx.view st t) p = some s) (hrej : (Spec.rule c s).2.1 = false) :
    (Trx.addSingle st t sink c p).2.2 = some .rejected ∧
      Trx.view st (Trx.addSingle st t sink c p).1 = Trx.view st t ∧
      c.id ∉ Spec.ids (Trx.cmds (Trx.view st (Trx.addSingle st t sink c p).1)) ∧
      (Trx.addSingle st t sink c p).2.1 =
        sink ++ ([Trx.SinkEv.begin] ++ Trx.consumes c.id (Spec.rule c s).2.2) ++ [Trx.SinkEv.rollback] := by
  have hspec := (Trx.addSingle_spec sink h hc hfresh).2.2
  rw [hs] at hspec
  simp only [hrej, Bool.false_eq_true, if_false] at hspec
  obtain ⟨he, hv, hsink⟩ := hspec
  have hview : Trx.view st (Trx.addSingle st t sink c p).1 = Trx.view st t := by
    rcases hv with hv | hv
    · rw [hv]
    · rw [hv]; exact h.view_flush.1
  exact ⟨he, hview, by rw [hview]; exact hfresh, hsink⟩

/-! ## non-vacuity: concrete instances -/

section examples

private def oids : List Term := [.lit [1]]
private def kA : Term := .sk 0
private def kB : Term := .sk 1
private def devA : Term := .lit [0xA]
private def devB : Term := .lit [0xB]
private def nCreate : Term := .lit [67]
private def nIncr : Term := .lit [73]
private def pol : Policy :=
  { defs := fun n => if n = nCreate ∨ n = nIncr then some ⟨.basic 0, true⟩ else none
    deser := fun _ _ => true }
/-- registered keys: device A ↦ pk kA, device B ↦ pk kB -/
private def keyOf : Term → Term → Term → Option Term := fun _ a _ =>
  if a = devA then some (.pk kA) else if a = devB then some (.pk kB) else none
private def rule : RuleFn := fun _ _ _ => true
private def parent : Term := .lit [7, 7]
private def honest : WireCmd := sealCmd oids kA devA nCreate (.lit [1, 2, 3]) (.single parent) (.basic 0) false
private def honest2 : WireCmd := sealCmd oids kA devA nIncr (.lit [9]) (.single honest.id) (.basic 0) false
private def sigOf (c : WireCmd) : Term := match c.data with | some p => p.sig | none => .nil

private def run (c : WireCmd) : Verdict := callRule pol (verifyingOpen oids keyOf) rule .atOrigin c
private def withData (c : WireCmd) (f : Payload → Payload) : WireCmd :=
  { c with data := c.data.map f }

-- the honest command is accepted; each single-field change is rejected
example : run honest = .ok := by decide
example : run { honest with id := .lit [0] } = .err .internal := by decide
example : run { honest with parent := .single (.lit [7, 8]) } = .err .internal := by decide
example : run { honest with parent := .none } = .err .internal := by decide
example : run { honest with prio := .basic 1 } = .err .internal := by decide
example : run { honest with prio := .finalize } = .err .internal := by decide
example : run (withData honest fun p => { p with author := devB }) = .err .internal := by decide
example : run (withData honest fun p => { p with author := .lit [0xC] }) = .err .internal := by decide
example : run (withData honest fun p => { p with kind := nIncr }) = .err .internal := by decide
example : run (withData honest fun p => { p with kind := .lit [88] }) = .err .internal := by decide
example : run (withData honest fun p => { p with fields := .lit [1, 2, 4] }) = .err .internal := by decide
example : run (withData honest fun p => { p with sig := .lit [5] }) = .err .internal := by decide
example : run { honest with data := none } = .err .read := by decide
-- swaps between two honest commands; replay of the second under the first's parent
example : run honest2 = .ok := by decide
example : run (withData honest fun p => { p with sig := sigOf honest2 }) = .err .internal := by decide
example : run (withData honest fun p => { p with fields := .lit [9] }) = .err .internal := by decide
example : run { honest with data := honest2.data } = .err .internal := by decide
example : run { honest2 with parent := .single parent } = .err .internal := by decide
example : run { honest with data := honest2.data, id := honest2.id } = .err .internal := by decide
-- the receive path: honest child of a located parent; unknown parent; duplicate; foreign init; merge
example : recv pol (verifyingOpen oids keyOf) rule ⟨true, false, false, true, false⟩ honest = .accept := by decide
example : recv pol (verifyingOpen oids keyOf) rule ⟨true, false, false, false, false⟩ honest = .noParent := by decide
example : recv pol (verifyingOpen oids keyOf) rule ⟨true, false, true, true, false⟩ honest = .dup := by decide
example : recv pol (verifyingOpen oids keyOf) rule ⟨true, false, false, true, false⟩ { honest with parent := .none } = .initErr := by decide
example : recv pol (verifyingOpen oids keyOf) rule ⟨true, false, false, true, true⟩ { honest with parent := .merge } = .accept := by decide
-- hypotheses of `honest_accepted` / `accepted_reuse_unchanged` / `Variant` are satisfiable
example : Pre pol honest ⟨devA, nCreate, .lit [1, 2, 3], sigOf honest⟩ :=
  ⟨by decide, by decide, ⟨.basic 0, true⟩, by decide, by decide, rfl, rfl⟩
example : Variant oids kA devA nCreate (.lit [1, 2, 3]) (.single parent) :=
  { c' := { honest with id := .lit [0] }, p' := ⟨devA, nCreate, .lit [1, 2, 3], sigOf honest⟩,
    data := by decide, reuse := Or.inl (by decide) }
-- the sink: a rolled-back window after a committed one leaves the committed effects alone
example : committed ([SinkEv.begin, .consume 1, .commit] ++ [SinkEv.begin] ++ [2, 3].map SinkEv.consume ++ [SinkEv.rollback])
    = [1] := by decide

end examples

end AranyaV.C35
