import AranyaV.Proofs.Framing
import AranyaV.Model.FramingWrap
import AranyaV.Spec.SymWrap
/-!
# C36 — Wrapped keys are authenticated and bound to their type

Partial by nature: AES-256-GCM and SHA-256 are *symbolic* here.

* **byte level**: the associated data of `wrap_secret` / `unwrap_secret`,
  `tuple_hash("DefaultEngine", OIDs, [T::ID bytes, key id])`, is injective in `(T::ID bytes,
  key id)` for all byte strings (`ad_inj`), the two sides frame it identically
  (`ad_wrap_unwrap_agree`), and the algorithm-id bytes of the six key kinds are pairwise different
  whenever the suite's OIDs are (`algIdBytes_inj`).
* **symbolic level** (perfect AEAD with separately addressable body and tag): `unwrap_wrap`
  (round trip), `unwrap_ok_iff_honest` (a wrapped key is accepted iff it is *exactly* the honest
  wrapping under this engine key for this key type), `unwrap_fails` (any change of id / nonce /
  ciphertext / tag / variant tag, another engine key, or a requested type of another kind or
  algorithm id is rejected — as long as anything of the honest wrapping is reused).

The order of the AD items on each side is generated from the Rust source.
-/
namespace AranyaV.C36
open AranyaV.Framing Gen.C36

/-! ## Byte level -/

theorem wrapAdOrder_complete : ∀ f : AdField, f ∈ wrapAdOrder := by
  intro f; cases f <;> decide

theorem unwrapAdOrder_complete : ∀ f : AdField, f ∈ unwrapAdOrder := by
  intro f; cases f <;> decide

/-- both sides hash the same items in the same order -/
theorem adOrder_agree : wrapAdOrder = unwrapAdOrder := by decide

theorem engineTag_short : Short engineTag := by simp [Short, engineTag]

theorem adItems_short {order : List AdField} {a k : Bytes} (ha : Short a) (hk : Short k) :
    AllShort (order.map (adItem a k)) := by
  intro s hs
  simp only [List.mem_map] at hs
  obtain ⟨f, _, rfl⟩ := hs
  cases f <;> assumption

/-- **The wrap AD binds the algorithm id and the key id**: equal AD preimages (hence, for a
collision-resistant hash, equal ADs) force equal suite OIDs, equal `T::ID` bytes and equal key
ids — for all byte strings, so no re-splitting of `algId ‖ keyId` collides. -/
theorem ad_inj {oids oids' : List Bytes} {a a' k k' : Bytes} {L L' : Nat}
    (ho : AllShort oids) (ho' : AllShort oids') (ha : Short a) (ha' : Short a')
    (hk : Short k) (hk' : Short k') (hL : L < 2 ^ 64) (hL' : L' < 2 ^ 64)
    (h : wrapAdPreimage oids a k L = wrapAdPreimage oids' a' k' L') :
    oids = oids' ∧ a = a' ∧ k = k' ∧ L = L' := by
  unfold wrapAdPreimage at h
  obtain ⟨_, h2, h3, h4⟩ := suiteTuplePreimage_inj engineTag_short engineTag_short ho ho'
    (adItems_short ha hk) (adItems_short ha' hk') hL hL' (by simp) h
  have hget := Framing.map_eq_on h3
  exact ⟨h2, hget .algId (wrapAdOrder_complete _), hget .keyId (wrapAdOrder_complete _), h4⟩

/-- `unwrap_secret` recomputes exactly the bytes `wrap_secret` authenticated -/
theorem ad_wrap_unwrap_agree (oids : List Bytes) (a k : Bytes) (L : Nat) :
    unwrapAdPreimage oids a k L = wrapAdPreimage oids a k L := by
  unfold unwrapAdPreimage wrapAdPreimage
  rw [adOrder_agree]

/-- what unwrap recomputes for `(a', k')` equals what wrap authenticated for `(a, k)` only if
`a' = a` and `k' = k`: a changed key id or a requested type with another algorithm id gives
another AD -/
theorem ad_unwrap_inj {oids : List Bytes} {a a' k k' : Bytes} {L : Nat}
    (ho : AllShort oids) (ha : Short a) (ha' : Short a') (hk : Short k) (hk' : Short k')
    (hL : L < 2 ^ 64)
    (h : unwrapAdPreimage oids a' k' L = wrapAdPreimage oids a k L) : a' = a ∧ k' = k := by
  rw [ad_wrap_unwrap_agree] at h
  have := ad_inj ho ho ha' ha hk' hk hL hL h
  exact ⟨this.2.1, this.2.2.1⟩

example : wrapAdPreimage [[1], [2]] [7, 7] [9] 32 ≠ wrapAdPreimage [[1], [2]] [7] [7, 9] 32 := by
  intro h
  have := ad_inj (L := 32) (L' := 32) (oids := [[1], [2]]) (oids' := [[1], [2]])
    (a := [7, 7]) (a' := [7]) (k := [9]) (k' := [7, 9])
    (by intro s hs; simp at hs; rcases hs with rfl | rfl <;> simp [Short])
    (by intro s hs; simp at hs; rcases hs with rfl | rfl <;> simp [Short])
    (by simp [Short]) (by simp [Short]) (by simp [Short]) (by simp [Short])
    (by decide) (by decide) h
  simp at this

/-- the five OIDs used as algorithm ids and the seed literal are pairwise different -/
def AlgIdsDistinct (oids : List Bytes) : Prop :=
  ([Kind.aead, .decap, .mac, .prk, .seed, .signing].map (algIdBytes oids)).Nodup

instance (oids : List Bytes) : Decidable (AlgIdsDistinct oids) := by
  unfold AlgIdsDistinct; infer_instance

/-- with pairwise different OIDs the `T::ID` bytes determine the key kind, so binding them in the
AD binds the kind -/
theorem algIdBytes_inj {oids : List Bytes} (h : AlgIdsDistinct oids) {k k' : Kind}
    (he : algIdBytes oids k = algIdBytes oids k') : k = k' := by
  unfold AlgIdsDistinct at h
  simp only [List.map_cons, List.map_nil, List.nodup_cons, List.mem_cons, List.not_mem_nil,
    or_false, not_or, List.nodup_nil, and_true, not_false_eq_true] at h
  cases k <;> cases k' <;> first | rfl | (exfalso; simp_all)

example : AlgIdsDistinct [[1], [2], [3], [4], [5], [6]] := by decide

/-! ## Symbolic level -/

open AranyaV.Sym

theorem sym_ad_inj {oids : List Term} {T T' : KeyType} {id id' : Term}
    (h : unwrapAd oids T' id' = wrapAd oids T id) : T'.algId = T.algId ∧ id' = id := by
  unfold unwrapAd wrapAd at h
  rw [← adOrder_agree] at h
  have hget := Sym.map_eq_on (thash_inj h).2
  have h1 := hget .algId (wrapAdOrder_complete _)
  have h2 := hget .keyId (wrapAdOrder_complete _)
  simp only [adField, Term.lit.injEq] at h1 h2
  exact ⟨h1, h2⟩

theorem unwrapAd_eq_wrapAd (oids : List Term) (T : KeyType) (id : Term) :
    unwrapAd oids T id = wrapAd oids T id := by
  unfold unwrapAd wrapAd; rw [adOrder_agree]

/-- **Round trip**: unwrapping what the same engine wrapped, as the same key type, returns the
secret. -/
theorem unwrap_wrap (oids : List Term) (ek : Term) (T : KeyType) (id secret n : Term) :
    unwrap oids ek T (wrap oids ek T id secret n) = .ok secret := by
  simp [unwrap, wrap, aeadOpen, unwrapAd_eq_wrapAd]

/-- exact characterisation of acceptance -/
theorem unwrap_ok_iff (oids : List Term) (ek : Term) (T : KeyType) (w : Wrapped) (s : Term) :
    unwrap oids ek T w = .ok s ↔
      w.ct = .enc ek w.nonce (unwrapAd oids T w.id) s ∧
      w.tag = encTag ek w.nonce (unwrapAd oids T w.id) s ∧ T.kind = w.variant := by
  unfold unwrap
  cases h : aeadOpen ek w.nonce (unwrapAd oids T w.id) w.ct w.tag with
  | none =>
    simp only [reduceCtorEq, false_iff, not_and]
    intro h1 h2
    have := aeadOpen_eq_some.mpr ⟨h1, h2⟩
    rw [h] at this; cases this
  | some pt =>
    obtain ⟨h1, h2⟩ := aeadOpen_eq_some.mp h
    by_cases hk : T.kind = w.variant
    · simp only [hk, if_true, UnwrapResult.ok.injEq]
      constructor
      · rintro rfl; exact ⟨h1, h2, trivial⟩
      · rintro ⟨h3, _, _⟩
        rw [h1] at h3
        simp only [Term.enc.injEq, true_and] at h3
        exact h3
    · simp [hk]

/-- **A wrapped key is accepted iff it is exactly an honest wrapping**: under engine key `ek`, as
key type `T`, `w` unwraps to `s` iff `w` is what `wrap` produces under `ek` for type `T`, the id
and nonce it carries, and secret `s`. -/
theorem unwrap_ok_iff_honest (oids : List Term) (ek : Term) (T : KeyType) (w : Wrapped) (s : Term) :
    unwrap oids ek T w = .ok s ↔ w = wrap oids ek T w.id s w.nonce := by
  rw [unwrap_ok_iff]
  constructor
  · rintro ⟨h1, h2, h3⟩
    cases w
    simp only [wrap, Wrapped.mk.injEq, true_and] at *
    rw [← unwrapAd_eq_wrapAd]
    exact ⟨h3.symm, h1, h2⟩
  · intro h
    cases w
    simp only [wrap, Wrapped.mk.injEq, true_and] at h
    simp only
    rw [unwrapAd_eq_wrapAd]
    exact ⟨h.2.1, h.2.2, h.1.symm⟩

/-- If an accepted wrapped key reuses the ciphertext body or the tag of an honest wrapping, then
*nothing* was changed: same engine key, same id, nonce, variant tag, body and tag, and the
requested type has the same algorithm id and kind.  (`halg`: the algorithm-id bytes determine the
kind — `algIdBytes_inj` for a suite with pairwise different OIDs.) -/
theorem unwrap_ok_reuse {oids : List Term} {ek ek' : Term} {T T' : KeyType} {id s n s' : Term}
    {w' : Wrapped} (halg : T'.algId = T.algId → T'.kind = T.kind)
    (hok : unwrap oids ek' T' w' = .ok s')
    (hreuse : w'.ct = (wrap oids ek T id s n).ct ∨ w'.tag = (wrap oids ek T id s n).tag) :
    ek' = ek ∧ w' = wrap oids ek T id s n ∧ T'.algId = T.algId ∧ T'.kind = T.kind ∧ s' = s := by
  obtain ⟨h1, h2, h3⟩ := (unwrap_ok_iff oids ek' T' w' s').mp hok
  have key : ek' = ek ∧ w'.nonce = n ∧ unwrapAd oids T' w'.id = wrapAd oids T id ∧ s' = s := by
    rcases hreuse with h | h
    · rw [h1] at h; simpa [wrap] using h
    · rw [h2] at h; simpa [wrap, encTag] using h
  obtain ⟨rfl, hn, had, rfl⟩ := key
  obtain ⟨ha, hid⟩ := sym_ad_inj had
  have hk := halg ha
  refine ⟨rfl, ?_, ha, hk, rfl⟩
  cases w'
  simp only [wrap, Wrapped.mk.injEq] at *
  subst hn hid
  refine ⟨rfl, rfl, ?_, ?_, ?_⟩
  · rw [← hk, h3]
  · rw [h1, had]
  · rw [h2, had]

/-- **Every modification fails.**  Start from the honest `w = wrap ek T id s n`.  Present any
`w'` that still contains the honest body or tag, under any engine key `ek'`, as any type `T'`.
If anything differs — the engine key, the id, the nonce, the body, the tag, the variant tag, the
requested kind or the requested algorithm id — unwrapping does not succeed. -/
theorem unwrap_fails {oids : List Term} {ek ek' : Term} {T T' : KeyType} {id s n : Term}
    {w' : Wrapped} (halg : T'.algId = T.algId → T'.kind = T.kind)
    (hreuse : w'.ct = (wrap oids ek T id s n).ct ∨ w'.tag = (wrap oids ek T id s n).tag)
    (hchg : ek' ≠ ek ∨ w'.id ≠ id ∨ w'.nonce ≠ n ∨ w'.ct ≠ (wrap oids ek T id s n).ct ∨
      w'.tag ≠ (wrap oids ek T id s n).tag ∨ w'.variant ≠ T.kind ∨ T'.kind ≠ T.kind ∨
      T'.algId ≠ T.algId) :
    ∀ s', unwrap oids ek' T' w' ≠ .ok s' := by
  intro s' hok
  obtain ⟨h1, h2, h3, h4, _⟩ := unwrap_ok_reuse halg hok hreuse
  subst h2
  simp only [wrap] at hchg
  rcases hchg with h | h | h | h | h | h | h | h
  · exact h h1
  · exact h rfl
  · exact h rfl
  · exact h rfl
  · exact h rfl
  · exact h rfl
  · exact h h4
  · exact h h3

/-- cross-kind unwrap of an *unmodified* wrapped key never succeeds, whatever the OIDs: even if
two kinds shared their algorithm-id bytes, the explicit `(T::ID, Ciphertext variant)` match
rejects it -/
theorem unwrap_cross_kind_fails (oids : List Term) (ek : Term) (T T' : KeyType) (id s n : Term)
    (hk : T'.kind ≠ T.kind) : ∀ s', unwrap oids ek T' (wrap oids ek T id s n) ≠ .ok s' := by
  intro s' hok
  have := ((unwrap_ok_iff oids ek T' _ s').mp hok).2.2
  exact hk (by simpa [wrap] using this)

/-- another engine key never opens an honest wrapped key -/
theorem unwrap_wrong_engine_fails (oids : List Term) (ek ek' : Term) (T T' : KeyType) (id s n : Term)
    (he : ek' ≠ ek) : unwrap oids ek' T' (wrap oids ek T id s n) = .openErr := by
  unfold unwrap
  cases h : aeadOpen ek' (wrap oids ek T id s n).nonce (unwrapAd oids T' (wrap oids ek T id s n).id)
      (wrap oids ek T id s n).ct (wrap oids ek T id s n).tag with
  | none => rfl
  | some pt =>
    have := (aeadOpen_eq_some.mp h).1
    simp only [wrap, Term.enc.injEq] at this
    exact absurd this.1.symm he

-- non-vacuity: concrete wrap/unwrap, one modification of each kind
example :
    let oids := [Term.lit [1]]
    let T : KeyType := ⟨.signing, [5]⟩
    let T' : KeyType := ⟨.decap, [3]⟩
    let w := wrap oids (.sk 0) T (.lit [9]) (.sk 7) (.lit [1, 2])
    unwrap oids (.sk 0) T w = .ok (.sk 7) ∧
    unwrap oids (.sk 1) T w = .openErr ∧
    unwrap oids (.sk 0) T' w = .openErr ∧
    unwrap oids (.sk 0) ⟨.decap, [5]⟩ w = .wrongKeyType ∧
    unwrap oids (.sk 0) T { w with id := .lit [8] } = .openErr ∧
    unwrap oids (.sk 0) T { w with nonce := .lit [1, 3] } = .openErr ∧
    unwrap oids (.sk 0) T { w with tag := .lit [0] } = .openErr ∧
    unwrap oids (.sk 0) T { w with ct := .lit [0] } = .openErr ∧
    unwrap oids (.sk 0) T { w with variant := .decap } = .wrongKeyType := by
  decide

end AranyaV.C36
