import AranyaV.Model.Module
import AranyaV.Gen.NondetSites
import AranyaV.Proofs.FactKey
/-!
# C28 — Compiled modules are deterministic and survive serialization  (**partial**)

What is proved (for every module / machine of the model, no size bound):

* `collect_sorted`, `get_collect` — `Machine::from_module` builds name-sorted tables in which every
  definition of the module is found under its name (no definition is lost or confused) when the
  module's tables have no duplicate names (which the compiler guarantees: its tables come out of
  name-keyed maps);
* `collect_perm` — nothing is lost or invented: the machine's table is a permutation of the module's;
* `machine_module_rt` — `Machine.fromModule (M.intoModule) = M` for every well-formed machine;
* `module_roundtrip_any_codec` / `exec_congr` — for ANY encoder/decoder pair that satisfies the
  round-trip law on the module, the decoded module loads into the identical machine, hence every
  function / action / command gives the same results.

What is NOT proved (observed by harness `c28` instead, see notes/C28.md): that the real compiler
is deterministic (it is a 10 kLoC program using `HashMap`s internally), and that the
derive-generated serde / rkyv / ciborium codecs satisfy the round-trip law.
-/
namespace AranyaV.Module
open AranyaV.FactKey

def Sorted {α : Type} (t : Table α) : Prop := t.Pairwise fun a b => blt a.1 b.1 = true
def NoDupNames {α : Type} (t : Table α) : Prop := (t.map (·.1)).Nodup

theorem ins_subset {α : Type} (k : Bytes) (v : α) : ∀ (t : Table α) (e : Bytes × α),
    e ∈ ins k v t → e = (k, v) ∨ e ∈ t
  | [], e, h => by simp [ins] at h; exact Or.inl h
  | (k', v') :: rest, e, h => by
    simp only [ins] at h
    split at h
    · simpa using h
    · split at h
      · rcases List.mem_cons.mp h with h | h
        · exact Or.inl h
        · exact Or.inr (by simp [h])
      · rcases List.mem_cons.mp h with h | h
        · exact Or.inr (by simp [h])
        · rcases ins_subset k v rest e h with h | h
          · exact Or.inl h
          · exact Or.inr (by simp [h])

/-- `BTreeMap::insert` keeps the map sorted -/
theorem ins_sorted {α : Type} (k : Bytes) (v : α) : ∀ (t : Table α), Sorted t → Sorted (ins k v t)
  | [], _ => by simp [ins, Sorted]
  | (k', v') :: rest, h => by
    unfold Sorted at h ⊢
    rw [List.pairwise_cons] at h
    obtain ⟨h1, h2⟩ := h
    simp only [ins]
    split
    next hlt =>
      rw [List.pairwise_cons]
      refine ⟨?_, List.pairwise_cons.mpr ⟨h1, h2⟩⟩
      intro e he
      rcases List.mem_cons.mp he with rfl | he
      · exact hlt
      · exact blt_trans hlt (h1 e he)
    next hlt =>
      split
      next heq => subst heq; exact List.pairwise_cons.mpr ⟨h1, h2⟩
      next hne =>
        have hgt : blt k' k = true := by
          rcases blt_trichotomy k k' with h | h | h
          · exact absurd h hlt
          · exact absurd h hne
          · exact h
        rw [List.pairwise_cons]
        refine ⟨?_, ins_sorted k v rest h2⟩
        intro e he
        rcases ins_subset k v rest e he with rfl | he
        · exact hgt
        · exact h1 e he

theorem foldl_ins_sorted {α : Type} : ∀ (t acc : Table α), Sorted acc →
    Sorted (t.foldl (fun acc kv => ins kv.1 kv.2 acc) acc)
  | [], acc, h => h
  | (k, v) :: rest, acc, h => foldl_ins_sorted rest (ins k v acc) (ins_sorted k v acc h)

/-- the tables of a loaded machine are sorted by name -/
theorem collect_sorted {α : Type} (t : Table α) : Sorted (collect t) :=
  foldl_ins_sorted t [] (by simp [Sorted])

theorem get_ins {α : Type} (k k0 : Bytes) (v : α) : ∀ (t : Table α), Sorted t →
    get k0 (ins k v t) = if k0 = k then some v else get k0 t
  | [], _ => by simp [ins, get]
  | (k', v') :: rest, h => by
    unfold Sorted at h
    rw [List.pairwise_cons] at h
    simp only [ins]
    split
    next hlt => simp [get]
    next hlt =>
      split
      next heq =>
        subst heq
        by_cases h0 : k0 = k <;> simp [get, h0]
      next hne =>
        simp only [get]
        by_cases h1 : k0 = k'
        · subst h1
          have : ¬ k0 = k := fun e => hne e.symm
          simp [this]
        · simp only [h1, if_false]
          exact get_ins k k0 v rest h.2

theorem get_foldl {α : Type} (k0 : Bytes) : ∀ (t acc : Table α), Sorted acc →
    (∀ e ∈ t, e.1 ≠ k0) →
    get k0 (t.foldl (fun acc kv => ins kv.1 kv.2 acc) acc) = get k0 acc
  | [], acc, _, _ => rfl
  | (k, v) :: rest, acc, hs, hne => by
    simp only [List.foldl_cons]
    rw [get_foldl k0 rest (ins k v acc) (ins_sorted k v acc hs) (fun e he => hne e (by simp [he])),
      get_ins k k0 v acc hs]
    have : ¬ k0 = k := fun e => hne (k, v) (by simp) e.symm
    simp [this]

/-- first definition with a given name in a module table -/
def find {α : Type} (k : Bytes) : Table α → Option α
  | [] => none
  | (k', v) :: rest => if k = k' then some v else find k rest

theorem get_foldl_find {α : Type} (k0 : Bytes) : ∀ (t acc : Table α), Sorted acc →
    NoDupNames t → get k0 (t.foldl (fun acc kv => ins kv.1 kv.2 acc) acc)
      = match find k0 t with
        | some v => some v
        | none => get k0 acc
  | [], acc, _, _ => rfl
  | (k, v) :: rest, acc, hs, hnd => by
    unfold NoDupNames at hnd
    simp only [List.map_cons, List.nodup_cons] at hnd
    simp only [List.foldl_cons, find]
    by_cases h : k0 = k
    · subst h
      rw [get_foldl k0 rest _ (ins_sorted k0 v acc hs)
        (fun e he hk => hnd.1 (List.mem_map.mpr ⟨e, he, hk⟩)), get_ins k0 k0 v acc hs]
      simp
    · rw [get_foldl_find k0 rest (ins k v acc) (ins_sorted k v acc hs) hnd.2]
      simp only [h, if_false]
      cases find k0 rest with
      | some w => rfl
      | none => simp [get_ins k k0 v acc hs, h]

/-- **lookup**: in the loaded machine every definition is found under its name, and only those -/
theorem get_collect {α : Type} (t : Table α) (h : NoDupNames t) (k : Bytes) :
    get k (collect t) = find k t := by
  unfold collect
  rw [get_foldl_find k t [] (by simp [Sorted]) h]
  cases find k t <;> simp [get]

/-- inserting a fresh name adds exactly one entry -/
theorem ins_perm {α : Type} (k : Bytes) (v : α) : ∀ (t : Table α), (∀ e ∈ t, e.1 ≠ k) →
    (ins k v t).Perm ((k, v) :: t)
  | [], _ => by simp [ins]
  | (k', v') :: rest, h => by
    have hne : ¬ k = k' := fun e => h (k', v') (by simp) e.symm
    simp only [ins, hne, if_false]
    split
    · exact List.Perm.refl _
    · exact ((ins_perm k v rest (fun e he => h e (by simp [he]))).cons _).trans (List.Perm.swap _ _ _)

theorem foldl_ins_perm {α : Type} : ∀ (t acc : Table α), NoDupNames (t ++ acc) →
    (t.foldl (fun acc kv => ins kv.1 kv.2 acc) acc).Perm (t ++ acc)
  | [], acc, _ => List.Perm.refl _
  | (k, v) :: rest, acc, h => by
    unfold NoDupNames at h
    simp only [List.cons_append, List.map_cons, List.nodup_cons, List.map_append, List.mem_append,
      List.mem_map] at h
    have hfresh : ∀ e ∈ acc, e.1 ≠ k := fun e he hk => h.1 (Or.inr ⟨e, he, hk⟩)
    have hp := ins_perm k v acc hfresh
    have hnd : NoDupNames (rest ++ ins k v acc) := by
      unfold NoDupNames
      have : ((rest ++ ins k v acc).map (·.1)).Perm ((rest ++ (k, v) :: acc).map (·.1)) :=
        (List.Perm.append_left rest hp).map _
      rw [this.nodup_iff]
      simp only [List.map_append, List.map_cons]
      have h2 := h.2
      have : (List.map (·.1) rest ++ k :: List.map (·.1) acc).Perm
          (k :: (List.map (·.1) rest ++ List.map (·.1) acc)) := List.perm_middle
      rw [this.nodup_iff, List.nodup_cons]
      refine ⟨?_, h2⟩
      simp only [List.mem_append, List.mem_map]
      exact h.1
    simp only [List.foldl_cons, List.cons_append]
    exact (foldl_ins_perm rest (ins k v acc) hnd).trans
      ((List.Perm.append_left rest hp).trans List.perm_middle)

/-- **nothing lost, nothing invented**: a loaded table is a permutation of the module's table -/
theorem collect_perm {α : Type} (t : Table α) (h : NoDupNames t) : (collect t).Perm t := by
  have := foldl_ins_perm t [] (by simpa using h)
  simpa [collect] using this

/-- inserting the next name in order appends it -/
theorem ins_last {α : Type} (k : Bytes) (v : α) : ∀ (t : Table α), (∀ e ∈ t, blt e.1 k = true) →
    ins k v t = t ++ [(k, v)]
  | [], _ => rfl
  | (k', v') :: rest, h => by
    have hlt : blt k' k = true := h (k', v') (by simp)
    have h1 : blt k k' = false := blt_asymm hlt
    have h2 : ¬ k = k' := by
      intro e; subst e; rw [blt_irrefl] at hlt; cases hlt
    simp only [ins, h1, Bool.false_eq_true, if_false, h2, List.cons_append]
    rw [ins_last k v rest (fun e he => h e (by simp [he]))]

theorem foldl_ins_sorted_eq {α : Type} : ∀ (t acc : Table α), Sorted (acc ++ t) →
    t.foldl (fun acc kv => ins kv.1 kv.2 acc) acc = acc ++ t
  | [], acc, _ => by simp
  | (k, v) :: rest, acc, h => by
    unfold Sorted at h
    have hall : ∀ e ∈ acc, blt e.1 k = true := by
      intro e he
      have := List.pairwise_append.mp h
      exact this.2.2 e he (k, v) (by simp)
    simp only [List.foldl_cons]
    rw [ins_last k v acc hall, foldl_ins_sorted_eq rest (acc ++ [(k, v)]) (by
      unfold Sorted; simpa [List.append_assoc] using h)]
    simp [List.append_assoc]

/-- collecting an already sorted table changes nothing -/
theorem collect_of_sorted {α : Type} (t : Table α) (h : Sorted t) : collect t = t := by
  have := foldl_ins_sorted_eq t [] (by simpa using h)
  simpa [collect] using this

/-- a machine whose tables are `AutoMap`s (sorted by name) -/
structure Machine.WF {A C F S E R : Type} (m : Machine A C F S E R) : Prop where
  actions : Sorted m.actions
  commands : Sorted m.commands
  facts : Sorted m.facts
  structs : Sorted m.structs
  enums : Sorted m.enums

/-- **machine_module_rt**: writing a machine out as a module and loading it again gives the
identical machine -/
theorem machine_module_rt {A C F S E R : Type} (m : Machine A C F S E R) (h : m.WF) :
    Machine.fromModule m.intoModule = m := by
  obtain ⟨a, c, f, s, e, r⟩ := m
  simp only [Machine.intoModule, Machine.fromModule]
  rw [collect_of_sorted a h.actions, collect_of_sorted c h.commands, collect_of_sorted f h.facts,
    collect_of_sorted s h.structs, collect_of_sorted e h.enums]

/-- every loaded machine is well formed -/
theorem fromModule_wf {A C F S E R : Type} (m : Module A C F S E R) : (Machine.fromModule m).WF :=
  ⟨collect_sorted _, collect_sorted _, collect_sorted _, collect_sorted _, collect_sorted _⟩

/-- loading is idempotent through the module form -/
theorem module_machine_module {A C F S E R : Type} (m : Module A C F S E R) :
    Machine.fromModule (Machine.fromModule m).intoModule = Machine.fromModule m :=
  machine_module_rt _ (fromModule_wf m)

/-- **exec_congr** (stated so that the corollary is explicit): whatever "executing entry point `x`
with inputs `i`" means, identical machines give identical results -/
theorem exec_congr {M X I O : Type} (exec : M → X → I → O) {m₁ m₂ : M} (h : m₁ = m₂) (x : X) (i : I) :
    exec m₁ x i = exec m₂ x i := by rw [h]

/-- the serialization corollary, for ANY codec satisfying the round-trip law on this module (the
law itself is an assumption about the derive-generated serde / rkyv / ciborium code; harness
`c28` exercises it): the decoded module loads into the identical machine and every entry point
gives the same result -/
theorem module_roundtrip_any_codec {A C F S E R W X I O : Type}
    (enc : Module A C F S E R → W) (dec : W → Option (Module A C F S E R))
    (m : Module A C F S E R) (law : dec (enc m) = some m)
    (exec : Machine A C F S E R → X → I → O) (x : X) (i : I) :
    ∃ m', dec (enc m) = some m' ∧ Machine.fromModule m' = Machine.fromModule m ∧
      exec (Machine.fromModule m') x i = exec (Machine.fromModule m) x i :=
  ⟨m, law, rfl, rfl⟩

/-! ## where nondeterminism could enter the real compiler

Determinism of the real compiler is not proved (it is not modelled).  What is pinned, on every run,
is the complete list of places in the non-test code of the compiler / module / ast / lang crates
where run-to-run variation could enter at all — hash-ordered containers and their iteration, clocks,
threads, randomness, environment, pointer addresses — as regenerated from the current source
(`AranyaV.Gen.NondetSites.sites`, by `tools/items/nondet_sites.py`) against the reviewed allow-list
`tools/inventory/C28.json` (`reviewed`; every entry carries the reason why it cannot influence the
emitted module: "lookup only, never iterated", "insertion-ordered", "identity test", …). -/

/-- **no_unreviewed_nondeterminism**: the nondeterminism sources present in the source are exactly
the reviewed ones (same sites, same multiplicities).  A new `HashMap`, a new iteration over one, a
clock, … makes this fail, and `./check C28` then searches for a concrete policy text whose
compilations differ. -/
theorem no_unreviewed_nondeterminism :
    AranyaV.Gen.NondetSites.sites = AranyaV.Gen.NondetSites.reviewed := by decide

/-- the table is not empty: the compiler does use hash containers (all reviewed) -/
example : AranyaV.Gen.NondetSites.sites ≠ [] := by decide

/-! ### non-vacuity -/

example : collect [([98], 2), ([97], 1), ([99], 3)] = [([97], 1), ([98], 2), ([99], 3)] := by decide
example : NoDupNames [([98], 2), ([97], 1), ([99], 3)] := by unfold NoDupNames; decide
example : Sorted (collect [([98], 2), ([97], 1), ([99], 3)]) := collect_sorted _
/-- with a duplicate name the later definition wins and one is lost: `NoDupNames` is needed -/
example : collect [([97], 1), ([97], 2)] = [([97], 2)] := by decide

end AranyaV.Module
