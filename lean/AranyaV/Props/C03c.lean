import AranyaV.Props.C12
import AranyaV.Spec.Braid
/-!
# C03 (part c) — the stored fact state does not depend on the storage layout

Model: `AranyaV.Facts` (`Model/Facts.lean`, the model of C12).

A *linear history* is a list of commands `c₁ … cₙ`, each with the list of fact updates its rule
made.  A *layout* is any way of packing that history into consecutive non-empty segments: the
first group is written as the init segment (`LinearStorage::create`), every further group is
evaluated on a perspective obtained at the head of the previous segment
(`get_linear_perspective`) and written with `Storage::write` — a new fact-index layer on top of
the previous index, the previous index reused when the group wrote nothing, the chain
compacted wherever the depth limit triggers.

`layout_views`: for every layout and every position `k`, the fact view the runtime obtains at
the location of `c_k` (`get_fact_perspective`: the segment's own index at the segment head or
when the segment has no updates, otherwise the segment's recorded prior index with the
per-command updates up to `c_k` replayed) means `replay ∅ (u₁ ++ … ++ u_k)`.
`state_layout_indep`: hence any two layouts of the same history give the same fact state at
every command.  `merge_segment_views`: the same for a history continued on top of an arbitrary
given fact index `F` (a merge segment, whose prior facts are the braid result): views mean
`replay (abs F) (updates up to k)`.
-/
namespace AranyaV.Facts

/-! ## the runtime's way of filling and writing segments -/

/-- a rule's write on the perspective -/
def Persp.applyUpdate (p : Persp) (u : Update) : Persp :=
  match u.2 with
  | some v => p.insert u.1 v
  | none => p.delete u.1

/-- evaluate one command: its rule's writes, then `add_command` -/
def runCmd (p : Persp) (c : Cmd) : Persp := ((c.updates.foldl Persp.applyUpdate p).addCommand c.id).1

/-- evaluate a group of commands on a perspective -/
def fillPersp (p : Persp) (cs : List Cmd) : Persp := cs.foldl runCmd p

/-- write the groups one after the other; `isInit`: the first group becomes the init segment.
Each further group starts from the perspective at the head of the segment just written. -/
def writeSegsFrom (D : Nat) : Persp → Bool → List (List Cmd) → Except Err (List Seg)
  | _, _, [] => .ok []
  | start, isInit, g :: rest =>
    let p := fillPersp start g
    match (if isInit then p.create else p.write D) with
    | .error e => .error e
    | .ok s =>
      match writeSegsFrom D { facts := .overIndex [] s.facts } false rest with
      | .error e => .error e
      | .ok l => .ok (s :: l)

/-- a whole graph history from nothing -/
def writeSegs (D : Nat) (gs : List (List Cmd)) : Except Err (List Seg) :=
  writeSegsFrom D { facts := .overNone [] } true gs

/-- `get_fact_perspective` at the `k`-th command of the history (0-based) -/
def viewAt : List Seg → Nat → Except Err FP
  | [], _ => .error .outOfBounds
  | s :: r, k => if k < s.commands.length then s.factPerspective k else viewAt r (k - s.commands.length)

/-- the starting perspective of a follow-up segment is what `get_linear_perspective` returns at
the head of the previous one -/
theorem linearPerspective_head (s : Seg) (h : s.commands ≠ []) :
    s.linearPerspective (s.commands.length - 1) = .ok { facts := .overIndex [] s.facts } := by
  have hl : 0 < s.commands.length := List.length_pos_iff.mpr h
  unfold Seg.linearPerspective
  rw [if_neg (by omega), if_pos (by omega)]

/-! ## filling keeps the invariants -/

theorem replay_append (S : Flat) (a b : List Update) : replay S (a ++ b) = replay (replay S a) b := by
  unfold replay; rw [List.foldl_append]

theorem FP.DepthOK_withMap (D : Nat) (f : FP) (m : FMap) : (f.withMap m).DepthOK D ↔ f.DepthOK D := by
  cases f <;> exact Iff.rfl

theorem FP.DepthOK_insert {D : Nat} {f : FP} (h : f.DepthOK D) (k : Key) (v : Val) :
    (f.insert k v).DepthOK D := (FP.DepthOK_withMap D f _).mpr h

theorem FP.DepthOK_delete {D : Nat} {f : FP} (h : f.DepthOK D) (k : Key) : (f.delete k).DepthOK D := by
  unfold FP.delete; split <;> exact (FP.DepthOK_withMap D f _).mpr h

private theorem clear_insert' (f : FP) (k : Key) (v : Val) : (f.insert k v).clear = f.clear := by
  rw [FP.insert_eq_applyUpdate, FP.clear_applyUpdates]
private theorem clear_delete' (f : FP) (k : Key) : (f.delete k).clear = f.clear := by
  rw [FP.delete_eq_applyUpdate, FP.clear_applyUpdates]

/-- what filling preserves / produces -/
structure FillInv (D : Nat) (p0 p : Persp) (extraCmds : List Cmd) (pending : List Update) : Prop where
  inv : p.Inv
  cmds : p.commands = p0.commands ++ extraCmds
  cur : p.current = p0.current ++ pending
  clear : p.facts.clear = p0.facts.clear
  depth : p.facts.DepthOK D

private theorem applyUpdate_fill {D : Nat} {p0 p : Persp} {cs : List Cmd} {pend : List Update}
    (h : FillInv D p0 p cs pend) (u : Update) : FillInv D p0 (p.applyUpdate u) cs (pend ++ [u]) := by
  obtain ⟨k, s⟩ := u
  cases s with
  | some v =>
    exact ⟨Persp.Inv_insert h.inv k v, h.cmds,
      by show p.current ++ [(k, some v)] = _; rw [h.cur, List.append_assoc],
      by show (p.facts.insert k v).clear = _; rw [clear_insert', h.clear],
      FP.DepthOK_insert h.depth k v⟩
  | none =>
    exact ⟨Persp.Inv_delete h.inv k, h.cmds,
      by show p.current ++ [(k, none)] = _; rw [h.cur, List.append_assoc],
      by show (p.facts.delete k).clear = _; rw [clear_delete', h.clear],
      FP.DepthOK_delete h.depth k⟩

private theorem applyUpdates_fill {D : Nat} {p0 p : Persp} {cs : List Cmd} {pend : List Update}
    (h : FillInv D p0 p cs pend) (us : List Update) :
    FillInv D p0 (us.foldl Persp.applyUpdate p) cs (pend ++ us) := by
  induction us generalizing p pend with
  | nil => simpa using h
  | cons u r ih =>
    rw [List.foldl_cons]
    have := ih (applyUpdate_fill h u)
    simpa [List.append_assoc] using this

private theorem runCmd_fill {D : Nat} {p0 p : Persp} {cs : List Cmd} (hp0 : p0.current = [])
    (h : FillInv D p0 p cs []) (c : Cmd) : FillInv D p0 (runCmd p c) (cs ++ [c]) [] := by
  have h1 := applyUpdates_fill h c.updates
  simp only [List.nil_append] at h1
  unfold runCmd
  refine ⟨Persp.Inv_addCommand h1.inv c.id, ?_, ?_, h1.clear, h1.depth⟩
  · show (c.updates.foldl Persp.applyUpdate p).commands ++ [⟨c.id, (c.updates.foldl Persp.applyUpdate p).current⟩] = _
    rw [h1.cmds, h1.cur, hp0, List.nil_append, List.append_assoc]
  · show ([] : List Update) = _
    rw [hp0]; rfl

private theorem fillPersp_fill {D : Nat} {p0 p : Persp} {cs : List Cmd} (hp0 : p0.current = [])
    (h : FillInv D p0 p cs []) (g : List Cmd) : FillInv D p0 (fillPersp p g) (cs ++ g) [] := by
  unfold fillPersp
  induction g generalizing p cs with
  | nil => simpa using h
  | cons c r ih =>
    rw [List.foldl_cons]
    have := ih (runCmd_fill hp0 h c)
    simpa [List.append_assoc] using this

/-! ## views inside one stored segment -/

/-- `get_fact_perspective` at command `i` of a segment whose index means the replay of all its
commands over `P` and whose recorded `prior_facts` means `P`: the view means the replay of the
commands up to `i` over `P` (head shortcut, no-updates shortcut, and mid-segment replay). -/
theorem Seg.factPerspective_abs (seg : Seg) (P : Flat) (hwf : seg.facts.WF)
    (hpfwf : pfWF seg.priorFacts) (hpf : pfAbs seg.priorFacts = P)
    (hhead : seg.facts.abs = replay P (cmdUpdates seg.commands)) (i : Nat)
    (hi : i < seg.commands.length) :
    ∃ f, seg.factPerspective i = .ok f ∧ f.WF ∧
      f.abs = replay P (cmdUpdates (seg.commands.take (i + 1))) := by
  obtain ⟨_, babs, bwf⟩ := Seg.basePrior_facts seg
  have hidx : (FP.overIndex [] seg.facts).abs = seg.facts.abs := by funext k; rfl
  unfold Seg.factPerspective
  rw [if_neg (by omega)]
  split
  · rename_i hsc
    refine ⟨_, rfl, ⟨Sorted.nil, hwf⟩, ?_⟩
    rw [hidx, hhead]
    rcases hsc with hlast | hall
    · rw [hlast, List.take_length]
    · have h1 := cmdUpdates_nil_of_all_empty hall
      have h2 : cmdUpdates (seg.commands.take (i + 1)) = [] := by
        apply cmdUpdates_nil_of_all_empty
        rw [List.all_eq_true] at hall ⊢
        exact fun x hx => hall x (List.mem_of_mem_take hx)
      rw [h1, h2]
  · refine ⟨_, rfl, ?_, ?_⟩
    · rw [foldl_applyUpdates]
      exact FP.WF_applyUpdates (bwf hpfwf) _
    · rw [foldl_applyUpdates, FP.abs_applyUpdates, babs, hpf]

/-- what one written segment looks like, for the init segment and for a follow-up segment -/
private theorem write_one {D : Nat} (hD : 2 ≤ D) {start : Persp} {isInit : Bool} (g : List Cmd)
    (hg : g ≠ []) (hs : start.Inv) (hc : start.commands = []) (hcur : start.current = [])
    (hm : start.facts.map = []) (hd : start.facts.DepthOK D)
    (hinit : isInit = true → start.facts = .overNone []) :
    ∃ s, (if isInit then (fillPersp start g).create else (fillPersp start g).write D) = .ok s ∧
      s.commands = g ∧ s.facts.WF ∧ DepthOK D s.facts ∧ pfWF s.priorFacts ∧
      pfAbs s.priorFacts = start.facts.abs ∧
      s.facts.abs = replay start.facts.abs (cmdUpdates g) := by
  have h0 : FillInv D start start [] [] := ⟨hs, by simp, by simp, rfl, hd⟩
  have hf := fillPersp_fill hcur h0 g
  simp only [List.nil_append] at hf
  have hcmds : (fillPersp start g).commands = g := by rw [hf.cmds, hc]; rfl
  have hcur' : (fillPersp start g).current = [] := by rw [hf.cur, hcur]; rfl
  have hprior : (fillPersp start g).facts.priorAbs = start.facts.abs := by
    rw [← FP.abs_clear, hf.clear, FP.abs_clear, FP.priorAbs_eq_abs_of_map_nil hm]
  have habs : (fillPersp start g).facts.abs = replay start.facts.abs (cmdUpdates g) := by
    rw [Persp.abs_eq_replay hf.inv, hprior]
    unfold Persp.allUpdates
    rw [hcmds, hcur', List.append_nil]
  have hne : (fillPersp start g).commands.isEmpty = false := by
    rw [hcmds]; cases g with
    | nil => exact absurd rfl hg
    | cons _ _ => rfl
  cases isInit with
  | true =>
    simp only [if_true]
    unfold Persp.create
    rw [hne]
    simp only [Bool.false_eq_true, if_false]
    -- the init perspective has no prior: its overlay is the whole index
    have hshape : ∃ m, (fillPersp start g).facts = .overNone m := by
      have hcl := hf.clear
      rw [hinit rfl] at hcl
      cases hfp : (fillPersp start g).facts with
      | overNone m => exact ⟨m, rfl⟩
      | overIndex m c => rw [hfp] at hcl; cases hcl
      | overPersp m q => rw [hfp] at hcl; cases hcl
    obtain ⟨m, hm'⟩ := hshape
    have hwfm : Sorted m := by have := hf.inv.1; rw [hm'] at this; exact this
    refine ⟨_, rfl, hcmds, ?_, ⟨rfl, (by show 1 ≤ D; omega), trivial⟩, trivial, ?_, ?_⟩
    · rw [hm']
      exact Chain.WF_cons.mpr ⟨hwfm, fun _ h => by cases h⟩
    · rw [hinit rfl]; rfl
    · rw [← habs, hm']
      funext k
      rw [Chain.abs_cons]
      unfold FP.abs FP.slot
      simp only [FP.map, FP.priorSlot]
      cases m.get k <;> rfl
  | false =>
    simp only [Bool.false_eq_true, if_false]
    obtain ⟨c, pf, hw, hdc, _, _⟩ := depth_bound hD hf.inv.1 hf.depth
    obtain ⟨hcwf, hcabs, hpf, hpfwf, _⟩ := writeFP_ok hf.inv.1 hw
    unfold Persp.write
    rw [hw]
    simp only [hne, Bool.false_eq_true, if_false]
    exact ⟨_, rfl, hcmds, hcwf, hdc, hpfwf, by rw [hpf, hprior], by rw [hcabs, habs]⟩

/-! ## every layout, every position -/

/-- Generalised form: the history is continued from any fresh perspective `start` (nothing
written yet, empty overlay) — the empty store, or a perspective over an arbitrary index. -/
theorem layout_views_from {D : Nat} (hD : 2 ≤ D) (gs : List (List Cmd)) (hgs : ∀ g ∈ gs, g ≠ [])
    (start : Persp) (isInit : Bool) (hs : start.Inv) (hc : start.commands = [])
    (hcur : start.current = []) (hm : start.facts.map = []) (hd : start.facts.DepthOK D)
    (hinit : isInit = true → start.facts = .overNone []) :
    ∃ segs, writeSegsFrom D start isInit gs = .ok segs ∧
      ∀ k, k < gs.flatten.length → ∃ f, viewAt segs k = .ok f ∧ f.WF ∧
        f.abs = replay start.facts.abs (cmdUpdates (gs.flatten.take (k + 1))) := by
  induction gs generalizing start isInit with
  | nil => exact ⟨[], rfl, fun k hk => by simp at hk⟩
  | cons g rest ih =>
    have hg : g ≠ [] := hgs g List.mem_cons_self
    obtain ⟨s, hw, scmds, swf, sdepth, spfwf, spf, shead⟩ :=
      write_one hD g hg hs hc hcur hm hd hinit
    have hnext : Persp.Inv { facts := .overIndex [] s.facts } :=
      Persp.Inv_fresh ⟨Sorted.nil, swf⟩ rfl
    obtain ⟨segs', hw', hv'⟩ := ih (fun g' h' => hgs g' (List.mem_cons_of_mem _ h'))
      { facts := .overIndex [] s.facts } false hnext rfl rfl rfl sdepth (fun h => by cases h)
    refine ⟨s :: segs', ?_, ?_⟩
    · unfold writeSegsFrom
      simp only
      rw [hw]
      simp only
      rw [hw']
    · intro k hk
      have hstart' : (FP.overIndex [] s.facts).abs = replay start.facts.abs (cmdUpdates g) := by
        rw [← shead]; funext k; rfl
      unfold viewAt
      rw [scmds]
      rw [List.flatten_cons] at hk ⊢
      by_cases hlt : k < g.length
      · rw [if_pos hlt]
        obtain ⟨f, h1, h2, h3⟩ := Seg.factPerspective_abs s start.facts.abs swf spfwf spf
          (by rw [scmds]; exact shead) k (by rw [scmds]; exact hlt)
        refine ⟨f, h1, h2, ?_⟩
        rw [h3, scmds, List.take_append_of_le_length (by omega)]
      · rw [if_neg hlt]
        rw [List.length_append] at hk
        obtain ⟨f, h1, h2, h3⟩ := hv' (k - g.length) (by omega)
        refine ⟨f, h1, h2, ?_⟩
        rw [h3]
        show replay (FP.overIndex [] s.facts).abs _ = _
        have e : (g ++ rest.flatten).take (k + 1) = g ++ rest.flatten.take (k - g.length + 1) := by
          rw [List.take_append, List.take_of_length_le (l := g) (by omega)]
          congr 2
          omega
        rw [hstart', ← replay_append, ← cmdUpdates_append, e]

/-- **Every layout, every position.**  For a history packed into consecutive non-empty groups
in any way, all segments are written without error and the view `get_fact_perspective` returns
at the location of the `k`-th command means the replay of the updates of commands `0..=k` on
the empty map. -/
theorem layout_views {D : Nat} (hD : 2 ≤ D) (gs : List (List Cmd)) (hgs : ∀ g ∈ gs, g ≠ []) :
    ∃ segs, writeSegs D gs = .ok segs ∧
      ∀ k, k < gs.flatten.length → ∃ f, viewAt segs k = .ok f ∧ f.WF ∧
        f.abs = replay (fun _ => none) (cmdUpdates (gs.flatten.take (k + 1))) := by
  have hfresh : Persp.Inv { facts := .overNone [] } := Persp.Inv_fresh Sorted.nil rfl
  exact layout_views_from hD gs hgs { facts := .overNone [] } true hfresh rfl rfl rfl trivial
    (fun _ => rfl)

/-- **The stored fact state at a command does not depend on how the commands were packed into
segments and fact-index layers**: two layouts of the same linear history give, at every
position, views with the same meaning (so every exact and prefix query answers the same). -/
theorem state_layout_indep {D : Nat} (hD : 2 ≤ D) (gs1 gs2 : List (List Cmd))
    (h1 : ∀ g ∈ gs1, g ≠ []) (h2 : ∀ g ∈ gs2, g ≠ []) (hsame : gs1.flatten = gs2.flatten) :
    ∃ segs1 segs2, writeSegs D gs1 = .ok segs1 ∧ writeSegs D gs2 = .ok segs2 ∧
      ∀ k, k < gs1.flatten.length → ∃ f1 f2, viewAt segs1 k = .ok f1 ∧ viewAt segs2 k = .ok f2 ∧
        f1.abs = f2.abs ∧ (∀ key, f1.query key = f2.query key) ∧
        (∀ p, f1.queryPrefix p = f2.queryPrefix p) := by
  obtain ⟨segs1, w1, v1⟩ := layout_views hD gs1 h1
  obtain ⟨segs2, w2, v2⟩ := layout_views hD gs2 h2
  refine ⟨segs1, segs2, w1, w2, fun k hk => ?_⟩
  obtain ⟨f1, a1, wf1, b1⟩ := v1 k hk
  obtain ⟨f2, a2, wf2, b2⟩ := v2 k (hsame ▸ hk)
  have habs : f1.abs = f2.abs := by rw [b1, b2, hsame]
  refine ⟨f1, f2, a1, a2, habs, fun key => ?_, fun p => ?_⟩
  · rw [FP.query_eq_abs, FP.query_eq_abs, habs]
  · have q1 := (queryPrefix_eq f1 wf1 [] (fun _ h => by cases h) p).1
    have q2 := (queryPrefix_eq f2 wf2 [] (fun _ h => by cases h) p).1
    rw [habs] at q1
    exact IsPrefixAnswer.unique q1 q2

/-- **Merge segments.**  A merge segment's prior facts are a given fact index `F` (the braid
result handed to `new_merge_perspective`); for every layout of the history that continues on
top of it, views mean the replay of the updates up to `k` on what `F` means. -/
theorem merge_segment_views {D : Nat} (hD : 2 ≤ D) (F : Chain) (hF : F.WF) (hFd : DepthOK D F)
    (gs : List (List Cmd)) (hgs : ∀ g ∈ gs, g ≠ []) :
    ∃ segs, writeSegsFrom D (mergePerspective F) false gs = .ok segs ∧
      ∀ k, k < gs.flatten.length → ∃ f, viewAt segs k = .ok f ∧ f.WF ∧
        f.abs = replay F.abs (cmdUpdates (gs.flatten.take (k + 1))) := by
  have hfresh : Persp.Inv (mergePerspective F) := Persp.Inv_fresh ⟨Sorted.nil, hF⟩ rfl
  obtain ⟨segs, h1, h2⟩ := layout_views_from hD gs hgs (mergePerspective F) false hfresh rfl rfl rfl
    hFd (fun h => by cases h)
  refine ⟨segs, h1, fun k hk => ?_⟩
  obtain ⟨f, a, b, c⟩ := h2 k hk
  exact ⟨f, a, b, by rw [c]; rfl⟩

/-! ## non-vacuity: two layouts of a five-command history, a tombstone, a compaction -/

section Examples

private def k1 : Key := [[97], [1]]
private def k2 : Key := [[97], [2]]

/-- five commands: insert, overwrite + insert, delete (a tombstone over the older layer),
a command without updates, insert of an empty value -/
private def hist5 : List Cmd :=
  [⟨0, [(k1, some [1])]⟩, ⟨1, [(k1, some [2]), (k2, some [3])]⟩, ⟨2, [(k1, none)]⟩, ⟨3, []⟩,
   ⟨4, [(k2, some [])]⟩]

private def layoutA : List (List Cmd) := [hist5.take 2, (hist5.drop 2).take 1, hist5.drop 3]
private def layoutB : List (List Cmd) := [hist5.take 1, (hist5.drop 1).take 3, hist5.drop 4]

example : layoutA.flatten = layoutB.flatten ∧ layoutA ≠ layoutB ∧
    (∀ g ∈ layoutA, g ≠ []) ∧ (∀ g ∈ layoutB, g ≠ []) := by decide

/-- with a depth limit of 2 the third segment of either layout triggers a compaction; views at
every position agree (position 2: `k1` deleted — a tombstone in layout A's second segment, a
mid-segment replay in layout B) -/
private def viewsAgree (D : Nat) : Bool :=
  match writeSegs D layoutA, writeSegs D layoutB with
  | .ok sa, .ok sb =>
    (List.range 5).all fun k =>
      match viewAt sa k, viewAt sb k with
      | .ok fa, .ok fb => [k1, k2].all (fun key => fa.query key == fb.query key) &&
          fa.queryPrefix [[97]] == fb.queryPrefix [[97]]
      | _, _ => false
  | _, _ => false

example : viewsAgree 2 = true ∧ viewsAgree 16 = true := by decide

example : (match writeSegs 2 layoutA with
    | .ok [_, s2, s3] => s2.facts.length == 2 && s3.facts.length == 2 &&
        (match s2.facts with | l :: _ => l.facts == [(k1, none)] | [] => false) &&
        (match viewAt [s2] 0 with | .ok f => f.query k1 == none && f.query k2 == some [3] | _ => false)
    | _ => false) = true := by decide

end Examples

end AranyaV.Facts

/-!
## From the storage layouts to the reference model (`Spec.Braid`)

The audit policy's fact state `Spec.Facts` (the `"f"` facts as an association list and the `"log"`
fact) is encoded as a flat map (`enc`); the writes a command's rule makes on a state are its
update list (`cmdUpd`, the per-command update log of `LinearPerspective`).  Replaying those
updates is running the rule (`replay_cmdUpd`), so:

* `layout_facts_eq_spec`       — for EVERY packing of a linear history (evaluated from the empty
                                 state) into segments / fact-index layers and every depth limit `≥ 2`
                                 (compaction included), the view `get_fact_perspective` returns at the
                                 `k`-th command means the reference state after the first `k+1` commands;
* `merge_layout_facts_eq_spec` — the same for a history continued on a merge segment whose prior index
                                 means the reference state `s0` (the braid result);
* `braid_index_eq_factsOf`     — `evaluate_braid` on the storage model: starting from a view that means
                                 the stored state of the braid's start, applying the update logs of the
                                 commands of the braid order and `write_facts` yields an index that means
                                 `Spec.factsOf g heads` (any perspective shape, compaction included).
Induction over how a store is built (init segment / linear segment on a correct view / merge segment on
a correct braid index) therefore gives: every fact view of every layout means `stateAt`; the three
theorems are the three induction steps.  (A combined store-with-facts model carrying that induction
as one statement is not built.)
-/
namespace AranyaV.FactsBridge
open AranyaV.Facts

/-- key of the fact `("f", [k])` -/
def fKey (k : Nat) : Key := [[102], [k]]
/-- key of the fact `("log", [])` -/
def logKey : Key := [[108, 111, 103]]

def decF : Key → Option Nat
  | [[102], [k]] => some k
  | _ => none

/-- the log value: length-prefixed tags -/
def encLog (l : List String) : Val := l.flatMap (fun t => t.length :: t.toList.map Char.toNat)

/-- `Spec.Facts` as a flat map -/
def enc (s : Spec.Facts) : Flat := fun key =>
  if key = logKey then s.log.map encLog
  else match decF key with
    | some k => (s.f.lookup k).map (fun v => [v])
    | none => none

theorem decF_fKey (k : Nat) : decF (fKey k) = some k := rfl

theorem decF_some {key : Key} {k : Nat} (h : decF key = some k) : key = fKey k := by
  unfold decF at h
  split at h
  · simp only [Option.some.injEq] at h; subst h; rfl
  · cases h

theorem fKey_ne_logKey (k : Nat) : fKey k ≠ logKey := by simp [fKey, logKey]

theorem lookup_cons_if (k' a b : Nat) (l : List (Nat × Nat)) :
    List.lookup k' ((a, b) :: l) = if k' = a then some b else l.lookup k' := by
  rw [List.lookup_cons]
  by_cases h : k' = a
  · simp [h]
  · have : (k' == a) = false := by simpa using h
    simp [h, this]

theorem lookup_insertSorted (k v k' : Nat) (l : List (Nat × Nat)) :
    (Spec.insertSorted k v l).lookup k' = if k' = k then some v else l.lookup k' := by
  induction l with
  | nil => simp only [Spec.insertSorted, lookup_cons_if]
  | cons x xs ih =>
    obtain ⟨a, b⟩ := x
    simp only [Spec.insertSorted]
    by_cases h1 : k < a
    · simp only [h1, if_true, lookup_cons_if]
    · simp only [h1, if_false]
      by_cases h2 : k = a
      · subst h2
        simp only [if_true, lookup_cons_if]
        by_cases h : k' = k <;> simp [h]
      · simp only [h2, if_false, lookup_cons_if, ih]
        by_cases h : k' = k
        · subst h; simp [h2]
        · simp [h]

theorem lookup_filter_ne (k k' : Nat) (l : List (Nat × Nat)) :
    (l.filter (fun e => e.1 != k)).lookup k' = if k' = k then none else l.lookup k' := by
  induction l with
  | nil => by_cases h : k' = k <;> simp [h]
  | cons x xs ih =>
    obtain ⟨a, b⟩ := x
    by_cases ha : a = k
    · subst ha
      have : ((a, b).1 != a) = false := by simp
      rw [List.filter_cons, this]
      simp only [Bool.false_eq_true, if_false, ih, lookup_cons_if]
      by_cases h : k' = a <;> simp [h]
    · have : ((a, b).1 != k) = true := by simpa using ha
      rw [List.filter_cons, this]
      simp only [if_true, lookup_cons_if, ih]
      by_cases h : k' = k
      · subst h
        have : k' ≠ a := fun e => ha e.symm
        simp [this]
      · simp [h]

/-- reading the encoded state: the query for `("f",[k])` is `get k`, the query for `("log",[])` is the log -/
theorem enc_get (s : Spec.Facts) (k : Nat) : enc s (fKey k) = (s.get k).map (fun v => [v]) := by
  unfold enc
  simp [fKey_ne_logKey, decF_fKey, Spec.Facts.get]

theorem enc_logKey (s : Spec.Facts) : enc s logKey = s.log.map encLog := by
  unfold enc; simp

theorem enc_set (s : Spec.Facts) (k v : Nat) :
    update (enc s) (fKey k) (some [v]) = enc { s with f := Spec.insertSorted k v s.f } := by
  funext key
  unfold update enc
  by_cases h1 : key = fKey k
  · subst h1
    simp [fKey_ne_logKey, decF_fKey, lookup_insertSorted]
  · simp only [h1, if_false]
    by_cases h2 : key = logKey
    · simp [h2]
    · simp only [h2, if_false]
      cases hd : decF key with
      | none => rfl
      | some k' =>
        have : k' ≠ k := by intro e; subst e; exact h1 (decF_some hd)
        simp [lookup_insertSorted, this]

theorem enc_del (s : Spec.Facts) (k : Nat) :
    update (enc s) (fKey k) none = enc { s with f := s.f.filter (fun e => e.1 != k) } := by
  funext key
  unfold update enc
  by_cases h1 : key = fKey k
  · subst h1
    simp [fKey_ne_logKey, decF_fKey, lookup_filter_ne]
  · simp only [h1, if_false]
    by_cases h2 : key = logKey
    · simp [h2]
    · simp only [h2, if_false]
      cases hd : decF key with
      | none => rfl
      | some k' =>
        have : k' ≠ k := by intro e; subst e; exact h1 (decF_some hd)
        simp [lookup_filter_ne, this]

theorem enc_log (s : Spec.Facts) (l : List String) :
    update (enc s) logKey (some (encLog l)) = enc { s with log := some l } := by
  funext key
  unfold update enc
  by_cases h2 : key = logKey
  · simp [h2]
  · simp [h2]

/-- the writes of a rule body on a state: one update per `set` / `del` / `append`, up to the first
failing check (what `LinearPerspective` logs for the command) -/
def opsUpdates : List Spec.Op → Spec.RuleSt → List Update
  | [], _ => []
  | op :: rest, st =>
    match op with
    | .set k v => (fKey k, some [v]) ::
        opsUpdates rest { st with facts := { st.facts with f := Spec.insertSorted k v st.facts.f } }
    | .del k => (fKey k, none) ::
        opsUpdates rest { st with facts := { st.facts with f := st.facts.f.filter (·.1 != k) } }
    | .append =>
      let l := match st.facts.log with
        | none => [st.tag]
        | some l => l ++ [st.tag]
      (logKey, some (encLog l)) :: opsUpdates rest { st with facts := { st.facts with log := some l } }
    | .reqAbsent k => if (st.facts.get k).isSome then [] else opsUpdates rest st
    | .reqPresent k => if (st.facts.get k).isNone then [] else opsUpdates rest st
    | .fail => []
    | .emit n => opsUpdates rest { st with effects := st.effects ++ [n] }
    | .tag t => opsUpdates rest { st with tag := t }

theorem replay_cons (S : Flat) (u : Update) (us : List Update) :
    replay S (u :: us) = replay (update S u.1 u.2) us := rfl

theorem replay_opsUpdates : ∀ (ops : List Spec.Op) (st : Spec.RuleSt),
    replay (enc st.facts) (opsUpdates ops st) = enc (Spec.runOps ops st).1.facts := by
  intro ops
  induction ops with
  | nil => intro st; rfl
  | cons op rest ih =>
    intro st
    cases op with
    | set k v =>
      simp only [opsUpdates, Spec.runOps]
      rw [replay_cons, enc_set]; exact ih ⟨_, _, _⟩
    | del k =>
      simp only [opsUpdates, Spec.runOps]
      rw [replay_cons, enc_del]; exact ih ⟨_, _, _⟩
    | append =>
      simp only [opsUpdates, Spec.runOps]
      rw [replay_cons, enc_log]; exact ih ⟨_, _, _⟩
    | reqAbsent k =>
      simp only [opsUpdates, Spec.runOps]
      split
      · rfl
      · exact ih _
    | reqPresent k =>
      simp only [opsUpdates, Spec.runOps]
      split
      · rfl
      · exact ih _
    | fail => rfl
    | emit n => simp only [opsUpdates, Spec.runOps]; exact ih { st with effects := st.effects ++ [n] }
    | tag t => simp only [opsUpdates, Spec.runOps]; exact ih { st with tag := t }

/-- the update log of a command evaluated on the state `s` -/
def cmdUpd (c : Spec.Cmd) (s : Spec.Facts) : List Update := opsUpdates c.body { facts := s, tag := c.tag }

/-- **replaying a command's update log is running its rule** -/
theorem replay_cmdUpd (c : Spec.Cmd) (s : Spec.Facts) :
    replay (enc s) (cmdUpd c s) = enc (Spec.rule c s).1 :=
  replay_opsUpdates c.body { facts := s, tag := c.tag }

/-- the reference state after evaluating a command sequence -/
def runCmds (s : Spec.Facts) (cs : List Spec.Cmd) : Spec.Facts := cs.foldl (fun s c => (Spec.rule c s).1) s

/-- the storage-level history of a command sequence evaluated from `s`: ids and update logs -/
def toHist : Spec.Facts → List Spec.Cmd → List Cmd
  | _, [] => []
  | s, c :: cs => ⟨c.id, cmdUpd c s⟩ :: toHist (Spec.rule c s).1 cs

theorem toHist_length (s : Spec.Facts) (cs : List Spec.Cmd) : (toHist s cs).length = cs.length := by
  induction cs generalizing s with
  | nil => rfl
  | cons c cs ih => simp [toHist, ih]

theorem toHist_take (s : Spec.Facts) (cs : List Spec.Cmd) (k : Nat) :
    (toHist s cs).take k = toHist s (cs.take k) := by
  induction cs generalizing s k with
  | nil => simp [toHist]
  | cons c cs ih =>
    cases k with
    | zero => simp [toHist]
    | succ k => simp [toHist, ih]

theorem replay_toHist (s : Spec.Facts) (cs : List Spec.Cmd) :
    replay (enc s) (cmdUpdates (toHist s cs)) = enc (runCmds s cs) := by
  induction cs generalizing s with
  | nil => rfl
  | cons c cs ih =>
    simp only [toHist, cmdUpdates, List.flatMap_cons, runCmds, List.foldl_cons]
    rw [replay_append, replay_cmdUpd]
    exact ih _

theorem enc_empty : enc {} = fun _ => none := by
  funext key
  unfold enc
  by_cases h : key = logKey
  · simp [h]
  · simp only [h, if_false]
    cases decF key <;> rfl

/-- **`layout_facts_eq_spec`.** Any layout of a linear history evaluated from the empty state: every
view means the reference state. -/
theorem layout_facts_eq_spec {D : Nat} (hD : 2 ≤ D) (cs : List Spec.Cmd) (gs : List (List Cmd))
    (hgs : ∀ g ∈ gs, g ≠ []) (hflat : gs.flatten = toHist {} cs) :
    ∃ segs, writeSegs D gs = .ok segs ∧
      ∀ k, k < cs.length → ∃ f, viewAt segs k = .ok f ∧ f.WF ∧ f.abs = enc (runCmds {} (cs.take (k + 1))) := by
  obtain ⟨segs, hw, hv⟩ := layout_views hD gs hgs
  refine ⟨segs, hw, fun k hk => ?_⟩
  obtain ⟨f, h1, h2, h3⟩ := hv k (by rw [hflat, toHist_length]; exact hk)
  refine ⟨f, h1, h2, ?_⟩
  rw [h3, hflat, toHist_take, ← enc_empty, replay_toHist]

/-- **`merge_layout_facts_eq_spec`.** The same on top of a merge segment whose prior index means `s0`. -/
theorem merge_layout_facts_eq_spec {D : Nat} (hD : 2 ≤ D) (F : Chain) (hF : F.WF) (hFd : DepthOK D F)
    (s0 : Spec.Facts) (hF0 : F.abs = enc s0) (cs : List Spec.Cmd) (gs : List (List Cmd))
    (hgs : ∀ g ∈ gs, g ≠ []) (hflat : gs.flatten = toHist s0 cs) :
    ∃ segs, writeSegsFrom D (mergePerspective F) false gs = .ok segs ∧
      ∀ k, k < cs.length → ∃ f, viewAt segs k = .ok f ∧ f.WF ∧ f.abs = enc (runCmds s0 (cs.take (k + 1))) := by
  obtain ⟨segs, hw, hv⟩ := merge_segment_views hD F hF hFd gs hgs
  refine ⟨segs, hw, fun k hk => ?_⟩
  obtain ⟨f, h1, h2, h3⟩ := hv k (by rw [hflat, toHist_length]; exact hk)
  refine ⟨f, h1, h2, ?_⟩
  rw [h3, hflat, toHist_take, hF0, replay_toHist]

theorem applyOrder_eq_runCmds (g : Spec.Graph) (order : List Nat) (s : Spec.Facts) :
    Spec.applyOrder g order s = runCmds s (order.filterMap g.find?) := by
  unfold Spec.applyOrder runCmds
  induction order generalizing s with
  | nil => rfl
  | cons i rest ih =>
    simp only [List.foldl_cons, List.filterMap_cons]
    cases hf : g.find? i with
    | none => simp only; exact ih s
    | some c => simp only [List.foldl_cons]; exact ih _

theorem depthOK_applyUpdate {D : Nat} {f : FP} (hd : f.DepthOK D) (u : Update) :
    (f.applyUpdate u).DepthOK D := by
  rw [FP.applyUpdate_eq]
  cases u.2 with
  | some v => show (f.insert u.1 v).DepthOK D; cases f <;> exact hd
  | none => show (f.delete u.1).DepthOK D; unfold FP.delete; split <;> (cases f <;> exact hd)

theorem depthOK_applyUpdates {D : Nat} {f : FP} (hd : f.DepthOK D) (us : List Update) :
    (f.applyUpdates us).DepthOK D := by
  unfold FP.applyUpdates
  induction us generalizing f with
  | nil => exact hd
  | cons u r ih => exact ih (depthOK_applyUpdate hd u)

/-- **`braid_index_eq_factsOf`.** `evaluate_braid` on the storage model: from a view `f0` that means
the stored state of the braid's start, apply the update logs of the commands of the braid order
(`apply_updates`: the rule's writes) and `write_facts`; the written index means `factsOf g heads`. -/
theorem braid_index_eq_factsOf {D : Nat} (hD : 2 ≤ D) (g : Spec.Graph) (heads : List Nat)
    (hmulti : ∀ h, heads ≠ [h]) {start : Nat} {order : List Nat} {s : Spec.Facts}
    (hb : Spec.refBraid g heads = .ok (start, order)) (hs : Spec.stateAt g start = .ok s)
    (f0 : FP) (hf0 : f0.WF) (hd0 : f0.DepthOK D) (habs : f0.abs = enc s) :
    ∃ c pf Fs, writeFP D (f0.applyUpdates (cmdUpdates (toHist s (order.filterMap g.find?)))) = .ok (c, pf) ∧
      Spec.factsOf g heads = .ok Fs ∧ c.abs = enc Fs ∧ c.WF ∧ DepthOK D c := by
  have hwf := (applyUpdates_refines f0 hf0 (cmdUpdates (toHist s (order.filterMap g.find?)))).2
  have hdep : (f0.applyUpdates (cmdUpdates (toHist s (order.filterMap g.find?)))).DepthOK D :=
    depthOK_applyUpdates hd0 _
  obtain ⟨c, pf, hw, hdc, _, _⟩ := depth_bound hD hwf hdep
  obtain ⟨hca, hcw, _⟩ := writeFacts_refines hwf hw
  refine ⟨c, pf, Spec.applyOrder g order s, hw, ?_, ?_, hcw, hdc⟩
  · unfold Spec.factsOf
    split
    · rename_i h; exact absurd rfl (hmulti h)
    · rw [hb]; simp only [hs]
  · rw [hca, (applyUpdates_refines f0 hf0 _).1, habs, replay_toHist, applyOrder_eq_runCmds]

/-! ### non-vacuity: a three-command history in two layouts, read back as `Spec` facts -/

private def sc (i : Nat) (ps : List Nat) (b : List Spec.Op) : Spec.Cmd :=
  { id := i, parents := ps, prio := .basic 0, body := b, tag := "t" }

private def hist3 : List Spec.Cmd :=
  [sc 1 [] [.set 0 0, .append], sc 2 [1] [.set 1 5, .del 0], sc 3 [2] [.reqPresent 1, .set 1 6, .append, .fail]]

example : (toHist {} hist3).map (·.updates.length) = [2, 2, 2] := by decide

example : ∃ segsA segsB, writeSegs 2 [(toHist {} hist3).take 1, (toHist {} hist3).drop 1] = .ok segsA ∧
    writeSegs 2 [(toHist {} hist3).take 2, (toHist {} hist3).drop 2] = .ok segsB ∧
    ∀ k, k < 3 → ∃ fa fb, viewAt segsA k = .ok fa ∧ viewAt segsB k = .ok fb ∧
      fa.abs = enc (runCmds {} (hist3.take (k + 1))) ∧ fb.abs = enc (runCmds {} (hist3.take (k + 1))) := by
  obtain ⟨sa, ha, va⟩ := layout_facts_eq_spec (D := 2) (by decide) hist3
    [(toHist {} hist3).take 1, (toHist {} hist3).drop 1] (by decide) (by decide)
  obtain ⟨sb, hb, vb⟩ := layout_facts_eq_spec (D := 2) (by decide) hist3
    [(toHist {} hist3).take 2, (toHist {} hist3).drop 2] (by decide) (by decide)
  refine ⟨sa, sb, ha, hb, fun k hk => ?_⟩
  obtain ⟨fa, h1, _, h2⟩ := va k hk
  obtain ⟨fb, h3, _, h4⟩ := vb k hk
  exact ⟨fa, fb, h1, h3, h2, h4⟩

end AranyaV.FactsBridge

