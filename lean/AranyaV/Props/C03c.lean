import AranyaV.Props.C12
/-!
# C03 (part c) — the stored fact state does not depend on the storage layout

Model: `AranyaV.Facts` (`Model/Facts.lean`, the model of C12).

A *linear history* is a list of commands `c₁ … cₙ`, each with the list of fact updates its rule
made.  A *layout* is any way of packing that history into consecutive non-empty segments: the
first group is written as the init segment (`LinearStorage::create`), every further group is
evaluated on a perspective obtained at the head of the previous segment
(`get_linear_perspective`) and written with `Storage::write` — a new fact-index layer on top of
the previous index, the previous index reused when the group wrote nothing, the chain
compacted wherever the depth limit triggers.

`layout_views`: for every layout and every position `k`, the fact view the runtime obtains at
the location of `c_k` (`get_fact_perspective`: the segment's own index at the segment head or
when the segment has no updates, otherwise the segment's recorded prior index with the
per-command updates up to `c_k` replayed) means `replay ∅ (u₁ ++ … ++ u_k)`.
`state_layout_indep`: hence any two layouts of the same history give the same fact state at
every command.  `merge_segment_views`: the same for a history continued on top of an arbitrary
given fact index `F` (a merge segment, whose prior facts are the braid result): views mean
`replay (abs F) (updates up to k)`.
-/
namespace AranyaV.Facts

/-! ## the runtime's way of filling and writing segments -/

/-- a rule's write on the perspective -/
def Persp.applyUpdate (p : Persp) (u : Update) : Persp :=
  match u.2 with
  | some v => p.insert u.1 v
  | none => p.delete u.1

/-- evaluate one command: its rule's writes, then `add_command` -/
def runCmd (p : Persp) (c : Cmd) : Persp := ((c.updates.foldl Persp.applyUpdate p).addCommand c.id).1

/-- evaluate a group of commands on a perspective -/
def fillPersp (p : Persp) (cs : List Cmd) : Persp := cs.foldl runCmd p

/-- write the groups one after the other; `isInit`: the first group becomes the init segment.
Each further group starts from the perspective at the head of the segment just written. -/
def writeSegsFrom (D : Nat) : Persp → Bool → List (List Cmd) → Except Err (List Seg)
  | _, _, [] => .ok []
  | start, isInit, g :: rest =>
    let p := fillPersp start g
    match (if isInit then p.create else p.write D) with
    | .error e => .error e
    | .ok s =>
      match writeSegsFrom D { facts := .overIndex [] s.facts } false rest with
      | .error e => .error e
      | .ok l => .ok (s :: l)

/-- a whole graph history from nothing -/
def writeSegs (D : Nat) (gs : List (List Cmd)) : Except Err (List Seg) :=
  writeSegsFrom D { facts := .overNone [] } true gs

/-- `get_fact_perspective` at the `k`-th command of the history (0-based) -/
def viewAt : List Seg → Nat → Except Err FP
  | [], _ => .error .outOfBounds
  | s :: r, k => if k < s.commands.length then s.factPerspective k else viewAt r (k - s.commands.length)

/-- the starting perspective of a follow-up segment is what `get_linear_perspective` returns at
the head of the previous one -/
theorem linearPerspective_head (s : Seg) (h : s.commands ≠ []) :
    s.linearPerspective (s.commands.length - 1) = .ok { facts := .overIndex [] s.facts } := by
  have hl : 0 < s.commands.length := List.length_pos_iff.mpr h
  unfold Seg.linearPerspective
  rw [if_neg (by omega), if_pos (by omega)]

/-! ## filling keeps the invariants -/

theorem replay_append (S : Flat) (a b : List Update) : replay S (a ++ b) = replay (replay S a) b := by
  unfold replay; rw [List.foldl_append]

theorem FP.DepthOK_withMap (D : Nat) (f : FP) (m : FMap) : (f.withMap m).DepthOK D ↔ f.DepthOK D := by
  cases f <;> exact Iff.rfl

theorem FP.DepthOK_insert {D : Nat} {f : FP} (h : f.DepthOK D) (k : Key) (v : Val) :
    (f.insert k v).DepthOK D := (FP.DepthOK_withMap D f _).mpr h

theorem FP.DepthOK_delete {D : Nat} {f : FP} (h : f.DepthOK D) (k : Key) : (f.delete k).DepthOK D := by
  unfold FP.delete; split <;> exact (FP.DepthOK_withMap D f _).mpr h

private theorem clear_insert' (f : FP) (k : Key) (v : Val) : (f.insert k v).clear = f.clear := by
  rw [FP.insert_eq_applyUpdate, FP.clear_applyUpdates]
private theorem clear_delete' (f : FP) (k : Key) : (f.delete k).clear = f.clear := by
  rw [FP.delete_eq_applyUpdate, FP.clear_applyUpdates]

/-- what filling preserves / produces -/
structure FillInv (D : Nat) (p0 p : Persp) (extraCmds : List Cmd) (pending : List Update) : Prop where
  inv : p.Inv
  cmds : p.commands = p0.commands ++ extraCmds
  cur : p.current = p0.current ++ pending
  clear : p.facts.clear = p0.facts.clear
  depth : p.facts.DepthOK D

private theorem applyUpdate_fill {D : Nat} {p0 p : Persp} {cs : List Cmd} {pend : List Update}
    (h : FillInv D p0 p cs pend) (u : Update) : FillInv D p0 (p.applyUpdate u) cs (pend ++ [u]) := by
  obtain ⟨k, s⟩ := u
  cases s with
  | some v =>
    exact ⟨Persp.Inv_insert h.inv k v, h.cmds,
      by show p.current ++ [(k, some v)] = _; rw [h.cur, List.append_assoc],
      by show (p.facts.insert k v).clear = _; rw [clear_insert', h.clear],
      FP.DepthOK_insert h.depth k v⟩
  | none =>
    exact ⟨Persp.Inv_delete h.inv k, h.cmds,
      by show p.current ++ [(k, none)] = _; rw [h.cur, List.append_assoc],
      by show (p.facts.delete k).clear = _; rw [clear_delete', h.clear],
      FP.DepthOK_delete h.depth k⟩

private theorem applyUpdates_fill {D : Nat} {p0 p : Persp} {cs : List Cmd} {pend : List Update}
    (h : FillInv D p0 p cs pend) (us : List Update) :
    FillInv D p0 (us.foldl Persp.applyUpdate p) cs (pend ++ us) := by
  induction us generalizing p pend with
  | nil => simpa using h
  | cons u r ih =>
    rw [List.foldl_cons]
    have := ih (applyUpdate_fill h u)
    simpa [List.append_assoc] using this

private theorem runCmd_fill {D : Nat} {p0 p : Persp} {cs : List Cmd} (hp0 : p0.current = [])
    (h : FillInv D p0 p cs []) (c : Cmd) : FillInv D p0 (runCmd p c) (cs ++ [c]) [] := by
  have h1 := applyUpdates_fill h c.updates
  simp only [List.nil_append] at h1
  unfold runCmd
  refine ⟨Persp.Inv_addCommand h1.inv c.id, ?_, ?_, h1.clear, h1.depth⟩
  · show (c.updates.foldl Persp.applyUpdate p).commands ++ [⟨c.id, (c.updates.foldl Persp.applyUpdate p).current⟩] = _
    rw [h1.cmds, h1.cur, hp0, List.nil_append, List.append_assoc]
  · show ([] : List Update) = _
    rw [hp0]; rfl

private theorem fillPersp_fill {D : Nat} {p0 p : Persp} {cs : List Cmd} (hp0 : p0.current = [])
    (h : FillInv D p0 p cs []) (g : List Cmd) : FillInv D p0 (fillPersp p g) (cs ++ g) [] := by
  unfold fillPersp
  induction g generalizing p cs with
  | nil => simpa using h
  | cons c r ih =>
    rw [List.foldl_cons]
    have := ih (runCmd_fill hp0 h c)
    simpa [List.append_assoc] using this

/-! ## views inside one stored segment -/

/-- `get_fact_perspective` at command `i` of a segment whose index means the replay of all its
commands over `P` and whose recorded `prior_facts` means `P`: the view means the replay of the
commands up to `i` over `P` (head shortcut, no-updates shortcut, and mid-segment replay). -/
theorem Seg.factPerspective_abs (seg : Seg) (P : Flat) (hwf : seg.facts.WF)
    (hpfwf : pfWF seg.priorFacts) (hpf : pfAbs seg.priorFacts = P)
    (hhead : seg.facts.abs = replay P (cmdUpdates seg.commands)) (i : Nat)
    (hi : i < seg.commands.length) :
    ∃ f, seg.factPerspective i = .ok f ∧ f.WF ∧
      f.abs = replay P (cmdUpdates (seg.commands.take (i + 1))) := by
  obtain ⟨_, babs, bwf⟩ := Seg.basePrior_facts seg
  have hidx : (FP.overIndex [] seg.facts).abs = seg.facts.abs := by funext k; rfl
  unfold Seg.factPerspective
  rw [if_neg (by omega)]
  split
  · rename_i hsc
    refine ⟨_, rfl, ⟨Sorted.nil, hwf⟩, ?_⟩
    rw [hidx, hhead]
    rcases hsc with hlast | hall
    · rw [hlast, List.take_length]
    · have h1 := cmdUpdates_nil_of_all_empty hall
      have h2 : cmdUpdates (seg.commands.take (i + 1)) = [] := by
        apply cmdUpdates_nil_of_all_empty
        rw [List.all_eq_true] at hall ⊢
        exact fun x hx => hall x (List.mem_of_mem_take hx)
      rw [h1, h2]
  · refine ⟨_, rfl, ?_, ?_⟩
    · rw [foldl_applyUpdates]
      exact FP.WF_applyUpdates (bwf hpfwf) _
    · rw [foldl_applyUpdates, FP.abs_applyUpdates, babs, hpf]

/-- what one written segment looks like, for the init segment and for a follow-up segment -/
private theorem write_one {D : Nat} (hD : 2 ≤ D) {start : Persp} {isInit : Bool} (g : List Cmd)
    (hg : g ≠ []) (hs : start.Inv) (hc : start.commands = []) (hcur : start.current = [])
    (hm : start.facts.map = []) (hd : start.facts.DepthOK D)
    (hinit : isInit = true → start.facts = .overNone []) :
    ∃ s, (if isInit then (fillPersp start g).create else (fillPersp start g).write D) = .ok s ∧
      s.commands = g ∧ s.facts.WF ∧ DepthOK D s.facts ∧ pfWF s.priorFacts ∧
      pfAbs s.priorFacts = start.facts.abs ∧
      s.facts.abs = replay start.facts.abs (cmdUpdates g) := by
  have h0 : FillInv D start start [] [] := ⟨hs, by simp, by simp, rfl, hd⟩
  have hf := fillPersp_fill hcur h0 g
  simp only [List.nil_append] at hf
  have hcmds : (fillPersp start g).commands = g := by rw [hf.cmds, hc]; rfl
  have hcur' : (fillPersp start g).current = [] := by rw [hf.cur, hcur]; rfl
  have hprior : (fillPersp start g).facts.priorAbs = start.facts.abs := by
    rw [← FP.abs_clear, hf.clear, FP.abs_clear, FP.priorAbs_eq_abs_of_map_nil hm]
  have habs : (fillPersp start g).facts.abs = replay start.facts.abs (cmdUpdates g) := by
    rw [Persp.abs_eq_replay hf.inv, hprior]
    unfold Persp.allUpdates
    rw [hcmds, hcur', List.append_nil]
  have hne : (fillPersp start g).commands.isEmpty = false := by
    rw [hcmds]; cases g with
    | nil => exact absurd rfl hg
    | cons _ _ => rfl
  cases isInit with
  | true =>
    simp only [if_true]
    unfold Persp.create
    rw [hne]
    simp only [Bool.false_eq_true, if_false]
    -- the init perspective has no prior: its overlay is the whole index
    have hshape : ∃ m, (fillPersp start g).facts = .overNone m := by
      have hcl := hf.clear
      rw [hinit rfl] at hcl
      cases hfp : (fillPersp start g).facts with
      | overNone m => exact ⟨m, rfl⟩
      | overIndex m c => rw [hfp] at hcl; cases hcl
      | overPersp m q => rw [hfp] at hcl; cases hcl
    obtain ⟨m, hm'⟩ := hshape
    have hwfm : Sorted m := by have := hf.inv.1; rw [hm'] at this; exact this
    refine ⟨_, rfl, hcmds, ?_, ⟨rfl, (by show 1 ≤ D; omega), trivial⟩, trivial, ?_, ?_⟩
    · rw [hm']
      exact Chain.WF_cons.mpr ⟨hwfm, fun _ h => by cases h⟩
    · rw [hinit rfl]; rfl
    · rw [← habs, hm']
      funext k
      rw [Chain.abs_cons]
      unfold FP.abs FP.slot
      simp only [FP.map, FP.priorSlot]
      cases m.get k <;> rfl
  | false =>
    simp only [Bool.false_eq_true, if_false]
    obtain ⟨c, pf, hw, hdc, _, _⟩ := depth_bound hD hf.inv.1 hf.depth
    obtain ⟨hcwf, hcabs, hpf, hpfwf, _⟩ := writeFP_ok hf.inv.1 hw
    unfold Persp.write
    rw [hw]
    simp only [hne, Bool.false_eq_true, if_false]
    exact ⟨_, rfl, hcmds, hcwf, hdc, hpfwf, by rw [hpf, hprior], by rw [hcabs, habs]⟩

/-! ## every layout, every position -/

/-- Generalised form: the history is continued from any fresh perspective `start` (nothing
written yet, empty overlay) — the empty store, or a perspective over an arbitrary index. -/
theorem layout_views_from {D : Nat} (hD : 2 ≤ D) (gs : List (List Cmd)) (hgs : ∀ g ∈ gs, g ≠ [])
    (start : Persp) (isInit : Bool) (hs : start.Inv) (hc : start.commands = [])
    (hcur : start.current = []) (hm : start.facts.map = []) (hd : start.facts.DepthOK D)
    (hinit : isInit = true → start.facts = .overNone []) :
    ∃ segs, writeSegsFrom D start isInit gs = .ok segs ∧
      ∀ k, k < gs.flatten.length → ∃ f, viewAt segs k = .ok f ∧ f.WF ∧
        f.abs = replay start.facts.abs (cmdUpdates (gs.flatten.take (k + 1))) := by
  induction gs generalizing start isInit with
  | nil => exact ⟨[], rfl, fun k hk => by simp at hk⟩
  | cons g rest ih =>
    have hg : g ≠ [] := hgs g List.mem_cons_self
    obtain ⟨s, hw, scmds, swf, sdepth, spfwf, spf, shead⟩ :=
      write_one hD g hg hs hc hcur hm hd hinit
    have hnext : Persp.Inv { facts := .overIndex [] s.facts } :=
      Persp.Inv_fresh ⟨Sorted.nil, swf⟩ rfl
    obtain ⟨segs', hw', hv'⟩ := ih (fun g' h' => hgs g' (List.mem_cons_of_mem _ h'))
      { facts := .overIndex [] s.facts } false hnext rfl rfl rfl sdepth (fun h => by cases h)
    refine ⟨s :: segs', ?_, ?_⟩
    · unfold writeSegsFrom
      simp only
      rw [hw]
      simp only
      rw [hw']
    · intro k hk
      have hstart' : (FP.overIndex [] s.facts).abs = replay start.facts.abs (cmdUpdates g) := by
        rw [← shead]; funext k; rfl
      unfold viewAt
      rw [scmds]
      rw [List.flatten_cons] at hk ⊢
      by_cases hlt : k < g.length
      · rw [if_pos hlt]
        obtain ⟨f, h1, h2, h3⟩ := Seg.factPerspective_abs s start.facts.abs swf spfwf spf
          (by rw [scmds]; exact shead) k (by rw [scmds]; exact hlt)
        refine ⟨f, h1, h2, ?_⟩
        rw [h3, scmds, List.take_append_of_le_length (by omega)]
      · rw [if_neg hlt]
        rw [List.length_append] at hk
        obtain ⟨f, h1, h2, h3⟩ := hv' (k - g.length) (by omega)
        refine ⟨f, h1, h2, ?_⟩
        rw [h3]
        show replay (FP.overIndex [] s.facts).abs _ = _
        have e : (g ++ rest.flatten).take (k + 1) = g ++ rest.flatten.take (k - g.length + 1) := by
          rw [List.take_append, List.take_of_length_le (l := g) (by omega)]
          congr 2
          omega
        rw [hstart', ← replay_append, ← cmdUpdates_append, e]

/-- **Every layout, every position.**  For a history packed into consecutive non-empty groups
in any way, all segments are written without error and the view `get_fact_perspective` returns
at the location of the `k`-th command means the replay of the updates of commands `0..=k` on
the empty map. -/
theorem layout_views {D : Nat} (hD : 2 ≤ D) (gs : List (List Cmd)) (hgs : ∀ g ∈ gs, g ≠ []) :
    ∃ segs, writeSegs D gs = .ok segs ∧
      ∀ k, k < gs.flatten.length → ∃ f, viewAt segs k = .ok f ∧ f.WF ∧
        f.abs = replay (fun _ => none) (cmdUpdates (gs.flatten.take (k + 1))) := by
  have hfresh : Persp.Inv { facts := .overNone [] } := Persp.Inv_fresh Sorted.nil rfl
  exact layout_views_from hD gs hgs { facts := .overNone [] } true hfresh rfl rfl rfl trivial
    (fun _ => rfl)

/-- **The stored fact state at a command does not depend on how the commands were packed into
segments and fact-index layers**: two layouts of the same linear history give, at every
position, views with the same meaning (so every exact and prefix query answers the same). -/
theorem state_layout_indep {D : Nat} (hD : 2 ≤ D) (gs1 gs2 : List (List Cmd))
    (h1 : ∀ g ∈ gs1, g ≠ []) (h2 : ∀ g ∈ gs2, g ≠ []) (hsame : gs1.flatten = gs2.flatten) :
    ∃ segs1 segs2, writeSegs D gs1 = .ok segs1 ∧ writeSegs D gs2 = .ok segs2 ∧
      ∀ k, k < gs1.flatten.length → ∃ f1 f2, viewAt segs1 k = .ok f1 ∧ viewAt segs2 k = .ok f2 ∧
        f1.abs = f2.abs ∧ (∀ key, f1.query key = f2.query key) ∧
        (∀ p, f1.queryPrefix p = f2.queryPrefix p) := by
  obtain ⟨segs1, w1, v1⟩ := layout_views hD gs1 h1
  obtain ⟨segs2, w2, v2⟩ := layout_views hD gs2 h2
  refine ⟨segs1, segs2, w1, w2, fun k hk => ?_⟩
  obtain ⟨f1, a1, wf1, b1⟩ := v1 k hk
  obtain ⟨f2, a2, wf2, b2⟩ := v2 k (hsame ▸ hk)
  have habs : f1.abs = f2.abs := by rw [b1, b2, hsame]
  refine ⟨f1, f2, a1, a2, habs, fun key => ?_, fun p => ?_⟩
  · rw [FP.query_eq_abs, FP.query_eq_abs, habs]
  · have q1 := (queryPrefix_eq f1 wf1 [] (fun _ h => by cases h) p).1
    have q2 := (queryPrefix_eq f2 wf2 [] (fun _ h => by cases h) p).1
    rw [habs] at q1
    exact IsPrefixAnswer.unique q1 q2

/-- **Merge segments.**  A merge segment's prior facts are a given fact index `F` (the braid
result handed to `new_merge_perspective`); for every layout of the history that continues on
top of it, views mean the replay of the updates up to `k` on what `F` means. -/
theorem merge_segment_views {D : Nat} (hD : 2 ≤ D) (F : Chain) (hF : F.WF) (hFd : DepthOK D F)
    (gs : List (List Cmd)) (hgs : ∀ g ∈ gs, g ≠ []) :
    ∃ segs, writeSegsFrom D (mergePerspective F) false gs = .ok segs ∧
      ∀ k, k < gs.flatten.length → ∃ f, viewAt segs k = .ok f ∧ f.WF ∧
        f.abs = replay F.abs (cmdUpdates (gs.flatten.take (k + 1))) := by
  have hfresh : Persp.Inv (mergePerspective F) := Persp.Inv_fresh ⟨Sorted.nil, hF⟩ rfl
  obtain ⟨segs, h1, h2⟩ := layout_views_from hD gs hgs (mergePerspective F) false hfresh rfl rfl rfl
    hFd (fun h => by cases h)
  refine ⟨segs, h1, fun k hk => ?_⟩
  obtain ⟨f, a, b, c⟩ := h2 k hk
  exact ⟨f, a, b, by rw [c]; rfl⟩

/-! ## non-vacuity: two layouts of a five-command history, a tombstone, a compaction -/

section Examples

private def k1 : Key := [[97], [1]]
private def k2 : Key := [[97], [2]]

/-- five commands: insert, overwrite + insert, delete (a tombstone over the older layer),
a command without updates, insert of an empty value -/
private def hist5 : List Cmd :=
  [⟨0, [(k1, some [1])]⟩, ⟨1, [(k1, some [2]), (k2, some [3])]⟩, ⟨2, [(k1, none)]⟩, ⟨3, []⟩,
   ⟨4, [(k2, some [])]⟩]

private def layoutA : List (List Cmd) := [hist5.take 2, (hist5.drop 2).take 1, hist5.drop 3]
private def layoutB : List (List Cmd) := [hist5.take 1, (hist5.drop 1).take 3, hist5.drop 4]

example : layoutA.flatten = layoutB.flatten ∧ layoutA ≠ layoutB ∧
    (∀ g ∈ layoutA, g ≠ []) ∧ (∀ g ∈ layoutB, g ≠ []) := by decide

/-- with a depth limit of 2 the third segment of either layout triggers a compaction; views at
every position agree (position 2: `k1` deleted — a tombstone in layout A's second segment, a
mid-segment replay in layout B) -/
private def viewsAgree (D : Nat) : Bool :=
  match writeSegs D layoutA, writeSegs D layoutB with
  | .ok sa, .ok sb =>
    (List.range 5).all fun k =>
      match viewAt sa k, viewAt sb k with
      | .ok fa, .ok fb => [k1, k2].all (fun key => fa.query key == fb.query key) &&
          fa.queryPrefix [[97]] == fb.queryPrefix [[97]]
      | _, _ => false
  | _, _ => false

example : viewsAgree 2 = true ∧ viewsAgree 16 = true := by decide

example : (match writeSegs 2 layoutA with
    | .ok [_, s2, s3] => s2.facts.length == 2 && s3.facts.length == 2 &&
        (match s2.facts with | l :: _ => l.facts == [(k1, none)] | [] => false) &&
        (match viewAt [s2] 0 with | .ok f => f.query k1 == none && f.query k2 == some [3] | _ => false)
    | _ => false) = true := by decide

end Examples

end AranyaV.Facts
