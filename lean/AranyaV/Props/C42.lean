import AranyaV.Proofs.Conc.ShmIds
import AranyaV.Gen.ConcShm
/-!
# C42 — AFC shared-memory channel tables stay consistent

Property theorems for the transition system `AranyaV.Shm` (model of `WriteState` /
`ReadState` over the two mirrored channel lists of
`crates/aranya-fast-channels/src/shm/{shared.rs, write.rs, read.rs}`).  Every theorem is about
**every state reachable from `init cap n` by every schedule** (`Reachable cap n s`): any table
capacity, any number `n` of readers, any sequence of writer operations `add / remove /
remove_all / remove_if p / exists` and reader operations `setup_*_ctx / seal / open / exists`,
interleaved at the granularity of single shared-memory accesses.  No bound on threads,
operations or schedule length.

Level: **partial by nature** — sequentially consistent interleavings only (the adequacy of
the `SeqCst / AcqRel / Acquire / Relaxed` annotations under weak memory is not shown);
the list lock is atomic here (its futex implementation is C43); `remove_if`'s predicate is a
pure function `Chan → Bool` of the channel parameters (the Rust signature allows a stateful
`FnMut`; with a stateful predicate the two copies can diverge); generations and ids are
`Nat` (no wrap of the `u32` generation after 2³² modifications or of the `u64` id).
-/
namespace AranyaV.Shm

/-! ## the model transliterates the source that is there -/

open AranyaV.Gen.ConcShm in
/-- The access skeletons extracted from `write.rs` / `read.rs` / `shared.rs` on this run
(yield-point labels, `lock`s, helper calls, in source order) are the ones the model's control
states were written against — e.g. in `add`: id, `write_off`, lock, generation bump, `len`,
*then* the offset swap, lock, generation bump, `len`, *then* the `write_off` store; in
`clear`: `len` before the generation bump; in `ReadState::seal`: offset load, unsynchronised
generation load, and only then lock, generation load, lookup — together with the source facts
the model encodes (`==` comparison of generations, cache updated only on success, key
re-derived at the cached sequence number, context cleared on `NotFound`, capacity checked
before anything is written). -/
theorem skeleton_matches :
    wAdd = ["nid.inc", "op:fetch_add", "call:write_off", "lock", "gen.inc", "op:fetch_add", "len.set",
      "call:swap_offsets", "lock", "gen.inc", "op:fetch_add", "len.set", "woff.store", "op:store"] ∧
    wRemove = ["call:write_off", "lock", "gen.inc", "op:fetch_add", "call:swap_remove",
      "call:swap_offsets", "lock", "gen.inc", "op:fetch_add", "call:swap_remove", "woff.store", "op:store"] ∧
    wRemoveAll = ["call:write_off", "lock", "call:clear", "call:swap_offsets", "lock", "call:clear",
      "woff.store", "op:store"] ∧
    wRemoveIf = ["call:write_off", "lock", "call:remove_if", "call:swap_offsets", "lock", "call:remove_if",
      "woff.store", "op:store"] ∧
    wExists = ["call:load_write_list", "lock", "call:exists"] ∧
    rSetupSeal = ["call:load_read_list", "lock", "gen.load", "op:load", "call:find_mut"] ∧
    rSetupOpen = ["call:load_read_list", "lock", "gen.load", "op:load", "call:find_mut"] ∧
    rSeal = ["call:load_read_list", "gen.peek", "op:load", "lock", "gen.load", "op:load", "call:find_mut"] ∧
    rOpen = ["call:load_read_list", "gen.peek", "op:load", "lock", "call:find", "gen.load", "op:load"] ∧
    rExists = ["call:load_read_list", "lock", "call:exists"] ∧
    sReadOff = ["roff.load", "op:load"] ∧ sWriteOff = ["woff.load", "op:load"] ∧
    sSwapOffsets = ["roff.swap", "op:swap"] ∧ sClear = ["len.set", "gen.inc", "op:fetch_add"] ∧
    sRemoveIf = ["gen.inc", "op:fetch_add", "call:swap_remove"] ∧ sSwapRemove = ["len.set", "op:swap"] ∧
    sealHitCompare = true ∧ sealUpdatesOnlyOnOk = true ∧ sealRederivesAtCachedSeq = true ∧
    sealClearsCtxOnNotFound = true ∧ setupSealStartsAtZero = true ∧ addChecksCapFirst = true := by
  decide

/-! ## the code never reaches a `Corrupted` / overwritten-slot branch -/

/-- `add` / `remove` reuse on the second list the index found on the first one, and
`swap_remove` / `raw_at` reject an index that does not fit: in no reachable state has such a
branch been taken. -/
theorem no_corrupt {cap n : Nat} {s : State} (h : Reachable cap n s) : s.corrupt = false :=
  (reachable_tinv h).1

/-! ## the two copies agree whenever no writer operation is in progress -/

/-- **Mirror.**  Writer idle ⇒ both lists hold the same channel *sequence* and the same
generation, they are the newest produced table, and `read_off ≠ write_off`. -/
theorem Mirror {cap n : Nat} {s : State} (h : Reachable cap n s) (hw : s.w = .idle) :
    s.a.chans = s.b.chans ∧ s.a.gen = s.b.gen ∧ s.readOff ≠ s.writeOff ∧
      s.hist.getLast? = some s.a.chans := by
  obtain ⟨_, hh, hq⟩ := reachable_tinv h
  rw [hw] at hq
  obtain ⟨hside, hro⟩ := hq
  have ha : s.a = top s.hist := hside false
  have hb : s.b = top s.hist := hside true
  refine ⟨by rw [ha, hb], by rw [ha, hb], by rw [hro]; cases s.writeOff <;> simp, ?_⟩
  rw [ha]; simp only [top]
  cases hl : s.hist.getLast? with
  | none => simp [List.getLast?_eq_none_iff] at hl; exact absurd hl hh
  | some l => rfl

/-- a list the writer does not hold holds the produced table that belongs to its generation -/
theorem rest_hist {cap n : Nat} {s : State} (h : Reachable cap n s) {x : Bool}
    (hx : s.w.holds ≠ some x) :
    s.hist[(s.side x).gen]? = some (s.side x).chans ∧ s.hist.length ≤ (s.side x).gen + 2 :=
  rest_hist_of_tinv (reachable_tinv h) hx

/-- **gen_content.**  Outside a locked mutation, equal generation values imply equal
contents: two lists (or one list at two moments — `hist` only grows) with the same generation
hold the same channel sequence. -/
theorem gen_content {cap n : Nat} {s : State} (h : Reachable cap n s) {x y : Bool}
    (hx : s.w.holds ≠ some x) (hy : s.w.holds ≠ some y)
    (hg : (s.side x).gen = (s.side y).gen) : (s.side x).chans = (s.side y).chans := by
  have h1 := (rest_hist h hx).1
  have h2 := (rest_hist h hy).1
  rw [hg, h2] at h1
  exact (Option.some.inj h1).symm

/-! ## what a reader sees -/

/-- **reader_sees_produced.**  Whenever a reader holds the lock of a list (that is, whenever it
inspects the channels), that list holds a table the writer produced — `hist[k]` — namely the
newest one or the one before it (the table before / after the writer operation in flight),
and `k` is the list's generation. -/
theorem reader_sees_produced {cap n : Nat} {s : State} (h : Reachable cap n s) {i : Nat}
    {r : Reader} {x : Bool} (hr : s.rs[i]? = some r) (hx : r.pc.holds = some x) :
    s.hist[(s.side x).gen]? = some (s.side x).chans ∧ s.hist.length ≤ (s.side x).gen + 2 := by
  have hL := reachable_linv h
  have hhold := hL.2 i r x hr hx
  refine rest_hist h ?_
  intro hw
  have := hL.1 x hw
  rw [this] at hhold; injection hhold with hhold; omega

/-- the writer never mutates a list a reader is looking at -/
theorem reader_excludes_writer {cap n : Nat} {s : State} (h : Reachable cap n s) {i : Nat}
    {r : Reader} {x : Bool} (hr : s.rs[i]? = some r) (hx : r.pc.holds = some x) :
    s.w.holds ≠ some x := by
  have hL := reachable_linv h
  intro hw
  have h1 := hL.1 x hw
  have h2 := hL.2 i r x hr hx
  rw [h1] at h2; injection h2 with h2; omega

/-- two readers never hold the same list -/
theorem readers_exclusive {cap n : Nat} {s : State} (h : Reachable cap n s) {i j : Nat}
    {r q : Reader} {x : Bool} (hr : s.rs[i]? = some r) (hq : s.rs[j]? = some q)
    (hx : r.pc.holds = some x) (hy : q.pc.holds = some x) : i = j := by
  have hL := reachable_linv h
  have h1 := hL.2 i r x hr hx
  have h2 := hL.2 j q x hq hy
  rw [h1] at h2; injection h2 with h2; omega

/-! ## channel ids are never reused -/

/-- **ids_fresh.**  (1) every id in any table the writer ever produced — hence in any list a
reader can inspect — is below `next_chan_id`; (2) the id an `add` in flight is about to
insert is below `next_chan_id` and strictly above every id that ever was in a table, so no id
is handed out twice and a removed id never comes back. -/
theorem ids_fresh {cap n : Nat} {s : State} (h : Reachable cap n s) :
    (∀ l ∈ s.hist, ∀ c ∈ l, c.id < s.nextId) ∧
    (∀ x, s.w.holds ≠ some x → ∀ c ∈ (s.side x).chans, c.id < s.nextId) ∧
    (∀ c w, (s.w = .ldW (.add c) ∨ s.w = .lk1 (.add c) w) →
      c.id < s.nextId ∧ ∀ l ∈ s.hist, ∀ c' ∈ l, c'.id < c.id) := by
  obtain ⟨h1, h2, _⟩ := reachable_idinv h
  refine ⟨h1, ?_, ?_⟩
  · intro x hx c hc
    exact h1 _ (List.mem_of_getElem? (rest_hist h hx).1) c hc
  · intro c w hw
    rcases hw with hw | hw <;> exact h2 c.id (by rw [hw]; rfl)

/-- the `nid.inc` step: `add` takes the current `next_chan_id` as its id and increments it -/
theorem add_takes_next_id {s s' : State} {ret : Option Ret} {d p : Nat} (hw : s.w = .nid d p)
    (h : wStep s = some (s', ret)) :
    s'.w = .ldW (.add ⟨s.nextId, d, p⟩) ∧ s'.nextId = s.nextId + 1 := by
  simp only [wStep, hw] at h
  injection h with h; injection h with h _; subst h
  exact ⟨rfl, rfl⟩

/-- the id `add` returns is the id of the channel it inserted -/
theorem add_returns_its_id (cap : Nat) (c : Chan) (sd : Side) :
    (plan cap (.add c) sd).2.2 = .okId c.id ∨ (plan cap (.add c) sd).2.2 = .outOfSpace := by
  simp only [plan]; split <;> simp

/-! ## out of space exactly when the table is full -/

theorem wStep_cap {s s' : State} {ret : Option Ret} (h : wStep s = some (s', ret)) : s'.cap = s.cap := by
  unfold wStep at h
  split at h
  · cases h
  · injection h with h; injection h with h _; subst h; simp
  · injection h with h; injection h with h _; subst h; simp
  · split at h
    · cases h
    · injection h with h; injection h with h _; subst h; simp [lock1]
  · injection h with h; injection h with h _; subst h
    unfold muStep; split <;> simp
  · rename_i w nx r g0 hw
    injection h with h
    cases nx <;> (simp only [unlock1, Prod.mk.injEq] at h; obtain ⟨rfl, _⟩ := h; simp)
  · injection h with h; injection h with h _; subst h; simp [swapOff]
  · split at h
    · cases h
    · injection h with h; injection h with h _; subst h; simp [lock2]
  · injection h with h; injection h with h _; subst h
    unfold muStep; split <;> simp
  · injection h with h; injection h with h _; subst h; simp
  · injection h with h; injection h with h _; subst h; simp [storeOff]

/-- the capacity is a constant of the shared memory -/
theorem reachable_cap {cap n : Nat} {s : State} (h : Reachable cap n s) : s.cap = cap :=
  reachable_ind (P := fun s => s.cap = cap) rfl
    (fun s s' rq _ ih h => by
      unfold wBegin at h; split at h
      · injection h with h; subst h; simpa using ih
      · cases h)
    (fun _ _ _ _ ih h => by rw [wStep_cap h]; exact ih)
    (fun _ _ _ _ _ _ ih h => by rw [← ih]; exact congrArg Tab.cap (rBegin_tab h))
    (fun _ _ _ _ _ ih h => by rw [← ih]; exact congrArg Tab.cap (rStep_tab h)) h


/-- **out_of_space_iff.**  When `add` has taken the lock of its first list, that list is the
common table of both copies, it never holds more than `cap` channels, and the result is
`OutOfSpace` iff it holds exactly `cap` channels; otherwise the result is the new id. -/
theorem out_of_space_iff {cap n : Nat} {s : State} (h : Reachable cap n s) {c : Chan} {w : Bool}
    (hw : s.w = .lk1 (.add c) w) :
    s.side w = top s.hist ∧ s.a = s.b ∧ s.cap = cap ∧ (s.side w).chans.length ≤ s.cap ∧
    ((plan s.cap (.add c) (s.side w)).2.2 = .outOfSpace ↔ (s.side w).chans.length = s.cap) ∧
    ((plan s.cap (.add c) (s.side w)).2.2 = .okId c.id ↔ (s.side w).chans.length < s.cap) := by
  obtain ⟨_, hh, hq⟩ := reachable_tinv h
  obtain ⟨_, _, h3⟩ := reachable_idinv h
  rw [hw] at hq
  have hside := hq.1
  have hlen : (s.side w).chans.length ≤ s.cap := by
    rw [hside w]; exact h3 _ (List.mem_of_getElem? (hist_top_get s.hist hh))
  have hcap : s.cap = cap := reachable_cap h
  refine ⟨hside w, by rw [show s.a = s.side false from rfl, show s.b = s.side true from rfl, hside, hside],
    hcap, hlen, ?_, ?_⟩
  · simp only [plan]; split
    · simp; omega
    · simp; omega
  · simp only [plan]; split
    · simp; omega
    · simp; omega

/-! ## non-vacuity: a concrete schedule with a reader in the middle of an `add` -/

/-- one `add` (13 writer steps), with reader 0 doing `exists 0` between the writer's first
unlock and its offset swap -/
def demoSchedule : List Act :=
  [.wBegin (.add 1 0), .wStep, .wStep, .wStep, .wStep, .wStep, .wStep,
   .rBegin 0 (.exists_ 0), .rStep 0, .rStep 0,
   .wStep]

example : (run (init 2 1) demoSchedule).map (fun s => (s.a, s.b, s.readOff, s.writeOff)) =
    some (⟨0, []⟩, ⟨1, [⟨0, 1, 0⟩]⟩, true, true) := by decide

example : (run (init 2 1) demoSchedule).map (fun s => (s.nextId, s.hist, s.hb)) =
    some (1, [[], [⟨0, 1, 0⟩]], none) := by decide

/-- in that state the reader holds side a (the old table, `hist[0]`), the writer waits for it -/
example : (run (init 2 1) demoSchedule).map (fun s => (s.rs.map (·.pc.holds), s.ha, wStep s |>.isSome)) =
    some ([some false], some 1, false) := by decide

example : ∃ s, Reachable 2 1 s ∧ s.w ≠ .idle ∧ s.a.chans ≠ s.b.chans :=
  match h : run (init 2 1) demoSchedule with
  | some s => ⟨s, reachable_run Reachable.init h, by
      have : (run (init 2 1) demoSchedule).map (fun s => (s.a.chans, s.b.chans)) = some ([], [⟨0, 1, 0⟩]) := by decide
      rw [h] at this; simp at this
      constructor
      · intro hw
        have hm := (Mirror (reachable_run Reachable.init h) hw).1
        rw [this.1, this.2] at hm; cases hm
      · rw [this.1, this.2]; simp⟩
  | none => by
      have : (run (init 2 1) demoSchedule).isSome = true := by decide
      rw [h] at this; cases this

end AranyaV.Shm
