import AranyaV.Proofs.TrxRoot
/-!
# C10 — A graph is bound to its init command

Decision logic of `Transaction::add_commands` / `Transaction::init` (`Model/Trx.lean`:
`addCommands`, `initCmd`, `addLoop`).  `gid` is the transaction's `graph_id`; `In.pol` says whether
the command carries policy bytes.
-/
namespace AranyaV.Trx
open AranyaV.Spec AranyaV.Gen

/-- **init_accept_iff.**  Without a local graph, `add_commands (c :: _)` creates the storage iff `c`
has the graph's id, no parent, a policy, and its rule accepts; the new graph then consists of
exactly `c` (so the graph id is the id of its init command); an empty batch is an `InitError`; and
whenever no storage is created the error is `InitError`, or `Rejected` for a well-formed init whose
rule rejects. -/
theorem init_accept_iff (gid : Nat) (t : Trx) (sink : List SinkEv) (i : In) (rest : List In) :
    ((addCommands gid none t sink (i :: rest)).1.isSome ↔
      (i.cmd.id = gid ∧ i.cmd.parents = [] ∧ i.pol = true ∧ (rule i.cmd {}).2.1 = true)) ∧
    (∀ st, (addCommands gid none t sink (i :: rest)).1 = some st →
      st.graph.map (·.cmd) = [i.cmd] ∧ st.heads = [gid] ∧ i.cmd.id = gid) ∧
    ((addCommands gid none t sink (i :: rest)).1 = none →
      (addCommands gid none t sink (i :: rest)).2.2.2 = .error .initError ∨
      ((addCommands gid none t sink (i :: rest)).2.2.2 = .error .rejected ∧ i.cmd.id = gid ∧
        i.cmd.parents = [] ∧ i.pol = true)) ∧
    (addCommands gid none t sink []).1 = none ∧ (addCommands gid none t sink []).2.2.2 = .error .initError := by
  obtain ⟨h1, h2, h3⟩ := initCmd_spec gid i sink
  unfold addCommands
  simp only
  rcases hi : initCmd gid i sink with ⟨sink', r⟩
  rw [hi] at h1 h2 h3
  simp only at h1 h2 h3
  cases r with
  | error e =>
    simp only [Option.isSome_none, Bool.false_eq_true, false_iff, reduceCtorEq, false_implies, implies_true,
      true_and, and_true]
    refine ⟨?_, ?_⟩
    · rintro ⟨a, b, c, d⟩
      obtain ⟨st, hst⟩ := h2 a b c d
      cases hst
    · intro _
      rcases h3 e rfl with rfl | ⟨rfl, a, b, c⟩
      · exact Or.inl rfl
      · exact Or.inr ⟨rfl, a, b, c⟩
  | ok st0 =>
    obtain ⟨a, b, c, d, e, _⟩ := h1 st0 rfl
    simp only [Option.isSome_some, true_iff, Option.some.injEq, reduceCtorEq, false_implies, and_true]
    refine ⟨⟨a, b, c, d⟩, ?_⟩
    intro st hst
    subst hst
    rw [e]
    exact ⟨rfl, by simp [a], a⟩

/-- **foreign_init_rejected.**  With a graph present, a parentless command whose id is not the
graph's id (and is not the id of a command already present) is refused with `InitError`; the
transaction, the sink and the store are exactly as they were when the loop reached it. -/
theorem foreign_init_rejected (gid : Nat) (st : Store) (t : Trx) (sink : List SinkEv) (i : In) (rest : List In) (n : Nat)
    (hp : i.cmd.parents = []) (hid : i.cmd.id ≠ gid) (hnew : hasId (view st t) i.cmd.id = false) :
    addLoop gid st t sink (i :: rest) n = (t, sink, .error .initError) := by
  unfold addLoop
  rw [dup_iff, hnew]
  simp [hp, hid]

/-- at the client level: the store is not changed by the refused command either -/
theorem foreign_init_store (gid : Nat) (st : Store) (t : Trx) (sink : List SinkEv) (batch : List In) :
    (addCommands gid (some st) t sink batch).1 = some st := by
  simp [addCommands]

/-- **reinit_noop.**  Re-receiving the graph's own init command (a parentless command with the
graph's id) is skipped — it is neither evaluated nor counted — whether or not it is found as a
duplicate. -/
theorem reinit_noop (gid : Nat) (st : Store) (t : Trx) (sink : List SinkEv) (i : In) (rest : List In) (n : Nat)
    (hp : i.cmd.parents = []) (hid : i.cmd.id = gid) :
    addLoop gid st t sink (i :: rest) n = addLoop gid st t sink rest n := by
  conv => lhs; unfold addLoop
  split
  · rfl
  · simp [hp, hid]

/-- after any history the committed graph begins with the init command, whose id is the graph id,
and it is the only parentless command in it -/
theorem graph_id_is_init (gid : Nat) (ops : List Op) {st : Store}
    (hst : (run { gid := gid } ops).store = some st) :
    ∃ c0 rest, st.graph = c0 :: rest ∧ c0.cmd.id = gid ∧ c0.cmd.parents = [] ∧ ∀ d ∈ rest, d.cmd.parents ≠ [] := by
  have hr := (run_root (ClientInv.init gid) (RootInv.init gid) ops).store st hst
  rw [run_gid] at hr
  exact hr

/-- **new_graph_id.**  `new_graph` whose action publishes the init command plus any number of
further commands: on success the graph is stored under `gid` = the id of the FIRST published
command (the parentless init command), the stored graph is exactly the published commands, every
other one has exactly one parent and the last one is the single head; on failure — a rejection
after any number of publishes, nothing published, or the graph already exists — the store is what
it was.  With a graph present it always fails. -/
theorem new_graph_id (gid : Nat) (store : Option Store) (sink : List SinkEv) (pubs : List Cmd) :
    (∃ e sink', newGraph gid store sink pubs = (store, sink', .error e)) ∨
    (store = none ∧ ∃ st' c0 rest last sink', pubs = c0 :: rest ∧ c0.id = gid ∧ c0.parents = [] ∧
      newGraph gid store sink pubs = (some st', sink', .ok ()) ∧ cmds st'.graph = pubs ∧
      st'.graph.getLast? = some last ∧ st'.heads = [last.cmd.id] ∧ st'.stamp = 0 ∧
      (∀ x ∈ (cmds st'.graph).tail, ∃ y, x.parents = [y])) := by
  rcases newGraph_spec gid store sink pubs with h | ⟨h0, st', c0, rest, last, sink', a, b, c, d, e, f, g, h, _, _, k⟩
  · exact Or.inl h
  · exact Or.inr ⟨h0, st', c0, rest, last, sink', a, b, c, d, e, f, g, h, k⟩

theorem new_graph_exists (gid : Nat) (st : Store) (sink : List SinkEv) (pubs : List Cmd) :
    (newGraph gid (some st) sink pubs).1 = some st ∧ ∃ e, (newGraph gid (some st) sink pubs).2.2 = .error e :=
  newGraph_some gid st sink pubs

/-! ## non-vacuity: every first-command shape, and init-like commands in a later batch -/

private def i0 : In := { cmd := { id := 1, parents := [], prio := .init, body := [.set 0 0] }, pol := true }
private def noPol : In := { i0 with pol := false }
private def foreign : In := { cmd := { id := 7, parents := [], prio := .init, body := [.set 0 5] }, pol := true }
private def parented : In := { cmd := { id := 1, parents := [7], prio := .basic 0, body := [] }, pol := true }
private def rejecting : In := { cmd := { id := 1, parents := [], prio := .init, body := [.set 0 0, .fail] }, pol := true }
private def ca : In := { cmd := { id := 2, parents := [1], prio := .basic 0, body := [.set 1 1] }, pol := false }

example : (step (run { gid := 1 } [.openT 0]) (.add 0 [i0, ca])).2 = .count 2 := by decide +kernel
example : (step (run { gid := 1 } [.openT 0]) (.add 0 [noPol])).2 = .err .initError := by decide +kernel
example : (step (run { gid := 1 } [.openT 0]) (.add 0 [foreign])).2 = .err .initError := by decide +kernel
example : (step (run { gid := 1 } [.openT 0]) (.add 0 [parented])).2 = .err .initError := by decide +kernel
example : (step (run { gid := 1 } [.openT 0]) (.add 0 [])).2 = .err .initError := by decide +kernel
example : (step (run { gid := 1 } [.openT 0]) (.add 0 [rejecting])).2 = .err .rejected := by decide +kernel
example : (step (run { gid := 1 } [.openT 0]) (.add 0 [rejecting])).1.store.isSome = false := by decide +kernel
example : (step (run { gid := 1 } [.openT 0, .add 0 [i0]]) (.add 0 [ca, foreign])).2 = .err .initError := by
  decide +kernel
example : (step (run { gid := 1 } [.openT 0, .add 0 [i0]]) (.add 0 [i0, ca, i0])).2 = .count 1 := by decide +kernel

private def n0 : Cmd := { id := 1, parents := [], prio := .init, body := [.set 0 0, .emit 1] }
private def n1 : Cmd := { id := 5, parents := [1], prio := .basic 0, body := [.set 1 1] }
private def n2 : Cmd := { id := 6, parents := [5], prio := .basic 0, body := [.set 2 2] }
private def nx : Cmd := { id := 7, parents := [6], prio := .basic 0, body := [.set 3 3, .emit 9, .fail] }

example : (step { gid := 1 } (.newGraph [n0, n1, n2])).2 = .done := by decide +kernel
example : (step { gid := 1 } (.newGraph [n0, n1, n2])).1.store.map (fun s => (s.graph.map (·.cmd.id), s.heads, s.stamp)) =
    some ([1, 5, 6], [6], 0) := by decide +kernel
example : (step { gid := 1 } (.newGraph [n0, n1, n2, nx])).2 = .err .rejected := by decide +kernel
example : (step { gid := 1 } (.newGraph [n0, n1, n2, nx])).1.store.isSome = false := by decide +kernel
example : (step { gid := 1 } (.newGraph [])).2 = .err .emptyPerspective := by decide +kernel
example : (step (step { gid := 1 } (.newGraph [n0, n1])).1 (.newGraph [n0, n1])).2 = .err .storageExists := by
  decide +kernel
example : (run { gid := 1 } [.newGraph [n0, n1], .openT 0, .add 0 [i0, ca], .commit 0]).store.map
    (fun s => (s.graph.map (·.cmd.id), s.heads)) = some ([1, 5, 2], [2, 5]) := by decide +kernel

end AranyaV.Trx
