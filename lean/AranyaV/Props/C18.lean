import AranyaV.Proofs.SyncMsg
/-!
# C18 — Sync message handling never panics

Property: *decoding and processing any byte string as a sync poll, response, push, subscribe or
hello message either succeeds or returns an error; it never panics, never reads command data
beyond the received bytes, and a requester never accepts commands for a different session or
out of sequence.*

Model: `Model.Postcard` (schema-directed postcard/serde decoder) instantiated with the schemas
generated from the Rust declarations (`Gen.SyncWire`), and `Model.SyncMsg` (`decodeIncoming`,
`Requester.{receive, receivePush, getSyncCommands, poll}`, `Responder.{dispatch, poll}`).
"Never panics": every function below is total into `Except`; the Rust paths contain no
panic-capable construct whose guard is not modelled (`checked_add` → explicit conditions,
`remaining.get(a..b)` → `takeRange`, `result.push(..).assume` → the `bug` outcome shown
unreachable by `slice_no_bug`), and the harness runs the real code under `catch_unwind`.
-/
namespace AranyaV.SyncMsg
open AranyaV.Wire AranyaV.Postcard AranyaV.Gen.SyncWire

/-! ## decoding: total, consumes a prefix, round-trips, bounded vectors -/

/-- **`dec_total`**: decoding any byte string against any schema yields a value and a
remainder, or one of four error classes — nothing else -/
theorem dec_total (s : Schema) (bs : Bytes) :
    (∃ v rest, dec s bs = .ok (v, rest)) ∨ dec s bs = .error .eof ∨
    dec s bs = .error .badVarint ∨ dec s bs = .error .badBool ∨ dec s bs = .error .custom := by
  cases h : dec s bs with
  | ok p => exact Or.inl ⟨p.1, p.2, rfl⟩
  | error e => cases e <;> simp

/-- **`dec_consumes_prefix`**: the remainder returned by the decoder is a suffix of the input,
for every schema — in particular for `SyncType`, `SyncResponseMessage` -/
theorem dec_consumes_prefix (s : Schema) (bs : Bytes) (v : WVal) (rest : Bytes)
    (h : dec s bs = .ok (v, rest)) : ∃ used, bs = used ++ rest :=
  dec_prefix s bs v rest h

/-- the command data of a decoded push is a suffix of the received bytes -/
theorem push_data_is_suffix (data : Bytes) (g : Bytes) (sid : Nat) (msg : ResponseMsg)
    (cd : Bytes) (h : decodeIncoming data = .ok (.push g sid msg cd)) :
    ∃ used, data = used ++ cd := by
  unfold decodeIncoming at h
  split at h
  · cases h
  · rename_i v remaining heq
    split at h
    · rename_i inc hi
      simp only [Except.ok.injEq] at h
      subst h
      rw [interp_push_data hi]
      exact dec_prefix _ _ _ _ heq
    · cases h

/-- **`dec_enc`**: every well-formed message value round-trips through the wire format -/
theorem dec_enc_syncType (v : WVal) (rest : Bytes) (h : wf syncType v = true) :
    dec syncType (enc syncType v ++ rest) = .ok (v, rest) :=
  dec_enc syncType v rest h

theorem dec_enc_response (v : WVal) (rest : Bytes) (h : wf syncResponseMessage v = true) :
    dec syncResponseMessage (enc syncResponseMessage v ++ rest) = .ok (v, rest) :=
  dec_enc syncResponseMessage v rest h

/-- a `SyncResponse { session_id: 2^100+7, response_index: 3, commands: [meta] }` with a
`Basic(9)` command whose parent is `Single(addr)` -/
def exMeta : WVal :=
  .tuple [.bytes (List.replicate 32 1), .variant Priority_Basic (.nat 9),
    .variant Prior_Single (.tuple [.bytes (List.replicate 32 2), .nat 77]), .nat 2, .nat 3]
def exResponse : WVal :=
  .variant SyncResponseMessage_SyncResponse (.tuple [.nat (2 ^ 100 + 7), .nat 3, .seq [exMeta]])

example : wf syncResponseMessage exResponse = true := by decide
example : wf syncType (.variant SyncType_Push (.tuple [exResponse, .bytes (List.replicate 32 5)])) = true := by
  decide

/-- **`vec_bound`**: a `heapless::Vec<_, cap>` field decodes to at most `cap` elements, exactly
as many as announced; an announced length above the capacity is an error, not a truncation -/
theorem vec_bound' (cap : Nat) (s : Schema) (bs : Bytes) :
    (∀ v rest, dec (.vec cap s) bs = .ok (v, rest) →
      ∃ vs len r, v = .seq vs ∧ decVarU 64 bs = .ok (len, r) ∧ vs.length = len ∧ len ≤ cap) ∧
    (∀ len r, decVarU 64 bs = .ok (len, r) → cap < len → ∃ e, dec (.vec cap s) bs = .error e) :=
  ⟨fun v rest h => vec_bound cap s bs v rest h, fun len r h1 h2 => vec_overflow_error cap s bs len r h1 h2⟩

example : COMMAND_RESPONSE_MAX = 100 ∧ COMMAND_SAMPLE_MAX = 100 ∧ REQUEST_MISSING_MAX = 100 := by decide
-- 101 announced `u64`s in a `Vec<u64, 2>`: the third element is decoded, then `push` fails
example : dec (.vec 2 (.varU 64)) [3, 1, 2, 3] = .error .custom := by rfl
example : dec (.vec 2 (.varU 64)) [3, 1, 2] = .error .eof := by rfl

/-! ## slicing of the command bytes -/

/-- **`slices_in_bounds`** (typed form): whenever `get_sync_commands` returns commands, their
policy/payload ranges form a chain of adjacent intervals that starts at offset 0 of the bytes
that followed the message and ends inside them; consequently every range is within bounds and
the ranges are pairwise ordered and disjoint; the lengths are the announced ones. -/
theorem slices_in_bounds (r r' : Requester) (msg : ResponseMsg) (remLen : Nat)
    (out : List CmdOut) (h : r.getSyncCommands msg remLen = (r', .ok (some out))) :
    Chained 0 (ranges out) remLen ∧
    (∀ rg ∈ ranges out, rg.1 ≤ rg.2 ∧ rg.2 ≤ remLen) ∧
    (ranges out).Pairwise (fun r1 r2 => r1.2 ≤ r2.1) ∧
    ∃ s idx ms, msg = .syncResponse s idx ms ∧
      out.map polLen = ms.map (·.policyLen) ∧ out.map dataLen = ms.map (·.len) := by
  obtain ⟨s, idx, ms, rfl⟩ := getSync_other_no_cmds r r' msg remLen out h
  rw [getSync_response] at h
  split at h
  · cases h
  · split at h
    · cases h
    · split at h
      · cases h
      · split at h
        · cases h
        · split at h
          · rename_i out' heq
            simp only [Prod.mk.injEq, Except.ok.injEq, Option.some.injEq] at h
            obtain ⟨_, ho⟩ := h
            subst ho
            have hc := sliceCmds_chained ms remLen 0 0 out' heq (Nat.zero_le _)
            obtain ⟨l1, l2, _⟩ := sliceCmds_lengths ms remLen 0 0 out' heq
            refine ⟨hc, ?_, chained_pairwise _ _ _ hc, s, idx, ms, rfl, l1, l2⟩
            intro rg hrg
            have := (chained_within _ _ _ hc).2 rg hrg
            exact ⟨this.2.1, this.2.2⟩
          · cases h

/-- **`slices_in_bounds`** (byte form): the commands returned by `SyncRequester::receive` are
cut out of the bytes that followed the message, which are themselves a suffix of the received
bytes — nothing beyond the received bytes is read -/
theorem recv_slices_in_received (r r' : Requester) (data remaining : Bytes) (out : List CmdOut)
    (h : r.receive data = (r', .ok (some out), remaining)) :
    (∃ used, data = used ++ remaining) ∧ Chained 0 (ranges out) remaining.length := by
  unfold Requester.receive at h
  split at h
  · cases h
  · rename_i v rem heq
    split at h
    · cases h
    · rename_i msg hm
      simp only [Prod.mk.injEq] at h
      obtain ⟨h1, h2, h3⟩ := h
      subst h3
      have hg : r.getSyncCommands msg rem.length = (r', .ok (some out)) := by
        rw [← h1, ← h2]
      exact ⟨dec_prefix _ _ _ _ heq, (slices_in_bounds r r' msg _ out hg).1⟩

example : (sliceCmds [⟨[], .nat 0, .nat 0, 2, 3⟩, ⟨[], .nat 0, .nat 0, 0, 1⟩] 6 0 0).map ranges
    = .ok [(0, 2), (2, 5), (5, 6)] := by rfl
example : sliceCmds [⟨[], .nat 0, .nat 0, 2, 3⟩, ⟨[], .nat 0, .nat 0, 0, 2⟩] 6 0 0
    = .error .malformedResponse := by rfl
example : sliceCmds [⟨[], .nat 0, .nat 0, 0, 2 ^ 64⟩] 6 0 0 = .error .malformedResponse := by rfl

/-- the `bug` outcome of the slicing loop (`result.push` on a full vector) needs more metas than
the vector that carried them can hold (`vec_bound'`): unreachable -/
theorem slice_no_bug : ∀ (ms : List Meta) (remLen start count : Nat),
    ms.length + count ≤ COMMAND_RESPONSE_MAX → sliceCmds ms remLen start count ≠ .error .bug := by
  intro ms
  induction ms with
  | nil => intro _ _ _ _ h; simp [sliceCmds] at h
  | cons m ms ih =>
    intro remLen start count hlen h
    simp only [List.length_cons] at hlen
    rw [sliceCmds] at h
    split at h
    · cases h
    split at h
    · rename_i e hp
      simp only [Except.error.injEq] at h; subst h
      unfold slicePolicy at hp
      split at hp
      · cases hp
      · split at hp
        · rename_i e' he
          simp only [Except.error.injEq] at hp
          have := takeRange_err he
          rw [this] at hp; cases hp
        · cases hp
    · split at h
      · rename_i e hd
        simp only [Except.error.injEq] at h; subst h
        have := takeRange_err hd
        cases this
      · split at h
        · omega
        · split at h
          · rename_i e he
            simp only [Except.error.injEq] at h; subst h
            exact ih _ _ _ (by omega) he
          · cases h

/-- **fix (parent max cut)**: every command `get_sync_commands` returns has a parent address
whose max cut has a successor, so the consumer (`ClientState::add_commands` →
`CommandExt::max_cut`, `parent.max_cut + 1`) cannot overflow on peer-supplied data; a response
carrying a parent with `max_cut = u64::MAX` is `MalformedResponse` -/
theorem accepted_parents_have_successor (r r' : Requester) (msg : ResponseMsg) (remLen : Nat)
    (out : List CmdOut) (h : r.getSyncCommands msg remLen = (r', .ok (some out))) :
    ∀ c ∈ out, parentHasSuccessor c.parent = true := by
  obtain ⟨s, idx, ms, rfl⟩ := getSync_other_no_cmds r r' msg remLen out h
  rw [getSync_response] at h
  repeat' split at h
  all_goals first
    | (simp only [Prod.mk.injEq, Except.ok.injEq, Option.some.injEq] at h
       rename_i out' heq
       obtain ⟨_, ho⟩ := h
       subst ho
       exact sliceCmds_parents ms remLen 0 0 out' heq)
    | cases h

def maxAddr : WVal := .tuple [.bytes (List.replicate 32 2), .nat (2 ^ 64 - 1)]
example : parentHasSuccessor (.variant Prior_Single maxAddr) = false ∧
    parentHasSuccessor (.variant Prior_Merge (.tuple [.tuple [.bytes [], .nat 5], maxAddr])) = false ∧
    parentHasSuccessor (.variant Prior_Single (.tuple [.bytes [], .nat (2 ^ 64 - 2)])) = true ∧
    parentHasSuccessor (.variant Prior_None (.tuple [])) = true := by decide
example : sliceCmds [⟨[], .nat 0, .variant Prior_Single maxAddr, 0, 0⟩] 0 0 0
    = .error .malformedResponse := by rfl

/-! ## session and sequence checks -/

/-- **`session_checked`**: whatever the message and the state, the requester processes a
message (result `Ok`) only if it carries the requester's session id; otherwise the state is
unchanged and the result is `SessionMismatch` -/
theorem session_checked (r : Requester) (msg : ResponseMsg) (remLen : Nat) :
    (msg.session ≠ r.session → r.getSyncCommands msg remLen = (r, .error .sessionMismatch)) ∧
    (∀ r' x, r.getSyncCommands msg remLen = (r', .ok x) → msg.session = r.session) := by
  constructor
  · intro h; simp [Requester.getSyncCommands, h]
  · intro r' x h
    by_cases hs : msg.session = r.session
    · exact hs
    · simp [Requester.getSyncCommands, hs] at h

/-- **`order_checked`**: commands are returned only for a `SyncResponse` of the requester's
session whose `response_index` is exactly the next expected index, in state `Start`/`Waiting`;
the expected index then advances by one -/
theorem order_checked (r r' : Requester) (msg : ResponseMsg) (remLen : Nat) (out : List CmdOut)
    (h : r.getSyncCommands msg remLen = (r', .ok (some out))) :
    ∃ ms, msg = .syncResponse r.session r.next ms ∧ (r.state = .start ∨ r.state = .waiting) ∧
      r'.next = r.next + 1 ∧ r'.state = .waiting ∧ r'.session = r.session := by
  obtain ⟨s, idx, ms, rfl⟩ := getSync_other_no_cmds r r' msg remLen out h
  rw [getSync_response] at h
  split at h
  · cases h
  · rename_i hs
    split at h
    · cases h
    · rename_i hstate
      split at h
      · cases h
      · rename_i hidx
        split at h
        · cases h
        · split at h
          · simp only [Prod.mk.injEq] at h
            obtain ⟨hr, _⟩ := h
            have e1 : s = r.session := by
              by_cases e : s = r.session
              · exact e
              · exact absurd e hs
            have e2 : idx = r.next := by
              by_cases e : idx = r.next
              · exact e
              · exact absurd e hidx
            have e3 : r.state = .start ∨ r.state = .waiting := by
              by_cases e : r.state = .start ∨ r.state = .waiting
              · exact e
              · exact absurd e hstate
            subst e1; subst e2
            exact ⟨ms, rfl, e3, by rw [← hr], by rw [← hr], by rw [← hr]⟩
          · cases h

/-- the session id and the monotonicity of the expected index are invariants of `receive` -/
theorem step_invariant (r : Requester) (msg : ResponseMsg) (remLen : Nat) :
    (r.getSyncCommands msg remLen).1.session = r.session ∧
    r.next ≤ (r.getSyncCommands msg remLen).1.next ∧
    (r.getSyncCommands msg remLen).1.next ≤ r.next + 1 := by
  cases msg with
  | syncResponse s idx ms =>
    rw [getSync_response]
    repeat' split
    all_goals simp
  | syncEnd s k b =>
    simp only [Requester.getSyncCommands]
    repeat' split
    all_goals simp
  | offer s hd =>
    simp only [Requester.getSyncCommands]
    repeat' split
    all_goals simp
  | endSession s =>
    simp only [Requester.getSyncCommands]
    repeat' split
    all_goals simp

/-- run a requester over a list of `(message, length of the bytes that followed)`; collect the
response indexes for which commands were returned -/
def acceptedIndexes : Requester → List (ResponseMsg × Nat) → List Nat
  | _, [] => []
  | r, (msg, n) :: rest =>
    match r.getSyncCommands msg n with
    | (r', .ok (some _)) => r.next :: acceptedIndexes r' rest
    | (r', _) => acceptedIndexes r' rest

/-- **sequence form of `order_checked`**: over any sequence of received messages (any
sessions, any indexes, any order), the indexes at which commands were accepted are strictly
increasing and never below the requester's starting index: no replay, no reordering -/
theorem accepted_strictly_increasing :
    ∀ (msgs : List (ResponseMsg × Nat)) (r : Requester),
      (∀ i ∈ acceptedIndexes r msgs, r.next ≤ i) ∧
      (acceptedIndexes r msgs).Pairwise (· < ·) := by
  intro msgs
  induction msgs with
  | nil => intro r; simp [acceptedIndexes]
  | cons a msgs ih =>
    intro r
    obtain ⟨msg, n⟩ := a
    have hinv := step_invariant r msg n
    simp only [acceptedIndexes]
    cases hg : r.getSyncCommands msg n with
    | mk r' res =>
      rw [hg] at hinv
      simp only at hinv
      obtain ⟨ih1, ih2⟩ := ih r'
      cases res with
      | error e => exact ⟨fun i hi => by have := ih1 i hi; omega, ih2⟩
      | ok o =>
        cases o with
        | none => exact ⟨fun i hi => by have := ih1 i hi; omega, ih2⟩
        | some out =>
          obtain ⟨_, _, _, hnext, _, _⟩ := order_checked r r' msg n out hg
          constructor
          · intro i hi
            rcases List.mem_cons.mp hi with e | e
            · omega
            · have := ih1 i e; omega
          · refine List.Pairwise.cons ?_ ih2
            intro i hi
            have := ih1 i hi; omega

example : acceptedIndexes (Requester.newSessionId [] 5)
    [(.syncResponse 5 0 [], 0), (.syncResponse 5 0 [], 0), (.syncResponse 6 1 [], 0),
     (.syncResponse 5 2 [], 0), (.syncResponse 5 1 [], 0)] = [0] := by rfl
example : acceptedIndexes (Requester.newSessionId [] 5)
    [(.syncResponse 5 0 [], 0), (.syncResponse 5 1 [], 0), (.syncResponse 5 2 [], 0)] = [0, 1, 2] := by rfl

/-- the responder binds to the first session id it sees and rejects every other one
(`SyncResponder::dispatch`) -/
theorem responder_session_checked (p : Responder) (msg : RequestMsg) :
    (∀ s, p.session = some s → msg.session ≠ s →
      p.dispatch msg = (p, .error .sessionMismatch)) ∧
    (∀ p', p.dispatch msg = (p', .ok ()) →
      p'.session = some msg.session ∧ (p.session = none ∨ p.session = some msg.session)) ∧
    (∀ s, p.session = some s → (p.dispatch msg).1.session = some s) := by
  cases p with
  | mk sess gs st mi =>
    refine ⟨?_, ?_, ?_⟩
    · intro s hs hne
      simp only at hs
      subst hs
      have : ¬ s = msg.session := fun e => hne e.symm
      simp [Responder.dispatch, this]
    · intro p' h
      cases sess with
      | none =>
        cases msg <;> simp [Responder.dispatch, RequestMsg.session] at h ⊢ <;> simp [← h]
      | some s =>
        by_cases e : s = msg.session
        · subst e
          cases msg <;> simp [Responder.dispatch, RequestMsg.session] at h ⊢ <;> simp [← h]
        · cases msg <;> simp [Responder.dispatch, RequestMsg.session] at e h ⊢ <;> simp [e] at h
    · intro s hs
      simp only at hs
      subst hs
      by_cases e : s = msg.session
      · subst e
        cases msg <;> simp [Responder.dispatch, RequestMsg.session]
      · cases msg <;> simp [Responder.dispatch, RequestMsg.session] at e ⊢ <;> simp [e]

/-! ## state machines are total: every state × message has an outcome in a fixed set -/

/-- `get_sync_commands` fails only with these errors; `Bug` needs an index of `u64::MAX` or more
commands than the wire vector can carry -/
theorem slice_err_class : ∀ (ms : List Meta) (remLen start count : Nat) (e : SyncErr),
    sliceCmds ms remLen start count = .error e → e ≠ .bug → e = .malformedResponse := by
  intro ms
  induction ms with
  | nil => intro _ _ _ _ h; simp [sliceCmds] at h
  | cons m ms ih =>
    intro remLen start count e h hb
    rw [sliceCmds] at h
    split at h
    · simp only [Except.error.injEq] at h; exact h.symm
    split at h
    · rename_i e' hp
      simp only [Except.error.injEq] at h; subst h
      unfold slicePolicy at hp
      split at hp
      · cases hp
      · split at hp
        · rename_i e'' he
          simp only [Except.error.injEq] at hp
          rw [← hp]; exact takeRange_err he
        · cases hp
    · split at h
      · rename_i e' hd
        simp only [Except.error.injEq] at h; subst h
        exact takeRange_err hd
      · split at h
        · simp only [Except.error.injEq] at h; exact absurd h.symm hb
        · split at h
          · rename_i e' he
            simp only [Except.error.injEq] at h; subst h
            exact ih _ _ _ _ he hb
          · cases h

theorem recv_error_classes (r r' : Requester) (msg : ResponseMsg) (remLen : Nat) (e : SyncErr)
    (h : r.getSyncCommands msg remLen = (r', .error e)) :
    e = .sessionMismatch ∨ e = .sessionState ∨ e = .missingSyncResponse ∨
    e = .malformedResponse ∨
    (e = .bug ∧ (¬ r.next + 1 < usizeLimit ∨
      ∃ s i ms, msg = .syncResponse s i ms ∧ COMMAND_RESPONSE_MAX < ms.length)) := by
  cases msg with
  | syncResponse s idx ms =>
    rw [getSync_response] at h
    split at h
    · simp only [Prod.mk.injEq, Except.error.injEq] at h; simp [← h.2]
    · split at h
      · simp only [Prod.mk.injEq, Except.error.injEq] at h; simp [← h.2]
      · split at h
        · simp only [Prod.mk.injEq, Except.error.injEq] at h; simp [← h.2]
        · split at h
          · rename_i hov
            simp only [Prod.mk.injEq, Except.error.injEq] at h
            right; right; right; right
            exact ⟨h.2.symm, Or.inl hov⟩
          · split at h
            · simp at h
            · rename_i e' he
              simp only [Prod.mk.injEq, Except.error.injEq] at h
              obtain ⟨_, he'⟩ := h
              subst he'
              by_cases hb : e' = .bug
              · subst hb
                right; right; right; right
                refine ⟨rfl, Or.inr ⟨s, idx, ms, rfl, ?_⟩⟩
                by_cases hl : ms.length + 0 ≤ COMMAND_RESPONSE_MAX
                · exact absurd he (slice_no_bug ms remLen 0 0 hl)
                · omega
              · right; right; right; left
                exact slice_err_class ms remLen 0 0 e' he hb
  | syncEnd s k b =>
    simp only [Requester.getSyncCommands] at h
    repeat' split at h
    all_goals (simp only [Prod.mk.injEq, Except.error.injEq] at h; first | (exact absurd h.2 (by simp)) | simp [← h.2])
  | offer s hd =>
    simp only [Requester.getSyncCommands] at h
    repeat' split at h
    all_goals (simp only [Prod.mk.injEq, Except.error.injEq] at h; first | (exact absurd h.2 (by simp)) | simp [← h.2])
  | endSession s =>
    simp only [Requester.getSyncCommands] at h
    repeat' split at h
    all_goals (simp only [Prod.mk.injEq, Except.error.injEq] at h; first | (exact absurd h.2 (by simp)) | simp [← h.2])

/-- `SyncRequester::poll` and `SyncResponder::{receive, poll}`: one outcome per state, nothing
else (the functions are total; this lists which error goes with which state) -/
theorem poll_total (r : Requester) :
    (r.state = .new ∨ r.state = .resync ∨ r.state = .reset ↔ r.ready = true) ∧
    (r.ready = false → r.poll = (r, .error .notReady)) := by
  cases r with
  | mk s g st mb nx =>
    cases st <;> simp [Requester.ready, Requester.poll]

theorem responder_poll_total (p : Responder) (world : Option Bytes) (more : Bool) :
    (p.ready = false → p.poll world more = (p, .error .notReady)) ∧
    (∀ g, p.state = .start → p.graph = some g → world ≠ some g →
      p.poll world more = ({ p with state := .reset }, .error .noSuchStorage)) := by
  cases p with
  | mk s g st mi =>
    cases st <;> simp [Responder.ready, Responder.poll]
    intro g' hg hw
    subst hg
    simp [hw]

/-- whatever storage contributes (`world`, `more`), a `SyncResponse` written by the responder
carries the responder's bound session id and its current message index, which then advances by
exactly one; no other outcome of `poll` changes the index or the session -/
theorem responder_response_header (p p' : Responder) (world : Option Bytes) (more : Bool) :
    (∀ s i, p.poll world more = (p', .ok (.response s i)) →
      p.session = some s ∧ i = p.msgIndex ∧ p'.msgIndex = p.msgIndex + 1 ∧ p'.session = p.session) ∧
    ((p.poll world more).1.session = p.session) ∧
    (p.msgIndex ≤ (p.poll world more).1.msgIndex ∧ (p.poll world more).1.msgIndex ≤ p.msgIndex + 1) := by
  cases p with
  | mk sess g st mi =>
    refine ⟨?_, ?_, ?_⟩
    · intro s i h
      cases st <;> cases sess <;> cases g <;> cases more <;>
        simp [Responder.poll, Responder.getNext] at h <;>
        (try (split at h <;> simp at h)) <;>
        (try (obtain ⟨h1, h2, h3⟩ := h; subst h1; subst h2; subst h3; simp))
    · cases st <;> cases sess <;> cases g <;> cases more <;>
        simp [Responder.poll, Responder.getNext] <;> (try split) <;> simp
    · cases st <;> cases sess <;> cases g <;> cases more <;>
        simp [Responder.poll, Responder.getNext] <;> (try split) <;> simp

/-- `push` likewise: a pushed `SyncResponse` carries the bound session and the current index -/
theorem responder_push_header (p p' : Responder) (world : Option Bytes) (nonempty : Bool)
    (s i : Nat) (h : p.push world nonempty = (p', .ok (.push s i))) :
    p.session = some s ∧ i = p.msgIndex ∧ p'.msgIndex = p.msgIndex + 1 ∧ p.graph = world := by
  cases p with
  | mk sess g st mi =>
    cases g with
    | none => simp [Responder.push] at h
    | some g =>
      by_cases hw : world = some g
      · subst hw
        cases nonempty <;> cases sess <;> simp [Responder.push] at h
        obtain ⟨h1, h2, h3⟩ := h
        subst h1; subst h2; subst h3; simp
      · simp [Responder.push, hw] at h

/-! ## the model-only `shape` outcome is unreachable -/

/-- `SyncIncoming::decode`: a decoded value always has the shape its schema promises -/
theorem decodeIncoming_no_shape (data : Bytes) : decodeIncoming data ≠ .error .shape := by
  unfold decodeIncoming
  split
  · intro h; cases h
  · rename_i v rem heq
    obtain ⟨m, hm⟩ := interpIncoming_some rem (dec_shaped _ _ _ _ heq)
    simp [hm]

/-- `SyncRequester::receive` never reports `shape` -/
theorem receive_no_shape (r : Requester) (data : Bytes) : (r.receive data).2.1 ≠ .error .shape := by
  unfold Requester.receive
  split
  · intro h; cases h
  · rename_i v rem heq
    obtain ⟨m, hm⟩ := interpResponse_some (dec_shaped _ _ _ _ heq)
    simp only [hm]
    intro h
    cases hg : r.getSyncCommands m rem.length with
    | mk r' res =>
      rw [hg] at h
      simp only at h
      subst h
      rcases recv_error_classes r r' m _ _ hg with e | e | e | e | ⟨e, _⟩ <;> cases e

end AranyaV.SyncMsg
