import AranyaV.Proofs.FramingSeal
import AranyaV.Proofs.SymHpke
import AranyaV.Model.FramingAfc
import AranyaV.Spec.SymAfc
/-!
# C38 — AFC unidirectional channel keys agree only for matching parameters; a device never derives
both ends of one channel

Partial by nature: HPKE (DHKEM, HKDF, AES-GCM) is *symbolic* here.

* **byte level**: the 140-byte `Info` record `"AfcUniKey-v1" ‖ parent ‖ seal_id ‖ open_id ‖ label`
  is injective in the four parameters (`info_inj`), also with the encoded-OID suffix HPKE sees
  (`hpke_info_inj`), and swapping `seal_id` and `open_id` changes it (`info_swap_ne`).
* **symbolic level**: `keys_agree_iff` — the key the author derives from its secret and the key the
  peer derives from the encapsulation coincide iff the peer uses the author's encapsulation, its own
  key is the one the author sealed to, it names the author's key, and both use the same (parent,
  seal_id, open_id, label); `channel_works_iff` — the peer opens the author's messages exactly
  then; `never_both_ends` — decision logic of `UniSecrets::new` (`seal_id ≠ open_id`) and of
  `Handler::uni_channel_created` / `uni_channel_received`: whatever effects a device processes,
  a seal key and an open key it obtains never work together.
-/
namespace AranyaV.C38
open AranyaV.Framing Gen.C38

/-! ## Byte level -/

/-- all four ids have the width of an id -/
def ChanOk (c : ChanBytes) : Prop :=
  c.parent.length = 32 ∧ c.sealId.length = 32 ∧ c.openId.length = 32 ∧ c.label.length = 32

theorem uniLayout_complete : ∀ f : ChanField, ∃ w, (f, w) ∈ uniLayout := by
  intro f; cases f <;> exact ⟨32, by decide⟩

theorem layoutOk_of_chanOk {c : ChanBytes} (h : ChanOk c) : LayoutOk uniLayout c.get := by
  intro p hp
  simp only [uniLayout, List.mem_cons, List.not_mem_nil, or_false] at hp
  obtain ⟨h1, h2, h3, h4⟩ := h
  rcases hp with rfl | rfl | rfl | rfl <;> simp [ChanBytes.get, *]

/-- **The fixed `Info` layout is injective** in (parent command, sealing device, opening device,
label), for all ids — also when followed by arbitrary further bytes. -/
theorem info_inj {c c' : ChanBytes} {r r' : Bytes} (hc : ChanOk c) (hc' : ChanOk c')
    (h : uniInfo c ++ r = uniInfo c' ++ r') : c = c' ∧ r = r' := by
  unfold uniInfo at h
  obtain ⟨hf, hr⟩ := Framing.fixedLayout_inj (layoutOk_of_chanOk hc) (layoutOk_of_chanOk hc') h
  refine ⟨?_, hr⟩
  have h1 := hf (.parent, 32) (by decide)
  have h2 := hf (.sealId, 32) (by decide)
  have h3 := hf (.openId, 32) (by decide)
  have h4 := hf (.label, 32) (by decide)
  simp only [ChanBytes.get] at h1 h2 h3 h4
  cases c; cases c'; simp_all

/-- the info HPKE sees (`Info ‖ encoded OIDs`) determines the channel parameters -/
theorem hpke_info_inj {c c' : ChanBytes} {oids : List Bytes} (hc : ChanOk c) (hc' : ChanOk c')
    (h : hpkeInfo (uniInfo c) oids = hpkeInfo (uniInfo c') oids) : c = c' :=
  (info_inj (r := concatEncoded oids) (r' := concatEncoded oids) hc hc' (by simpa [hpkeInfo] using h)).1

theorem uniInfo_length {c : ChanBytes} (hc : ChanOk c) : (uniInfo c).length = 140 := by
  obtain ⟨h1, h2, h3, h4⟩ := hc
  simp [uniInfo, fixedLayout, uniLayout, uniDomain, ChanBytes.get, h1, h2, h3, h4]

/-- swapping the sealing and the opening device changes the `Info` (the two directions of a pair
of devices never share a key) -/
theorem info_swap_ne {c : ChanBytes} (hc : ChanOk c) (hne : c.sealId ≠ c.openId) :
    uniInfo c ≠ uniInfo { c with sealId := c.openId, openId := c.sealId } := by
  intro h
  have hc' : ChanOk { c with sealId := c.openId, openId := c.sealId } := ⟨hc.1, hc.2.2.1, hc.2.1, hc.2.2.2⟩
  have := (info_inj (r := []) (r' := []) hc hc' (by simpa using h)).1
  exact hne (congrArg ChanBytes.sealId this)

example : uniInfo ⟨List.replicate 32 1, List.replicate 32 2, List.replicate 32 3, List.replicate 32 4⟩ =
    uniDomain ++ List.replicate 32 1 ++ List.replicate 32 2 ++ List.replicate 32 3 ++ List.replicate 32 4 := by
  simp [uniInfo, fixedLayout, uniLayout, ChanBytes.get]

/-! ## Symbolic level -/

open AranyaV.Sym

theorem sym_uniInfo_inj {c c' : Chan} (h : Sym.uniInfo c = Sym.uniInfo c') : c = c' := by
  have := tuple_inj h
  simp only [uniLayout, List.map_cons, List.map_nil, Chan.get, List.cons.injEq, and_true, true_and] at this
  cases c; cases c'; simp_all

/-- **Both sides derive the same key exactly for matching parameters.**  Let the author (secret
`a`, root secret `root`) derive its key for the peer key `peerPk` and channel `c`; let a peer
(secret `p`) derive a key from encapsulation `enc'`, naming `authorPk'` as the author, for channel
`c'`.  The two raw keys coincide iff `enc'` is the author's encapsulation, `peerPk` is `p`'s public
key, `authorPk'` is `a`'s public key and `c' = c` (same parent, sealing device, opening device
and label). -/
theorem keys_agree_iff {a root p : Nat} {peerPk authorPk' enc' : Term} {c c' : Chan}
    {ks kr : HpkeKeys} (hs : authorKey a root peerPk c = some ks)
    (hr : peerKey p authorPk' enc' c' = some kr) :
    kr.key = ks.key ↔ enc' = pkOf root ∧ peerPk = pkOf p ∧ authorPk' = pkOf a ∧ c' = c := by
  unfold authorKey at hs
  unfold peerKey at hr
  split at hs
  · cases hs
  split at hr
  · cases hr
  cases h1 : setupSend (some a) root peerPk (Sym.uniInfo c) with
  | none => simp [h1] at hs
  | some q =>
    obtain ⟨enc, k0⟩ := q
    simp only [h1, Option.map_some, Option.some.injEq] at hs
    subst hs
    have henc : enc = pkOf root := by
      unfold setupSend at h1
      cases h2 : sendShared (some a) root peerPk with
      | none => simp [h2] at h1
      | some z =>
        obtain ⟨_, _, he, _⟩ := sendShared_some (enc := z.1) (sh := z.2) h2
        simp only [h2, Option.map_some, Option.some.injEq, Prod.mk.injEq] at h1
        rw [← h1.1, he]
    subst henc
    rw [setup_key_agree_iff h1 hr]
    simp only [Option.map_some, Option.some.injEq]
    constructor
    · rintro ⟨h3, h4, h5, h6⟩; exact ⟨h3, h4, h5, sym_uniInfo_inj h6⟩
    · rintro ⟨h3, h4, h5, rfl⟩; exact ⟨h3, h4, h5, rfl⟩

/-- equal keys come with equal base nonces: the raw key pairs are then identical -/
theorem keys_agree_full {a root p : Nat} {peerPk authorPk' enc' : Term} {c c' : Chan}
    {ks kr : HpkeKeys} (hs : authorKey a root peerPk c = some ks)
    (hr : peerKey p authorPk' enc' c' = some kr) (hk : kr.key = ks.key) : kr = ks := by
  unfold authorKey at hs
  unfold peerKey at hr
  split at hs
  · cases hs
  split at hr
  · cases hr
  cases h1 : setupSend (some a) root peerPk (Sym.uniInfo c) with
  | none => simp [h1] at hs
  | some q =>
    simp only [h1, Option.map_some, Option.some.injEq] at hs
    subst hs
    exact setup_nonce_of_key (enc := q.1) (ks := q.2) h1 hr hk

/-- the honest peer derives the author's key -/
theorem peer_derives_author_key {a root p : Nat} {c : Chan} (hne : c.sealId ≠ c.openId) :
    ∃ ks, authorKey a root (pkOf p) c = some ks ∧ authorEncap a root (pkOf p) c = some (pkOf root) ∧
      peerKey p (pkOf a) (pkOf root) c = some ks := by
  have hsome : (setupSend (some a) root (pkOf p) (Sym.uniInfo c)).isSome := setupSend_isSome_iff.mpr ⟨p, rfl⟩
  cases h1 : setupSend (some a) root (pkOf p) (Sym.uniInfo c) with
  | none => simp [h1] at hsome
  | some q =>
    obtain ⟨enc, ks⟩ := q
    have henc : enc = pkOf root := by
      unfold setupSend at h1
      rw [sendShared_pk] at h1
      simp only [Option.map_some, Option.some.injEq, Prod.mk.injEq] at h1
      exact h1.1.symm
    subst henc
    refine ⟨ks, by simp [authorKey, hne, h1], by simp [authorEncap, hne, h1], ?_⟩
    have := setupRecv_of_send h1
    simpa [peerKey, hne] using this

/-- AFC seal/open with two raw keys: the message opens iff the keys (and base nonces), the
sequence number and the auth data agree -/
theorem afc_open_seal_iff (ks kr : HpkeKeys) (seq seq' ad ad' pt pt' : Term) :
    afcOpen kr seq' ad' (afcSeal ks seq ad pt).1 (afcSeal ks seq ad pt).2 = some pt' ↔
      kr = ks ∧ seq' = seq ∧ ad' = ad ∧ pt' = pt := by
  unfold afcOpen afcSeal
  rw [aeadOpen_eq_some]
  simp only [Term.enc.injEq, encTag, Term.etag.injEq]
  constructor
  · rintro ⟨⟨h1, h2, h3, h4⟩, _⟩
    have := tuple_inj h2
    simp only [List.cons.injEq, and_true] at this
    cases ks; cases kr
    simp_all
  · rintro ⟨rfl, rfl, rfl, rfl⟩
    simp

/-- **The channel works exactly for matching parameters**: a message the author seals with its key
opens under the peer's key iff the peer used the author's encapsulation, the right key pairs and
the same (parent, seal_id, open_id, label) — and the same sequence number and auth data. -/
theorem channel_works_iff {a root p : Nat} {peerPk authorPk' enc' : Term} {c c' : Chan}
    {ks kr : HpkeKeys} (hs : authorKey a root peerPk c = some ks)
    (hr : peerKey p authorPk' enc' c' = some kr) (seq ad pt : Term) :
    afcOpen kr seq ad (afcSeal ks seq ad pt).1 (afcSeal ks seq ad pt).2 = some pt ↔
      enc' = pkOf root ∧ peerPk = pkOf p ∧ authorPk' = pkOf a ∧ c' = c := by
  rw [afc_open_seal_iff, ← keys_agree_iff hs hr]
  constructor
  · rintro ⟨h, _⟩; rw [h]
  · intro h; exact ⟨keys_agree_full hs hr h, rfl, rfl, rfl⟩

/-- `UniSecrets::new` and both key derivations refuse a channel whose sealer is its opener -/
theorem same_device_rejected (a root p : Nat) (pk enc : Term) (c : Chan) (h : c.sealId = c.openId) :
    authorEncap a root pk c = none ∧ authorKey a root pk c = none ∧ peerKey p pk enc c = none := by
  simp [authorEncap, authorKey, peerKey, h]

/-- the handler gives the author only a seal key, for a channel whose sealer is the device itself
and whose opener is someone else -/
theorem created_chan {dev : Term} {e : Created} {k : HpkeKeys} (h : uniChannelCreated dev e = .ok k) :
    dev ≠ e.openId ∧ authorKey e.ourSk e.root e.peerPk ⟨e.parent, dev, e.openId, e.label⟩ = some k := by
  unfold uniChannelCreated at h
  split at h
  · cases h
  · rename_i hne
    split at h
    · rename_i k' hk; cases h; exact ⟨hne, hk⟩
    · cases h

/-- the handler gives the peer only an open key, for a channel whose opener is the device itself
and whose sealer is someone else -/
theorem received_chan {dev : Term} {e : Received} {k : HpkeKeys} (h : uniChannelReceived dev e = .ok k) :
    e.sealId ≠ dev ∧ peerKey e.ourSk e.authorPk e.enc ⟨e.parent, e.sealId, dev, e.label⟩ = some k := by
  unfold uniChannelReceived at h
  split at h
  · cases h
  · rename_i hne
    split at h
    · rename_i k' hk; cases h; exact ⟨hne, hk⟩
    · cases h

/-- **A device never derives both ends of one channel.**  Whatever `UniChannelCreated` and
`UniChannelReceived` effects a device `dev` processes (any contents, any keys in its store), a seal
key it obtains from the first and an open key it obtains from the second are different keys: the
first is bound to `seal_id = dev`, the second to `seal_id ≠ dev`. -/
theorem never_both_ends {dev : Term} {ce : Created} {re : Received} {ks kr : HpkeKeys}
    (hc : uniChannelCreated dev ce = .ok ks) (hr : uniChannelReceived dev re = .ok kr) :
    kr.key ≠ ks.key := by
  obtain ⟨_, hs⟩ := created_chan hc
  obtain ⟨hne, hp⟩ := received_chan hr
  intro hk
  have := ((keys_agree_iff hs hp).mp hk).2.2.2
  exact hne (congrArg Chan.sealId this)

/-- … hence the device cannot open what it seals on that channel -/
theorem never_both_ends_messages {dev : Term} {ce : Created} {re : Received} {ks kr : HpkeKeys}
    (hc : uniChannelCreated dev ce = .ok ks) (hr : uniChannelReceived dev re = .ok kr)
    (seq seq' ad ad' pt : Term) :
    afcOpen kr seq' ad' (afcSeal ks seq ad pt).1 (afcSeal ks seq ad pt).2 = none := by
  cases h : afcOpen kr seq' ad' (afcSeal ks seq ad pt).1 (afcSeal ks seq ad pt).2 with
  | none => rfl
  | some pt' =>
    have := ((afc_open_seal_iff ks kr seq seq' ad ad' pt pt').mp h).1
    exact absurd (congrArg HpkeKeys.key this) (never_both_ends hc hr)

/-- the role checks themselves -/
theorem created_refuses_opener (dev : Term) (e : Created) (h : dev = e.openId) :
    uniChannelCreated dev e = .error .authorMustBeSealer := by
  simp [uniChannelCreated, h]

theorem received_refuses_sealer (dev : Term) (e : Received) (h : e.sealId = dev) :
    uniChannelReceived dev e = .error .authorMustBeSealer := by
  simp [uniChannelReceived, h]

-- non-vacuity: a concrete channel works; each single-parameter change breaks it
example :
    let c : Chan := ⟨.lit [1], .lit [2], .lit [3], .lit [4]⟩
    let ks := authorKey 10 77 (pkOf 20) c
    ks.isSome ∧ authorEncap 10 77 (pkOf 20) c = some (pkOf 77) ∧
    peerKey 20 (pkOf 10) (pkOf 77) c = ks ∧
    peerKey 20 (pkOf 10) (pkOf 77) { c with parent := .lit [9] } ≠ ks ∧
    peerKey 20 (pkOf 10) (pkOf 77) { c with label := .lit [9] } ≠ ks ∧
    peerKey 20 (pkOf 10) (pkOf 77) { c with sealId := .lit [3], openId := .lit [2] } ≠ ks ∧
    peerKey 20 (pkOf 11) (pkOf 77) c ≠ ks ∧
    peerKey 21 (pkOf 10) (pkOf 77) c ≠ ks ∧
    peerKey 20 (pkOf 10) (pkOf 78) c ≠ ks ∧
    authorKey 10 77 (pkOf 20) { c with openId := .lit [2] } = none := by
  decide

end AranyaV.C38
