import AranyaV.Props.C01
import AranyaV.Props.C09
import AranyaV.Props.C04b
import AranyaV.Props.C03b
import AranyaV.Proofs.TrxFacts
/-!
# C01 (second part) — `replicas_converge`, end to end

Two replicas that went through ANY histories of the client LTS (`Trx.run`: any number of open
transactions, any batching, flushes, duplicates, rejected commands, failed merges, actions) and
hold the same *set* of commands — their committed listings are permutations of one another — agree
on

* (a) the committed head set (`st.heads`, a sorted list) — C09 `commit_heads_frontier` + C01 `frontier_perm`;
* (b) the reference braid of the heads, the stored state of every command and the fact state
      `factsOf` — `braid_layout_indep` (C03) for the run, and the declarative semantics of C04b
      (`states_sem`, `factsOf_cases`, `Full.unique`) for the states; on each replica's *storage* (a
      segment store built by writes that holds the command graph) the braid mechanism — LCA walk,
      cut-off, same-segment shortcut, convergence counts — returns that same reference braid
      (`implBraid_eq_ref_store`, `implBraid_lazy_eq_ref_built`), whatever the segment layouts, so both
      replicas evaluate the same commands in the same order on the same start state;
* (c) the hello head `synth heads`.

Rule determinism is definitional (`Spec.rule` is a function).  Hypotheses that remain, all on the
command set (of one replica; they transfer): `MergePrio` (merges and only merges carry
`Priority::Merge`), `MergesOk` (every stored merge joins two incomparable commands and its own braid
succeeded — what `add_merge` enforces; this is where "no ParallelFinalize at a stored merge" enters).
A failing braid *of the heads* is allowed: then both replicas report the same error.
`replicas_converge_facts` removes the per-commit hypothesis and `MergesOk`: by the strengthened
invariant of `Proofs.TrxFacts` (`ClientInv'`, preserved by every step of the client LTS: init,
add_single accept/reject, add_merge, flush, commit ok/err, action) every stored state is `stateAt`,
every stored merge was accepted by its own braid and `st.facts = factsOf`, so for ANY two histories
with `Perm` listings `st₁.facts = st₂.facts`.  What remains is `PolicyPrio` on the commands (a
statement about the policy: it gives `Priority::Merge` to merges and only to them — `Spec.Cmd` carries
the priority as data, so it is pointwise on commands) and `MergeAnti` (every merge command joins two
incomparable commands: NOT checked by `add_merge`, in the model or in the runtime, hence not derivable
from the LTS; honest clients only merge antichains of heads).  The storage clause takes "the segment
store holds the listing" (`Segments.Abs`) as a hypothesis; `abs_ren` + `abs_graphOf` discharge it for
every built store once an injective address assignment for its locations is given (done in the example).
-/
namespace AranyaV.Spec
open AranyaV.Gen

/-! ## everything in the declarative semantics is a function of the command set -/

theorem ids_perm {g g' : Graph} (hp : g.Perm g') (x : Nat) : x ∈ ids g ↔ x ∈ ids g' := by
  rw [mem_ids, mem_ids]
  exact ⟨fun ⟨c, hc, e⟩ => ⟨c, hp.mem_iff.mp hc, e⟩, fun ⟨c, hc, e⟩ => ⟨c, hp.mem_iff.mpr hc, e⟩⟩

theorem reach_perm_iff {g g' : Graph} (hp : g.Perm g') (a b : Nat) : Reach g a b ↔ Reach g' a b :=
  ⟨fun h => h.perm hp, fun h => h.perm hp.symm⟩

theorem anc_perm {g g' : Graph} (hw : WF g) (hw' : WF g') (hp : g.Perm g') (a b : Nat) :
    anc g a b = anc g' a b := by
  have h1 := anc_iff hw a b
  have h2 := anc_iff hw' a b
  rw [reach_perm_iff hp] at h1
  cases e1 : anc g a b <;> cases e2 : anc g' a b <;> simp_all

theorem Antichain.perm {g g' : Graph} (hw : WF g) (hw' : WF g') (hp : g.Perm g') {hs : List Nat}
    (h : Antichain g hs) : Antichain g' hs := by
  intro a ha b hb
  rw [← anc_perm hw hw' hp]; exact h a ha b hb

theorem Heads.perm {g g' : Graph} (hw : WF g) (hw' : WF g') (hp : g.Perm g') {hs : List Nat}
    (h : Heads g hs) : Heads g' hs :=
  ⟨h.ne, h.nodup, fun x hx => (ids_perm hp x).mp (h.sub x hx), h.anti.perm hw hw' hp⟩

theorem MergePrio.perm {g g' : Graph} (hp : g.Perm g') (h : MergePrio g) : MergePrio g' :=
  fun c hc => h c (hp.mem_iff.mpr hc)

theorem MergeAnti.perm {g g' : Graph} (hw : WF g) (hw' : WF g') (hp : g.Perm g') (h : MergeAnti g) :
    MergeAnti g' :=
  fun c hc l r e => (h c (hp.mem_iff.mpr hc) l r e).perm hw hw' hp

theorem MergeBraidOk.perm {g g' : Graph} (hw : WF g) (hw' : WF g') (hp : g.Perm g') (h : MergeBraidOk g) :
    MergeBraidOk g' := by
  intro c hc l r e
  obtain ⟨s, o, hso⟩ := h c (hp.mem_iff.mpr hc) l r e
  exact ⟨s, o, by rw [← refBraid_perm_graph hw hw' hp]; exact hso⟩

theorem Cand.perm {g g' : Graph} (hw : WF g) (hw' : WF g') (hp : g.Perm g') {hs o : List Nat} {x : Nat}
    (h : Cand g (ancSelfAll g hs) o x) : Cand g' (ancSelfAll g' hs) o x := by
  obtain ⟨h1, h2, h3, h4⟩ := h
  have hm := isMergeId_congr (find?_perm hw hw' hp)
  refine ⟨(ancSelfAll_perm hw hw' hp hs x).mp h1, by rw [← hm]; exact h2, h3, ?_⟩
  intro y hy hmy hr hne
  exact h4 y ((ancSelfAll_perm hw hw' hp hs y).mpr hy) (by rw [hm]; exact hmy) (hr.perm hp.symm) hne

theorem kLt.perm {g g' : Graph} (hw : WF g) (hw' : WF g') (hp : g.Perm g') {a b : Nat} (h : kLt g a b) :
    kLt g' a b := by
  obtain ⟨ca, cb, h1, h2, h3⟩ := h
  exact ⟨ca, cb, by rw [← find?_perm hw hw' hp]; exact h1, by rw [← find?_perm hw hw' hp]; exact h2, h3⟩

theorem Greedy.perm {g g' : Graph} (hw : WF g) (hw' : WF g') (hp : g.Perm g') {hs o : List Nat}
    (h : Greedy g (ancSelfAll g hs) o) : Greedy g' (ancSelfAll g' hs) o := by
  induction h with
  | nil => exact Greedy.nil
  | cons _ hc hmin ih =>
    refine Greedy.cons ih (hc.perm hw hw' hp) ?_
    intro d hd hne
    exact (hmin d (hd.perm hw' hw hp.symm) hne).perm hw hw' hp

theorem Full.perm {g g' : Graph} (hw : WF g) (hw' : WF g') (hp : g.Perm g') {hs o : List Nat}
    (h : Full g (ancSelfAll g hs) o) : Full g' (ancSelfAll g' hs) o := by
  refine ⟨h.1.perm hw hw' hp, fun x hx hm => h.2 x ((ancSelfAll_perm hw hw' hp hs x).mpr hx) ?_⟩
  rw [isMergeId_congr (find?_perm hw hw' hp)]; exact hm

theorem applyOrder_perm {g g' : Graph} (hw : WF g) (hw' : WF g') (hp : g.Perm g') (L : List Nat) (s : Facts) :
    applyOrder g L s = applyOrder g' L s := by
  unfold applyOrder
  simp only [find?_perm hw hw' hp]

theorem Sem.perm {g g' : Graph} (hw : WF g) (hw' : WF g') (hp : g.Perm g') {hs : List Nat} {F : Facts}
    (h : Sem g (ancSelfAll g hs) F) : Sem g' (ancSelfAll g' hs) F := by
  obtain ⟨L, hL, e⟩ := h
  exact ⟨L, hL.perm hw hw' hp, by rw [e, applyOrder_perm hw hw' hp]⟩

theorem Sem.unique {g : Graph} {R : List Nat} {F F' : Facts} (h : Sem g R F) (h' : Sem g R F') : F = F' := by
  obtain ⟨L, hL, e⟩ := h
  obtain ⟨L', hL', e'⟩ := h'
  rw [e, e', hL.unique hL']

/-- **the stored state of a command is a function of the command set** -/
theorem stateAt_perm {g g' : Graph} (hw : WF g) (hw' : WF g') (hp : g.Perm g')
    (hprio : MergePrio g) (ha : MergeAnti g) (hb : MergeBraidOk g) (x : Nat) :
    stateAt g x = stateAt g' x := by
  by_cases hx : x ∈ ids g
  · obtain ⟨F, h1, h2⟩ := states_sem hw hprio ha hb hx
    obtain ⟨F', h1', h2'⟩ := states_sem hw' (hprio.perm hp) (ha.perm hw hw' hp) (hb.perm hw hw' hp)
      ((ids_perm hp x).mp hx)
    rw [h1, h1', (h2.perm hw hw' hp).unique h2']
  · have hx' : x ∉ ids g' := fun h => hx ((ids_perm hp x).mpr h)
    rw [stateAt_eq_tbl, stateAt_eq_tbl, tbl_lookup_none hx, tbl_lookup_none hx']

/-- **the fact state of a head set is a function of the command set** (errors included) -/
theorem factsOf_perm {g g' : Graph} (hw : WF g) (hw' : WF g') (hp : g.Perm g')
    (hprio : MergePrio g) (ha : MergeAnti g) (hb : MergeBraidOk g) (hs : List Nat) :
    factsOf g hs = factsOf g' hs := by
  unfold factsOf
  rw [← refBraid_perm_graph hw hw' hp]
  simp only [stateAt_perm hw hw' hp hprio ha hb, applyOrder_perm hw hw' hp]

/-! ## the frontier is a legal head set -/

theorem tip_reach {g : Graph} {a b : Nat} (ht : ∀ c ∈ g, a ∉ c.parents) (hr : Reach g a b) : a = b := by
  induction hr with
  | refl => rfl
  | tail _ hpar ih =>
    subst ih
    obtain ⟨d, hd, _, hmem⟩ := hpar
    exact absurd hmem (ht d hd)

theorem heads_frontier {g : Graph} (hw : WF g) (hne : g ≠ []) : Heads g (frontier g) := by
  refine ⟨?_, AranyaV.Trx.sorted_nodup (AranyaV.Trx.frontier_strict g), ?_, ?_⟩
  · obtain ⟨c, hc⟩ := List.exists_mem_of_ne_nil g hne
    obtain ⟨t, ht, _⟩ := AranyaV.Trx.reach_tip hw c.id (mem_ids.mpr ⟨c, hc, rfl⟩)
    intro e
    have := AranyaV.Trx.mem_frontier.mpr ht
    rw [e] at this; simp at this
  · intro x hx; exact (AranyaV.Trx.mem_frontier.mp hx).1
  · intro a ha b _
    cases e : anc g a b with
    | false => rfl
    | true =>
      obtain ⟨hne', hr⟩ := (anc_iff hw a b).mp e
      exact absurd (tip_reach (AranyaV.Trx.mem_frontier.mp ha).2 hr) hne'

end AranyaV.Spec

namespace AranyaV.Converge
open AranyaV.Spec AranyaV.Gen
open AranyaV.Queue (Loc)

/-! ## renaming the ids of a store abstraction (store-local numbering → command addresses) -/

/-- rename ids along `ρ`; priority, body and tag of the command with address `i` are those of `κ i` -/
def ren (ρ : Nat → Nat) (κ : Nat → Cmd) (c : Cmd) : Cmd :=
  { κ (ρ c.id) with id := ρ c.id, parents := c.parents.map ρ }

theorem par_ren {ρ : Nat → Nat} {κ : Nat → Cmd} {g : Graph} {a b : Nat} (h : Par g a b) :
    Par (g.map (ren ρ κ)) (ρ a) (ρ b) := by
  obtain ⟨d, hd, h1, h2⟩ := h
  exact ⟨ren ρ κ d, List.mem_map.mpr ⟨d, hd, rfl⟩, by simp [ren, h1], by simp only [ren, List.mem_map]; exact ⟨a, h2, rfl⟩⟩

theorem reach_ren {ρ : Nat → Nat} {κ : Nat → Cmd} {g : Graph} {a b : Nat} (h : Reach g a b) :
    Reach (g.map (ren ρ κ)) (ρ a) (ρ b) := by
  induction h with
  | refl => exact Reach.refl _
  | tail _ hp ih => exact Reach.tail ih (par_ren hp)

theorem reach_ren_inv {ρ : Nat → Nat} {κ : Nat → Cmd} (hρ : ∀ a b, ρ a = ρ b → a = b) {g : Graph} {x y : Nat}
    (h : Reach (g.map (ren ρ κ)) x y) : ∀ b, y = ρ b → ∃ a, x = ρ a ∧ Reach g a b := by
  induction h with
  | refl => intro b e; exact ⟨b, e, Reach.refl _⟩
  | tail _ hp ih =>
    intro b e
    obtain ⟨d', hd', h1, h2⟩ := hp
    obtain ⟨d, hd, rfl⟩ := List.mem_map.mp hd'
    simp only [ren] at h1 h2
    have hdb : d.id = b := hρ _ _ (h1.trans e)
    obtain ⟨p, hp, rfl⟩ := List.mem_map.mp h2
    obtain ⟨a, ha, hr⟩ := ih p rfl
    exact ⟨a, ha, Reach.tail hr ⟨d, hd, hdb, hp⟩⟩

/-- an abstraction of a store stays one when the ids are renamed injectively (`ρ'` a left inverse) -/
theorem abs_ren {s : Segments.Store} {g : Graph} {φ : Loc → Nat} {ψ : Nat → Option Loc}
    (ha : Segments.Abs s g φ ψ) {ρ ρ' : Nat → Nat} (κ : Nat → Cmd) (hinv : ∀ a, ρ' (ρ a) = a) :
    Segments.Abs s (g.map (ren ρ κ)) (fun l => ρ (φ l)) (fun i => if ρ (ρ' i) = i then ψ (ρ' i) else none) := by
  have hρ : ∀ a b, ρ a = ρ b → a = b := fun a b e => by rw [← hinv a, ← hinv b, e]
  constructor
  · intro l hl
    simp only [hinv, if_true]
    exact ha.dec l hl
  · intro i l h
    by_cases hi : ρ (ρ' i) = i
    · rw [if_pos hi] at h
      obtain ⟨e, hv⟩ := ha.decv _ l h
      exact ⟨by rw [← e, hi], hv⟩
    · rw [if_neg hi] at h; cases h
  · intro a b hav hbv
    rw [← ha.reach a b hav hbv]
    constructor
    · intro h
      obtain ⟨a', e, hr⟩ := reach_ren_inv hρ h (φ b) rfl
      rw [hρ _ _ e]; exact hr
    · exact reach_ren
  · intro i b hbv h
    obtain ⟨a', e, hr⟩ := reach_ren_inv hρ h (φ b) rfl
    obtain ⟨a, hav, e'⟩ := ha.down a' b hbv hr
    exact ⟨a, hav, by rw [e, e']⟩

/-! ## the theorem -/

/-- **`mechanism_converges`.** Two segment stores built by writes (any segment layouts, any recorded
LCAs/skip lists) that hold command graphs with the same command set: on the same heads the braid
mechanism — each with the LCA *it* computes on *its* layout, its cut-off and its same-segment test —
returns the same start and evaluation order on both, namely the reference braid. -/
theorem mechanism_converges {g₁ g₂ : Graph} (hw₁ : WF g₁) (hw₂ : WF g₂) (hset : g₁.Perm g₂)
    {H : List Nat} (h2 : 2 ≤ H.length) (hH : Heads g₁ H)
    {s₁ s₂ : Segments.Store} (hb₁ : Segments.Built s₁) (hb₂ : Segments.Built s₂)
    {φ₁ φ₂ : Loc → Nat} {ψ₁ ψ₂ : Nat → Option Loc}
    (ha₁ : Segments.Abs s₁ g₁ φ₁ ψ₁) (ha₂ : Segments.Abs s₂ g₂ φ₂ ψ₂)
    {hs₁ hs₂ : List Loc} (e₁ : hs₁.map φ₁ = H) (e₂ : hs₂.map φ₂ = H)
    (hv₁ : ∀ h ∈ hs₁, s₁.valid h = true) (hv₂ : ∀ h ∈ hs₂, s₂.valid h = true)
    {C₁ C₂ : Loc} (hC₁ : Segments.lastCommonAncestor s₁ hs₁ = .ok C₁)
    (hC₂ : Segments.lastCommonAncestor s₂ hs₂ = .ok C₂) :
    AranyaV.Braid.implBraid g₁ H (Segments.belowOf ψ₁ C₁) (Segments.sameSegOf ψ₁) =
      AranyaV.Braid.liftRes (refBraid g₁ H) ∧
    AranyaV.Braid.implBraid g₂ H (Segments.belowOf ψ₂ C₂) (Segments.sameSegOf ψ₂) =
      AranyaV.Braid.implBraid g₁ H (Segments.belowOf ψ₁ C₁) (Segments.sameSegOf ψ₁) := by
  obtain ⟨hwf₁, hmd₁⟩ := Segments.built_invariants hb₁
  obtain ⟨hwf₂, hmd₂⟩ := Segments.built_invariants hb₂
  have hl₁ : 2 ≤ hs₁.length := by rw [← e₁] at h2; simpa using h2
  have hl₂ : 2 ≤ hs₂.length := by rw [← e₂] at h2; simpa using h2
  have r₁ := Segments.implBraid_eq_ref_store hw₁ ha₁ hwf₁ hmd₁ hl₁ hv₁ (by rw [e₁]; exact hH) hC₁
  have r₂ := Segments.implBraid_eq_ref_store hw₂ ha₂ hwf₂ hmd₂ hl₂ hv₂
    (by rw [e₂]; exact hH.perm hw₁ hw₂ hset) hC₂
  rw [e₁] at r₁; rw [e₂] at r₂
  exact ⟨r₁, by rw [r₂, r₁, refBraid_perm_graph hw₁ hw₂ hset]⟩

/-- **`replicas_converge`.** Two replicas after ANY histories of the client LTS that hold the same
command set. -/
theorem replicas_converge {gid₁ gid₂ : Nat} {ops₁ ops₂ : List AranyaV.Trx.Op} {st₁ st₂ : AranyaV.Trx.Store}
    (h₁ : (AranyaV.Trx.run { gid := gid₁ } ops₁).store = some st₁)
    (h₂ : (AranyaV.Trx.run { gid := gid₂ } ops₂).store = some st₂)
    (hset : (AranyaV.Trx.cmds st₁.graph).Perm (AranyaV.Trx.cmds st₂.graph))
    (hprio : MergePrio (AranyaV.Trx.cmds st₁.graph)) (hok : MergesOk (AranyaV.Trx.cmds st₁.graph)) :
    -- (a) head sets
    st₁.heads = st₂.heads ∧ Heads (AranyaV.Trx.cmds st₁.graph) st₁.heads ∧
    -- (c) hello head
    synth st₁.heads = synth st₂.heads ∧ (synth st₁.heads).isSome = true ∧
    -- (b) braid, stored states, fact state
    refBraid (AranyaV.Trx.cmds st₁.graph) st₁.heads = refBraid (AranyaV.Trx.cmds st₂.graph) st₂.heads ∧
    (∀ x, stateAt (AranyaV.Trx.cmds st₁.graph) x = stateAt (AranyaV.Trx.cmds st₂.graph) x) ∧
    factsOf (AranyaV.Trx.cmds st₁.graph) st₁.heads = factsOf (AranyaV.Trx.cmds st₂.graph) st₂.heads ∧
    -- (b, mechanism) on any storages built by writes that hold the two listings
    (∀ {s₁ s₂ : Segments.Store} {φ₁ φ₂ : Loc → Nat} {ψ₁ ψ₂ : Nat → Option Loc} {hs₁ hs₂ : List Loc} {C₁ C₂ : Loc},
      Segments.Built s₁ → Segments.Built s₂ →
      Segments.Abs s₁ (AranyaV.Trx.cmds st₁.graph) φ₁ ψ₁ → Segments.Abs s₂ (AranyaV.Trx.cmds st₂.graph) φ₂ ψ₂ →
      2 ≤ st₁.heads.length → hs₁.map φ₁ = st₁.heads → hs₂.map φ₂ = st₂.heads →
      (∀ h ∈ hs₁, s₁.valid h = true) → (∀ h ∈ hs₂, s₂.valid h = true) →
      Segments.lastCommonAncestor s₁ hs₁ = .ok C₁ → Segments.lastCommonAncestor s₂ hs₂ = .ok C₂ →
      AranyaV.Braid.implBraid (AranyaV.Trx.cmds st₁.graph) st₁.heads (Segments.belowOf ψ₁ C₁) (Segments.sameSegOf ψ₁) =
        AranyaV.Braid.liftRes (refBraid (AranyaV.Trx.cmds st₁.graph) st₁.heads) ∧
      AranyaV.Braid.implBraid (AranyaV.Trx.cmds st₂.graph) st₂.heads (Segments.belowOf ψ₂ C₂) (Segments.sameSegOf ψ₂) =
        AranyaV.Braid.implBraid (AranyaV.Trx.cmds st₁.graph) st₁.heads (Segments.belowOf ψ₁ C₁) (Segments.sameSegOf ψ₁)) := by
  obtain ⟨hh₁, _, _, hw₁⟩ := AranyaV.Trx.commit_heads_frontier gid₁ ops₁ h₁
  obtain ⟨hh₂, _, _, hw₂⟩ := AranyaV.Trx.commit_heads_frontier gid₂ ops₂ h₂
  have hne₁ := ((AranyaV.Trx.run_inv (AranyaV.Trx.ClientInv.init gid₁) ops₁).store st₁ h₁).nonempty
  have hne : AranyaV.Trx.cmds st₁.graph ≠ [] := by
    intro e; apply hne₁; simpa [AranyaV.Trx.cmds] using e
  have hheads : st₁.heads = st₂.heads := by rw [hh₁, hh₂]; exact frontier_perm hset
  have hH : Heads (AranyaV.Trx.cmds st₁.graph) st₁.heads := by rw [hh₁]; exact heads_frontier hw₁ hne
  obtain ⟨ha, hb⟩ := mergesOk_props hok hw₁
  refine ⟨hheads, hH, by rw [hheads], synth_isSome _ hH.ne, ?_, stateAt_perm hw₁ hw₂ hset hprio ha hb, ?_, ?_⟩
  · rw [← hheads]; exact refBraid_perm_graph hw₁ hw₂ hset _
  · rw [← hheads]; exact factsOf_perm hw₁ hw₂ hset hprio ha hb _
  · intro s₁ s₂ φ₁ φ₂ ψ₁ ψ₂ hs₁ hs₂ C₁ C₂ hb₁ hb₂ ha₁ ha₂ h2 e₁ e₂ hv₁ hv₂ hC₁ hC₂
    rw [← hheads] at e₂ ⊢
    exact mechanism_converges hw₁ hw₂ hset h2 hH hb₁ hb₂ ha₁ ha₂ e₁ e₂ hv₁ hv₂ hC₁ hC₂

/-- the `facts` fields the two replicas committed agree, when each is the `factsOf` of its listing
(the conclusion of `Trx.commit_facts_eq_factsOf`) -/
theorem committed_facts_converge {gid₁ gid₂ : Nat} {ops₁ ops₂ : List AranyaV.Trx.Op} {st₁ st₂ : AranyaV.Trx.Store}
    (h₁ : (AranyaV.Trx.run { gid := gid₁ } ops₁).store = some st₁)
    (h₂ : (AranyaV.Trx.run { gid := gid₂ } ops₂).store = some st₂)
    (hset : (AranyaV.Trx.cmds st₁.graph).Perm (AranyaV.Trx.cmds st₂.graph))
    (hprio : MergePrio (AranyaV.Trx.cmds st₁.graph)) (hok : MergesOk (AranyaV.Trx.cmds st₁.graph))
    (f₁ : factsOf (AranyaV.Trx.cmds st₁.graph) st₁.heads = .ok st₁.facts)
    (f₂ : factsOf (AranyaV.Trx.cmds st₂.graph) st₂.heads = .ok st₂.facts) : st₁.facts = st₂.facts := by
  have := (replicas_converge h₁ h₂ hset hprio hok).2.2.2.2.2.2.1
  rw [f₁, f₂] at this
  exact Except.ok.inj this


/-- the policy's priority assignment: `Priority::Merge` for merge commands and only for them -/
def PolicyPrio (c : Cmd) : Prop := isMerge c = true ↔ c.prio = Priority.merge

theorem mergePrio_iff (g : Graph) : MergePrio g ↔ ∀ c ∈ g, PolicyPrio c := Iff.rfl

/-- the inductive form `MergesOk` from its two halves -/
theorem mergesOk_of {g : Graph} (hw : WF g) : MergeAnti g → MergeBraidOk g → MergesOk g := by
  induction hw with
  | nil => intro _ _; exact MergesOk.nil
  | @snoc g c hw h1 h2 h3 h4 ih =>
    intro ha' hb'
    have hw' : WF (g ++ [c]) := WF.snoc hw h1 h2 h3 h4
    have ha := ha'.restrict hw hw'
    have hb : MergeBraidOk g := by
      intro d hd l r e
      obtain ⟨s, o, h⟩ := hb' d (List.mem_append_left _ hd) l r e
      exact ⟨s, o, by rw [← refBraid_ext hw hw' (heads_of_merge hw ha hd e)]; exact h⟩
    refine MergesOk.snoc (ih ha hb) ?_
    intro l r e
    have hh := heads_of_last hw hw' ha' e
    obtain ⟨s, o, h⟩ := hb' c (by simp) l r e
    exact ⟨hh.anti, s, o, by rw [← refBraid_ext hw hw' hh]; exact h⟩

/-- **`MergesOk` is an invariant of the LTS** up to incomparability of merge parents: after any
history, if every merge of the committed graph joins incomparable commands, every stored merge was
accepted by its own braid (no `ParallelFinalize` at a stored merge) -/
theorem run_mergesOk (gid : Nat) (ops : List AranyaV.Trx.Op) {st : AranyaV.Trx.Store}
    (hst : (AranyaV.Trx.run { gid := gid } ops).store = some st)
    (ha : MergeAnti (AranyaV.Trx.cmds st.graph)) : MergesOk (AranyaV.Trx.cmds st.graph) :=
  mergesOk_of (AranyaV.Trx.commit_heads_frontier gid ops hst).2.2.2 ha
    (AranyaV.Trx.run_store_good gid ops hst ha).2.1

/-- **`replicas_converge_facts`.** For ANY two histories of the client LTS whose committed listings
hold the same command set, the stored fact states agree — and each is `factsOf` of its listing, every
stored per-command state is the reference state — with no per-commit hypothesis. -/
theorem replicas_converge_facts {gid₁ gid₂ : Nat} {ops₁ ops₂ : List AranyaV.Trx.Op} {st₁ st₂ : AranyaV.Trx.Store}
    (h₁ : (AranyaV.Trx.run { gid := gid₁ } ops₁).store = some st₁)
    (h₂ : (AranyaV.Trx.run { gid := gid₂ } ops₂).store = some st₂)
    (hset : (AranyaV.Trx.cmds st₁.graph).Perm (AranyaV.Trx.cmds st₂.graph))
    (hprio : ∀ c ∈ AranyaV.Trx.cmds st₁.graph, PolicyPrio c) (hanti : MergeAnti (AranyaV.Trx.cmds st₁.graph)) :
    st₁.facts = st₂.facts ∧ st₁.heads = st₂.heads ∧ synth st₁.heads = synth st₂.heads ∧
    factsOf (AranyaV.Trx.cmds st₁.graph) st₁.heads = .ok st₁.facts ∧
    factsOf (AranyaV.Trx.cmds st₂.graph) st₂.heads = .ok st₂.facts ∧
    AranyaV.Trx.StoredOK st₁.graph ∧ AranyaV.Trx.StoredOK st₂.graph ∧
    MergesOk (AranyaV.Trx.cmds st₁.graph) := by
  have hw₁ := (AranyaV.Trx.commit_heads_frontier gid₁ ops₁ h₁).2.2.2
  have hw₂ := (AranyaV.Trx.commit_heads_frontier gid₂ ops₂ h₂).2.2.2
  obtain ⟨s1, _, f1⟩ := AranyaV.Trx.run_store_good gid₁ ops₁ h₁ hanti
  obtain ⟨s2, _, f2⟩ := AranyaV.Trx.run_store_good gid₂ ops₂ h₂ (hanti.perm hw₁ hw₂ hset)
  have hok := run_mergesOk gid₁ ops₁ h₁ hanti
  obtain ⟨hh, _, hsy, _, _, _, hf, _⟩ := replicas_converge h₁ h₂ hset hprio hok
  refine ⟨?_, hh, hsy, f1, f2, s1, s2, hok⟩
  rw [f1, f2] at hf
  exact Except.ok.inj hf

/-! ## non-vacuity: a two-branch graph, built in two different orders -/
namespace Ex
open AranyaV.Trx

def i0 : In := { cmd := { id := 10, parents := [], prio := .init, body := [.set 0 0] }, pol := true }
def a1 : In := { cmd := { id := 21, parents := [10], prio := .basic 0, body := [.set 1 1, .append], tag := "a" }, pol := false }
def b1 : In := { cmd := { id := 15, parents := [10], prio := .basic 1, body := [.set 1 2, .append], tag := "b" }, pol := false }
def gA : Graph := [i0.cmd, a1.cmd, b1.cmd]
def gB : Graph := [i0.cmd, b1.cmd, a1.cmd]

/-- replica A: init and branch `a` in one call, then branch `b`; replica B: init, flush, then `b`, `a`
and a duplicate in one call -/
def histA : List AranyaV.Trx.Op := [.openT 0, .add 0 [i0, a1], .add 0 [b1], .commit 0]
def histB : List AranyaV.Trx.Op := [.openT 0, .add 0 [i0], .flush 0, .add 0 [b1, a1, b1], .commit 0]

theorem store_of {h : List AranyaV.Trx.Op} {g : Graph} {hs : List Nat}
    (e : (run { gid := 10 } h).store.map (fun s => (cmds s.graph, s.heads)) = some (g, hs)) :
    ∃ st, (run { gid := 10 } h).store = some st ∧ cmds st.graph = g ∧ st.heads = hs := by
  cases hst : (run { gid := 10 } h).store with
  | none => rw [hst] at e; cases e
  | some st =>
    rw [hst] at e
    simp only [Option.map_some, Option.some.injEq, Prod.mk.injEq] at e
    exact ⟨st, rfl, e.1, e.2⟩

theorem gA_prio : MergePrio gA := by
  intro c hc
  simp only [gA, List.mem_cons, List.not_mem_nil, or_false] at hc
  rcases hc with rfl | rfl | rfl <;> simp [isMerge, i0, a1, b1]

theorem gA_ok : MergesOk gA := by
  have h : MergesOk ((([] ++ [i0.cmd]) ++ [a1.cmd]) ++ [b1.cmd]) :=
    .snoc (.snoc (.snoc .nil (fun l r h => by simp [i0] at h)) (fun l r h => by simp [a1] at h))
      (fun l r h => by simp [b1] at h)
  exact h

/-! the two storages: the same three commands in segments written in different orders -/
def sA0 : Segments.Store := ⟨[{ idx := 0, first := 0, ids := [10], prior := .none, skips := [] }]⟩
def sA1 : Segments.Store := ⟨sA0.segs ++ [{ idx := 1, first := 1, ids := [21], prior := .single ⟨0, 0⟩, skips := [] }]⟩
def sA : Segments.Store := ⟨sA1.segs ++ [{ idx := 2, first := 1, ids := [15], prior := .single ⟨0, 0⟩, skips := [] }]⟩
def sB1 : Segments.Store := ⟨sA0.segs ++ [{ idx := 1, first := 1, ids := [15], prior := .single ⟨0, 0⟩, skips := [] }]⟩
def sB : Segments.Store := ⟨sB1.segs ++ [{ idx := 2, first := 1, ids := [21], prior := .single ⟨0, 0⟩, skips := [] }]⟩

theorem sA_built : Segments.Built sA := by
  have h0 : Segments.Built sA0 := Segments.Built.init 0 [10]
  have h1 : Segments.Built sA1 := Segments.Built.single 1 1 [21] ⟨0, 0⟩ h0 (by decide) (by decide) (by decide) (by decide) (by rfl)
  exact Segments.Built.single 2 1 [15] ⟨0, 0⟩ h1 (by decide) (by decide) (by decide) (by decide) (by rfl)

theorem sB_built : Segments.Built sB := by
  have h0 : Segments.Built sA0 := Segments.Built.init 0 [10]
  have h1 : Segments.Built sB1 := Segments.Built.single 1 1 [15] ⟨0, 0⟩ h0 (by decide) (by decide) (by decide) (by decide) (by rfl)
  exact Segments.Built.single 2 1 [21] ⟨0, 0⟩ h1 (by decide) (by decide) (by decide) (by decide) (by rfl)

/-- address of the store-local command number (the position in `locList`) -/
def ρA : Nat → Nat | 0 => 10 | 1 => 21 | 2 => 15 | n + 3 => n + 103
def ρB : Nat → Nat | 0 => 10 | 1 => 15 | 2 => 21 | n + 3 => n + 103
def ρA' (i : Nat) : Nat := if i = 10 then 0 else if i = 21 then 1 else if i = 15 then 2 else i - 100
def ρB' (i : Nat) : Nat := if i = 10 then 0 else if i = 15 then 1 else if i = 21 then 2 else i - 100
def κ (i : Nat) : Cmd := if i = 10 then i0.cmd else if i = 21 then a1.cmd else b1.cmd

theorem ρA_inv : ∀ a, ρA' (ρA a) = a
  | 0 => rfl | 1 => rfl | 2 => rfl
  | n + 3 => by show ρA' (n + 103) = n + 3; unfold ρA'; rw [if_neg (by omega), if_neg (by omega), if_neg (by omega)]; omega
theorem ρB_inv : ∀ a, ρB' (ρB a) = a
  | 0 => rfl | 1 => rfl | 2 => rfl
  | n + 3 => by show ρB' (n + 103) = n + 3; unfold ρB'; rw [if_neg (by omega), if_neg (by omega), if_neg (by omega)]; omega

theorem gA_eq : (Segments.graphOf sA (fun _ => .basic 0)).map (ren ρA κ) = gA := by rfl
theorem gB_eq : (Segments.graphOf sB (fun _ => .basic 0)).map (ren ρB κ) = gB := by rfl


/-- the abstraction hypothesis of `replicas_converge` is dischargeable: `abs_graphOf` (any built store has
its store-local command graph) renamed to the command addresses -/
theorem absA : Segments.Abs sA gA (fun l => ρA (Segments.locId sA l))
    (fun i => if ρA (ρA' i) = i then Segments.idLoc sA (ρA' i) else none) :=
  gA_eq ▸ abs_ren (Segments.abs_graphOf (Segments.built_invariants sA_built).1.priors (fun _ => .basic 0)) κ ρA_inv
theorem absB : Segments.Abs sB gB (fun l => ρB (Segments.locId sB l))
    (fun i => if ρB (ρB' i) = i then Segments.idLoc sB (ρB' i) else none) :=
  gB_eq ▸ abs_ren (Segments.abs_graphOf (Segments.built_invariants sB_built).1.priors (fun _ => .basic 0)) κ ρB_inv

/-- **both replicas, end to end**: different histories, different listings, different segment layouts —
same heads, same hello head, same fact state, and the mechanism on either storage returns the same
braid: start at the lone strand `15`, then evaluate `21` -/
example : ∃ stA stB, (run { gid := 10 } histA).store = some stA ∧ (run { gid := 10 } histB).store = some stB ∧
    (cmds stA.graph).map (·.id) = [10, 21, 15] ∧ (cmds stB.graph).map (·.id) = [10, 15, 21] ∧
    stA.heads = [15, 21] ∧ stB.heads = [15, 21] ∧
    synth stA.heads = synth stB.heads ∧
    factsOf (cmds stA.graph) stA.heads = factsOf (cmds stB.graph) stB.heads ∧
    factsOf (cmds stA.graph) stA.heads = .ok { f := [(0, 0), (1, 1)], log := some ["b", "a"] } ∧
    AranyaV.Braid.implBraid (cmds stB.graph) stB.heads
        (Segments.belowOf (fun i => if ρB (ρB' i) = i then Segments.idLoc sB (ρB' i) else none) ⟨0, 0⟩)
        (Segments.sameSegOf (fun i => if ρB (ρB' i) = i then Segments.idLoc sB (ρB' i) else none)) =
      AranyaV.Braid.implBraid (cmds stA.graph) stA.heads
        (Segments.belowOf (fun i => if ρA (ρA' i) = i then Segments.idLoc sA (ρA' i) else none) ⟨0, 0⟩)
        (Segments.sameSegOf (fun i => if ρA (ρA' i) = i then Segments.idLoc sA (ρA' i) else none)) ∧
    AranyaV.Braid.implBraid (cmds stA.graph) stA.heads
        (Segments.belowOf (fun i => if ρA (ρA' i) = i then Segments.idLoc sA (ρA' i) else none) ⟨0, 0⟩)
        (Segments.sameSegOf (fun i => if ρA (ρA' i) = i then Segments.idLoc sA (ρA' i) else none)) = .ok [15, 21] := by
  obtain ⟨stA, hA, gAe, hAe⟩ := store_of (h := histA) (g := gA) (hs := [15, 21]) (by rfl)
  obtain ⟨stB, hB, gBe, hBe⟩ := store_of (h := histB) (g := gB) (hs := [15, 21]) (by rfl)
  have hset : (cmds stA.graph).Perm (cmds stB.graph) := by
    rw [gAe, gBe]; exact List.Perm.cons _ (List.Perm.swap _ _ _)
  obtain ⟨_, _, hsy, _, _, _, hf, hmech⟩ :=
    replicas_converge hA hB hset (by rw [gAe]; exact gA_prio) (by rw [gAe]; exact gA_ok)
  obtain ⟨m1, m2⟩ := hmech (hs₁ := [⟨1, 2⟩, ⟨1, 1⟩]) (hs₂ := [⟨1, 1⟩, ⟨1, 2⟩]) (C₁ := ⟨0, 0⟩) (C₂ := ⟨0, 0⟩)
    sA_built sB_built (gAe ▸ absA) (gBe ▸ absB) (by rw [hAe]; decide) (by rw [hAe]; rfl) (by rw [hBe]; rfl)
    (by decide) (by decide) (by rfl) (by rfl)
  refine ⟨stA, stB, hA, hB, by rw [gAe]; rfl, by rw [gBe]; rfl, hAe, hBe, hsy, hf, ?_, m2, ?_⟩
  · rw [gAe, hAe]; rfl
  · rw [m1, gAe, hAe]; rfl

/-! the same two replicas after the merge command `50 = merge(15, 21)` arrived on both: `MergeAnti` is
not vacuous, and `replicas_converge_facts` gives equal *stored* facts, each the `factsOf` of its listing -/
def mm : In := { cmd := { id := 50, parents := [15, 21], prio := .merge, body := [] }, pol := false }
def gA2 : Graph := [i0.cmd, a1.cmd, b1.cmd, mm.cmd]
def gB2 : Graph := [i0.cmd, b1.cmd, a1.cmd, mm.cmd]
def histA2 : List AranyaV.Trx.Op := [.openT 0, .add 0 [i0, a1], .add 0 [b1], .add 0 [mm], .commit 0]
def histB2 : List AranyaV.Trx.Op := [.openT 0, .add 0 [i0], .flush 0, .add 0 [b1, a1, b1, mm], .commit 0]

theorem gA2_prio : ∀ c ∈ gA2, PolicyPrio c := by
  intro c hc
  simp only [gA2, List.mem_cons, List.not_mem_nil, or_false] at hc
  rcases hc with rfl | rfl | rfl | rfl <;> simp [PolicyPrio, isMerge, i0, a1, b1, mm]

theorem gA2_anti : MergeAnti gA2 := by
  intro c hc l r e
  simp only [gA2, List.mem_cons, List.not_mem_nil, or_false] at hc
  rcases hc with rfl | rfl | rfl | rfl
  · simp [i0] at e
  · simp [a1] at e
  · simp [b1] at e
  · simp only [mm, List.cons.injEq, and_true] at e
    obtain ⟨rfl, rfl⟩ := e
    unfold Antichain; decide

example : ∃ stA stB, (run { gid := 10 } histA2).store = some stA ∧ (run { gid := 10 } histB2).store = some stB ∧
    (cmds stA.graph).map (·.id) = [10, 21, 15, 50] ∧ (cmds stB.graph).map (·.id) = [10, 15, 21, 50] ∧
    stA.facts = stB.facts ∧ stA.heads = [50] ∧
    factsOf (cmds stA.graph) stA.heads = .ok stA.facts ∧
    stA.facts = { f := [(0, 0), (1, 1)], log := some ["b", "a"] } := by
  obtain ⟨stA, hA, gAe, hAe⟩ := store_of (h := histA2) (g := gA2) (hs := [50]) (by rfl)
  obtain ⟨stB, hB, gBe, hBe⟩ := store_of (h := histB2) (g := gB2) (hs := [50]) (by rfl)
  have hset : (cmds stA.graph).Perm (cmds stB.graph) := by
    rw [gAe, gBe]; exact List.Perm.cons _ (List.Perm.swap _ _ _)
  obtain ⟨hf, _, _, f1, _⟩ :=
    replicas_converge_facts hA hB hset (by rw [gAe]; exact gA2_prio) (by rw [gAe]; exact gA2_anti)
  refine ⟨stA, stB, hA, hB, by rw [gAe]; rfl, by rw [gBe]; rfl, hf, hAe, f1, ?_⟩
  have : factsOf gA2 [50] = .ok { f := [(0, 0), (1, 1)], log := some ["b", "a"] } := by rfl
  rw [gAe, hAe, this] at f1
  exact (Except.ok.inj f1).symm

end Ex
end AranyaV.Converge
