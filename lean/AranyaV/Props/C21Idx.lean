import AranyaV.Props.C21
import AranyaV.Proofs.QueueIdx
/-!
# C21 (index level) — the `Vec + partition` mechanism of `TraversalQueue` refines the two-list model

`Model/QueueIdx.lean` transliterates every method of the Rust `TraversalQueue` on
`entries : List Loc` + `part : Nat`, with the swap / `swap_remove` / `checked_*` arithmetic and
explicit failure outcomes (`Fail.bug` = a failed `.assume(..)?`, `Fail.oob` = index panic,
`Fail.fuel` = model loop fuel).  This file proves, for EVERY state and EVERY operation sequence:

* `part_inv` / `part_inv_seq`: started with `part ≤ entries.length`, no operation ever returns a
  failure outcome and the invariant is kept — the `assume` bug branches, the index panics and
  the fuel exhaustion are unreachable;
* `<op>_refines`: related states (`Rel`) stay related under every operation and every observable
  result agrees with the two-list model (`Model/Queue.lean`, theorems in `Props/C21.lean`);
* `refines_seq` / `refines_seq_dup` / `refines_seq_gen`: lifted to operation sequences from the
  empty queue.

Side conditions (true of the Rust types): `entries.len() < usize::MAX` before a push
(`Vec` caps at `isize::MAX`), and `longest_mc ≤ u64::MAX` (`MaxCut` is a `u64`).
-/
namespace AranyaV.Queue

/-- the abstraction function: the two regions of the vector -/
theorem IQ.abs_eq (q : IQ) : q.abs = ⟨q.entries.take q.part, q.entries.drop q.part⟩ := rfl

/-- refinement relation between an index-level state and a two-list state -/
def Rel (q : IQ) (t : Queue) : Prop :=
  q.part ≤ q.entries.length ∧ (q.entries.take q.part).Perm t.unc ∧
    (q.entries.drop q.part).Perm t.cov

theorem rel_iff {q : IQ} {t : Queue} : Rel q t ↔ q.Inv ∧ q.abs.Equiv t := Iff.rfl

theorem rel_abs {q : IQ} (h : q.part ≤ q.entries.length) : Rel q q.abs :=
  ⟨h, List.Perm.refl _, List.Perm.refl _⟩

theorem rel_new : Rel IQ.new Queue.new := ⟨Nat.le_refl _, List.Perm.refl _, List.Perm.refl _⟩

theorem Rel.equiv {q : IQ} {t : Queue} (h : Rel q t) : q.abs.Equiv t := h.2

theorem onePerSeg_equiv {a b : Queue} (h : a.Equiv b) (ha : OnePerSeg a) : OnePerSeg b :=
  nodup_segs_perm h.all ha

theorem onePerSeg_parts {a : Queue} (h : OnePerSeg a) :
    (segs a.unc).Nodup ∧ (segs a.cov).Nodup := by
  unfold OnePerSeg Queue.all at h
  rw [segs_append, List.nodup_append] at h
  exact ⟨h.1, h.2.1⟩

/-- well-formed arguments: `longest_mc` is a `u64` -/
def Op.wf : Op → Prop
  | .coverUpTo _ _ l => l ≤ u64Max
  | _ => True

/-- operations whose two-list result depends on "the first entry of a segment" -/
def Op.needsOne : Op → Bool
  | .push _ => true
  | .pushCovered _ _ => true
  | .coverUpTo _ _ _ => true
  | _ => false

/-! ## the mechanism never fails and keeps the partition invariant -/

/-- One step, any state: from `part ≤ entries.length` the index-level operation succeeds, keeps the
invariant, grows the vector by at most one, and its two regions are (as multisets) what the
two-list operation computes from the two regions of the old state.  No `OnePerSeg` needed: the
abstraction keeps the index order. -/
theorem apply_abs {q : IQ} (hinv : q.part ≤ q.entries.length) (hb : q.entries.length < usizeMax)
    (op : Op) (hw : op.wf) :
    ∃ q', q.apply op = .ok q' ∧ q'.part ≤ q'.entries.length ∧
      q'.entries.length ≤ q.entries.length + 1 ∧ q'.abs.Equiv (q.abs.apply op) := by
  cases op with
  | push l => exact pushCovered_abs hinv hb l false
  | pushCovered l c => exact pushCovered_abs hinv hb l c
  | pushDuplicate l =>
    obtain ⟨q', e1, e2, e3, e4⟩ := pushDuplicate_abs hinv hb l
    exact ⟨q', e1, e2, by omega, e4⟩
  | pop =>
    obtain ⟨q', e1, e2, e3, e4⟩ := pop_abs hinv
    exact ⟨q', by simp only [IQ.apply, e1]; rfl, e2, by omega, e4⟩
  | popCovered =>
    obtain ⟨q', e1, e2, e3, e4⟩ := popCovered_abs hinv
    exact ⟨q', by simp only [IQ.apply, e1]; rfl, e2, by omega, e4⟩
  | popDuplicates =>
    obtain ⟨q', e1, e2, e3, e4⟩ := popDuplicates_abs hinv (by omega)
    exact ⟨q', by simp only [IQ.apply, e1]; rfl, e2, by omega, e4⟩
  | drainAbove t =>
    obtain ⟨em, q', e1, e2, e3, _, e4⟩ := drainAbove_abs hinv (by omega) t
    exact ⟨q', by simp only [IQ.apply, e1]; rfl, e2, by omega, e4⟩
  | drainAll =>
    obtain ⟨e1, e2⟩ := drainAll_abs hinv
    refine ⟨IQ.new, by simp only [IQ.apply, e1]; rfl, Nat.le_refl _, Nat.zero_le _, ?_⟩
    simp only [Queue.apply, ← e2]; exact Queue.Equiv.refl _
  | coverUpTo s c l =>
    obtain ⟨q', e1, e2, e3, e4⟩ := coverUpTo_abs hinv s c l hw
    exact ⟨q', e1, e2, by omega, e4⟩
  | clear => exact ⟨IQ.new, rfl, Nat.le_refl _, Nat.zero_le _, Queue.Equiv.refl _⟩

/-- `part ≤ entries.length` is an invariant of every operation, and no operation started from it
returns a failure outcome (`bug`, `oob`, `fuel`). -/
theorem part_inv {q : IQ} (hinv : q.part ≤ q.entries.length) (hb : q.entries.length < usizeMax)
    (op : Op) (hw : op.wf) :
    ∃ q', q.apply op = .ok q' ∧ q'.part ≤ q'.entries.length ∧
      q'.entries.length ≤ q.entries.length + 1 := by
  obtain ⟨q', e1, e2, e3, _⟩ := apply_abs hinv hb op hw
  exact ⟨q', e1, e2, e3⟩

/-- the pure queries cannot fail at all; `all_covered` is `partition == 0` -/
theorem queries_total (q : IQ) :
    q.isEmpty = q.entries.isEmpty ∧ q.allCovered = (q.part == 0) ∧
    q.peek = (maxIdx q.entries).map (·.2) := ⟨rfl, rfl, rfl⟩

/-- every operation sequence (ANY mix, `push_duplicate` included) from any invariant state -/
theorem part_inv_run (ops : List Op) (hw : ∀ op ∈ ops, op.wf) (q : IQ)
    (hinv : q.part ≤ q.entries.length) (hb : q.entries.length + ops.length ≤ usizeMax) :
    ∃ q', IQ.run ops q = .ok q' ∧ q'.part ≤ q'.entries.length ∧
      q'.entries.length ≤ q.entries.length + ops.length := by
  induction ops generalizing q with
  | nil => exact ⟨q, rfl, hinv, Nat.le_refl _⟩
  | cons op ops ih =>
    simp only [List.length_cons] at hb
    obtain ⟨q1, e1, e2, e3⟩ := part_inv hinv (by omega) op (hw op (List.mem_cons_self ..))
    obtain ⟨q', f1, f2, f3⟩ := ih (fun o ho => hw o (List.mem_cons_of_mem _ ho)) q1 e2 (by omega)
    exact ⟨q', by simp only [IQ.run, e1, f1], f2, by simp only [List.length_cons]; omega⟩

/-- from the empty queue -/
theorem part_inv_seq (ops : List Op) (hw : ∀ op ∈ ops, op.wf) (hlen : ops.length ≤ usizeMax) :
    ∃ q', IQ.run ops IQ.new = .ok q' ∧ q'.part ≤ q'.entries.length := by
  obtain ⟨q', e1, e2, _⟩ := part_inv_run ops hw IQ.new (Nat.le_refl _)
    (by simp only [IQ.new, List.length_nil]; omega)
  exact ⟨q', e1, e2⟩

/-! ## refinement, operation by operation (state and observable result) -/

theorem pushCovered_refines {q : IQ} {t : Queue} (h : Rel q t) (h1 : OnePerSeg t)
    (hb : q.entries.length < usizeMax) (loc : Loc) (c : Bool) :
    ∃ q', q.pushCovered loc c = .ok q' ∧ Rel q' (t.pushCovered loc c) ∧
      q'.entries.length ≤ q.entries.length + 1 := by
  obtain ⟨q', e1, e2, e3, e4⟩ := pushCovered_abs h.1 hb loc c
  obtain ⟨hu, hc⟩ := onePerSeg_parts (onePerSeg_equiv h.equiv.symm h1)
  exact ⟨q', e1, ⟨e2, e4.trans (pushCovered_equiv h.equiv hu hc loc c)⟩, e3⟩

theorem push_refines {q : IQ} {t : Queue} (h : Rel q t) (h1 : OnePerSeg t)
    (hb : q.entries.length < usizeMax) (loc : Loc) :
    ∃ q', q.push loc = .ok q' ∧ Rel q' (t.push loc) ∧
      q'.entries.length ≤ q.entries.length + 1 :=
  pushCovered_refines h h1 hb loc false

theorem pushDuplicate_refines {q : IQ} {t : Queue} (h : Rel q t)
    (hb : q.entries.length < usizeMax) (loc : Loc) :
    ∃ q', q.pushDuplicate loc = .ok q' ∧ Rel q' (t.pushDuplicate loc) ∧
      q'.entries.length = q.entries.length + 1 := by
  obtain ⟨q', e1, e2, e3, e4⟩ := pushDuplicate_abs h.1 hb loc
  exact ⟨q', e1, ⟨e2, e4.trans ⟨h.2.1.append_right _, h.2.2⟩⟩, e3⟩

/-- same popped location, same covered flag -/
theorem popCovered_refines {q : IQ} {t : Queue} (h : Rel q t) :
    ∃ q', q.popCovered = .ok (t.popCovered.1, q') ∧ Rel q' t.popCovered.2 ∧
      q'.entries.length ≤ q.entries.length := by
  obtain ⟨q', e1, e2, e3, e4⟩ := popCovered_abs h.1
  obtain ⟨f1, f2⟩ := popCovered_equiv h.equiv
  exact ⟨q', by rw [← f1]; exact e1, ⟨e2, e4.trans f2⟩, e3⟩

theorem pop_refines {q : IQ} {t : Queue} (h : Rel q t) :
    ∃ q', q.pop = .ok (t.pop.1, q') ∧ Rel q' t.pop.2 ∧
      q'.entries.length ≤ q.entries.length := by
  obtain ⟨q', e1, e2, e3, e4⟩ := pop_abs h.1
  obtain ⟨f1, f2⟩ := pop_equiv h.equiv
  exact ⟨q', by rw [← f1]; exact e1, ⟨e2, e4.trans f2⟩, e3⟩

theorem peek_refines {q : IQ} {t : Queue} (h : Rel q t) : q.peek = t.peek :=
  (peek_abs q).trans (peek_equiv h.equiv)

/-- same location, same count -/
theorem popDuplicates_refines {q : IQ} {t : Queue} (h : Rel q t)
    (hb : q.entries.length ≤ usizeMax) :
    ∃ q', q.popDuplicates = .ok (t.popDuplicates.1, q') ∧ Rel q' t.popDuplicates.2 ∧
      q'.entries.length ≤ q.entries.length := by
  obtain ⟨q', e1, e2, e3, e4⟩ := popDuplicates_abs h.1 hb
  obtain ⟨f1, f2⟩ := popDuplicates_equiv h.equiv
  exact ⟨q', by rw [← f1]; exact e1, ⟨e2, e4.trans f2⟩, e3⟩

/-- the emitted list is a permutation of the two-list model's -/
theorem drainAbove_refines {q : IQ} {t : Queue} (h : Rel q t) (hb : q.entries.length ≤ usizeMax)
    (thr : Nat) :
    ∃ em q', q.drainAbove thr = .ok (em, q') ∧ em.Perm (t.drainAbove thr).1 ∧
      Rel q' (t.drainAbove thr).2 ∧ q'.entries.length ≤ q.entries.length := by
  obtain ⟨em, q', e1, e2, e3, e4, e5⟩ := drainAbove_abs h.1 hb thr
  obtain ⟨f1, f2⟩ := drainAbove_equiv h.equiv thr
  exact ⟨em, q', e1, e4.trans f1, ⟨e2, e5.trans f2⟩, e3⟩

theorem drainAll_refines {q : IQ} {t : Queue} (h : Rel q t) :
    ∃ em, q.drainAll = .ok (em, IQ.new) ∧ em.Perm t.drainAll.1 ∧ Rel IQ.new t.drainAll.2 := by
  obtain ⟨e1, _⟩ := drainAll_abs h.1
  exact ⟨_, e1, h.2.1, rel_new⟩

theorem coverUpTo_refines {q : IQ} {t : Queue} (h : Rel q t) (h1 : OnePerSeg t)
    (s cmc lmc : Nat) (hl : lmc ≤ u64Max) :
    ∃ q', q.coverUpTo s cmc lmc = .ok q' ∧ Rel q' (t.coverUpTo s cmc lmc) ∧
      q'.entries.length = q.entries.length := by
  obtain ⟨q', e1, e2, e3, e4⟩ := coverUpTo_abs h.1 s cmc lmc hl
  obtain ⟨hu, _⟩ := onePerSeg_parts (onePerSeg_equiv h.equiv.symm h1)
  exact ⟨q', e1, ⟨e2, e4.trans (coverUpTo_equiv h.equiv hu s cmc lmc)⟩, e3⟩

theorem allCovered_refines {q : IQ} {t : Queue} (h : Rel q t) : q.allCovered = t.allCovered :=
  (allCovered_abs h.1).trans (allCovered_equiv h.equiv)

theorem isEmpty_refines {q : IQ} {t : Queue} (h : Rel q t) : q.isEmpty = t.isEmpty :=
  (isEmpty_abs q).trans (isEmpty_equiv h.equiv)

theorem clear_refines (q : IQ) (t : Queue) : Rel q.clear t.clear := rel_new

/-! ## lifted to operations-as-data and to sequences -/

theorem apply_equiv {a b : Queue} (h : a.Equiv b) (op : Op)
    (h1 : op.needsOne = true → OnePerSeg a) : (a.apply op).Equiv (b.apply op) := by
  cases op with
  | push l =>
    obtain ⟨hu, hc⟩ := onePerSeg_parts (h1 rfl); exact pushCovered_equiv h hu hc l false
  | pushCovered l c =>
    obtain ⟨hu, hc⟩ := onePerSeg_parts (h1 rfl); exact pushCovered_equiv h hu hc l c
  | pushDuplicate l => exact ⟨h.1.append_right _, h.2⟩
  | pop => exact (pop_equiv h).2
  | popCovered => exact (popCovered_equiv h).2
  | popDuplicates => exact (popDuplicates_equiv h).2
  | drainAbove t => exact (drainAbove_equiv h t).2
  | drainAll => exact Queue.Equiv.refl _
  | coverUpTo s c l =>
    obtain ⟨hu, _⟩ := onePerSeg_parts (h1 rfl); exact coverUpTo_equiv h hu s c l
  | clear => exact Queue.Equiv.refl _

theorem apply_refines {q : IQ} {t : Queue} (h : Rel q t) (op : Op)
    (h1 : op.needsOne = true → OnePerSeg t) (hb : q.entries.length < usizeMax) (hw : op.wf) :
    ∃ q', q.apply op = .ok q' ∧ Rel q' (t.apply op) ∧
      q'.entries.length ≤ q.entries.length + 1 := by
  obtain ⟨q', e1, e2, e3, e4⟩ := apply_abs h.1 hb op hw
  exact ⟨q', e1, ⟨e2, e4.trans (apply_equiv h.equiv op
    (fun hn => onePerSeg_equiv h.equiv.symm (h1 hn)))⟩, e3⟩

/-- General form: along the sequence, whenever an operation that looks up "the entry of a
segment" is executed, the two-list state has at most one entry per segment. -/
theorem refines_run (ops : List Op) (hw : ∀ op ∈ ops, op.wf) (q : IQ) (t : Queue) (h : Rel q t)
    (hb : q.entries.length + ops.length ≤ usizeMax)
    (h1 : ∀ k (hk : k < ops.length), ops[k].needsOne = true →
      OnePerSeg ((ops.take k).foldl Queue.apply t)) :
    ∃ q', IQ.run ops q = .ok q' ∧ Rel q' (ops.foldl Queue.apply t) := by
  induction ops generalizing q t with
  | nil => exact ⟨q, rfl, h⟩
  | cons op ops ih =>
    simp only [List.length_cons] at hb
    obtain ⟨q1, e1, e2, e3⟩ := apply_refines h op (fun hn => h1 0 (by simp) hn) (by omega)
      (hw op (List.mem_cons_self ..))
    obtain ⟨q', f1, f2⟩ := ih (fun o ho => hw o (List.mem_cons_of_mem _ ho)) q1 (t.apply op) e2
      (by omega) (fun k hk hn => by
        have := h1 (k + 1) (by simp only [List.length_cons]; omega) (by simpa using hn)
        simpa using this)
    exact ⟨q', by simp only [IQ.run, e1, f1], by simpa using f2⟩

theorem refines_seq_gen (ops : List Op) (hw : ∀ op ∈ ops, op.wf) (hlen : ops.length ≤ usizeMax)
    (h1 : ∀ k (hk : k < ops.length), ops[k].needsOne = true →
      OnePerSeg ((ops.take k).foldl Queue.apply Queue.new)) :
    ∃ q', IQ.run ops IQ.new = .ok q' ∧ Rel q' (ops.foldl Queue.apply Queue.new) :=
  refines_run ops hw IQ.new Queue.new rel_new (by simp only [IQ.new, List.length_nil]; omega) h1

/-- Every sequence of operations without `push_duplicate` (call-site style 1: searches, sync),
run on the index-level model from the empty queue, succeeds and ends in a state related to the
two-list model's state. -/
theorem refines_seq (ops : List Op) (hd : ∀ op ∈ ops, op.isDup = false) (hw : ∀ op ∈ ops, op.wf)
    (hlen : ops.length ≤ usizeMax) :
    ∃ q', IQ.run ops IQ.new = .ok q' ∧ Rel q' (ops.foldl Queue.apply Queue.new) :=
  refines_seq_gen ops hw hlen (fun k _ _ =>
    reachable_onePerSeg (ops.take k) (fun o ho => hd o (List.mem_of_mem_take ho)))

/-- Every sequence that uses only `push_duplicate`, the pops, `pop_duplicates`, the drains and
`clear` (call-site style 2: the convergence pre-pass) refines too; duplicates are allowed. -/
theorem refines_seq_dup (ops : List Op) (hd : ∀ op ∈ ops, op.needsOne = false)
    (hlen : ops.length ≤ usizeMax) :
    ∃ q', IQ.run ops IQ.new = .ok q' ∧ Rel q' (ops.foldl Queue.apply Queue.new) :=
  refines_seq_gen ops (fun o ho => by have := hd o ho; cases o <;> simp_all [Op.wf, Op.needsOne])
    hlen (fun k hk hn => by rw [hd _ (List.getElem_mem hk)] at hn; cases hn)

/-- Consequence for the observables after ANY such sequence: what `pop_covered` returns next is
what the two-list model returns (same for the other per-operation theorems above). -/
theorem refines_seq_popCovered (ops : List Op) (hd : ∀ op ∈ ops, op.isDup = false)
    (hw : ∀ op ∈ ops, op.wf) (hlen : ops.length ≤ usizeMax) :
    ∃ q q', IQ.run ops IQ.new = .ok q ∧
      q.popCovered = .ok ((ops.foldl Queue.apply Queue.new).popCovered.1, q') := by
  obtain ⟨q, e1, e2⟩ := refines_seq ops hd hw hlen
  obtain ⟨q', f1, _⟩ := popCovered_refines e2
  exact ⟨q, q', e1, f1⟩

/-! ## non-vacuity: concrete related states, concrete runs, and reachable failure outcomes when the
invariant is violated (so "never fails" is a real statement) -/

example : Rel ⟨[⟨5, 1⟩, ⟨3, 2⟩, ⟨7, 4⟩], 2⟩ ⟨[⟨3, 2⟩, ⟨5, 1⟩], [⟨7, 4⟩]⟩ := by
  refine ⟨by decide, ?_, ?_⟩ <;> decide
example : OnePerSeg ⟨[⟨3, 2⟩, ⟨5, 1⟩], [⟨7, 4⟩]⟩ := by unfold OnePerSeg; decide
example : IQ.run [.push ⟨1, 1⟩, .pushCovered ⟨2, 1⟩ true, .push ⟨2, 2⟩, .push ⟨3, 3⟩,
    .pushCovered ⟨9, 4⟩ true, .pushCovered ⟨4, 1⟩ false] IQ.new
    = .ok ⟨[⟨2, 2⟩, ⟨3, 3⟩, ⟨4, 1⟩, ⟨9, 4⟩], 3⟩ := rfl
example : (IQ.popCovered ⟨[⟨5, 1⟩, ⟨3, 2⟩, ⟨7, 4⟩], 2⟩) = .ok (some (⟨7, 4⟩, true), ⟨[⟨5, 1⟩, ⟨3, 2⟩], 2⟩) := rfl
example : (IQ.drainAbove ⟨[⟨5, 1⟩, ⟨3, 2⟩, ⟨6, 3⟩, ⟨7, 4⟩, ⟨1, 5⟩], 3⟩ 4)
    = .ok ([⟨5, 1⟩, ⟨6, 3⟩], ⟨[⟨3, 2⟩, ⟨1, 5⟩], 1⟩) := rfl
-- invariant violated (`part > len`): the index panic IS reachable in the model
example : IQ.popCovered ⟨[⟨5, 1⟩], 3⟩ = .error .oob := rfl
example : IQ.drainAll ⟨[], 1⟩ = .error .oob := rfl
-- `longest_mc` beyond `u64`: the `assume` branch IS reachable in the model
example : IQ.coverUpTo ⟨[⟨0, 1⟩], 1⟩ 1 u64Max (u64Max + 1) = .error .bug := rfl

end AranyaV.Queue
