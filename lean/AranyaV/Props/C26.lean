import AranyaV.Proofs.Serialize
/-!
# C26 — Command struct serialization round-trips and rejects bad input

Property: *for every struct value that matches its schema (nested structs, enums, ids, bytes,
text, optionals, results) deserializing its serialization yields the same value; deserializing
arbitrary bytes never panics and fails on truncated input, trailing data, invalid option or
result tags, enum values outside the definition, text that is not valid UTF-8 or contains NUL,
ids of the wrong length.*

Model: `AranyaV.Model.Serialize` (`serVal`/`serializeStruct`, `deVal`/`deStruct`/
`deserializeStruct`) over `AranyaV.Model.Wire`; "matches its schema" is `fits`
(`Proofs/Serialize.lean`).  All theorems quantify over every schema (`ds`, `es`), value, byte
string and recursion budget; the budget only has to cover the value's struct nesting depth
(`sdepth`), and `struct_rt_acyclic` shows that for acyclic definitions the driver's budget
`defaultFuel` always does.  "Never panics": `serVal`/`deserializeStruct` are total functions into
`Except`; the model has no panic outcome because the Rust functions contain no panic-capable
construct on these paths (slices are split with `split_off`/`split_first_chunk`, shifts are
`< 64`), which the harness checks by running the real code under `catch_unwind`.
-/
namespace AranyaV.Serialize
open AranyaV.Wire AranyaV.Gen.SerializeTags

/-! ## wire primitives -/

/-- varint round trip, `u64`/`usize` (every value below 2^64, any continuation) -/
theorem varint_rt (n : Nat) (h : n < 2 ^ 64) (rest : Bytes) :
    varintDec 64 (varintEnc 64 n ++ rest) = .ok (n, rest) := varint64_rt n h rest

example : varintDec 64 (varintEnc 64 (2 ^ 64 - 1) ++ [7]) = .ok (2 ^ 64 - 1, [7]) :=
  varint_rt _ (by decide) _

/-- zig-zag round trip on all integers, and the image of `i64` fits `u64` -/
theorem zigzag_rt' (x : Int) : unzigzag (zigzag x) = x ∧ (inI64 x → zigzag x < 2 ^ 64) :=
  ⟨zigzag_rt x, zigzag_lt⟩

example : zigzag (-(2 : Int) ^ 63) = 2 ^ 64 - 1 ∧ inI64 (-(2 : Int) ^ 63) := by decide

/-! ## round trip -/

/-- **`value_rt`**: a value that fits its type serializes, and the deserializer applied to the
serialization followed by anything returns the value and exactly what followed. -/
theorem value_rt (ds : List StructDef) (es : List EnumDef) (v : Val) (t : Ty) (fuel : Nat)
    (hf : fits ds es v t = true) (hd : sdepth v ≤ fuel) :
    ∃ enc, serVal ds v = .ok enc ∧
      ∀ rest, deVal es (deStruct ds es fuel) t (enc ++ rest) = .ok (v, rest) := by
  obtain ⟨enc, hs, g⟩ := good_enc ds es tagsOK v t fuel hf hd
  exact ⟨enc, hs, g.1⟩

/-- **`struct_rt`**: `Machine::deserialize_struct(name, Machine::serialize_struct(s)) = s` -/
theorem struct_rt (ds : List StructDef) (es : List EnumDef) (n : Nat) (fs : List (Nat × Val))
    (fuel : Nat) (hf : fits ds es (.struct n fs) (.struct n) = true)
    (hd : sdepth (.struct n fs) ≤ fuel) :
    ∃ enc, serializeStruct ds n fs = .ok enc ∧
      deserializeStruct ds es fuel n enc = .ok (.struct n fs) := by
  obtain ⟨enc, hs, hrt⟩ := value_rt ds es _ _ fuel hf hd
  refine ⟨enc, hs, ?_⟩
  have := hrt []
  simp only [List.append_nil, deVal] at this
  simp [deserializeStruct, this]

/-- with acyclic definitions (a rank function, bounded by the number of definitions) the
driver's budget `defaultFuel ds = ds.length + 1` is enough for every conforming value: the
budget is an artefact of the model, not a restriction -/
theorem struct_rt_acyclic (ds : List StructDef) (es : List EnumDef) (rank : Nat → Nat)
    (hA : Acyclic ds rank) (hB : ∀ n, rank n ≤ ds.length)
    (n : Nat) (fs : List (Nat × Val)) (hf : fits ds es (.struct n fs) (.struct n) = true) :
    ∃ enc, serializeStruct ds n fs = .ok enc ∧
      deserializeStruct ds es (defaultFuel ds) n enc = .ok (.struct n fs) := by
  apply struct_rt ds es n fs _ hf
  have := sdepth_le ds es rank hA _ _ hf
  simp only [tyRank] at this
  have := hB n
  simp only [defaultFuel]; omega

section Example
/-- `struct 1 { f7: option[struct 2], f5: int, f3: result[id, enum 4] }`,
`struct 2 { f1: string, f2: bytes, f9: bool }`, `enum 4 { -3, 0, 9 }`;
definition order is not name order -/
def exDs : List StructDef :=
  [⟨1, [(7, .optional (.struct 2)), (5, .int), (3, .result .id (.enum 4))]⟩,
   ⟨2, [(1, .string), (2, .bytes), (9, .bool)]⟩]
def exEs : List EnumDef := [⟨4, [-3, 0, 9]⟩]
def exVal : List (Nat × Val) :=
  [(3, .err (.enum 4 9)), (5, .int (-300)),
   (7, .some (.struct 2 [(1, .string [0xC3, 0xA9]), (2, .bytes [0, 255]), (9, .bool true)]))]
def exRank (n : Nat) : Nat := if n = 1 then 1 else 0

example : fits exDs exEs (.struct 1 exVal) (.struct 1) = true := by decide
example : sdepth (.struct 1 exVal) = 2 := by decide
example : serializeStruct exDs 1 exVal
    = .ok [1, 2, 0xC3, 0xA9, 2, 0, 255, 1, 0xD7, 0x04, 1, 18] := by rfl
example : Acyclic exDs exRank ∧ ∀ n, exRank n ≤ exDs.length := by
  constructor
  · intro n items h f t hm
    simp only [exDs, findStruct] at h
    split at h
    · rename_i h1; cases h; subst h1
      simp at hm
      rcases hm with ⟨_, rfl⟩ | ⟨_, rfl⟩ | ⟨_, rfl⟩ <;> simp [tyRank, exRank]
    · split at h
      · rename_i h1 h2; cases h; subst h2
        simp at hm
        rcases hm with ⟨_, rfl⟩ | ⟨_, rfl⟩ | ⟨_, rfl⟩ <;> simp [tyRank]
      · cases h
  · intro n; simp only [exRank, exDs]; split <;> simp
end Example

/-! ## the decoder consumes a prefix of its input -/

/-- **`deser_prefix`**: whatever the deserializer returns as remainder is a suffix of its input;
it is a function of the received bytes only and cannot read past them -/
theorem deser_prefix (ds : List StructDef) (es : List EnumDef) (fuel n : Nat) (bs : Bytes)
    (v : Val) (rest : Bytes) (h : deStruct ds es fuel n bs = .ok (v, rest)) :
    ∃ used, bs = used ++ rest :=
  deStruct_prefix ds es fuel n bs v rest h

theorem deser_value_prefix (ds : List StructDef) (es : List EnumDef) (fuel : Nat) (t : Ty)
    (bs : Bytes) (v : Val) (rest : Bytes)
    (h : deVal es (deStruct ds es fuel) t bs = .ok (v, rest)) : ∃ used, bs = used ++ rest :=
  deVal_prefix es _ (deStruct_prefix ds es fuel) t bs v rest h

example : deStruct exDs exEs 3 2 [1, 0x61, 0, 1, 9, 9] = .ok (.struct 2 [(1, .string [0x61]), (2, .bytes []), (9, .bool true)], [9, 9]) := by
  rfl

/-- **`deser_total`**: the deserializer is a total function; its only outcomes are a value or
one of the `DeserializeError`s (`depth` = unbounded recursion, excluded for acyclic
definitions by `struct_rt_acyclic`) -/
theorem deser_total (ds : List StructDef) (es : List EnumDef) (fuel n : Nat) (bs : Bytes) :
    (∃ v, deserializeStruct ds es fuel n bs = .ok v) ∨
    (∃ e, deserializeStruct ds es fuel n bs = .error e) := by
  cases deserializeStruct ds es fuel n bs with
  | ok v => exact Or.inl ⟨v, rfl⟩
  | error e => exact Or.inr ⟨e, rfl⟩

/-! ## rejection, one lemma per clause -/

/-- **truncation ⇒ `UnexpectedEnd`**: every proper prefix of the serialization of a conforming
struct is rejected with `UnexpectedEnd` -/
theorem reject_truncated (ds : List StructDef) (es : List EnumDef) (n : Nat)
    (fs : List (Nat × Val)) (fuel : Nat) (hf : fits ds es (.struct n fs) (.struct n) = true)
    (hd : sdepth (.struct n fs) ≤ fuel) (enc p q : Bytes)
    (hs : serializeStruct ds n fs = .ok enc) (hpq : p ++ q = enc) (hq : q ≠ []) :
    deserializeStruct ds es fuel n p = .error .unexpectedEnd := by
  obtain ⟨enc', hs', g⟩ := good_enc ds es tagsOK _ _ fuel hf hd
  have : enc' = enc := by
    have := hs'.symm.trans hs
    simpa using this
  subst this
  have := g.2 p q hpq hq
  simp only [deVal] at this
  simp [deserializeStruct, this]

/-- truncation inside any conforming value (field level) -/
theorem reject_truncated_value (ds : List StructDef) (es : List EnumDef) (v : Val) (t : Ty)
    (fuel : Nat) (hf : fits ds es v t = true) (hd : sdepth v ≤ fuel) (enc p q : Bytes)
    (hs : serVal ds v = .ok enc) (hpq : p ++ q = enc) (hq : q ≠ []) :
    deVal es (deStruct ds es fuel) t p = .error .unexpectedEnd := by
  obtain ⟨enc', hs', g⟩ := good_enc ds es tagsOK _ _ fuel hf hd
  have : enc' = enc := by
    have := hs'.symm.trans hs
    simpa using this
  subst this
  exact g.2 p q hpq hq

example : deserializeStruct exDs exEs 3 1 [1, 2, 0xC3, 0xA9, 2, 0, 255, 1, 0xD7, 0x04, 1]
    = .error .unexpectedEnd := by rfl

/-- **leftover ⇒ `TrailingData`**: the serialization of a conforming struct followed by at least
one more byte is rejected with `TrailingData` -/
theorem reject_trailing (ds : List StructDef) (es : List EnumDef) (n : Nat)
    (fs : List (Nat × Val)) (fuel : Nat) (hf : fits ds es (.struct n fs) (.struct n) = true)
    (hd : sdepth (.struct n fs) ≤ fuel) (enc extra : Bytes)
    (hs : serializeStruct ds n fs = .ok enc) (he : extra ≠ []) :
    deserializeStruct ds es fuel n (enc ++ extra) = .error .trailingData := by
  obtain ⟨enc', hs', hrt⟩ := value_rt ds es _ _ fuel hf hd
  have : enc' = enc := by
    have := hs'.symm.trans hs
    simpa using this
  subst this
  have := hrt extra
  simp only [deVal] at this
  simp [deserializeStruct, this, he]

/-- in general: whenever the struct decoder stops before the end of the input, the top level
reports `TrailingData`; it accepts only when everything was consumed -/
theorem trailing_general (ds : List StructDef) (es : List EnumDef) (fuel n : Nat) (bs : Bytes)
    (v : Val) (rest : Bytes) (h : deStruct ds es fuel n bs = .ok (v, rest)) :
    deserializeStruct ds es fuel n bs = if rest = [] then .ok v else .error .trailingData := by
  simp [deserializeStruct, h]

example : deserializeStruct exDs exEs 3 2 [1, 0x61, 0, 1, 9, 9] = .error .trailingData := by rfl

/-- **option tag ∉ {none, some} ⇒ `BadInput`** (whatever the payload type and the rest) -/
theorem reject_option_tag (es : List EnumDef) (sd : Nat → Bytes → DeRes) (t : Ty) (tag : UInt8)
    (bs : Bytes) (h0 : tag.toNat ≠ deNone) (h1 : tag.toNat ≠ deSome) :
    deVal es sd (.optional t) (tag :: bs) = .error .badInput := by
  simp [deVal, pop, h0, h1]

/-- the generated tag values: the accepted option tags are exactly 0 and 1 -/
theorem option_tags : deNone = 0 ∧ deSome = 1 ∧ deOk = 0 ∧ deErr = 1 := by decide

example : deVal exEs (deStruct exDs exEs 3) (.optional .int) [2, 0] = .error .badInput :=
  reject_option_tag _ _ _ 2 _ (by decide) (by decide)

/-- **result tag ∉ {ok, err} ⇒ `BadInput`** -/
theorem reject_result_tag (es : List EnumDef) (sd : Nat → Bytes → DeRes) (a b : Ty) (tag : UInt8)
    (bs : Bytes) (h0 : tag.toNat ≠ deOk) (h1 : tag.toNat ≠ deErr) :
    deVal es sd (.result a b) (tag :: bs) = .error .badInput := by
  simp [deVal, pop, h0, h1]

example : deVal exEs (deStruct exDs exEs 3) (.result .int .bool) [0x80, 0] = .error .badInput :=
  reject_result_tag _ _ _ _ 0x80 _ (by decide) (by decide)

/-- **enum value outside the definition ⇒ `BadInput`** -/
theorem reject_enum_value (es : List EnumDef) (sd : Nat → Bytes → DeRes) (n : Nat)
    (vs : List Int) (bs : Bytes) (x : Int) (rest : Bytes) (hdef : findEnum es n = some vs)
    (hx : i64Dec bs = .ok (x, rest)) (hnot : x ∉ vs) :
    deVal es sd (.enum n) bs = .error .badInput := by
  simp [deVal, hdef, hx, hnot]

example : deVal exEs (deStruct exDs exEs 3) (.enum 4) [2] = .error .badInput := by rfl

/-- **text that is not valid UTF-8 ⇒ `BadInput`** -/
theorem reject_invalid_utf8 (es : List EnumDef) (sd : Nat → Bytes → DeRes) (bs s rest : Bytes)
    (hb : bytesDec bs = .ok (s, rest)) (hu : validUtf8 s = false) :
    deVal es sd .string bs = .error .badInput := by
  simp [deVal, hb, hu]

example : deVal exEs (deStruct exDs exEs 3) .string [2, 0xC0, 0x80] = .error .badInput := by rfl
example : validUtf8 [0xED, 0xA0, 0x80] = false ∧ validUtf8 [0xF4, 0x90, 0x80, 0x80] = false ∧
    validUtf8 [0xE2, 0x82, 0xAC, 0xF0, 0x9F, 0x98, 0x80] = true := by decide

/-- **text containing NUL ⇒ `BadInput`** -/
theorem reject_nul (es : List EnumDef) (sd : Nat → Bytes → DeRes) (bs s rest : Bytes)
    (hb : bytesDec bs = .ok (s, rest)) (h0 : (0 : UInt8) ∈ s) :
    deVal es sd .string bs = .error .badInput := by
  simp [deVal, hb, h0]

example : deVal exEs (deStruct exDs exEs 3) .string [3, 0x61, 0, 0x62] = .error .badInput := by rfl

/-- **id length ≠ 32 ⇒ `BadInput`** -/
theorem reject_id_length (es : List EnumDef) (sd : Nat → Bytes → DeRes) (len : UInt8) (bs : Bytes)
    (h : len.toNat ≠ idSize) : deVal es sd .id (len :: bs) = .error .badInput := by
  simp [deVal, pop, h]

theorem id_size : idSize = 32 := by decide

example : deVal exEs (deStruct exDs exEs 3) .id (31 :: List.replicate 31 0) = .error .badInput :=
  reject_id_length _ _ 31 _ (by decide)

/-- a field of type `never` is always rejected -/
theorem reject_never (es : List EnumDef) (sd : Nat → Bytes → DeRes) (bs : Bytes) :
    deVal es sd .never bs = .error .badInput := by
  simp [deVal]

/-- over-long or over-large varints (more than 10 bytes, or a 10th byte above 1) ⇒ `BadInput`
for ints, enum values and lengths -/
theorem reject_varint_overflow (es : List EnumDef) (sd : Nat → Bytes → DeRes) (bs : Bytes)
    (h : varintDec 64 bs = .error .bad) : deVal es sd .int bs = .error .badInput := by
  simp [deVal, i64Dec, h, liftErr]

example : varintDec 64 (List.replicate 9 0xFF ++ [2]) = .error .bad ∧
    varintDec 64 (List.replicate 10 0x80 ++ [0]) = .error .bad := ⟨by rfl, by rfl⟩

/-! ### a failing field fails the struct (how the field-level rejections reach the top level) -/

/-- the field loop stops at the first failing field with that field's error … -/
theorem field_error_propagates (f : Ty → Bytes → DeRes) (n : Nat) (t : Ty)
    (items : List (Nat × Ty)) (acc : List (Nat × Val)) (bs : Bytes) (e : DeErr)
    (h : f t bs = .error e) : deFields f ((n, t) :: items) acc bs = .error e := by
  simp [deFields, h]

/-- … and otherwise continues with the remainder of the input -/
theorem field_ok_continues (f : Ty → Bytes → DeRes) (n : Nat) (t : Ty)
    (items : List (Nat × Ty)) (acc : List (Nat × Val)) (bs : Bytes) (v : Val) (rest : Bytes)
    (h : f t bs = .ok (v, rest)) :
    deFields f ((n, t) :: items) acc bs = deFields f items (insertField acc n v) rest := by
  simp [deFields, h]

/-- a failing field list fails `deserialize_struct` with the same error -/
theorem struct_error_propagates (ds : List StructDef) (es : List EnumDef) (fuel n : Nat)
    (items : List (Nat × Ty)) (bs : Bytes) (e : DeErr) (hfind : findStruct ds n = some items)
    (h : deFields (deVal es (deStruct ds es fuel)) items [] bs = .error e) :
    deserializeStruct ds es (fuel + 1) n bs = .error e := by
  simp [deserializeStruct, deStruct_succ ds es fuel n bs items hfind, h]

/-- a failing payload fails the enclosing `option`/`result` with the same error -/
theorem payload_error_propagates (es : List EnumDef) (sd : Nat → Bytes → DeRes) (t a b : Ty)
    (bs : Bytes) (e : DeErr) :
    (deVal es sd t bs = .error e →
      deVal es sd (.optional t) (UInt8.ofNat serSome :: bs) = .error e) ∧
    (deVal es sd a bs = .error e →
      deVal es sd (.result a b) (UInt8.ofNat serOk :: bs) = .error e) ∧
    (deVal es sd b bs = .error e →
      deVal es sd (.result a b) (UInt8.ofNat serErr :: bs) = .error e) := by
  refine ⟨fun h => ?_, fun h => ?_, fun h => ?_⟩
  · rw [deVal_some es tagsOK, h]
  · rw [deVal_ok es tagsOK, h]
  · rw [deVal_err es tagsOK, h]

-- an option tag 2 in the *second* field of a nested struct is rejected at the top level
example : deserializeStruct exDs exEs 3 1 [2, 0, 0] = .error .badInput := by rfl

/-! ## soundness: the converse of the round trip -/

/-- **`deser_sound`**: whatever `deserialize_struct` accepts matches the schema — its texts are
valid UTF-8 without NUL, its ids have 32 bytes, its enum values are members of their definition,
its integers are `i64`, its struct values have exactly the declared fields.  Together with the
tag lemmas this is the global form of the rejection clauses: an input is accepted only if every
field it contains is well-formed.  (`WFDefs`: field names of a definition are distinct.) -/
theorem deser_sound (ds : List StructDef) (es : List EnumDef) (hwf : WFDefs ds) (fuel n : Nat)
    (bs : Bytes) (v : Val) (h : deserializeStruct ds es fuel n bs = .ok v) :
    fits ds es v (.struct n) = true := by
  unfold deserializeStruct at h
  split at h
  · rename_i v' rest heq
    split at h
    · simp only [Except.ok.injEq] at h
      subst h
      exact deStruct_sound ds es hwf fuel n bs v' rest heq
    · cases h
  · cases h

/-- every accepted value serializes again, and that serialization decodes back to it -/
theorem accepted_reserializes (ds : List StructDef) (es : List EnumDef) (hwf : WFDefs ds)
    (fuel n : Nat) (bs : Bytes) (v : Val) (h : deserializeStruct ds es fuel n bs = .ok v) :
    ∃ fs enc, v = .struct n fs ∧ serializeStruct ds n fs = .ok enc ∧
      deserializeStruct ds es (sdepth v) n enc = .ok v := by
  have hf := deser_sound ds es hwf fuel n bs v h
  cases v <;> simp [fits] at hf
  rename_i n' fs
  obtain ⟨hn, _⟩ := hf
  subst hn
  have hf' := deser_sound ds es hwf fuel n' bs _ h
  obtain ⟨enc, hs, hd⟩ := struct_rt ds es n' fs (sdepth (.struct n' fs)) hf' (Nat.le_refl _)
  exact ⟨fs, enc, rfl, hs, hd⟩

example : WFDefs exDs := by
  intro n items h
  simp only [exDs, findStruct] at h
  split at h
  · cases h; decide
  · split at h
    · cases h; decide
    · cases h

end AranyaV.Serialize
