import AranyaV.Proofs.Finish
/-!
# C30 — Facts and effects change only inside finish blocks

* `finish_only` (static): for every program the context rules accept, the emitted code has no
  `Create/Update/Delete/Emit` outside a finish region, every finish region's body is straight-line
  finish code followed by `Exit`, pure functions have no effectful instruction at all, finish
  functions are straight-line finish code.
* `no_effect_on_fail` (dynamic): a run of such a program that ends in `Exit(Panic)`, or in
  `Exit(Check)` without having executed `Recall`, has issued no fact write and no effect — for
  every decision list (every data-dependent branch outcome) and every fuel.
* `check_implies_recalled`: in fact `Exit(Check)` is only ever reached through `Recall`.
* `recall_marked`: every fact write / effect issued by recall-block code carries the `recalled`
  marker, and nothing else does.
-/
namespace AranyaV.Finish

/-! ## dynamic lemmas -/

/-- finish code with `Return` allowed (code of a finish function) -/
def finNodeR (fl : Flags) : Node → Bool
  | .ret => true
  | n => finNode fl n

def finPureR (fl : Flags) : Code → Bool
  | .nil => true
  | .cons n rest => finNodeR fl n && finPureR fl rest

/-- what the compiler guarantees about a whole program (`finFns`: as a Boolean shape) -/
structure WF (p : Program) (fl : Flags) : Prop where
  pureFns : ∀ (f : Nat) (c : Code), p.fns[f]? = some c → fl[f]? = some false →
    noBare fl c = true ∧ noCheck c = true
  finFns : ∀ (f : Nat) (c : Code), p.fns[f]? = some c → fl[f]? = some true → finPureR fl c = true
  recalls : ∀ (r : Nat) (c : Code), p.recalls[r]? = some c → noBare fl c = true

theorem finPure_R {fl : Flags} : ∀ {c : Code}, finPure fl c = true → finPureR fl c = true
  | .nil, _ => rfl
  | .cons n rest, h => by
    simp only [finPure, Bool.and_eq_true] at h
    simp only [finPureR, Bool.and_eq_true]
    refine ⟨?_, finPure_R h.2⟩
    cases n <;> simp_all [finNodeR, finNode]

/-- finish code never exits, and leaves the context flag alone -/
theorem run_finR {p : Program} {fl : Flags} (wf : WF p fl) :
    ∀ (fuel : Nat) (ir : Bool) (c : Code) (ds : List Nat) (st : St), finPureR fl c = true →
      match run p fuel ir c ds st with
      | .exit _ _ => False
      | .fall _ st' => st'.recalled = st.recalled
      | .ret _ st' => st'.recalled = st.recalled
      | _ => True
  | 0, _, _, _, _, _ => by simp [run]
  | fuel + 1, ir, .nil, ds, st, _ => by simp [run]
  | fuel + 1, ir, .cons n rest, ds, st, h => by
    simp only [finPureR, Bool.and_eq_true] at h
    obtain ⟨hn, hr⟩ := h
    cases n with
    | op => simp only [run]; exact run_finR wf fuel ir rest ds st hr
    | eff k =>
      simp only [run]
      cases ds with
      | nil => trivial
      | cons d ds' =>
        simp only
        by_cases hd : (d != 0) = true
        · rw [if_pos hd]; trivial
        · rw [if_neg hd]
          have ih := run_finR wf fuel ir rest ds' { st with log := st.log ++ [⟨k, st.recalled, ir⟩] } hr
          exact ih
    | callFn f =>
      simp only [run]
      have hf : fl[f]? = some true := by simpa [finNodeR, finNode] using hn
      cases hc : p.fns[f]? with
      | none => trivial
      | some c =>
        simp only
        have ih := run_finR wf fuel ir c ds st (wf.finFns f c hc hf)
        cases hres : run p fuel ir c ds st with
        | ret ds' st' =>
          rw [hres] at ih
          simp only
          have ih2 := run_finR wf fuel ir rest ds' st' hr
          cases hres2 : run p fuel ir rest ds' st' <;> rw [hres2] at ih2 <;> simp_all
        | fall ds' st' => trivial
        | exit r st' => rw [hres] at ih; exact ih
        | err st' => trivial
        | oof => trivial
    | ret => simp [run]
    | exit r => simp [finNodeR, finNode] at hn
    | choice a => simp [finNodeR, finNode] at hn
    | loop b => simp [finNodeR, finNode] at hn
    | finishRegion b r => simp [finNodeR, finNode] at hn
    | recall r => simp [finNodeR, finNode] at hn
    | publish => simp [finNodeR, finNode] at hn

/-- the body of a finish region never returns -/
theorem run_fin_noret {p : Program} {fl : Flags} :
    ∀ (fuel : Nat) (ir : Bool) (c : Code) (ds : List Nat) (st : St), finPure fl c = true →
      ∀ ds' st', run p fuel ir c ds st ≠ .ret ds' st'
  | 0, _, _, _, _, _ => by simp [run]
  | fuel + 1, ir, .nil, ds, st, _ => by simp [run]
  | fuel + 1, ir, .cons n rest, ds, st, h => by
    simp only [finPure, Bool.and_eq_true] at h
    obtain ⟨hn, hr⟩ := h
    intro ds' st'
    cases n with
    | op => simp only [run]; exact run_fin_noret fuel ir rest ds st hr ds' st'
    | eff k =>
      simp only [run]
      cases ds with
      | nil => simp
      | cons d dss =>
        simp only
        by_cases hd : (d != 0) = true
        · rw [if_pos hd]; simp
        · rw [if_neg hd]
          exact run_fin_noret fuel ir rest dss _ hr ds' st'
    | callFn f =>
      simp only [run]
      cases hc : p.fns[f]? with
      | none => simp
      | some c =>
        simp only
        cases hres : run p fuel ir c ds st with
        | ret ds2 st2 => simp only; exact run_fin_noret fuel ir rest ds2 st2 hr ds' st'
        | fall ds2 st2 => simp
        | exit r st2 => simp
        | err st2 => simp
        | oof => simp
    | ret => simp [finNode] at hn
    | exit r => simp [finNode] at hn
    | choice a => simp [finNode] at hn
    | loop b => simp [finNode] at hn
    | finishRegion b r => simp [finNode] at hn
    | recall r => simp [finNode] at hn
    | publish => simp [finNode] at hn

/-- the invariant of code without bare effects -/
def Inv (st : St) : Res → Prop
  | .fall _ st' => st' = st
  | .ret _ st' => st' = st
  | .exit .panic st' => st'.log = st.log
  | .exit .check st' => st'.recalled = true
  | _ => True

theorem run_noBare {p : Program} {fl : Flags} (wf : WF p fl) :
    ∀ (fuel : Nat) (ir : Bool) (c : Code) (ds : List Nat) (st : St), noBare fl c = true →
      (st.recalled = true ∨ noCheck c = true) → Inv st (run p fuel ir c ds st)
  | 0, _, _, _, _, _, _ => by simp [run, Inv]
  | fuel + 1, ir, .nil, ds, st, _, _ => by simp [run, Inv]
  | fuel + 1, ir, .cons n rest, ds, st, h, hk => by
    simp only [noBare, Bool.and_eq_true] at h
    obtain ⟨hn, hr⟩ := h
    have hk' : st.recalled = true ∨ (noCheckNode n = true ∧ noCheck rest = true) := by
      rcases hk with hk | hk
      · exact Or.inl hk
      · simp only [noCheck, Bool.and_eq_true] at hk; exact Or.inr hk
    have hkr : st.recalled = true ∨ noCheck rest = true := hk'.imp id (·.2)
    -- continuing with `rest` after a sub-run that satisfied `Inv st`
    have cont : ∀ (r : Res), Inv st r →
        Inv st (match r with
          | .fall ds' st' => run p fuel ir rest ds' st'
          | other => other) := by
      intro r hi
      cases r with
      | fall ds' st' =>
        simp only [Inv] at hi; subst hi
        exact run_noBare wf fuel ir rest ds' st' hr hkr
      | ret ds' st' => exact hi
      | exit r st' => exact hi
      | err st' => exact hi
      | oof => exact hi
    cases n with
    | op => simp only [run]; exact run_noBare wf fuel ir rest ds st hr hkr
    | publish => simp only [run]; exact run_noBare wf fuel ir rest ds st hr hkr
    | ret => simp [run, Inv]
    | eff k => simp [noBareNode] at hn
    | exit r =>
      simp only [run]
      cases r with
      | normal => simp [Inv]
      | panic => simp [Inv]
      | check =>
        simp only [Inv]
        rcases hk' with hk' | hk'
        · exact hk'
        · simp [noCheckNode] at hk'
    | choice alts =>
      simp only [run]
      cases ds with
      | nil => simp [Inv]
      | cons d ds' =>
        simp only
        cases ha : nthAlt alts d with
        | none => simp [Inv]
        | some c =>
          simp only
          have hnb : noBare fl c = true := noBareAlts_nth (by simpa [noBareNode] using hn) ha
          have hkc : st.recalled = true ∨ noCheck c = true :=
            hk'.imp id (fun h => noCheckAlts_nth (by simpa [noCheckNode] using h.1) ha)
          exact cont _ (run_noBare wf fuel ir c ds' st hnb hkc)
    | loop body =>
      simp only [run]
      cases ds with
      | nil => simp [Inv]
      | cons d ds' =>
        simp only
        by_cases hd : (d == 0) = true
        · rw [if_pos hd]; exact run_noBare wf fuel ir rest ds' st hr hkr
        · rw [if_neg hd]
          have hb : noBare fl body = true := by simpa [noBareNode] using hn
          have hnb : noBare fl (body ++ Code.single (.loop body)) = true := by
            rw [noBare_append]; simp [hb, Code.single, noBare, noBareNode]
          have hkc : st.recalled = true ∨ noCheck (body ++ Code.single (.loop body)) = true :=
            hk'.imp id (fun h => by
              have : noCheck body = true := by simpa [noCheckNode] using h.1
              rw [noCheck_append]; simp [this, Code.single, noCheck, noCheckNode])
          exact cont _ (run_noBare wf fuel ir _ ds' st hnb hkc)
    | finishRegion body r =>
      simp only [run]
      simp only [noBareNode, Bool.and_eq_true, bne_iff_ne, ne_eq] at hn
      obtain ⟨hb, hrp⟩ := hn
      have h1 := run_finR wf fuel ir body ds st (finPure_R hb)
      have h2 := run_fin_noret (p := p) fuel ir body ds st hb
      cases hres : run p fuel ir body ds st with
      | fall ds' st' =>
        rw [hres] at h1
        simp only
        cases r with
        | normal => simp [Inv]
        | panic => exact absurd rfl hrp
        | check =>
          simp only [Inv]
          rw [h1]
          rcases hk' with hk' | hk'
          · exact hk'
          · simp [noCheckNode] at hk'
      | ret ds' st' => exact absurd hres (h2 ds' st')
      | exit r' st' => rw [hres] at h1; exact absurd h1 id
      | err st' => simp [Inv]
      | oof => simp [Inv]
    | callFn f =>
      simp only [run]
      have hf : fl[f]? = some false := by simpa [noBareNode] using hn
      cases hc : p.fns[f]? with
      | none => simp [Inv]
      | some c =>
        simp only
        obtain ⟨hcb, hcc⟩ := wf.pureFns f c hc hf
        have ih := run_noBare wf fuel ir c ds st hcb (Or.inr hcc)
        cases hres : run p fuel ir c ds st with
        | ret ds' st' =>
          rw [hres] at ih; simp only [Inv] at ih; subst ih
          simp only
          exact run_noBare wf fuel ir rest ds' st' hr hkr
        | fall ds' st' => simp [Inv]
        | exit r st' => rw [hres] at ih; exact ih
        | err st' => simp [Inv]
        | oof => simp [Inv]
    | recall r =>
      simp only [run]
      cases hc : p.recalls[r]? with
      | none => simp [Inv]
      | some c =>
        simp only
        have ih := run_noBare wf fuel true c ds { st with recalled := true } (wf.recalls r c hc) (Or.inl rfl)
        cases hres : run p fuel true c ds { st with recalled := true } with
        | ret ds' st' => simp [Inv]
        | fall ds' st' => simp [Inv]
        | exit r' st' =>
          rw [hres] at ih
          cases r' <;> simp_all [Inv]
        | err st' => simp [Inv]
        | oof => simp [Inv]

/-! ## static: what the context rules guarantee about the emitted code -/

def flagsOf (fns : List FnDef) : Flags := fns.map (·.isFinish)

theorem isFinishFn_flags (env : Env) (f : Nat) : isFinishFn env f = (flagsOf env.fns)[f]? := by
  simp [isFinishFn, flagsOf]

/-- the compiler's side condition: `debug_assert` cannot emit an `Exit(Panic)` inside finish code -/
def Safe (env : Env) : Prop := env.strict = true ∨ env.debug = false

theorem acceptExpr_finish {env : Env} {e : Expr} (h : acceptExpr env .finish e = true) : e = .simple := by
  cases e <;> simp_all [acceptExpr]

theorem noBare_compileExpr {env : Env} {ctx : Ctx} {e : Expr} (h : acceptExpr env ctx e = true) :
    noBare (flagsOf env.fns) (compileExpr e) = true := by
  cases e <;> simp_all [acceptExpr, compileExpr, Code.single, noBare, noBareNode, noBareAlts,
    isFinishFn_flags]

theorem noCheck_compileExpr (e : Expr) : noCheck (compileExpr e) = true := by
  cases e <;> simp [compileExpr, Code.single, noCheck, noCheckNode, noCheckAlts]

mutual
  /-- accepted finish-context statements compile to straight-line finish code -/
  theorem fin_stmt {env : Env} (safe : Safe env) (last : Bool) : ∀ (s : Stmt),
      acceptStmt env .finish last s = true →
      finPure (flagsOf env.fns) (compileStmt env.debug .finish s) = true
    | .eff k e, h => by
      simp only [acceptStmt, Bool.and_eq_true] at h
      have := acceptExpr_finish h.2; subst this
      simp [compileStmt, compileExpr, Code.single, Code.cons_append, Code.nil_append, finPure, finNode]
    | .callS f, h => by
      simp only [acceptStmt, Bool.and_eq_true, beq_iff_eq] at h
      simp [compileStmt, Code.single, finPure, finNode, ← isFinishFn_flags, h.2]
    | .debugAssert e, h => by
      simp only [acceptStmt, Bool.and_eq_true] at h
      rcases safe with hs | hd
      · simp [hs] at h
      · simp [compileStmt, hd, finPure]
    | .letS _, h => by simp [acceptStmt, plainCtx] at h
    | .check _ _, h => by simp [acceptStmt, plainCtx] at h
    | .matchS _ _ _, h => by simp [acceptStmt, plainCtx] at h
    | .ifS _ _ _, h => by simp [acceptStmt, plainCtx] at h
    | .finish _, h => by simp [acceptStmt] at h
    | .recallS _, h => by simp [acceptStmt] at h
    | .publish _, h => by simp [acceptStmt] at h
    | .retS _, h => by simp [acceptStmt] at h
    | .mapS _, h => by simp [acceptStmt] at h
    | .actionCall _, h => by simp [acceptStmt] at h
  theorem fin_block {env : Env} (safe : Safe env) : ∀ (b : Block),
      acceptBlock env .finish b = true →
      finPure (flagsOf env.fns) (compileBlock env.debug .finish b) = true
    | .nil, _ => by simp [compileBlock, finPure]
    | .cons s rest, h => by
      simp only [acceptBlock, Bool.and_eq_true] at h
      simp only [compileBlock, finPure_append, Bool.and_eq_true]
      exact ⟨fin_stmt safe _ s h.1, fin_block safe rest h.2⟩
end

mutual
  /-- accepted statements of a non-finish context compile to code without bare effects -/
  theorem nb_stmt {env : Env} (safe : Safe env) (ctx : Ctx) (hctx : ctx ≠ .finish) (last : Bool) :
      ∀ (s : Stmt), acceptStmt env ctx last s = true →
      noBare (flagsOf env.fns) (compileStmt env.debug ctx s) = true
    | .letS e, h => by
      simp only [acceptStmt, Bool.and_eq_true] at h
      simp [compileStmt, noBare_append, noBare_compileExpr h.2, Code.single, noBare, noBareNode]
    | .check c e, h => by
      simp only [acceptStmt, Bool.and_eq_true] at h
      simp [compileStmt, noBare_append, noBare_compileExpr h.1.1.2, noBare_compileExpr h.1.2,
        Code.single, noBare, noBareNode, noBareAlts]
    | .matchS sc arms ex, h => by
      simp only [acceptStmt, Bool.and_eq_true] at h
      have ht : noBareAlts (flagsOf env.fns)
          (if ex then Alts.nil else Alts.cons (Code.single (.exit .panic)) .nil) = true := by
        cases ex <;> simp [noBareAlts, Code.single, noBare, noBareNode]
      have ha := nb_arms safe ctx hctx arms _ h.2 ht
      simp only [Code.single] at ha
      simp [compileStmt, noBare_append, noBare_compileExpr h.1.2, Code.single, noBare, noBareNode, ha]
    | .ifS c arms he, h => by
      simp only [acceptStmt, Bool.and_eq_true] at h
      have ht : noBareAlts (flagsOf env.fns) (Alts.cons Code.nil .nil) = true := by
        simp [noBareAlts, noBare]
      simp [compileStmt, noBare_append, noBare_compileExpr h.1.2, Code.single, noBare, noBareNode,
        nb_arms safe ctx hctx arms _ h.2 ht]
    | .finish body, h => by
      simp only [acceptStmt, Bool.and_eq_true] at h
      have hb := fin_block safe body h.2
      by_cases hr : ctx = .recall <;>
        simp [compileStmt, Code.single, noBare, noBareNode, hb, hr]
    | .eff k e, h => by
      simp only [acceptStmt, Bool.and_eq_true, beq_iff_eq] at h
      exact absurd h.1 hctx
    | .callS f, h => by
      simp only [acceptStmt, Bool.and_eq_true, beq_iff_eq] at h
      exact absurd h.1 hctx
    | .recallS r, h => by simp [compileStmt, Code.single, noBare, noBareNode]
    | .debugAssert e, h => by
      simp only [acceptStmt, Bool.and_eq_true] at h
      cases hd : env.debug <;>
        simp [compileStmt, noBare_append, noBare_compileExpr h.1, Code.single, noBare, noBareNode,
          noBareAlts]
    | .publish e, h => by
      simp only [acceptStmt, Bool.and_eq_true] at h
      simp [compileStmt, noBare_append, noBare_compileExpr h.2, Code.single, noBare, noBareNode]
    | .retS e, h => by
      simp only [acceptStmt, Bool.and_eq_true] at h
      simp [compileStmt, noBare_append, noBare_compileExpr h.2, Code.single, noBare, noBareNode]
    | .mapS body, h => by
      simp only [acceptStmt, Bool.and_eq_true] at h
      simp [compileStmt, Code.single, noBare, noBareNode, nb_block safe ctx hctx body h.2]
    | .actionCall a, h => by simp [compileStmt, Code.single, noBare, noBareNode]
  theorem nb_block {env : Env} (safe : Safe env) (ctx : Ctx) (hctx : ctx ≠ .finish) : ∀ (b : Block),
      acceptBlock env ctx b = true →
      noBare (flagsOf env.fns) (compileBlock env.debug ctx b) = true
    | .nil, _ => by simp [compileBlock, noBare]
    | .cons s rest, h => by
      simp only [acceptBlock, Bool.and_eq_true] at h
      simp only [compileBlock, noBare_append, Bool.and_eq_true]
      exact ⟨nb_stmt safe ctx hctx _ s h.1, nb_block safe ctx hctx rest h.2⟩
  theorem nb_arms {env : Env} (safe : Safe env) (ctx : Ctx) (hctx : ctx ≠ .finish) :
      ∀ (a : Arms) (tail : Alts), acceptArms env ctx a = true →
      noBareAlts (flagsOf env.fns) tail = true →
      noBareAlts (flagsOf env.fns) (compileArms env.debug ctx a tail) = true
    | .nil, tail, _, ht => by simpa [compileArms] using ht
    | .cons b rest, tail, h, ht => by
      simp only [acceptArms, Bool.and_eq_true] at h
      simp only [compileArms, noBareAlts, Bool.and_eq_true]
      exact ⟨nb_block safe ctx hctx b h.1, nb_arms safe ctx hctx rest tail h.2 ht⟩
end

mutual
  /-- outside a `recall` block the compiler never emits `Exit(Check)` -/
  theorem nc_stmt (debug : Bool) (ctx : Ctx) (hctx : ctx ≠ .recall) : ∀ (s : Stmt),
      noCheck (compileStmt debug ctx s) = true
    | .letS e => by simp [compileStmt, noCheck_append, noCheck_compileExpr, Code.single, noCheck, noCheckNode]
    | .check c e => by
      simp [compileStmt, noCheck_append, noCheck_compileExpr, Code.single, noCheck, noCheckNode, noCheckAlts]
    | .matchS sc arms ex => by
      have ht : noCheckAlts (if ex then Alts.nil else Alts.cons (Code.single (.exit .panic)) .nil) = true := by
        cases ex <;> simp [noCheckAlts, Code.single, noCheck, noCheckNode]
      have ha := nc_arms debug ctx hctx arms _ ht
      simp only [Code.single] at ha
      simp [compileStmt, noCheck_append, noCheck_compileExpr, Code.single, noCheck, noCheckNode, ha]
    | .ifS c arms he => by
      have ht : noCheckAlts (Alts.cons Code.nil .nil) = true := by simp [noCheckAlts, noCheck]
      simp [compileStmt, noCheck_append, noCheck_compileExpr, Code.single, noCheck, noCheckNode,
        nc_arms debug ctx hctx arms _ ht]
    | .finish body => by
      simp [compileStmt, Code.single, noCheck, noCheckNode, hctx,
        nc_block debug .finish (by decide) body]
    | .eff k e => by simp [compileStmt, noCheck_append, noCheck_compileExpr, Code.single, noCheck, noCheckNode]
    | .callS f => by simp [compileStmt, Code.single, noCheck, noCheckNode]
    | .recallS r => by simp [compileStmt, Code.single, noCheck, noCheckNode]
    | .debugAssert e => by
      cases debug <;>
        simp [compileStmt, noCheck_append, noCheck_compileExpr, Code.single, noCheck, noCheckNode, noCheckAlts]
    | .publish e => by simp [compileStmt, noCheck_append, noCheck_compileExpr, Code.single, noCheck, noCheckNode]
    | .retS e => by simp [compileStmt, noCheck_append, noCheck_compileExpr, Code.single, noCheck, noCheckNode]
    | .mapS body => by simp [compileStmt, Code.single, noCheck, noCheckNode, nc_block debug ctx hctx body]
    | .actionCall a => by simp [compileStmt, Code.single, noCheck, noCheckNode]
  theorem nc_block (debug : Bool) (ctx : Ctx) (hctx : ctx ≠ .recall) : ∀ (b : Block),
      noCheck (compileBlock debug ctx b) = true
    | .nil => by simp [compileBlock, noCheck]
    | .cons s rest => by
      simp only [compileBlock, noCheck_append, Bool.and_eq_true]
      exact ⟨nc_stmt debug ctx hctx s, nc_block debug ctx hctx rest⟩
  theorem nc_arms (debug : Bool) (ctx : Ctx) (hctx : ctx ≠ .recall) : ∀ (a : Arms) (tail : Alts),
      noCheckAlts tail = true → noCheckAlts (compileArms debug ctx a tail) = true
    | .nil, tail, ht => by simpa [compileArms] using ht
    | .cons b rest, tail, ht => by
      simp only [compileArms, noCheckAlts, Bool.and_eq_true]
      exact ⟨nc_block debug ctx hctx b, nc_arms debug ctx hctx rest tail ht⟩
end

/-! ## the property theorems -/

theorem getElem?_map_some {α β : Type} (f : α → β) (l : List α) (i : Nat) (y : β)
    (h : (l.map f)[i]? = some y) : ∃ x, l[i]? = some x ∧ f x = y := by
  rw [List.getElem?_map] at h
  cases hx : l[i]? with
  | none => simp [hx] at h
  | some x => exact ⟨x, rfl, by simpa [hx] using h⟩

/-- **finish_only**: for every program the context rules accept, the code the compiler emits is
well-formed in the sense of `WF` — pure functions and recall blocks contain no effectful
instruction outside a finish region, finish functions are straight-line finish code — and the
`policy` block contains no bare effectful instruction and no `Exit(Check)`.  Every finish region
is `Meta(Finish(true)); straight-line finish code; Exit(Normal | Check)` (definition of `noBare`). -/
theorem finish_only (debug strict : Bool) (fns : List FnDef) (cmd : Command)
    (hs : strict = true ∨ debug = false)
    (hacc : acceptProgram debug strict fns cmd = true) :
    let p := compileProgram debug fns cmd
    WF p (flagsOf fns) ∧ noBare (flagsOf fns) p.policy = true ∧ noCheck p.policy = true := by
  simp only [acceptProgram, Bool.and_eq_true, List.all_eq_true] at hacc
  obtain ⟨⟨hpol, hrec⟩, hfn⟩ := hacc
  have safe : Safe ⟨fns, cmd.recalls.length, debug, strict⟩ := hs
  have safe0 : Safe ⟨fns, 0, debug, strict⟩ := hs
  refine ⟨⟨?_, ?_, ?_⟩, ?_, ?_⟩
  · intro f c hc hf
    obtain ⟨fd, hfd, rfl⟩ := getElem?_map_some _ fns f c hc
    have hfin : fd.isFinish = false := by
      have : (flagsOf fns)[f]? = some fd.isFinish := by simp [flagsOf, hfd]
      rw [this] at hf; simpa using hf
    have hmem : fd ∈ fns := List.mem_of_getElem? hfd
    have hacc := hfn fd hmem
    simp only [hfin] at hacc ⊢
    have := nb_block safe0 .pureFn (by decide) fd.body hacc
    simp only [Bool.false_eq_true, if_false]
    refine ⟨?_, ?_⟩
    · rw [noBare_append]; simp [this, Code.single, noBare, noBareNode]
    · rw [noCheck_append]
      simp [nc_block debug .pureFn (by decide) fd.body, Code.single, noCheck, noCheckNode]
  · intro f c hc hf
    obtain ⟨fd, hfd, rfl⟩ := getElem?_map_some _ fns f c hc
    have hfin : fd.isFinish = true := by
      have : (flagsOf fns)[f]? = some fd.isFinish := by simp [flagsOf, hfd]
      rw [this] at hf; simpa using hf
    have hmem : fd ∈ fns := List.mem_of_getElem? hfd
    have hacc := hfn fd hmem
    simp only [hfin, if_true] at hacc ⊢
    have hb := finPure_R (fin_block safe0 fd.body hacc)
    have happ : ∀ (a b : Code), finPureR (flagsOf fns) (a ++ b)
        = (finPureR (flagsOf fns) a && finPureR (flagsOf fns) b) := by
      intro a b
      induction a using Code.rec (motive_1 := fun _ => True) (motive_3 := fun _ => True) with
      | nil => simp [Code.nil_append, finPureR]
      | cons n rest _ ih => simp [Code.cons_append, finPureR, ih, Bool.and_assoc]
      | _ => trivial
    rw [happ]; simp [hb, Code.single, finPureR, finNodeR]
  · intro r c hc
    obtain ⟨b, hb, rfl⟩ := getElem?_map_some _ cmd.recalls r c hc
    have := nb_block safe .recall (by decide) b (hrec b (List.mem_of_getElem? hb))
    rw [noBare_append]; simp [this, Code.single, noBare, noBareNode]
  · show noBare (flagsOf fns) (compileBlock debug .policy cmd.policy ++ Code.single (.exit .panic)) = true
    rw [noBare_append]
    simp [nb_block safe .policy (by decide) cmd.policy hpol, Code.single, noBare, noBareNode]
  · show noCheck (compileBlock debug .policy cmd.policy ++ Code.single (.exit .panic)) = true
    rw [noCheck_append]
    simp [nc_block debug .policy (by decide) cmd.policy, Code.single, noCheck, noCheckNode]

/-- **no_effect_on_fail**: a run of an accepted command's `policy` block that ends in
`Exit(Panic)`, or in `Exit(Check)` with the context still `Policy` (no `Recall` executed), has
issued no fact write and no effect.  For every branch outcome and every effect failure pattern
(`ds`) and every run length (`fuel`). -/
theorem no_effect_on_fail (debug strict : Bool) (fns : List FnDef) (cmd : Command)
    (hs : strict = true ∨ debug = false)
    (hacc : acceptProgram debug strict fns cmd = true)
    (fuel : Nat) (ds : List Nat) (r : ExitR) (st : St)
    (hrun : run (compileProgram debug fns cmd) fuel false (compileProgram debug fns cmd).policy ds {}
      = .exit r st)
    (hfail : r = .panic ∨ (r = .check ∧ st.recalled = false)) : st.log = [] := by
  obtain ⟨wf, hnb, hnc⟩ := finish_only debug strict fns cmd hs hacc
  have := run_noBare wf fuel false _ ds {} hnb (Or.inr hnc)
  rw [hrun] at this
  rcases hfail with rfl | ⟨rfl, hrec⟩
  · simpa [Inv] using this
  · simp only [Inv] at this; rw [this] at hrec; cases hrec

/-- `Exit(Check)` is only ever reached through `Recall`: the first disjunct of the property's
failure cases ("failed check without recall") cannot happen for code this compiler emits -/
theorem check_implies_recalled (debug strict : Bool) (fns : List FnDef) (cmd : Command)
    (hs : strict = true ∨ debug = false)
    (hacc : acceptProgram debug strict fns cmd = true)
    (fuel : Nat) (ds : List Nat) (st : St)
    (hrun : run (compileProgram debug fns cmd) fuel false (compileProgram debug fns cmd).policy ds {}
      = .exit .check st) : st.recalled = true := by
  obtain ⟨wf, hnb, hnc⟩ := finish_only debug strict fns cmd hs hacc
  have := run_noBare wf fuel false _ ds {} hnb (Or.inr hnc)
  rw [hrun] at this
  simpa [Inv] using this

/-! ### recall marker -/

def Res.state? : Res → Option St
  | .fall _ st | .ret _ st | .exit _ st | .err st => some st
  | .oof => none

/-- every entry carries the marker iff it was issued by recall-block code -/
def Marked (st : St) : Prop := ∀ e ∈ st.log, e.recalled = e.inRecallCode

/-- returning / falling through never changes the context flag (only `Recall` sets it, and a recall
block never returns) -/
theorem run_keeps_ctx (p : Program) : ∀ (fuel : Nat) (ir : Bool) (c : Code) (ds : List Nat) (st : St),
    match run p fuel ir c ds st with
    | .fall _ st' => st'.recalled = st.recalled
    | .ret _ st' => st'.recalled = st.recalled
    | _ => True
  | 0, _, _, _, _ => by simp [run]
  | fuel + 1, ir, .nil, ds, st => by simp [run]
  | fuel + 1, ir, .cons n rest, ds, st => by
    have cont : ∀ (r : Res) (st0 : St),
        (match r with | .fall _ st' => st'.recalled = st0.recalled | .ret _ st' => st'.recalled = st0.recalled | _ => True) →
        (match (match r with | .fall ds' st' => run p fuel ir rest ds' st' | other => other) with
          | .fall _ st' => st'.recalled = st0.recalled | .ret _ st' => st'.recalled = st0.recalled | _ => True) := by
      intro r st0 hr
      cases r with
      | fall ds' st' =>
        simp only at hr ⊢
        have := run_keeps_ctx p fuel ir rest ds' st'
        cases h : run p fuel ir rest ds' st' <;> rw [h] at this <;> simp_all
      | ret ds' st' => exact hr
      | exit r st' => trivial
      | err st' => trivial
      | oof => trivial
    cases n with
    | op => simp only [run]; exact run_keeps_ctx p fuel ir rest ds st
    | publish => simp only [run]; exact run_keeps_ctx p fuel ir rest ds st
    | ret => simp [run]
    | exit r => simp [run]
    | eff k =>
      simp only [run]
      cases ds with
      | nil => trivial
      | cons d ds' =>
        simp only
        by_cases hd : (d != 0) = true
        · rw [if_pos hd]; trivial
        · rw [if_neg hd]
          exact run_keeps_ctx p fuel ir rest ds' { st with log := st.log ++ [⟨k, st.recalled, ir⟩] }
    | choice alts =>
      simp only [run]
      cases ds with
      | nil => trivial
      | cons d ds' =>
        simp only
        cases ha : nthAlt alts d with
        | none => trivial
        | some c => exact cont _ st (run_keeps_ctx p fuel ir c ds' st)
    | loop body =>
      simp only [run]
      cases ds with
      | nil => trivial
      | cons d ds' =>
        simp only
        by_cases hd : (d == 0) = true
        · rw [if_pos hd]; exact run_keeps_ctx p fuel ir rest ds' st
        · rw [if_neg hd]; exact cont _ st (run_keeps_ctx p fuel ir _ ds' st)
    | finishRegion body r =>
      simp only [run]
      have := run_keeps_ctx p fuel ir body ds st
      cases h : run p fuel ir body ds st <;> rw [h] at this <;> simp_all
    | callFn f =>
      simp only [run]
      cases hc : p.fns[f]? with
      | none => trivial
      | some c =>
        simp only
        have ih := run_keeps_ctx p fuel ir c ds st
        cases hres : run p fuel ir c ds st with
        | ret ds' st' =>
          rw [hres] at ih
          simp only at ih ⊢
          have := run_keeps_ctx p fuel ir rest ds' st'
          cases h : run p fuel ir rest ds' st' <;> rw [h] at this <;> simp_all
        | fall ds' st' => trivial
        | exit r st' => trivial
        | err st' => trivial
        | oof => trivial
    | recall r =>
      simp only [run]
      cases hc : p.recalls[r]? with
      | none => trivial
      | some c =>
        simp only
        cases hres : run p fuel true c ds { st with recalled := true } <;> trivial

/-- the marker invariant is preserved by every run, from any state where the context flag agrees
with "this is recall-block code" -/
theorem run_marked (p : Program) : ∀ (fuel : Nat) (ir : Bool) (c : Code) (ds : List Nat) (st : St),
    st.recalled = ir → Marked st →
    ∀ st', (run p fuel ir c ds st).state? = some st' → Marked st'
  | 0, _, _, _, _, _, _ => by simp [run, Res.state?]
  | fuel + 1, ir, .nil, ds, st, _, hm => by
    intro st' h; simp only [run, Res.state?, Option.some.injEq] at h; subst h; exact hm
  | fuel + 1, ir, .cons n rest, ds, st, hir, hm => by
    have cont : ∀ (r : Res), (∀ st', r.state? = some st' → Marked st') →
        (match r with | .fall _ st' => st'.recalled = ir | .ret _ st' => st'.recalled = ir | _ => True) →
        ∀ st', (match r with | .fall ds' st' => run p fuel ir rest ds' st' | other => other).state? = some st' →
          Marked st' := by
      intro r hr hk st' h
      cases r with
      | fall ds' st1 =>
        simp only at h hk
        exact run_marked p fuel ir rest ds' st1 hk (hr st1 rfl) st' h
      | ret ds' st1 => exact hr st' h
      | exit r st1 => exact hr st' h
      | err st1 => exact hr st' h
      | oof => exact hr st' h
    have keep : ∀ (c : Code) (ds' : List Nat),
        (match run p fuel ir c ds' st with
          | .fall _ st' => st'.recalled = ir | .ret _ st' => st'.recalled = ir | _ => True) := by
      intro c ds'
      have := run_keeps_ctx p fuel ir c ds' st
      cases h : run p fuel ir c ds' st <;> rw [h] at this <;> simp_all
    cases n with
    | op => simp only [run]; exact run_marked p fuel ir rest ds st hir hm
    | publish => simp only [run]; exact run_marked p fuel ir rest ds st hir hm
    | ret => intro st' h; simp only [run, Res.state?, Option.some.injEq] at h; subst h; exact hm
    | exit r => intro st' h; simp only [run, Res.state?, Option.some.injEq] at h; subst h; exact hm
    | eff k =>
      simp only [run]
      cases ds with
      | nil => intro st' h; simp only [Res.state?, Option.some.injEq] at h; subst h; exact hm
      | cons d ds' =>
        simp only
        by_cases hd : (d != 0) = true
        · rw [if_pos hd]; intro st' h; simp only [Res.state?, Option.some.injEq] at h; subst h; exact hm
        · rw [if_neg hd]
          refine run_marked p fuel ir rest ds'
            { st with log := st.log ++ [⟨k, st.recalled, ir⟩] } hir ?_
          intro e he
          simp only [List.mem_append, List.mem_singleton] at he
          rcases he with he | rfl
          · exact hm e he
          · exact hir
    | choice alts =>
      simp only [run]
      cases ds with
      | nil => intro st' h; simp only [Res.state?, Option.some.injEq] at h; subst h; exact hm
      | cons d ds' =>
        simp only
        cases ha : nthAlt alts d with
        | none => intro st' h; simp only [Res.state?, Option.some.injEq] at h; subst h; exact hm
        | some c => exact cont _ (run_marked p fuel ir c ds' st hir hm) (keep c ds')
    | loop body =>
      simp only [run]
      cases ds with
      | nil => intro st' h; simp only [Res.state?, Option.some.injEq] at h; subst h; exact hm
      | cons d ds' =>
        simp only
        by_cases hd : (d == 0) = true
        · rw [if_pos hd]; exact run_marked p fuel ir rest ds' st hir hm
        · rw [if_neg hd]; exact cont _ (run_marked p fuel ir _ ds' st hir hm) (keep _ ds')
    | finishRegion body r =>
      simp only [run]
      have ih := run_marked p fuel ir body ds st hir hm
      intro st' h
      cases hres : run p fuel ir body ds st with
      | fall ds1 st1 =>
        rw [hres] at h ih
        simp only [Res.state?, Option.some.injEq] at h; subst h
        exact ih st1 rfl
      | ret ds1 st1 => rw [hres] at h ih; exact ih st' h
      | exit r1 st1 => rw [hres] at h ih; exact ih st' h
      | err st1 => rw [hres] at h ih; exact ih st' h
      | oof => rw [hres] at h; simp [Res.state?] at h
    | callFn f =>
      simp only [run]
      cases hc : p.fns[f]? with
      | none => intro st' h; simp only [Res.state?, Option.some.injEq] at h; subst h; exact hm
      | some c =>
        simp only
        have ih := run_marked p fuel ir c ds st hir hm
        have hk := keep c ds
        intro st' h
        cases hres : run p fuel ir c ds st with
        | ret ds1 st1 =>
          rw [hres] at h ih hk
          simp only at h hk
          exact run_marked p fuel ir rest ds1 st1 hk (ih st1 rfl) st' h
        | fall ds1 st1 =>
          rw [hres] at h ih
          simp only [Res.state?, Option.some.injEq] at h; subst h
          exact ih st1 rfl
        | exit r1 st1 => rw [hres] at h ih; exact ih st' h
        | err st1 => rw [hres] at h ih; exact ih st' h
        | oof => rw [hres] at h; simp [Res.state?] at h
    | recall r =>
      simp only [run]
      cases hc : p.recalls[r]? with
      | none => intro st' h; simp only [Res.state?, Option.some.injEq] at h; subst h; exact hm
      | some c =>
        simp only
        have ih := run_marked p fuel true c ds { st with recalled := true } rfl hm
        intro st' h
        cases hres : run p fuel true c ds { st with recalled := true } with
        | ret ds1 st1 =>
          rw [hres] at h ih
          simp only [Res.state?, Option.some.injEq] at h; subst h; exact ih st1 rfl
        | fall ds1 st1 =>
          rw [hres] at h ih
          simp only [Res.state?, Option.some.injEq] at h; subst h; exact ih st1 rfl
        | exit r1 st1 => rw [hres] at h ih; exact ih st' h
        | err st1 => rw [hres] at h ih; exact ih st' h
        | oof => rw [hres] at h; simp [Res.state?] at h

/-- **recall_marked**: in every run of a command's `policy` block — whatever the program, whatever
the outcome — a fact write / effect carries the `recalled` marker iff it was issued by the code of
a recall block (entered through `Recall`) -/
theorem recall_marked (p : Program) (fuel : Nat) (ds : List Nat) (st : St)
    (h : (run p fuel false p.policy ds {}).state? = some st) :
    ∀ e ∈ st.log, e.recalled = e.inRecallCode :=
  run_marked p fuel false p.policy ds {} rfl (by intro e he; simp at he) st h

/-! ## non-vacuity, and why the side condition on `debug_assert` is needed

`exCmd`: `policy { check c else recall r0(); finish { create ..; emit ..; ff0() } }` with a recall
block `finish { emit .. }` and a finish function `ff0 { emit .. }`. -/

def exFns : List FnDef := [⟨true, .cons (.eff .emit .simple) .nil⟩]
def exCmd : Command :=
  ⟨.cons (.check .simple (.recall 0))
     (.cons (.finish (.cons (.eff .create .simple) (.cons (.eff .emit .simple) (.cons (.callS 0) .nil)))) .nil),
   [.cons (.finish (.cons (.eff .emit .simple) .nil)) .nil]⟩

example : acceptProgram true true exFns exCmd = true := by decide
/-- the check passes: facts and effects are produced, unmarked -/
example : run (compileProgram true exFns exCmd) 100 false (compileProgram true exFns exCmd).policy [0, 0, 0, 0] {}
    = .exit .normal ⟨false, [⟨.create, false, false⟩, ⟨.emit, false, false⟩, ⟨.emit, false, false⟩]⟩ := by
  decide
/-- the check fails: recall runs, its effect is marked recalled, the run ends in `Check` -/
example : run (compileProgram true exFns exCmd) 100 false (compileProgram true exFns exCmd).policy [1, 0] {}
    = .exit .check ⟨true, [⟨.emit, true, true⟩]⟩ := by decide

/-- misplaced statements are rejected: `emit` in the policy body, `let` in finish, finish not last -/
example : acceptProgram true true [] ⟨.cons (.eff .emit .simple) .nil, []⟩ = false := by decide
example : acceptProgram true true [] ⟨.cons (.finish (.cons (.letS .simple) .nil)) .nil, []⟩ = false := by decide
example : acceptProgram true true [] ⟨.cons (.finish .nil) (.cons (.letS .simple) .nil), []⟩ = false := by decide

/-- **the side condition is necessary** (known finding `debug_assert-in-finish`): the compiler as
it is (`strict = false`) accepts `finish { create ..; debug_assert(e) }`, and in debug mode that
run ends in `Panic` AFTER a fact write -/
def dbgCmd : Command :=
  ⟨.cons (.finish (.cons (.eff .create .simple) (.cons (.debugAssert .simple) .nil))) .nil, []⟩
example : acceptProgram true false [] dbgCmd = true := by decide
example : acceptProgram true true [] dbgCmd = false := by decide
example : run (compileProgram true [] dbgCmd) 100 false (compileProgram true [] dbgCmd).policy [0, 1] {}
    = .exit .panic ⟨false, [⟨.create, false, false⟩]⟩ := by decide

end AranyaV.Finish
