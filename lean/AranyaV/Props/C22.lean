import AranyaV.Proofs.CompileProg
import AranyaV.Proofs.StackLimit
/-!
# C22 — Compiled policy code computes the language semantics

`compile_correct` — for every program `p` whose compilation succeeds (`compileProgram p.structs
p.funs = some cp`), every function `f`, every argument vector and every fuel `n`:
  * `evalFn p n f args = .val v l`  ⇒ some run of the VM from `VM.init entry args` ends in
    `exited Normal` with stack `[v]` and foreign-call log `l`;
  * `evalFn … = .exit r l` ⇒ the run exits with reason `r` (a policy panic) after the calls `l`;
  * `evalFn … = .ffiErr l` ⇒ the run ends in the foreign-function error after the calls `l`.
No typing hypothesis is needed: an ill-typed program makes the evaluator `stuck`, about which
nothing is claimed here (C24).  The remaining hypotheses are side conditions on the model's
parameters: the foreign-function arity table agrees with the foreign functions' behaviour
(`FfiOk`), and struct definitions have distinct field names (the compiler's `define_struct`
rejects duplicates).

The engine is the code-at-pc simulation `exec_compile`: if the resolved image of `compileExpr e`
sits at `wp` and the labels it defines resolve to the addresses the compiler gave them, then from
any activation state at `wp` the VM runs to `wp + |code|` with the value of `e` pushed (scopes,
call stack and the stack below untouched) — or exits / returns / fails exactly as `eval` says.  It
is proved by induction on the evaluator's fuel, simultaneously for expressions, argument lists,
struct-literal fields, statements, statement blocks, `if` chains, pattern tests, arm selection
and function bodies (`AllSim`), covering every construct of `Spec.Lang`: literals, variables,
`Some/Ok/Err`, struct literals, `if`, `todo()`, builtin / user / foreign calls, `return` (also
from nested blocks and operand positions), enum references, `&& || or`, field access,
comparisons, `!`, `is`, block expressions, `substruct`, `as`, `match` (literal / binding /
default arms); statements `let`, `check`, `match`, `if`, `return`, `debug_assert`.
-/
namespace AranyaV.Lang
open AranyaV.Gen.Lang

/-- **C22, the simulation lemma for expressions** (every construct).  `hP` states that the
program's functions sit where their labels point, that foreign-function arities are right and
that struct definitions have distinct field names (`funsOk_of_compile` derives the first from
`compileProgram = some cp`).

`S.m.prog` is any program memory in which the resolved code of `e` sits at `wp` (`CodeAt`) and in
which the labels `e`'s code defines resolve to the compiler's addresses (`DefsOk`).  The VM state
is any state of a function activation: `junk` are temporaries of enclosing expressions, `base`
the stack at function entry (`SaveSP` recorded `base.length`), `env` the block scopes, `fr` the
callers' frames, `K` the callers' call stack. -/
theorem exec_compile (S : Sim) (n : Nat) (e : Expr) (env : Env) (log : Log) (wp c : Nat)
    (junk base : List Val) (fr : List Env) (K : List Nat)
    (hP : ProgOk S)
    (hcode : CodeAt S.labels S.m.prog wp (compileExpr S.m.p.structs wp c e).code)
    (hdefs : DefsOk S.labels (compileExpr S.m.p.structs wp c e).defs) :
    let s0 : VM := ⟨junk ++ base, env :: fr, base.length :: K, wp, log⟩
    let len := (compileExpr S.m.p.structs wp c e).code.length
    -- a value: the VM reaches the end of the code with the value pushed, nothing else changed
    (∀ v l, evalExpr S.m.p n env log e = .val v l →
        Steps S.m s0 ⟨v :: (junk ++ base), env :: fr, base.length :: K, wp + len, l⟩) ∧
    -- a policy exit (panic): the VM exits with the same reason after the same foreign calls
    (∀ r l, evalExpr S.m.p n env log e = .exit r l → ∃ t, ExitsWith S.m s0 r t ∧ t.log = l) ∧
    -- an early return: the VM stands before `Return` with exactly `v :: base` on the stack
    (∀ v l, evalExpr S.m.p n env log e = .ret v l →
        ∃ envJ pcR, Steps S.m s0 ⟨v :: base, envJ :: fr, K, pcR, l⟩ ∧ S.m.prog[pcR]? = some .Return) := by
  have h := (sim_all S hP n).e e env log wp c junk base fr K (supE_all e) hcode hdefs
  refine ⟨?_, ?_, ?_⟩
  · intro v l hv; rw [hv] at h; exact h
  · intro r l hv; rw [hv] at h; exact h
  · intro v l hv; rw [hv] at h; exact h

/-- **C22, program level: `compile_correct`.**

For a program whose compilation succeeds, running function `f` on `args` from the harness's
initial state (`VM.init`: arguments pushed in order, pc at the function's label) ends exactly as
the language semantics says: the value on an otherwise empty stack and a normal exit; or the
policy exit; or the foreign-function error — each after the same foreign calls. -/
theorem compile_correct (p : Program) (cp : Compiled) (ar : Nat → Nat → Option Nat)
    (hc : compileProgram p.structs p.funs = some cp)
    (hffi : FfiOk ⟨cp.prog, p, ar⟩)
    (hstructs : ∀ n d, p.structDef n = some d → (d.map (·.1)).Nodup)
    (n f : Nat) (args : List Val) (entry : Nat) (hentry : cp.entry f = some entry) :
    let m : Machine := ⟨cp.prog, p, ar⟩
    match evalFn p n f args with
    | .val v l => ∃ k t, run m k (VM.init entry args) = .exited .Normal t ∧ t.stack = [v] ∧ t.log = l
    | .exit r l => ∃ k t, run m k (VM.init entry args) = .exited r t ∧ t.log = l
    | .ffiErr l => ∃ k, run m k (VM.init entry args) = .error .ffi l
    | _ => True := by
  intro m
  let S : Sim := ⟨m, cp.labels⟩
  have hP : ProgOk S := ⟨funsOk_of_compile hc p rfl rfl ar, fun _ fd _ => supSs_all fd.body, hffi, hstructs⟩
  have h := fun_sim S hP n f args entry hentry
  show match evalFn S.m.p n f args with
    | .val v l => ∃ k t, run S.m k (VM.init entry args) = .exited .Normal t ∧ t.stack = [v] ∧ t.log = l
    | .exit r l => ∃ k t, run S.m k (VM.init entry args) = .exited r t ∧ t.log = l
    | .ffiErr l => ∃ k, run S.m k (VM.init entry args) = .error .ffi l
    | _ => True
  cases hr : evalFn S.m.p n f args with
  | val v l =>
    rw [hr] at h
    obtain ⟨t, hex, hs, hl⟩ := h
    obtain ⟨k, hk⟩ := run_of_exits hex
    exact ⟨k, t, hk, hs, hl⟩
  | exit r l =>
    rw [hr] at h
    obtain ⟨t, hex, hl⟩ := h
    obtain ⟨k, hk⟩ := run_of_exits hex
    exact ⟨k, t, hk, hl⟩
  | ffiErr l =>
    rw [hr] at h
    exact run_of_errors h
  | ret v l => trivial
  | stuck => trivial
  | oof => trivial

/-! ### i64 edges are in the statement -/

/-- **compile_correct with the real machine's stack bound** (`lim`, the real value is
`Gen.Lang.stackSize = 100`): on the bounded machine `runL` the compiled call either ends exactly as
the language semantics says or reports `StackOverflow` — the bound adds no other outcome. -/
theorem compile_correct_bounded (p : Program) (cp : Compiled) (ar : Nat → Nat → Option Nat) (lim : Nat)
    (hc : compileProgram p.structs p.funs = some cp)
    (hffi : FfiOk ⟨cp.prog, p, ar⟩)
    (hstructs : ∀ n d, p.structDef n = some d → (d.map (·.1)).Nodup)
    (n f : Nat) (args : List Val) (entry : Nat) (hentry : cp.entry f = some entry) :
    let m : Machine := ⟨cp.prog, p, ar⟩
    match evalFn p n f args with
    | .val v l => ∃ k, (∃ t, runL m lim k (VM.init entry args) = .res (.exited .Normal t) ∧ t.stack = [v] ∧ t.log = l) ∨
        (∃ l', runL m lim k (VM.init entry args) = .overflow l')
    | .exit r l => ∃ k, (∃ t, runL m lim k (VM.init entry args) = .res (.exited r t) ∧ t.log = l) ∨
        (∃ l', runL m lim k (VM.init entry args) = .overflow l')
    | .ffiErr l => ∃ k, runL m lim k (VM.init entry args) = .res (.error .ffi l) ∨
        (∃ l', runL m lim k (VM.init entry args) = .overflow l')
    | _ => True := by
  intro m
  have h := compile_correct p cp ar hc hffi hstructs n f args entry hentry
  simp only at h
  cases hr : evalFn p n f args with
  | val v l =>
    rw [hr] at h
    obtain ⟨k, t, hk, hs, hl⟩ := h
    refine ⟨k, ?_⟩
    rcases runL_refines m lim k (VM.init entry args) with ho | he
    · exact Or.inr ho
    · exact Or.inl ⟨t, by rw [he, hk], hs, hl⟩
  | exit r l =>
    rw [hr] at h
    obtain ⟨k, t, hk, hl⟩ := h
    refine ⟨k, ?_⟩
    rcases runL_refines m lim k (VM.init entry args) with ho | he
    · exact Or.inr ho
    · exact Or.inl ⟨t, by rw [he, hk], hl⟩
  | ffiErr l =>
    rw [hr] at h
    obtain ⟨k, hk⟩ := h
    refine ⟨k, ?_⟩
    rcases runL_refines m lim k (VM.init entry args) with ho | he
    · exact Or.inr ho
    · exact Or.inl (by rw [he, hk])
  | ret v l => trivial
  | stuck => trivial
  | oof => trivial

/-- checked `add`: `None` exactly when the mathematical sum leaves the i64 range -/
theorem add_checked (a b : Int) :
    builtinOp 0 a b = some (if i64Min ≤ a + b ∧ a + b ≤ i64Max then .some (.int (a + b)) else .none) := by
  simp [builtinOp, builtinInstr, checked, inI64]

/-- `saturating_sub` clamps at `i64::MIN` / `i64::MAX` -/
theorem satsub_saturates (a b : Int) :
    builtinOp 3 a b = some (.int (if a - b < i64Min then i64Min else if a - b > i64Max then i64Max else a - b)) := by
  simp [builtinOp, builtinInstr, saturate]

/-! ### non-vacuity: a concrete program fragment satisfying the hypotheses -/

/-- `saturating_add(x, 1) <= 5 && !(x == 3)` compiled at address 0 with label counter 0 -/
def exE : Expr := .and (.le (.call 1 [.var 10, .int 1]) (.int 5)) (.not (.eq (.var 10) (.int 3)))
def exProg : Program := { enums := [], structs := [], globals := [], funs := [], ffi := fun _ _ _ => .bad }
def exOut : Out := compileExpr [] 0 0 exE
def exS : Sim := { m := { prog := exOut.code.map (res exOut.defs), p := exProg, ffiArity := fun _ _ => none }, labels := exOut.defs }

example : supE exE = true := by decide
example : exOut.code.length = 13 := by decide
example : CodeAt exS.labels exS.m.prog 0 (compileExpr exS.m.p.structs 0 0 exE).code := by
  show CodeAt exOut.defs (exOut.code.map (res exOut.defs)) 0 exOut.code
  simp [CodeAt]
example : DefsOk exS.labels (compileExpr exS.m.p.structs 0 0 exE).defs := by
  show DefsOk exOut.defs exOut.defs
  intro q hq
  simp only [exOut, exE, compileExpr, compileArgs, builtinInstr, List.mem_append, List.mem_cons, List.mem_singleton,
    List.not_mem_nil, or_false, false_or, List.nil_append, List.append_nil] at hq
  rcases hq with rfl | rfl <;> decide

/-! ### non-vacuity of `compile_correct` -/

/-- a one-function program: `function f(x int) int { let y = saturating_add(x, 1)
    if y > 3 { return y }  return 0 }`  (identifiers: f = 20, x = 21, y = 22) -/
def exFun : FunDef :=
  { name := 20, params := [(21, .int)], ret := .int,
    body := [.let_ 22 (.call 1 [.var 21, .int 1]),
             .ifS [(.gt (.var 22) (.int 3), [.ret (.var 22)])] false [],
             .ret (.int 0)] }
def exProg2 : Program := { enums := [], structs := [], globals := [], funs := [exFun], ffi := fun _ _ _ => .bad }

example : (compileProgram exProg2.structs exProg2.funs).isSome = true := by decide
example : ((compileProgram exProg2.structs exProg2.funs).bind (·.entry 20)) = some 1 := by decide
example (prog : List Instr) : FfiOk ⟨prog, exProg2, fun _ _ => none⟩ := by
  intro mi pi vs h; simp [exProg2] at h
example : ∀ n d, exProg2.structDef n = some d → (d.map (·.1)).Nodup := by
  intro n d h; simp [exProg2, Program.structDef] at h
/-- the evaluator gives the expected values, e.g. `f(i64::MAX) = i64::MAX` (saturation) and `f(1) = 0` -/
example : (match evalFn exProg2 10 20 [.int 9223372036854775807] with | .val (.int v) _ => v | _ => 0) = 9223372036854775807 := by decide
example : (match evalFn exProg2 10 20 [.int 1] with | .val (.int v) _ => v | _ => 7) = 0 := by decide

end AranyaV.Lang
