import AranyaV.Proofs.CompileExpr
/-!
# C22 — Compiled policy code computes the language semantics

Full statement (kept at full strength; proved in stages, see `notes/C22.md`):

  `compile_correct` — for every program `prog` accepted by lowering, its compiled code
  `cp = compileProgram prog.structs prog.funs`, every function `f`, every argument vector `args`
  and every fuel `n`:
    * `evalFn prog n f args = .val v l`  ⇒ `∃ k, run ⟨cp.prog, prog, arity⟩ k (VM.init entry args)
        = .exited .Normal s` with `s.stack = [v]` and `s.log = l`;
    * `evalFn … = .exit r l` ⇒ the run exits with reason `r` after exactly the foreign calls `l`;
    * `evalFn … = .ffiErr l` ⇒ the run ends in the foreign-function error after the calls `l`.

The engine is the code-at-pc simulation lemma (`ExprSim`): if the resolved image of
`compileExpr e` sits at `wp` and the labels it defines resolve to the addresses the compiler gave
them, then from any activation state at `wp` the VM runs to `wp + |code|` with the value of `e`
pushed (scopes, call stack and the stack below untouched) — or exits / returns / fails exactly as
`eval` says.  It is proved by induction on the evaluator's fuel.

Proved so far: `exec_compile_arith_partial` — the simulation for the expression fragment `supE`
(literals, variables, enum references, `Some/Ok/Err`, `!`, `is Some/None`, field access, `as`,
`== != < > <= >=`, `&& || or` with their short-circuit jumps, `if` expressions, the builtins
`add/sub` (checked, `None` exactly on i64 overflow) and `saturating_add/sub`, `todo()`, `return`).
-/
namespace AranyaV.Lang
open AranyaV.Gen.Lang

/-- **C22, stage 1** (`_partial`: expression fragment `supE`; statements, blocks, struct
literals, `substruct`, `match`, user and foreign calls are not covered yet).

`S.m.prog` is any program memory in which the resolved code of `e` sits at `wp` (`CodeAt`) and in
which the labels `e`'s code defines resolve to the compiler's addresses (`DefsOk`).  The VM state
is any state of a function activation: `junk` are temporaries of enclosing expressions, `base`
the stack at function entry (`SaveSP` recorded `base.length`), `env` the block scopes, `fr` the
callers' frames, `K` the callers' call stack. -/
theorem exec_compile_arith_partial (S : Sim) (n : Nat) (e : Expr) (env : Env) (log : Log) (wp c : Nat)
    (junk base : List Val) (fr : List Env) (K : List Nat)
    (hfrag : supE e = true)
    (hcode : CodeAt S.labels S.m.prog wp (compileExpr S.m.p.structs wp c e).code)
    (hdefs : DefsOk S.labels (compileExpr S.m.p.structs wp c e).defs) :
    let s0 : VM := ⟨junk ++ base, env :: fr, base.length :: K, wp, log⟩
    let len := (compileExpr S.m.p.structs wp c e).code.length
    -- a value: the VM reaches the end of the code with the value pushed, nothing else changed
    (∀ v l, evalExpr S.m.p n env log e = .val v l →
        Steps S.m s0 ⟨v :: (junk ++ base), env :: fr, base.length :: K, wp + len, l⟩) ∧
    -- a policy exit (panic): the VM exits with the same reason after the same foreign calls
    (∀ r l, evalExpr S.m.p n env log e = .exit r l → ∃ t, ExitsWith S.m s0 r t ∧ t.log = l) ∧
    -- an early return: the VM stands before `Return` with exactly `v :: base` on the stack
    (∀ v l, evalExpr S.m.p n env log e = .ret v l →
        ∃ envJ pcR, Steps S.m s0 ⟨v :: base, envJ :: fr, K, pcR, l⟩ ∧ S.m.prog[pcR]? = some .Return) := by
  have h := (sim_all S n).e e env log wp c junk base fr K hfrag hcode hdefs
  refine ⟨?_, ?_, ?_⟩
  · intro v l hv; rw [hv] at h; exact h
  · intro r l hv; rw [hv] at h; exact h
  · intro v l hv; rw [hv] at h; exact h

/-! ### i64 edges are in the statement -/

/-- checked `add`: `None` exactly when the mathematical sum leaves the i64 range -/
theorem add_checked (a b : Int) :
    builtinOp 0 a b = some (if i64Min ≤ a + b ∧ a + b ≤ i64Max then .some (.int (a + b)) else .none) := by
  simp [builtinOp, builtinInstr, checked, inI64]

/-- `saturating_sub` clamps at `i64::MIN` / `i64::MAX` -/
theorem satsub_saturates (a b : Int) :
    builtinOp 3 a b = some (.int (if a - b < i64Min then i64Min else if a - b > i64Max then i64Max else a - b)) := by
  simp [builtinOp, builtinInstr, saturate]

/-! ### non-vacuity: a concrete program fragment satisfying the hypotheses -/

/-- `saturating_add(x, 1) <= 5 && !(x == 3)` compiled at address 0 with label counter 0 -/
def exE : Expr := .and (.le (.call 1 [.var 10, .int 1]) (.int 5)) (.not (.eq (.var 10) (.int 3)))
def exProg : Program := { enums := [], structs := [], globals := [], funs := [], ffi := fun _ _ _ => .bad }
def exOut : Out := compileExpr [] 0 0 exE
def exS : Sim := { m := { prog := exOut.code.map (res exOut.defs), p := exProg, ffiArity := fun _ _ => none }, labels := exOut.defs }

example : supE exE = true := by decide
example : exOut.code.length = 13 := by decide
example : CodeAt exS.labels exS.m.prog 0 (compileExpr exS.m.p.structs 0 0 exE).code := by
  show CodeAt exOut.defs (exOut.code.map (res exOut.defs)) 0 exOut.code
  simp [CodeAt]
example : DefsOk exS.labels (compileExpr exS.m.p.structs 0 0 exE).defs := by
  show DefsOk exOut.defs exOut.defs
  intro q hq
  simp only [exOut, exE, compileExpr, compileArgs, builtinInstr, List.mem_append, List.mem_cons, List.mem_singleton,
    List.not_mem_nil, or_false, false_or, List.nil_append, List.append_nil] at hq
  rcases hq with rfl | rfl <;> decide

end AranyaV.Lang
