import AranyaV.Proofs.Base58Mech
/-!
# C46 — IDs round-trip through text and serde

Property theorems for `AranyaV.Base58` (model of `aranya_id::Id`'s `Display` / `FromStr` /
`decode` / serde and of the `spideroak-base58` routines behind them).  The alphabet, the
byte→digit table, `RADII`, `RADIX`, the chunk sizes, `B58_SIZE` and the id length are the
generated `AranyaV.Gen.Base58` declarations; what the theorems need of them is checked by
kernel evaluation in `Proofs/Base58.lean` (`digitVal_digitChar`, `table_inv`, `radii_spec`,
`consts`).  All statements are for every 32-byte value / every byte string.
-/
namespace AranyaV.Base58
open AranyaV.Gen.Base58

/-! ## specification level -/

theorem encode_length (b : List UInt8) : (encode b).length = b58Size32 := by simp [encode]

theorem encode_allValid (b : List UInt8) : allValid (encode b) = true := by
  simp only [allValid, encode, List.all_map, List.all_eq_true]
  intro d hd
  have hlt := toDigits_lt 58 (by decide) _ _ d hd
  simp only [Function.comp, digitVal_digitChar d hlt]
  simp; omega

theorem value_encode (b : List UInt8) (hb : b.length = idLen) : value (encode b) = beNat b := by
  have ⟨_, _, _, _, _, _, h256, h2⟩ := consts
  simp only [value, encode, List.map_map]
  have : (toDigits 58 b58Size32 (beNat b)).map (digitVal ∘ digitChar)
      = toDigits 58 b58Size32 (beNat b) := by
    conv => rhs; rw [← List.map_id (toDigits 58 b58Size32 (beNat b))]
    apply List.map_congr_left
    intro d hd
    simp [digitVal_digitChar d (toDigits_lt 58 (by decide) _ _ d hd)]
  rw [this, ofDigits_toDigits]
  apply Nat.mod_eq_of_lt
  have := beNat_lt b
  rw [hb, ← h2] at this
  omega

/-- **Text round trip**: printing an id and parsing the text gives the id back. -/
theorem decode_encode (b : List UInt8) (hb : b.length = idLen) :
    decodeSpec (encode b) = .ok b := by
  have h2 : two256 = 256 ^ idLen := consts.2.2.2.2.2.2.2
  have hlt : beNat b < two256 := by
    have := beNat_lt b
    rw [hb, ← h2] at this; exact this
  simp only [decodeSpec, encode_allValid, value_encode b hb, hlt, decide_true, Bool.and_self, if_true]
  rw [← hb, beBytes_beNat]

example : decodeSpec (encode (List.replicate 31 0 ++ [255])) = .ok (List.replicate 31 0 ++ [255]) :=
  decode_encode _ (by decide)

/-- **Parsing is sound**: accepted text consists of alphabet characters only and denotes (as a
base-58 numeral of any length) exactly the number whose 32 big-endian bytes are returned; -/
theorem decode_sound (s b : List UInt8) (h : decodeSpec s = .ok b) :
    allValid s = true ∧ value s < two256 ∧ b.length = idLen ∧ beNat b = value s := by
  have h2 : two256 = 256 ^ idLen := consts.2.2.2.2.2.2.2
  unfold decodeSpec at h
  split at h
  · rename_i hc
    simp only [Bool.and_eq_true, decide_eq_true_eq] at hc
    injection h with h
    subst h
    refine ⟨hc.1, hc.2, by simp, beNat_beBytes _ _ (by rw [← h2]; exact hc.2)⟩
  · cases h

/-- … and everything else fails cleanly with `BadInput` (bad character or number `≥ 2^256`). -/
theorem decode_rejects (s : List UInt8) (h : ¬ (allValid s = true ∧ value s < two256)) :
    decodeSpec s = .error .badInput := by
  unfold decodeSpec
  split
  · rename_i hc
    simp only [Bool.and_eq_true, decide_eq_true_eq] at hc
    exact absurd hc h
  · rfl

/-- the id a text parses to prints as the canonical 44-digit numeral of the same number, and a
44-character text prints back literally -/
theorem decode_canonical (s b : List UInt8) (h : decodeSpec s = .ok b) :
    encode b = (toDigits 58 b58Size32 (value s)).map digitChar ∧
    (s.length = b58Size32 → encode b = s) := by
  have ⟨hv, _, _, hn⟩ := decode_sound s b h
  have e : encode b = (toDigits 58 b58Size32 (value s)).map digitChar := by simp [encode, hn]
  refine ⟨e, fun hl => ?_⟩
  rw [e]
  have hd : ∀ d ∈ s.map digitVal, d < 58 := by
    intro d hd
    simp only [List.mem_map] at hd
    obtain ⟨c, hc, rfl⟩ := hd
    have : digitVal c ≠ 255 := by simpa using List.all_eq_true.mp hv c hc
    exact (digitChar_digitVal c this).1
  have := toDigits_ofDigits 58 (s.map digitVal) hd
  rw [List.length_map, hl] at this
  rw [value, this, List.map_map]
  conv => rhs; rw [← List.map_id s]
  apply List.map_congr_left
  intro c hc
  have : digitVal c ≠ 255 := by simpa using List.all_eq_true.mp hv c hc
  simp [(digitChar_digitVal c this).2]

/-! ## mechanism level: what `spideroak-base58` computes is the specification -/

/-- `String32::encode` (strip `58^10` at a time, ten digits per round, right to left into a
`'1'`-filled buffer) yields the 44 digits and never hits an `expect` -/
theorem chunked_eq_encode (b : List UInt8) (hb : b.length = idLen) :
    encodeM b = some (encode b) := encodeM_eq b hb

/-- `String32::decode` (ten bytes at a time through `B58`, `checked_mul/add` on `u64`,
`fma` overflow flag) is the specification — in particular it never returns `Bug` -/
theorem chunked_eq (s : List UInt8) : decodeM s = decodeSpec s := decodeM_eq s

theorem decode_never_bug (s : List UInt8) : decodeM s ≠ .error .bug := by
  rw [chunked_eq]; unfold decodeSpec; split <;> simp

/-- the two mechanisms compose to the identity -/
theorem decodeM_encodeM (b : List UInt8) (hb : b.length = idLen) :
    (encodeM b).map decodeM = some (.ok b) := by
  rw [chunked_eq_encode b hb, Option.map_some, chunked_eq, decode_encode b hb]

/-- `Uint::fma` as the crate implements it (`mul_add_ww` over little-endian 64-bit words with a
running carry) is the `Nat` step used in `decodeM`: success is reported iff `X*y + r` fits, and
then the words hold exactly `X*y + r`.  (For `Uint<4, 32>`: `ws.length = 4`, bound `2^256`.) -/
theorem fma_words_exact (ws : List Nat) (y r : Nat) :
    ((fmaWords ws y r).2 = 0 ↔ wordsVal ws * y + r < (2 ^ 64) ^ ws.length) ∧
    ((fmaWords ws y r).2 = 0 → wordsVal (fmaWords ws y r).1 = wordsVal ws * y + r) :=
  fmaWords_eq_nat ws y r

example : fmaWords [2 ^ 64 - 1, 0, 0, 0] 58 57 = ([2 ^ 64 - 1, 57, 0, 0], 0) := by decide

/-! ## serde -/

theorem plain_alphabet : ∀ d, d < 58 → plainChar (digitChar d) = true := by decide +kernel

/-- **Human-readable round trip** (`serde_json`): the document is the quoted base-58 text and
deserialises to the same id. -/
theorem json_roundtrip (b : List UInt8) (hb : b.length = idLen) :
    deJson (serJson b) = some b := by
  have hplain : (encode b).all plainChar = true := by
    simp only [encode, List.all_map, List.all_eq_true]
    intro d hd
    exact plain_alphabet d (toDigits_lt 58 (by decide) _ _ d hd)
  simp only [serJson, deJson, List.singleton_append, List.reverse_append, List.reverse_cons,
    List.reverse_nil, List.nil_append, List.cons_append, List.reverse_reverse, hplain, if_true,
    chunked_eq, decode_encode b hb]

/-- **Binary round trip** (postcard): the bytes are `32` followed by the id, and deserialising
them (followed by anything) gives the id back and leaves the rest. -/
theorem bin_roundtrip (b rest : List UInt8) (hb : b.length = idLen) :
    deBin (serBin b ++ rest) = some (b, rest) := by
  have hid : idLen = 32 := consts.2.2.2.1
  have h32 : (UInt8.ofNat 32).toNat = 32 := by decide
  simp only [serBin, hb, hid, deBin, List.cons_append, varint, h32]
  simp [hb, hid]

theorem varint_consumes (fuel i out : Nat) (w : List UInt8) (n : Nat) (rest : List UInt8)
    (h : varint fuel i out w = some (n, rest)) :
    ∃ hdr, w = hdr ++ rest ∧ 1 ≤ hdr.length ∧ hdr.length ≤ fuel := by
  induction fuel generalizing i out w with
  | zero => simp [varint] at h
  | succ fuel ih =>
    cases w with
    | nil => simp [varint] at h
    | cons v tl =>
      simp only [varint] at h
      split at h
      · split at h
        · cases h
        · injection h with h
          injection h with _ h
          subst h
          exact ⟨[v], by simp, by simp, by simp⟩
      · obtain ⟨hdr, e, h1, h2⟩ := ih _ _ _ h
        exact ⟨v :: hdr, by simp [e], by simp, by simp; omega⟩

/-- **Binary parsing is sound**: whatever bytes are accepted have the shape
`<1–10 length bytes> ++ id ++ rest`, the id returned being literally those 32 bytes. -/
theorem bin_sound (w b rest : List UInt8) (h : deBin w = some (b, rest)) :
    b.length = idLen ∧ ∃ hdr, w = hdr ++ b ++ rest ∧ 1 ≤ hdr.length ∧ hdr.length ≤ 10 := by
  unfold deBin at h
  split at h
  · cases h
  · rename_i n r hv
    split at h
    · cases h
    · split at h
      · cases h
      · rename_i hlen hn
        injection h with h
        injection h with h1 h2
        subst h1 h2
        have hn' : n = idLen := by omega
        obtain ⟨hdr, e, h1, h2⟩ := varint_consumes _ _ _ _ _ _ hv
        refine ⟨by simp; omega, hdr, ?_, h1, h2⟩
        rw [List.append_assoc, List.take_append_drop]; exact e

/-- the `visit_seq` path: the first 32 elements, error if fewer -/
theorem seq_roundtrip (b rest : List UInt8) (hb : b.length = idLen) :
    deSeq (b ++ rest) = some b := by
  simp [deSeq, hb]

example : deBin (serBin (List.replicate 32 7) ++ [1, 2]) = some (List.replicate 32 7, [1, 2]) :=
  bin_roundtrip _ _ (by decide)

end AranyaV.Base58
