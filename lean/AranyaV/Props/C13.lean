import AranyaV.Proofs.Session
/-!
# C13 — Reverting to a checkpoint is exact

Models: `Persp` (the fact-relevant part of `LinearPerspective`, `Model/Facts.lean`) with
`checkpoint` / `revert`, and `Session` (`Model/Session.lean`) with the `SessionPerspective`
`checkpoint` / `revert`.

`revert_exact` and `session_revert_exact` quantify over **every** interleaving of
insert / delete / add-command / revert that follows the checkpoint (nested checkpoints and
reverts included, as long as none goes *below* the checkpoint — a revert below it destroys
the state the checkpoint refers to).  The conclusion is structural equality of the whole
perspective / session, hence equality of every query, prefix query, command list and head.

Hypothesis of `revert_exact`: the checkpoint is taken on a command boundary
(`current = []`).  `Checkpoint { index: commands.len() }` cannot remember fact writes that
are pending without a command; `revert_unclean_counterexample` shows that the hypothesis is
necessary for the code as written.  The runtime only takes checkpoints on command boundaries
(`Transaction::add_single`: checkpoint → rule → `add_command` or `revert`).
-/
namespace AranyaV.Facts

/-! ## linear perspectives -/

inductive POp where
  | ins (k : Key) (v : Val)
  | del (k : Key)
  | cmd (id : Nat)
  | revert (n : Nat)
deriving Repr, DecidableEq

def Persp.step (p : Persp) : POp → Except Err Persp
  | .ins k v => .ok (p.insert k v)
  | .del k => .ok (p.delete k)
  | .cmd id => .ok (p.addCommand id).1
  | .revert n => p.revert n

def Persp.run : Persp → List POp → Except Err Persp
  | p, [] => .ok p
  | p, op :: r =>
    match p.step op with
    | .error e => .error e
    | .ok p' => Persp.run p' r

/-- no revert in the history goes below index `n` -/
def NoDeeper (n : Nat) (ops : List POp) : Prop := ∀ m, POp.revert m ∈ ops → n ≤ m

theorem Persp.ext' {a b : Persp} (h1 : a.facts = b.facts) (h2 : a.commands = b.commands)
    (h3 : a.current = b.current) : a = b := by
  cases a; cases b; simp_all

theorem FP.clear_insert (f : FP) (k : Key) (v : Val) : (f.insert k v).clear = f.clear := by
  rw [FP.insert_eq_applyUpdate, FP.clear_applyUpdates]
theorem FP.clear_delete (f : FP) (k : Key) : (f.delete k).clear = f.clear := by
  rw [FP.delete_eq_applyUpdate, FP.clear_applyUpdates]

/-- what every state after the checkpoint keeps: the checkpoint's commands are a prefix, the
replay invariant, and the same prior -/
private def Keeps (p0 t : Persp) : Prop :=
  p0.commands <+: t.commands ∧ t.Inv ∧ t.facts.clear = p0.facts.clear

private theorem keeps_step {p0 t t' : Persp} {op : POp} (hk : Keeps p0 t)
    (hop : ∀ m, op = .revert m → p0.commands.length ≤ m) (h : t.step op = .ok t') : Keeps p0 t' := by
  obtain ⟨k1, k2, k3⟩ := hk
  cases op with
  | ins k v =>
    cases h
    exact ⟨k1, Persp.Inv_insert k2 k v, by show (t.facts.insert k v).clear = _; rw [FP.clear_insert, k3]⟩
  | del k =>
    cases h
    exact ⟨k1, Persp.Inv_delete k2 k, by show (t.facts.delete k).clear = _; rw [FP.clear_delete, k3]⟩
  | cmd id =>
    cases h
    refine ⟨?_, Persp.Inv_addCommand k2 id, k3⟩
    exact List.IsPrefix.trans k1 (List.prefix_append _ _)
  | revert m =>
    have hm := hop m rfl
    by_cases hle : m ≤ t.commands.length
    · obtain ⟨q, hq, q1, q2, q3⟩ := Persp.revert_ok (p := t) hle
      have : t' = q := by
        have h' : t.revert m = .ok t' := h
        rw [hq] at h'
        cases h'
        rfl
      subst this
      have q3' := q3 k2
      have hclear : t'.facts.clear = t.facts.clear := by
        rw [q3', FP.clear_applyUpdates, FP.clear_clear]
      refine ⟨?_, ⟨?_, ?_⟩, by rw [hclear, k3]⟩
      · rw [q1]
        exact List.prefix_take_iff.mpr ⟨k1, hm⟩
      · rw [q3']
        exact FP.WF_applyUpdates (FP.WF_clear k2.1) _
      · unfold Persp.allUpdates
        rw [q2, List.append_nil, hclear, q1]
        exact q3'
    · have h' : t.revert m = .ok t' := h
      rw [Persp.revert_err (by omega)] at h'
      cases h'

private theorem keeps_run {p0 t t' : Persp} {ops : List POp} (hk : Keeps p0 t)
    (hnd : NoDeeper p0.commands.length ops) (h : t.run ops = .ok t') : Keeps p0 t' := by
  induction ops generalizing t with
  | nil => cases h; exact hk
  | cons op r ih =>
    unfold Persp.run at h
    cases hs : t.step op with
    | error e => rw [hs] at h; cases h
    | ok t1 =>
      rw [hs] at h
      have hop : ∀ m, op = .revert m → p0.commands.length ≤ m :=
        fun m e => hnd m (e ▸ List.mem_cons_self)
      exact ih (keeps_step hk hop hs) (fun m hm => hnd m (List.mem_cons_of_mem _ hm)) h

/-- **Revert is exact.**  Take a checkpoint on a command boundary of a perspective `p0`; run any
history of inserts, deletes, added commands and reverts (none below the checkpoint) — for
instance a rule that writes facts and then fails, leaving writes pending at an *equal* command
count, or several accepted commands followed by nested checkpoints and reverts.  Reverting to
the checkpoint then yields exactly `p0`: same fact overlay, same commands, nothing pending. -/
theorem revert_exact (p0 : Persp) (hinv : p0.Inv) (hclean : p0.current = []) (ops : List POp)
    (hnd : NoDeeper p0.checkpoint ops) {p' : Persp} (h : p0.run ops = .ok p') :
    p'.revert p0.checkpoint = .ok p0 := by
  have hk0 : Keeps p0 p0 := ⟨List.prefix_rfl, hinv, rfl⟩
  obtain ⟨k1, k2, k3⟩ := keeps_run hk0 hnd h
  have hle : p0.commands.length ≤ p'.commands.length := k1.length_le
  obtain ⟨q, hq, q1, q2, q3⟩ := Persp.revert_ok (p := p') hle
  show p'.revert p0.commands.length = .ok p0
  rw [hq]
  congr 1
  have hcmds : q.commands = p0.commands := by
    rw [q1]; exact (List.prefix_iff_eq_take.mp k1).symm
  have htake : List.take p0.commands.length p'.commands = p0.commands :=
    (List.prefix_iff_eq_take.mp k1).symm
  apply Persp.ext'
  · have := hinv.2
    unfold Persp.allUpdates at this
    rw [hclean, List.append_nil] at this
    rw [q3 k2, k3, htake]
    exact this.symm
  · exact hcmds
  · rw [q2, hclean]

/-- observational form: every exact query, prefix query, the command list and the next
checkpoint are those of the checkpointed perspective -/
theorem revert_exact_obs (p0 : Persp) (hinv : p0.Inv) (hclean : p0.current = []) (ops : List POp)
    (hnd : NoDeeper p0.checkpoint ops) {p' : Persp} (h : p0.run ops = .ok p') :
    ∃ q, p'.revert p0.checkpoint = .ok q ∧ (∀ k, q.query k = p0.query k) ∧
      (∀ k, q.queryPrefix k = p0.queryPrefix k) ∧ q.commands = p0.commands ∧
      q.checkpoint = p0.checkpoint ∧ q.current = [] :=
  ⟨p0, revert_exact p0 hinv hclean ops hnd h, fun _ => rfl, fun _ => rfl, rfl, rfl, hclean⟩

/-- a checkpoint index beyond the command list is rejected (`bug!`), nothing is changed -/
theorem revert_out_of_range (p : Persp) (n : Nat) (h : p.commands.length < n) :
    p.revert n = .error .badCheckpoint := Persp.revert_err h

/-- perspectives handed out by the storage satisfy the invariant -/
theorem fresh_inv (f : FP) (hf : f.WF) (hm : f.map = []) : Persp.Inv { facts := f } :=
  Persp.Inv_fresh hf hm

/-! ### the command-boundary hypothesis is necessary -/

section Unclean

private def kx : Key := [[97], [1]]
private def ky : Key := [[97], [2]]

/-- checkpoint taken while `kx` is pending (written, no command yet) -/
private def pu : Persp := (({ facts := .overNone [] } : Persp).insert kx [1])

/-- `Checkpoint` records only `commands.len()`: after a further write, reverting to the
checkpoint also discards the write that was visible when the checkpoint was taken. -/
theorem revert_unclean_counterexample :
    pu.Inv ∧ pu.query kx = some [1] ∧
      (match (pu.insert ky [2]).revert pu.checkpoint with
        | .ok q => q.query kx
        | .error _ => some []) = none := by
  refine ⟨by decide, by decide, by decide⟩

end Unclean

/-! ## sessions -/

inductive SessOp where
  | ins (k : Key) (v : Val)
  | del (k : Key)
  | revert (n : Nat)
deriving Repr, DecidableEq

def Session.step (s : Session) : SessOp → Except Err Session
  | .ins k v => .ok (s.insert k v)
  | .del k => .ok (s.delete k)
  | .revert n => s.revert n

def Session.run : Session → List SessOp → Except Err Session
  | s, [] => .ok s
  | s, op :: r =>
    match s.step op with
    | .error e => .error e
    | .ok s' => Session.run s' r

def SNoDeeper (n : Nat) (ops : List SessOp) : Prop := ∀ m, SessOp.revert m ∈ ops → n ≤ m

private def SKeeps (s0 t : Session) : Prop := s0.log <+: t.log ∧ t.Inv ∧ t.base = s0.base

private theorem skeeps_run {s0 t t' : Session} {ops : List SessOp} (hk : SKeeps s0 t)
    (hnd : SNoDeeper s0.log.length ops) (h : t.run ops = .ok t') : SKeeps s0 t' := by
  induction ops generalizing t with
  | nil => cases h; exact hk
  | cons op r ih =>
    unfold Session.run at h
    cases hs : t.step op with
    | error e => rw [hs] at h; cases h
    | ok t1 =>
      rw [hs] at h
      refine ih ?_ (fun m hm => hnd m (List.mem_cons_of_mem _ hm)) h
      obtain ⟨k1, k2, k3⟩ := hk
      cases op with
      | ins k v =>
        cases hs
        exact ⟨List.IsPrefix.trans k1 (List.prefix_append _ _), Session.Inv_insert k2 k v, k3⟩
      | del k =>
        cases hs
        exact ⟨List.IsPrefix.trans k1 (List.prefix_append _ _), Session.Inv_delete k2 k, k3⟩
      | revert m =>
        have hm := hnd m List.mem_cons_self
        by_cases hle : m ≤ t.log.length
        · have hs' : t.revert m = .ok t1 := hs
          rw [Session.revert_ok k2 hle] at hs'
          cases hs'
          exact ⟨List.prefix_take_iff.mpr ⟨k1, hm⟩, rfl, k3⟩
        · have hs' : t.revert m = .ok t1 := hs
          rw [Session.revert_err (by omega)] at hs'
          cases hs'

/-- **Session revert is exact**, for every interleaving of session writes, deletes and reverts
(none below the checkpoint) that follows the checkpoint. -/
theorem session_revert_exact (s0 : Session) (hinv : s0.Inv) (ops : List SessOp)
    (hnd : SNoDeeper s0.checkpoint ops) {s' : Session} (h : s0.run ops = .ok s') :
    s'.revert s0.checkpoint = .ok s0 := by
  obtain ⟨k1, k2, k3⟩ := skeeps_run (s0 := s0) ⟨List.prefix_rfl, hinv, rfl⟩ hnd h
  show s'.revert s0.log.length = .ok s0
  rw [Session.revert_ok k2 k1.length_le]
  congr 1
  have hl : s'.log.take s0.log.length = s0.log := (List.prefix_iff_eq_take.mp k1).symm
  exact Session.ext' k3 hl (by show rebuild _ = _; rw [hl]; exact hinv.symm)

/-- a policy call that wrote and then failed (`Session::action` / `Session::receive` with an
`Err` from the policy): the session is exactly what it was — the writes of the failed rule are
discarded -/
theorem session_call_fail_exact (s : Session) (hinv : s.Inv) (script : List SOp) :
    ∃ s' obs ok, s.call script = .ok (s', obs, ok) ∧ s'.Inv ∧ (ok = false → s' = s) := by
  obtain ⟨h1, h2, h3⟩ := Session.runScript_spec s hinv script
  unfold Session.call
  simp only
  generalize hr : s.runScript script = r at h1 h2 h3
  obtain ⟨s1, obs, ok⟩ := r
  simp only at h1 h2 h3 ⊢
  cases ok with
  | true => exact ⟨s1, obs, true, rfl, h3, fun h => by cases h⟩
  | false =>
    have hle : s.checkpoint ≤ s1.log.length := by
      unfold Session.checkpoint; rw [h2]; simp
    rw [Session.revert_ok h3 hle]
    refine ⟨_, obs, false, rfl, rfl, fun _ => ?_⟩
    have hl : s1.log.take s.checkpoint = s.log := by
      unfold Session.checkpoint; rw [h2]; simp
    exact Session.ext' h1 hl (by show rebuild _ = _; rw [hl]; exact hinv.symm)

/-! ## non-vacuity -/

section Examples

private def p0 : Persp :=
  (((({ facts := .overIndex [] [⟨[(kx, some [7])], 1⟩] } : Persp).insert ky [1]).delete kx).addCommand 1).1

example : p0.Inv ∧ p0.current = [] ∧ p0.checkpoint = 1 := by decide

/-- a failed rule (writes pending at an equal command count), then an accepted command, a nested
checkpoint/revert, and the final revert -/
private def hist : List POp :=
  [.ins kx [9], .del ky, .revert 1, .ins kx [3], .cmd 2, .ins ky [], .revert 2, .del kx]

example : NoDeeper p0.checkpoint hist := by
  intro m hm
  simp [hist] at hm
  rcases hm with rfl | rfl <;> decide

example : (match p0.run hist with
    | .ok p' => decide (p'.commands.length = 2 ∧ p'.query kx = none) &&
        (match p'.revert p0.checkpoint with | .ok q => decide (q = p0) | .error _ => false)
    | .error _ => false) = true := by decide

private def s0 : Session := (({ base := [⟨[(kx, some [7])], 1⟩] } : Session).insert ky [1]).delete kx

example : s0.Inv ∧ s0.query kx = none ∧ s0.query ky = some [1] := by decide
example : (match s0.call [.ins kx [5], .q kx, .del ky, .fail] with
    | .ok (s', obs, ok) => decide (s' = s0 ∧ ok = false ∧ obs.length = 1)
    | .error _ => false) = true := by decide

end Examples

end AranyaV.Facts
