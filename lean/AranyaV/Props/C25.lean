import AranyaV.Proofs.VM
import AranyaV.Gen.VMPanicSites
/-!
# C25 — The VM never panics on any bytecode

`step`/`run` of `AranyaV.VM` (model of `RunState::step`/`run`) carry an explicit `hostPanic`
outcome at every panicking construct of the Rust code.  The theorems below say it is never
produced: for EVERY machine (any instruction sequence over every generated `Instr` variant, any
operands, targets and labels, any struct/fact schemas and globals), every reachable-shaped run
state (any stack of at most `STACK_SIZE` values, any scopes, any call stack of `usize` values
below `usize::MAX`, any pc, any context) and every behaviour of the environment (I/O answers,
FFI stack manipulation, codec results).

Two facts about the source are taken from the generated module and checked here by `rfl`:
`nextLastTodo = false` (defect F2 fixed: `Next`/`Last` no longer `todo!()`) and
`mstructSetCapUnbounded = false` (`MStructSet` no longer allocates `with_capacity(operand)`).
On a tree where either is `true` this file does not check, and `…_before_fix` below exhibit the
panicking inputs.
-/
namespace AranyaV.VM

/-- machine well-formedness: what Rust's types guarantee (`Vec` length, `i64` operand) -/
structure WFm (m : Machine) : Prop where
  len : m.progmem.length ≤ isizeMax
  fit : ∀ i ∈ m.progmem, i.operandsFit

/-- The panic-site inventory (`tools/inventory/C25.json`: every panic-capable construct of the VM's
non-test code, with the `hostPanic` branch / guard lemma / justification it maps to) covers the
source: no (file, function, kind) has MORE such constructs than were reviewed.  Fewer is fine — a
removed panic site cannot break the property, and refactors that drop an `unreachable!()` stay quiet. -/
theorem panic_inventory_matches :
    Gen.VMPanicSites.siteCounts.all (fun e => decide (e.2.1 ≤ e.2.2)) = true := by decide

/-- The `QueryStart`/`QueryNext`/`Update` arms of `step` have a shape the translator recognises
(the model follows the generated flags `queryNextFilters`, `updateGivenOnly`). -/
theorem arms_recognised : armsRecognised = true := rfl

/-- The current source has no `todo!()` for `Next`/`Last` … -/
theorem nextLast_fixed : nextLastTodo = false := rfl
/-- … and bounds the `MStructSet` allocation. -/
theorem mstructSet_fixed : mstructSetCapUnbounded = false := rfl

/-- what a caller may get back from `step`: no host panic, and a state that is again well-formed
(after `Executing`, or after an exit such as `Yield`, after which `run` may be called again) -/
def Outcome.good : Outcome → Prop
  | .executing s' => WFs s'
  | .exited _ s' => WFs s'
  | .error _ _ => True
  | .hostPanic => False

theorem linecol_nonstrict_ne_none (text : List Nat) (pos : Nat) (h : pos ≤ text.length) :
    linecol false text pos ≠ none := by
  unfold linecol
  simp [h]

/-- with the non-strict assertion, building an error's source position never panics: for every
code map (any text, any table), every pc -/
theorem locate_ne_none (hlc : linecolAssertStrict = false) (m : Machine) (pc : Nat) : locate m pc ≠ none := by
  unfold locate locateWith
  rw [hlc]
  cases hc : m.codemap with
  | none => simp
  | some cm =>
    simp only
    cases hl : lastLE pc cm.mapping with
    | none => simp
    | some se =>
      obtain ⟨st, en⟩ := se
      simp only
      by_cases hb : st ≤ en ∧ en ≤ cm.text.length
      · simp only [hb, and_self, if_true]
        cases hx : linecol false cm.text st with
        | none => exact absurd hx (linecol_nonstrict_ne_none cm.text st (by omega))
        | some lc => simp
      · simp [hb]

/-- … and after the fix `SpannedText::linecol` asserts `pos <= len`. -/
theorem linecol_fixed : linecolAssertStrict = false := rfl

/-- a span starting at the end of the text (e.g. the empty span of an empty text) made the strict
assertion fire while the VM was building a `MachineError` -/
theorem locate_panics_before_fix :
    locateWith true { progmem := [], globals := [], structDefs := [], factDefs := [],
                      codemap := some ⟨[], [(0, 0, 0)]⟩ } 0 = none := by
  decide

/-- `step_spec` for any source tree in which the two arms are panic-free -/
theorem step_spec_of (hnl : nextLastTodo = false) (hcap : mstructSetCapUnbounded = false)
    (hlc : linecolAssertStrict = false)
    (m : Machine) (s : RunState) (io : List IoRes) (hm : WFm m) (hs : WFs s) :
    (step m s io).good := by
  have hs1 : WFs { s with io := io, errNoPos := false } := ⟨hs.stack, hs.calls⟩
  unfold step
  simp only
  split
  · cases hl : locate m s.pc with
    | none => exact absurd hl (locate_ne_none hlc m s.pc)
    | some _ => trivial
  · next hge =>
    have hlt : s.pc < m.progmem.length := by simpa using hge
    have hpc : s.pc < usizeMax := by
      have := hm.len; unfold isizeMax at this; unfold usizeMax; omega
    have hinc : checkedInc s.pc ≠ none := checkedInc_ne_none hpc
    rw [List.getElem?_eq_getElem hlt]
    simp only
    have hfit := hm.fit _ (List.getElem_mem hlt)
    have hsafe := exec_safe m s.pc hpc hnl hcap _ hfit _ hs1
    cases hx : exec m s.pc m.progmem[s.pc] { s with io := io, errNoPos := false } with
    | panic => rw [hx] at hsafe; exact hsafe.elim
    | err e s' =>
      simp only
      split
      · trivial
      · cases hl : locate m s'.pc with
        | none => exact absurd hl (locate_ne_none hlc m s'.pc)
        | some _ => trivial
    | ok ctl s' =>
      rw [hx] at hsafe
      obtain ⟨hw, hq⟩ := hsafe
      cases ctl with
      | next =>
        simp only
        cases hc : checkedInc s.pc with
        | none => exact absurd hc hinc
        | some p => exact ⟨hw.stack, hw.calls⟩
      | retTo q =>
        simp only
        cases hc : checkedInc q with
        | none => exact absurd hc (checkedInc_ne_none hq)
        | some p => exact ⟨hw.stack, hw.calls⟩
      | jump n => exact ⟨hw.stack, hw.calls⟩
      | exited r => exact hw
      | yield =>
        simp only
        cases hc : checkedInc s.pc with
        | none => exact absurd hc hinc
        | some p => exact ⟨hw.stack, hw.calls⟩

/-- One step from a well-formed state on the current tree. -/
theorem step_spec (m : Machine) (s : RunState) (io : List IoRes) (hm : WFm m) (hs : WFs s) :
    (step m s io).good :=
  step_spec_of nextLast_fixed mstructSet_fixed linecol_fixed m s io hm hs

/-- **C25**: `step` never panics the host — any machine, state, instruction and I/O answers. -/
theorem step_total_no_panic (m : Machine) (s : RunState) (io : List IoRes) (hm : WFm m) (hs : WFs s) :
    step m s io ≠ .hostPanic := by
  have := step_spec m s io hm hs
  intro h; rw [h] at this; exact this

theorem step_preserves_wf (m : Machine) (s s' : RunState) (io : List IoRes) (hm : WFm m) (hs : WFs s)
    (h : step m s io = .executing s') : WFs s' := by
  have := step_spec m s io hm hs; rw [h] at this; exact this

theorem step_exit_preserves_wf (m : Machine) (s s' : RunState) (io : List IoRes) (r : ExitReason)
    (hm : WFm m) (hs : WFs s) (h : step m s io = .exited r s') : WFs s' := by
  have := step_spec m s io hm hs; rw [h] at this; exact this

/-- **C25**: `run` ends in an exit (normal / yield / check / policy `Panic` exit reason), a machine
error, or is still running when the step budget is used up — never in a host panic; for every
budget, every environment. -/
theorem run_outcomes (m : Machine) (env : Nat → List IoRes) (hm : WFm m) (fuel k : Nat) (s : RunState)
    (hs : WFs s) :
    (∃ r s', run m env fuel k s = .exit r s' ∧ WFs s') ∨ (∃ e s', run m env fuel k s = .machineError e s') ∨
    (∃ s', run m env fuel k s = .outOfFuel s' ∧ WFs s') := by
  induction fuel generalizing k s with
  | zero => exact Or.inr (Or.inr ⟨s, rfl, hs⟩)
  | succ n ih =>
    have hsp := step_spec m s (env k) hm hs
    unfold run
    cases hx : step m s (env k) with
    | executing s' => rw [hx] at hsp; exact ih (k + 1) s' hsp
    | exited r s' => rw [hx] at hsp; exact Or.inl ⟨r, s', rfl, hsp⟩
    | error e s' =>
      simp only
      cases hl : locate m s'.pc with
      | none => exact absurd hl (locate_ne_none linecol_fixed m s'.pc)
      | some _ => exact Or.inr (Or.inl ⟨e, s', rfl⟩)
    | hostPanic => rw [hx] at hsp; exact hsp.elim

theorem run_no_panic (m : Machine) (env : Nat → List IoRes) (hm : WFm m) (fuel k : Nat) (s : RunState)
    (hs : WFs s) : run m env fuel k s ≠ .hostPanic := by
  rcases run_outcomes m env hm fuel k s hs with ⟨r, s', h, _⟩ | ⟨e, s', h⟩ | ⟨s', h, _⟩ <;>
    (rw [h]; intro hh; cases hh)

/-- the state `RunState::new` creates is well-formed -/
theorem init_wf (ctx : Ctx) : WFs (RunState.init ctx) :=
  ⟨by simp [RunState.init], by simp [RunState.init]⟩

/-- pushing initial arguments through the `Stack` API keeps the state well-formed -/
theorem push_wf (v : Value) (s : RunState) (hs : WFs s) : (push v s).safe T := safe_push v s hs

/-- `Machine::from_module` only moves the module's parts into the machine; as a function of the
instruction list it is total: every instruction list no longer than a `Vec` can be is a
well-formed machine, provided operands fit their Rust types. -/
theorem from_module_total (prog : List Instr) (g : List (Nat × Value)) (sd : List (Nat × List (Nat × Ty)))
    (fd : List (Nat × FactDef)) (hl : prog.length ≤ isizeMax) (hf : ∀ i ∈ prog, i.operandsFit) :
    WFm { progmem := prog, globals := g, structDefs := sd, factDefs := fd } := ⟨hl, hf⟩

/-! ## entry points: `call_action`, `call_command_policy`, `call_seal`, `call_open` -/

/-- **C25 (entry calls)**: for every machine and every entry call — arbitrary (unknown) names,
arbitrary (ill-typed, wrong-arity) arguments and `this` data, any context, any well-formed run state
to start from, any environment — the wrapper followed by `run` returns an exit or a machine error
(or is still running when the budget is used up); never a host panic. -/
theorem call_outcomes (m : Machine) (env : Nat → List IoRes) (hm : WFm m) (fuel : Nat) (e : Entry)
    (s : RunState) (hs : WFs s) :
    (∃ r s', call m env fuel e s = .exit r s' ∧ WFs s') ∨ (∃ er s', call m env fuel e s = .machineError er s') ∨
    (∃ s', call m env fuel e s = .outOfFuel s' ∧ WFs s') := by
  have hs0 : WFs { s with errNoPos := false } := ⟨hs.stack, hs.calls⟩
  have h := enter_safe m e _ hs0
  unfold call
  cases hx : enter m e { s with errNoPos := false } with
  | ok a s' => rw [hx] at h; exact run_outcomes m env hm fuel 0 s' h.1
  | err er s' =>
    simp only
    split
    · exact Or.inr (Or.inl ⟨er, s', rfl⟩)
    · cases hl : locate m s'.pc with
      | none => exact absurd hl (locate_ne_none linecol_fixed m s'.pc)
      | some _ => exact Or.inr (Or.inl ⟨er, s', rfl⟩)
  | panic => rw [hx] at h; exact h.elim

theorem call_no_panic (m : Machine) (env : Nat → List IoRes) (hm : WFm m) (fuel : Nat) (e : Entry)
    (s : RunState) (hs : WFs s) : call m env fuel e s ≠ .hostPanic := by
  rcases call_outcomes m env hm fuel e s hs with ⟨r, s', h, _⟩ | ⟨er, s', h⟩ | ⟨s', h, _⟩ <;>
    (rw [h]; intro hh; cases hh)

/-- the part of every `call_*` before `run` (context check, definition lookup, arity and type
checks, label lookup, scope reset, argument pushes): `Ok` with a well-formed state or `Err` -/
theorem enter_no_panic (m : Machine) (e : Entry) (s : RunState) (hs : WFs s) : (enter m e s).safe T :=
  enter_safe m e s hs

/-- the `setup_*` functions alone (public API): `Ok` with a well-formed state or `Err`, never a panic -/
theorem setup_action_safe (m : Machine) (name : Nat) (args : List Value) (s : RunState) (hs : WFs s) :
    (setupAction m name args s).safe T := safe_setupAction m name args s hs
theorem setup_command_safe (m : Machine) (lt : LabelType) (tn : Nat) (tf : Fields) (s : RunState) (hs : WFs s) :
    (setupCommand m lt tn tf s).safe T := safe_setupCommand m lt tn tf s hs

/-! ## cyclic struct definitions and `Deserialize` -/

theorem findDef_eraseDef_self {α} (n : Nat) : (l : List (Nat × α)) → findDef n (eraseDef n l) = none
  | [] => by simp [eraseDef, findDef]
  | (x, d) :: r => by
    unfold eraseDef
    by_cases hx : x = n
    · simp only [hx, if_true]; exact findDef_eraseDef_self n r
    · simp only [hx, if_false, findDef]; exact findDef_eraseDef_self n r

/-- The deserializer's walk is a total function (it is defined by well-founded recursion, so it
terminates for EVERY set of definitions, cyclic or not, and every input), and a definition that
directly contains itself is an error — for every payload — instead of unbounded recursion. -/
theorem deser_direct_cycle_is_error (defs : List (Nat × List (Nat × Ty))) (n f : Nat) (rest : List (Nat × Ty))
    (o : List Bool) (h : findDef n defs = some ((f, .struct n) :: rest)) :
    deserWalk defs (.ty (.struct n)) o = .err := by
  unfold deserWalk
  split
  · rfl
  · next items hi =>
    rw [h] at hi; cases hi
    unfold deserWalk
    have : deserWalk (eraseDef n defs) (.ty (.struct n)) o = .err := by
      unfold deserWalk
      split
      · rfl
      · next items' hi' => rw [findDef_eraseDef_self] at hi'; cases hi'
    rw [this]

/-- a cycle through `optional`: an error exactly when the payload's tag asks for the inner value -/
example : deserWalk [(0, [(8, .optional (.struct 0))])] (.ty (.struct 0)) [true, true] = .err ∧
    deserWalk [(0, [(8, .optional (.struct 0))])] (.ty (.struct 0)) [false] = .ok [] := by
  constructor <;> simp [deserWalk, findDef, eraseDef]

/-- mutual recursion `S → T → S` -/
example : deserWalk [(0, [(8, .struct 1)]), (1, [(9, .int), (8, .struct 0)])] (.ty (.struct 0)) [true, true] = .err := by
  simp [deserWalk, findDef, eraseDef]

/-! ## the defects, as statements about the instruction semantics with the pre-fix flags -/

/-- F2: with `todo!()` in the `Next`/`Last` arms the one-instruction program `[Next]` panics. -/
theorem step_panics_next_before_fix (s : RunState) :
    execNextLastWith true s = .panic := rfl

/-- with the unchecked `Vec::with_capacity(n)`, `MStructSet(usize::MAX)` panics -/
theorem mstructSet_panics_before_fix (s : RunState) :
    mstructAllocWith true usizeMax s = .panic := by
  unfold mstructAllocWith hostPanic
  have : decide (usizeMax * 16 > isizeMax) = true := by decide
  simp [this]

/-! ## non-vacuity and sanity -/

def demoMachine : Machine :=
  { progmem := [.Const (.int 5), .Const (.int 7), .Add, .Next, .MStructSet usizeMax,
                .Jump (.Resolved (2 ^ 64 - 1)), .FactCount i64Max, .RestoreSP, .Return],
    globals := [], structDefs := [], factDefs := [],
    labels := [((3, .Action), 0)], actionDefs := [(3, [(8, .int)])] }

example : WFm demoMachine := by
  refine ⟨by decide, ?_⟩
  intro i hi
  simp only [demoMachine, List.mem_cons, List.mem_nil_iff, or_false] at hi
  rcases hi with rfl | rfl | rfl | rfl | rfl | rfl | rfl | rfl | rfl <;> simp [Instr.operandsFit]

/-- a well-formed state with a full stack and a call stack holding the largest admissible value -/
example : WFs { pc := 7, stack := List.replicate stackSize Value.unit, callState := [usizeMax - 1, 0],
                scope := [[[]]], ctx := .policy 0, iters := [], io := [] } :=
  ⟨by simp [RunState.init, stackSize], by
    intro x hx
    simp only [RunState.init, List.mem_cons, List.mem_nil_iff, or_false] at hx
    rcases hx with rfl | rfl <;> decide⟩

/-- `Next` on the fixed tree is an ordinary machine error -/
example : step { progmem := [.Next], globals := [], structDefs := [], factDefs := [] }
      (RunState.init (.action 0)) [] =
    .error .invalidInstruction (RunState.init (.action 0)) := by
  simp [step, RunState.init, exec, execNextLast, execNextLastWith, nextLast_fixed, throw, locate, locateWith]

/-- non-vacuity of the entry-call theorems: a well-typed action call on `demoMachine` enters;
an ill-typed one, a wrong-arity one and an unknown name are machine errors -/
example : ∃ s', enter demoMachine (.action 3 [.int 1]) (RunState.init (.action 3)) = .ok () s' ∧ s'.stack = [.int 1] :=
  ⟨_, rfl, rfl⟩
example : ∃ s', enter demoMachine (.action 3 [.bool true]) (RunState.init (.action 3)) = .err .invalidType s' :=
  ⟨_, rfl⟩
example : ∃ s', enter demoMachine (.action 3 []) (RunState.init (.action 3)) = .err .unknown s' := ⟨_, rfl⟩
example : ∃ s', enter demoMachine (.action 4 []) (RunState.init (.action 4)) = .err .notDefined s' := ⟨_, rfl⟩
example : ∃ s', enter demoMachine (.action 3 [.int 1]) (RunState.init (.policy 3)) = .err .contextMismatch s' :=
  ⟨_, rfl⟩

end AranyaV.VM
