import AranyaV.Proofs.BraidRef
import AranyaV.Proofs.BraidTrx
/-!
# C05 — Concurrent finalize commands are always detected; no false detection

On the reference braid `Spec.Braid.refBraid` (tied to the real `braid`/`commit`/`add_merge` by the
C05 harness), for every well-formed graph `g` and legal head set `hs`
(`R = ancSelfAll g hs` is the braided region):

* `pf_sound`             — (no false detection) `parallelFinalize` is reported only if the region
                           contains two distinct finalize commands neither of which is an ancestor of
                           the other;
* `pf_complete`          — (always detected, rooted graphs) two distinct finalize commands of the
                           region with no common descendant inside the region always make the braid
                           fail with `parallelFinalize`;
* `pf_iff`               — for graphs in which no command has two incomparable finalizes among its
                           ancestors-or-self (`Clean g`): the braid fails with `parallelFinalize`
                           **iff** the region contains two incomparable finalize commands;
* `clean_of_mergesOk`    — `Clean` is an invariant of graphs built by appending commands whose
                           merges were accepted by their own braid (`MergesOk`: the only graphs a
                           replica can hold), so `pf_iff` applies to every reachable graph
                           (`pf_iff_reachable`);
* `ordered_finalizes_ok` — if all finalize commands of the region are causally ordered the braid
                           succeeds (it never fails for that reason, and never fails otherwise).

Why `pf_complete` needs "no common descendant": what the algorithm detects is two finalize
strands *simultaneously available*.  Two incomparable finalizes that are both below an already
stored merge `m` are hidden below the point where the braid stops whenever `m` is an
ancestor-or-self of the start; `clean_of_mergesOk` shows such an `m` cannot have been stored.

On the transaction model of C06/C08 (`Model/Trx.lean`, builder-G2's; `commit` = stamp check, flush,
head set, `evaluate_braid` via `refBraid`, then `commit_heads`; `addMerge` = `add_merge`):
* `pf_commit_unchanged`  — a `commit` that fails with `ParallelFinalize` (indeed with any error) returns
                           the committed store it was given — graph, heads, fact cache and stamp — and
                           the sink unchanged: the error is returned before `commit_heads`;
* `pf_commit_iff`        — in the live case (stamp current, nothing empty to flush, at least two tips)
                           `commit` fails with `ParallelFinalize` iff the reference braid of the new head
                           set does; with `pf_iff_reachable`: iff the graph the transaction would commit
                           holds two incomparable finalize commands (`pf_commit_iff_finalizes`);
* `pf_merge_unchanged`   — a failing `add_merge` leaves the transaction as `flush` left it and the sink
                           untouched (the committed store is not touched by `add_merge` at all).
-/
namespace AranyaV.Spec
open AranyaV.Gen

/-- **No false detection.** -/
theorem pf_sound {g : Graph} (hw : WF g) {hs : List Nat} (hh : Heads g hs)
    (h : refBraid g hs = .error .parallelFinalize) :
    ∃ f1 ∈ ancSelfAll g hs, ∃ f2 ∈ ancSelfAll g hs, f1 ≠ f2 ∧ isFinalize g f1 = true ∧
      isFinalize g f2 = true ∧ anc g f1 f2 = false ∧ anc g f2 f1 = false := by
  have := refBraid_spec hw hh
  rw [h] at this
  obtain ⟨f1, h1, f2, h2, hne, hf1, hf2, hr1, hr2⟩ := this
  refine ⟨f1, h1, f2, h2, hne, hf1, hf2, ?_, ?_⟩
  · cases ha : anc g f1 f2 with
    | false => rfl
    | true => exact absurd ((anc_iff hw _ _).mp ha).2 hr1
  · cases ha : anc g f2 f1 with
    | false => rfl
    | true => exact absurd ((anc_iff hw _ _).mp ha).2 hr2

/-- a successful braid of a rooted graph has every finalize of the region below the start -/
theorem ok_finalizes_below_start {g : Graph} (hw : WF g) (hroot : Rooted g) {hs : List Nat} (hh : Heads g hs)
    {s : Nat} {o : List Nat} (h : refBraid g hs = .ok (s, o)) :
    s ∈ ancSelfAll g hs ∧ ∀ f ∈ ancSelfAll g hs, isFinalize g f = true → Reach g f s := by
  have hsp := refBraid_spec hw hh
  rw [h] at hsp
  obtain ⟨st, hi, hA, _⟩ := hsp
  have hR := region_ancSelfAll hw hh.sub
  have hsA : s ∈ st.avail := by rw [hA]; simp
  refine ⟨((hi.aIff s).mp hsA).1, ?_⟩
  intro f hfR hf
  apply final_unprocessed hw hR hi hA f hfR
  intro hp
  have := hi.noFinP hroot f hp
  rw [hf] at this; cases this

/-- **Always detected.**  Two distinct finalizes of the region without a common descendant in the
region (in particular: incomparable, not yet joined by a merge) make the braid fail with
`parallelFinalize`. -/
theorem pf_complete {g : Graph} (hw : WF g) (hroot : Rooted g) {hs : List Nat} (hh : Heads g hs)
    {f1 f2 : Nat} (h1 : f1 ∈ ancSelfAll g hs) (h2 : f2 ∈ ancSelfAll g hs)
    (hf1 : isFinalize g f1 = true) (hf2 : isFinalize g f2 = true)
    (hno : ∀ x ∈ ancSelfAll g hs, ¬ (f1 ∈ ancSelfAll g [x] ∧ f2 ∈ ancSelfAll g [x])) :
    refBraid g hs = .error .parallelFinalize := by
  cases h : refBraid g hs with
  | error e =>
    cases e with
    | parallelFinalize => rfl
    | malformed =>
      have := refBraid_spec hw hh
      rw [h] at this
      exact this.elim
  | ok r =>
    exfalso
    obtain ⟨s, o⟩ := r
    obtain ⟨hsR, hall⟩ := ok_finalizes_below_start hw hroot hh h
    apply hno s hsR
    constructor
    · rw [mem_ancSelfAll hw]; exact ⟨s, by simp, hall f1 h1 hf1⟩
    · rw [mem_ancSelfAll hw]; exact ⟨s, by simp, hall f2 h2 hf2⟩

/-- no command has two incomparable finalizes among its ancestors-or-self -/
def Clean (g : Graph) : Prop :=
  ∀ x f1 f2, Reach g f1 x → Reach g f2 x → isFinalize g f1 = true → isFinalize g f2 = true →
    Reach g f1 f2 ∨ Reach g f2 f1

/-- **`pf_iff`.** On a clean rooted graph the braid fails with `parallelFinalize` iff the region
holds two finalize commands neither of which is an ancestor of the other. -/
theorem pf_iff {g : Graph} (hw : WF g) (hroot : Rooted g) (hclean : Clean g) {hs : List Nat} (hh : Heads g hs) :
    refBraid g hs = .error .parallelFinalize ↔
    ∃ f1 ∈ ancSelfAll g hs, ∃ f2 ∈ ancSelfAll g hs, f1 ≠ f2 ∧ isFinalize g f1 = true ∧
      isFinalize g f2 = true ∧ anc g f1 f2 = false ∧ anc g f2 f1 = false := by
  constructor
  · exact pf_sound hw hh
  · rintro ⟨f1, h1, f2, h2, hne, hf1, hf2, ha1, ha2⟩
    apply pf_complete hw hroot hh h1 h2 hf1 hf2
    rintro x _ ⟨hx1, hx2⟩
    rw [mem_ancSelfAll hw] at hx1 hx2
    obtain ⟨b1, hb1, hr1⟩ := hx1
    obtain ⟨b2, hb2, hr2⟩ := hx2
    simp at hb1 hb2; subst hb1; subst hb2
    rcases hclean _ f1 f2 hr1 hr2 hf1 hf2 with hr | hr
    · have := (anc_iff hw f1 f2).mpr ⟨hne, hr⟩
      rw [ha1] at this; cases this
    · have := (anc_iff hw f2 f1).mpr ⟨Ne.symm hne, hr⟩
      rw [ha2] at this; cases this

/-- **`ordered_finalizes_ok`.** If the finalize commands of the region are causally ordered, the
braid succeeds. -/
theorem ordered_finalizes_ok {g : Graph} (hw : WF g) {hs : List Nat} (hh : Heads g hs)
    (hord : ∀ f1 ∈ ancSelfAll g hs, ∀ f2 ∈ ancSelfAll g hs, isFinalize g f1 = true →
      isFinalize g f2 = true → f1 = f2 ∨ anc g f1 f2 = true ∨ anc g f2 f1 = true) :
    ∃ s o, refBraid g hs = .ok (s, o) := by
  cases h : refBraid g hs with
  | ok r => exact ⟨r.1, r.2, rfl⟩
  | error e =>
    exfalso
    cases e with
    | malformed =>
      have := refBraid_spec hw hh
      rw [h] at this
      exact this
    | parallelFinalize =>
      obtain ⟨f1, h1, f2, h2, hne, hf1, hf2, ha1, ha2⟩ := pf_sound hw hh h
      rcases hord f1 h1 f2 h2 hf1 hf2 with e | e | e
      · exact hne e
      · rw [ha1] at e; cases e
      · rw [ha2] at e; cases e

/-! ## `Clean` holds of every graph a replica can hold -/

/-- graphs built by appending commands, where each merge command was accepted by its own braid -/
inductive MergesOk : Graph → Prop
  | nil : MergesOk []
  | snoc {g : Graph} {c : Cmd} : MergesOk g →
      (∀ l r, c.parents = [l, r] → Antichain g [l, r] ∧ ∃ s o, refBraid g [l, r] = .ok (s, o)) →
      MergesOk (g ++ [c])

theorem isFinalize_snoc {g : Graph} {c : Cmd} (hw : WF (g ++ [c])) {f : Nat} (hf : f ∈ ids g) :
    isFinalize (g ++ [c]) f = isFinalize g f := by
  obtain ⟨hw', _, _⟩ := hw.snoc_inv
  obtain ⟨d, hd, rfl⟩ := mem_ids.mp hf
  have h1 : g.find? d.id = some d := (find?_eq_some hw').mpr ⟨hd, rfl⟩
  have h2 : (g ++ [c]).find? d.id = some d := (find?_eq_some hw).mpr ⟨by simp [hd], rfl⟩
  simp [isFinalize, h1, h2]

theorem Rooted.snoc_inv {g : Graph} {c : Cmd} (h : Rooted (g ++ [c])) : Rooted g :=
  ⟨fun d hd => h.initRoot d (by simp [hd]), fun d hd e he => h.oneRoot d (by simp [hd]) e (by simp [he])⟩

theorem clean_snoc {g : Graph} {c : Cmd} (hw : WF (g ++ [c])) (hroot : Rooted (g ++ [c])) (hcl : Clean g)
    (hm : ∀ l r, c.parents = [l, r] → Antichain g [l, r] ∧ ∃ s o, refBraid g [l, r] = .ok (s, o)) :
    Clean (g ++ [c]) := by
  obtain ⟨hw', hcid, hcpar⟩ := hw.snoc_inv
  have hroot' := hroot.snoc_inv
  -- below an old command nothing changes
  have hold : ∀ x f, x ≠ c.id → Reach (g ++ [c]) f x → Reach g f x := fun x f hx hr => hr.snoc_ne hw hx
  have hfin : ∀ f x, x ∈ ids g → Reach g f x → isFinalize (g ++ [c]) f = isFinalize g f :=
    fun f x hx hr => isFinalize_snoc hw (hr.mem_ids hw' hx)
  intro x f1 f2 hr1 hr2 hf1 hf2
  by_cases hx : x = c.id
  · subst hx
    rcases hr1.snoc_eq hw with e1 | ⟨p1, hp1, hr1'⟩
    · right; rw [e1]; exact hr2
    · rcases hr2.snoc_eq hw with e2 | ⟨p2, hp2, hr2'⟩
      · left; rw [e2]; exact hr1
      · have hf1' : isFinalize g f1 = true := by rw [← hfin f1 p1 (hcpar p1 hp1) hr1']; exact hf1
        have hf2' : isFinalize g f2 = true := by rw [← hfin f2 p2 (hcpar p2 hp2) hr2']; exact hf2
        by_cases e : p1 = p2
        · subst e
          rcases hcl p1 f1 f2 hr1' hr2' hf1' hf2' with h | h
          · exact Or.inl h.mono
          · exact Or.inr h.mono
        · -- c is a merge of p1 and p2: its own braid succeeded
          have harity := hw.arity (c := c) (by simp)
          have hnd := hw.parents_nodup (c := c) (by simp)
          obtain ⟨l, r, hlr⟩ : ∃ l r, c.parents = [l, r] := by
            match hcp : c.parents, harity, hp1, hp2 with
            | [], _, h1, _ => rw [hcp] at hp1; simp at hp1
            | [a], _, _, _ =>
              rw [hcp] at hp1 hp2; simp at hp1 hp2; exact absurd (hp1.trans hp2.symm) e
            | [a, b], _, _, _ => exact ⟨a, b, rfl⟩
            | _ :: _ :: _ :: _, h, _, _ => rw [hcp] at harity; simp at harity
          obtain ⟨hanti, s, o, hok⟩ := hm l r hlr
          have hlrne : l ≠ r := by rw [hlr] at hnd; simpa using hnd
          have hheads : Heads g [l, r] :=
            ⟨by simp, by simpa using hlrne, fun y hy => hcpar y (by rw [hlr]; exact hy), hanti⟩
          have hR1 : f1 ∈ ancSelfAll g [l, r] := by
            rw [mem_ancSelfAll hw']; exact ⟨p1, by rw [← hlr]; exact hp1, hr1'⟩
          have hR2 : f2 ∈ ancSelfAll g [l, r] := by
            rw [mem_ancSelfAll hw']; exact ⟨p2, by rw [← hlr]; exact hp2, hr2'⟩
          obtain ⟨_, hall⟩ := ok_finalizes_below_start hw' hroot' hheads hok
          rcases hcl s f1 f2 (hall f1 hR1 hf1') (hall f2 hR2 hf2') hf1' hf2' with h | h
          · exact Or.inl h.mono
          · exact Or.inr h.mono
  · have hxg : x ∈ ids g := by
      have : x ∈ ids (g ++ [c]) := by
        rcases hr1.cases_head with e | ⟨m, hpm, hrm⟩
        · -- f1 = x is a finalize of g ++ [c], hence a known id
          subst e
          simp only [isFinalize] at hf1
          cases hfd : (g ++ [c]).find? f1 with
          | none => rw [hfd] at hf1; cases hf1
          | some d => exact (find?_mem_ids hfd).1
        · clear hpm
          -- x has a parent edge into it, so it is a known id
          have : ∀ a b, Reach (g ++ [c]) a b → a ≠ b → b ∈ ids (g ++ [c]) := by
            intro a b hab
            induction hab with
            | refl => intro h; exact absurd rfl h
            | tail _ hp _ => intro _; exact (hp.mem_ids hw).2
          by_cases e : f1 = x
          · subst e
            simp only [isFinalize] at hf1
            cases hfd : (g ++ [c]).find? f1 with
            | none => rw [hfd] at hf1; cases hf1
            | some d => exact (find?_mem_ids hfd).1
          · exact this f1 x hr1 e
      simp only [ids, List.map_append, List.map_cons, List.map_nil, List.mem_append, List.mem_singleton] at this
      rcases this with h | h
      · exact h
      · exact absurd h hx
    have hr1' := hold x f1 hx hr1
    have hr2' := hold x f2 hx hr2
    have hf1' : isFinalize g f1 = true := by rw [← hfin f1 x hxg hr1']; exact hf1
    have hf2' : isFinalize g f2 = true := by rw [← hfin f2 x hxg hr2']; exact hf2
    rcases hcl x f1 f2 hr1' hr2' hf1' hf2' with h | h
    · exact Or.inl h.mono
    · exact Or.inr h.mono

/-- **`clean_of_mergesOk`.** -/
theorem clean_of_mergesOk {g : Graph} (hm : MergesOk g) (hw : WF g) (hroot : Rooted g) : Clean g := by
  induction hm with
  | nil =>
    intro x f1 f2 _ _ hf1 _
    simp [isFinalize, Graph.find?] at hf1
  | @snoc g c _ hc ih =>
    exact clean_snoc hw hroot (ih hw.snoc_inv.1 hroot.snoc_inv) hc

/-- `pf_iff` for every graph a replica can hold -/
theorem pf_iff_reachable {g : Graph} (hm : MergesOk g) (hw : WF g) (hroot : Rooted g) {hs : List Nat}
    (hh : Heads g hs) :
    refBraid g hs = .error .parallelFinalize ↔
    ∃ f1 ∈ ancSelfAll g hs, ∃ f2 ∈ ancSelfAll g hs, f1 ≠ f2 ∧ isFinalize g f1 = true ∧
      isFinalize g f2 = true ∧ anc g f1 f2 = false ∧ anc g f2 f1 = false :=
  pf_iff hw hroot (clean_of_mergesOk hm hw hroot) hh

/-! ## non-vacuity -/

def exP (i : Nat) (ps : List Nat) (p : Priority) : Cmd := { id := i, parents := ps, prio := p, body := [] }

/-- init 1; 2, 3 on 1; finalize 4 on 2; finalize 5 on 3 (parallel); finalize 6 on 4 (ordered after 4) -/
def exPF : Graph :=
  [exP 1 [] .init, exP 2 [1] (.basic 0), exP 3 [1] (.basic 0), exP 4 [2] .finalize, exP 5 [3] .finalize,
   exP 6 [4] .finalize]

theorem exPF_wf : WF exPF := wfB_sound (by decide)
theorem exPF_rooted : Rooted exPF := ⟨by decide, by decide⟩
theorem exPF_heads : Heads exPF [4, 3] := ⟨by decide, by decide, by decide, by unfold Antichain; decide⟩
theorem exPF_heads2 : Heads exPF [6, 5] := ⟨by decide, by decide, by decide, by unfold Antichain; decide⟩
theorem exPF_heads3 : Heads exPF [6, 3] := ⟨by decide, by decide, by decide, by unfold Antichain; decide⟩

/-- heads 6 and 5 are two parallel finalizes: detected on the initial pushes -/
example : refBraid exPF [6, 5] = .error .parallelFinalize := by rfl

/-- ordered finalizes 4 < 6 on one branch, none on the other: the braid succeeds -/
example : ∃ s o, refBraid exPF [6, 3] = .ok (s, o) :=
  ordered_finalizes_ok exPF_wf exPF_heads3 (by decide)

example : isFinalize exPF 4 = true ∧ isFinalize exPF 5 = true ∧ anc exPF 4 5 = false ∧ anc exPF 5 4 = false ∧
    4 ∈ ancSelfAll exPF [6, 5] ∧ 5 ∈ ancSelfAll exPF [6, 5] := by decide

/-- a graph a replica can hold (`MergesOk`): the merge 4 of 2 and 3 was accepted by its braid -/
def exMO : Graph :=
  [exP 1 [] .init, exP 2 [1] .finalize, exP 3 [2] (.basic 0), exP 4 [2] (.basic 1)]

example : MergesOk (exMO ++ [exP 5 [3, 4] .merge]) :=
  MergesOk.snoc
    (MergesOk.snoc (MergesOk.snoc (MergesOk.snoc (MergesOk.snoc MergesOk.nil (g := []) (c := exP 1 [] .init)
      (by intro l r h; cases h)) (c := exP 2 [1] .finalize) (by intro l r h; cases h))
      (c := exP 3 [2] (.basic 0)) (by intro l r h; cases h)) (c := exP 4 [2] (.basic 1)) (by intro l r h; cases h))
    (by
      intro l r h
      cases h
      exact ⟨by unfold Antichain; decide, 4, [3], by rfl⟩)

end AranyaV.Spec

namespace AranyaV.Trx
open AranyaV.Spec AranyaV.Gen

/-- **`pf_commit_unchanged`.** A commit that fails with `ParallelFinalize` leaves the committed
heads, fact cache, graph and stamp — the whole committed store — and the sink exactly as they
were (`evaluate_braid` fails before `commit_heads`; no effect reaches the sink). -/
theorem pf_commit_unchanged (st : Store) (t : Trx) (sink : List SinkEv)
    (h : (commit (some st) t sink).2.2 = .error .parallelFinalize) :
    (commit (some st) t sink).1 = some st ∧ (commit (some st) t sink).2.1 = sink :=
  commit_err_unchanged st t sink _ h

/-- the same for every error of `commit` -/
theorem commit_error_unchanged (st : Store) (t : Trx) (sink : List SinkEv) (e : Err)
    (h : (commit (some st) t sink).2.2 = .error e) :
    (commit (some st) t sink).1 = some st ∧ (commit (some st) t sink).2.1 = sink :=
  commit_err_unchanged st t sink e h

/-- **`pf_commit_iff`.** In the live multi-head case `commit` fails with `ParallelFinalize` exactly
when the reference braid of the head set it would install fails that way; otherwise (no
`malformed`/missing state) it installs that head set with the next stamp. -/
theorem pf_commit_iff {st : Store} {t : Trx} (hl : LiveMulti st t) (sink : List SinkEv) :
    (commit (some st) t sink).2.2 = .error .parallelFinalize ↔
      refBraid (cmds (st.graph ++ (flushT t).written)) ((flushT t).heads.foldl hsPush []) =
        .error .parallelFinalize := by
  rw [commit_live_multi hl sink, ← braidFacts_pf]
  cases hb : braidFacts (st.graph ++ (flushT t).written) ((flushT t).heads.foldl hsPush []) with
  | error e => simp
  | ok r => simp

/-- **`pf_commit_iff_finalizes`.** … iff the graph the transaction would commit holds two finalize
commands neither of which is an ancestor of the other (for graphs a replica can hold). -/
theorem pf_commit_iff_finalizes {st : Store} {t : Trx} (hl : LiveMulti st t) (sink : List SinkEv)
    (hm : MergesOk (cmds (st.graph ++ (flushT t).written)))
    (hw : WF (cmds (st.graph ++ (flushT t).written)))
    (hroot : Rooted (cmds (st.graph ++ (flushT t).written)))
    (hh : Heads (cmds (st.graph ++ (flushT t).written)) ((flushT t).heads.foldl hsPush [])) :
    (commit (some st) t sink).2.2 = .error .parallelFinalize ↔
    ∃ f1 ∈ ancSelfAll (cmds (st.graph ++ (flushT t).written)) ((flushT t).heads.foldl hsPush []),
    ∃ f2 ∈ ancSelfAll (cmds (st.graph ++ (flushT t).written)) ((flushT t).heads.foldl hsPush []),
      f1 ≠ f2 ∧ isFinalize (cmds (st.graph ++ (flushT t).written)) f1 = true ∧
      isFinalize (cmds (st.graph ++ (flushT t).written)) f2 = true ∧
      anc (cmds (st.graph ++ (flushT t).written)) f1 f2 = false ∧
      anc (cmds (st.graph ++ (flushT t).written)) f2 f1 = false := by
  rw [pf_commit_iff hl sink]
  exact pf_iff_reachable hm hw hroot hh

/-- **`pf_merge_unchanged`.** A failing `add_merge` (in particular `ParallelFinalize`) leaves the
transaction as `flush` left it and emits nothing. -/
theorem pf_merge_unchanged (st : Store) (t : Trx) (sink : List SinkEv) (c : Cmd) (l r : Nat)
    (h : (addMerge st t sink c l r).2.2 = some .parallelFinalize) :
    (addMerge st t sink c l r).1 = flushT t ∧ (addMerge st t sink c l r).2.1 = sink :=
  addMerge_err_unchanged st t sink c l r _ h

/-! ### non-vacuity: a commit of two parallel finalize tips -/

def exSC (i : Nat) (ps : List Nat) (p : Priority) : SCmd := ⟨{ id := i, parents := ps, prio := p, body := [] }, {}⟩

/-- committed: init 1, finalize 2 on 1 (head 2, stamp 7) -/
def exSt : Store := { graph := [exSC 1 [] .init, exSC 2 [1] .finalize], heads := [2], stamp := 7, facts := {} }
/-- the transaction read the heads at stamp 7 and wrote a finalize 3 on 1: tips {2, 3} -/
def exT : Trx := { offset := some 7, heads := [2, 3], written := [exSC 3 [1] .finalize] }

theorem exT_live : LiveMulti exSt exT :=
  ⟨rfl, rfl, by intro h e; have : ([2, 3] : List Nat) = [h] := e; simp at this, rfl⟩

example : commit (some exSt) exT [] = (some exSt, [], .error .parallelFinalize) := by
  have h : (commit (some exSt) exT []).2.2 = .error .parallelFinalize :=
    (pf_commit_iff exT_live []).mpr (by rfl)
  obtain ⟨h1, h2⟩ := pf_commit_unchanged exSt exT [] h
  exact Prod.ext h1 (Prod.ext h2 h)

end AranyaV.Trx
