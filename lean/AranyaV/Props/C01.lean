import AranyaV.Spec.Braid
import AranyaV.Spec.Synth
/-!
# C01 — Replicas holding the same commands converge

Full statement: any two replicas that have committed the same *set* of commands report the same
head set, the same answer to every fact query and the same hello head, whatever the arrival
order, batching, commit points and peers.

At the spec level a replica's committed graph is a parents-first *listing* of its command set;
two replicas that hold the same set hold permutations of one another.  This file proves the
set-function half for heads and hello head (`frontier_perm`, `observables_of_set`) and the
insertion-order independence of the committed `HeadSet` (`headset_push_sorted`,
`headset_order_indep`).  Invariance of the *fact state* (`factsOf`) under re-listing is the
braid theorem `braid_layout_indep` of C03; that the real transaction mechanism commits exactly
`frontier` / `factsOf` of the accepted set is C09 / C06 (Model.Trx).  The harness `c01` ties the
whole chain on real replicas.
-/
namespace AranyaV.Spec

/-! ## frontier and hello head are functions of the command set -/

theorem children_perm {g g' : Graph} (h : g.Perm g') (i : Nat) :
    (children g i).Perm (children g' i) := by
  unfold children
  exact (h.filter _).map _

theorem children_isEmpty_perm {g g' : Graph} (h : g.Perm g') (i : Nat) :
    (children g i).isEmpty = (children g' i).isEmpty := by
  have := (children_perm h i).length_eq
  cases h1 : children g i <;> cases h2 : children g' i <;> simp_all

private theorem tips_perm {g g' : Graph} (h : g.Perm g') :
    ((g.filter (fun c => (children g c.id).isEmpty)).map (·.id)).Perm
    ((g'.filter (fun c => (children g' c.id).isEmpty)).map (·.id)) := by
  have e : (fun c : Cmd => (children g c.id).isEmpty) = (fun c : Cmd => (children g' c.id).isEmpty) := by
    funext c; exact children_isEmpty_perm h c.id
  rw [e]
  exact (h.filter _).map _

/-! ## `HeadSet::push` (sorted insert with de-duplication, `storage/head_set.rs`) -/

theorem mem_hsPush {l : List Nat} {x a : Nat} : a ∈ hsPush l x ↔ a = x ∨ a ∈ l := by
  induction l with
  | nil => simp [hsPush]
  | cons y ys ih =>
    simp only [hsPush]
    split
    · simp
    · split
      · rename_i h; subst h; simp
      · simp [ih]; constructor <;> (intro h; rcases h with h | h | h <;> simp [h])

/-- `push` keeps the head set strictly ascending (sorted by id and duplicate-free) -/
theorem headset_push_sorted {l : List Nat} (h : l.Pairwise (· < ·)) (x : Nat) :
    (hsPush l x).Pairwise (· < ·) := by
  induction l with
  | nil => simp [hsPush]
  | cons y ys ih =>
    simp only [hsPush]
    rw [List.pairwise_cons] at h
    split
    · rename_i hxy
      rw [List.pairwise_cons]
      refine ⟨?_, List.pairwise_cons.mpr h⟩
      intro a ha
      rcases List.mem_cons.mp ha with rfl | ha
      · exact hxy
      · exact Nat.lt_trans hxy (h.1 a ha)
    · split
      · exact List.pairwise_cons.mpr h
      · rename_i h1 h2
        rw [List.pairwise_cons]
        refine ⟨?_, ih h.2⟩
        intro a ha
        rcases mem_hsPush.mp ha with rfl | ha
        · omega
        · exact h.1 a ha

theorem hsBuild_sorted (xs : List Nat) : (xs.foldl hsPush []).Pairwise (· < ·) := by
  suffices ∀ l : List Nat, l.Pairwise (· < ·) → (xs.foldl hsPush l).Pairwise (· < ·) from this [] (by simp)
  induction xs with
  | nil => intro l h; exact h
  | cons x xs ih => intro l h; exact ih _ (headset_push_sorted h x)

theorem mem_hsBuild (xs : List Nat) (a : Nat) : a ∈ xs.foldl hsPush [] ↔ a ∈ xs := by
  suffices ∀ l : List Nat, a ∈ xs.foldl hsPush l ↔ a ∈ l ∨ a ∈ xs by simpa using this []
  induction xs with
  | nil => intro l; simp
  | cons x xs ih =>
    intro l
    simp only [List.foldl_cons, ih, mem_hsPush, List.mem_cons]
    constructor
    · rintro ((h | h) | h)
      · exact Or.inr (Or.inl h)
      · exact Or.inl h
      · exact Or.inr (Or.inr h)
    · rintro (h | h | h)
      · exact Or.inl (Or.inr h)
      · exact Or.inl (Or.inl h)
      · exact Or.inr h

/-- strictly ascending lists with the same members are equal -/
theorem sorted_ext {l₁ l₂ : List Nat} (h₁ : l₁.Pairwise (· < ·)) (h₂ : l₂.Pairwise (· < ·))
    (hm : ∀ a, a ∈ l₁ ↔ a ∈ l₂) : l₁ = l₂ := by
  induction l₁ generalizing l₂ with
  | nil =>
    cases l₂ with
    | nil => rfl
    | cons b t => exact absurd ((hm b).mpr (by simp)) (by simp)
  | cons a t ih =>
    cases l₂ with
    | nil => exact absurd ((hm a).mp (by simp)) (by simp)
    | cons b t' =>
      rw [List.pairwise_cons] at h₁ h₂
      have hab : a = b := by
        have h1 : a ∈ b :: t' := (hm a).mp (by simp)
        have h2 : b ∈ a :: t := (hm b).mpr (by simp)
        rcases List.mem_cons.mp h1 with e | e
        · exact e
        · rcases List.mem_cons.mp h2 with e' | e'
          · exact e'.symm
          · have := h₁.1 b e'; have := h₂.1 a e; omega
      subst hab
      congr 1
      apply ih h₁.2 h₂.2
      intro x
      constructor
      · intro hx
        have := (hm x).mp (List.mem_cons_of_mem _ hx)
        rcases List.mem_cons.mp this with e | e
        · subst e; exact absurd (h₁.1 x hx) (Nat.lt_irrefl _)
        · exact e
      · intro hx
        have := (hm x).mpr (List.mem_cons_of_mem _ hx)
        rcases List.mem_cons.mp this with e | e
        · subst e; exact absurd (h₂.1 x hx) (Nat.lt_irrefl _)
        · exact e

/-- the committed head set is the same whatever the order (and multiplicity) in which the tips
are pushed: it depends only on the *set* of tips -/
theorem headset_order_indep (xs ys : List Nat) (h : ∀ a, a ∈ xs ↔ a ∈ ys) :
    xs.foldl hsPush [] = ys.foldl hsPush [] :=
  sorted_ext (hsBuild_sorted xs) (hsBuild_sorted ys)
    (fun a => by rw [mem_hsBuild, mem_hsBuild]; exact h a)

/-- the committed head set (ids without committed children, ascending) does not depend on the
order in which the commands are listed / arrived -/
theorem frontier_perm {g g' : Graph} (h : g.Perm g') : frontier g = frontier g' := by
  unfold frontier
  exact headset_order_indep _ _ (fun a => (tips_perm h).mem_iff)

/-- the hello head is a function of the head set alone -/
theorem synth_fun (h₁ h₂ : List Nat) (e : h₁ = h₂) : synth h₁ = synth h₂ := by rw [e]

/-- heads and hello head are functions of the committed command *set* -/
theorem observables_of_set {g g' : Graph} (h : g.Perm g') :
    frontier g = frontier g' ∧ synth (frontier g) = synth (frontier g') := by
  have := frontier_perm h
  exact ⟨this, by rw [this]⟩

/-! non-vacuity -/
example : [3, 1, 2, 1].foldl hsPush [] = [1, 2, 3] := by decide
example : frontier [⟨0, [], .init, [], ""⟩, ⟨5, [0], .basic 0, [], ""⟩, ⟨3, [0], .basic 1, [], ""⟩] = [3, 5] := by
  decide

end AranyaV.Spec
