import AranyaV.Proofs.Queue
/-!
# C21 — The traversal queue keeps its ordering and coverage rules

Property theorems for `AranyaV.Queue` (model of `TraversalQueue`).  All statements quantify
over every queue state / every operation sequence; none has a size bound.
-/
namespace AranyaV.Queue

/-- at most one entry per segment (over both regions) -/
def OnePerSeg (q : Queue) : Prop := (segs q.all).Nodup

/-- what the queue records for a segment: `(max_cut, covered)` -/
def Queue.lookup (q : Queue) (s : Nat) : Option (Nat × Bool) :=
  match q.unc.find? (sameSeg s) with
  | some e => some (e.mc, false)
  | none => (q.cov.find? (sameSeg s)).map (fun e => (e.mc, true))

/-- the documented merge rule of `push_covered` -/
def pushRule (old : Option (Nat × Bool)) (mc : Nat) (c : Bool) : Option (Nat × Bool) :=
  match old with
  | none => some (mc, c)
  | some (m, w) => if mc > m then some (mc, c) else if mc = m then some (m, w || c) else some (m, w)

/-! ## pop / peek return a maximum -/

/-- `pop_covered` returns an entry that is in the queue and is a maximum under `(max_cut, segment)`;
the flag says which region it was taken from, and exactly one copy is removed from that region. -/
theorem pop_max (q : Queue) :
    match q.popCovered with
    | (none, q') => q.all = [] ∧ q' = q
    | (some (m, c), q') =>
        m ∈ q.all ∧ (∀ x ∈ q.all, x.ble m = true) ∧
        (c = true → m ∈ q.cov ∧ q'.cov = q.cov.erase m ∧ q'.unc = q.unc) ∧
        (c = false → m ∈ q.unc ∧ m ∉ q.cov ∧ q'.unc = q.unc.erase m ∧ q'.cov = q.cov) := by
  unfold Queue.popCovered
  cases h : maxLoc q.all with
  | none => simp [maxLoc_none.mp h]
  | some m =>
    have hm := maxLoc_mem h
    have hg := maxLoc_ge h
    by_cases hc : q.cov.contains m = true
    · simp only [hc, if_true]
      refine ⟨hm, hg, ?_, ?_⟩
      · intro _; exact ⟨by simpa using hc, trivial, trivial⟩
      · intro h'; cases h'
    · simp only [hc]
      have hc' : m ∉ q.cov := by simpa using hc
      refine ⟨hm, hg, ?_, ?_⟩
      · intro h'; cases h'
      · intro _
        refine ⟨?_, hc', by simp, by simp⟩
        simp only [Queue.all, List.mem_append] at hm
        exact hm.resolve_right hc'

theorem pop_eq_popCovered (q : Queue) : q.pop = (q.popCovered.1.map (·.1), q.popCovered.2) := rfl

/-- `peek` returns a maximum without changing anything -/
theorem peek_max (q : Queue) :
    match q.peek with
    | none => q.all = []
    | some m => m ∈ q.all ∧ ∀ x ∈ q.all, x.ble m = true := by
  unfold Queue.peek
  cases h : maxLoc q.all with
  | none => exact maxLoc_none.mp h
  | some m => exact ⟨maxLoc_mem h, maxLoc_ge h⟩

/-- a maximum is unique as a *value*: what `pop` returns is determined by the multiset -/
theorem max_unique {l : List Loc} {a b : Loc} (ha : a ∈ l) (hb : b ∈ l)
    (hA : ∀ x ∈ l, x.ble a = true) (hB : ∀ x ∈ l, x.ble b = true) : a = b :=
  Loc.ble_antisymm (hB a ha) (hA b hb)

/-! ## push rules -/

theorem lookup_none_iff {q : Queue} {s : Nat} : q.lookup s = none ↔ s ∉ segs q.all := by
  unfold Queue.lookup Queue.all
  rw [segs_append, List.mem_append]
  cases h : q.unc.find? (sameSeg s) with
  | some e =>
    have := find_some_seg h
    simp only [reduceCtorEq, false_iff]
    exact fun hn => hn (Or.inl (List.mem_map.mpr ⟨e, this.2, this.1⟩))
  | none =>
    have h1 := find_none_iff.mp h
    cases h2 : q.cov.find? (sameSeg s) with
    | some e =>
      have := find_some_seg h2
      simp only [Option.map_some, reduceCtorEq, false_iff]
      exact fun hn => hn (Or.inr (List.mem_map.mpr ⟨e, this.2, this.1⟩))
    | none =>
      have h3 := find_none_iff.mp h2
      simp [h1, h3]

private theorem nodup_split {q : Queue} (h : OnePerSeg q) :
    (segs q.unc).Nodup ∧ (segs q.cov).Nodup ∧ ∀ s, s ∈ segs q.unc → s ∉ segs q.cov := by
  unfold OnePerSeg Queue.all at h
  rw [segs_append, List.nodup_append] at h
  exact ⟨h.1, h.2.1, fun s h1 h2 => h.2.2 s h1 s h2 rfl⟩

private theorem onePerSeg_mk {u c : List Loc} (h1 : (segs u).Nodup) (h2 : (segs c).Nodup)
    (h3 : ∀ s, s ∈ segs u → s ∉ segs c) : OnePerSeg ⟨u, c⟩ := by
  unfold OnePerSeg Queue.all
  rw [segs_append, List.nodup_append]
  exact ⟨h1, h2, fun a ha b hb hab => h3 a ha (hab ▸ hb)⟩

/-- `push_covered` keeps at most one entry per segment and implements the documented rule:
higher max cut adopts the new flag, equal max cut ORs the flags, lower is ignored;
other segments are untouched. -/
theorem push_rules (q : Queue) (loc : Loc) (c : Bool) (hq : OnePerSeg q) :
    OnePerSeg (q.pushCovered loc c) ∧
    (q.pushCovered loc c).lookup loc.seg = pushRule (q.lookup loc.seg) loc.mc c ∧
    ∀ t, t ≠ loc.seg → (q.pushCovered loc c).lookup t = q.lookup t := by
  obtain ⟨hu, hc, hd⟩ := nodup_split hq
  have hfseg : ∀ x : Loc, (⟨loc.mc, x.seg⟩ : Loc).seg = x.seg := fun _ => rfl
  unfold Queue.pushCovered
  cases h : q.unc.find? (sameSeg loc.seg) with
  | some e =>
    obtain ⟨hes, hem⟩ := find_some_seg h
    have hcn : q.cov.find? (sameSeg loc.seg) = none :=
      find_none_iff.mpr (hd _ (List.mem_map.mpr ⟨e, hem, hes⟩))
    have hlk : q.lookup loc.seg = some (e.mc, false) := by simp [Queue.lookup, h]
    simp only [hlk, pushRule]
    by_cases hgt : loc.mc > e.mc
    · simp only [hgt, if_true]
      cases c with
      | true =>
        simp only [if_true]
        refine ⟨?_, ?_, ?_⟩
        · apply onePerSeg_mk (nodup_segs_eraseFirst hu)
          · rw [segs_append, List.nodup_append]
            refine ⟨hc, by simp [segs], ?_⟩
            intro a ha b hb
            simp [segs] at hb; subst hb
            rintro rfl
            exact hd _ (List.mem_map.mpr ⟨e, hem, rfl⟩) ha
          · intro s hs
            rw [mem_segs_eraseFirst hu] at hs
            rw [segs_append, List.mem_append]
            rintro (h' | h')
            · exact hd s hs.1 h'
            · simp [segs] at h'; exact hs.2 (h'.trans hes)
        · simp only [Queue.lookup, find_eraseFirst_same hu, List.find?_append, hcn]
          simp [sameSeg, hes]
        · intro t ht
          simp only [Queue.lookup, find_eraseFirst_other ht, List.find?_append]
          have : sameSeg t (⟨loc.mc, e.seg⟩ : Loc) = false := by
            simp [sameSeg, hes]; exact fun h' => ht h'.symm
          cases q.unc.find? (sameSeg t) <;> cases q.cov.find? (sameSeg t) <;> simp [this]
      | false =>
        simp only [Bool.false_eq_true, if_false]
        refine ⟨?_, ?_, ?_⟩
        · apply onePerSeg_mk
          · rw [segs_updFirst hfseg]; exact hu
          · exact hc
          · rw [segs_updFirst hfseg]; exact hd
        · simp only [Queue.lookup, find_updFirst_same hfseg h]
        · intro t ht
          simp only [Queue.lookup, find_updFirst_other hfseg ht]
    · simp only [hgt, if_false]
      by_cases heq : loc.mc = e.mc
      · simp only [heq, beq_self_eq_true, if_true, Bool.false_or]
        cases c with
        | true =>
          simp only [if_true]
          refine ⟨?_, ?_, ?_⟩
          · apply onePerSeg_mk (nodup_segs_eraseFirst hu)
            · rw [segs_append, List.nodup_append]
              refine ⟨hc, by simp [segs], ?_⟩
              intro a ha b hb
              simp [segs] at hb; subst hb
              rintro rfl
              exact hd _ (List.mem_map.mpr ⟨e, hem, rfl⟩) ha
            · intro s hs
              rw [mem_segs_eraseFirst hu] at hs
              rw [segs_append, List.mem_append]
              rintro (h' | h')
              · exact hd s hs.1 h'
              · simp [segs] at h'; exact hs.2 (h'.trans hes)
          · simp only [Queue.lookup, find_eraseFirst_same hu, List.find?_append, hcn]
            simp [sameSeg, hes]
          · intro t ht
            simp only [Queue.lookup, find_eraseFirst_other ht, List.find?_append]
            have : sameSeg t e = false := by
              simp [sameSeg, hes]; exact fun h' => ht h'.symm
            cases q.unc.find? (sameSeg t) <;> cases q.cov.find? (sameSeg t) <;> simp [this]
        | false =>
          simp only [Bool.false_eq_true, if_false]
          exact ⟨hq, by first | exact hlk | simp [hlk], fun _ _ => by simp⟩
      · have hb : (loc.mc == e.mc) = false := by simpa using heq
        simp only [hb, Bool.false_eq_true, if_false, heq]
        exact ⟨hq, by first | exact hlk | simp [hlk], fun _ _ => by simp⟩
  | none =>
    have hun := find_none_iff.mp h
    cases h2 : q.cov.find? (sameSeg loc.seg) with
    | some e =>
      obtain ⟨hes, hem⟩ := find_some_seg h2
      have hlk : q.lookup loc.seg = some (e.mc, true) := by simp [Queue.lookup, h, h2]
      simp only [hlk, pushRule]
      by_cases hgt : loc.mc > e.mc
      · simp only [hgt, if_true]
        cases c with
        | true =>
          simp only [if_true]
          refine ⟨?_, ?_, ?_⟩
          · apply onePerSeg_mk hu
            · rw [segs_updFirst hfseg]; exact hc
            · rw [segs_updFirst hfseg]; exact hd
          · simp only [Queue.lookup, h, find_updFirst_same hfseg h2]; rfl
          · intro t ht
            simp only [Queue.lookup, find_updFirst_other hfseg ht]
        | false =>
          simp only [Bool.false_eq_true, if_false]
          refine ⟨?_, ?_, ?_⟩
          · apply onePerSeg_mk
            · rw [segs_append, List.nodup_append]
              refine ⟨hu, by simp [segs], ?_⟩
              intro a ha b hb
              simp [segs] at hb; subst hb
              rintro rfl
              exact hun (hes ▸ ha)
            · exact nodup_segs_eraseFirst hc
            · intro s hs
              rw [segs_append, List.mem_append] at hs
              rw [mem_segs_eraseFirst hc]
              rintro ⟨h1, h2'⟩
              rcases hs with hs | hs
              · exact hd s hs h1
              · simp [segs] at hs; exact h2' (hs.trans hes)
          · simp only [Queue.lookup, List.find?_append, h]
            simp [sameSeg, hes]
          · intro t ht
            simp only [Queue.lookup, find_eraseFirst_other ht, List.find?_append]
            have : sameSeg t (⟨loc.mc, e.seg⟩ : Loc) = false := by
              simp [sameSeg, hes]; exact fun h' => ht h'.symm
            cases q.unc.find? (sameSeg t) <;> simp [this]
      · simp only [hgt, if_false]
        refine ⟨hq, ?_, fun _ _ => by simp⟩
        by_cases heq : loc.mc = e.mc
        · simp [heq, hlk]
        · simp [heq, hlk]
    | none =>
      have hcn := find_none_iff.mp h2
      have hlk : q.lookup loc.seg = none := by simp [Queue.lookup, h, h2]
      simp only [hlk, pushRule]
      cases c with
      | true =>
        simp only [if_true]
        refine ⟨?_, ?_, ?_⟩
        · apply onePerSeg_mk hu
          · rw [segs_append, List.nodup_append]
            refine ⟨hc, by simp [segs], ?_⟩
            intro a ha b hb
            simp [segs] at hb; subst hb
            rintro rfl; exact hcn ha
          · intro s hs
            rw [segs_append, List.mem_append]
            rintro (h' | h')
            · exact hd s hs h'
            · simp [segs] at h'; subst h'; exact hun hs
        · simp only [Queue.lookup, h, List.find?_append, h2]
          simp [sameSeg]
        · intro t ht
          simp only [Queue.lookup, List.find?_append]
          have : sameSeg t loc = false := by simp [sameSeg]; exact fun h' => ht h'.symm
          cases q.unc.find? (sameSeg t) <;> cases q.cov.find? (sameSeg t) <;> simp [this]
      | false =>
        simp only [Bool.false_eq_true, if_false]
        refine ⟨?_, ?_, ?_⟩
        · apply onePerSeg_mk
          · rw [segs_append, List.nodup_append]
            refine ⟨hu, by simp [segs], ?_⟩
            intro a ha b hb
            simp [segs] at hb; subst hb
            rintro rfl; exact hun ha
          · exact hc
          · intro s hs
            rw [segs_append, List.mem_append] at hs
            rcases hs with hs | hs
            · exact hd s hs
            · simp [segs] at hs; subst hs; exact hcn
        · simp only [Queue.lookup, List.find?_append, h]
          simp [sameSeg]
        · intro t ht
          simp only [Queue.lookup, List.find?_append]
          have : sameSeg t loc = false := by simp [sameSeg]; exact fun h' => ht h'.symm
          cases q.unc.find? (sameSeg t) <;> simp [this]

/-! ## duplicates -/

/-- `push_duplicate` always adds one more (uncovered) copy -/
theorem push_dup_count (q : Queue) (l x : Loc) :
    (q.pushDuplicate l).all.count x = q.all.count x + (if l = x then 1 else 0) ∧
    (q.pushDuplicate l).cov = q.cov := by
  simp only [Queue.pushDuplicate, Queue.all, List.count_append, List.count_cons, List.count_nil,
    beq_iff_eq]
  refine ⟨by omega, trivial⟩

/-- `pop_duplicates` returns a maximum together with its multiplicity, removes every copy of it
and nothing else -/
theorem pop_dups (q : Queue) :
    match q.popDuplicates with
    | (none, q') => q.all = [] ∧ q' = q
    | (some (m, n), q') =>
        m ∈ q.all ∧ (∀ x ∈ q.all, x.ble m = true) ∧ n = q.all.count m ∧ 0 < n ∧
        q'.unc = q.unc.filter (· != m) ∧ q'.cov = q.cov.filter (· != m) ∧
        q'.all.count m = 0 ∧ ∀ x, x ≠ m → q'.all.count x = q.all.count x := by
  unfold Queue.popDuplicates
  cases h : maxLoc q.all with
  | none => simp [maxLoc_none.mp h]
  | some m =>
    have hm := maxLoc_mem h
    refine ⟨hm, maxLoc_ge h, rfl, List.count_pos_iff.mpr hm, rfl, rfl, ?_, ?_⟩
    · simp [Queue.all, List.count_eq_zero]
    · intro x hx
      simp only [Queue.all, List.count_append, List.count_filter]
      have : (x != m) = true := by simpa using hx
      simp [List.count_filter, this]

/-! ## draining -/

/-- `drain_above` emits exactly the uncovered entries above the threshold, drops the covered ones
above it and keeps everything else, flags included -/
theorem drain_above_spec (q : Queue) (thr : Nat) :
    (q.drainAbove thr).1 = q.unc.filter (fun x => thr < x.mc) ∧
    (q.drainAbove thr).2.unc = q.unc.filter (fun x => x.mc ≤ thr) ∧
    (q.drainAbove thr).2.cov = q.cov.filter (fun x => x.mc ≤ thr) := by
  simp only [Queue.drainAbove, gt_iff_lt, true_and]
  constructor <;> (congr 1; funext x; by_cases h : thr < x.mc <;> simp [h] <;> omega)

theorem drain_above_mem (q : Queue) (thr : Nat) (x : Loc) :
    (x ∈ (q.drainAbove thr).1 ↔ x ∈ q.unc ∧ thr < x.mc) ∧
    (x ∈ (q.drainAbove thr).2.unc ↔ x ∈ q.unc ∧ x.mc ≤ thr) ∧
    (x ∈ (q.drainAbove thr).2.cov ↔ x ∈ q.cov ∧ x.mc ≤ thr) := by
  obtain ⟨h1, h2, h3⟩ := drain_above_spec q thr
  rw [h1, h2, h3]; simp

theorem drain_all_spec (q : Queue) : q.drainAll.1 = q.unc ∧ q.drainAll.2.all = [] := by
  simp [Queue.drainAll, Queue.all]

/-! ## cover_up_to -/

/-- the documented rule of `cover_up_to` on what is recorded for the segment -/
def coverRule (old : Option (Nat × Bool)) (cmc lmc : Nat) : Option (Nat × Bool) :=
  match old with
  | none => none
  | some (m, true) => some (m, true)
  | some (m, false) =>
    if cmc ≥ lmc then some (m, true) else if cmc ≥ m then some (cmc + 1, false) else some (m, false)

theorem cover_up_to_spec (q : Queue) (s cmc lmc : Nat) (hq : OnePerSeg q) :
    OnePerSeg (q.coverUpTo s cmc lmc) ∧
    (q.coverUpTo s cmc lmc).lookup s = coverRule (q.lookup s) cmc lmc ∧
    ∀ t, t ≠ s → (q.coverUpTo s cmc lmc).lookup t = q.lookup t := by
  obtain ⟨hu, hc, hd⟩ := nodup_split hq
  unfold Queue.coverUpTo
  cases h : q.unc.find? (sameSeg s) with
  | none =>
    refine ⟨hq, ?_, fun _ _ => rfl⟩
    simp only [Queue.lookup, h]
    cases q.cov.find? (sameSeg s) <;> simp [coverRule]
  | some e =>
    obtain ⟨hes, hem⟩ := find_some_seg h
    have hcn : q.cov.find? (sameSeg s) = none :=
      find_none_iff.mpr (hd _ (List.mem_map.mpr ⟨e, hem, hes⟩))
    have hlk : q.lookup s = some (e.mc, false) := by simp [Queue.lookup, h]
    simp only [hlk, coverRule]
    by_cases h1 : cmc ≥ lmc
    · simp only [h1, if_true]
      refine ⟨?_, ?_, ?_⟩
      · apply onePerSeg_mk (nodup_segs_eraseFirst hu)
        · rw [segs_append, List.nodup_append]
          refine ⟨hc, by simp [segs], ?_⟩
          intro a ha b hb
          simp [segs] at hb; subst hb
          rintro rfl
          exact hd _ (List.mem_map.mpr ⟨e, hem, rfl⟩) ha
        · intro t ht
          rw [mem_segs_eraseFirst hu] at ht
          rw [segs_append, List.mem_append]
          rintro (h' | h')
          · exact hd t ht.1 h'
          · simp [segs] at h'; exact ht.2 (h'.trans hes)
      · simp only [Queue.lookup, find_eraseFirst_same hu, List.find?_append, hcn]
        simp [sameSeg, hes]
      · intro t ht
        simp only [Queue.lookup, find_eraseFirst_other ht, List.find?_append]
        have : sameSeg t e = false := by
          simp [sameSeg, hes]; exact fun h' => ht h'.symm
        cases q.unc.find? (sameSeg t) <;> cases q.cov.find? (sameSeg t) <;> simp [this]
    · simp only [h1, if_false]
      by_cases h2 : cmc ≥ e.mc
      · simp only [h2, if_true]
        have hfseg : ∀ x : Loc, (⟨cmc + 1, x.seg⟩ : Loc).seg = x.seg := fun _ => rfl
        refine ⟨?_, ?_, ?_⟩
        · apply onePerSeg_mk
          · rw [segs_updFirst hfseg]; exact hu
          · exact hc
          · rw [segs_updFirst hfseg]; exact hd
        · simp only [Queue.lookup, find_updFirst_same hfseg h]
        · intro t ht
          simp only [Queue.lookup, find_updFirst_other hfseg ht]
      · simp only [h2, if_false]
        exact ⟨hq, hlk, fun _ _ => by simp⟩

/-! ## every reachable state (induction over operation sequences) -/

private theorem onePerSeg_sub {q q' : Queue} (hq : OnePerSeg q)
    (hu : q'.unc.Sublist q.unc) (hc : q'.cov.Sublist q.cov) : OnePerSeg q' := by
  unfold OnePerSeg Queue.all segs at *
  exact List.Nodup.sublist ((hu.append hc).map _) hq

theorem apply_onePerSeg (q : Queue) (op : Op) (hq : OnePerSeg q) (hop : op.isDup = false) :
    OnePerSeg (q.apply op) := by
  cases op with
  | push l => exact (push_rules q l false hq).1
  | pushCovered l c => exact (push_rules q l c hq).1
  | pushDuplicate l => simp [Op.isDup] at hop
  | pop =>
    have := pop_max q
    simp only [Queue.apply, Queue.pop]
    revert this
    cases h : q.popCovered with
    | mk r q' =>
      cases r with
      | none => simp only; intro h'; rw [h'.2]; exact hq
      | some mc =>
        obtain ⟨m, c⟩ := mc
        simp only
        intro ⟨_, _, h1, h2⟩
        cases c with
        | true =>
          obtain ⟨_, e1, e2⟩ := h1 rfl
          exact onePerSeg_sub hq (e2 ▸ List.Sublist.refl _) (e1 ▸ List.erase_sublist)
        | false =>
          obtain ⟨_, _, e1, e2⟩ := h2 rfl
          exact onePerSeg_sub hq (e1 ▸ List.erase_sublist) (e2 ▸ List.Sublist.refl _)
  | popCovered =>
    have := pop_max q
    simp only [Queue.apply]
    revert this
    cases h : q.popCovered with
    | mk r q' =>
      cases r with
      | none => simp only; intro h'; rw [h'.2]; exact hq
      | some mc =>
        obtain ⟨m, c⟩ := mc
        simp only
        intro ⟨_, _, h1, h2⟩
        cases c with
        | true =>
          obtain ⟨_, e1, e2⟩ := h1 rfl
          exact onePerSeg_sub hq (e2 ▸ List.Sublist.refl _) (e1 ▸ List.erase_sublist)
        | false =>
          obtain ⟨_, _, e1, e2⟩ := h2 rfl
          exact onePerSeg_sub hq (e1 ▸ List.erase_sublist) (e2 ▸ List.Sublist.refl _)
  | popDuplicates =>
    simp only [Queue.apply, Queue.popDuplicates]
    cases maxLoc q.all with
    | none => exact hq
    | some m => exact onePerSeg_sub hq List.filter_sublist List.filter_sublist
  | drainAbove t =>
    exact onePerSeg_sub hq List.filter_sublist List.filter_sublist
  | drainAll => simp [Queue.apply, Queue.drainAll, OnePerSeg, Queue.all, segs]
  | coverUpTo s c l => exact (cover_up_to_spec q s c l hq).1
  | clear => simp [Queue.apply, Queue.clear, OnePerSeg, Queue.all, segs]

/-- In every state reachable from the empty queue by any sequence of operations that does not use
`push_duplicate`, the queue holds at most one entry per segment. -/
theorem reachable_onePerSeg (ops : List Op) (h : ∀ op ∈ ops, op.isDup = false) :
    OnePerSeg (ops.foldl Queue.apply Queue.new) := by
  suffices ∀ q, OnePerSeg q → OnePerSeg (ops.foldl Queue.apply q) from
    this _ (by simp [OnePerSeg, Queue.new, Queue.all, segs])
  induction ops with
  | nil => intro q hq; exact hq
  | cons op ops ih =>
    intro q hq
    exact ih (fun o ho => h o (List.mem_cons_of_mem _ ho)) _
      (apply_onePerSeg q op hq (h op (List.mem_cons_self ..)))

/-- highest max cut seen: the recorded max cut of a segment never decreases under pushes -/
theorem push_mc_monotone (q : Queue) (loc : Loc) (c : Bool) (hq : OnePerSeg q) (m : Nat) (w : Bool)
    (h : q.lookup loc.seg = some (m, w)) :
    ∃ m' w', (q.pushCovered loc c).lookup loc.seg = some (m', w') ∧ m ≤ m' ∧ loc.mc ≤ m' := by
  rw [(push_rules q loc c hq).2.1, h]
  simp only [pushRule]
  by_cases h1 : loc.mc > m
  · exact ⟨loc.mc, c, by simp [h1], by omega, by omega⟩
  · by_cases h2 : loc.mc = m
    · exact ⟨m, w || c, by simp [h2], by omega, by omega⟩
    · exact ⟨m, w, by simp [h1, h2], by omega, by omega⟩

/-! ## non-vacuity: the hypotheses are met by concrete non-trivial states -/

example : OnePerSeg ⟨[⟨5, 1⟩, ⟨3, 2⟩], [⟨7, 4⟩]⟩ := by unfold OnePerSeg; decide
example : (Queue.popCovered ⟨[⟨5, 1⟩, ⟨3, 2⟩], [⟨7, 4⟩]⟩).1 = some (⟨7, 4⟩, true) := by decide
example : (Queue.pushCovered ⟨[⟨5, 1⟩, ⟨3, 2⟩], [⟨7, 4⟩]⟩ ⟨9, 4⟩ false).lookup 4 = some (9, false) := by
  decide
example : ([Op.push ⟨1, 1⟩, .pushCovered ⟨2, 1⟩ true, .push ⟨2, 2⟩, .pop].foldl Queue.apply Queue.new)
    = ⟨[], [⟨2, 1⟩]⟩ := by decide

end AranyaV.Queue
