import AranyaV.Gen.ConcOrd
/-!
# C40–C42 — memory orderings of the shared-memory channel table

`Props/C40.lean`, `C41.lean`, `C42.lean` reason about a sequentially consistent transition
system of the writer / readers of `shm/{shared,write,read}.rs`.  This file states the side
condition that ties that reasoning to the `Ordering::…` annotations in the source: every atomic
access has at least the ordering its role in the protocol requires.  The step from
"orderings ≥ role requirement" to "sequentially consistent reasoning is sound for this
protocol" is the usual release/acquire (DRF-SC) argument; it is **not mechanised** and is part
of the trusted base.  (The list mutex is C43, with its own table.)
-/
namespace AranyaV.ShmOrd

open AranyaV.Conc

/-- Roles, in the source order of `AranyaV.Gen.ConcOrd.shmShape`:

* `read_off.load` / `write_off.load` (`shared.rs`): **Acquire** — observing reads of the offset of
  a channel list that another party published; the list at that offset is accessed next.
* `read_off.swap` (`swap_offsets`): **AcqRel** — a read-modify-write that does both: it
  *publishes* the freshly updated list to the readers (release) and *takes over* the list the
  readers used so far, which the writer then modifies (acquire).
* `write_off.store` (`write.rs`, end of `add` / `remove` / `remove_all` / `remove_if`):
  **Release** — publishing write of the writer's new spare list.
* `generation.fetch_add` (writer, list locked: `clear`, `remove_if`, `add` ×2, `remove` ×2):
  **Release** — the version bump that publishes "this list changed" to readers that peek at the
  generation *without* the lock; the changes to the channel records precede it.
* reader `generation.load` **without** the lock (first load of `seal` / `open`, "peek"):
  **Acquire** — the observing read that decides whether the cached key (derived from the channel
  record) may still be used.
* reader `generation.load` **under** the list lock (`setup_seal_ctx`, `setup_open_ctx`, second
  load of `seal` / `open`): **Relaxed** — the mutex provides the synchronisation.
* `next_chan_id.fetch_add`: **Relaxed** — id allocation needs atomicity only. -/
def shmOrdRoles : List OrdPair :=
  [ (.acquire, .relaxed),   -- shared.read_off      read_off.load
    (.acquire, .relaxed),   -- shared.write_off     write_off.load
    (.acqRel, .relaxed),    -- shared.swap_offsets  read_off.swap
    (.release, .relaxed),   -- shared.clear         generation.fetch_add
    (.release, .relaxed),   -- shared.remove_if     generation.fetch_add
    (.relaxed, .relaxed),   -- write.add            next_chan_id.fetch_add
    (.release, .relaxed),   -- write.add            generation.fetch_add (write side)
    (.release, .relaxed),   -- write.add            generation.fetch_add (former read side)
    (.release, .relaxed),   -- write.add            write_off.store
    (.release, .relaxed),   -- write.remove         generation.fetch_add
    (.release, .relaxed),   -- write.remove         generation.fetch_add
    (.release, .relaxed),   -- write.remove         write_off.store
    (.release, .relaxed),   -- write.remove_all     write_off.store
    (.release, .relaxed),   -- write.remove_if      write_off.store
    (.relaxed, .relaxed),   -- read.setup_seal_ctx  generation.load (locked)
    (.relaxed, .relaxed),   -- read.setup_open_ctx  generation.load (locked)
    (.acquire, .relaxed),   -- read.seal            generation.load (peek, unlocked)
    (.relaxed, .relaxed),   -- read.seal            generation.load (locked)
    (.acquire, .relaxed),   -- read.open            generation.load (peek, unlocked)
    (.relaxed, .relaxed) ]  -- read.open            generation.load (locked)

/-- **The orderings written in `shm/{shared,write,read}.rs` are at least what their roles
require**, and the set of atomic accesses of the modelled functions is exactly the one that was
classified (a new atomic access must be classified before the build passes).  A stronger
ordering in the source passes; a weaker one makes this theorem fail. -/
theorem orderings_sufficient :
    AranyaV.Gen.ConcOrd.shmShape =
      ["shared.read_off:read_off:load", "shared.write_off:write_off:load",
       "shared.swap_offsets:read_off:swap", "shared.clear:generation:fetch_add",
       "shared.remove_if:generation:fetch_add", "write.add:next_chan_id:fetch_add",
       "write.add:generation:fetch_add", "write.add:generation:fetch_add",
       "write.add:write_off:store", "write.remove:generation:fetch_add",
       "write.remove:generation:fetch_add", "write.remove:write_off:store",
       "write.remove_all:write_off:store", "write.remove_if:write_off:store",
       "read.setup_seal_ctx:generation:load", "read.setup_open_ctx:generation:load",
       "read.seal:generation:load", "read.seal:generation:load",
       "read.open#1:generation:load", "read.open#1:generation:load"] ∧
    sufficient shmOrdRoles AranyaV.Gen.ConcOrd.shmOrds = true :=
  ⟨rfl, by decide⟩

/-- the lattice: a stronger ordering is accepted, a weaker or incomparable one is not -/
example : MemOrd.le .release .seqCst = true ∧ MemOrd.le .release .acqRel = true ∧
    MemOrd.le .release .relaxed = false ∧ MemOrd.le .release .acquire = false ∧
    MemOrd.le .acqRel .release = false := by decide

end AranyaV.ShmOrd
