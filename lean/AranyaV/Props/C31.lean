import AranyaV.Model.Cli
/-!
# C31 — The policy compiler CLI honours validation

Decision logic, stated outright over every combination of library verdicts, environment
results and flags.  The theorems about `cli` (the current tree) are obtained from the generic
`…_of` lemmas by `rfl` on the constant generated from the Rust source (`guardNegated`) against the library contract
`validateTrueMeansFailed`; if `main` negates `validate`'s result again (defect F5) those `rfl`s — and
therefore this module — no longer check.  A change of what `validate` returns (polarity, or only
the last label counting) is caught by the harness's `vparts` oracle on the real library.
-/
namespace AranyaV.Cli
open Gen.CliMain

/-! ## generic in the two polarities -/

theorem cli_spec_of {neg tmf : Bool} (h : neg = !tmf) (a : Input) :
    (cliWith neg a).exit = .success ∧ (cliWith neg a).wrote = true →
      a.parseOk = true ∧ a.compileOk = true ∧ (a.noValidate = true ∨ failedWith tmf a = false) := by
  subst h
  rcases a with ⟨r, p, c, v, nv, s, cr⟩
  cases r <;> cases p <;> cases c <;> cases v <;> cases nv <;> cases s <;> cases cr <;> cases tmf <;>
    simp [cliWith, failedWith]

theorem cli_rejects_of {neg tmf : Bool} (h : neg = !tmf) (a : Input)
    (hf : failedWith tmf a = true) (hn : a.noValidate = false) :
    (cliWith neg a).exit ≠ .success ∧ (cliWith neg a).wrote = false := by
  subst h
  rcases a with ⟨r, p, c, v, nv, s, cr⟩
  cases r <;> cases p <;> cases c <;> cases v <;> cases nv <;> cases s <;> cases cr <;> cases tmf <;>
    simp_all [cliWith, failedWith]

theorem cli_rejects_failure_of {neg tmf : Bool} (h : neg = !tmf) (a : Input)
    (hr : a.readOk = true) (hf : failedWith tmf a = true) (hn : a.noValidate = false) :
    (cliWith neg a) = ⟨.failure, false⟩ := by
  subst h
  rcases a with ⟨r, p, c, v, nv, s, cr⟩
  cases r <;> cases p <;> cases c <;> cases v <;> cases nv <;> cases s <;> cases cr <;> cases tmf <;>
    simp_all [cliWith, failedWith]

theorem cli_accepts_of {neg tmf : Bool} (h : neg = !tmf) (a : Input)
    (hr : a.readOk = true) (hp : a.parseOk = true) (hc : a.compileOk = true)
    (hv : a.noValidate = true ∨ failedWith tmf a = false) :
    cliWith neg a =
      if a.stubFfi then ⟨.success, false⟩ else if a.createOk then ⟨.success, true⟩ else ⟨.crash, false⟩ := by
  subst h
  rcases a with ⟨r, p, c, v, nv, s, cr⟩
  cases r <;> cases p <;> cases c <;> cases v <;> cases nv <;> cases s <;> cases cr <;> cases tmf <;>
    simp_all [cliWith, failedWith]

/-! ## the current tree -/

/-- the validation guard of the CLI has a shape the translator recognises (so `guardNegated` means
what it says) -/
theorem guard_recognised : guardRecognised = true := rfl

/-- a module fails validation exactly when some label — wherever it sits — has a trace failure -/
theorem validate_any_label (pre post : List Bool) :
    validateOf (pre ++ true :: post) = true ∧ validateOf (List.replicate pre.length false) = false := by
  simp [validateOf, validateOfWith, validateTrueMeansFailed]

/-- the guard polarity in `main` matches the polarity of `validate`'s result -/
theorem polarity_consistent : guardNegated = !validateTrueMeansFailed := rfl

/-- **C31, first half**: the tool exits successfully having written a module only if the policy
parsed, compiled and — unless validation is disabled — passed validation. -/
theorem cli_spec (a : Input) :
    (cli a).exit = .success ∧ (cli a).wrote = true →
      a.parseOk = true ∧ a.compileOk = true ∧ (a.noValidate = true ∨ validateFailed a = false) :=
  cli_spec_of polarity_consistent a

/-- **C31, second half**: a policy that fails validation (validation not disabled) never yields a
successful exit and nothing is written … -/
theorem cli_rejects_invalid (a : Input) (hf : validateFailed a = true) (hn : a.noValidate = false) :
    (cli a).exit ≠ .success ∧ (cli a).wrote = false :=
  cli_rejects_of polarity_consistent a hf hn

/-- … and when the input file was readable the exit status is exactly `FAILURE`. -/
theorem cli_rejects_invalid_failure (a : Input) (hr : a.readOk = true)
    (hf : validateFailed a = true) (hn : a.noValidate = false) :
    cli a = ⟨.failure, false⟩ :=
  cli_rejects_failure_of polarity_consistent a hr hf hn

/-- Converse (the CLI is not vacuously safe): a readable policy that parses, compiles and passes
(or skips) validation is accepted, and the module is written unless `--stub-ffi` was given. -/
theorem cli_accepts_valid (a : Input)
    (hr : a.readOk = true) (hp : a.parseOk = true) (hc : a.compileOk = true)
    (hv : a.noValidate = true ∨ validateFailed a = false) :
    cli a =
      if a.stubFfi then ⟨.success, false⟩ else if a.createOk then ⟨.success, true⟩ else ⟨.crash, false⟩ :=
  cli_accepts_of polarity_consistent a hr hp hc hv

/-- a module is only ever written on a successful exit (any polarity) -/
theorem wrote_only_on_success (neg : Bool) (a : Input) :
    (cliWith neg a).wrote = true → (cliWith neg a).exit = .success := by
  rcases a with ⟨r, p, c, v, nv, s, cr⟩
  cases r <;> cases p <;> cases c <;> cases v <;> cases nv <;> cases s <;> cases cr <;> cases neg <;>
    simp [cliWith]

/-- parse and compile errors always give `FAILURE` with nothing written (any polarity) -/
theorem front_end_errors_fail (neg : Bool) (a : Input) (hr : a.readOk = true)
    (h : a.parseOk = false ∨ a.compileOk = false) : cliWith neg a = ⟨.failure, false⟩ := by
  rcases a with ⟨r, p, c, v, nv, s, cr⟩
  cases r <;> cases p <;> cases c <;> cases v <;> cases nv <;> cases s <;> cases cr <;> cases neg <;>
    simp_all [cliWith]

/-! ## F5: what an inverted guard does (the tree before the fix) -/

/-- With the guard polarity inverted relative to `validate` (F5: `!validate(&module)` while
`validate` returns `true` on failure) both halves of the property are false: a policy failing
validation is accepted and written, and a valid one is rejected. -/
theorem inverted_guard_violates (tmf : Bool) :
    (∃ a, (cliWith tmf a).exit = .success ∧ (cliWith tmf a).wrote = true ∧
          a.noValidate = false ∧ failedWith tmf a = true) ∧
    (∃ a, a.readOk = true ∧ a.parseOk = true ∧ a.compileOk = true ∧ failedWith tmf a = false ∧
          (cliWith tmf a).exit = .failure) := by
  cases tmf
  · exact ⟨⟨⟨true, true, true, false, false, false, true⟩, by decide⟩,
           ⟨⟨true, true, true, true, false, false, true⟩, by decide⟩⟩
  · exact ⟨⟨⟨true, true, true, true, false, false, true⟩, by decide⟩,
           ⟨⟨true, true, true, false, false, false, true⟩, by decide⟩⟩

/-! ## non-vacuity -/

/-- a policy failing validation, validation on: hypotheses of `cli_rejects_invalid` hold -/
example : validateFailed ⟨true, true, true, validateTrueMeansFailed, false, false, true⟩ = true ∧
    (⟨true, true, true, validateTrueMeansFailed, false, false, true⟩ : Input).noValidate = false := by
  decide

/-- a valid policy: hypotheses of `cli_accepts_valid` hold and the antecedent of `cli_spec` is reached -/
example : (cli ⟨true, true, true, !validateTrueMeansFailed, false, false, true⟩) = ⟨.success, true⟩ := by
  decide

/-- `--no-validate` lets a policy failing validation through (allowed by the property) -/
example : (cli ⟨true, true, true, validateTrueMeansFailed, true, false, true⟩) = ⟨.success, true⟩ := by
  decide

end AranyaV.Cli
