import AranyaV.Proofs.TrxRoot
/-!
# C07 — Actions are atomic

`action` of `Model/Trx.lean` transliterates `ClientState::action`: collapse the head set
(`collapse_heads` / `fold_merge_pairs`, writing merge segments with a null sink), open a perspective
on the resulting single head, run the policy's publish loop, and only on success write the
perspective, commit the new single head and commit the sink.  The merge commands `ms` and the
published commands `pubs` are inputs (their ids are hashes); the theorems hold for all of them and
for every store satisfying the invariant — single- or multi-head — hence after every history.

Note (recorded, not hidden): on failure the merge *segments* written by the collapse stay in the
storage file as unreachable garbage; the property speaks about the committed heads, the commands
reachable from them and the fact state, none of which change.
-/
namespace AranyaV.Trx
open AranyaV.Spec AranyaV.Gen

/-- **action_ok.**  A successful action: the new head set is the single command `last`, the last
published command; the committed graph is the old one plus the merges the collapse wrote plus
exactly the published commands; every previous head is a proper ancestor of the new head; the
fact cache is the state stored after `last`; the stamp moves on; the sink got one window
`begin … commit`; open transactions are not touched. -/
theorem action_ok {cl : Client} (h : ClientInv cl) {st : Store} (hst : cl.store = some st)
    (ms pubs : List Cmd) (hres : (step cl (.action ms pubs)).2 = .done) :
    ∃ st' merges new last evs, (step cl (.action ms pubs)).1.store = some st' ∧
      st'.heads = [last.cmd.id] ∧ st'.graph = st.graph ++ merges ++ new ∧
      (∀ x ∈ merges, x.cmd.parents.length = 2) ∧ cmds new = pubs ∧ new.getLast? = some last ∧
      st'.facts = last.st ∧ st'.stamp = st.stamp + 1 ∧
      (∀ x ∈ st.heads, anc (cmds st'.graph) x last.cmd.id = true) ∧
      st'.heads = frontier (cmds st'.graph) ∧
      NoCommit evs ∧ (step cl (.action ms pubs)).1.sink = cl.sink ++ [SinkEv.begin] ++ evs ++ [SinkEv.commit] ∧
      (step cl (.action ms pubs)).1.trxs = cl.trxs := by
  have hs := h.store st hst
  simp only [step, hst] at hres ⊢
  rcases action_spec cl.sink ms pubs hs with ⟨e, evs, hc, _⟩ |
    ⟨st', merges, new, last, evs, hc, hnc, hgr, hm, hcn, hl, hh, hf, hstamp, hinv, hreach, _⟩
  · rw [hc] at hres; simp at hres
  · rw [hc]
    refine ⟨st', merges, new, last, evs, rfl, hh, hgr, hm, hcn, hl, hf, hstamp, ?_, ?_, hnc, (by first | rfl | trivial), (by first | rfl | trivial)⟩
    · intro x hx
      rw [anc_iff hinv.wf]
      refine ⟨?_, hreach x hx⟩
      -- the new head is a new command, the old head an old one
      intro e
      have hxold : x ∈ ids (cmds (st.graph ++ merges)) := by
        rw [cmds_append, ids_append]; exact List.mem_append_left _ ((hs.heads x).mp hx).1
      have hnew : last.cmd.id ∈ ids (cmds new) := by
        obtain ⟨ys, rfl⟩ := List.getLast?_eq_some_iff.mp hl
        simp [ids, cmds]
      have hnd := hinv.wf.nodup
      rw [hgr, cmds_append, ids_append] at hnd
      exact (List.nodup_append.mp hnd).2.2 x hxold _ hnew e
    · exact eq_frontier hinv.sorted hinv.heads

/-- **action_err.**  A failing action — the collapse braid is refused, the policy rejects after any
number `k ≥ 0` of published commands, or nothing was published — leaves the committed store
(heads, graph, fact cache, stamp) and every open transaction exactly as they were, and the sink
sees no `commit`: at most `begin, consume…, rollback`. -/
theorem action_err {cl : Client} (h : ClientInv cl) {st : Store} (hst : cl.store = some st)
    (ms pubs : List Cmd) {e : Err} (hres : (step cl (.action ms pubs)).2 = .err e) :
    (step cl (.action ms pubs)).1.store = some st ∧ (step cl (.action ms pubs)).1.trxs = cl.trxs ∧
    ∃ evs, NoCommit evs ∧ (step cl (.action ms pubs)).1.sink = cl.sink ++ evs := by
  have hs := h.store st hst
  simp only [step, hst] at hres ⊢
  rcases action_spec cl.sink ms pubs hs with ⟨e', evs, hc, hnc⟩ | ⟨st', _, _, _, _, hc, _⟩
  · rw [hc]; exact ⟨(by first | rfl | trivial), (by first | rfl | trivial), evs, hnc, (by first | rfl | trivial)⟩
  · rw [hc] at hres; simp at hres

/-- an action either succeeds or fails — there is no third outcome, and without storage it fails -/
theorem action_total (cl : Client) (ms pubs : List Cmd) :
    (step cl (.action ms pubs)).2 = .done ∨ ∃ e, (step cl (.action ms pubs)).2 = .err e := by
  simp only [step]
  cases (action cl.store cl.sink ms pubs).2.2 with
  | ok u => exact Or.inl rfl
  | error e => exact Or.inr ⟨e, rfl⟩

/-- a rejection after `k` accepted publishes is a failure whatever `k` is: the publish loop stops
at the first rejecting command and reports `Rejected` -/
theorem publish_rejects (g : List SCmd) (pre : List Cmd) (c : Cmd) (post : List Cmd) :
    ∀ (head : Nat) (s : Facts) (acc : List SCmd) (evs : List SinkEv),
    (∃ e, (publish g (pre ++ c :: post) head s acc evs).2 = .error e) ∨
    ∃ head' s' acc' evs', publish g (pre ++ c :: post) head s acc evs = publish g (c :: post) head' s' acc' evs' := by
  induction pre with
  | nil => intro head s acc evs; exact Or.inr ⟨head, s, acc, evs, rfl⟩
  | cons x xs ih =>
    intro head s acc evs
    simp only [List.cons_append]
    unfold publish
    split
    · exact Or.inl ⟨_, rfl⟩
    · simp only
      split
      · exact ih _ _ _ _
      · exact Or.inl ⟨_, rfl⟩

/-! ## non-vacuity: a two-head graph; a failing action (two publishes, then write-then-fail) and a
succeeding one -/

private def i0 : In := { cmd := { id := 1, parents := [], prio := .init, body := [.set 0 0] }, pol := true }
private def ca : In := { cmd := { id := 2, parents := [1], prio := .basic 0, body := [.set 1 1] }, pol := false }
private def cb : In := { cmd := { id := 3, parents := [1], prio := .basic 1, body := [.set 2 2] }, pol := false }
private def mg : Cmd := { id := 40, parents := [2, 3], prio := .merge, body := [] }
private def p1 : Cmd := { id := 51, parents := [40], prio := .basic 0, body := [.set 3 3, .emit 1] }
private def p2 : Cmd := { id := 52, parents := [51], prio := .basic 0, body := [.set 4 4, .emit 2] }
private def px : Cmd := { id := 53, parents := [52], prio := .basic 0, body := [.set 5 5, .emit 3, .fail] }
private def base : List AranyaV.Trx.Op := [.openT 0, .add 0 [i0, ca, cb], .commit 0]

example : (run { gid := 1 } base).store.map (fun s => (s.heads, s.stamp)) = some ([2, 3], 1) := by decide +kernel
example : (step (run { gid := 1 } base) (.action [mg] [p1, p2, px])).2 = .err .rejected := by decide +kernel
example : (step (run { gid := 1 } base) (.action [mg] [p1, p2, px])).1.store.map (fun s => (s.heads, s.stamp, s.facts.f)) =
    some ([2, 3], 1, [(0, 0), (1, 1), (2, 2)]) := by decide +kernel
example : (step (run { gid := 1 } base) (.action [mg] [p1, p2])).2 = .done := by decide +kernel
example : (step (run { gid := 1 } base) (.action [mg] [p1, p2])).1.store.map
    (fun s => (s.heads, s.stamp, s.graph.map (·.cmd.id), s.facts.f)) =
    some ([52], 2, [1, 2, 3, 40, 51, 52], [(0, 0), (1, 1), (2, 2), (3, 3), (4, 4)]) := by decide +kernel
example : (step (run { gid := 1 } base) (.action [mg] [])).2 = .err .emptyPerspective := by decide +kernel

end AranyaV.Trx
