import AranyaV.Proofs.BraidIndep
import AranyaV.Proofs.BraidMech
import AranyaV.Proofs.BraidExt
/-!
# C03 — Braided fact state equals the reference braid

The real code is tied to `Spec.Braid` (`refBraid`, `stateAt`, `factsOf`) by the C03 harness (real
`ClientState` vs this spec vs an independent Rust reference braid).  The theorems here say what
that reference model *is*, for every well-formed graph and legal head set:

* `key_order`            — the strand comparison `keyLt` is the lexicographic order on
                           `(Priority class, Basic argument, id)` with classes
                           `Merge < Basic n < Finalize < Init` — proved from the GENERATED
                           `Priority` (reordering the Rust enum breaks this proof); `keyLt` is a
                           strict total order on commands with distinct ids (`key_strict_total`);
* `braid_removes_least`  — each step removes the *least* available command under that order;
* `finalize_first`       — (rooted graphs) a finalize of the braided region is never in the
                           evaluation order: it is an ancestor-or-self of the start, i.e. part of
                           the stored state the order is replayed on — so every evaluated command,
                           in particular everything concurrent with it, comes after it
                           (`finalize_first_concurrent`);
* `braid_layout_indep`   — `refBraid` depends only on the command *set*: any two parents-first
                           listings of the same commands give the same result;
  `braid_deterministic`  — the same for two graphs with the same members;
* `reverse_topological`  — the removal sequence (reverse of the evaluation order) never removes a
                           command before one of its descendants in the region;
* `braid_region_only`    — the braid only looks at the ancestors of the heads: commands appended to the
                           graph later (in any number) do not change the braid of old heads.

Mechanism (`Model.BraidMech.implBraid`: strand heap popped by least key, `max_cut ≤ lca.max_cut`
cut-off, convergence counts counted down by `should_continue`, same-segment shortcut, `lone` tested
after the priors were pushed, merges not recorded), under `MechHyp` (≥ 2 heads; the cut point `C` is a
common ancestor of the heads comparable with every command of the region — the DESIGN's
`lca_dominates`, here a hypothesis; the cut-off only skips ancestors-or-self of `C`; two locations of
one segment are ancestor related):
* `implBraid_eq_ref`       — the mechanism returns `start :: order` of the reference braid and fails
                             exactly when it fails;
* `cutoff_irrelevant`      — the same result with the cut-off removed; `braid_above_cut` — the
                             reference braid never makes anything at or below `C` available, start and
                             order are strictly above `C`;
* `sameSegment_irrelevant` — the same-segment shortcut never changes the result (it never fires).
Not proved: that the recorded-LCA walk of `last_common_ancestor` returns such a `C`
(`lca_dominates`), that the BFS of `convergence_map.rs` computes these counts under every spill
interleaving (`count_exact`), and the storage refinement `state_layout_indep`; these are covered by
the differential tie only.
-/
namespace AranyaV.Spec
open AranyaV.Gen

/-- **`key_order`.**  `keyLt` is lexicographic on `(cls, arg, id)`; the class order is
`Merge < Basic n < Finalize < Init`, `Basic` is ordered by its argument. -/
theorem key_order :
    (∀ a b : Cmd, keyLt a b = true ↔
      a.prio.cls < b.prio.cls ∨ (a.prio.cls = b.prio.cls ∧
        (a.prio.arg < b.prio.arg ∨ (a.prio.arg = b.prio.arg ∧ a.id < b.id)))) ∧
    (∀ n : Nat, Priority.merge.cls < (Priority.basic n).cls ∧
      (Priority.basic n).cls < Priority.finalize.cls ∧ Priority.finalize.cls < Priority.init.cls) ∧
    (∀ n m : Nat, (Priority.basic n).cls = (Priority.basic m).cls ∧ (Priority.basic n).arg = n) ∧
    Priority.merge.arg = 0 ∧ Priority.finalize.arg = 0 ∧ Priority.init.arg = 0 := by
  refine ⟨keyLt_iff, ?_, ?_, rfl, rfl, rfl⟩
  · intro n; simp [Priority.cls]
  · intro n m; simp [Priority.cls, Priority.arg]

/-- consequences in terms of commands: merge strands first, then `Basic` by argument then id,
then finalize, then init -/
theorem key_order_cmds (a b : Cmd) :
    (a.prio = .merge → (∃ n, b.prio = .basic n) → keyLt a b = true) ∧
    (∀ n m, a.prio = .basic n → b.prio = .basic m → (keyLt a b = true ↔ n < m ∨ (n = m ∧ a.id < b.id))) ∧
    (∀ n, a.prio = .basic n → b.prio = .finalize → keyLt a b = true) ∧
    (a.prio = .merge → b.prio = .finalize → keyLt a b = true) ∧
    (a.prio = .finalize → b.prio = .init → keyLt a b = true) ∧
    (a.prio = b.prio → (keyLt a b = true ↔ a.id < b.id)) := by
  refine ⟨?_, ?_, ?_, ?_, ?_, ?_⟩
  · rintro ha ⟨n, hb⟩; simp [keyLt_iff, ha, hb, Priority.cls]
  · intro n m ha hb; simp [keyLt_iff, ha, hb, Priority.cls, Priority.arg]
  · intro n ha hb; simp [keyLt_iff, ha, hb, Priority.cls]
  · intro ha hb; simp [keyLt_iff, ha, hb, Priority.cls]
  · intro ha hb; simp [keyLt_iff, ha, hb, Priority.cls]
  · intro hab; simp [keyLt_iff, hab]

/-- `keyLt` is a strict total order on commands with distinct ids -/
theorem key_strict_total (a b c : Cmd) :
    keyLt a a = false ∧ (keyLt a b = true → keyLt b c = true → keyLt a c = true) ∧
    (a.id ≠ b.id → keyLt a b = true ∨ keyLt b a = true) ∧ (keyLt a b = true → keyLt b a = false) :=
  ⟨keyLt_irrefl a, keyLt_trans, keyLt_total, keyLt_asymm⟩

/-- each step of the braid removes the least available command -/
theorem braid_removes_least {g : Graph} (hw : WF g) (A : List Nat) (hne : A ≠ []) (hA : ∀ x ∈ A, x ∈ ids g) :
    ∃ c, minAvail g A = some c ∧ c ∈ g ∧ c.id ∈ A ∧
      ∀ d ∈ g, d.id ∈ A → d.id ≠ c.id → keyLt c d = true :=
  minAvail_spec hw A hne hA

/-- **`finalize_first`.** In a rooted graph a finalize `f` of the braided region is an
ancestor-or-self of the start (its effect is in the stored state the order is replayed on) and is
not in the evaluation order. -/
theorem finalize_first {g : Graph} (hw : WF g) (hroot : Rooted g) {hs : List Nat} (hh : Heads g hs)
    {s : Nat} {o : List Nat} (h : refBraid g hs = .ok (s, o)) {f : Nat}
    (hfR : f ∈ ancSelfAll g hs) (hf : isFinalize g f = true) :
    f ∈ ancSelfAll g [s] ∧ f ∉ o := by
  have hsp := refBraid_spec hw hh
  rw [h] at hsp
  obtain ⟨st, hi, hA, hout⟩ := hsp
  have hR := region_ancSelfAll hw hh.sub
  have hfP : f ∉ st.processed := by
    intro hp
    have := hi.noFinP hroot f hp
    rw [hf] at this; cases this
  refine ⟨?_, ?_⟩
  · rw [mem_ancSelfAll hw]
    exact ⟨s, by simp, final_unprocessed hw hR hi hA f hfR hfP⟩
  · rw [← hout, hi.outEq]
    intro hm
    exact hfP (List.mem_filter.mp hm).1

/-- every command of the region that is concurrent with a finalize `f` is either evaluated (and
then after `f`, which is below the start) or itself below the start -/
theorem finalize_first_concurrent {g : Graph} (hw : WF g) (hroot : Rooted g) {hs : List Nat}
    (hh : Heads g hs) {s : Nat} {o : List Nat} (h : refBraid g hs = .ok (s, o)) {f x : Nat}
    (hfR : f ∈ ancSelfAll g hs) (hf : isFinalize g f = true) (hx : x ∈ o) :
    f ∈ ancSelfAll g [s] ∧ x ∉ ancSelfAll g [s] ∧ anc g x f = false := by
  obtain ⟨h1, _⟩ := finalize_first hw hroot hh h hfR hf
  have hsp := refBraid_spec hw hh
  rw [h] at hsp
  obtain ⟨st, hi, hA, hout⟩ := hsp
  have hR := region_ancSelfAll hw hh.sub
  have hxP : x ∈ st.processed := by
    rw [← hout, hi.outEq] at hx; exact (List.mem_filter.mp hx).1
  have hxs : ¬ Reach g x s := ((final_processed_iff hw hR hi hA x).mp hxP).2
  have hfs : Reach g f s := by
    rw [mem_ancSelfAll hw] at h1
    obtain ⟨b, hb, hr⟩ := h1
    simp at hb; subst hb; exact hr
  refine ⟨h1, ?_, ?_⟩
  · rw [mem_ancSelfAll hw]
    rintro ⟨b, hb, hr⟩
    simp at hb; subst hb; exact hxs hr
  · cases hax : anc g x f with
    | false => rfl
    | true =>
      exfalso
      exact hxs (((anc_iff hw x f).mp hax).2.trans hfs)

/-- **`braid_layout_indep`.** Two parents-first listings of the same commands give the same braid. -/
theorem braid_layout_indep {g g' : Graph} (hw : WF g) (hw' : WF g') (hp : g.Perm g') (hs : List Nat) :
    refBraid g hs = refBraid g' hs :=
  refBraid_perm_graph hw hw' hp hs

theorem WF.cmds_nodup {g : Graph} (hw : WF g) : g.Nodup := by
  have := hw.nodup
  unfold ids at this
  unfold List.Nodup at this ⊢
  rw [List.pairwise_map] at this
  exact this.imp (fun h e => h (by rw [e]))

/-- **`braid_deterministic`.** The braid is a function of the command *set*. -/
theorem braid_deterministic {g g' : Graph} (hw : WF g) (hw' : WF g') (hset : ∀ c, c ∈ g ↔ c ∈ g')
    (hs : List Nat) : refBraid g hs = refBraid g' hs :=
  braid_layout_indep hw hw' ((List.perm_ext_iff_of_nodup hw.cmds_nodup hw'.cmds_nodup).mpr hset) hs

/-- the removal sequence is reverse topological: a command is removed only after all its
descendants in the region (stated on the evaluation order: no evaluated command is an ancestor of
an earlier evaluated one) -/
theorem reverse_topological {g : Graph} (hw : WF g) {hs : List Nat} (hh : Heads g hs)
    {s : Nat} {o : List Nat} (h : refBraid g hs = .ok (s, o)) :
    o.Pairwise (fun x y => anc g y x = false) := by
  have hsp := refBraid_spec hw hh
  rw [h] at hsp
  obtain ⟨st, hi, _, hout⟩ := hsp
  rw [← hout, hi.outEq]
  refine (hi.order.filter _).imp ?_
  intro x y hxy
  cases ha : anc g y x with
  | false => rfl
  | true => exact absurd ((anc_iff hw y x).mp ha).2 hxy

/-- **`braid_region_only`.** Appending commands to the graph does not change the braid of heads of
the old graph (the result is a function of `anc*(heads)` alone). -/
theorem braid_region_only {g ext : Graph} (hw : WF g) (hw' : WF (g ++ ext)) {hs : List Nat} (hh : Heads g hs) :
    refBraid (g ++ ext) hs = refBraid g hs :=
  refBraid_ext hw hw' hh

/-! ## non-vacuity -/

def exC (i : Nat) (ps : List Nat) (p : Priority) : Cmd := { id := i, parents := ps, prio := p, body := [] }

/-- init 1; finalize 2 on 1; branches 3 (basic 5) and 4 (basic 1) on 2; 5 (basic 0) on 3 -/
def exF : Graph :=
  [exC 1 [] .init, exC 2 [1] .finalize, exC 3 [2] (.basic 5), exC 4 [2] (.basic 1), exC 5 [3] (.basic 0)]

/-- the same commands, listed in another parents-first order -/
def exF' : Graph :=
  [exC 1 [] .init, exC 2 [1] .finalize, exC 4 [2] (.basic 1), exC 3 [2] (.basic 5), exC 5 [3] (.basic 0)]

theorem exF_wf : WF exF := wfB_sound (by decide)
theorem exF'_wf : WF exF' := wfB_sound (by decide)
theorem exF_rooted : Rooted exF := ⟨by decide, by decide⟩
theorem exF_heads : Heads exF [5, 4] := ⟨by decide, by decide, by decide, by unfold Antichain; decide⟩
theorem exF_braid : refBraid exF [5, 4] = .ok (3, [4, 5]) := by rfl

example : ∃ s o, WF exF ∧ Rooted exF ∧ Heads exF [5, 4] ∧ refBraid exF [5, 4] = .ok (s, o) ∧
    isFinalize exF 2 = true ∧ 2 ∈ ancSelfAll exF [5, 4] ∧ 2 ∈ ancSelfAll exF [s] ∧ 2 ∉ o ∧ o ≠ [] :=
  ⟨3, [4, 5], exF_wf, exF_rooted, exF_heads, exF_braid, by decide, by decide, by decide, by decide, by decide⟩

theorem exF_perm : exF.Perm exF' := List.Perm.cons _ (List.Perm.cons _ (List.Perm.swap _ _ _))

example : exF.Perm exF' ∧ exF.map (·.id) ≠ exF'.map (·.id) ∧ refBraid exF [5, 4] = refBraid exF' [5, 4] :=
  ⟨exF_perm, by decide, braid_layout_indep exF_wf exF'_wf exF_perm _⟩

/-- `exF` extended by two later commands (6 on 5, 7 on 4): the braid of the old heads is unchanged -/
example : WF (exF ++ [exC 6 [5] (.basic 0), exC 7 [4] .finalize]) ∧
    refBraid (exF ++ [exC 6 [5] (.basic 0), exC 7 [4] .finalize]) [5, 4] = refBraid exF [5, 4] :=
  ⟨wfB_sound (by decide), braid_region_only exF_wf (wfB_sound (by decide)) exF_heads⟩

/-- id-only tie-break: same priority, smaller id is removed first (evaluated last) -/
example : keyLt (exC 4 [2] (.basic 0)) (exC 5 [3] (.basic 0)) = true ∧
    keyLt (exC 9 [] .merge) (exC 1 [] (.basic 0)) = true ∧
    keyLt (exC 9 [] (.basic 7)) (exC 1 [] .finalize) = true ∧
    keyLt (exC 9 [] .finalize) (exC 1 [] .init) = true := by decide

end AranyaV.Spec

namespace AranyaV.Braid
open AranyaV.Spec AranyaV.Gen

/-- hypotheses on the cut point `C`, the cut-off predicate and the same-segment relation -/
structure MechHyp (g : Graph) (hs : List Nat) (C : Nat) (below : Nat → Bool) (sameSeg : Nat → Nat → Bool) : Prop where
  /-- a braid is only run for at least two heads -/
  two : 2 ≤ hs.length
  /-- `C` is a common ancestor of the heads … -/
  common : ∀ h ∈ hs, Reach g C h
  /-- … that is comparable with every command of the region (DESIGN `lca_dominates`) -/
  dom : ∀ x ∈ ancSelfAll g hs, Reach g x C ∨ Reach g C x
  /-- the cut-off only skips ancestors-or-self of `C` (`max_cut ≤ lca.max_cut` inside the region) -/
  belowAnc : ∀ x ∈ ancSelfAll g hs, below x = true → Reach g x C
  /-- two locations of one segment are ancestor-related -/
  sameSegAnc : ∀ p o, sameSeg p o = true → Reach g p o


/-- **`implBraid_eq_ref`.** The mechanism (strand heap, cut-off, convergence counts, same-segment
shortcut, `lone`) returns the start of the reference braid followed by its evaluation order, and
fails exactly when the reference braid fails. -/
theorem implBraid_eq_ref {g : Graph} (hw : WF g) {hs : List Nat} (hh : Heads g hs) {C : Nat}
    {below : Nat → Bool} {sameSeg : Nat → Nat → Bool} (hm : MechHyp g hs C below sameSeg) :
    implBraid g hs below sameSeg = liftRes (refBraid g hs) := by
  unfold implBraid refBraid
  rw [pushHeads_eq_addAvail]
  cases ha : addAvail g [] hs with
  | error e => rfl
  | ok a =>
    simp only
    have hR := region_ancSelfAll hw hh.sub
    have hi := init_inv hw hh a ha
    obtain ⟨ea, _⟩ := addAvail_ok _ _ _ ha
    simp only [List.nil_append] at ea
    subst ea
    have hj : J g C { processed := [], avail := a, out := [] } := by
      refine ⟨?_, by simp⟩
      intro x hx
      refine ⟨hm.common x hx, ?_⟩
      intro e
      subst e
      -- two heads: another head is a proper descendant of x, against the antichain
      have : ∃ y ∈ a, y ≠ x := exists_ne_of_not_single hh.nodup hh.ne
        (by intro x' e; have := hm.two; rw [e] at this; simp at this) x
      obtain ⟨y, hy, hyx⟩ := this
      exact hh.anti.not_reach hw hx hy (Ne.symm hyx) (hm.common y hy)
    have hns : ∀ x, a ≠ [x] := by
      intro x e
      have := hm.two
      rw [e] at this; simp at this
    exact implLoop_sim hw hR hm.dom hm.belowAnc hm.sameSegAnc g.length
      { processed := [], avail := a, out := [] } _ hi hj rfl rfl
      (initCounts_inv hw hR below) hns (by simp)


/-- **`cutoff_irrelevant`.** Removing the cut-off does not change the result of the mechanism. -/
theorem cutoff_irrelevant {g : Graph} (hw : WF g) {hs : List Nat} (hh : Heads g hs) {C : Nat}
    {below : Nat → Bool} {sameSeg : Nat → Nat → Bool} (hm : MechHyp g hs C below sameSeg) :
    implBraid g hs below sameSeg = implBraid g hs (fun _ => false) sameSeg := by
  rw [implBraid_eq_ref hw hh hm]
  exact (implBraid_eq_ref hw hh
    { two := hm.two, common := hm.common, dom := hm.dom, belowAnc := fun _ _ h => (by cases h),
      sameSegAnc := hm.sameSegAnc }).symm

/-- **`sameSegment_irrelevant`.** The same-segment shortcut does not change the result. -/
theorem sameSegment_irrelevant {g : Graph} (hw : WF g) {hs : List Nat} (hh : Heads g hs) {C : Nat}
    {below : Nat → Bool} {sameSeg : Nat → Nat → Bool} (hm : MechHyp g hs C below sameSeg) :
    implBraid g hs below sameSeg = implBraid g hs below (fun _ _ => false) := by
  rw [implBraid_eq_ref hw hh hm]
  exact (implBraid_eq_ref hw hh
    { two := hm.two, common := hm.common, dom := hm.dom, belowAnc := hm.belowAnc,
      sameSegAnc := fun _ _ h => (by cases h) }).symm

/-- **`braid_above_cut`.** With a dominating common ancestor `C` the reference braid never reaches
`C`: the start and every evaluated command are proper descendants of `C`. -/
theorem braid_above_cut {g : Graph} (hw : WF g) {hs : List Nat} (hh : Heads g hs) {C : Nat}
    (htwo : 2 ≤ hs.length) (hcommon : ∀ h ∈ hs, Reach g C h)
    (hdom : ∀ x ∈ ancSelfAll g hs, Reach g x C ∨ Reach g C x)
    {s : Nat} {o : List Nat} (h : refBraid g hs = .ok (s, o)) :
    (anc g C s = true) ∧ ∀ u ∈ o, anc g C u = true := by
  have hR := region_ancSelfAll hw hh.sub
  unfold refBraid at h
  cases ha : addAvail g [] hs with
  | error e => rw [ha] at h; simp at h
  | ok a =>
    rw [ha] at h
    simp only at h
    have hi := init_inv hw hh a ha
    obtain ⟨ea, _⟩ := addAvail_ok _ _ _ ha
    simp only [List.nil_append] at ea
    subst ea
    have hj : J g C { processed := [], avail := a, out := [] } := by
      refine ⟨?_, by simp⟩
      intro x hx
      refine ⟨hcommon x hx, ?_⟩
      intro e
      subst e
      obtain ⟨y, hy, hyx⟩ := exists_ne_of_not_single hh.nodup hh.ne
        (by intro x' e; rw [e] at htwo; simp at htwo) x
      exact hh.anti.not_reach hw hx hy (Ne.symm hyx) (hcommon y hy)
    obtain ⟨s', hi', hj', hA, hout⟩ := braidLoop_invariant hw hR (J g C)
      (fun s c a hi hk hcg hcA h2 ha => J_step hw hR hdom s c a hi hk hcg hcA h2 ha) _ _ hi hj s o h
    have habove : ∀ u, Above g C u → anc g C u = true :=
      fun u hu => (anc_iff hw C u).mpr ⟨Ne.symm hu.2, hu.1⟩
    refine ⟨habove s (hj'.1 s (by rw [hA]; simp)), ?_⟩
    intro u hu
    rw [← hout, hi'.outEq] at hu
    exact habove u (hj'.2 u (List.mem_filter.mp hu).1)

/-! ## non-vacuity of the mechanism theorems

```
  1 init — 2 (C) — 3 — 8 ─┐
            │       └─ 9 ─┴─ 10 = merge(8,9)      heads {10, 7}
            └─ 7
```
`3` has two region children above the cut (a convergence entry with count 2); `3`, `8` are in one
segment. -/
def exM : Graph :=
  [exC 1 [] .init, exC 2 [1] (.basic 0), exC 3 [2] (.basic 0), exC 8 [3] (.basic 1), exC 9 [3] (.basic 0),
   exC 10 [8, 9] .merge, exC 7 [2] (.basic 2)]

theorem exM_wf : WF exM := wfB_sound (by decide)
theorem exM_heads : Heads exM [10, 7] := ⟨by decide, by decide, by decide, by unfold Antichain; decide⟩

def exBelow (x : Nat) : Bool := x == 1 || x == 2
def exSame (p o : Nat) : Bool := p == 3 && o == 8

theorem reach_of_mem {g : Graph} (hw : WF g) {x y : Nat} (h : x ∈ ancSelfAll g [y]) : Reach g x y := by
  rw [mem_ancSelfAll hw] at h
  obtain ⟨b, hb, hr⟩ := h
  simp at hb; subst hb; exact hr

theorem exM_hyp : MechHyp exM [10, 7] 2 exBelow exSame where
  two := by decide
  common := by
    intro h hh
    have : 2 ∈ ancSelfAll exM [h] := by revert h; decide
    exact reach_of_mem exM_wf this
  dom := by
    intro x hx
    have : x ∈ ancSelfAll exM [2] ∨ 2 ∈ ancSelfAll exM [x] := by revert x; decide
    rcases this with h | h
    · exact Or.inl (reach_of_mem exM_wf h)
    · exact Or.inr (reach_of_mem exM_wf h)
  belowAnc := by
    intro x hx hb
    have : x ∈ ancSelfAll exM [2] := by revert x; decide
    exact reach_of_mem exM_wf this
  sameSegAnc := by
    intro p o h
    simp only [exSame, Bool.and_eq_true, beq_iff_eq] at h
    obtain ⟨rfl, rfl⟩ := h
    exact reach_of_mem exM_wf (by decide)

/-- the convergence map really holds an entry here, and both sides compute start 7, order 3 8 9 …
(the mechanism returns the start first) -/
example : initCounts exM (ancSelfAll exM [10, 7]) exBelow 3 = some 2 ∧
    implBraid exM [10, 7] exBelow exSame = .ok [7, 3, 8, 9] ∧ refBraid exM [10, 7] = .ok (7, [3, 8, 9]) := by
  refine ⟨by decide, by rfl, by rfl⟩

example : implBraid exM [10, 7] exBelow exSame = liftRes (refBraid exM [10, 7]) :=
  implBraid_eq_ref exM_wf exM_heads exM_hyp

end AranyaV.Braid
