import AranyaV.Proofs.BraidIndep
/-!
# C03 — Braided fact state equals the reference braid

The real code is tied to `Spec.Braid` (`refBraid`, `stateAt`, `factsOf`) by the C03 harness (real
`ClientState` vs this spec vs an independent Rust reference braid).  The theorems here say what
that reference model *is*, for every well-formed graph and legal head set:

* `key_order`            — the strand comparison `keyLt` is the lexicographic order on
                           `(Priority class, Basic argument, id)` with classes
                           `Merge < Basic n < Finalize < Init` — proved from the GENERATED
                           `Priority` (reordering the Rust enum breaks this proof); `keyLt` is a
                           strict total order on commands with distinct ids (`key_strict_total`);
* `braid_removes_least`  — each step removes the *least* available command under that order;
* `finalize_first`       — (rooted graphs) a finalize of the braided region is never in the
                           evaluation order: it is an ancestor-or-self of the start, i.e. part of
                           the stored state the order is replayed on — so every evaluated command,
                           in particular everything concurrent with it, comes after it
                           (`finalize_first_concurrent`);
* `braid_layout_indep`   — `refBraid` depends only on the command *set*: any two parents-first
                           listings of the same commands give the same result;
  `braid_deterministic`  — the same for two graphs with the same members;
* `reverse_topological`  — the removal sequence (reverse of the evaluation order) never removes a
                           command before one of its descendants in the region.
-/
namespace AranyaV.Spec
open AranyaV.Gen

/-- **`key_order`.**  `keyLt` is lexicographic on `(cls, arg, id)`; the class order is
`Merge < Basic n < Finalize < Init`, `Basic` is ordered by its argument. -/
theorem key_order :
    (∀ a b : Cmd, keyLt a b = true ↔
      a.prio.cls < b.prio.cls ∨ (a.prio.cls = b.prio.cls ∧
        (a.prio.arg < b.prio.arg ∨ (a.prio.arg = b.prio.arg ∧ a.id < b.id)))) ∧
    (∀ n : Nat, Priority.merge.cls < (Priority.basic n).cls ∧
      (Priority.basic n).cls < Priority.finalize.cls ∧ Priority.finalize.cls < Priority.init.cls) ∧
    (∀ n m : Nat, (Priority.basic n).cls = (Priority.basic m).cls ∧ (Priority.basic n).arg = n) ∧
    Priority.merge.arg = 0 ∧ Priority.finalize.arg = 0 ∧ Priority.init.arg = 0 := by
  refine ⟨keyLt_iff, ?_, ?_, rfl, rfl, rfl⟩
  · intro n; simp [Priority.cls]
  · intro n m; simp [Priority.cls, Priority.arg]

/-- consequences in terms of commands: merge strands first, then `Basic` by argument then id,
then finalize, then init -/
theorem key_order_cmds (a b : Cmd) :
    (a.prio = .merge → (∃ n, b.prio = .basic n) → keyLt a b = true) ∧
    (∀ n m, a.prio = .basic n → b.prio = .basic m → (keyLt a b = true ↔ n < m ∨ (n = m ∧ a.id < b.id))) ∧
    (∀ n, a.prio = .basic n → b.prio = .finalize → keyLt a b = true) ∧
    (a.prio = .merge → b.prio = .finalize → keyLt a b = true) ∧
    (a.prio = .finalize → b.prio = .init → keyLt a b = true) ∧
    (a.prio = b.prio → (keyLt a b = true ↔ a.id < b.id)) := by
  refine ⟨?_, ?_, ?_, ?_, ?_, ?_⟩
  · rintro ha ⟨n, hb⟩; simp [keyLt_iff, ha, hb, Priority.cls]
  · intro n m ha hb; simp [keyLt_iff, ha, hb, Priority.cls, Priority.arg]
  · intro n ha hb; simp [keyLt_iff, ha, hb, Priority.cls]
  · intro ha hb; simp [keyLt_iff, ha, hb, Priority.cls]
  · intro ha hb; simp [keyLt_iff, ha, hb, Priority.cls]
  · intro hab; simp [keyLt_iff, hab]

/-- `keyLt` is a strict total order on commands with distinct ids -/
theorem key_strict_total (a b c : Cmd) :
    keyLt a a = false ∧ (keyLt a b = true → keyLt b c = true → keyLt a c = true) ∧
    (a.id ≠ b.id → keyLt a b = true ∨ keyLt b a = true) ∧ (keyLt a b = true → keyLt b a = false) :=
  ⟨keyLt_irrefl a, keyLt_trans, keyLt_total, keyLt_asymm⟩

/-- each step of the braid removes the least available command -/
theorem braid_removes_least {g : Graph} (hw : WF g) (A : List Nat) (hne : A ≠ []) (hA : ∀ x ∈ A, x ∈ ids g) :
    ∃ c, minAvail g A = some c ∧ c ∈ g ∧ c.id ∈ A ∧
      ∀ d ∈ g, d.id ∈ A → d.id ≠ c.id → keyLt c d = true :=
  minAvail_spec hw A hne hA

/-- **`finalize_first`.** In a rooted graph a finalize `f` of the braided region is an
ancestor-or-self of the start (its effect is in the stored state the order is replayed on) and is
not in the evaluation order. -/
theorem finalize_first {g : Graph} (hw : WF g) (hroot : Rooted g) {hs : List Nat} (hh : Heads g hs)
    {s : Nat} {o : List Nat} (h : refBraid g hs = .ok (s, o)) {f : Nat}
    (hfR : f ∈ ancSelfAll g hs) (hf : isFinalize g f = true) :
    f ∈ ancSelfAll g [s] ∧ f ∉ o := by
  have hsp := refBraid_spec hw hh
  rw [h] at hsp
  obtain ⟨st, hi, hA, hout⟩ := hsp
  have hR := region_ancSelfAll hw hh.sub
  have hfP : f ∉ st.processed := by
    intro hp
    have := hi.noFinP hroot f hp
    rw [hf] at this; cases this
  refine ⟨?_, ?_⟩
  · rw [mem_ancSelfAll hw]
    exact ⟨s, by simp, final_unprocessed hw hR hi hA f hfR hfP⟩
  · rw [← hout, hi.outEq]
    intro hm
    exact hfP (List.mem_filter.mp hm).1

/-- every command of the region that is concurrent with a finalize `f` is either evaluated (and
then after `f`, which is below the start) or itself below the start -/
theorem finalize_first_concurrent {g : Graph} (hw : WF g) (hroot : Rooted g) {hs : List Nat}
    (hh : Heads g hs) {s : Nat} {o : List Nat} (h : refBraid g hs = .ok (s, o)) {f x : Nat}
    (hfR : f ∈ ancSelfAll g hs) (hf : isFinalize g f = true) (hx : x ∈ o) :
    f ∈ ancSelfAll g [s] ∧ x ∉ ancSelfAll g [s] ∧ anc g x f = false := by
  obtain ⟨h1, _⟩ := finalize_first hw hroot hh h hfR hf
  have hsp := refBraid_spec hw hh
  rw [h] at hsp
  obtain ⟨st, hi, hA, hout⟩ := hsp
  have hR := region_ancSelfAll hw hh.sub
  have hxP : x ∈ st.processed := by
    rw [← hout, hi.outEq] at hx; exact (List.mem_filter.mp hx).1
  have hxs : ¬ Reach g x s := ((final_processed_iff hw hR hi hA x).mp hxP).2
  have hfs : Reach g f s := by
    rw [mem_ancSelfAll hw] at h1
    obtain ⟨b, hb, hr⟩ := h1
    simp at hb; subst hb; exact hr
  refine ⟨h1, ?_, ?_⟩
  · rw [mem_ancSelfAll hw]
    rintro ⟨b, hb, hr⟩
    simp at hb; subst hb; exact hxs hr
  · cases hax : anc g x f with
    | false => rfl
    | true =>
      exfalso
      exact hxs (((anc_iff hw x f).mp hax).2.trans hfs)

/-- **`braid_layout_indep`.** Two parents-first listings of the same commands give the same braid. -/
theorem braid_layout_indep {g g' : Graph} (hw : WF g) (hw' : WF g') (hp : g.Perm g') (hs : List Nat) :
    refBraid g hs = refBraid g' hs :=
  refBraid_perm_graph hw hw' hp hs

theorem WF.cmds_nodup {g : Graph} (hw : WF g) : g.Nodup := by
  have := hw.nodup
  unfold ids at this
  unfold List.Nodup at this ⊢
  rw [List.pairwise_map] at this
  exact this.imp (fun h e => h (by rw [e]))

/-- **`braid_deterministic`.** The braid is a function of the command *set*. -/
theorem braid_deterministic {g g' : Graph} (hw : WF g) (hw' : WF g') (hset : ∀ c, c ∈ g ↔ c ∈ g')
    (hs : List Nat) : refBraid g hs = refBraid g' hs :=
  braid_layout_indep hw hw' ((List.perm_ext_iff_of_nodup hw.cmds_nodup hw'.cmds_nodup).mpr hset) hs

/-- the removal sequence is reverse topological: a command is removed only after all its
descendants in the region (stated on the evaluation order: no evaluated command is an ancestor of
an earlier evaluated one) -/
theorem reverse_topological {g : Graph} (hw : WF g) {hs : List Nat} (hh : Heads g hs)
    {s : Nat} {o : List Nat} (h : refBraid g hs = .ok (s, o)) :
    o.Pairwise (fun x y => anc g y x = false) := by
  have hsp := refBraid_spec hw hh
  rw [h] at hsp
  obtain ⟨st, hi, _, hout⟩ := hsp
  rw [← hout, hi.outEq]
  refine (hi.order.filter _).imp ?_
  intro x y hxy
  cases ha : anc g y x with
  | false => rfl
  | true => exact absurd ((anc_iff hw y x).mp ha).2 hxy

/-! ## non-vacuity -/

def exC (i : Nat) (ps : List Nat) (p : Priority) : Cmd := { id := i, parents := ps, prio := p, body := [] }

/-- init 1; finalize 2 on 1; branches 3 (basic 5) and 4 (basic 1) on 2; 5 (basic 0) on 3 -/
def exF : Graph :=
  [exC 1 [] .init, exC 2 [1] .finalize, exC 3 [2] (.basic 5), exC 4 [2] (.basic 1), exC 5 [3] (.basic 0)]

/-- the same commands, listed in another parents-first order -/
def exF' : Graph :=
  [exC 1 [] .init, exC 2 [1] .finalize, exC 4 [2] (.basic 1), exC 3 [2] (.basic 5), exC 5 [3] (.basic 0)]

theorem exF_wf : WF exF := wfB_sound (by decide)
theorem exF'_wf : WF exF' := wfB_sound (by decide)
theorem exF_rooted : Rooted exF := ⟨by decide, by decide⟩
theorem exF_heads : Heads exF [5, 4] := ⟨by decide, by decide, by decide, by unfold Antichain; decide⟩
theorem exF_braid : refBraid exF [5, 4] = .ok (3, [4, 5]) := by rfl

example : ∃ s o, WF exF ∧ Rooted exF ∧ Heads exF [5, 4] ∧ refBraid exF [5, 4] = .ok (s, o) ∧
    isFinalize exF 2 = true ∧ 2 ∈ ancSelfAll exF [5, 4] ∧ 2 ∈ ancSelfAll exF [s] ∧ 2 ∉ o ∧ o ≠ [] :=
  ⟨3, [4, 5], exF_wf, exF_rooted, exF_heads, exF_braid, by decide, by decide, by decide, by decide, by decide⟩

theorem exF_perm : exF.Perm exF' := List.Perm.cons _ (List.Perm.cons _ (List.Perm.swap _ _ _))

example : exF.Perm exF' ∧ exF.map (·.id) ≠ exF'.map (·.id) ∧ refBraid exF [5, 4] = refBraid exF' [5, 4] :=
  ⟨exF_perm, by decide, braid_layout_indep exF_wf exF'_wf exF_perm _⟩

/-- id-only tie-break: same priority, smaller id is removed first (evaluated last) -/
example : keyLt (exC 4 [2] (.basic 0)) (exC 5 [3] (.basic 0)) = true ∧
    keyLt (exC 9 [] .merge) (exC 1 [] (.basic 0)) = true ∧
    keyLt (exC 9 [] (.basic 7)) (exC 1 [] .finalize) = true ∧
    keyLt (exC 9 [] .finalize) (exC 1 [] .init) = true := by decide

end AranyaV.Spec
