import AranyaV.Proofs.Conc.Mutex
import AranyaV.Gen.ConcOrd
/-!
# C43 — The shared-memory mutex is exclusive and loses no wake-ups

Property theorems for the transition system `AranyaV.Mutex` (model of the futex variant of
`Mutex::sys_lock` / `Mutex::sys_unlock` in `crates/aranya-fast-channels/src/mutex.rs`).
Every theorem is about **every state reachable from `init n` by every schedule**, for every
number of threads `n`: schedules are arbitrary lists of `Act`s (`run t`, `wakeOne t w`,
`spur w`), i.e. they include every choice of the sleeper released by `futex_wake(1)` and
spurious wake-ups at arbitrary points.  No bound on threads, schedule length or lock count.

Reading of the property's "a waiter blocked on it is always woken and eventually acquires it":
**weak progress** — (a) no lost wake-up (`sleeper_inv`), (b) no deadlock (`no_deadlock`),
(c) from every reachable state every waiter has a finite continuation, free of spurious
wake-ups, in which it acquires (`can_acquire`).  Inevitability under a fair scheduler
(starvation freedom) is *not* claimed and does not hold for this algorithm (a released
sleeper competes with spinners and late arrivals).

Level: partial — sequentially consistent interleavings only (the adequacy of the
`SeqCst`/`Relaxed` annotations on weak memory is not shown); kernel futex semantics as
stated in `Model/Conc/Mutex.lean`.
-/
namespace AranyaV.Mutex

open AranyaV.Gen.ConcMutex
open AranyaV.Conc

/-! ## the model transliterates the source that is there -/

/-- The state constants and the operation skeleton extracted from `mutex.rs` on this run are
the ones the model was written against (`Model/Conc/Mutex.lean` uses the literals 0/1/2). -/
theorem skeleton_matches :
    mutexUnlocked = 0 ∧ mutexLocked = 1 ∧ mutexSleeping = 2 ∧
    lockOps = ["compare_exchange(MUTEX_UNLOCKED,MUTEX_LOCKED)", "load()",
      "compare_exchange(MUTEX_UNLOCKED,wait)", "swap(MUTEX_SLEEPING)",
      "futex_wait(MUTEX_SLEEPING)"] ∧
    fastArms = "Ok(_)=>return,Err(v)=>v," ∧
    unlockOps = ["swap(MUTEX_UNLOCKED)", "futex_wake(1)"] ∧
    unlockArms = ["MUTEX_UNLOCKED=>bug", "MUTEX_SLEEPING=>wake", "MUTEX_LOCKED=>nop", "_=>bug"] ∧
    swapBeforeWait = true ∧ waitSetSleeping = true ∧ swapReturnsIfUnlocked = true ∧
    spinWhileUnlocked = true ∧ forPassiveSpin = true :=
  ⟨rfl, rfl, rfl, rfl, rfl, rfl, rfl, rfl, rfl, rfl, rfl, rfl⟩

/-! ## memory orderings: the side condition of the sequentially consistent model -/

/-- What each atomic access of the futex `sys_lock` / `sys_unlock` must *at least* be for the
sequentially consistent reasoning of this file to apply (the step from this table to "SC
reasoning is sound" is the unmechanised release/acquire (DRF-SC) argument — trusted base):

* `sys_lock` fast-path `compare_exchange(UNLOCKED → LOCKED)`: success **Acquire** — it is the
  observing read that takes the lock and is followed by the accesses to the protected data, so
  it must synchronise with the previous holder's releasing `swap`; failure **Relaxed** — the
  value only initialises the local `wait`.
* spin `load`: **Relaxed** — a hint only; the `compare_exchange` after it does the acquiring.
* spin `compare_exchange(UNLOCKED → wait)`: success **Acquire** (takes the lock), failure Relaxed.
* `swap(SLEEPING)`: **Acquire** — it takes the lock when it returns UNLOCKED.  That the
  unlocker's `swap(UNLOCKED)` and this swap see each other (no lost wake-up) needs no ordering:
  both are read-modify-writes of the same word, totally ordered by coherence, and the kernel
  re-reads the word inside `futex_wait`.
* `sys_unlock` `swap(UNLOCKED)`: **Release** — the publishing write: everything the holder did
  to the protected data must be visible to the next thread that acquires. -/
def mutexOrdRoles : List OrdPair :=
  [(.acquire, .relaxed), (.relaxed, .relaxed), (.acquire, .relaxed), (.acquire, .relaxed),
   (.release, .relaxed)]

/-- **The orderings written in `mutex.rs` are at least what their roles require**, and the set
of atomic accesses is exactly the one that was classified (a new atomic access must be
classified before the build passes).  A stronger ordering in the source passes; a weaker one
(e.g. `Relaxed` on the unlock swap or on a lock CAS) makes this theorem fail. -/
theorem orderings_sufficient :
    AranyaV.Gen.ConcOrd.mutexShape =
      ["sys_lock:key:cas", "sys_lock:key:load", "sys_lock:key:cas", "sys_lock:key:swap",
       "sys_unlock:key:swap"] ∧
    sufficient mutexOrdRoles AranyaV.Gen.ConcOrd.mutexOrds = true :=
  ⟨rfl, by decide⟩

/-! ## mutual exclusion -/

/-- in the critical section: `lock` has returned and the guard is not being dropped yet -/
def inCS : Pc → Bool
  | .hold => true
  | _ => false

/-- **Mutual exclusion.**  In every reachable state at most one thread owns the mutex
(`owns` = from the acquiring operation up to the `swap(UNLOCKED)`; it contains the critical
section). -/
theorem excl {n : Nat} {s : State} (h : Reachable n s) {t u : Nat} {p q : Pc}
    (ht : s.pcs[t]? = some p) (hu : s.pcs[u]? = some q) (hp : owns p = true)
    (hq : owns q = true) : t = u := by
  have hI := inv_of_reachable h
  have hle : s.pcs.countP owns ≤ 1 := by
    by_cases hk : s.key = 0
    · have := hI.owners0 hk; simp only [State.count] at this; omega
    · have := hI.owners1 hk; simp only [State.count] at this; omega
  exact unique_of_countP_le_one owns hle ht hu hp hq

/-- the same, for the critical section proper -/
theorem excl_cs {n : Nat} {s : State} (h : Reachable n s) {t u : Nat}
    (ht : s.pcs[t]? = some .hold) (hu : s.pcs[u]? = some .hold) : t = u :=
  excl h ht hu rfl rfl

/-- the futex word says whether the mutex is owned: `key = 0` iff no thread owns it -/
theorem key_zero_iff_free {n : Nat} {s : State} (h : Reachable n s) :
    s.key = 0 ↔ ∀ (t : Nat) (p : Pc), s.pcs[t]? = some p → owns p = false := by
  have hI := inv_of_reachable h
  constructor
  · intro hk t p hp
    have h0 := hI.owners0 hk
    simp only [State.count] at h0
    cases hop : owns p
    · rfl
    · have := countP_pos_of_get owns hp hop; omega
  · intro hall
    by_cases hk : s.key = 0
    · exact hk
    · have h1 := hI.owners1 hk
      simp only [State.count] at h1
      obtain ⟨t, p, hp, hop⟩ := exists_get_of_countP_pos owns (l := s.pcs) (by omega)
      rw [hall t p hp] at hop; cases hop

/-- `sys_unlock` never takes a `bug!` branch, `wait` is always LOCKED or SLEEPING, and the
word stays in `{0,1,2}` -/
theorem no_bug {n : Nat} {s : State} (h : Reachable n s) :
    s.key ≤ 2 ∧ ∀ (t : Nat) (p : Pc), s.pcs[t]? = some p → bad p = false := by
  have hI := inv_of_reachable h
  refine ⟨hI.key_le, ?_⟩
  intro t p hp
  have h0 := hI.no_bad
  simp only [State.count] at h0
  cases hb : bad p
  · rfl
  · have := countP_pos_of_get bad hp hb; omega

/-! ## no lost wake-up -/

/-- **No lost wake-up.**  Whenever some thread is blocked in the futex, the word is
`SLEEPING` (so the owner's `sys_unlock` will issue a wake) or some *awake* thread is a
`carrier`: an unlocker that observed `SLEEPING` and has its `futex_wake` pending, a sleeper
already released, or a thread in the lock path that is bound to store `SLEEPING` before it
can block or acquire (past the spin phase, or spinning with `wait = SLEEPING`). -/
theorem sleeper_inv {n : Nat} {s : State} (h : Reachable n s) {t : Nat}
    (ht : s.pcs[t]? = some .asleep) :
    s.key = 2 ∨ ∃ (u : Nat) (q : Pc), s.pcs[u]? = some q ∧ carrier q = true := by
  have hI := inv_of_reachable h
  rcases hI.sleeper (countP_pos_of_get isAsleep ht rfl) with hk | hc
  · exact Or.inl hk
  · exact Or.inr (exists_get_of_countP_pos carrier hc)

/-- what a carrier is, spelled out -/
theorem carrier_iff (p : Pc) :
    carrier p = true ↔
      p = .wake ∨ p = .woken ∨ p = .swap ∨ p = .fwait ∨ (∃ i, p = .load i 2) ∨ ∃ i, p = .cas i 2 := by
  cases p <;> simp [carrier]

/-- The two-clause form sketched in DESIGN.md ("`key = 2` or a wake is pending from an
unlocker that observed 2") is **not** an invariant: with two sleepers, after the unlocker's
wake released one of them and a newcomer took the free mutex on the fast path, the other
sleeper faces `key = 1` and no pending wake — the released sleeper (a carrier, `wait = 2`)
is what guarantees the next wake.  Concrete reachable state, 4 threads. -/
theorem naive_sleeper_inv_false :
    ∃ (acts : List Act) (s : State), exec (init 4) acts = some s ∧
      s.pcs[2]? = some .asleep ∧ s.key ≠ 2 ∧ ∀ (u : Nat) (q : Pc), s.pcs[u]? = some q → q ≠ .wake := by
  refine ⟨[.run 0, .run 0] ++ List.replicate (passiveSpin + 4) (.run 1) ++
      List.replicate (passiveSpin + 4) (.run 2) ++ [.run 0, .run 0, .run 3, .run 3, .wakeOne 0 1],
    ⟨1, [.idle, .woken, .asleep, .hold]⟩, by decide, by decide, by decide, ?_⟩
  intro u q hq
  match u, hq with
  | 0, hq => simp at hq; subst hq; decide
  | 1, hq => simp at hq; subst hq; decide
  | 2, hq => simp at hq; subst hq; decide
  | 3, hq => simp at hq; subst hq; decide
  | _ + 4, hq => simp at hq

/-! ## no deadlock -/

/-- an action that is neither a spurious wake-up nor an idle thread deciding to call `lock` -/
def Act.progress (s : State) : Act → Bool
  | .run t => s.pcs[t]? != some .idle
  | .wakeOne _ _ => true
  | .spur _ => false

/-- every pc other than `asleep`, `bug` and `wake` has an enabled `run` step -/
theorem runPc_enabled (k : Nat) (sl : Bool) {p : Pc} (h1 : p ≠ .asleep) (h2 : p ≠ .bug)
    (h3 : p ≠ .wake) : ∃ r, runPc k sl p = some r := by
  cases p <;> simp only [runPc, ne_eq, not_true_eq_false] at * <;> (repeat' split) <;>
    exact ⟨_, rfl⟩

/-- **No deadlock.**  In every reachable state in which some thread is inside `lock`, the
critical section or `unlock`, some thread can take a step that is not a blocked futex wait
— without help from a spurious wake-up or from a new `lock` call. -/
theorem no_deadlock {n : Nat} {s : State} (h : Reachable n s)
    (hbusy : ∃ (t : Nat) (p : Pc), s.pcs[t]? = some p ∧ p ≠ .idle) :
    ∃ a : Act, a.progress s = true ∧ (step s a).isSome = true := by
  have hI := inv_of_reachable h
  -- an awake, non-idle thread can always move
  have awake : ∀ (t : Nat) (p : Pc), s.pcs[t]? = some p → p ≠ .idle → p ≠ .asleep →
      ∃ a : Act, a.progress s = true ∧ (step s a).isSome = true := by
    intro t p hp hni hpa
    have hnb : bad p = false := (no_bug h).2 t p hp
    by_cases hwk : p = .wake
    · subst hwk
      cases hs : s.sleepers
      · exact ⟨.run t, by simp [Act.progress, hp], by simp [step, hp, runPc, hs]⟩
      · obtain ⟨w, pw, hw, hpw⟩ := exists_get_of_countP_pos isAsleep ((sleepers_true_iff s).mp hs)
        have : pw = .asleep := by cases pw <;> simp [isAsleep] at hpw ⊢
        subst this
        exact ⟨.wakeOne t w, rfl, by simp [step, hp, hw]⟩
    · have hnbug : p ≠ .bug := by
        intro hb; subst hb; simp [bad] at hnb
      obtain ⟨⟨k, p'⟩, hr⟩ := runPc_enabled s.key s.sleepers hpa hnbug hwk
      exact ⟨.run t, by simp [Act.progress, hp, hni], by simp [step, hp, hr]⟩
  obtain ⟨t, p, hp, hni⟩ := hbusy
  by_cases hpa : p = .asleep
  · subst hpa
    rcases sleeper_inv h hp with hk | ⟨u, q, hq, hcq⟩
    · -- the word is SLEEPING: there is an owner, and it is awake
      have h1 := hI.owners1 (by omega)
      simp only [State.count] at h1
      obtain ⟨o, po, ho, hpo⟩ := exists_get_of_countP_pos owns (l := s.pcs) (by omega)
      exact awake o po ho (by cases po <;> simp [owns] at hpo ⊢) (by cases po <;> simp [owns] at hpo ⊢)
    · exact awake u q hq (by cases q <;> simp [carrier] at hcq ⊢) (by cases q <;> simp [carrier] at hcq ⊢)
  · exact awake t p hp hni hpa

/-! ## every waiter can acquire -/

/-- **Weak progress.**  From every reachable state, every thread that is inside `lock`
(spinning, about to sleep, asleep, or released) has a finite continuation that contains no
spurious wake-up and after which it is in the critical section. -/
theorem can_acquire {n : Nat} {s : State} (h : Reachable n s) {t : Nat} {p : Pc}
    (hp : s.pcs[t]? = some p) (hw : waiting p = true) :
    ∃ (acts : List Act) (s' : State), (∀ a ∈ acts, a.isSpur = false) ∧
      exec s acts = some s' ∧ s'.pcs[t]? = some .hold := by
  obtain ⟨s', ⟨acts, hns, he⟩, hh⟩ := can_acquire_of_inv (inv_of_reachable h) hp hw
  exact ⟨acts, s', hns, he, hh⟩

/-- …and that state is again reachable, so all the theorems above apply to it -/
theorem can_acquire_reachable {n : Nat} {s s' : State} (h : Reachable n s) (acts : List Act)
    (he : exec s acts = some s') : Reachable n s' :=
  reachable_exec h acts he

/-! ## non-vacuity: the hypotheses are met by concrete, non-trivial reachable states -/

/-- three threads: 0 holds, 1 is asleep in the futex, 2 is spinning; all theorems apply -/
example : ∃ s : State, Reachable 3 s ∧ s.key = 2 ∧ s.pcs[0]? = some .hold ∧
    s.pcs[1]? = some .asleep ∧ s.pcs[2]? = some (.load 0 2) := by
  refine ⟨⟨2, [.hold, .asleep, .load 0 2]⟩, ?_, rfl, rfl, rfl, rfl⟩
  exact reachable_exec (n := 3) Reachable.init
    ([.run 0, .run 0] ++ List.replicate (passiveSpin + 4) (.run 1) ++ [.run 2, .run 2]) (by decide)

/-- a spurious wake-up followed by a contended re-sleep is a run of the model -/
example : exec (init 2) ([.run 0, .run 0] ++ List.replicate (passiveSpin + 4) (.run 1) ++
    [.spur 1] ++ List.replicate (passiveSpin + 3) (.run 1)) = some ⟨2, [.hold, .asleep]⟩ := by
  decide

/-- a sleeper is blocked: `run` is not enabled for it -/
example : step ⟨2, [.hold, .asleep]⟩ (.run 1) = none := by decide

end AranyaV.Mutex
