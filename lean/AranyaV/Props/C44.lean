import AranyaV.Proofs.Conc.BiArc
import AranyaV.Gen.ConcOrd
/-!
# C44 — Channel loans are exclusive and freed exactly once

Property theorems for the transition system `AranyaV.BiArc` (model of `Lender` / `Loan` /
`BiArc` in `crates/aranya-fast-channels/src/memory/lender.rs`).  Every theorem is about every
state reachable from `init n` by every interleaving of `lend`, `shared`, `get_ref`/`get_mut`
(and the later use of the references they return), drop of the `Lender` and drop of `Loan`s,
on any number of threads — the only restrictions are the ones Rust's ownership rules impose on
clients (see `Model/Conc/BiArc.lean`).

Level: partial — sequentially consistent interleavings only (that `AcqRel` swaps + `Acquire`
load suffice on weak memory is not shown).
-/
namespace AranyaV.BiArc

open AranyaV.Conc

/-! ## memory orderings: the side condition of the sequentially consistent model -/

/-- Minimal ordering of each atomic access of `BiArc` (the step from this table to "SC
reasoning is sound" is the unmechanised release/acquire (DRF-SC) argument — trusted base):

* `try_clone` `swap(SHARED)`: **Acquire** — when it returns UNSHARED a new `Loan` is created that
  will read and write the exclusive data last written by the previous `Loan`, whose drop released
  it with `swap(UNSHARED)`; the swap publishes nothing itself.
* `get_if_shared` `load`: **Acquire** — the observing read that decides whether the `Loan` may
  touch the data (dependent accesses follow).
* `drop` `swap(UNSHARED)`: **AcqRel** — a read-modify-write that does both: *release* (this
  handle's accesses to the data happen before the other handle frees it) and *acquire* (if this
  handle is the one that frees, it must have seen the other handle's accesses). -/
def biarcOrdRoles : List OrdPair :=
  [(.acquire, .relaxed), (.acquire, .relaxed), (.acqRel, .relaxed)]

/-- **The orderings written in `lender.rs` are at least what their roles require**, and the
set of atomic accesses is exactly the one that was classified. -/
theorem orderings_sufficient :
    AranyaV.Gen.ConcOrd.biarcShape =
      ["try_clone:state:swap", "get_if_shared:state:load", "drop:state:swap"] ∧
    sufficient biarcOrdRoles AranyaV.Gen.ConcOrd.biarcOrds = true :=
  ⟨rfl, by decide⟩

/-- **At most one live `Loan`.** -/
theorem one_loan {n : Nat} {s : State} (h : Reachable n s) {t u : Nat} {a b : Th}
    (ht : s.ths[t]? = some a) (hu : s.ths[u]? = some b) (ha : a.loan = true) (hb : b.loan = true) :
    t = u := by
  have hI := inv_of_reachable h
  have hle : s.ths.countP hasLoan ≤ 1 := by
    cases hf : s.flag
    · have := hI.flag_false hf
      simp only [State.handles, State.count] at this; omega
    · have := (hI.flag_true hf).2
      simp only [State.count] at this; omega
  exact unique_of_countP_le_one hasLoan hle ht hu ha hb

/-- the same as a count -/
theorem one_loan_count {n : Nat} {s : State} (h : Reachable n s) : s.count hasLoan ≤ 1 := by
  have hI := inv_of_reachable h
  cases hf : s.flag
  · have := hI.flag_false hf
    simp only [State.handles] at this; omega
  · have := (hI.flag_true hf).2; omega

/-- the flag is SHARED exactly when the `Lender` handle and one `Loan` are both live -/
theorem flag_iff_both {n : Nat} {s : State} (h : Reachable n s) :
    s.flag = true ↔ s.lenderLive = 1 ∧ s.count hasLoan = 1 := by
  have hI := inv_of_reachable h
  constructor
  · exact hI.flag_true
  · intro ⟨h1, h2⟩
    cases hf : s.flag
    · have := hI.flag_false hf
      simp only [State.handles] at this; omega
    · rfl

/-- once the `Lender`'s drop has returned it stays returned -/
theorem gone_stable {s s' : State} {t : Nat} {op : Op} (hg : s.lender = .gone)
    (hs : step s t op = some s') : s'.lender = .gone := by
  unfold step at hs
  cases hth : s.ths[t]? with
  | none => simp [hth] at hs
  | some th =>
    simp only [hth] at hs
    cases op <;> cases hp : th.pc <;> simp [hp, hg] at hs <;>
      (try split at hs) <;> (try (simp at hs)) <;>
      (first | (subst hs; simp [hg]) | (obtain ⟨_, hs⟩ := hs; subst hs; rfl))

/-- **Revocation.**  After the `Lender`'s drop has returned (`lender = gone`, which is
stable), the flag is UNSHARED, so a `get_ref`/`get_mut` that performs its load in such a
state — in particular any `get` that *starts* after the drop returned — yields `None`:
the thread goes back to `idle` without ever holding references. -/
theorem revoked {n : Nat} {s : State} (h : Reachable n s) (hg : s.lender = .gone) {t : Nat}
    {l : Bool} (ht : s.ths[t]? = some ⟨.get, l⟩) :
    s.flag = false ∧
      step s t .step = some { s with uaf := s.touch, ths := s.ths.set t ⟨.idle, l⟩ } := by
  have hI := inv_of_reachable h
  have hf : s.flag = false := by
    cases hf : s.flag
    · rfl
    · have := (hI.flag_true hf).1
      simp [State.lenderLive, hg] at this
  refine ⟨hf, ?_⟩
  simp [step, ht, hf]

/-- **Freed at most once, and never while a handle is live.** -/
theorem free_once {n : Nat} {s : State} (h : Reachable n s) :
    s.freed ≤ 1 ∧ (1 ≤ s.handles → s.freed = 0 ∧ s.count pendFree = 0) := by
  have hI := inv_of_reachable h
  refine ⟨?_, hI.live_unfreed⟩
  by_cases hh : s.handles = 0
  · have := hI.dead_freed hh; omega
  · have := (hI.live_unfreed (by omega)).1; omega

/-- **Freed exactly when both handles are gone** (no leak): once no handle is live and no
thread is parked between its `swap` and its `free`, the allocation has been freed once. -/
theorem freed_when_gone {n : Nat} {s : State} (h : Reachable n s) (hh : s.handles = 0)
    (hp : s.count pendFree = 0) : s.freed = 1 := by
  have := (inv_of_reachable h).dead_freed hh; omega

/-- …and while some handle is gone but the other is live, exactly nobody is freeing -/
theorem pending_free_unique {n : Nat} {s : State} (h : Reachable n s) :
    s.freed + s.count pendFree ≤ 1 := by
  have hI := inv_of_reachable h
  by_cases hh : s.handles = 0
  · have := hI.dead_freed hh; omega
  · have := hI.live_unfreed (by omega); omega

/-- **No access after free.**  No operation of any thread (the swaps, the load, reads of the
value by `shared`, reads/writes through the references returned by `get_*`) ever touches the
allocation after it was freed. -/
theorem no_access_after_free {n : Nat} {s : State} (h : Reachable n s) : s.uaf = false :=
  (inv_of_reachable h).no_uaf

/-- every step that touches the allocation happens while it is unfreed -/
theorem touch_ok {n : Nat} {s s' : State} (h : Reachable n s) {t : Nat} {op : Op}
    (hs : step s t op = some s') : s'.uaf = false :=
  no_access_after_free (Reachable.step t op h hs)

/-! ## non-vacuity -/

/-- lend, use, drop the lender first (revocation), a later `get` returns `None`, loan drop frees -/
example : exec (init 2) [(0, .startLend), (0, .step), (0, .startGet), (0, .step),
    (1, .startLDrop), (1, .step), (0, .step), (0, .startGet), (0, .step),
    (0, .startNDrop), (0, .step), (0, .step)]
    = some ⟨false, 1, false, .gone, [⟨.idle, false⟩, ⟨.idle, false⟩]⟩ := by decide

/-- loan dropped first, second loan granted, lender dropped while it is live -/
example : exec (init 2) [(1, .startLend), (1, .step), (0, .startLend), (0, .step),
    (1, .startNDrop), (1, .step), (0, .startLend), (0, .step), (1, .startLDrop), (1, .step)]
    = some ⟨false, 0, false, .gone, [⟨.idle, true⟩, ⟨.idle, false⟩]⟩ := by decide

/-- the lender cannot be dropped while a `lend` is in progress (borrow discipline) -/
example : step ⟨false, 0, false, .alive, [⟨.lend, false⟩, ⟨.idle, false⟩]⟩ 1 .startLDrop = none := by
  decide

end AranyaV.BiArc
