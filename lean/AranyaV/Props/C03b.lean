import AranyaV.Proofs.LcaWrite
import AranyaV.Props.C11
import AranyaV.Props.C03
import AranyaV.Proofs.StoreGraph
import AranyaV.Proofs.ConvBfs
import AranyaV.Proofs.StoreGraphBuild
import AranyaV.Proofs.ConvBfsCounts
import AranyaV.Proofs.BraidMechLazy
/-!
# C03 (part b) — the recorded-LCA walk returns a dominator (`lca_dominates`)

Storage-level model: `AranyaV.Model.Segments` (segments with prior, skip list; C11) plus
`AranyaV.Model.Lca` (`lca_pair`: the side with the higher max cut steps to its previous command /
single prior, a merge jumps to the LAST entry of its skip list = the last common ancestor recorded
when it was written; `last_common_ancestor`: the N-way fold).

* `lca_dominates`      — on a well-formed store whose stored merges satisfy `MergesDom`, the location
                         `c` returned by `lca_pair l r` is a command location, a common
                         ancestor-or-self of `l` and `r`, and *splits* `anc*(l) ∪ anc*(r)` by max cut:
                         everything with `maxCut ≤ maxCut c` is an ancestor-or-self of `c`,
                         everything with `maxCut > maxCut c` is a descendant of `c`;
* `lca_dominates_nway` — the same for `last_common_ancestor heads` and `⋃ anc*(h)`;
* `lca_total`          — with a single root the walk never takes an error branch (no
                         `bug!("found Prior::None before LCA")`, no missing segment, the fuel
                         `maxCut l + maxCut r + 1` suffices);
* `lca_is_c11_dom`     — the result satisfies C11's hypothesis `Dom`;
* `mergesDom_write`    — `MergesDom` ("every stored merge segment ends its skip list with such a
                         dominator of its two parents" — the *same statement* as `lca_dominates`) and
                         `WF` are preserved by `LinearStorage::write`, for a merge provided the recorded
                         ancestor dominates the parents; `add_merge_keeps_invariants` — in particular
                         when it is computed by `last_common_ancestor [l, r]` as `add_merge` does;
* `built_invariants`   — hence every store built from an init segment by such writes is `WF` and
                         `MergesDom`: the hypothesis `Dom` of C11's `skip_sound`/`write_total` holds on
                         every reachable store;
* `mechHyp_of_spines` / `implBraid_eq_ref_store` — for every spec-level graph that abstracts the store
                         (`Abs`: locations named by command ids, ancestry preserved, everything below
                         a named command named) the point returned by `last_common_ancestor heads`
                         satisfies the dominating-LCA hypothesis `MechHyp` of the mechanism theorems
                         of Props/C03 **with the real cut-off test `max_cut ≤ lca.max_cut` and the
                         real same-segment test**; so `implBraid … = liftRes (refBraid …)` holds with the
                         LCA the code computes.

* `abs_graphOf` / `graphOf_wf` / `implBraid_eq_ref_built` — such an abstraction always exists: `graphOf s attr`
                         lists the command locations by ascending max cut (id = position, parents =
                         positions of the store parents, any priority assignment `attr`); it is a
                         well-formed spec graph abstracting the store (merge segments must have two
                         different parents).  So for every store built by writes, every priority
                         assignment and every antichain of ≥ 2 valid heads, the mechanism with the
                         computed LCA, the real cut-off and the real same-segment test returns the
                         reference braid of the store's command graph — no hypothesis left on the LCA.

The BFS half of `ConvergenceMap.count_exact` (`Model.ConvBfs`: `ConvergenceMap::new` + `advance_to`
on C21's queue model, `push_duplicate` / `peek` / `pop_duplicates`):
* `convBfs_count_exact` — after `advance_to(target)` the popped locations are *exactly* the locations
                          reachable from the heads through locations above the cut with
                          `max_cut ≥ target`, each popped once, in strictly descending
                          `(max_cut, segment)` order; the count returned for a popped location is its
                          full number of arrivals (occurrences among the heads + occurrences among the
                          parents of region locations above the cut — all of which have been popped
                          before it); an entry is recorded exactly for those above the cut with count ≥ 2;
* `convBfs_total`       — the BFS never takes an error branch and `allLocs.length + 1` iterations suffice.
* `initCounts_eq_arrivals` — after the complete BFS the recorded entries are *exactly* the convergence
                          map the mechanism model starts from: `(x, k)` is an entry iff
                          `Model.BraidMech.initCounts (graphOf s attr) region (max_cut ≤ cut) (id of x) =
                          some k` (a command above the cut with `k ≥ 2` children in the braided
                          region), for a duplicate-free antichain of heads.
* `bfs_level_reveals_initCounts`, `advanceSeq_reveals` — the same for the BFS as the code runs it, lazily:
                          after ANY sequence of `advance_to` calls (from `should_continue`, targets in any
                          order) the BFS is "advanced to" the least target `m`, and for every command with
                          `max_cut ≥ m` its entry is exactly its `initCounts` entry;
* `implBraidLazy_eq` (Proofs/BraidMechLazy) / `implBraid_lazy_eq_ref_built` — the mechanism model with the
                          BFS interleaved (`Model.BraidMechLazy`: the map starts EMPTY, `should_continue`
                          first advances the BFS to the location's max cut, the entries revealed are those
                          of the real BFS `revBfs`) returns what the model started from the completed BFS
                          returns, hence — on every built store, with the computed LCA — the reference
                          braid.  No completed-BFS hypothesis and no LCA hypothesis are left.
(The block store receiving the entries is `Model.ConvMap`, Props/C02.)  Together: real LCA walk →
dominator; real BFS → the model's counts; block store → abstract map; count-down mechanism → reference
braid.
-/
namespace AranyaV.Segments
open AranyaV.Queue (Loc)
open AranyaV.Spec (Graph Reach)

/-- **`lca_dominates`.** -/
theorem lca_dominates {s : Store} (hwf : WF s) (hmd : MergesDom s) {l r c : Loc} {n : Nat}
    (hl : s.valid l = true) (hr : s.valid r = true) (h : lcaPair s n l r = .ok c) :
    s.valid c = true ∧ AncS s c l ∧ AncS s c r ∧
    (∀ x, (AncS s x l ∨ AncS s x r) → x.mc ≤ c.mc → AncS s x c) ∧
    (∀ x, (AncS s x l ∨ AncS s x r) → c.mc < x.mc → AncS s c x) := by
  obtain ⟨h1, h2⟩ := lcaPair_spines hwf hmd n l r c (spine_refl hwf.priors hl) (spine_refl hwf.priors hr) h
  have hd := dom2_of_spines h1 h2
  exact ⟨hd.1.1, hd.1.2.1, hd.1.2.2.1, hd.1.2.2.2, hd.2⟩

theorem lca_dom2 {s : Store} (hwf : WF s) (hmd : MergesDom s) {l r c : Loc} {n : Nat}
    (hl : s.valid l = true) (hr : s.valid r = true) (h : lcaPair s n l r = .ok c) : Dom2 s c l r := by
  obtain ⟨h1, h2⟩ := lcaPair_spines hwf hmd n l r c (spine_refl hwf.priors hl) (spine_refl hwf.priors hr) h
  exact dom2_of_spines h1 h2

/-- the result satisfies the hypothesis `Dom` of C11's `skip_sound` / `write_total` -/
theorem lca_is_c11_dom {s : Store} (hwf : WF s) (hmd : MergesDom s) {l r c : Loc} {n : Nat}
    (hl : s.valid l = true) (hr : s.valid r = true) (h : lcaPair s n l r = .ok c) : Dom s c l r :=
  (lca_dom2 hwf hmd hl hr h).1

/-- **`lca_dominates_nway`.** -/
theorem lca_dominates_nway {s : Store} (hwf : WF s) (hmd : MergesDom s) {hs : List Loc} {c : Loc}
    (hv : ∀ h ∈ hs, s.valid h = true) (h : lastCommonAncestor s hs = .ok c) :
    s.valid c = true ∧ (∀ h ∈ hs, AncS s c h) ∧
    (∀ x, (∃ h ∈ hs, AncS s x h) → x.mc ≤ c.mc → AncS s x c) ∧
    (∀ x, (∃ h ∈ hs, AncS s x h) → c.mc < x.mc → AncS s c x) := by
  obtain ⟨hcv, hsp⟩ := lastCommonAncestor_spines hwf hmd hv h
  refine ⟨hcv, fun h hh => (hsp h hh).2.1, ?_, ?_⟩
  · rintro x ⟨h, hh, hx⟩ hm; exact (hsp h hh).2.2.1 x hx hm
  · rintro x ⟨h, hh, hx⟩ hm; exact (hsp h hh).2.2.2 x hx hm

/-- **`lca_total`.** -/
theorem lca_total {s : Store} (hwf : WF s) (hmd : MergesDom s) (h1r : OneRoot s) :
    (∀ l r, s.valid l = true → s.valid r = true → ∃ c, lcaPair s (lcaFuel l r) l r = .ok c) ∧
    (∀ hs, hs ≠ [] → (∀ h ∈ hs, s.valid h = true) → ∃ c, lastCommonAncestor s hs = .ok c) := by
  constructor
  · intro l r hl hr
    exact lcaPair_total hwf hmd h1r _ l r (spine_refl hwf.priors hl) (spine_refl hwf.priors hr)
      (by simp [lcaFuel])
  · intro hs hne hv
    cases hs with
    | nil => exact absurd rfl hne
    | cons a rest =>
      exact lca_fold_total hwf hmd h1r rest a (hv a (by simp)) (fun y hy => hv y (by simp [hy]))

/-! ## `MergesDom` is an invariant of writing segments -/

theorem dom2_append {s : Store} (hp : PriorsOK s) {g' : Seg} (hf : s.seg? g'.idx = none) {c l r : Loc}
    (hl : s.valid l = true) (hr : s.valid r = true) (h : Dom2 s c l r) :
    Dom2 (Store.mk (s.segs ++ [g'])) c l r := by
  have conv : ∀ x, (AncS (Store.mk (s.segs ++ [g'])) x l ∨ AncS (Store.mk (s.segs ++ [g'])) x r) →
      (AncS s x l ∨ AncS s x r) := by
    rintro x (hx | hx)
    · exact Or.inl (ancS_of_append hp hf hx hl)
    · exact Or.inr (ancS_of_append hp hf hx hr)
  refine ⟨⟨valid_append h.1.1, ancS_append h.1.2.1, ancS_append h.1.2.2.1, ?_⟩, ?_⟩
  · intro x hx hm; exact ancS_append (h.1.2.2.2 x (conv x hx) hm)
  · intro x hx hm; exact ancS_append (h.2 x (conv x hx) hm)

/-- **`mergesDom_write`.** -/
theorem mergesDom_write {s : Store} (hwf : WF s) (hmd : MergesDom s) (idx first : Nat) (ids : List Nat)
    (prior : Prior) (lca : Option Loc) (hfresh : s.seg? idx = none) (hids : ids ≠ [])
    (hprior : ∀ p ∈ prior.toList, s.valid p = true ∧ p.mc < first)
    (hlca : ∀ l r, prior = .merge l r → ∃ c, lca = some c ∧ Dom2 s c l r)
    {s' : Store} (hw : s.write idx first ids prior lca = .ok s') : WF s' ∧ MergesDom s' := by
  have hsound := skip_sound hwf idx first ids prior lca hfresh hids hprior
    (fun l r h => by obtain ⟨c, hc, hd⟩ := hlca l r h; exact ⟨c, hc, hd.1⟩) hw
  refine ⟨hsound.1, ?_⟩
  unfold Store.write at hw
  cases hb : buildSkipList s prior lca first with
  | error e => simp [hb] at hw
  | ok skips =>
    simp only [hb, Except.ok.injEq] at hw
    subst hw
    intro i g hg l r hpr
    by_cases hi : idx = i
    · subst hi
      rw [seg?_append_new (g' := { idx := idx, first := first, ids := ids, prior := prior, skips := skips }) hfresh] at hg
      cases hg
      simp only at hpr
      obtain ⟨c, hc, hd⟩ := hlca l r hpr
      subst hc; subst hpr
      have hlv := (hprior l (by simp [Prior.toList])).1
      have hrv := (hprior r (by simp [Prior.toList])).1
      exact ⟨c, build_last hwf l r c first hlv hrv hd.1.1 hb,
        dom2_append hwf.priors (g' := { idx := idx, first := first, ids := ids, prior := .merge l r, skips := skips })
          hfresh hlv hrv hd⟩
    · rw [seg?_append_ne (g' := { idx := idx, first := first, ids := ids, prior := prior, skips := skips }) hi] at hg
      obtain ⟨k, hk, hkd⟩ := hmd i g hg l r hpr
      have hlv := (hwf.priors i g hg l (by rw [hpr]; simp [Prior.toList])).1
      have hrv := (hwf.priors i g hg r (by rw [hpr]; simp [Prior.toList])).1
      exact ⟨k, hk, dom2_append hwf.priors
        (g' := { idx := idx, first := first, ids := ids, prior := prior, skips := skips }) hfresh hlv hrv hkd⟩

/-- what `add_merge` does: the recorded ancestor is `last_common_ancestor [left, right]` -/
theorem add_merge_keeps_invariants {s : Store} (hwf : WF s) (hmd : MergesDom s) (idx first : Nat)
    (ids : List Nat) (l r c : Loc) (hfresh : s.seg? idx = none) (hids : ids ≠ [])
    (hl : s.valid l = true ∧ l.mc < first) (hr : s.valid r = true ∧ r.mc < first)
    (hc : lastCommonAncestor s [l, r] = .ok c)
    {s' : Store} (hw : s.write idx first ids (.merge l r) (some c) = .ok s') : WF s' ∧ MergesDom s' := by
  have hd : Dom2 s c l r := by
    simp only [lastCommonAncestor, List.foldl_cons, List.foldl_nil, lcaStep] at hc
    exact lca_dom2 hwf hmd hl.1 hr.1 hc
  refine mergesDom_write hwf hmd idx first ids (.merge l r) (some c) hfresh hids ?_ ?_ hw
  · intro p hp; simp [Prior.toList] at hp; rcases hp with rfl | rfl <;> assumption
  · intro l' r' h; cases h; exact ⟨c, rfl, hd⟩

/-- stores built from an init segment by `write`s whose merges record `last_common_ancestor` -/
inductive Built : Store → Prop
  | init (idx : Nat) (ids : List Nat) : Built ⟨[{ idx, first := 0, ids, prior := .none, skips := [] }]⟩
  | single {s s' : Store} (idx first : Nat) (ids : List Nat) (p : Loc) : Built s → s.seg? idx = none →
      ids ≠ [] → s.valid p = true → p.mc < first → s.write idx first ids (.single p) none = .ok s' → Built s'
  | merge {s s' : Store} (idx first : Nat) (ids : List Nat) (l r c : Loc) : Built s → s.seg? idx = none →
      ids ≠ [] → s.valid l = true → l.mc < first → s.valid r = true → r.mc < first →
      lastCommonAncestor s [l, r] = .ok c → s.write idx first ids (.merge l r) (some c) = .ok s' → Built s'

/-- **`built_invariants`.** -/
theorem built_invariants {s : Store} (h : Built s) : WF s ∧ MergesDom s := by
  induction h with
  | init idx ids =>
    refine ⟨wf_init idx ids, ?_⟩
    intro i g hg l r hpr
    have := seg?_mem hg
    simp at this
    subst this
    simp at hpr
  | single idx first ids p _ hf hids hp hlt hw ih =>
    refine mergesDom_write ih.1 ih.2 idx first ids (.single p) none hf hids ?_ ?_ hw
    · intro q hq; simp [Prior.toList] at hq; subst hq; exact ⟨hp, hlt⟩
    · intro l r h; cases h
  | merge idx first ids l r c _ hf hids hl hll hr hrl hc hw ih =>
    exact add_merge_keeps_invariants ih.1 ih.2 idx first ids l r c hf hids ⟨hl, hll⟩ ⟨hr, hrl⟩ hc hw

/-! ## from the store to the mechanism theorems of Props/C03 -/

/-- the dominating-LCA hypothesis of the mechanism theorems, discharged -/
theorem mechHyp_of_spines {s : Store} {g : Graph} {φ : Loc → Nat} {ψ : Nat → Option Loc}
    (hg : Spec.WF g) (ha : Abs s g φ ψ) (hp : PriorsOK s) {hs : List Loc} {C : Loc}
    (h2 : 2 ≤ hs.length) (hv : ∀ h ∈ hs, s.valid h = true) (hC : s.valid C = true)
    (hsp : ∀ h ∈ hs, Spine s h C) :
    AranyaV.Braid.MechHyp g (hs.map φ) (φ C) (belowOf ψ C) (sameSegOf ψ) := by
  -- members of the region are named locations below some head
  have hregion : ∀ x, x ∈ Spec.ancSelfAll g (hs.map φ) → ∃ a h, h ∈ hs ∧ s.valid a = true ∧ x = φ a ∧ AncS s a h := by
    intro x hx
    rw [Spec.mem_ancSelfAll hg] at hx
    obtain ⟨b, hb, hr⟩ := hx
    rw [List.mem_map] at hb
    obtain ⟨h, hh, rfl⟩ := hb
    obtain ⟨a, hav, rfl⟩ := ha.down x h (hv h hh) hr
    exact ⟨a, h, hh, hav, rfl, (ha.reach a h hav (hv h hh)).mp hr⟩
  refine ⟨by simpa using h2, ?_, ?_, ?_, ?_⟩
  · intro h' hh'
    rw [List.mem_map] at hh'
    obtain ⟨h, hh, rfl⟩ := hh'
    exact (ha.reach C h hC (hv h hh)).mpr (hsp h hh).2.1
  · intro x hx
    obtain ⟨a, h, hh, hav, rfl, hah⟩ := hregion x hx
    by_cases hm : a.mc ≤ C.mc
    · exact Or.inl ((ha.reach a C hav hC).mpr ((hsp h hh).2.2.1 a hah hm))
    · exact Or.inr ((ha.reach C a hC hav).mpr ((hsp h hh).2.2.2 a hah (by omega)))
  · intro x hx hb
    obtain ⟨a, h, hh, hav, rfl, hah⟩ := hregion x hx
    simp only [belowOf, ha.dec a hav, decide_eq_true_eq] at hb
    exact (ha.reach a C hav hC).mpr ((hsp h hh).2.2.1 a hah hb)
  · intro p o h
    unfold sameSegOf at h
    cases hpp : ψ p with
    | none => rw [hpp] at h; simp at h
    | some a =>
      cases hoo : ψ o with
      | none => rw [hpp, hoo] at h; simp at h
      | some b =>
        rw [hpp, hoo] at h
        simp only [Bool.and_eq_true, decide_eq_true_eq] at h
        obtain ⟨rfl, hav⟩ := ha.decv p a hpp
        obtain ⟨rfl, hbv⟩ := ha.decv o b hoo
        exact (ha.reach a b hav hbv).mpr (chain_loc hav hbv h.1 h.2)


/-- **`implBraid_eq_ref_store`.** The mechanism with the cut-off at the location computed by
`last_common_ancestor` and with the real same-segment test computes the reference braid. -/
theorem implBraid_eq_ref_store {s : Store} {g : Graph} {φ : Loc → Nat} {ψ : Nat → Option Loc}
    (hg : Spec.WF g) (ha : Abs s g φ ψ) (hwf : WF s) (hmd : MergesDom s) {hs : List Loc} {C : Loc}
    (h2 : 2 ≤ hs.length) (hv : ∀ h ∈ hs, s.valid h = true) (hh : Spec.Heads g (hs.map φ))
    (hC : lastCommonAncestor s hs = .ok C) :
    AranyaV.Braid.implBraid g (hs.map φ) (belowOf ψ C) (sameSegOf ψ) =
      AranyaV.Braid.liftRes (Spec.refBraid g (hs.map φ)) := by
  obtain ⟨hcv, hsp⟩ := lastCommonAncestor_spines hwf hmd hv hC
  exact AranyaV.Braid.implBraid_eq_ref hg hh (mechHyp_of_spines hg ha hwf.priors h2 hv hcv hsp)

/-- **`implBraid_eq_ref_built`.** No hypothesis on the LCA: on every store built by writes, for the
command graph `graphOf s attr` of the store (any priorities), any antichain of at least two valid
heads and the location `C` that `last_common_ancestor` computes, the mechanism — cut-off
`max_cut ≤ C.max_cut`, same-segment shortcut, convergence count-down, `lone` — returns the start
and evaluation order of the reference braid, and fails exactly when it fails. -/
theorem implBraid_eq_ref_built {s : Store} (hb : Built s) (hmd : MergeDistinct s)
    (attr : Loc → AranyaV.Gen.Priority) {hs : List Loc} {C : Loc}
    (h2 : 2 ≤ hs.length) (hnd : hs.Nodup) (hv : ∀ h ∈ hs, s.valid h = true)
    (hanti : ∀ a ∈ hs, ∀ b ∈ hs, a ≠ b → ¬ AncS s a b)
    (hC : lastCommonAncestor s hs = .ok C) :
    AranyaV.Braid.implBraid (graphOf s attr) (hs.map (locId s)) (belowOf (idLoc s) C) (sameSegOf (idLoc s)) =
      AranyaV.Braid.liftRes (Spec.refBraid (graphOf s attr) (hs.map (locId s))) := by
  obtain ⟨hwf, hmdom⟩ := built_invariants hb
  have hne : hs ≠ [] := by intro e; rw [e] at h2; simp at h2
  exact implBraid_eq_ref_store (graphOf_wf hwf.priors hmd attr) (abs_graphOf hwf.priors attr) hwf hmdom h2 hv
    (heads_graphOf hwf.priors hmd attr hne hnd hv hanti) hC

/-! ## the BFS of the convergence map -/

/-- **`convBfs_count_exact`.** -/
theorem convBfs_count_exact {s : Store} (hwf : WF s) {cut target : Nat} {heads : List Loc}
    (hv : ∀ h ∈ heads, s.valid h = true) {n : Nat} {b : Bfs}
    (h : advanceTo s cut target n (Bfs.init heads) = .ok b) :
    b.popped.Pairwise (fun p p' => Lt p p') ∧
    (∀ z, z ∈ b.popped ↔ Reg s cut heads z ∧ target ≤ z.mc) ∧
    (∀ x k, (x, k) ∈ b.entries ↔
      x ∈ b.popped ∧ cut < x.mc ∧ k = arr s cut heads b.popped x ∧ 2 ≤ k) ∧
    (∀ x ∈ b.popped, ∀ y, Reg s cut heads y → cut < y.mc → x ∈ s.parents y → y ∈ b.popped) :=
  advanceTo_spec hwf.priors hv h

/-- **`convBfs_total`.** -/
theorem convBfs_total {s : Store} (hwf : WF s) (cut target : Nat) {heads : List Loc}
    (hv : ∀ h ∈ heads, s.valid h = true) :
    ∃ b, advanceTo s cut target (s.allLocs.length + 1) (Bfs.init heads) = .ok b :=
  advanceTo_total hwf.priors _ _ (init_J s cut heads hv) (by simp [Bfs.init])

/-- **`initCounts_eq_arrivals`.** The entries recorded by the complete BFS are the initial
convergence map of the mechanism model (`Model.BraidMech.initCounts`) for the store's command graph. -/
theorem initCounts_eq_arrivals {s : Store} (hwf : WF s) (hmd : MergeDistinct s)
    (attr : Loc → AranyaV.Gen.Priority) {hs : List Loc} (hnd : hs.Nodup)
    (hv : ∀ h ∈ hs, s.valid h = true) (hanti : ∀ a ∈ hs, ∀ b ∈ hs, a ≠ b → ¬ AncS s a b)
    (C : Loc) {n : Nat} {b : Bfs} (hrun : advanceTo s C.mc 0 n (Bfs.init hs) = .ok b)
    {x : Loc} (hx : s.valid x = true) (k : Nat) :
    AranyaV.Braid.initCounts (graphOf s attr) (Spec.ancSelfAll (graphOf s attr) (hs.map (locId s)))
        (belowOf (idLoc s) C) (locId s x) = some k ↔ (x, k) ∈ b.entries :=
  initCounts_eq_entries hwf hmd attr hnd hv hanti C hrun hx k

/-! ## the BFS as the code runs it: lazily, inside `should_continue` -/

/-- **`bfs_level_reveals_initCounts`.** A BFS advanced to level `m` (by whatever calls) holds, for
every command at or above `m`, exactly its entry of the completed convergence map. -/
theorem bfs_level_reveals_initCounts {s : Store} (hwf : WF s) (hmd : MergeDistinct s)
    (attr : Loc → AranyaV.Gen.Priority) {hs : List Loc} (hnd : hs.Nodup)
    (hv : ∀ h ∈ hs, s.valid h = true) (hanti : ∀ a ∈ hs, ∀ b ∈ hs, a ≠ b → ¬ AncS s a b)
    (C : Loc) {m : Nat} {b : Bfs} (hadv : Adv s C.mc hs m b)
    {x : Loc} (hx : s.valid x = true) (hxm : m ≤ x.mc) (k : Nat) :
    AranyaV.Braid.initCounts (graphOf s attr) (Spec.ancSelfAll (graphOf s attr) (hs.map (locId s)))
        (belowOf (idLoc s) C) (locId s x) = some k ↔ (x, k) ∈ b.entries :=
  initCounts_eq_entries_level hwf hmd attr hnd hv hanti C hadv hx hxm k

/-- **`advanceSeq_reveals`.** After a first call `advance_to(t)` and any further calls `ts` (in any
order) the BFS is advanced to the least target. -/
theorem advanceSeq_reveals {s : Store} (hwf : WF s) {cut : Nat} {heads : List Loc}
    (hv : ∀ h ∈ heads, s.valid h = true) {fuel : Nat} (t : Nat) (ts : List Nat) {b : Bfs}
    (h : advanceSeq s cut fuel (t :: ts) (Bfs.init heads) = .ok b) :
    Adv s cut heads (ts.foldl min t) b := by
  simp only [advanceSeq] at h
  cases h1 : advanceTo s cut t fuel (Bfs.init heads) with
  | error e => rw [h1] at h; cases h
  | ok b1 =>
    rw [h1] at h
    exact advanceSeq_adv hwf.priors ts t b1 b (advanceTo_init_adv hwf.priors hv h1) h

/-- the entry recorded for a location -/
def entryOf (es : List (Loc × Nat)) (x : Loc) : Option Nat := (es.find? (fun e => e.1 == x)).map (·.2)

theorem entryOf_eq_some {es : List (Loc × Nat)} {x : Loc} {k : Nat}
    (huniq : ∀ k k', (x, k) ∈ es → (x, k') ∈ es → k = k') : entryOf es x = some k ↔ (x, k) ∈ es := by
  unfold entryOf
  constructor
  · intro h
    cases hf : es.find? (fun e => e.1 == x) with
    | none => rw [hf] at h; cases h
    | some e =>
      rw [hf] at h
      simp only [Option.map_some, Option.some.injEq] at h
      have h1 := List.mem_of_find?_eq_some hf
      have h2 : e.1 = x := by simpa using List.find?_some hf
      obtain ⟨e1, e2⟩ := e
      simp only at h h2
      subst h; subst h2; exact h1
  · intro h
    cases hf : es.find? (fun e => e.1 == x) with
    | none =>
      have := List.find?_eq_none.mp hf (x, k) h
      simp at this
    | some e =>
      have h1 := List.mem_of_find?_eq_some hf
      have h2 : e.1 = x := by simpa using List.find?_some hf
      obtain ⟨e1, e2⟩ := e
      simp only at h2
      subst h2
      simp only [Option.map_some, Option.some.injEq]
      exact huniq e2 k h1 h

/-- max cut of a command id of `graphOf` -/
def mcOfId (s : Store) (i : Nat) : Nat :=
  match idLoc s i with
  | some x => x.mc
  | none => 0

/-- what the real BFS, advanced to `t`, holds for the command with id `i` -/
def revBfs (s : Store) (cut : Nat) (hs : List Loc) (t i : Nat) : Option Nat :=
  match advanceTo s cut t (s.allLocs.length + 1) (Bfs.init hs), idLoc s i with
  | .ok b, some x => entryOf b.entries x
  | _, _ => none

/-- the real BFS satisfies the hypothesis of `implBraidLazy_eq` -/
theorem revBfs_spec {s : Store} (hwf : WF s) (hmd : MergeDistinct s)
    (attr : Loc → AranyaV.Gen.Priority) {hs : List Loc} (hnd : hs.Nodup)
    (hv : ∀ h ∈ hs, s.valid h = true) (hanti : ∀ a ∈ hs, ∀ b ∈ hs, a ≠ b → ¬ AncS s a b) (C : Loc)
    (t q : Nat) (htq : t ≤ mcOfId s q) :
    revBfs s C.mc hs t q =
      AranyaV.Braid.initCounts (graphOf s attr) (Spec.ancSelfAll (graphOf s attr) (hs.map (locId s)))
        (belowOf (idLoc s) C) q := by
  have hp := hwf.priors
  obtain ⟨b, hb⟩ := convBfs_total hwf C.mc t hv
  have hadv := advanceTo_init_adv hp hv hb
  unfold revBfs
  rw [hb]
  cases hq : idLoc s q with
  | none =>
    -- not a command id: outside every region
    simp only
    symm
    unfold AranyaV.Braid.initCounts
    have hnot : (Spec.ancSelfAll (graphOf s attr) (hs.map (locId s))).contains q = false := by
      rw [Bool.eq_false_iff]
      intro hc
      have hm : q ∈ Spec.ancSelfAll (graphOf s attr) (hs.map (locId s)) := by simpa using hc
      rw [Spec.mem_ancSelfAll (graphOf_wf hp hmd attr)] at hm
      obtain ⟨j, hj, hr⟩ := hm
      rw [List.mem_map] at hj
      obtain ⟨h, hh, rfl⟩ := hj
      obtain ⟨a, hav, rfl⟩ := (abs_graphOf hp attr).down q h (hv h hh) hr
      rw [idLoc_locId hav] at hq; cases hq
    rw [hnot]
    simp
  | some x =>
    simp only
    obtain ⟨rfl, hxv⟩ := locId_of_idLoc hq
    have hxm : t ≤ x.mc := by simpa [mcOfId, hq] using htq
    obtain ⟨_, _, hent⟩ := adv_spec hp hadv
    have huniq : ∀ k k', (x, k) ∈ b.entries → (x, k') ∈ b.entries → k = k' := by
      intro k k' h1 h2
      rw [((hent x k).mp h1).2.2.1, ((hent x k').mp h2).2.2.1]
    cases hi : AranyaV.Braid.initCounts (graphOf s attr)
        (Spec.ancSelfAll (graphOf s attr) (hs.map (locId s))) (belowOf (idLoc s) C) (locId s x) with
    | some k =>
      exact (entryOf_eq_some huniq).mpr
        ((bfs_level_reveals_initCounts hwf hmd attr hnd hv hanti C hadv hxv hxm k).mp hi)
    | none =>
      cases he : entryOf b.entries x with
      | none => rfl
      | some k =>
        have := (bfs_level_reveals_initCounts hwf hmd attr hnd hv hanti C hadv hxv hxm k).mpr
          ((entryOf_eq_some huniq).mp he)
        rw [hi] at this; cases this

/-- **`implBraid_lazy_eq_ref_built`.** End to end: on every store built by writes, with the LCA the
code computes, the real cut-off and same-segment tests, and the convergence map filled **lazily by the
real BFS inside `should_continue`**, the mechanism returns the reference braid. -/
theorem implBraid_lazy_eq_ref_built {s : Store} (hb : Built s) (hmd : MergeDistinct s)
    (attr : Loc → AranyaV.Gen.Priority) {hs : List Loc} {C : Loc}
    (h2 : 2 ≤ hs.length) (hnd : hs.Nodup) (hv : ∀ h ∈ hs, s.valid h = true)
    (hanti : ∀ a ∈ hs, ∀ b ∈ hs, a ≠ b → ¬ AncS s a b)
    (hC : lastCommonAncestor s hs = .ok C) :
    AranyaV.Braid.implBraidLazy (graphOf s attr) (hs.map (locId s)) (belowOf (idLoc s) C) (sameSegOf (idLoc s))
        (revBfs s C.mc hs) (mcOfId s) =
      AranyaV.Braid.liftRes (Spec.refBraid (graphOf s attr) (hs.map (locId s))) := by
  obtain ⟨hwf, _⟩ := built_invariants hb
  rw [AranyaV.Braid.implBraidLazy_eq (hs.map (locId s)) _ _ (mcOfId s) (revBfs s C.mc hs)
    (revBfs_spec hwf hmd attr hnd hv hanti C)]
  exact implBraid_eq_ref_built hb hmd attr h2 hnd hv hanti hC

/-! ## non-vacuity: a store with a nested merge, built by `write`s

```
 seg 0: 0..2 (init)          seg 1: 3..4 on 0:2        seg 2: 3 on 0:2
 seg 3: 5 = merge(1:4, 2:3), recorded 0:2              seg 4: 4..5 on 2:3
 seg 5: 6 = merge(3:5, 4:5): the walk from 3:5 JUMPS over the merge to 0:2; the deepest common
        ancestor 2:3 is NOT returned (it does not dominate: 1:3, 1:4 are not its descendants) — 0:2 is
```
-/
def b0 : Store := ⟨[{ idx := 0, first := 0, ids := [10, 11, 12], prior := .none, skips := [] }]⟩
def b1 : Store := ⟨b0.segs ++ [{ idx := 1, first := 3, ids := [13, 14], prior := .single ⟨2, 0⟩, skips := [] }]⟩
def b2 : Store := ⟨b1.segs ++ [{ idx := 2, first := 3, ids := [15], prior := .single ⟨2, 0⟩, skips := [] }]⟩
def b3 : Store := ⟨b2.segs ++ [{ idx := 3, first := 5, ids := [16], prior := .merge ⟨4, 1⟩ ⟨3, 2⟩, skips := [⟨2, 0⟩] }]⟩
def b4 : Store := ⟨b3.segs ++ [{ idx := 4, first := 4, ids := [17, 18], prior := .single ⟨3, 2⟩, skips := [] }]⟩
def b5 : Store := ⟨b4.segs ++ [{ idx := 5, first := 6, ids := [19], prior := .merge ⟨5, 3⟩ ⟨5, 4⟩, skips := [⟨2, 0⟩] }]⟩

theorem b5_built : Built b5 := by
  have h0 : Built b0 := Built.init 0 [10, 11, 12]
  have h1 : Built b1 := Built.single 1 3 [13, 14] ⟨2, 0⟩ h0 (by decide) (by decide) (by decide) (by decide) (by rfl)
  have h2 : Built b2 := Built.single 2 3 [15] ⟨2, 0⟩ h1 (by decide) (by decide) (by decide) (by decide) (by rfl)
  have h3 : Built b3 := Built.merge 3 5 [16] ⟨4, 1⟩ ⟨3, 2⟩ ⟨2, 0⟩ h2 (by decide) (by decide) (by decide) (by decide)
    (by decide) (by decide) (by rfl) (by rfl)
  have h4 : Built b4 := Built.single 4 4 [17, 18] ⟨3, 2⟩ h3 (by decide) (by decide) (by decide) (by decide) (by rfl)
  exact Built.merge 5 6 [19] ⟨5, 3⟩ ⟨5, 4⟩ ⟨2, 0⟩ h4 (by decide) (by decide) (by decide) (by decide)
    (by decide) (by decide) (by rfl) (by rfl)

/-- the walk for the heads `5:6` (a merge of merges) and `1:4`… : the pair walk from the nested
merge jumps to its recorded ancestor; the hypotheses of `lca_dominates` hold on `b5` -/
example : WF b5 ∧ MergesDom b5 ∧ lcaPair b5 (lcaFuel ⟨6, 5⟩ ⟨4, 1⟩) ⟨6, 5⟩ ⟨4, 1⟩ = .ok ⟨2, 0⟩ ∧
    lastCommonAncestor b5 [⟨6, 5⟩, ⟨4, 1⟩, ⟨5, 4⟩] = .ok ⟨2, 0⟩ :=
  ⟨(built_invariants b5_built).1, (built_invariants b5_built).2, by rfl, by rfl⟩

/-! ### a spec-level abstraction of `b5`, and the mechanism theorem applied to it -/

open AranyaV.Spec (Cmd) in
/-- the command graph of `b5`: id of location `mc:seg` is `10 * mc + seg` -/
def g5 : Graph :=
  let c (i : Nat) (ps : List Nat) (p : AranyaV.Gen.Priority) : Cmd := { id := i, parents := ps, prio := p, body := [] }
  [c 0 [] .init, c 10 [0] (.basic 0), c 20 [10] (.basic 0),
   c 31 [20] (.basic 1), c 32 [20] (.basic 0), c 41 [31] (.basic 0), c 44 [32] (.basic 2),
   c 53 [41, 32] .merge, c 54 [44] (.basic 0), c 65 [53, 54] .merge]

def φ5 (l : Loc) : Nat := 10 * l.mc + l.seg
def ψ5 (i : Nat) : Option Loc := if b5.valid ⟨i / 10, i % 10⟩ = true then some ⟨i / 10, i % 10⟩ else none

theorem g5_wf : Spec.WF g5 := Spec.wfB_sound (by decide)
theorem b5_priors : PriorsOK b5 := (built_invariants b5_built).1.priors

theorem abs5 : Abs b5 g5 φ5 ψ5 where
  dec := by
    intro l hl
    have : ∀ l ∈ b5.allLocs, ψ5 (φ5 l) = some l := by decide
    exact this l (valid_mem_allLocs hl)
  decv := by
    intro i l h
    unfold ψ5 at h
    by_cases hv : b5.valid ⟨i / 10, i % 10⟩ = true
    · simp only [hv, if_true, Option.some.injEq] at h
      subst h
      exact ⟨by simp only [φ5]; omega, hv⟩
    · simp [hv] at h
  reach := by
    intro a b ha hb
    have key : ∀ a ∈ b5.allLocs, ∀ b ∈ b5.allLocs,
        (decide (φ5 a ∈ Spec.ancSelfAll g5 [φ5 b]) = ancSB b5 a b) := by decide
    have hk := key a (valid_mem_allLocs ha) b (valid_mem_allLocs hb)
    rw [← ancSB_iff b5_priors, ← hk, decide_eq_true_eq, Spec.mem_ancSelfAll g5_wf]
    simp
  down := by
    intro i b hb hr
    have key : ∀ b ∈ b5.allLocs, ∀ i ∈ Spec.ancSelfAll g5 [φ5 b],
        ∃ a ∈ b5.allLocs, b5.valid a = true ∧ i = φ5 a := by decide
    have hi : i ∈ Spec.ancSelfAll g5 [φ5 b] := by
      rw [Spec.mem_ancSelfAll g5_wf]; exact ⟨_, by simp, hr⟩
    obtain ⟨a, _, hav, hia⟩ := key b (valid_mem_allLocs hb) i hi
    exact ⟨a, hav, hia⟩

/-- heads `3:5` (the inner merge) and `4:5`: `last_common_ancestor` answers `0:2` (not the deepest
common ancestor `2:3`), the cut-off is `max_cut ≤ 2`, and the mechanism computes the reference braid -/
example : lastCommonAncestor b5 [⟨5, 3⟩, ⟨5, 4⟩] = .ok ⟨2, 0⟩ ∧
    AranyaV.Braid.implBraid g5 [53, 54] (belowOf ψ5 ⟨2, 0⟩) (sameSegOf ψ5) =
      AranyaV.Braid.liftRes (Spec.refBraid g5 [53, 54]) ∧
    Spec.refBraid g5 [53, 54] = .ok (44, [31, 54, 41]) := by
  refine ⟨by rfl, ?_, by rfl⟩
  exact implBraid_eq_ref_store (hs := [⟨5, 3⟩, ⟨5, 4⟩]) g5_wf abs5 (built_invariants b5_built).1
    (built_invariants b5_built).2 (by decide) (by decide)
    ⟨by decide, by decide, by decide, by unfold Spec.Antichain; decide⟩ (by rfl)

/-- the BFS on `b5` for the heads `3:5`, `4:5` with the cut at `0:2` (max cut 2): the only
convergence point above the cut is `2:3` (two arrivals: from `3:5` directly and from `4:4`) -/
example : (advanceTo b5 2 0 (b5.allLocs.length + 1) (Bfs.init [⟨5, 3⟩, ⟨5, 4⟩])).toOption.map
      (fun b => (b.entries, b.popped.reverse)) =
    some ([(⟨3, 2⟩, 2)], [⟨5, 4⟩, ⟨5, 3⟩, ⟨4, 4⟩, ⟨4, 1⟩, ⟨3, 2⟩, ⟨3, 1⟩, ⟨2, 0⟩]) := by rfl

def mdCheck (s : Store) : Bool :=
  s.segs.all (fun g => match g.prior with
    | .merge l r => decide (l ≠ r)
    | _ => true)

theorem mergeDistinct_of_check {s : Store} (h : mdCheck s = true) : MergeDistinct s := by
  intro i g hg l r hpr
  unfold mdCheck at h
  rw [List.all_eq_true] at h
  have := h g (seg?_mem hg)
  rw [hpr] at this
  simpa using this

/-- `implBraid_eq_ref_built` applies to `b5` with the generic abstraction `graphOf` (every command
`Basic 0`, merges `Merge`), heads `3:5`, `4:5` -/
example : ∃ C, lastCommonAncestor b5 [⟨5, 3⟩, ⟨5, 4⟩] = .ok C ∧
    AranyaV.Braid.implBraid (graphOf b5 (fun _ => .basic 0)) ([⟨5, 3⟩, ⟨5, 4⟩].map (locId b5))
      (belowOf (idLoc b5) C) (sameSegOf (idLoc b5)) =
    AranyaV.Braid.liftRes (Spec.refBraid (graphOf b5 (fun _ => .basic 0)) ([⟨5, 3⟩, ⟨5, 4⟩].map (locId b5))) := by
  refine ⟨⟨2, 0⟩, by rfl, ?_⟩
  refine implBraid_eq_ref_built b5_built (mergeDistinct_of_check (by decide)) _ (by decide) (by decide)
    (by decide) ?_ (by rfl)
  intro a ha b hb hab
  rw [← ancSB_iff b5_priors]
  revert a b
  decide

/-- the lazy-BFS theorem applies to `b5` as well: nothing is assumed about the LCA or the BFS -/
example : AranyaV.Braid.implBraidLazy (graphOf b5 (fun _ => .basic 0)) ([⟨5, 3⟩, ⟨5, 4⟩].map (locId b5))
      (belowOf (idLoc b5) ⟨2, 0⟩) (sameSegOf (idLoc b5)) (revBfs b5 2 [⟨5, 3⟩, ⟨5, 4⟩]) (mcOfId b5) =
    AranyaV.Braid.liftRes (Spec.refBraid (graphOf b5 (fun _ => .basic 0)) ([⟨5, 3⟩, ⟨5, 4⟩].map (locId b5))) := by
  refine implBraid_lazy_eq_ref_built (C := ⟨2, 0⟩) b5_built (mergeDistinct_of_check (by decide)) _ (by decide)
    (by decide) (by decide) ?_ (by rfl)
  intro a ha b hb hab
  rw [← ancSB_iff b5_priors]
  revert a b
  decide

end AranyaV.Segments
