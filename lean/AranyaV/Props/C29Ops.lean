import AranyaV.Props.C29
/-!
# C29, part B — VM fact instructions and compiled query forms vs the model fact store

`S : SStore` is the model fact store of the property: typed facts in typed key order.
`enc S` is what the runtime's storage holds for it: serialized key components (in byte order, by
`enc_sorted`), on which the *code* operates (`opQuery`, `opCount`, `opMap`, `opCreate`, …:
`ser_keys` → prefix scan → `deser_keys` → `fact_match`).  Every theorem says: running the code on
`enc S` gives what the model gives on `S`.
-/
namespace AranyaV.FactOps
open AranyaV.FactKey

/-- two key tuples of the same fact schema: same length, same identifiers, same value types -/
def keysLike : List Key → List Key → Bool
  | [], [] => true
  | a :: as, b :: bs => a.ident == b.ident && a.val.sameType b.val && keysLike as bs
  | _, _ => false

/-- a well-formed model store: every key is a value the real types can hold, and all facts have
the key shape of one schema -/
structure WF (S : SStore) : Prop where
  valid : ∀ f ∈ S, ∀ k ∈ f.keys, k.Valid
  like : ∀ f ∈ S, ∀ g ∈ S, keysLike f.keys g.keys = true

def Sorted (S : SStore) : Prop := S.Pairwise fun f g => keysLt f.keys g.keys = true
def MSorted (M : MStore) : Prop := M.Pairwise fun e e' => compsLt e.1 e'.1 = true

/-! ## the byte order of stored keys is the typed key order -/

theorem serKeys_inj : ∀ {a b : List Key}, (∀ k ∈ a, k.Valid) → (∀ k ∈ b, k.Valid) →
    serKeys a = serKeys b → a = b
  | [], [], _, _, _ => rfl
  | [], _ :: _, _, _, h => by simp [serKeys] at h
  | _ :: _, [], _, _, h => by simp [serKeys] at h
  | x :: xs, y :: ys, ha, hb, h => by
    simp only [serKeys, List.map_cons, List.cons.injEq] at h
    have h1 := serKey_inj (ha x (by simp)) (hb y (by simp)) h.1
    have h2 := serKeys_inj (fun k hk => ha k (by simp [hk])) (fun k hk => hb k (by simp [hk])) h.2
    rw [h1, h2]

/-- **key order**: for two key tuples of the same schema, typed lexicographic order =
component-wise byte order of their serializations (what the storage's `BTreeMap<Keys, _>` uses) -/
theorem keysLt_eq_compsLt : ∀ {a b : List Key}, (∀ k ∈ a, k.Valid) → (∀ k ∈ b, k.Valid) →
    keysLike a b = true → keysLt a b = compsLt (serKeys a) (serKeys b)
  | [], [], _, _, _ => rfl
  | [], _ :: _, _, _, h => by simp [keysLike] at h
  | _ :: _, [], _, _, h => by simp [keysLike] at h
  | x :: xs, y :: ys, ha, hb, h => by
    simp only [keysLike, Bool.and_eq_true, beq_iff_eq] at h
    obtain ⟨⟨hid, hty⟩, hrest⟩ := h
    have ih := keysLt_eq_compsLt (fun k hk => ha k (by simp [hk])) (fun k hk => hb k (by simp [hk])) hrest
    have hx := ha x (by simp)
    have hy := hb y (by simp)
    simp only [keysLt, serKeys, List.map_cons, compsLt]
    have hm : x.val.lt y.val = blt (serKey x) (serKey y) := by
      have := serKey_mono x.ident hx.2.2 hy.2.2 hty
      obtain ⟨xi, xv⟩ := x
      obtain ⟨yi, yv⟩ := y
      simp only at hid this ⊢
      subst hid
      exact this
    have he : (x == y) = (serKey x == serKey y) := by
      rw [Bool.eq_iff_iff]; simp only [beq_iff_eq]
      exact ⟨fun h => by rw [h], serKey_inj hx hy⟩
    rw [hm, he]
    simp only [serKeys] at ih
    rw [ih]

theorem enc_mem {S : SStore} {e : MEntry} (h : e ∈ enc S) : ∃ f ∈ S, e = (serKeys f.keys, f.vals) := by
  simp only [enc, List.mem_map] at h
  obtain ⟨f, hf, rfl⟩ := h
  exact ⟨f, hf, rfl⟩

/-- the encoding of a typed-sorted store is byte-sorted, i.e. it is what the `BTreeMap` holds and
iterates in this order — and conversely -/
theorem enc_sorted {S : SStore} (wf : WF S) : Sorted S ↔ MSorted (enc S) := by
  unfold Sorted MSorted enc
  rw [List.pairwise_map]
  constructor <;> intro h
  · exact h.imp_of_mem fun {f g} hf hg hlt => by
      rw [← keysLt_eq_compsLt (wf.valid f hf) (wf.valid g hg) (wf.like f hf g hg)]; exact hlt
  · exact h.imp_of_mem fun {f g} hf hg hlt => by
      rw [keysLt_eq_compsLt (wf.valid f hf) (wf.valid g hg) (wf.like f hf g hg)]; exact hlt

/-! ## what the cursor yields -/

theorem deserKeys_serKeys : ∀ (ks : List Key), (∀ k ∈ ks, k.Valid) → deserKeys (serKeys ks) = .ok ks
  | [], _ => rfl
  | k :: ks, h => by
    have ih := deserKeys_serKeys ks (fun x hx => h x (by simp [hx]))
    simp only [serKeys, List.map_cons, deserKeys, deser_ser k (h k (by simp))]
    simp only [serKeys] at ih
    rw [ih]

/-- `VmPolicyIO::fact_query` on `enc S`: exactly the facts whose leading key fields equal the
query keys, in store order, and no deserialization error -/
theorem factQuery_enc {S : SStore} (wf : WF S) (qk : List Key) (hq : ∀ k ∈ qk, k.Valid) :
    factQuery qk (enc S) = (S.filter fun f => keysPrefix qk f.keys).map .ok := by
  unfold factQuery mQueryPrefix enc
  rw [List.filter_map, List.map_map]
  have hfilt : S.filter ((fun e : MEntry => compsPrefix (serKeys qk) e.1) ∘ fun f => (serKeys f.keys, f.vals))
      = S.filter fun f => keysPrefix qk f.keys := by
    apply List.filter_congr
    intro f hf
    simp only [Function.comp]
    exact prefix_iff qk f.keys hq (wf.valid f hf)
  rw [hfilt]
  apply List.map_congr_left
  intro f hf
  have hf' : f ∈ S := (List.mem_filter.mp hf).1
  simp only [Function.comp, deserKeys_serKeys f.keys (wf.valid f hf')]

theorem factMatch_prefix (q : Query) (f : Fact) (h : factMatch q f = true) :
    keysPrefix q.keys f.keys = true := by
  unfold factMatch at h; simp only [Bool.and_eq_true] at h; exact h.1

/-! ## `query`, `count_up_to`, `map` -/

/-- **query**: the first fact, in key order, whose leading key fields equal the given keys and
whose given value fields are equal -/
theorem query_spec {S : SStore} (wf : WF S) (q : Query) (hq : ∀ k ∈ q.keys, k.Valid) :
    opQuery q (enc S) = .ok (sQuery q S) := by
  unfold opQuery sQuery sMatch
  rw [factQuery_enc wf q.keys hq, findFirst_ok, find?_filter_imp _ _ (factMatch_prefix q)]

/-- **map**: visits exactly the matching facts, in key order -/
theorem map_spec {S : SStore} (wf : WF S) (q : Query) (hq : ∀ k ∈ q.keys, k.Valid) :
    opMap q (enc S) = .ok (sMatches q S) := by
  unfold opMap sMatches sMatch
  rw [factQuery_enc wf q.keys hq, mapLoop_ok, filter_filter_imp _ _ (factMatch_prefix q)]

/-- **nested map**: the outer map visits every match in key order, and for each of them the inner
map visits every match of the (possibly outer-dependent) inner literal, in key order -/
theorem map_nested_spec {So Si : SStore} (wfo : WF So) (wfi : WF Si) (qo : Query) (qi : Fact → Query)
    (hqo : ∀ k ∈ qo.keys, k.Valid) (hqi : ∀ f, ∀ k ∈ (qi f).keys, k.Valid) :
    opMapNested qo qi (enc So) (enc Si) =
      .ok ((sMatches qo So).flatMap fun f => (0, f) :: (sMatches (qi f) Si).map fun g => (1, g)) := by
  unfold opMapNested
  rw [map_spec wfo qo hqo]
  simp only
  generalize sMatches qo So = fs
  induction fs with
  | nil => rfl
  | cons f rest ih =>
    simp only [nestLoop, map_spec wfi (qi f) (hqi f), ih, List.flatMap_cons, List.cons_append]

/-- **count_up_to** (`FactCount limit`): `min limit #matches` -/
theorem count_spec {S : SStore} (wf : WF S) (q : Query) (hq : ∀ k ∈ q.keys, k.Valid)
    (limit : Int) (hl : 0 ≤ limit) :
    opCount limit q (enc S) = .ok (sCount limit q S) := by
  unfold opCount sCount sMatches sMatch
  rw [factQuery_enc wf q.keys hq, countLoop_ok q limit _ 0 hl,
    filter_filter_imp _ _ (factMatch_prefix q)]
  simp

/-- what a `query` returns is a stored fact that matches, and nothing matching precedes it -/
theorem query_first {S : SStore} (q : Query) {f : Fact} (h : sQuery q S = some f) :
    f ∈ S ∧ sMatch q f = true ∧ ∃ pre post, S = pre ++ f :: post ∧ ∀ g ∈ pre, sMatch q g = false := by
  unfold sQuery at h
  refine ⟨List.mem_of_find?_eq_some h, List.find?_some h, ?_⟩
  obtain ⟨hp, pre, post, hS, hpre⟩ := List.find?_eq_some_iff_append.mp h
  exact ⟨pre, post, hS, fun g hg => by simpa using hpre g hg⟩

theorem query_none {S : SStore} (q : Query) : sQuery q S = none ↔ ∀ f ∈ S, sMatch q f = false := by
  unfold sQuery; simp [List.find?_eq_none]

/-! ## the compiled forms `exists`, `count_up_to`, `at_least`, `at_most`, `exactly` -/

theorem exists_spec {S : SStore} (wf : WF S) (q : Query) (hq : ∀ k ∈ q.keys, k.Valid) :
    crun q (enc S) compileExists [] = .ok [.bool (decide (0 < (sMatches q S).length))] := by
  simp only [compileExists, crun, cstep, query_spec wf q hq]
  congr 3
  unfold sQuery sMatches
  cases h : S.find? (sMatch q) with
  | none =>
    have : S.filter (sMatch q) = [] := by
      rw [List.filter_eq_nil_iff]; intro f hf
      have := List.find?_eq_none.mp h f hf; simpa using this
    simp [this]
  | some f =>
    have hm := List.mem_of_find?_eq_some h
    have hp := List.find?_some h
    have : f ∈ S.filter (sMatch q) := List.mem_filter.mpr ⟨hm, hp⟩
    have : 0 < (S.filter (sMatch q)).length := List.length_pos_of_mem this
    simp [this]

theorem count_up_to_spec {S : SStore} (wf : WF S) (q : Query) (hq : ∀ k ∈ q.keys, k.Valid)
    (n : Int) (hn : 0 < n) :
    ∃ prog, compileCounting .upTo n = .ok prog ∧
      crun q (enc S) prog [] = .ok [.int (min n (sMatches q S).length)] := by
  refine ⟨[.factCount n], by simp [compileCounting]; omega, ?_⟩
  simp [crun, cstep, count_spec wf q hq n (by omega), sCount]

/-- **at_least n**: true iff at least `n` facts match -/
theorem at_least_spec {S : SStore} (wf : WF S) (q : Query) (hq : ∀ k ∈ q.keys, k.Valid)
    (n : Int) (hn : 0 < n) :
    ∃ prog, compileCounting .atLeast n = .ok prog ∧
      crun q (enc S) prog [] = .ok [.bool (decide (n ≤ (sMatches q S).length))] := by
  refine ⟨[.factCount n, .constInt n, .lt, .not], by simp [compileCounting]; omega, ?_⟩
  simp only [crun, cstep, count_spec wf q hq n (by omega), sCount]
  congr 3
  rw [Bool.eq_iff_iff]; simp only [Bool.not_eq_true', decide_eq_false_iff_not, decide_eq_true_eq]
  omega

/-- **at_most n**: true iff at most `n` facts match (`FactCount (n+1)` then `> n`, negated) -/
theorem at_most_spec {S : SStore} (wf : WF S) (q : Query) (hq : ∀ k ∈ q.keys, k.Valid)
    (n : Int) (hn : 0 < n) (hmax : isI64 (n + 1)) :
    ∃ prog, compileCounting .atMost n = .ok prog ∧
      crun q (enc S) prog [] = .ok [.bool (decide ((sMatches q S).length ≤ n))] := by
  refine ⟨[.factCount (n + 1), .constInt n, .gt, .not], ?_, ?_⟩
  · have : ¬ n ≤ 0 := by omega
    simp [compileCounting, this, hmax]
  simp only [crun, cstep, count_spec wf q hq (n + 1) (by omega), sCount]
  congr 3
  rw [Bool.eq_iff_iff]; simp only [Bool.not_eq_true', decide_eq_false_iff_not, decide_eq_true_eq]
  omega

/-- **exactly n**: true iff exactly `n` facts match -/
theorem exactly_spec {S : SStore} (wf : WF S) (q : Query) (hq : ∀ k ∈ q.keys, k.Valid)
    (n : Int) (hn : 0 < n) (hmax : isI64 (n + 1)) :
    ∃ prog, compileCounting .exactly n = .ok prog ∧
      crun q (enc S) prog [] = .ok [.bool (decide ((sMatches q S).length = n))] := by
  refine ⟨[.factCount (n + 1), .constInt n, .eq], ?_, ?_⟩
  · have : ¬ n ≤ 0 := by omega
    simp [compileCounting, this, hmax]
  simp only [crun, cstep, count_spec wf q hq (n + 1) (by omega), sCount]
  congr 3
  rw [Bool.eq_iff_iff]; simp only [decide_eq_true_eq, SVal.int.injEq]
  omega

/-- the compiler refuses non-positive limits and `i64::MAX` for the `+1` forms, instead of
emitting code with a different meaning -/
theorem counting_rejects (kind : CountKind) (n : Int) (h : n ≤ 0) :
    compileCounting kind n = .error .badLimit := by simp [compileCounting, h]

/-! ## `create`, `delete`, `update` -/

/-- `f` has the key shape of the store's schema -/
structure Fits (keys : List Key) (S : SStore) : Prop where
  valid : ∀ k ∈ keys, k.Valid
  like : ∀ g ∈ S, keysLike keys g.keys = true

theorem sameType_refl (v : HVal) : v.sameType v = true := by cases v <;> rfl
theorem sameType_symm {v w : HVal} (h : v.sameType w = true) : w.sameType v = true := by
  cases v <;> cases w <;> simp_all [HVal.sameType]

theorem keysLike_refl : ∀ (k : List Key), keysLike k k = true
  | [] => rfl
  | a :: as => by simp [keysLike, sameType_refl, keysLike_refl as]

theorem keysLike_symm : ∀ {a b : List Key}, keysLike a b = true → keysLike b a = true
  | [], [], _ => rfl
  | [], _ :: _, h => by simp [keysLike] at h
  | _ :: _, [], h => by simp [keysLike] at h
  | x :: xs, y :: ys, h => by
    simp only [keysLike, Bool.and_eq_true, beq_iff_eq] at *
    exact ⟨⟨h.1.1.symm, sameType_symm h.1.2⟩, keysLike_symm h.2⟩

theorem keysLike_length : ∀ {a b : List Key}, keysLike a b = true → a.length = b.length
  | [], [], _ => rfl
  | [], _ :: _, h => by simp [keysLike] at h
  | _ :: _, [], h => by simp [keysLike] at h
  | x :: xs, y :: ys, h => by
    simp only [keysLike, Bool.and_eq_true] at h
    simp [keysLike_length h.2]

/-- **create**: `fact_insert` on the stored bytes is the ordered upsert of the model -/
theorem create_spec {S : SStore} (wf : WF S) (f : Fact) (fit : Fits f.keys S) :
    opCreate f (enc S) = enc (sInsert f S) := by
  unfold opCreate
  induction S with
  | nil => rfl
  | cons g rest ih =>
    have wf' : WF rest := ⟨fun x hx => wf.valid x (by simp [hx]),
      fun x hx y hy => wf.like x (by simp [hx]) y (by simp [hy])⟩
    have fit' : Fits f.keys rest := ⟨fit.valid, fun x hx => fit.like x (by simp [hx])⟩
    have hlt := keysLt_eq_compsLt fit.valid (wf.valid g (by simp)) (fit.like g (by simp))
    have heq : (serKeys f.keys = serKeys g.keys) ↔ f.keys = g.keys :=
      ⟨serKeys_inj fit.valid (wf.valid g (by simp)), fun h => by rw [h]⟩
    show mInsert (serKeys f.keys) f.vals ((serKeys g.keys, g.vals) :: enc rest) = enc (sInsert f (g :: rest))
    simp only [mInsert, sInsert, ← hlt]
    by_cases h1 : keysLt f.keys g.keys = true
    · simp only [h1, if_true]; rfl
    · have h1' : keysLt f.keys g.keys = false := by simpa using h1
      simp only [h1', Bool.false_eq_true, if_false]
      by_cases h2 : f.keys = g.keys
      · simp only [h2, if_true]
        show (serKeys g.keys, f.vals) :: enc rest = (serKeys f.keys, f.vals) :: enc rest
        rw [h2]
      · have h2' : ¬ serKeys f.keys = serKeys g.keys := fun h => h2 (heq.mp h)
        simp only [h2, h2', if_false]
        show (serKeys g.keys, g.vals) :: mInsert (serKeys f.keys) f.vals (enc rest)
          = (serKeys g.keys, g.vals) :: enc (sInsert f rest)
        rw [ih wf' fit']

/-- **delete**: `fact_delete` on the stored bytes removes the model's fact with these keys -/
theorem delete_spec {S : SStore} (wf : WF S) (ks : List Key) (hk : ∀ k ∈ ks, k.Valid) :
    opDelete ks (enc S) = enc (sDelete ks S) := by
  unfold opDelete
  induction S with
  | nil => rfl
  | cons g rest ih =>
    have wf' : WF rest := ⟨fun x hx => wf.valid x (by simp [hx]),
      fun x hx y hy => wf.like x (by simp [hx]) y (by simp [hy])⟩
    have heq : (serKeys ks = serKeys g.keys) ↔ ks = g.keys :=
      ⟨serKeys_inj hk (wf.valid g (by simp)), fun h => by rw [h]⟩
    show mDelete (serKeys ks) ((serKeys g.keys, g.vals) :: enc rest) = enc (sDelete ks (g :: rest))
    simp only [mDelete, sDelete]
    by_cases h : ks = g.keys
    · simp only [h, if_true]
    · have h' : ¬ serKeys ks = serKeys g.keys := fun e => h (heq.mp e)
      simp only [h, h', if_false]
      show (serKeys g.keys, g.vals) :: mDelete (serKeys ks) (enc rest)
        = (serKeys g.keys, g.vals) :: enc (sDelete ks rest)
      rw [ih wf']

/-! ### the model operations keep the model store a sorted map -/

theorem sInsert_subset (f : Fact) : ∀ (S : SStore) (x : Fact), x ∈ sInsert f S → x = f ∨ x ∈ S
  | [], x, h => by simp [sInsert] at h; exact Or.inl h
  | g :: rest, x, h => by
    simp only [sInsert] at h
    split at h
    · simpa using h
    · split at h
      · rcases List.mem_cons.mp h with h | h
        · exact Or.inl h
        · exact Or.inr (by simp [h])
      · rcases List.mem_cons.mp h with h | h
        · exact Or.inr (by simp [h])
        · rcases sInsert_subset f rest x h with h | h
          · exact Or.inl h
          · exact Or.inr (by simp [h])

theorem mem_sInsert_self (f : Fact) : ∀ (S : SStore), f ∈ sInsert f S
  | [] => by simp [sInsert]
  | g :: rest => by
    simp only [sInsert]
    split
    · simp
    · split
      · simp
      · simp [mem_sInsert_self f rest]

/-- creating an absent fact adds exactly that fact -/
theorem mem_sInsert_absent (f : Fact) : ∀ (S : SStore), (∀ g ∈ S, g.keys ≠ f.keys) →
    ∀ x, x ∈ sInsert f S ↔ x = f ∨ x ∈ S
  | [], _, x => by simp [sInsert]
  | g :: rest, habs, x => by
    have hg : ¬ f.keys = g.keys := fun h => habs g (by simp) h.symm
    have ih := mem_sInsert_absent f rest (fun y hy => habs y (by simp [hy])) x
    simp only [sInsert, hg, if_false]
    split
    · simp
    · simp only [List.mem_cons, ih]
      constructor
      · rintro (h | h | h)
        · exact Or.inr (Or.inl h)
        · exact Or.inl h
        · exact Or.inr (Or.inr h)
      · rintro (h | h | h)
        · exact Or.inr (Or.inl h)
        · exact Or.inl h
        · exact Or.inr (Or.inr h)

theorem wf_sInsert {S : SStore} (wf : WF S) (f : Fact) (fit : Fits f.keys S) : WF (sInsert f S) := by
  constructor
  · intro x hx
    rcases sInsert_subset f S x hx with h | h
    · rw [h]; exact fit.valid
    · exact wf.valid x h
  · intro x hx y hy
    rcases sInsert_subset f S x hx with h | h <;> rcases sInsert_subset f S y hy with h' | h'
    · rw [h, h']; exact keysLike_refl _
    · rw [h]; exact fit.like y h'
    · rw [h']; exact keysLike_symm (fit.like x h)
    · exact wf.like x h y h'

theorem mInsert_subset (k : List Bytes) (v : Vals) : ∀ (M : MStore) (e : MEntry),
    e ∈ mInsert k v M → e = (k, v) ∨ e ∈ M
  | [], e, h => by simp [mInsert] at h; exact Or.inl h
  | (k', v') :: rest, e, h => by
    simp only [mInsert] at h
    split at h
    · simpa using h
    · split at h
      · rcases List.mem_cons.mp h with h | h
        · exact Or.inl h
        · exact Or.inr (by simp [h])
      · rcases List.mem_cons.mp h with h | h
        · exact Or.inr (by simp [h])
        · rcases mInsert_subset k v rest e h with h | h
          · exact Or.inl h
          · exact Or.inr (by simp [h])

/-- `BTreeMap::insert` keeps the map sorted (byte order is a strict total order) -/
theorem mInsert_sorted (k : List Bytes) (v : Vals) : ∀ (M : MStore), MSorted M → MSorted (mInsert k v M)
  | [], _ => by simp [mInsert, MSorted]
  | (k', v') :: rest, h => by
    unfold MSorted at h ⊢
    rw [List.pairwise_cons] at h
    obtain ⟨h1, h2⟩ := h
    simp only [mInsert]
    split
    next hlt =>
      rw [List.pairwise_cons]
      refine ⟨?_, List.pairwise_cons.mpr ⟨h1, h2⟩⟩
      intro e he
      rcases List.mem_cons.mp he with rfl | he
      · exact hlt
      · exact compsLt_trans hlt (h1 e he)
    next hlt =>
      split
      next heq => subst heq; exact List.pairwise_cons.mpr ⟨h1, h2⟩
      next hne =>
        have hgt : compsLt k' k = true := by
          rcases compsLt_trichotomy k k' with h | h | h
          · exact absurd h hlt
          · exact absurd h hne
          · exact h
        rw [List.pairwise_cons]
        refine ⟨?_, mInsert_sorted k v rest h2⟩
        intro e he
        rcases mInsert_subset k v rest e he with rfl | he
        · exact hgt
        · exact h1 e he

/-- creating a fact keeps the model store sorted by typed key order -/
theorem sInsert_sorted {S : SStore} (wf : WF S) (f : Fact) (fit : Fits f.keys S) (hs : Sorted S) :
    Sorted (sInsert f S) := by
  rw [enc_sorted (wf_sInsert wf f fit), ← create_spec wf f fit]
  exact mInsert_sorted _ _ _ ((enc_sorted wf).mp hs)

theorem hval_lt_irrefl (v : HVal) : v.lt v = false := by
  cases v <;> simp [HVal.lt, blt_irrefl]

theorem keysLt_irrefl : ∀ (k : List Key), keysLt k k = false
  | [] => rfl
  | a :: as => by simp [keysLt, hval_lt_irrefl, keysLt_irrefl as]

theorem sDelete_sublist (ks : List Key) : ∀ (S : SStore), (sDelete ks S).Sublist S
  | [] => by simp [sDelete]
  | g :: rest => by
    simp only [sDelete]
    split
    · exact List.sublist_cons_self g rest
    · exact (sDelete_sublist ks rest).cons_cons g

theorem sDelete_sorted {S : SStore} (ks : List Key) (hs : Sorted S) : Sorted (sDelete ks S) :=
  List.Pairwise.sublist (sDelete_sublist ks S) hs

/-- deleting removes exactly the fact with these keys (keys are unique in a sorted store) -/
theorem mem_sDelete (ks : List Key) : ∀ (S : SStore), Sorted S →
    ∀ x, x ∈ sDelete ks S ↔ x ∈ S ∧ x.keys ≠ ks
  | [], _, x => by simp [sDelete]
  | g :: rest, hs, x => by
    unfold Sorted at hs
    rw [List.pairwise_cons] at hs
    obtain ⟨h1, h2⟩ := hs
    have ih := mem_sDelete ks rest h2 x
    simp only [sDelete]
    split
    next heq =>
      constructor
      · intro hx
        refine ⟨by simp [hx], ?_⟩
        intro hk
        have := h1 x hx
        rw [hk, ← heq, keysLt_irrefl] at this
        cases this
      · rintro ⟨hx, hk⟩
        rcases List.mem_cons.mp hx with rfl | hx
        · exact absurd heq.symm hk
        · exact hx
    next hne =>
      simp only [List.mem_cons, ih]
      constructor
      · rintro (rfl | ⟨h, hk⟩)
        · exact ⟨Or.inl rfl, fun h => hne h.symm⟩
        · exact ⟨Or.inr h, hk⟩
      · rintro ⟨rfl | h, hk⟩
        · exact Or.inl rfl
        · exact Or.inr ⟨h, hk⟩

theorem wf_sDelete {S : SStore} (wf : WF S) (ks : List Key) : WF (sDelete ks S) :=
  ⟨fun x hx => wf.valid x ((sDelete_sublist ks S).subset hx),
   fun x hx y hy => wf.like x ((sDelete_sublist ks S).subset hx) y ((sDelete_sublist ks S).subset hy)⟩

/-- **update** (all keys given, as the compiler requires): fails with `InvalidFact` when no fact
has these keys or a given value field differs; otherwise the fact's values are replaced -/
theorem update_spec {S : SStore} (wf : WF S) (frm : Query) (to : Vals) (fit : Fits frm.keys S) :
    opUpdate frm to (enc S) =
      match S.find? (fun g => decide (g.keys = frm.keys)) with
      | none => .error .invalidFact
      | some g =>
        if valsMatch frm.vals g.vals then
          .ok (enc (sInsert ⟨frm.keys, setVals to frm.vals⟩ (sDelete frm.keys S)))
        else .error .invalidFact := by
  unfold opUpdate
  rw [factQuery_enc wf frm.keys fit.valid]
  have hpred : ∀ g ∈ S, keysPrefix frm.keys g.keys = decide (g.keys = frm.keys) := by
    intro g hg
    have := keysPrefix_eq_of_length frm.keys g.keys (keysLike_length (fit.like g hg))
    rw [Bool.eq_iff_iff, this]; simp [eq_comm]
  rw [List.filter_congr hpred]
  have hh : (S.filter fun g => decide (g.keys = frm.keys)).head? =
      S.find? (fun g => decide (g.keys = frm.keys)) := List.head?_filter
  cases hfl : S.filter (fun g => decide (g.keys = frm.keys)) with
  | nil =>
    rw [hfl] at hh
    rw [← hh]; rfl
  | cons g tl =>
    rw [hfl] at hh
    rw [← hh]
    have hgm : g ∈ S ∧ g.keys = frm.keys := by
      have : g ∈ S.filter (fun g => decide (g.keys = frm.keys)) := by rw [hfl]; simp
      have := List.mem_filter.mp this
      exact ⟨this.1, by simpa using this.2⟩
    obtain ⟨hgS, hg⟩ := hgm
    simp only [List.map_cons, List.head?_cons]
    by_cases hv : valsMatch frm.vals g.vals = true
    · simp only [hv, Bool.not_true, Bool.false_eq_true, if_false, if_true]
      have hd := delete_spec wf g.keys (wf.valid g hgS)
      unfold opDelete at hd
      rw [hd, hg]
      have fit' : Fits frm.keys (sDelete frm.keys S) :=
        ⟨fit.valid, fun x hx => fit.like x ((sDelete_sublist frm.keys _).subset hx)⟩
      have hc := create_spec (wf_sDelete wf frm.keys) ⟨frm.keys, setVals to frm.vals⟩ fit'
      unfold opCreate at hc
      rw [hc]
    · have hv' : valsMatch frm.vals g.vals = false := by simpa using hv
      simp [hv']

/-! ## non-vacuity: a concrete store across the sign boundary

`fact F[k int]=>{v int}` with keys `-1, 0, 5`: the hypotheses (`WF`, `Sorted`, `Fits`) hold, the
stored bytes are sorted, and the operations give the expected answers. -/

def exK (i : Int) : List Key := [⟨[107], .int i⟩]
def exF (i v : Int) : Fact := ⟨exK i, [([118], .int v)]⟩
def exS : SStore := [exF (-1) 10, exF 0 20, exF 5 10]

theorem exS_wf : WF exS := by
  constructor
  · intro f hf k hk
    simp only [exS, List.mem_cons, List.mem_nil_iff, or_false] at hf
    rcases hf with rfl | rfl | rfl <;>
      (simp only [exF, exK, List.mem_cons, List.mem_nil_iff, or_false] at hk; subst hk; decide)
  · intro f hf g hg
    simp only [exS, List.mem_cons, List.mem_nil_iff, or_false] at hf hg
    rcases hf with rfl | rfl | rfl <;> rcases hg with rfl | rfl | rfl <;> decide

example : Sorted exS := by unfold Sorted exS; decide
example : MSorted (enc exS) := (enc_sorted exS_wf).mp (by unfold Sorted exS; decide)
example : sQuery ⟨[], [([118], .int 10)]⟩ exS = some (exF (-1) 10) := by decide
example : opQuery ⟨[], [([118], .int 10)]⟩ (enc exS) = .ok (some (exF (-1) 10)) := by
  rw [query_spec exS_wf _ (by simp)]; congr 1
example : sCount 1 ⟨[], [([118], .int 10)]⟩ exS = 1 ∧ sCount 5 ⟨[], [([118], .int 10)]⟩ exS = 2 := by decide
example : sMatches ⟨[], [([118], .int 10)]⟩ exS = [exF (-1) 10, exF 5 10] := by decide
example : Fits (exK 3) exS :=
  ⟨by intro k hk; simp only [exK, List.mem_cons, List.mem_nil_iff, or_false] at hk; subst hk; decide,
   by intro g hg
      simp only [exS, List.mem_cons, List.mem_nil_iff, or_false] at hg
      rcases hg with rfl | rfl | rfl <;> decide⟩
example : sInsert (exF 3 7) exS = [exF (-1) 10, exF 0 20, exF 3 7, exF 5 10] := by decide
example : sDelete (exK 0) exS = [exF (-1) 10, exF 5 10] := by decide

end AranyaV.FactOps
