import AranyaV.Proofs.Conc.ShmRD2
/-!
# C41 — AFC channel removal takes effect for later operations

Theorems about the transition system `AranyaV.Shm` (model of `WriteState` / `ReadState`),
for **every state reachable by every schedule**, any number of readers, any table capacity.

Ghost bookkeeping of the model (`Model/Conc/Shm.lean`): `dead` = the ids removed by writer
operations that have *returned* (extended by the final `woff.store` step of `remove`,
`remove_all`, `remove_if` with the ids that are in the table before the operation and not in
the table after it); `Reader.dead0` = "the id this reader operation is about was in `dead`
when the operation began" (set by `rBegin`).  So `dead0 = true` is exactly "the operation
started after the removal had returned".

Level: **partial by nature** — sequential consistency; pure `remove_if` predicate; `Nat`
generations and ids (the stale-generation argument breaks if the `u32` generation wraps
around to the cached value: 2³² table modifications between two uses of one context).

Reading of "fails with not-found": `setup_*_ctx`, `seal`, `open` return `NotFound`, `exists`
returns `false`.  One refinement of the property text is forced by the code: the first
`seal` on a removed channel returns `NotFound` *and clears the context*
(`*ctx = SealCtx(None)`), so later `seal`s on that same context return `KeyExpired`
(`seal_expired_not_found_before`); `open` keeps returning `NotFound`.
-/
namespace AranyaV.Shm

/-- unfold one reader step -/
theorem rStep_local {s s' : State} {i : Nat} {ret : Option Ret} (h : rStep s i = some (s', ret)) :
    ∃ r r' eff, s.rs[i]? = some r ∧
      rStepLocal s.readOff s.side (fun x => (s.holder x).isNone) r = some (r', eff, ret) ∧
      s' = applyLock (s.setRs (s.rs.set i r')) i eff := by
  unfold rStep at h
  split at h
  · cases h
  · rename_i r hr
    split at h
    · cases h
    · rename_i r' eff rt hloc
      injection h with h; injection h with h1 h2; subst h1; subst h2
      exact ⟨r, r', eff, hr, hloc, rfl⟩

/-- **removed_not_found.**  If the removal of the channel a reader operation is about had
returned before the operation began, then whatever step of that operation returns a result
returns `NotFound` (`setup_*_ctx`, `seal`, `open`) or `false` (`exists`) — never a sequence
number, never `opened`, never a context, never even a failure *of the closure* (the key is
not handed out at all). -/
theorem removed_not_found {cap n : Nat} {s s' : State} (h : Reachable cap n s) {i : Nat} {r : Reader}
    {ret : Ret} (hr : s.rs[i]? = some r) (hd : r.dead0 = true)
    (hs : rStep s i = some (s', some ret)) : ret = .notFound ∨ ret = .bool false := by
  obtain ⟨r0, r', eff, hr0, hloc, _⟩ := rStep_local hs
  rw [hr] at hr0; injection hr0 with hr0; subst hr0
  have hI := reachable_rdinv h
  have hL := reachable_linv h
  rcases hI.dpc i r hr hd with h0 | ⟨x, hx, hok⟩
  · exfalso; simp [rStepLocal, h0] at hloc
  · have := (rStepLocal_dead hloc hok ?_ ?_).2
    · rcases this with h1 | h1 | h1
      · cases h1
      · exact Or.inl (Option.some.inj h1)
      · exact Or.inr (Option.some.inj h1)
    · intro sd hsd
      refine hI.drest x hx sd ?_
      intro hw
      have h1 := hL.1 sd hw
      rcases hsd with hsd | hsd
      · rw [h1] at hsd; cases hsd
      · have h2 := hL.2 i r sd hr hsd
        rw [h1] at h2; injection h2 with h2; omega
    · intro k c hc hid sd
      exact hI.dctx x hx i r k c hr hc hid sd

/-- An operation that returns in its very first step (no shared-memory access at all) is a
`seal` / `open` on a context that an earlier `NotFound` has cleared: `KeyExpired`. -/
theorem begin_returns_key_expired {s s' : State} {i : Nat} {op : ROp} {ret : Ret}
    (hs : rBegin s i op = some (s', some ret)) : ret = .keyExpired := by
  unfold rBegin at hs
  split at hs
  · cases hs
  · split at hs
    · cases hs
    · rename_i r' rt hloc
      injection hs with hs; injection hs with _ h2; subst h2
      rcases (rBeginLocal_spec hloc).2.2 with ⟨_, h⟩ | ⟨_, h⟩
      · cases h
      · exact Option.some.inj h

/-- what `dead0` records: the target id of the operation was dead when it began -/
theorem dead0_spec {s s' : State} {i : Nat} {op : ROp} {ret : Option Ret}
    (hs : rBegin s i op = some (s', ret)) :
    ∃ r r', s.rs[i]? = some r ∧ s'.rs[i]? = some r' ∧
      (r'.dead0 = true ↔ ∃ x, op.target r.ctxs = some x ∧ x ∈ s.dead) := by
  unfold rBegin at hs
  split at hs
  · cases hs
  · rename_i r hr
    split at hs
    · cases hs
    · rename_i r' rt hloc
      injection hs with hs; injection hs with h1 _; subst h1
      have hlt : i < s.rs.length := (List.getElem?_eq_some_iff.mp hr).1
      refine ⟨r, r', hr, by simp [List.getElem?_set_self hlt], ?_⟩
      rw [(rBeginLocal_spec hloc).2.1]
      unfold deadAtBegin
      cases ht : op.target r.ctxs with
      | none => simp
      | some x => simp

/-- what `dead` records: the ids the finished writer operation removed — in the table
(`hist[g0]`) before it, not in the table after it -/
theorem dead_spec {s s' : State} {ret : Option Ret} {r : Bool} {rt : Ret} {g0 : Nat}
    (hw : s.w = .st r rt g0) (hs : wStep s = some (s', ret)) :
    ret = some rt ∧ s'.w = .idle ∧
    ∀ x, x ∈ s'.dead ↔ x ∈ s.dead ∨
      (x ∉ ids (s.side r).chans ∧ ∃ pre, s.hist[g0]? = some pre ∧ x ∈ ids pre) := by
  simp only [wStep, hw] at hs
  injection hs with hs; injection hs with h1 h2; subst h1; subst h2
  refine ⟨rfl, by simp [storeOff], fun x => ?_⟩
  simp only [storeOff, dead_setW, dead_setDead, List.mem_append]
  constructor
  · rintro (h | h)
    · exact Or.inl h
    · exact Or.inr (removedIds_mem h)
  · rintro (h | ⟨h1, pre, hpre, h2⟩)
    · exact Or.inl h
    · right
      simp only [removedIds, hpre, List.mem_filter, Bool.not_eq_eq_eq_not, Bool.not_true,
        List.contains_eq_mem, decide_eq_false_iff_not]
      exact ⟨h2, h1⟩

/-- `dead` only grows -/
theorem dead_mono {s s' : State} {a : Act} {ret : Option Ret} (hs : step s a = some (s', ret))
    {x : Nat} (hx : x ∈ s.dead) : x ∈ s'.dead := by
  cases a with
  | wBegin rq =>
    simp only [step, Option.map_eq_some_iff] at hs
    obtain ⟨s1, h1, h2⟩ := hs
    injection h2 with h2 _; subst h2
    unfold wBegin at h1; split at h1
    · injection h1 with h1; subst h1; simpa using hx
    · cases h1
  | wStep =>
    obtain ⟨ext, he⟩ := (wStep_frame hs).dead
    rw [he]; exact List.mem_append_left _ hx
  | rBegin i op =>
    simp only [step] at hs
    unfold rBegin at hs
    split at hs
    · cases hs
    · split at hs
      · cases hs
      · injection hs with hs; injection hs with h1 _; subst h1; simpa using hx
  | rStep i =>
    obtain ⟨r, r', eff, _, _, rfl⟩ := rStep_local hs
    rw [applyLock_dead]; simpa using hx

/-- what table `post` an operation makes of the table `pre` -/
def OpSpec : WOp → List Chan → List Chan → Prop
  | .add c, pre, post => post = pre ∨ post = pre ++ [c]
  | .remove x, pre, post => ∀ c, c ∈ post ↔ c ∈ pre ∧ c.id ≠ x
  | .removeAll, _, post => post = []
  | .removeIf p, pre, post => ∀ c, c ∈ post ↔ c ∈ pre ∧ p c = false
  | .exists_ _, pre, post => post = pre

/-- **The table an operation produces** (first-list lock of a writer operation): relative to
the newest table `T`, `add c` produces `T ++ [c]` (or `T` when full), `remove x` exactly the
channels of `T` with another id, `remove_all` the empty table, `remove_if p` exactly the
channels of `T` with `p = false`; ids stay pairwise distinct. -/
theorem produced_spec {cap n : Nat} {s s' : State} (h : Reachable cap n s) {op : WOp} {w : Bool}
    {ret : Option Ret} (hw : s.w = .lk1 op w) (hs : wStep s = some (s', ret)) :
    (ids (top s'.hist).chans).Nodup ∧ OpSpec op (top s.hist).chans (top s'.hist).chans := by
  have hT := reachable_tinv h
  have hN := reachable_ninv h
  have hId := reachable_idinv h
  obtain ⟨_, hh, hq⟩ := hT
  rw [hw] at hq
  have htop : s.side w = top s.hist := hq.1 w
  have hntop : (ids (top s.hist).chans).Nodup := hN _ (top_mem _ hh)
  simp only [wStep, hw] at hs
  split at hs
  · cases hs
  · injection hs with hs; injection hs with h1 _; subst h1
    have hfresh : ∀ c, op = .add c → c.id ∉ ids (top s.hist).chans := by
      intro c hc; subst hc
      intro hmem
      obtain ⟨c', hc', hid⟩ := List.mem_map.mp hmem
      have := (hId.2.1 c.id (by rw [hw]; rfl)).2 _ (top_mem _ hh) c' hc'
      omega
    have hhist : (lock1 s op w).hist = histAfter s.cap s.hist (plan s.cap op (top s.hist)).1 (top s.hist) := by
      simp [lock1, htop]
    rw [hhist]
    -- either the program is empty / fails (hist unchanged) or it appends the produced table
    cases hrun : runProg s.cap (plan s.cap op (top s.hist)).1 (top s.hist) with
    | none =>
      exfalso
      cases hnx : (plan s.cap op (top s.hist)).2.1 with
      | none =>
        have := plan_none s.cap op (top s.hist) (prog := (plan s.cap op (top s.hist)).1)
          (ret := (plan s.cap op (top s.hist)).2.2) (by rw [← hnx])
        rw [this] at hrun; simp [runProg] at hrun
      | some p2 =>
        have := (plan_run s.cap op (top s.hist) (prog := (plan s.cap op (top s.hist)).1) (p2 := p2)
          (ret := (plan s.cap op (top s.hist)).2.2) (by rw [← hnx])).2
        rcases this with h0 | ⟨l', hl'⟩
        · rw [h0] at hrun; simp [runProg] at hrun
        · rw [hl'] at hrun; cases hrun
    | some sd' =>
      have hspec := plan_spec s.cap op (top s.hist) sd' hntop hfresh hrun
      have htop' : (top (histAfter s.cap s.hist (plan s.cap op (top s.hist)).1 (top s.hist))).chans = sd'.chans := by
        unfold histAfter
        split
        · rename_i hnil
          rw [hnil] at hrun; simp [runProg] at hrun; rw [← hrun]
        · rw [hrun, top_append]
      rw [htop']
      refine ⟨hspec.1, ?_⟩
      have h2 := hspec.2
      cases op <;> exact h2

/-- **Removed channels never reappear.**  An id whose removal has returned is not in the
newest table, not in any list the writer is not mutating — in particular not in any list a
reader holds — and this remains so forever (`dead_mono` + this theorem at every later state). -/
theorem removed_never_reappears {cap n : Nat} {s : State} (h : Reachable cap n s) {x : Nat}
    (hx : x ∈ s.dead) :
    x ∉ ids (top s.hist).chans ∧ (∀ sd, s.w.holds ≠ some sd → x ∉ ids (s.side sd).chans) ∧
    (∀ (i : Nat) (r : Reader) (sd : Bool), s.rs[i]? = some r → r.pc.holds = some sd →
      x ∉ ids (s.side sd).chans) := by
  have hI := reachable_rdinv h
  have hL := reachable_linv h
  refine ⟨hI.dtop x hx, hI.drest x hx, ?_⟩
  intro i r sd hr hsd
  refine hI.drest x hx sd ?_
  intro hw
  have h1 := hL.1 sd hw
  have h2 := hL.2 i r sd hr hsd
  rw [h1] at h2; injection h2 with h2; omega

/-! ## channels that are not removed keep working -/

theorem eq_of_id_eq {l : List Chan} (hn : (ids l).Nodup) {c d : Chan} (hc : c ∈ l) (hd : d ∈ l)
    (h : c.id = d.id) : c = d := by
  obtain ⟨i, hi, rfl⟩ := List.getElem_of_mem hc
  obtain ⟨j, hj, rfl⟩ := List.getElem_of_mem hd
  have h1 : (ids l)[i]'(by simpa [ids] using hi) = (ids l)[j]'(by simpa [ids] using hj) := by
    simpa [ids] using h
  have := (List.getElem_inj hn).mp h1
  subst this; rfl

theorem findLin_complete {l : List Chan} (hn : (ids l).Nodup) {ch : Chan} (hc : ch ∈ l) {op : Nat}
    (hm : dirMatches ch.dir op = true) (k : Nat) : ∃ idx, findLin l ch.id op k = some (ch, idx) := by
  cases hf : findLin l ch.id op k with
  | none => exact absurd ⟨rfl, hm⟩ (findLin_none hf ch hc)
  | some p =>
    obtain ⟨c, idx⟩ := p
    have := findLin_some hf
    exact ⟨idx, by rw [eq_of_id_eq hn this.1 hc this.2.1]⟩

/-- with distinct ids, `find` (with any hint) returns the channel that has the id -/
theorem find_complete {l : List Chan} (hn : (ids l).Nodup) {ch : Chan} (hc : ch ∈ l) {op : Nat}
    (hm : dirMatches ch.dir op = true) (hint : Option Nat) :
    ∃ idx, find l ch.id hint op = some (ch, idx) := by
  cases hf : find l ch.id hint op with
  | none => exact absurd ⟨rfl, hm⟩ (find_none hf ch hc)
  | some p =>
    obtain ⟨c, idx⟩ := p
    have := find_some hf
    exact ⟨idx, by rw [eq_of_id_eq hn this.1 hc this.2.1]⟩

/-- **Channels that were not removed keep working** (`lookup_stable`): if a channel record
`ch` is in the newest produced table and in the one before it (i.e. the writer operation in
flight, whatever it does to *other* channels, neither removes nor adds `ch`), then every list
a reader can hold contains `ch`, and the reader's lookup of `ch.id` — with any cached index
as hint — returns exactly `ch` (same key material), for a matching direction. -/
theorem lookup_stable {cap n : Nat} {s : State} (h : Reachable cap n s) {i : Nat} {r : Reader}
    {sd : Bool} (hr : s.rs[i]? = some r) (hsd : r.pc.holds = some sd) {ch : Chan}
    (hch : ∀ g l, s.hist.length ≤ g + 2 → s.hist[g]? = some l → ch ∈ l) {op : Nat}
    (hm : dirMatches ch.dir op = true) (hint : Option Nat) :
    ch ∈ (s.side sd).chans ∧ ∃ idx, find (s.side sd).chans ch.id hint op = some (ch, idx) := by
  have hL := reachable_linv h
  have hnw : s.w.holds ≠ some sd := by
    intro hw
    have h1 := hL.1 sd hw
    have h2 := hL.2 i r sd hr hsd
    rw [h1] at h2; injection h2 with h2; omega
  obtain ⟨hget, hlen⟩ := rest_hist_of_tinv (reachable_tinv h) hnw
  have hmem := hch _ _ hlen hget
  have hn := reachable_ninv h _ (List.mem_of_getElem? hget)
  exact ⟨hmem, find_complete hn hmem hm hint⟩

/-- the same statement for an idle writer: every channel of the table is found -/
theorem lookup_idle {cap n : Nat} {s : State} (h : Reachable cap n s) (hw : s.w = .idle) {sd : Bool}
    {ch : Chan} (hch : ch ∈ (s.side sd).chans) {op : Nat} (hm : dirMatches ch.dir op = true)
    (hint : Option Nat) : ∃ idx, find (s.side sd).chans ch.id hint op = some (ch, idx) := by
  have hnw : s.w.holds ≠ some sd := by rw [hw]; simp [WPc.holds]
  obtain ⟨hget, _⟩ := rest_hist_of_tinv (reachable_tinv h) hnw
  exact find_complete (reachable_ninv h _ (List.mem_of_getElem? hget)) hch hm hint

/-- a `seal` that found its channel gone clears the context; the next `seal` on it returns
`KeyExpired` without touching shared memory (refinement of "fails with not-found") -/
theorem seal_expired_not_found_before {dead : List Nat} {r r' : Reader} {k : Nat} {f : Bool} {ret : Ret}
    (h : rBeginLocal dead r (.seal k f) = some (r', some ret)) :
    ret = .keyExpired ∧ ∃ c, r.ctxs[k]? = some c ∧ c.live = false := by
  cases hpc : r.pc <;> simp only [rBeginLocal, hpc] at h <;> try contradiction
  split at h
  · cases h
  · rename_i c hc
    split at h
    · cases h
    · split at h
      · rename_i hl
        simp only [Option.some.injEq, Prod.mk.injEq] at h
        exact ⟨h.2.symm, c, hc, hl⟩
      · simp only [Option.some.injEq, Prod.mk.injEq] at h
        exact absurd h.2 (by simp)

/-! ## non-vacuity -/

/-- add channel 0 (seal), reader sets up a context and seals once, writer removes channel 0
completely, the reader seals again: `NotFound`; and once more: `KeyExpired` -/
def demo41 : List Act :=
  [.wBegin (.add 1 0)] ++ List.replicate 12 .wStep ++
  [.rBegin 0 (.setup true 0), .rStep 0, .rStep 0, .rStep 0, .rStep 0,
   .rBegin 0 (.seal 0 false), .rStep 0, .rStep 0,
   .wBegin (.remove 0)] ++ List.replicate 11 .wStep ++
  [.rBegin 0 (.seal 0 false), .rStep 0, .rStep 0, .rStep 0, .rStep 0, .rStep 0]

def runTrace (s : State) : List Act → List (Option Ret)
  | [] => []
  | a :: as => match step s a with
    | some (s', r) => r :: runTrace s' as
    | none => [some .fErr, some .fErr, some .fErr]

example : (runTrace (init 2 1) demo41).filterMap id =
    [.okId 0, .ctx 0, .sealed 0, .ok, .notFound] := by decide

example : (run (init 2 1) demo41).map (fun s => (s.dead, s.rs.map (·.dead0), s.a, s.b)) =
    some ([0], [true], ⟨2, []⟩, ⟨2, []⟩) := by decide

example : (runTrace (init 2 1) (demo41 ++ [.rBegin 0 (.seal 0 false)])).getLast? =
    some (some .keyExpired) := by decide

end AranyaV.Shm
