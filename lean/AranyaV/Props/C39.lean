import AranyaV.Proofs.Afc
import AranyaV.Gen.PanicSitesAfc
/-!
# C39 — AFC messages are authenticated and opening never panics

Model: `AranyaV/Model/Afc.lean` — wire format `ciphertext ‖ tag ‖ header(seq, LE)`, the Rust
length arithmetic explicit (`hostPanic` = an unchecked `usize` subtraction/addition that
overflows in an overflow-checked build), an ideal AEAD given by the log of seal calls whose
output bytes are arbitrary (chosen by the environment).  The constants (`dataHeaderSize`,
`tagSize`, `versionV1`, `seqMax`) are regenerated from the Rust source; the theorems are generic
in them except for the side condition `seqMax_fits` (checked by `decide`).

All theorems quantify over every world (channel table + seal log), every channel index, every
byte string, every buffer — no length bound.  Partial by nature: the cryptography is symbolic
(an accepted ciphertext is one that a seal call produced; forgeries are outside the model).
-/
namespace AranyaV.Afc
open AranyaV.Gen.Afc

/-- **seal → open (copying interfaces)**: whatever the cipher's output bytes are, what `seal`
wrote is `ciphertext‖tag‖header(seq)`, and `open` on the peer returns exactly the plaintext, the
label and the sequence number used. -/
theorem open_seal {w w' : World} {c s : Nat} {dst pt oracle dst' : List UInt8}
    (h : sealC w c dst pt oracle = (.ok s, dst', w'))
    (ho : oracle.length = pt.length + tagSize) :
    dst' = oracle ++ encSeq s ++ dst.drop (pt.length + overhead) ∧
    ∃ ch, w.chan c = some ch ∧ s = ch.seq ∧
      (ch.sealLabel = ch.openLabel →
        ∀ dst2 : List UInt8, pt.length ≤ dst2.length →
          openC w' c dst2 (oracle ++ encSeq s) = (.ok (ch.openLabel, s), pt ++ dst2.drop pt.length) ∧
          openIP true w' c (oracle ++ encSeq s) = (.ok (ch.openLabel, s), pt)) := by
  unfold sealC at h
  simp only at h
  split at h
  · simp at h
  · split at h
    · simp at h
    · cases hd : doSeal w c pt oracle with
      | error e => simp [hd] at h
      | ok x =>
        obtain ⟨s', w''⟩ := x
        simp [hd] at h
        obtain ⟨hs, hdst, hw⟩ := h
        subst hs hw
        obtain ⟨ch, c1, c2, c3, c4⟩ := doSeal_ok hd
        refine ⟨by rw [← hdst, List.append_assoc], ch, c1, c2, ?_⟩
        intro hl dst2 hlen
        have hdo : doOpen w'' c s' oracle = .ok (ch.openLabel, pt) := by
          rw [c4, c2]; exact doOpen_afterSeal pt oracle c1 (c2 ▸ c3) hl
        exact ⟨openC_of_doOpen hdo ho c3 dst2 hlen, openIP_of_doOpen hdo ho c3⟩


/-- **seal_in_place → open_in_place / open**: the in-place interface writes the same wire format
and both open interfaces give the plaintext, label and sequence number back. -/
theorem openInPlace_sealInPlace {w w' : World} {c s : Nat} {pt oracle data' : List UInt8}
    (h : sealIP w c pt oracle = (.ok s, data', w'))
    (ho : oracle.length = pt.length + tagSize) :
    data' = oracle ++ encSeq s ∧
    ∃ ch, w.chan c = some ch ∧ s = ch.seq ∧
      (ch.sealLabel = ch.openLabel →
        openIP true w' c data' = (.ok (ch.openLabel, s), pt) ∧
        ∀ dst2 : List UInt8, pt.length ≤ dst2.length →
          openC w' c dst2 data' = (.ok (ch.openLabel, s), pt ++ dst2.drop pt.length)) := by
  unfold sealIP at h
  simp only at h
  split at h
  · simp at h
  · cases h1 : csub (pt.length + overhead) dataHeaderSize with
    | none => simp [h1] at h
    | some r =>
      simp only [h1] at h
      cases h2 : csub r tagSize with
      | none => simp [h2] at h
      | some p =>
        simp only [h2] at h
        cases hd : doSeal w c pt oracle with
        | error e => simp [hd] at h
        | ok x =>
          obtain ⟨s', w''⟩ := x
          simp [hd] at h
          obtain ⟨hs, hdata, hw⟩ := h
          subst hs hw hdata
          obtain ⟨ch, c1, c2, c3, c4⟩ := doSeal_ok hd
          refine ⟨rfl, ch, c1, c2, ?_⟩
          intro hl
          have hdo : doOpen w'' c s' oracle = .ok (ch.openLabel, pt) := by
            rw [c4, c2]; exact doOpen_afterSeal pt oracle c1 (c2 ▸ c3) hl
          exact ⟨openIP_of_doOpen hdo ho c3, fun dst2 hlen => openC_of_doOpen hdo ho c3 dst2 hlen⟩

/-- **The round trip survives any history**: take any reachable world (`ops1` from the empty
world), seal `pt` on channel `c`, let any further traffic happen (`ops2`: more channels, more
seals through either interface on any channel, removals); as long as channel `c` still exists and
its ends agree on the label, both open interfaces return `pt`, the label and the sequence number
that seal used.  (Rests on `Inv`: a seal context never reuses a sequence number.) -/
theorem open_seal_any_history (ops1 ops2 : List WOp) {c s : Nat} {dst pt oracle dst' : List UInt8}
    {w2 : World}
    (h : sealC (World.run {} ops1) c dst pt oracle = (.ok s, dst', w2))
    (ho : oracle.length = pt.length + tagSize)
    {ch3 : Chan} (hc3 : (w2.run ops2).chan c = some ch3) (hl : ch3.sealLabel = ch3.openLabel) :
    openIP true (w2.run ops2) c (oracle ++ encSeq s) = (.ok (ch3.openLabel, s), pt) ∧
    ∀ dst2 : List UInt8, pt.length ≤ dst2.length →
      openC (w2.run ops2) c dst2 (oracle ++ encSeq s)
        = (.ok (ch3.openLabel, s), pt ++ dst2.drop pt.length) := by
  have hi1 : Inv (World.run {} ops1) := inv_run inv_init ops1
  -- the seal succeeded, so it went through `doSeal`
  have hw : w2 = (sealC (World.run {} ops1) c dst pt oracle).2.2 := by rw [h]
  rcases sealC_world (World.run {} ops1) c dst pt oracle with e | ⟨s', e⟩
  · -- world unchanged means the seal failed
    exfalso
    unfold sealC at h
    simp only at h
    split at h
    · simp at h
    · split at h
      · simp at h
      · cases hd : doSeal (World.run {} ops1) c pt oracle with
        | error e' => simp [hd] at h
        | ok x =>
          obtain ⟨s'', w''⟩ := x
          obtain ⟨ch, c1, c2, c3, c4⟩ := doSeal_ok hd
          simp [hd] at h
          -- the log grew, so the world did change
          have hlog : (sealC (World.run {} ops1) c dst pt oracle).2.2.log
              = (World.run {} ops1).log := by rw [e]
          rw [← hw, ← h.2.2, c4] at hlog
          simp [afterSeal] at hlog
  · rw [← hw] at e
    obtain ⟨ch, c1, c2, c3, c4⟩ := doSeal_ok e
    have hs : s' = s := by
      unfold sealC at h
      simp only at h
      split at h
      · simp at h
      · split at h
        · simp at h
        · simp [e] at h; exact h.1
    subst hs
    have hi2 : Inv w2 := inv_of_doSeal hi1 e
    have hi3 : Inv (w2.run ops2) := inv_run hi2 ops2
    let r : SealRec := ⟨c, ch.seq, versionV1, ch.sealLabel, pt, oracle⟩
    have hr2 : r ∈ w2.log := by rw [c4]; simp [afterSeal, r]
    have hr3 : r ∈ (w2.run ops2).log := log_mono_run ops2 hr2
    -- labels of channel `c` are the same in all three worlds
    obtain ⟨k1, _⟩ := chan_some c1
    obtain ⟨ch2, d1, d2, d3⟩ : ∃ ch2, w2.chans[c]? = some ch2 ∧ ch2.sealLabel = ch.sealLabel ∧
        ch2.openLabel = ch.openLabel := by
      rw [c4]; exact labels_afterSeal c1 pt oracle k1
    obtain ⟨ch3', f1, f2, f3⟩ := labels_run ops2 d1
    obtain ⟨g1, _⟩ := chan_some hc3
    rw [g1] at f1; cases f1
    have hlab : r.label = ch3.openLabel := by
      show ch.sealLabel = ch3.openLabel
      rw [← d2, ← f2, hl]
    have hn : r.nonce < seqMax := by show ch.seq < seqMax; rw [← c2]; exact c3
    have := open_logged (r := r) hi3 hr3 hc3 rfl hlab ho hn
    simpa [r, c2] using this

/-- side conditions on the regenerated `AuthData` layout: the version field is the first four
bytes, the label id follows immediately and fills the rest of the buffer -/
theorem ad_layout : adVersionOff = 0 ∧ adVersionEnd = 4 ∧ adLabelOff = 4 ∧
    adSize = adLabelOff + labelIdSize := by decide

theorem adBytes_eq {v : Nat} {l : List UInt8} (hl : l.length = labelIdSize) :
    adBytes v l = some (leBytes v 4 ++ l) := by
  obtain ⟨h1, h2, h3, h4⟩ := ad_layout
  unfold adBytes
  have hh : ¬ l.length ≠ adSize - adLabelOff := by omega
  rw [if_neg hh]
  simp only [h1, h2, h3]
  simp [leBytes_length]

/-- **The additional data binds version and label**: `AuthData::to_bytes` is injective in
(version, label id) — every byte of the label id and of the `u32` version is authenticated — and
has the fixed length `AuthData::PACKED_SIZE`. -/
theorem ad_inj {v v' : Nat} {l l' b : List UInt8} (hv : v < 2 ^ 32) (hv' : v' < 2 ^ 32)
    (hl : l.length = labelIdSize) (hl' : l'.length = labelIdSize)
    (h : adBytes v l = some b) (h' : adBytes v' l' = some b) :
    v = v' ∧ l = l' ∧ b.length = adSize := by
  rw [adBytes_eq hl] at h
  rw [adBytes_eq hl'] at h'
  have e : leBytes v 4 ++ l = leBytes v' 4 ++ l' := by
    rw [Option.some.inj h, Option.some.inj h']
  have := List.append_inj e (by simp [leBytes_length])
  have hvv : v = v' := by
    have h4 := congrArg ofLe this.1
    rw [ofLe_leBytes, ofLe_leBytes] at h4
    have : (256:Nat) ^ 4 = 2 ^ 32 := by decide
    rw [this, Nat.mod_eq_of_lt hv, Nat.mod_eq_of_lt hv'] at h4
    exact h4
  refine ⟨hvv, this.2, ?_⟩
  rw [← Option.some.inj h]
  obtain ⟨_, _, h3, h4⟩ := ad_layout
  simp [leBytes_length, hl]; omega

example : adBytes 0x6f54 (List.replicate 32 7) = some ([0x54, 0x6f, 0, 0] ++ List.replicate 32 7) := by
  decide

/-- **Opening never panics**: for every world, channel, output buffer and *every byte string*
(in particular those shorter than header + tag) both `open` and the fixed `open_in_place` return
`ok` or an error. -/
theorem open_total_no_panic (w : World) (c : Nat) (dst bytes : List UInt8) :
    (openC w c dst bytes).1 ≠ .hostPanic ∧ (openIP true w c bytes).1 ≠ .hostPanic :=
  ⟨openC_no_panic w c dst bytes, openIP_no_panic w c bytes⟩

/-- short inputs get the documented errors: fewer bytes than the header → `InvalidSize`; a header
but fewer than `TAG_SIZE` bytes before it → `Authentication`; the buffers are left untouched -/
theorem open_short_inputs (w : World) (c : Nat) (dst bytes : List UInt8) :
    (bytes.length < dataHeaderSize →
      openC w c dst bytes = (.err .invalidSize, dst) ∧
      openIP true w c bytes = (.err .invalidSize, bytes)) ∧
    (dataHeaderSize ≤ bytes.length → bytes.length < dataHeaderSize + tagSize →
      openC w c dst bytes = (.err .authentication, dst) ∧
      openIP true w c bytes = (.err .authentication, bytes)) := by
  constructor
  · intro h
    have e1 : csub bytes.length dataHeaderSize = none := csub_none.mpr h
    simp [openC, openIP, e1]
  · intro h1 h2
    have e1 : csub bytes.length dataHeaderSize = some (bytes.length - dataHeaderSize) :=
      csub_some.mpr ⟨h1, rfl⟩
    have e2 : csub (bytes.length - dataHeaderSize) tagSize = none := csub_none.mpr (by omega)
    simp [openC, openIP, e1, e2]

/-- **F3** — `open_in_place` as found (`rest.len() - Self::TAG_SIZE`): every input that has a
header but fewer than `TAG_SIZE` bytes before it panics in an overflow-checked build. -/
theorem open_in_place_old_panics (w : World) (c : Nat) (data : List UInt8)
    (h1 : dataHeaderSize ≤ data.length) (h2 : data.length < dataHeaderSize + tagSize) :
    (openIP false w c data).1 = .hostPanic := openIP_old_panics w c data h1 h2

/-- **On failure the output buffer holds no plaintext**: it is either untouched (the AEAD was
never run: length errors) or entirely zero. -/
theorem fail_zeroized {w : World} {c : Nat} {e : Err} :
    (∀ {dst wire dst' : List UInt8}, openC w c dst wire = (.err e, dst') →
      dst' = dst ∨ dst' = zeros dst.length) ∧
    (∀ {data data' : List UInt8}, openIP true w c data = (.err e, data') →
      data' = data ∨ data' = zeros data.length) :=
  ⟨fun h => openC_fail_zeroized h, fun h => openIP_fail_zeroized h⟩

/-- **Authenticity**: whatever either open interface accepts is byte for byte the output of a
seal call under this channel's key with this channel's label — so any modified, truncated,
extended or foreign-channel message, and any byte string no seal produced, is rejected — and the
values returned are that call's plaintext, label and sequence number. -/
theorem open_authentic {w : World} {c l s : Nat} :
    (∀ {dst wire dst' : List UInt8}, openC w c dst wire = (.ok (l, s), dst') →
      ∃ ch r, w.chan c = some ch ∧ r ∈ w.log ∧ r.key = c ∧ r.nonce = s ∧
        r.version = versionV1 ∧ r.label = l ∧ l = ch.openLabel ∧
        wire = r.out ++ encSeq s ∧
        dst' = r.pt ++ dst.drop (wire.length - dataHeaderSize - tagSize)) ∧
    (∀ {data data' : List UInt8}, openIP true w c data = (.ok (l, s), data') →
      ∃ ch r, w.chan c = some ch ∧ r ∈ w.log ∧ r.key = c ∧ r.nonce = s ∧
        r.version = versionV1 ∧ r.label = l ∧ l = ch.openLabel ∧
        data = r.out ++ encSeq s ∧ data' = r.pt) :=
  ⟨fun h => openC_authentic h, fun h => openIP_authentic h⟩

/-- sealing never panics either (for plaintexts that fit the address space) -/
theorem seal_no_panic (w : World) (c : Nat) (dst pt oracle : List UInt8) :
    (sealC w c dst pt oracle).1 ≠ .hostPanic ∧
    (pt.length + overhead ≤ usizeMax → (sealIP w c pt oracle).1 ≠ .hostPanic) := by
  constructor
  · unfold sealC
    simp only
    split
    · simp
    · split
      · simp
      · cases doSeal w c pt oracle with
        | error e => simp
        | ok x => obtain ⟨s, w'⟩ := x; simp
  · intro hn
    unfold sealIP
    simp only
    have e0 : ¬ pt.length + overhead > usizeMax := by omega
    have e1 : csub (pt.length + overhead) dataHeaderSize = some (pt.length + tagSize) :=
      csub_some.mpr ⟨by unfold overhead; omega, by unfold overhead; omega⟩
    have e2 : csub (pt.length + tagSize) tagSize = some pt.length :=
      csub_some.mpr ⟨by omega, by omega⟩
    simp only [e0, if_false, e1, e2]
    cases doSeal w c pt oracle with
    | error e => simp
    | ok x => obtain ⟨s, w'⟩ := x; simp

/-- the panic-site inventory regenerated from the source covers the seven transliterated functions;
its only arithmetic sites are the two of `seal_in_place`, which `sealIP` models with `hostPanic`
outcomes that `seal_no_panic` shows unreachable -/
example : panicSites.length = 7 := rfl

/-! ## non-vacuity -/

/-- a concrete world: one channel, one message sealed; the genuine wire opens, a truncated one,
a bit-flipped one and a 10-byte string are rejected without panic -/
def exWorld : World :=
  (sealC ((({} : World).addChan 7 7 0).addChan 7 7 0) 0 (List.replicate 40 0xA5)
    [1, 2, 3] (List.replicate (3 + tagSize) 0x11)).2.2

example : (sealC (({} : World).addChan 7 7 0) 0 (List.replicate 40 0xA5) [1, 2, 3]
    (List.replicate (3 + tagSize) 0x11)).1 = .ok 0 := by decide

example : (openIP true exWorld 0 (List.replicate (3 + tagSize) 0x11 ++ encSeq 0)).1 = .ok (7, 0) := by
  decide
example : (openIP true exWorld 0 (List.replicate (2 + tagSize) 0x11 ++ encSeq 0)).1
    = .err .authentication := by decide
example : (openIP true exWorld 0 (0x10 :: List.replicate (2 + tagSize) 0x11 ++ encSeq 0)).1
    = .err .authentication := by decide
example : (openIP true exWorld 1 (List.replicate (3 + tagSize) 0x11 ++ encSeq 0)).1
    = .err .authentication := by decide
example : (openIP true exWorld 0 (List.replicate 10 0)).1 = .err .authentication := by decide
/-- the same 10-byte string panics in the code as found (F3) -/
example : (openIP false exWorld 0 (List.replicate 10 0)).1 = .hostPanic := by decide

/-- `open_seal_any_history` has satisfiable hypotheses: two channels, traffic before and after
(including a removal of the other channel), channel 0 still there with matching labels -/
example :
    let w1 := World.run {} [.addChan 7 7 0, .addChan 8 8 5, .sealIP 0 [4] (List.replicate (1 + tagSize) 3)]
    let r := sealC w1 0 (List.replicate 40 0xA5) [1, 2, 3] (List.replicate (3 + tagSize) 0x11)
    let w3 := r.2.2.run [.sealIP 1 [9] (List.replicate (1 + tagSize) 2),
                         .sealC 0 (List.replicate 30 0) [5] (List.replicate (1 + tagSize) 6), .rmChan 1]
    r.1 = .ok 1 ∧ (w3.chan 0).map (fun ch => (ch.sealLabel, ch.openLabel, ch.seq)) = some (7, 7, 3) ∧
    (openIP true w3 0 (List.replicate (3 + tagSize) 0x11 ++ encSeq 1)).1 = .ok (7, 1) := by
  decide

end AranyaV.Afc
