import AranyaV.Proofs.Hello
/-!
# C19 — Hello notifications never suppress a needed sync

Full statement (properties.jsonl): a replica decides not to sync only when every command of
the advertising peer's committed graph is already in its own committed graph; same head sets ⇒
same hello head; a replica lacking the graph always syncs.

Model: symbolic ids (`HTerm`, perfect hash for merge ids), the peer's committed graph is the
ancestor-closure of its head list, the replica's committed graph `has` is closed under parents.

The first clause is **false at full strength of the current design** (`no_sync_not_sound`): a
peer whose head *is* the merge command `merge a b` advertises exactly the hello head that a
replica with heads `[a, b]` computes for itself, so the replica does not sync although it has
never written that merge command.  This is reproduced on the real code by harness `c19`
(known finding `hello-no-sync-but-lacks-own-fold-merges`).  What is proved:
`no_sync_sound_partial` — under "advertised command already held" or "equally many heads", no
sync ⇒ peer graph ⊆ own graph — and `no_sync_sub` — in every case the peer's *heads* are
subterms (fold inputs or fold merges) of the replica's own hello head or held by the replica.
-/
namespace AranyaV.Spec.Hello
open AranyaV.Spec

/-- decision logic of `should_sync_on_hello` -/
theorem no_sync_cases (v : View) (adv : Id) (h : shouldSync (some v) adv = false) :
    hello v.heads = some adv ∨ v.has adv = true := by
  unfold shouldSync at h
  by_cases e : hello v.heads = some adv
  · exact Or.inl e
  · right
    have : (hello v.heads == some adv) = false := by simpa using e
    simpa [this] using h

/-- a replica that lacks the graph always decides to sync -/
theorem missing_graph_syncs (adv : Id) : shouldSync none adv = true := rfl

/-- replicas holding the same head set compute the same hello head (it is a function of the
id-sorted head list alone) -/
theorem same_heads_same_hello (h₁ h₂ : List Id) (e : h₁ = h₂) : hello h₁ = hello h₂ := by rw [e]

/-- a non-empty head set always has a hello head -/
theorem hello_isSome (heads : List Id) (h : heads ≠ []) : (hello heads).isSome = true := by
  unfold hello
  cases heads with
  | nil => exact absurd rfl h
  | cons a t =>
    cases t with
    | nil => simp [foldPairs]
    | cons b t' => exact foldPairs_isSome _ _ (by simp) (by simp)

/-- equal hello heads for equally many heads ⇒ equal head lists (merge ids are collision free) -/
theorem hello_inj (h₁ h₂ : List Id) (hl : h₁.length = h₂.length) (t : Id)
    (e₁ : hello h₁ = some t) (e₂ : hello h₂ = some t) : h₁ = h₂ := by
  unfold hello at e₁ e₂
  rw [← hl] at e₂
  exact foldPairs_inj _ _ _ hl (by omega) t e₁ e₂

/-- every head of the advertiser is an ancestor-or-self of the advertised command -/
theorem heads_anc_hello (par : Nat → List Id) (heads : List Id) (t : Id) (e : hello heads = some t) :
    ∀ h ∈ heads, AncSelf par h t :=
  fun h hh => (foldPairs_sub _ _ _ e h hh).ancSelf par

/-- **no sync ⇒ the peer's whole committed graph is already held**, proved when the advertised
command is already held, or when both sides have equally many heads.  `peer x` is the peer's
committed graph: everything that is an ancestor-or-self of a peer head. -/
theorem no_sync_sound_partial (par : Nat → List Id) (v : View) (peerHeads : List Id) (adv : Id)
    (hclosed : Closed par v.has)
    (hheads : ∀ h ∈ v.heads, v.has h = true)
    (hadv : hello peerHeads = some adv)
    (hno : shouldSync (some v) adv = false)
    (hcase : v.has adv = true ∨ v.heads.length = peerHeads.length) :
    ∀ x, (∃ h ∈ peerHeads, AncSelf par x h) → v.has x = true := by
  rintro x ⟨h, hh, hx⟩
  have hcases := no_sync_cases v adv hno
  have key : v.has h = true := by
    rcases hcase with hhas | hlen
    · exact closed_ancSelf hclosed (heads_anc_hello par peerHeads adv hadv h hh) hhas
    · rcases hcases with he | hhas
      · have := hello_inj v.heads peerHeads hlen adv he hadv
        exact hheads h (this ▸ hh)
      · exact closed_ancSelf hclosed (heads_anc_hello par peerHeads adv hadv h hh) hhas
  exact closed_ancSelf hclosed hx key

/-- in every no-sync case each peer head is held by the replica or is a subterm of the
replica's own hello head (one of its heads' fold inputs or one of the merge commands the
replica's own collapse would write) -/
theorem no_sync_sub (par : Nat → List Id) (v : View) (peerHeads : List Id) (adv : Id)
    (hclosed : Closed par v.has)
    (hadv : hello peerHeads = some adv)
    (hno : shouldSync (some v) adv = false) :
    ∀ h ∈ peerHeads, v.has h = true ∨ ∃ t, hello v.heads = some t ∧ Sub h t := by
  intro h hh
  rcases no_sync_cases v adv hno with he | hhas
  · exact Or.inr ⟨adv, he, foldPairs_sub _ _ _ hadv h hh⟩
  · exact Or.inl (closed_ancSelf hclosed (heads_anc_hello par peerHeads adv hadv h hh) hhas)

/-- the unrestricted claim is false: a concrete witness (replayed on the real code by c19) -/
theorem no_sync_not_sound :
    ∃ (v : View) (peerHeads : List Id) (adv : Id),
      hello peerHeads = some adv ∧ shouldSync (some v) adv = false ∧
      (∀ h ∈ v.heads, v.has h = true) ∧ ∃ x ∈ peerHeads, v.has x = false :=
  ⟨⟨[.leaf 1, .leaf 2], fun t => t == .leaf 1 || t == .leaf 2 || t == .leaf 0⟩,
   [.merge (.leaf 1) (.leaf 2)], .merge (.leaf 1) (.leaf 2), by decide, by decide, by decide, by decide⟩

/-! non-vacuity of the hypotheses of `no_sync_sound_partial` -/
example : shouldSync (some ⟨[.leaf 1, .leaf 2], fun t => t == .leaf 1 || t == .leaf 2⟩)
    (.merge (.leaf 1) (.leaf 2)) = false := by decide
example : hello [.leaf 1, .leaf 2, .leaf 3] = some (.merge (.leaf 3) (.merge (.leaf 1) (.leaf 2))) := by
  decide

end AranyaV.Spec.Hello
