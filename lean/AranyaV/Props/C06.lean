import AranyaV.Proofs.TrxClient
/-!
# C06 — Commands rejected at origin leave no trace

Model: `AranyaV.Trx` (Model/Trx.lean) after the repair of F1/F1b/F6 (notes/C06.md).
`TrxInv st t` (Proofs/Trx.lean) is the invariant every reachable transaction holding the current
stamp satisfies (`Props.C09.TipsInv`, `Proofs.TrxClient.run_inv`); the theorems below are stated
for every such transaction, every command, every batch and every sequence of batches and flushes.
-/
namespace AranyaV.Trx
open AranyaV.Spec AranyaV.Gen

/-- the effects a sink has committed: those consumed in a `begin … commit` window -/
def fxStep (acc : List (Nat × Nat) × List (Nat × Nat)) : SinkEv → List (Nat × Nat) × List (Nat × Nat)
  | .begin => (acc.1, [])
  | .consume c n => (acc.1, acc.2 ++ [(c, n)])
  | .rollback => (acc.1, [])
  | .commit => (acc.1 ++ acc.2, [])

def committedFx (evs : List SinkEv) : List (Nat × Nat) := (evs.foldl fxStep ([], [])).1

theorem foldl_consumes (c : Nat) (fx : List Nat) (acc : List (Nat × Nat) × List (Nat × Nat)) :
    ((consumes c fx).foldl fxStep acc).1 = acc.1 := by
  induction fx generalizing acc with
  | nil => rfl
  | cons x xs ih => simp only [consumes, List.map_cons, List.foldl_cons] at ih ⊢; rw [ih]; rfl

/-- a `begin … rollback` window commits nothing -/
theorem committedFx_rollback (sink : List SinkEv) (c : Nat) (fx : List Nat) :
    committedFx (sink ++ ([SinkEv.begin] ++ consumes c fx) ++ [SinkEv.rollback]) = committedFx sink := by
  simp only [committedFx, List.foldl_append, List.foldl_cons, List.foldl_nil, fxStep]
  exact foldl_consumes c fx _

/-- **reject_step.**  A single-parent command whose rule rejects (after whatever it wrote and
emitted) leaves the transaction observably unchanged: the transaction is the old one, or the old one
after a `flush` (when the command's parent was not the head of the in-flight perspective); the
accepted commands, the view and the set of tips are the same; the invariant still holds; the sink
saw `begin, consume…, rollback`, so no effect was committed. -/
theorem reject_step {st : Store} {t : Trx} (sink : List SinkEv) {c : Cmd} {p : Nat}
    (h : TrxInv st t) (hc : c.parents = [p]) (hfresh : c.id ∉ ids (cmds (view st t)))
    (hrej : (addSingle st t sink c p).2.2 = some .rejected) :
    let r := addSingle st t sink c p
    (r.1 = t ∨ r.1 = flushT t) ∧ accepted r.1 = accepted t ∧ view st r.1 = view st t ∧
    (∀ i, i ∈ tipsOf r.1 ↔ i ∈ tipsOf t) ∧ TrxInv st r.1 ∧
    (∃ s, stateOf (view st t) p = some s ∧ (rule c s).2.1 = false ∧
      r.2.1 = sink ++ ([SinkEv.begin] ++ consumes c.id (rule c s).2.2) ++ [SinkEv.rollback]) ∧
    committedFx r.2.1 = committedFx sink := by
  obtain ⟨hinv, _, hsp⟩ := addSingle_spec sink h hc hfresh
  cases hs : stateOf (view st t) p with
  | none =>
    rw [hs] at hsp
    simp only at hsp
    rw [hsp] at hrej
    cases hrej
  | some s =>
    rw [hs] at hsp
    simp only at hsp
    by_cases hr : (rule c s).2.1 = true
    · rw [if_pos hr] at hsp
      rw [hsp.1] at hrej; cases hrej
    · rw [if_neg hr] at hsp
      obtain ⟨_, hcase, hsink⟩ := hsp
      have hacc : accepted (addSingle st t sink c p).1 = accepted t := by
        rcases hcase with e | e <;> rw [e]
        exact h.view_flush.2
      have hview : view st (addSingle st t sink c p).1 = view st t := by rw [view_eq, hacc, view_eq]
      refine ⟨hcase, hacc, hview, ?_, hinv, ⟨s, rfl, by simpa using hr, hsink⟩, ?_⟩
      · intro i
        rw [tipsOf_iff hinv, tipsOf_iff h, hview]
      · rw [hsink]; exact committedFx_rollback _ _ _

/-- **reject_not_locatable.**  After a command `c` was rejected, a command naming `c` as its parent
is refused with `NoSuchParent`: `c` is in neither the committed graph nor anything the transaction
wrote or holds in flight. -/
theorem reject_not_locatable {st : Store} {t : Trx} (sink sink' : List SinkEv) {c d : Cmd} {p : Nat}
    (h : TrxInv st t) (hc : c.parents = [p]) (hfresh : c.id ∉ ids (cmds (view st t)))
    (hrej : (addSingle st t sink c p).2.2 = some .rejected)
    (hd : d.parents = [c.id]) (hdf : d.id ∉ ids (cmds (view st t))) :
    (addSingle st (addSingle st t sink c p).1 sink' d c.id).2.2 = some .noSuchParent ∧
    c.id ∉ ids (cmds (view st (addSingle st t sink c p).1)) := by
  obtain ⟨_, _, hview, _, hinv, _, _⟩ := reject_step sink h hc hfresh hrej
  have hfresh' : c.id ∉ ids (cmds (view st (addSingle st t sink c p).1)) := by rw [hview]; exact hfresh
  refine ⟨?_, hfresh'⟩
  obtain ⟨_, _, hsp⟩ := addSingle_spec sink' hinv hd (by rw [hview]; exact hdf)
  rw [stateOf_none_iff.mpr hfresh'] at hsp
  simp only at hsp
  rw [hsp]

/-! ## accepted commands still commit -/

/-- what a peer does with one open transaction between opening and committing it -/
inductive TOp where
  | add (batch : List In)
  | flush

def trxStep (gid : Nat) (st : Store) (x : Trx × List SinkEv) : TOp → Trx × List SinkEv
  | .add b => ((addLoop gid st (snapshot st x.1) x.2 b 0).1, (addLoop gid st (snapshot st x.1) x.2 b 0).2.1)
  | .flush => (flushT x.1, x.2)

/-- reference: deliver the batches one command at a time to a plain graph (`refBatch`), ignoring
flushes — no perspectives, no tips, no segments -/
def refStep (gid : Nat) (g : List SCmd) : TOp → List SCmd
  | .add b => (refBatch gid g b 0).1
  | .flush => g

/-- a transaction refines the reference delivery, whatever the batching and wherever the flushes
and the rejected commands are -/
theorem trx_refines (gid : Nat) {st : Store} (ops : List TOp) :
    ∀ {t : Trx} (sink : List SinkEv), TrxInv st t → t.offset = some st.stamp →
    TrxInv st (ops.foldl (trxStep gid st) (t, sink)).1 ∧
    (ops.foldl (trxStep gid st) (t, sink)).1.offset = some st.stamp ∧
    view st (ops.foldl (trxStep gid st) (t, sink)).1 = ops.foldl (refStep gid) (view st t) := by
  induction ops with
  | nil => intro t sink h ho; exact ⟨h, ho, rfl⟩
  | cons o rest ih =>
    intro t sink h ho
    simp only [List.foldl_cons]
    cases o with
    | add b =>
      simp only [trxStep, refStep, snapshot_some ho]
      obtain ⟨h1, h2, h3, _⟩ := addLoop_refines gid b sink 0 h
      have := ih (addLoop gid st t sink b 0).2.1 h1 (by rw [h2]; exact ho)
      rw [h3] at this
      exact this
    | flush =>
      simp only [trxStep, refStep]
      obtain ⟨h1, _, _, _, _, h6⟩ := flushT_inv h
      have := ih sink h1 (by rw [h6]; exact ho)
      rw [h.view_flush.1] at this
      exact this

/-- **accepted_still_commit.**  Open a transaction on a committed store, feed it any sequence of
batches and flushes — rejected (write-then-fail) commands, duplicates, missing parents and failing
merges at any position — then commit.  The commit never fails with a storage error: either the braid
of the new heads is refused (`ParallelFinalize`; `Bug` stands for a braid the reference rejects as
malformed) and the store is untouched, or it succeeds and the committed graph is exactly the
reference delivery of the same batches to the old graph — each accepted command stored with the
facts its own rule produced — with the frontier as head set and the next stamp. -/
theorem accepted_still_commit (gid : Nat) {st : Store} (hs : StoreInv st) (ops : List TOp) (sink : List SinkEv) :
    let x := ops.foldl (trxStep gid st) (snapshot st {}, sink)
    (∃ e, commit (some st) x.1 x.2 = (some st, x.2, .error e) ∧ (e = .parallelFinalize ∨ e = .bug)) ∨
    (∃ st' sink', commit (some st) x.1 x.2 = (some st', sink', .ok true) ∧
      st'.graph = ops.foldl (refStep gid) st.graph ∧ st'.heads = frontier (cmds st'.graph) ∧
      st'.stamp = st.stamp + 1 ∧ StoreInv st') := by
  obtain ⟨hi, ho, hv⟩ := snapshot_inv hs
  obtain ⟨h1, h2, h3⟩ := trx_refines gid ops sink hi ho
  rw [hv] at h3
  simp only
  rcases commit_live (ops.foldl (trxStep gid st) (snapshot st {}, sink)).2 hs h1 h2 with
    ⟨e, hc, he⟩ | ⟨st', sink', hc, hg, hst, hinv, hfr⟩
  · exact Or.inl ⟨e, hc, he⟩
  · refine Or.inr ⟨st', sink', hc, ?_, hfr, hst, hinv⟩
    rw [hg, ← view_eq, h3]

/-- the reference never stores a rejected command: a single-parent command whose rule rejects on
the state stored at its parent leaves the graph as it is -/
theorem refAdd_rejected (gid : Nat) (g : List SCmd) (i : In) (p : Nat) (s : Facts)
    (hp : i.cmd.parents = [p]) (hs : stateOf g p = some s) (hr : (rule i.cmd s).2.1 = false) :
    (refAdd gid g i).1 = g := by
  unfold refAdd
  split
  · rfl
  · simp [hp, hs, hr]

/-- the reference stores an accepted command with the facts of its own rule -/
theorem refAdd_accepted (gid : Nat) (g : List SCmd) (i : In) (p : Nat) (s : Facts)
    (hd : hasId g i.cmd.id = false) (hp : i.cmd.parents = [p]) (hs : stateOf g p = some s)
    (hr : (rule i.cmd s).2.1 = true) :
    refAdd gid g i = (g ++ [⟨i.cmd, (rule i.cmd s).1⟩], none) := by
  unfold refAdd
  simp [hd, hp, hs, hr]

/-! ## non-vacuity: an accepted command, then a write-then-fail command on another parent (F1's
shape), then a child of the rejected one, then commit -/

private def i0 : In := { cmd := { id := 1, parents := [], prio := .init, body := [.set 0 0] }, pol := true }
private def ca : In := { cmd := { id := 2, parents := [1], prio := .basic 0, body := [.set 1 1, .emit 3] }, pol := false }
private def cz : In := { cmd := { id := 9, parents := [1], prio := .basic 0, body := [.set 2 2, .emit 7, .fail] }, pol := false }
private def cd : In := { cmd := { id := 8, parents := [9], prio := .basic 0, body := [] }, pol := false }
private def hist : List AranyaV.Trx.Op := [.openT 0, .add 0 [i0], .commit 0, .openT 1, .add 1 [ca], .add 1 [cz], .add 1 [cd], .commit 1]

example : (run { gid := 1 } hist).store.map (fun s => (s.heads, s.graph.map (·.cmd.id), s.facts.f)) =
    some ([2], [1, 2], [(0, 0), (1, 1)]) := by decide +kernel
example : (step (run { gid := 1 } (hist.take 5)) (.add 1 [cz])).2 = .err .rejected := by decide +kernel
example : (step (run { gid := 1 } (hist.take 6)) (.add 1 [cd])).2 = .err .noSuchParent := by decide +kernel
example : committedFx (run { gid := 1 } hist).sink = [(2, 3)] := by decide +kernel

end AranyaV.Trx
