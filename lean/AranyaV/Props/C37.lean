import AranyaV.Proofs.Framing
import AranyaV.Proofs.SymHpke
import AranyaV.Proofs.FramingSeal
import AranyaV.Spec.SymSeal
/-!
# C37 — Encryption round-trips and is bound to its context

Group keys, sealed group keys, sealed PSK seeds, sealed topic keys and topic-key messages.
Partial by nature: AEAD, KEM, KDF and hash are *symbolic* here.

* **byte level**: each context encoding is injective in its components for all byte strings —
  the group-key `info` (tuple-hash framing, `gk_info_inj`), the fixed-width HPKE infos
  (`sgk_info_inj`, `psk_info_inj`, `topic_info_inj`, with the OID suffix `hpke_info_inj`), the
  topic-message AD (`msg_ad_inj`), and seal and open frame identically (`msg_ad_agree`).
* **symbolic level**: `open ∘ seal = id` for every primitive, and `*_open_reuse`: whenever an
  accepted ciphertext contains the body or the tag of an honest sealing, *every* key and context
  component and every ciphertext part is unchanged — so any change of ciphertext, label, parent,
  author key, group, version, topic, sender or recipient key fails (`open_fails`).
-/
namespace AranyaV.C37
open AranyaV.Framing Gen.C37

/-! ## Byte level -/

theorem be32_inj {v w : Nat} (hv : v < 2 ^ 32) (hw : w < 2 ^ 32) (h : be32 v = be32 w) : v = w := by
  simp only [be32, List.cons.injEq, and_true] at h
  obtain ⟨h1, h2, h3, h4⟩ := h
  have e1 := congrArg UInt8.toNat h1
  have e2 := congrArg UInt8.toNat h2
  have e3 := congrArg UInt8.toNat h3
  have e4 := congrArg UInt8.toNat h4
  simp only [UInt8.toNat_ofNat'] at e1 e2 e3 e4
  omega

theorem be32_length (v : Nat) : (be32 v).length = 4 := rfl

/-- **Fixed-width records are injective**: `domain ‖ fields ‖ rest` determines every field and the
rest, for all contents of the declared widths. -/
theorem fixedLayout_inj {α : Type} {domain : Bytes} {layout : List (α × Nat)} {g g' : α → Bytes}
    {r r' : Bytes} (hg : LayoutOk layout g) (hg' : LayoutOk layout g')
    (h : fixedLayout domain layout g ++ r = fixedLayout domain layout g' ++ r') :
    (∀ p ∈ layout, g p.1 = g' p.1) ∧ r = r' :=
  Framing.fixedLayout_inj hg hg' h

/-- the HPKE info seen by the primitive (`info ‖ encoded OIDs`) determines the caller's info -/
theorem hpke_info_inj {info info' : Bytes} {oids : List Bytes}
    (h : hpkeInfo info oids = hpkeInfo info' oids) : info = info' := by
  unfold hpkeInfo at h
  exact List.append_cancel_right h

/-- sealed group keys: the info / AD `"GroupKey-v1" ‖ group` binds the group id -/
theorem sgk_info_inj {g g' : Bytes} {oids : List Bytes} (hg : g.length = 32) (hg' : g'.length = 32)
    (h : hpkeInfo (sgkInfo g) oids = hpkeInfo (sgkInfo g') oids) : g = g' := by
  have := hpke_info_inj h
  unfold sgkInfo at this
  have h2 := (fixedLayout_inj (r := []) (r' := []) (layout := sgkLayout) (g := sgkItem g) (g' := sgkItem g')
    (by intro p hp; simp [sgkLayout] at hp; subst hp; exact hg)
    (by intro p hp; simp [sgkLayout] at hp; subst hp; exact hg') (by simpa using this)).1
  exact h2 (.group, 32) (by decide)

/-- sealed PSK seeds: the info / AD `"PskSeed-v1" ‖ group` binds the group id -/
theorem psk_info_inj {g g' : Bytes} {oids : List Bytes} (hg : g.length = 32) (hg' : g'.length = 32)
    (h : hpkeInfo (pskInfo g) oids = hpkeInfo (pskInfo g') oids) : g = g' := by
  have := hpke_info_inj h
  unfold pskInfo at this
  have h2 := (fixedLayout_inj (r := []) (r' := []) (layout := pskLayout) (g := pskItem g) (g' := pskItem g')
    (by intro p hp; simp [pskLayout] at hp; subst hp; exact hg)
    (by intro p hp; simp [pskLayout] at hp; subst hp; exact hg') (by simpa using this)).1
  exact h2 (.group, 32) (by decide)

/-- the sealed-group-key and PSK-seed infos never coincide (domain separation) -/
theorem sgk_ne_psk (g g' : Bytes) : sgkInfo g ≠ pskInfo g' := by
  intro h
  have := congrArg (fun l => l.take 5) h
  simp [sgkInfo, pskInfo, fixedLayout, sgkDomain, pskDomain] at this

/-- sealed topic keys: the info / AD binds version and topic -/
theorem topic_info_inj {v v' t t' : Bytes} {oids : List Bytes}
    (hv : v.length = 4) (hv' : v'.length = 4) (ht : t.length = 16) (ht' : t'.length = 16)
    (h : hpkeInfo (topicInfo v t) oids = hpkeInfo (topicInfo v' t') oids) : v = v' ∧ t = t' := by
  have := hpke_info_inj h
  unfold topicInfo at this
  have h2 := (fixedLayout_inj (r := []) (r' := []) (layout := topicLayout)
    (g := topicItem v t) (g' := topicItem v' t')
    (by intro p hp; simp [topicLayout] at hp; rcases hp with rfl | rfl <;> simp [topicItem, hv, ht])
    (by intro p hp; simp [topicLayout] at hp; rcases hp with rfl | rfl <;> simp [topicItem, hv', ht'])
    (by simpa using this)).1
  exact ⟨h2 (.version, 4) (by decide), h2 (.topic, 16) (by decide)⟩

theorem gkOrder_complete : ∀ f : GkField, f ∈ gkOrder := by intro f; cases f <;> decide
theorem sealMsgOrder_complete : ∀ f : MsgField, f ∈ sealMsgOrder := by intro f; cases f <;> decide
theorem msgOrder_agree : sealMsgOrder = openMsgOrder := by decide

/-- **group keys**: the context digest preimage (KDF info and AEAD AD) binds label, parent
command id and author key id — for all byte strings, with no boundary shift between them. -/
theorem gk_info_inj {oids oids' : List Bytes} {l p a l' p' a' : Bytes} {L L' : Nat}
    (ho : AllShort oids) (ho' : AllShort oids') (hl : Short l) (hp : Short p) (ha : Short a)
    (hl' : Short l') (hp' : Short p') (ha' : Short a') (hL : L < 2 ^ 64) (hL' : L' < 2 ^ 64)
    (h : gkInfoPreimage oids l p a L = gkInfoPreimage oids' l' p' a' L') :
    oids = oids' ∧ l = l' ∧ p = p' ∧ a = a' := by
  unfold gkInfoPreimage at h
  have hs : ∀ {x y z : Bytes}, Short x → Short y → Short z → AllShort (gkOrder.map (gkItem x y z)) := by
    intro x y z hx hy hz s hs
    simp only [List.mem_map] at hs
    obtain ⟨f, _, rfl⟩ := hs
    cases f <;> assumption
  have ht : Short groupKeyTag := by simp [Short, groupKeyTag]
  obtain ⟨_, h2, h3, _⟩ := suiteTuplePreimage_inj ht ht ho ho' (hs hl hp ha) (hs hl' hp' ha') hL hL' (by simp) h
  have hget := Framing.map_eq_on h3
  exact ⟨h2, hget .label (gkOrder_complete _), hget .parent (gkOrder_complete _), hget .author (gkOrder_complete _)⟩

/-- **topic-key messages**: the AD binds version, topic and both sender key ids -/
theorem msg_ad_inj {oids : List Bytes} {v t e s v' t' e' s' : Bytes} {L : Nat}
    (ho : AllShort oids) (hv : Short v) (ht : Short t) (he : Short e) (hs : Short s)
    (hv' : Short v') (ht' : Short t') (he' : Short e') (hs' : Short s') (hL : L < 2 ^ 64)
    (h : sealMsgAdPreimage oids v t e s L = sealMsgAdPreimage oids v' t' e' s' L) :
    v = v' ∧ t = t' ∧ e = e' ∧ s = s' := by
  unfold sealMsgAdPreimage at h
  have hsh : ∀ {a b c d : Bytes}, Short a → Short b → Short c → Short d →
      AllShort (sealMsgOrder.map (msgItem a b c d)) := by
    intro a b c d h1 h2 h3 h4 x hx
    simp only [List.mem_map] at hx
    obtain ⟨f, _, rfl⟩ := hx
    cases f <;> assumption
  have htg : Short apqMsgTag := by simp [Short, apqMsgTag]
  obtain ⟨_, _, h3, _⟩ := suiteTuplePreimage_inj htg htg ho ho (hsh hv ht he hs) (hsh hv' ht' he' hs') hL hL (by simp) h
  have hget := Framing.map_eq_on h3
  exact ⟨hget .version (sealMsgOrder_complete _), hget .topic (sealMsgOrder_complete _),
    hget .encKey (sealMsgOrder_complete _), hget .signKey (sealMsgOrder_complete _)⟩

/-- `open_message` recomputes exactly the AD bytes `seal_message` authenticated -/
theorem msg_ad_agree (oids : List Bytes) (v t e s : Bytes) (L : Nat) :
    openMsgAdPreimage oids v t e s L = sealMsgAdPreimage oids v t e s L := by
  unfold openMsgAdPreimage sealMsgAdPreimage; rw [msgOrder_agree]

example : sgkInfo (List.replicate 32 7) =
    [71, 114, 111, 117, 112, 75, 101, 121, 45, 118, 49] ++ List.replicate 32 7 := by
  simp [sgkInfo, fixedLayout, sgkDomain, sgkLayout, sgkItem]

example : topicInfo (be32 1) (List.replicate 16 9) =
    topicDomain ++ [0, 0, 0, 1] ++ List.replicate 16 9 := by
  simp [topicInfo, fixedLayout, topicLayout, topicItem, be32]

/-! ## Symbolic level -/

open AranyaV.Sym

theorem sym_gkInfo_inj {oids : List Term} {c c' : GkCtx} (h : gkInfo oids c = gkInfo oids c') : c = c' := by
  have hget := Sym.map_eq_on (thash_inj h).2
  have h1 := hget .label (gkOrder_complete _)
  have h2 := hget .parent (gkOrder_complete _)
  have h3 := hget .author (gkOrder_complete _)
  simp only [GkCtx.get] at h1 h2 h3
  cases c; cases c'; simp_all

theorem gkKey_inj {s s' i i' : Term} (h : gkKey s i = gkKey s' i') : s = s' ∧ i = i' := by
  simp only [gkKey, Term.kdf.injEq] at h
  have := tuple_inj h.2
  simp only [List.cons.injEq, and_true, true_and] at this
  exact ⟨h.1.1, this⟩

/-- group keys: `open ∘ seal = id` -/
theorem gk_open_seal (oids : List Term) (seed : Term) (c : GkCtx) (n pt : Term) :
    gkOpen oids seed c (gkSeal oids seed c n pt) = some pt := by
  simp [gkOpen, gkSeal, aeadOpen]

/-- group keys: an accepted ciphertext that reuses the body or the tag of an honest sealing has
the same seed, the same label / parent / author key, and is that sealing -/
theorem gk_open_reuse {oids : List Term} {seed seed' : Term} {c c' : GkCtx} {n pt pt' : Term}
    {s' : Sealed} (ho : gkOpen oids seed' c' s' = some pt')
    (hreuse : s'.body = (gkSeal oids seed c n pt).body ∨ s'.tag = (gkSeal oids seed c n pt).tag) :
    seed' = seed ∧ c' = c ∧ s' = gkSeal oids seed c n pt ∧ pt' = pt := by
  simp only [gkOpen] at ho
  obtain ⟨hb, ht⟩ := aeadOpen_eq_some.mp ho
  have key : gkKey seed' (gkInfo oids c') = gkKey seed (gkInfo oids c) ∧ s'.nonce = n ∧ pt' = pt := by
    rcases hreuse with h | h
    · rw [hb] at h; simp only [gkSeal, Term.enc.injEq] at h; exact ⟨h.1, h.2.1, h.2.2.2⟩
    · rw [ht] at h; simp only [gkSeal, encTag, Term.etag.injEq] at h; exact ⟨h.1, h.2.1, h.2.2.2⟩
  obtain ⟨hk, hn, rfl⟩ := key
  obtain ⟨rfl, hi⟩ := gkKey_inj hk
  have := sym_gkInfo_inj hi
  subst this
  refine ⟨rfl, rfl, ?_, rfl⟩
  cases s'
  simp only [gkSeal, Sealed.mk.injEq] at *
  subst hn
  exact ⟨rfl, hb, ht⟩

theorem sgkInfo_inj {g g' : Term} (h : Sym.sgkInfo g = Sym.sgkInfo g') : g = g' := by
  have := tuple_inj h
  simpa [sgkLayout] using this

theorem pskInfo_inj {g g' : Term} (h : Sym.pskInfo g = Sym.pskInfo g') : g = g' := by
  have := tuple_inj h
  simpa [pskLayout] using this

theorem topicInfo_inj {v t v' t' : Term} (h : Sym.topicInfo v t = Sym.topicInfo v' t') : v = v' ∧ t = t' := by
  have := tuple_inj h
  simpa [topicLayout] using this

/-- sealed group keys: `open ∘ seal = id` for the holder of the recipient key -/
theorem sgk_open_seal (e r : Nat) (group seed : Term) :
    ∃ enc b t, sealGroupKey e (pkOf r) group seed = some (enc, b, t) ∧
      openGroupKey r enc b t group = some seed := by
  obtain ⟨enc, b, t, h1, h2⟩ := hpke_open_seal (skS := none) (e := e) (r := r)
    (info := Sym.sgkInfo group) (ad := Sym.sgkInfo group) (pt := seed)
  exact ⟨enc, b, t, h1, h2⟩

/-- sealed group keys: anything accepted that reuses the honest body or tag was sealed to this
recipient key for this group, and nothing (encapsulation, body, tag) was changed -/
theorem sgk_open_reuse {e r' : Nat} {pkR group seed enc b t enc' b' t' group' seed' : Term}
    (hs : sealGroupKey e pkR group seed = some (enc, b, t))
    (ho : openGroupKey r' enc' b' t' group' = some seed') (hreuse : b' = b ∨ t' = t) :
    pkR = pkOf r' ∧ group' = group ∧ enc' = enc ∧ b' = b ∧ t' = t ∧ seed' = seed := by
  obtain ⟨h1, h2, _, h4, _, h6, h7, h8⟩ := hpke_open_reuse hs ho hreuse
  exact ⟨h2, sgkInfo_inj h4, h1, h6, h7, h8⟩

/-- PSK seeds: `open ∘ seal = id` between two different encryption keys -/
theorem psk_open_seal (s e r : Nat) (group seed : Term) (hsr : s ≠ r) :
    ∃ enc b t, sealPskSeed s e (pkOf r) group seed = some (enc, b, t) ∧
      openPskSeed r enc b t (pkOf s) group = some seed := by
  obtain ⟨enc, b, t, h1, h2⟩ := hpke_open_seal (skS := some s) (e := e) (r := r)
    (info := Sym.pskInfo group) (ad := Sym.pskInfo group) (pt := seed)
  refine ⟨enc, b, t, ?_, h2⟩
  unfold sealPskSeed
  have : Term.pk (.sk s) ≠ pkOf r := fun h => hsr (pkOf_inj h)
  simp [this, h1]

/-- sealing a PSK seed to one's own key is refused -/
theorem psk_seal_self_rejected (s e : Nat) (group seed : Term) :
    sealPskSeed s e (pkOf s) group seed = none := by
  simp [sealPskSeed, pkOf]

/-- PSK seeds: anything accepted that reuses the honest body or tag has the sender's key as
`peer_pk`, was sealed to this recipient, for this group, and is unchanged -/
theorem psk_open_reuse {s e r' : Nat} {pkR group seed enc b t enc' b' t' peer' group' seed' : Term}
    (hs : sealPskSeed s e pkR group seed = some (enc, b, t))
    (ho : openPskSeed r' enc' b' t' peer' group' = some seed') (hreuse : b' = b ∨ t' = t) :
    pkR = pkOf r' ∧ peer' = pkOf s ∧ group' = group ∧ enc' = enc ∧ b' = b ∧ t' = t ∧ seed' = seed := by
  unfold sealPskSeed at hs
  split at hs
  · cases hs
  · obtain ⟨h1, h2, h3, h4, _, h6, h7, h8⟩ := hpke_open_reuse hs ho hreuse
    simp only [Option.map_some, Option.some.injEq] at h3
    exact ⟨h2, h3, pskInfo_inj h4, h1, h6, h7, h8⟩

/-- topic keys: `open ∘ seal = id` -/
theorem topic_open_seal (s e r : Nat) (version topic seed : Term) :
    ∃ enc b t, sealTopicKey s e (pkOf r) version topic seed = some (enc, b, t) ∧
      openTopicKey r enc b t (pkOf s) version topic = some seed := by
  obtain ⟨enc, b, t, h1, h2⟩ := hpke_open_seal (skS := some s) (e := e) (r := r)
    (info := Sym.topicInfo version topic) (ad := Sym.topicInfo version topic) (pt := seed)
  exact ⟨enc, b, t, h1, h2⟩

/-- topic keys: anything accepted that reuses the honest body or tag names the real sender key,
was sealed to this receiver key, for this version and topic, and is unchanged -/
theorem topic_open_reuse {s e r' : Nat}
    {pkR version topic seed enc b t enc' b' t' sender' version' topic' seed' : Term}
    (hs : sealTopicKey s e pkR version topic seed = some (enc, b, t))
    (ho : openTopicKey r' enc' b' t' sender' version' topic' = some seed') (hreuse : b' = b ∨ t' = t) :
    pkR = pkOf r' ∧ sender' = pkOf s ∧ version' = version ∧ topic' = topic ∧
      enc' = enc ∧ b' = b ∧ t' = t ∧ seed' = seed := by
  obtain ⟨h1, h2, h3, h4, _, h6, h7, h8⟩ := hpke_open_reuse hs ho hreuse
  simp only [Option.map_some, Option.some.injEq] at h3
  obtain ⟨hv, ht⟩ := topicInfo_inj h4
  exact ⟨h2, h3, hv, ht, h1, h6, h7, h8⟩

theorem sym_msgAd_inj {oids : List Term} {c c' : MsgCtx} (h : openMsgAd oids c' = sealMsgAd oids c) : c' = c := by
  unfold openMsgAd at h
  rw [← msgOrder_agree] at h
  have hget := Sym.map_eq_on (thash_inj h).2
  have h1 := hget .version (sealMsgOrder_complete _)
  have h2 := hget .topic (sealMsgOrder_complete _)
  have h3 := hget .encKey (sealMsgOrder_complete _)
  have h4 := hget .signKey (sealMsgOrder_complete _)
  simp only [MsgCtx.get] at h1 h2 h3 h4
  cases c; cases c'; simp_all

/-- topic-key messages: `open ∘ seal = id` -/
theorem msg_open_seal (oids : List Term) (k : Term) (c : MsgCtx) (n pt : Term) :
    msgOpen oids k c (msgSeal oids k c n pt) = some pt := by
  have : openMsgAd oids c = sealMsgAd oids c := by unfold openMsgAd sealMsgAd; rw [msgOrder_agree]
  simp [msgOpen, msgSeal, aeadOpen, this]

/-- topic-key messages: an accepted ciphertext reusing the honest body or tag was opened with the
same key and the same (version, topic, sender keys), and is unchanged -/
theorem msg_open_reuse {oids : List Term} {k k' : Term} {c c' : MsgCtx} {n pt pt' : Term} {s' : Sealed}
    (ho : msgOpen oids k' c' s' = some pt')
    (hreuse : s'.body = (msgSeal oids k c n pt).body ∨ s'.tag = (msgSeal oids k c n pt).tag) :
    k' = k ∧ c' = c ∧ s' = msgSeal oids k c n pt ∧ pt' = pt := by
  simp only [msgOpen] at ho
  obtain ⟨hb, ht⟩ := aeadOpen_eq_some.mp ho
  have key : k' = k ∧ s'.nonce = n ∧ openMsgAd oids c' = sealMsgAd oids c ∧ pt' = pt := by
    rcases hreuse with h | h
    · rw [hb] at h; simpa [msgSeal] using h
    · rw [ht] at h; simpa [msgSeal, encTag] using h
  obtain ⟨rfl, hn, had, rfl⟩ := key
  have := sym_msgAd_inj had
  subst this
  refine ⟨rfl, rfl, ?_, rfl⟩
  cases s'
  simp only [msgSeal, Sealed.mk.injEq] at *
  subst hn
  exact ⟨rfl, by rw [hb, had], by rw [ht, had]⟩

/-- **`open ∘ seal = id`** for all five primitives. -/
theorem open_seal (oids : List Term) :
    (∀ seed c n pt, gkOpen oids seed c (gkSeal oids seed c n pt) = some pt) ∧
    (∀ e r group seed, ∃ enc b t, sealGroupKey e (pkOf r) group seed = some (enc, b, t) ∧
      openGroupKey r enc b t group = some seed) ∧
    (∀ s e r group seed, s ≠ r → ∃ enc b t, sealPskSeed s e (pkOf r) group seed = some (enc, b, t) ∧
      openPskSeed r enc b t (pkOf s) group = some seed) ∧
    (∀ s e r v tp seed, ∃ enc b t, sealTopicKey s e (pkOf r) v tp seed = some (enc, b, t) ∧
      openTopicKey r enc b t (pkOf s) v tp = some seed) ∧
    (∀ k c n pt, msgOpen oids k c (msgSeal oids k c n pt) = some pt) :=
  ⟨gk_open_seal oids, sgk_open_seal, psk_open_seal, topic_open_seal, msg_open_seal oids⟩

/-- **Any ciphertext or context change fails** (group keys, stated as a rejection): take the
honest sealing `gkSeal seed c n pt`; present anything that still contains its body or its tag,
with any seed and context.  If the seed, the label, the parent, the author key, the nonce, the
body or the tag differs, `open` returns an error. -/
theorem open_fails {oids : List Term} {seed seed' : Term} {c c' : GkCtx} {n pt : Term} {s' : Sealed}
    (hreuse : s'.body = (gkSeal oids seed c n pt).body ∨ s'.tag = (gkSeal oids seed c n pt).tag)
    (hchg : seed' ≠ seed ∨ c'.label ≠ c.label ∨ c'.parent ≠ c.parent ∨ c'.author ≠ c.author ∨
      s' ≠ gkSeal oids seed c n pt) :
    gkOpen oids seed' c' s' = none := by
  cases h : gkOpen oids seed' c' s' with
  | none => rfl
  | some pt' =>
    obtain ⟨h1, h2, h3, _⟩ := gk_open_reuse h hreuse
    subst h1 h2
    rcases hchg with h | h | h | h | h
    · exact absurd rfl h
    · exact absurd rfl h
    · exact absurd rfl h
    · exact absurd rfl h
    · exact absurd h3 h

/-- the same rejection for the three HPKE-sealed secrets and for topic-key messages -/
theorem open_fails_hpke :
    (∀ {e r' : Nat} {pkR group seed enc b t enc' b' t' group' : Term},
      sealGroupKey e pkR group seed = some (enc, b, t) → (b' = b ∨ t' = t) →
      (pkR ≠ pkOf r' ∨ group' ≠ group ∨ enc' ≠ enc ∨ b' ≠ b ∨ t' ≠ t) →
      openGroupKey r' enc' b' t' group' = none) ∧
    (∀ {s e r' : Nat} {pkR group seed enc b t enc' b' t' peer' group' : Term},
      sealPskSeed s e pkR group seed = some (enc, b, t) → (b' = b ∨ t' = t) →
      (pkR ≠ pkOf r' ∨ peer' ≠ pkOf s ∨ group' ≠ group ∨ enc' ≠ enc ∨ b' ≠ b ∨ t' ≠ t) →
      openPskSeed r' enc' b' t' peer' group' = none) ∧
    (∀ {s e r' : Nat} {pkR v tp seed enc b t enc' b' t' sender' v' tp' : Term},
      sealTopicKey s e pkR v tp seed = some (enc, b, t) → (b' = b ∨ t' = t) →
      (pkR ≠ pkOf r' ∨ sender' ≠ pkOf s ∨ v' ≠ v ∨ tp' ≠ tp ∨ enc' ≠ enc ∨ b' ≠ b ∨ t' ≠ t) →
      openTopicKey r' enc' b' t' sender' v' tp' = none) ∧
    (∀ {oids : List Term} {k k' : Term} {c c' : MsgCtx} {n pt : Term} {s' : Sealed},
      (s'.body = (msgSeal oids k c n pt).body ∨ s'.tag = (msgSeal oids k c n pt).tag) →
      (k' ≠ k ∨ c' ≠ c ∨ s' ≠ msgSeal oids k c n pt) →
      msgOpen oids k' c' s' = none) := by
  refine ⟨?_, ?_, ?_, ?_⟩
  · intro e r' pkR group seed enc b t enc' b' t' group' hs hreuse hchg
    cases h : openGroupKey r' enc' b' t' group' with
    | none => rfl
    | some x =>
      obtain ⟨h1, h2, h3, h4, h5, _⟩ := sgk_open_reuse hs h hreuse
      rcases hchg with g | g | g | g | g <;> contradiction
  · intro s e r' pkR group seed enc b t enc' b' t' peer' group' hs hreuse hchg
    cases h : openPskSeed r' enc' b' t' peer' group' with
    | none => rfl
    | some x =>
      obtain ⟨h1, h2, h3, h4, h5, h6, _⟩ := psk_open_reuse hs h hreuse
      rcases hchg with g | g | g | g | g | g <;> contradiction
  · intro s e r' pkR v tp seed enc b t enc' b' t' sender' v' tp' hs hreuse hchg
    cases h : openTopicKey r' enc' b' t' sender' v' tp' with
    | none => rfl
    | some x =>
      obtain ⟨h1, h2, h3, h4, h5, h6, h7, _⟩ := topic_open_reuse hs h hreuse
      rcases hchg with g | g | g | g | g | g | g <;> contradiction
  · intro oids k k' c c' n pt s' hreuse hchg
    cases h : msgOpen oids k' c' s' with
    | none => rfl
    | some x =>
      obtain ⟨h1, h2, h3, _⟩ := msg_open_reuse h hreuse
      rcases hchg with g | g | g <;> contradiction

-- non-vacuity
example :
    let oids := [Term.lit [1]]
    let c : GkCtx := ⟨.lit [65], .lit [7], .lit [9]⟩
    let s := gkSeal oids (.sk 0) c (.lit [1]) (.lit [42])
    gkOpen oids (.sk 0) c s = some (.lit [42]) ∧
    gkOpen oids (.sk 1) c s = none ∧
    gkOpen oids (.sk 0) { c with label := .lit [66] } s = none ∧
    gkOpen oids (.sk 0) { c with parent := .lit [8] } s = none ∧
    gkOpen oids (.sk 0) { c with author := .lit [8] } s = none ∧
    gkOpen oids (.sk 0) c { s with tag := .lit [0] } = none := by
  decide

example :
    (sealTopicKey 1 5 (pkOf 2) (.lit [0, 0, 0, 1]) (.lit [3]) (.sk 9)).bind
      (fun x => openTopicKey 2 x.1 x.2.1 x.2.2 (pkOf 1) (.lit [0, 0, 0, 1]) (.lit [3])) = some (.sk 9) ∧
    (sealTopicKey 1 5 (pkOf 2) (.lit [0, 0, 0, 1]) (.lit [3]) (.sk 9)).bind
      (fun x => openTopicKey 2 x.1 x.2.1 x.2.2 (pkOf 1) (.lit [0, 0, 0, 2]) (.lit [3])) = none ∧
    (sealTopicKey 1 5 (pkOf 2) (.lit [0, 0, 0, 1]) (.lit [3]) (.sk 9)).bind
      (fun x => openTopicKey 2 x.1 x.2.1 x.2.2 (pkOf 4) (.lit [0, 0, 0, 1]) (.lit [3])) = none ∧
    (sealTopicKey 1 5 (pkOf 2) (.lit [0, 0, 0, 1]) (.lit [3]) (.sk 9)).bind
      (fun x => openTopicKey 3 x.1 x.2.1 x.2.2 (pkOf 1) (.lit [0, 0, 0, 1]) (.lit [3])) = none := by
  decide

end AranyaV.C37
