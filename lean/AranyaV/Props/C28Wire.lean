import AranyaV.Proofs.ModuleWire
import AranyaV.Gen.ModuleSchema
/-!
# C28, serialization part — the postcard form of `ModuleV0` round-trips  (proved)

`encode m` is what `postcard::to_allocvec(&module_v0)` writes, `decode d bs` what
`postcard::from_bytes::<ModuleV0>(bs)` reads, for the layout generated from the Rust declarations
(`AranyaV.Gen.ModuleSchema`: every field order and variant order of `ModuleV0`, `Instruction`,
`Target`, `ExitReason`, `WrapType`, `Meta`, `Label`, `LabelType`, `ConstValue`, `ConstStruct`,
`TypeKind`, `ResultTypeKind`, `Field`, `Persistence`, `ActionDef`, `CommandDef`, `Attribute`,
`FactDef`, `StructDef`, `EnumDef`, `CodeMap`, `Span` — nothing is an opaque blob).

`d` bounds the nesting depth of the two recursive types (`ConstValue`, `TypeKind`); the theorems
hold for every `d`, well-formedness is monotone in `d` (`wf_module_mono`), so a module that is
well formed at some depth round-trips at every larger depth (`module_decode_encode_any_depth`).
-/
namespace AranyaV.ModuleWire
open AranyaV.Wire AranyaV.Gen.ModuleSchema

/-- a module value (serde data-model tree) of nesting depth at most `d` -/
def WFModule (d : Nat) (m : Val) : Prop := wf (sModuleV0 d) m = true

/-- `postcard::to_allocvec(&ModuleV0)` -/
def encode (m : Val) : Bytes := enc m

/-- `postcard::from_bytes::<ModuleV0>` (a total function: every failure is an `Except.error`) -/
def decode (d : Nat) (bs : Bytes) : Except PErr Val := fromBytes (sModuleV0 d) bs

/-- **module_decode_encode**: decoding the serialized form of any module gives the module back,
with nothing left over (`rest = []`), and more generally leaves exactly what followed -/
theorem module_decode_encode (d : Nat) (m : Val) (h : WFModule d m) (rest : Bytes) :
    dec (sModuleV0 d) (encode m ++ rest) = .ok (m, rest) :=
  dec_enc (sModuleV0 d) m rest h

theorem module_fromBytes_encode (d : Nat) (m : Val) (h : WFModule d m) :
    decode d (encode m) = .ok m :=
  fromBytes_enc (sModuleV0 d) m h

/-- **injectivity**: two different modules never have the same serialized bytes -/
theorem module_encode_inj (d : Nat) (m m' : Val) (h : WFModule d m) (h' : WFModule d m')
    (e : encode m = encode m') : m = m' :=
  enc_inj (sModuleV0 d) m m' h h' e

/-- `decode` is total: on every input it returns either a value or one of the six error classes -/
theorem decode_total (d : Nat) (bs : Bytes) :
    (∃ m, decode d bs = .ok m) ∨ (∃ e, decode d bs = .error e) := by
  cases h : decode d bs with
  | ok m => exact Or.inl ⟨m, rfl⟩
  | error e => exact Or.inr ⟨e, rfl⟩

/-- per-instruction form of the round trip (what `progmem` is made of) -/
theorem instruction_decode_encode (d : Nat) (i : Val) (h : wf (sInstruction d) i = true) (rest : Bytes) :
    dec (sInstruction d) (enc i ++ rest) = .ok (i, rest) :=
  dec_enc (sInstruction d) i rest h

/-! ## the depth bound is harmless: well-formedness is monotone in it -/

mutual
/-- `s ⊑ t`: `t` is `s` with (possibly) some `fail`s replaced by real schemas -/
def sle : Sch → Sch → Bool
  | .fail, _ => true
  | .u, .u => true
  | .nz, .nz => true
  | .i64, .i64 => true
  | .bool, .bool => true
  | .str k, .str k' => decide (k = k')
  | .opt a, .opt b => sle a b
  | .seq a, .seq b => sle a b
  | .map a, .map b => sle a b
  | .tup as, .tup bs => sleList as bs
  | .enum as, .enum bs => sleList as bs
  | _, _ => false
def sleList : List Sch → List Sch → Bool
  | [], [] => true
  | a :: as, b :: bs => sle a b && sleList as bs
  | _, _ => false
end

mutual
theorem sle_refl : (s : Sch) → sle s s = true
  | .u | .nz | .i64 | .bool | .fail => by simp [sle]
  | .str k => by simp [sle]
  | .opt a => by simp [sle, sle_refl a]
  | .seq a => by simp [sle, sle_refl a]
  | .map a => by simp [sle, sle_refl a]
  | .tup as => by simp [sle, sleList_refl as]
  | .enum as => by simp [sle, sleList_refl as]
theorem sleList_refl : (ss : List Sch) → sleList ss ss = true
  | [] => by simp [sleList]
  | s :: ss => by simp [sleList, sle_refl s, sleList_refl ss]
end

mutual
theorem wf_le : (s t : Sch) → (v : Val) → sle s t = true → wf s v = true → wf t v = true
  | .fail, _, v, _, h => by simp [wf] at h
  | .u, t, v, hs, h => by cases t <;> simp [sle] at hs; exact h
  | .nz, t, v, hs, h => by cases t <;> simp [sle] at hs; exact h
  | .i64, t, v, hs, h => by cases t <;> simp [sle] at hs; exact h
  | .bool, t, v, hs, h => by cases t <;> simp [sle] at hs; exact h
  | .str k, t, v, hs, h => by
    cases t <;> simp [sle] at hs
    subst hs; exact h
  | .opt a, t, v, hs, h => by
    cases t <;> simp [sle] at hs
    rename_i b
    cases v with
    | none => simp [wf]
    | some w => simp only [wf] at h ⊢; exact wf_le a b w hs h
    | _ => simp [wf] at h
  | .seq a, t, v, hs, h => by
    cases t <;> simp [sle] at hs
    rename_i b
    cases v <;> simp [wf] at h
    rename_i vs
    simp only [wf, Bool.and_eq_true, decide_eq_true_eq, List.all_eq_true]
    exact ⟨h.1, fun x hx => wf_le a b x hs (h.2 x hx)⟩
  | .map a, t, v, hs, h => by
    cases t <;> simp [sle] at hs
    rename_i b
    cases v <;> simp [wf] at h
    rename_i vs
    simp only [wf, Bool.and_eq_true, decide_eq_true_eq, List.all_eq_true]
    exact ⟨⟨h.1.1, fun x hx => wf_le a b x hs (h.1.2 x hx)⟩, h.2⟩
  | .tup as, t, v, hs, h => by
    cases t <;> simp [sle] at hs
    rename_i bs
    cases v <;> simp [wf] at h
    rename_i vs
    simp only [wf]
    exact wfTuple_le as bs vs hs h
  | .enum as, t, v, hs, h => by
    cases t <;> simp [sle] at hs
    rename_i bs
    cases v <;> simp [wf] at h
    rename_i i p
    simp only [wf, Bool.and_eq_true, decide_eq_true_eq]
    exact ⟨h.1, wfVariant_le as bs i p hs h.2⟩
theorem wfTuple_le : (ss ts : List Sch) → (vs : List Val) → sleList ss ts = true →
    wfTuple ss vs = true → wfTuple ts vs = true
  | [], ts, vs, hs, h => by
    cases ts <;> simp [sleList] at hs
    exact h
  | s :: ss, ts, vs, hs, h => by
    cases ts with
    | nil => simp [sleList] at hs
    | cons t ts =>
      simp only [sleList, Bool.and_eq_true] at hs
      cases vs with
      | nil => simp [wfTuple] at h
      | cons v vs =>
        simp only [wfTuple, Bool.and_eq_true] at h ⊢
        exact ⟨wf_le s t v hs.1 h.1, wfTuple_le ss ts vs hs.2 h.2⟩
theorem wfVariant_le : (ss ts : List Sch) → (i : Nat) → (v : Val) → sleList ss ts = true →
    wfVariant ss i v = true → wfVariant ts i v = true
  | [], _, _, _, _, h => by simp [wfVariant] at h
  | s :: ss, ts, i, v, hs, h => by
    cases ts with
    | nil => simp [sleList] at hs
    | cons t ts =>
      simp only [sleList, Bool.and_eq_true] at hs
      cases i with
      | zero => simp only [wfVariant] at h ⊢; exact wf_le s t v hs.1 h
      | succ i => simp only [wfVariant] at h ⊢; exact wfVariant_le ss ts i v hs.2 h
end

theorem sConstValue_mono : ∀ d, sle (sConstValue d) (sConstValue (d + 1)) = true
  | 0 => by simp [sConstValue, sle]
  | d + 1 => by
    have ih := sConstValue_mono d
    simp [sConstValue, sle, sleList, ih] at ih ⊢

theorem sTypeKind_mono : ∀ d, sle (sTypeKind d) (sTypeKind (d + 1)) = true
  | 0 => by simp [sTypeKind, sle]
  | d + 1 => by
    have ih := sTypeKind_mono d
    simp [sTypeKind, sle, sleList, ih] at ih ⊢

theorem sModuleV0_mono (d : Nat) : sle (sModuleV0 d) (sModuleV0 (d + 1)) = true := by
  have h1 := sConstValue_mono d
  have h2 := sTypeKind_mono d
  simp [sModuleV0, sInstruction, sTarget, sLabel, sLabelType, sExitReason, sWrapType, sMeta,
    sActionDef, sCommandDef, sFactDef, sStructDef, sEnumDef, sCodeMap, sSpan, sField, sPersistence,
    sAttribute, sle, sleList, h1, h2]

/-- a module well formed at depth `d` is well formed at every larger depth -/
theorem wf_module_mono (d k : Nat) (m : Val) (h : WFModule d m) : WFModule (d + k) m := by
  induction k with
  | zero => exact h
  | succ k ih => exact wf_le _ _ m (sModuleV0_mono (d + k)) ih

/-- **the depth parameter is harmless**: a module (of whatever nesting depth) round-trips at every
sufficiently large decoder depth -/
theorem module_decode_encode_any_depth (m : Val) (d0 : Nat) (h : WFModule d0 m) :
    ∀ d, d0 ≤ d → decode d (encode m) = .ok m := by
  intro d hd
  obtain ⟨k, rfl⟩ := Nat.exists_eq_add_of_le hd
  exact module_fromBytes_encode _ m (wf_module_mono d0 k m h)

/-! ### non-vacuity: a concrete module

progmem `[Const(Option(Some(Int(-1)))), Jump(Resolved(3)), Exit(Panic), FactCount(5)]`, one label
`<f : Function> ↦ 0`, no definitions, no code map, one global `g = "x"`.  (Variant indexes are
those of the generated schema as of this writing; if the source reorders variants the `decide`
below fails and the example must be updated — the theorems above do not depend on it.) -/

def exModule : Val :=
  .tup [
    .seq [ .var 0 (.tup [.var 6 (.tup [.some (.var 1 (.tup [.i (-1)]))])]),
           .var 8 (.tup [.var 1 (.tup [.u 3])]),
           .var 16 (.tup [.var 3 (.tup [])]),
           .var 43 (.tup [.i 5]) ],
    .seq [ .tup [.tup [.str [102], .var 6 (.tup [])], .u 0] ],
    .seq [], .seq [], .seq [], .seq [], .seq [],
    .none,
    .seq [ .tup [.str [103], .var 3 (.tup [.str [120]])] ] ]

example : WFModule 3 exModule := by unfold WFModule; decide
example : decode 3 (encode exModule) = .ok exModule := module_fromBytes_encode 3 _ (by unfold WFModule; decide)
example : encode exModule =
    [4, 0, 6, 1, 1, 1, 8, 1, 3, 16, 3, 43, 10, 1, 1, 102, 6, 0, 0, 0, 0, 0, 0, 0, 1, 1, 103, 3, 1, 120] := by
  decide

end AranyaV.ModuleWire
