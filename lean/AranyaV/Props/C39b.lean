import AranyaV.Props.C38
import AranyaV.Props.C39
import AranyaV.Model.AfcE2e
/-!
# C39b — end to end: channel-key derivation (C38) composed with the AFC data path (C39)

C39's world gives every channel one key, identified by the channel's index, and *assumes* that
the two ends hold it.  C38 proves, on a symbolic HPKE model, when the key the author derives
(`authorKey` / `uniChannelCreated`) and the key the peer derives (`peerKey` /
`uniChannelReceived`) coincide.  Here the assumption is discharged:

* **adapter** `keyIdx ks : HpkeKeys → Nat` — the C39 world key (= channel index) of a C38 derived
  key: the author's seal key gets index 0, any other derived key index 1.  It is injective on
  the two keys in play (`keyIdx_inj`), so "same world key" means "same derived key", which by
  C38's `keys_agree_iff` / `keys_agree_full` means "same parameters".
* **world** `e2eSetup`: the author's seal end lives at index `keyIdx ks ks = 0`, the peer's open
  end at index `keyIdx ks kr`; the AD label of each end is the image of *its own* channel's
  label id under an arbitrary `lab : Term → Nat` (no injectivity needed: differing label ids
  already give differing keys).
* `e2e_works`: matching parameters ⇒ what the author seals (any plaintext, after any earlier
  traffic, followed by any later traffic) opens at the peer to the same plaintext, label and
  sequence number, through both interfaces.
* `e2e_mismatch_fails`: ANY differing parameter — label id, parent command id, seal/open device
  id (swapped, other device), the peer's own key, the named author key, the encapsulation —
  ⇒ both open interfaces return `Error::Authentication` and zeroize the buffer.
* `e2e_iff`, handler-level `e2e_handlers_iff`, and `e2e_no_self_open` (direction: a device never
  opens what it sealed itself, from C38's `never_both_ends`).

Partial by nature: both layers are symbolic (HPKE/KDF/DH as a term algebra in C38, AEAD as an ideal
seal log in C39); the two symbolic AEADs are related only through the key identity above.
-/
namespace AranyaV.C39b
open AranyaV.Sym AranyaV.Afc AranyaV.Gen.Afc

/-! ## adapter: C38 derived keys → C39 world keys -/

/-- world key (channel index) of a derived key, relative to the author's seal key `ks` -/
def keyIdx (ks k : HpkeKeys) : Nat := if k = ks then 0 else 1

theorem keyIdx_self (ks : HpkeKeys) : keyIdx ks ks = 0 := by simp [keyIdx]

/-- the adapter is injective on the keys in play (the author's key and the peer's key) -/
theorem keyIdx_inj (ks kr : HpkeKeys) {k k' : HpkeKeys} (hk : k = ks ∨ k = kr) (hk' : k' = ks ∨ k' = kr)
    (h : keyIdx ks k = keyIdx ks k') : k = k' := by
  unfold keyIdx at h
  by_cases h1 : k = ks <;> by_cases h2 : k' = ks <;> simp [h1, h2] at h
  · rw [h1, h2]
  · rcases hk with e | e <;> rcases hk' with e' | e'
    · exact absurd e h1
    · exact absurd e h1
    · exact absurd e' h2
    · rw [e, e']

theorem keyIdx_eq_zero_iff {ks k : HpkeKeys} : keyIdx ks k = 0 ↔ k = ks := by
  unfold keyIdx; by_cases h : k = ks <;> simp [h]

/-- channel set-up of the two ends: one world channel if the derived keys coincide, else one per
key; `ls`/`lo` = AD label of the seal end / of the open end; `start` = first sequence number -/
def e2eSetup (ks kr : HpkeKeys) (ls lo start : Nat) : List WOp :=
  if kr = ks then [.addChan ls lo start] else [.addChan ls ls start, .addChan lo lo 0]

/-- parameters of the two ends match (C38's condition) -/
def ParamsMatch (a root p : Nat) (peerPk authorPk' enc' : Term) (c c' : Sym.Chan) : Prop :=
  enc' = pkOf root ∧ peerPk = pkOf p ∧ authorPk' = pkOf a ∧ c' = c

/-! ## world-level lemmas -/

theorem run_append (w : World) (xs ys : List WOp) : w.run (xs ++ ys) = (w.run xs).run ys := by
  induction xs generalizing w with
  | nil => rfl
  | cons x xs ih => simp [World.run, ih]

/-- an operation that seals with world key `k` -/
def sealsOn : WOp → Nat → Prop
  | .sealC c _ _ _, k => c = k
  | .sealIP c _ _, k => c = k
  | _, _ => False

/-- no operation of the list seals with world key `k` -/
def NoSealOn (k : Nat) (ops : List WOp) : Prop := ∀ op ∈ ops, ¬ sealsOn op k

theorem nokey_of_doSeal {w w' : World} {c s k : Nat} {pt oracle : List UInt8}
    (h : ∀ r ∈ w.log, r.key ≠ k) (hd : doSeal w c pt oracle = .ok (s, w')) (hc : c ≠ k) :
    ∀ r ∈ w'.log, r.key ≠ k := by
  obtain ⟨ch, _, _, _, c4⟩ := doSeal_ok hd
  intro r hr
  rw [c4] at hr
  simp only [afterSeal, List.mem_cons] at hr
  rcases hr with rfl | hr
  · exact hc
  · exact h r hr

theorem nokey_apply {w : World} {k : Nat} (h : ∀ r ∈ w.log, r.key ≠ k) (op : WOp)
    (hop : ¬ sealsOn op k) : ∀ r ∈ (w.apply op).log, r.key ≠ k := by
  cases op with
  | addChan sl ol st => exact h
  | rmChan c =>
    simp only [World.apply, World.rmChan]
    cases w.chans[c]? <;> exact h
  | sealC c dst pt o =>
    rcases sealC_world w c dst pt o with e | ⟨s, e⟩
    · simp only [World.apply]; rw [e]; exact h
    · exact nokey_of_doSeal h e hop
  | sealIP c pt o =>
    rcases sealIP_world w c pt o with e | ⟨s, e⟩
    · simp only [World.apply]; rw [e]; exact h
    · exact nokey_of_doSeal h e hop

theorem nokey_run {w : World} {k : Nat} (h : ∀ r ∈ w.log, r.key ≠ k) (ops : List WOp)
    (hops : NoSealOn k ops) : ∀ r ∈ (w.run ops).log, r.key ≠ k := by
  induction ops generalizing w with
  | nil => exact h
  | cons op ops ih =>
    exact ih (nokey_apply h op (hops op (List.mem_cons_self ..)))
      (fun o ho => hops o (List.mem_cons_of_mem _ ho))

/-- with no logged seal call under world key `c`, `do_open` on channel `c` is an authentication
failure (channel present, sequence number in range) -/
theorem doOpen_auth_of_nokey {w : World} {c s : Nat} {ch : Afc.Chan} (ct : List UInt8)
    (hc : w.chan c = some ch) (hs : s < seqMax) (h : ∀ r ∈ w.log, r.key ≠ c) :
    doOpen w c s ct = .error .authentication := by
  unfold doOpen
  have hs' : ¬ s ≥ seqMax := by omega
  have hf : findRec w.log c s = none := by
    unfold findRec
    rw [List.find?_eq_none]
    intro r hr
    have := h r hr
    simp [this]
  simp [hc, hs', Afc.aeadOpen, hf]

theorem openC_of_doOpen_err {w : World} {c s : Nat} {e : Err} {oracle : List UInt8}
    (hd : doOpen w c s oracle = .error e) (hlen : tagSize ≤ oracle.length) (hs : s < seqMax)
    (dst2 : List UInt8) (hd2 : oracle.length - tagSize ≤ dst2.length) :
    openC w c dst2 (oracle ++ encSeq s) = (.err e, zeros dst2.length) := by
  unfold openC
  have e1 : csub (oracle ++ encSeq s).length dataHeaderSize = some oracle.length :=
    csub_some.mpr ⟨by simp [encSeq_length], by simp [encSeq_length]⟩
  have e2 : csub oracle.length tagSize = some (oracle.length - tagSize) :=
    csub_some.mpr ⟨hlen, rfl⟩
  have e3 : ¬ dst2.length < oracle.length - tagSize := by omega
  simp only [e1, e2, e3, if_false, List.take_left', List.drop_left', ofLe_encSeq hs, hd]

theorem openIP_of_doOpen_err {w : World} {c s : Nat} {e : Err} {oracle : List UInt8}
    (hd : doOpen w c s oracle = .error e) (hlen : tagSize ≤ oracle.length) (hs : s < seqMax) :
    openIP true w c (oracle ++ encSeq s) = (.err e, zeros (oracle ++ encSeq s).length) := by
  unfold openIP
  have e1 : csub (oracle ++ encSeq s).length dataHeaderSize = some oracle.length :=
    csub_some.mpr ⟨by simp [encSeq_length], by simp [encSeq_length]⟩
  have e2 : csub oracle.length tagSize = some (oracle.length - tagSize) :=
    csub_some.mpr ⟨hlen, rfl⟩
  simp only [e1, e2, List.take_left', List.drop_left', ofLe_encSeq hs, hd]

/-! ## the two ends in one world -/

/-- same derived key, same AD label ⇒ the round trip works, after any earlier traffic `pre` and
any later traffic `post` (as long as the peer's end has not been removed) -/
theorem works_of_eq {ks kr : HpkeKeys} (hk : kr = ks) (l start : Nat) (pre post : List WOp)
    {s : Nat} {dst pt oracle dst' : List UInt8} {w2 : World}
    (h : sealC (World.run {} (e2eSetup ks kr l l start ++ pre)) (keyIdx ks ks) dst pt oracle
      = (.ok s, dst', w2))
    (ho : oracle.length = pt.length + tagSize)
    (hex : ((w2.run post).chan (keyIdx ks kr)).isSome) :
    openIP true (w2.run post) (keyIdx ks kr) (oracle ++ encSeq s) = (.ok (l, s), pt) ∧
    ∀ dst2 : List UInt8, pt.length ≤ dst2.length →
      openC (w2.run post) (keyIdx ks kr) dst2 (oracle ++ encSeq s)
        = (.ok (l, s), pt ++ dst2.drop pt.length) := by
  subst hk
  rw [keyIdx_self] at h hex ⊢
  obtain ⟨ch3, hc3⟩ := Option.isSome_iff_exists.mp hex
  -- labels of channel 0 never change
  have hsetup : (World.run {} (e2eSetup kr kr l l start)).chans[0]? = some ⟨l, l, start, false⟩ := by
    simp [e2eSetup, World.run, World.apply, World.addChan]
  rw [run_append] at h
  obtain ⟨ch1, a1, a2, a3⟩ := labels_run pre hsetup
  have hw2 : w2 = ((World.run {} (e2eSetup kr kr l l start)).run pre).apply (.sealC 0 dst pt oracle) := by
    simp only [World.apply, h]
  obtain ⟨ch2, b1, b2, b3⟩ := labels_apply (.sealC 0 dst pt oracle) a1
  rw [← hw2] at b1
  obtain ⟨ch3', d1, d2, d3⟩ := labels_run post b1
  obtain ⟨g1, _⟩ := chan_some hc3
  rw [g1] at d1; cases d1
  have hls : ch3.sealLabel = l := by rw [d2, b2, a2]
  have hlo : ch3.openLabel = l := by rw [d3, b3, a3]
  rw [← run_append] at h
  have := open_seal_any_history (e2eSetup kr kr l l start ++ pre) post h ho hc3 (by rw [hls, hlo])
  rw [hlo] at this
  exact this

/-- different derived keys ⇒ the peer's end (which nobody uses as a seal key) rejects everything
the author seals: `Error::Authentication`, buffer zeroized, through both interfaces -/
theorem fails_of_ne {ks kr : HpkeKeys} (hk : kr ≠ ks) (ls lo start : Nat) (pre post : List WOp)
    (hpre : NoSealOn (keyIdx ks kr) pre) (hpost : NoSealOn (keyIdx ks kr) post)
    {s : Nat} {dst pt oracle dst' : List UInt8} {w2 : World}
    (h : sealC (World.run {} (e2eSetup ks kr ls lo start ++ pre)) (keyIdx ks ks) dst pt oracle
      = (.ok s, dst', w2))
    (ho : oracle.length = pt.length + tagSize)
    (hex : ((w2.run post).chan (keyIdx ks kr)).isSome) :
    openIP true (w2.run post) (keyIdx ks kr) (oracle ++ encSeq s)
      = (.err .authentication, zeros (oracle ++ encSeq s).length) ∧
    ∀ dst2 : List UInt8, pt.length ≤ dst2.length →
      openC (w2.run post) (keyIdx ks kr) dst2 (oracle ++ encSeq s)
        = (.err .authentication, zeros dst2.length) := by
  have hidx : keyIdx ks kr = 1 := by simp [keyIdx, hk]
  rw [keyIdx_self] at h
  rw [hidx] at hpre hpost hex ⊢
  obtain ⟨ch3, hc3⟩ := Option.isSome_iff_exists.mp hex
  rw [run_append] at h
  -- no seal call under world key 1, ever
  have n0 : ∀ r ∈ (World.run {} (e2eSetup ks kr ls lo start)).log, r.key ≠ 1 := by
    simp [e2eSetup, hk, World.run, World.apply, World.addChan]
  have n1 := nokey_run n0 pre hpre
  have hw2 : w2 = ((World.run {} (e2eSetup ks kr ls lo start)).run pre).apply (.sealC 0 dst pt oracle) := by
    simp only [World.apply, h]
  have n2 : ∀ r ∈ w2.log, r.key ≠ 1 := by
    rw [hw2]; exact nokey_apply n1 _ (by simp [sealsOn])
  have n3 := nokey_run n2 post hpost
  -- the sequence number the seal used is in range
  have hs : s < seqMax := by
    rcases sealC_world ((World.run {} (e2eSetup ks kr ls lo start)).run pre) 0 dst pt oracle with e | ⟨s', e⟩
    · exfalso
      unfold sealC at h
      simp only at h
      split at h
      · simp at h
      · split at h
        · simp at h
        · cases hd : doSeal ((World.run {} (e2eSetup ks kr ls lo start)).run pre) 0 pt oracle with
          | error e' => simp [hd] at h
          | ok x =>
            obtain ⟨s'', w''⟩ := x
            obtain ⟨ch, c1, c2, c3, c4⟩ := doSeal_ok hd
            simp [hd] at h
            have hlog : (sealC ((World.run {} (e2eSetup ks kr ls lo start)).run pre) 0 dst pt oracle).2.2.log
                = ((World.run {} (e2eSetup ks kr ls lo start)).run pre).log := by rw [e]
            unfold sealC at hlog
            simp [*] at hlog
            simp [afterSeal] at hlog
    · obtain ⟨ch, c1, c2, c3, c4⟩ := doSeal_ok e
      have : s' = s := by
        unfold sealC at h
        simp only at h
        split at h
        · simp at h
        · split at h
          · simp at h
          · simp [e] at h; exact h.1
      rw [← this]; exact c3
  have hd := doOpen_auth_of_nokey oracle hc3 hs n3
  exact ⟨openIP_of_doOpen_err hd (by omega) hs,
    fun dst2 hlen => openC_of_doOpen_err hd (by omega) hs dst2 (by omega)⟩

/-! ## end to end: derivation (C38) ∘ data path (C39) -/

/-- **Matching parameters ⇒ the message gets through.**  The author derives its seal key from its
secret (`authorKey`), the peer derives its open key from the encapsulation (`peerKey`); if the peer
uses the author's encapsulation, is the device the author sealed to, names the author's key, and
both use the same (parent command, seal device, open device, label), then whatever the author
seals — any plaintext, after any earlier traffic, before any later traffic — opens at the peer's
end to the same plaintext, the channel's label and the sequence number the seal used.  Key
agreement is *derived* (C38 `keys_agree_iff` + `keys_agree_full`), not assumed. -/
theorem e2e_works {a root p : Nat} {peerPk authorPk' enc' : Term} {c c' : Sym.Chan}
    {ks kr : HpkeKeys} (hs : authorKey a root peerPk c = some ks)
    (hr : peerKey p authorPk' enc' c' = some kr)
    (hm : ParamsMatch a root p peerPk authorPk' enc' c c')
    (lab : Term → Nat) (start : Nat) (pre post : List WOp)
    {s : Nat} {dst pt oracle dst' : List UInt8} {w2 : World}
    (h : sealC (World.run {} (e2eSetup ks kr (lab c.label) (lab c'.label) start ++ pre))
      (keyIdx ks ks) dst pt oracle = (.ok s, dst', w2))
    (ho : oracle.length = pt.length + tagSize)
    (hex : ((w2.run post).chan (keyIdx ks kr)).isSome) :
    openIP true (w2.run post) (keyIdx ks kr) (oracle ++ encSeq s) = (.ok (lab c.label, s), pt) ∧
    ∀ dst2 : List UInt8, pt.length ≤ dst2.length →
      openC (w2.run post) (keyIdx ks kr) dst2 (oracle ++ encSeq s)
        = (.ok (lab c.label, s), pt ++ dst2.drop pt.length) := by
  have hkey : kr.key = ks.key := (C38.keys_agree_iff hs hr).mpr hm
  have hk : kr = ks := C38.keys_agree_full hs hr hkey
  have hc : c' = c := hm.2.2.2
  rw [hc] at h
  exact works_of_eq hk (lab c.label) start pre post h ho hex

/-- **Any differing parameter ⇒ authentication failure.**  If the two ends differ in anything —
label id, parent command id, seal or open device id (swapped, another device), the peer's own
key, the author key it names, the encapsulation — the derived keys differ (C38), and both open
interfaces answer `Error::Authentication` with the buffer zeroized, whatever else happened on
the author's end (`pre`, `post` never seal with the peer's open key, which it holds `OpenOnly`). -/
theorem e2e_mismatch_fails {a root p : Nat} {peerPk authorPk' enc' : Term} {c c' : Sym.Chan}
    {ks kr : HpkeKeys} (hs : authorKey a root peerPk c = some ks)
    (hr : peerKey p authorPk' enc' c' = some kr)
    (hm : ¬ ParamsMatch a root p peerPk authorPk' enc' c c')
    (lab : Term → Nat) (start : Nat) (pre post : List WOp)
    (hpre : NoSealOn (keyIdx ks kr) pre) (hpost : NoSealOn (keyIdx ks kr) post)
    {s : Nat} {dst pt oracle dst' : List UInt8} {w2 : World}
    (h : sealC (World.run {} (e2eSetup ks kr (lab c.label) (lab c'.label) start ++ pre))
      (keyIdx ks ks) dst pt oracle = (.ok s, dst', w2))
    (ho : oracle.length = pt.length + tagSize)
    (hex : ((w2.run post).chan (keyIdx ks kr)).isSome) :
    openIP true (w2.run post) (keyIdx ks kr) (oracle ++ encSeq s)
      = (.err .authentication, zeros (oracle ++ encSeq s).length) ∧
    ∀ dst2 : List UInt8, pt.length ≤ dst2.length →
      openC (w2.run post) (keyIdx ks kr) dst2 (oracle ++ encSeq s)
        = (.err .authentication, zeros dst2.length) := by
  have hk : kr ≠ ks := by
    intro e
    exact hm ((C38.keys_agree_iff hs hr).mp (by rw [e]))
  exact fails_of_ne hk _ _ start pre post hpre hpost h ho hex

/-- **End to end, as an equivalence** (no other traffic): the peer's `open_in_place` accepts what
the author sealed iff the parameters of the two ends match. -/
theorem e2e_iff {a root p : Nat} {peerPk authorPk' enc' : Term} {c c' : Sym.Chan}
    {ks kr : HpkeKeys} (hs : authorKey a root peerPk c = some ks)
    (hr : peerKey p authorPk' enc' c' = some kr)
    (lab : Term → Nat) (start : Nat)
    {s : Nat} {dst pt oracle dst' : List UInt8} {w2 : World}
    (h : sealC (World.run {} (e2eSetup ks kr (lab c.label) (lab c'.label) start))
      (keyIdx ks ks) dst pt oracle = (.ok s, dst', w2))
    (ho : oracle.length = pt.length + tagSize)
    (hex : (w2.chan (keyIdx ks kr)).isSome) :
    openIP true w2 (keyIdx ks kr) (oracle ++ encSeq s) = (.ok (lab c.label, s), pt) ↔
      ParamsMatch a root p peerPk authorPk' enc' c c' := by
  have h' : sealC (World.run {} (e2eSetup ks kr (lab c.label) (lab c'.label) start ++ []))
      (keyIdx ks ks) dst pt oracle = (.ok s, dst', w2) := by simpa using h
  constructor
  · intro hok
    apply Classical.byContradiction
    intro hm
    have := (e2e_mismatch_fails hs hr hm lab start [] [] (fun _ h => by cases h)
      (fun _ h => by cases h) h' ho (by simpa [World.run] using hex)).1
    simp only [World.run] at this
    rw [hok] at this
    cases this
  · intro hm
    have := (e2e_works hs hr hm lab start [] [] h' ho (by simpa [World.run] using hex)).1
    simpa [World.run] using this

/-- **Handler level**: device `devA` processes its `UniChannelCreated` effect, device `devP` a
`UniChannelReceived` effect; what `devA` seals opens at `devP` iff the received effect carries the
author's encapsulation, names the author's key, `devP` is the device the author sealed to, and
parent / sealing device / label coincide. -/
theorem e2e_handlers_iff {devA devP : Term} {e : Created} {r : Received} {ks kr : HpkeKeys}
    (hc : uniChannelCreated devA e = .ok ks) (hv : uniChannelReceived devP r = .ok kr)
    (lab : Term → Nat) (start : Nat)
    {s : Nat} {dst pt oracle dst' : List UInt8} {w2 : World}
    (h : sealC (World.run {} (e2eSetup ks kr (lab e.label) (lab r.label) start))
      (keyIdx ks ks) dst pt oracle = (.ok s, dst', w2))
    (ho : oracle.length = pt.length + tagSize)
    (hex : (w2.chan (keyIdx ks kr)).isSome) :
    openIP true w2 (keyIdx ks kr) (oracle ++ encSeq s) = (.ok (lab e.label, s), pt) ↔
      r.enc = pkOf e.root ∧ e.peerPk = pkOf r.ourSk ∧ r.authorPk = pkOf e.ourSk ∧
      r.parent = e.parent ∧ r.sealId = devA ∧ devP = e.openId ∧ r.label = e.label := by
  obtain ⟨_, hs⟩ := C38.created_chan hc
  obtain ⟨_, hr⟩ := C38.received_chan hv
  have := e2e_iff hs hr lab start h ho hex
  rw [this]
  unfold ParamsMatch
  constructor
  · rintro ⟨h1, h2, h3, h4⟩
    simp only [Sym.Chan.mk.injEq] at h4
    exact ⟨h1, h2, h3, h4.1, h4.2.1, h4.2.2.1, h4.2.2.2⟩
  · rintro ⟨h1, h2, h3, h4, h5, h6, h7⟩
    exact ⟨h1, h2, h3, by rw [h4, h5, h6, h7]⟩

/-- **Direction**: a device never opens what it sealed itself — whatever `UniChannelCreated` and
`UniChannelReceived` effects it processed, the open key it got rejects every message sealed with
the seal key it got (C38 `never_both_ends`). -/
theorem e2e_no_self_open {dev : Term} {ce : Created} {re : Received} {ks kr : HpkeKeys}
    (hc : uniChannelCreated dev ce = .ok ks) (hv : uniChannelReceived dev re = .ok kr)
    (ls lo start : Nat)
    {s : Nat} {dst pt oracle dst' : List UInt8} {w2 : World}
    (h : sealC (World.run {} (e2eSetup ks kr ls lo start)) (keyIdx ks ks) dst pt oracle
      = (.ok s, dst', w2))
    (ho : oracle.length = pt.length + tagSize)
    (hex : (w2.chan (keyIdx ks kr)).isSome) :
    openIP true w2 (keyIdx ks kr) (oracle ++ encSeq s)
      = (.err .authentication, zeros (oracle ++ encSeq s).length) := by
  have hne : kr ≠ ks := fun e => C38.never_both_ends hc hv (by rw [e])
  have h' : sealC (World.run {} (e2eSetup ks kr ls lo start ++ [])) (keyIdx ks ks) dst pt oracle
      = (.ok s, dst', w2) := by simpa using h
  have := (fails_of_ne hne ls lo start [] [] (fun _ h => by cases h) (fun _ h => by cases h)
    h' ho (by simpa [World.run] using hex)).1
  simpa [World.run] using this

/-! ## non-vacuity -/

/-- a channel: parent command, sealing device, opening device, label id -/
def cEx : Sym.Chan := ⟨.lit [1], .lit [2], .lit [3], .lit [4]⟩
/-- the same with another label id / with the device ids swapped / under another parent -/
def cExLabel : Sym.Chan := { cEx with label := .lit [5] }
def cExSwapped : Sym.Chan := { cEx with sealId := .lit [3], openId := .lit [2] }
def cExParent : Sym.Chan := { cEx with parent := .lit [9] }

/-- one message through the composed system: `(seal result, open_in_place result at the peer)` -/
def runEx (authorPk' enc' : Term) (p : Nat) (c' : Sym.Chan) : Option (Outcome Nat × Outcome (Nat × Nat)) :=
  match authorKey 1 2 (pkOf 3) cEx, peerKey p authorPk' enc' c' with
  | some ks, some kr =>
    let oracle : List UInt8 := List.replicate (3 + tagSize) 9
    let r := sealC (World.run {} (e2eSetup ks kr 4 4 0)) (keyIdx ks ks) (List.replicate 40 0) [1, 2, 3] oracle
    some (r.1, (openIP true r.2.2 (keyIdx ks kr) (oracle ++ encSeq 0)).1)
  | _, _ => none

/-- matching parameters: author 1 (root secret 2) seals to device key 3; the peer opens -/
example : runEx (pkOf 1) (pkOf 2) 3 cEx = some (.ok 0, .ok (4, 0)) := by decide
/-- the hypotheses of `e2e_works` / `e2e_iff` hold for it -/
example : ParamsMatch 1 2 3 (pkOf 3) (pkOf 1) (pkOf 2) cEx cEx := ⟨rfl, rfl, rfl, rfl⟩
/-- any single differing parameter: label id, swapped device ids, parent, another peer key,
another named author key, another encapsulation -/
example : runEx (pkOf 1) (pkOf 2) 3 cExLabel = some (.ok 0, .err .authentication) := by decide
example : runEx (pkOf 1) (pkOf 2) 3 cExSwapped = some (.ok 0, .err .authentication) := by decide
example : runEx (pkOf 1) (pkOf 2) 3 cExParent = some (.ok 0, .err .authentication) := by decide
example : runEx (pkOf 1) (pkOf 2) 8 cEx = some (.ok 0, .err .authentication) := by decide
example : runEx (pkOf 7) (pkOf 2) 3 cEx = some (.ok 0, .err .authentication) := by decide
example : runEx (pkOf 1) (pkOf 6) 3 cEx = some (.ok 0, .err .authentication) := by decide
example : ¬ ParamsMatch 1 2 3 (pkOf 3) (pkOf 1) (pkOf 2) cEx cExSwapped := by
  intro h; exact absurd h.2.2.2 (by decide)

/-! ## what the driver runs (`Model/AfcE2e.lean`) is this construction -/

/-- `e2eSetup` on the empty world is the driver's `addEnds`, and the two ends sit at the adapter's
indices -/
theorem setup_eq_addEnds (ks kr : HpkeKeys) (ls lo start : Nat) :
    AfcE2e.addEnds {} ks kr ls lo start
      = (World.run {} (e2eSetup ks kr ls lo start), keyIdx ks ks, keyIdx ks kr) := by
  unfold AfcE2e.addEnds e2eSetup keyIdx
  by_cases h : kr = ks <;> simp [h, World.run, World.apply, World.addChan]

/-- the harness scenario (`derive`): the peer's view equals the author's ⇒ same key; each
single-parameter deviation ⇒ different keys (instances of C38 `keys_agree_iff`) -/
example : (AfcE2e.derive 4 4 .same).map (fun k => decide (k.2 = k.1)) = some true := by decide
example : (AfcE2e.derive 4 5 .label).map (fun k => decide (k.2 = k.1)) = some false := by decide
example : (AfcE2e.derive 4 4 .parent).map (fun k => decide (k.2 = k.1)) = some false := by decide
example : (AfcE2e.derive 4 4 .swap).map (fun k => decide (k.2 = k.1)) = some false := by decide
example : (AfcE2e.derive 4 4 .otherdev).map (fun k => decide (k.2 = k.1)) = some false := by decide
example : (AfcE2e.derive 4 4 .otherpeer).map (fun k => decide (k.2 = k.1)) = some false := by decide
example : (AfcE2e.derive 4 4 .otherauthor).map (fun k => decide (k.2 = k.1)) = some false := by decide
example : (AfcE2e.derive 4 4 .otherenc).map (fun k => decide (k.2 = k.1)) = some false := by decide

end AranyaV.C39b
