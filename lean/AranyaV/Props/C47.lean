import AranyaV.Proofs.CStr
/-!
# C47 — C string output never overflows its buffer

Property theorems for `AranyaV.CStr` (model of `write_c_str` / `CStrWriter`).  Every statement
quantifies over every memory image, every buffer position and length, every fragment list
(what a `Display` implementation hands to `write_str`, in order) and `usize::MAX` (`umax`);
there is no size bound.  `len < umax` is the only side condition (a Rust slice never has
`usize::MAX` elements: allocations are limited to `isize::MAX` bytes); the frame theorem
`writes_in_bounds` needs no side condition at all.
-/
namespace AranyaV.CStr

/-- **Never writes outside the buffer.**  Whatever the fragments, the buffer length, `usize::MAX`
and whether the `Display` implementation finally fails: every store goes to an address inside
`[base, base+len)`, and the memory before and after the buffer is unchanged. -/
theorem writes_in_bounds (umax : Nat) (mem : List UInt8) (base len : Nat)
    (frags : List (List UInt8)) (fails : Bool) :
    let r := (run umax mem base len frags fails).2
    (∀ a ∈ r.trace, base ≤ a ∧ a < base + len) ∧
    r.mem.length = mem.length ∧
    r.mem.take base = mem.take base ∧
    r.mem.drop (base + len) = mem.drop (base + len) := by
  have f := Frame.run umax mem base len frags fails
  exact ⟨f.htrace, f.hlength, f.hpre, f.hpost⟩

example : (run usizeMax [7, 7, 1, 2, 3, 4, 9, 9] 2 4 [[65], [], [66, 67]] false)
    = (.ok, { mem := [7, 7, 65, 66, 67, 0, 9, 9], base := 2, len := 4, nw := 4, trace := [5, 4, 3, 2] }) := by
  decide
example : (run usizeMax [7, 7, 1, 2, 3, 4, 9, 9] 2 4 [[65, 66], [67, 68], [69]] false)
    = (.tooSmall, { mem := [7, 7, 65, 66, 3, 4, 9, 9], base := 2, len := 4, nw := 6, trace := [3, 2] }) := by
  decide

/-- The `copy_from_slice` length check can never fire (and nothing else in the code can panic:
`saturating_add`, `min`, `get_mut`, `split_last_mut` are total). -/
theorem no_panic (umax : Nat) (mem : List UInt8) (base len : Nat) (frags : List (List UInt8))
    (fails : Bool) (hmax : len ≤ umax) (hin : base + len ≤ mem.length) :
    (run umax mem base len frags fails).1 ≠ .panic ∧
    (run umax mem base len frags fails).2.panicked = false := by
  have i := (Inv.new umax mem base len).writeAll hmax hin frags
  unfold run
  simp only [i.hpan, Bool.false_eq_true, if_false]
  split
  · simp [i.hpan]
  · unfold W.finish
    simp only [i.hpan, Bool.false_eq_true, if_false]
    refine ⟨?_, ?_⟩
    · split <;> split <;> simp
    · split <;> simp [store, i.hpan]

/-- the state after the fragment loop, used by the three theorems below -/
theorem after_loop (umax : Nat) (mem : List UInt8) (base len : Nat) (frags : List (List UInt8))
    (hmax : len ≤ umax) (hin : base + len ≤ mem.length) :
    Inv umax mem base len ((W.new mem base len).writeAll umax frags) (total frags) frags.flatten := by
  simpa using (Inv.new umax mem base len).writeAll hmax hin frags

/-- **Ok iff it fits**, and then the buffer holds the whole text plus the terminating NUL, the
reported length is `total + 1`, and every other byte of memory (in particular the rest of the
buffer) is untouched. -/
theorem ok_iff (umax : Nat) (mem : List UInt8) (base len : Nat) (frags : List (List UInt8))
    (hmax : len < umax) (hin : base + len ≤ mem.length) :
    let r := run umax mem base len frags false
    (r.1 = .ok ↔ total frags + 1 ≤ len) ∧
    (total frags + 1 ≤ len →
      r.2.mem = mem.take base ++ frags.flatten ++ 0 :: mem.drop (base + total frags + 1) ∧
      r.2.nw = total frags + 1) := by
  have i := after_loop umax mem base len frags (Nat.le_of_lt hmax) hin
  simp only [run, i.hpan, Bool.false_eq_true, if_false]
  by_cases hfit : total frags + 1 ≤ len
  · have h := i.finish_fit hmax hin hfit
    exact ⟨⟨fun _ => hfit, fun _ => h.1⟩, fun _ => h.2⟩
  · have h := i.finish_small hmax hfit
    refine ⟨⟨fun hk => ?_, fun hk => absurd hk hfit⟩, fun hk => absurd hk hfit⟩
    rw [h.1] at hk; cases hk

example : total [[65], [], [66, 67]] + 1 ≤ 4 ∧ 4 < usizeMax ∧ 2 + 4 ≤ [7, 7, 1, 2, 3, 4, 9, 9].length := by
  decide

/-- **Otherwise the exact size needed is reported with an error**: `BufferTooSmall` and
`nw = total + 1` (saturating at `usize::MAX`); no NUL is stored. -/
theorem err_reports (umax : Nat) (mem : List UInt8) (base len : Nat) (frags : List (List UInt8))
    (hmax : len < umax) (hin : base + len ≤ mem.length) (hsmall : ¬ total frags + 1 ≤ len) :
    let r := run umax mem base len frags false
    r.1 = .tooSmall ∧ r.2.nw = min (total frags + 1) umax := by
  have i := after_loop umax mem base len frags (Nat.le_of_lt hmax) hin
  simp only [run, i.hpan, Bool.false_eq_true, if_false]
  have h := i.finish_small hmax hsmall
  exact ⟨h.1, h.2.2⟩

/-- in particular: exactly `total + 1` whenever that number is representable -/
theorem err_reports_exact (umax : Nat) (mem : List UInt8) (base len : Nat)
    (frags : List (List UInt8)) (hmax : len < umax) (hin : base + len ≤ mem.length)
    (hsmall : ¬ total frags + 1 ≤ len) (hrep : total frags + 1 ≤ umax) :
    (run umax mem base len frags false).2.nw = total frags + 1 := by
  have := (err_reports umax mem base len frags hmax hin hsmall).2
  omega

example : ¬ total [[65, 66], [67, 68], [69]] + 1 ≤ 4 ∧ total [[65, 66], [67, 68], [69]] + 1 ≤ usizeMax := by
  decide

/-- A `Display` implementation that itself returns `fmt::Error`: `Err(Bug)`, no terminator is
written, `nw` holds the bytes seen so far (and `writes_in_bounds` still applies). -/
theorem display_error_reports (umax : Nat) (mem : List UInt8) (base len : Nat)
    (frags : List (List UInt8)) (hmax : len ≤ umax) (hin : base + len ≤ mem.length) :
    let r := run umax mem base len frags true
    r.1 = .bug ∧ r.2.nw = min (total frags) umax := by
  have i := after_loop umax mem base len frags hmax hin
  simp only [run, i.hpan, Bool.false_eq_true, if_false, if_true]
  exact ⟨trivial, i.hnw⟩

end AranyaV.CStr
