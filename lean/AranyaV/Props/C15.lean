import AranyaV.Proofs.DiskReach
/-!
# C15 — File-backed graph storage survives crashes

Property theorems for `AranyaV.Disk` (model of the libc linear-storage `Writer`: two checksummed
root slots, append-only data region, `fdatasync` barriers).  They quantify over **every** run
(list of `append`/`commit` calls of any length and content after `create`), **every** crash point
(prefix `n` of the op stream) and **every** fault choice `χ` (per unsynced `pwrite`, an arbitrary
sub-mask of its bytes reaches the medium: lost / kept / torn at byte granularity).

**Level: partial by nature.**  The theorems are about the file-system model stated in
`Model/Disk.lean` (data is volatile until the next barrier on the fd, then durable; no file size,
no directory entry, no I/O errors) and assume

* `ChecksumOK` — for every root write of the run: whatever byte-mix of the old slot content and
  the new record reaches the medium, it validates only as the new record or as what validated in
  that slot before (SipHash is not collision-free: the real failure probability is about 2⁻⁶⁴ per
  torn image; the checksum function is a parameter, there is no axiom);
* `Bounded` — the records fit `u64`/`i64` (beyond, the real code returns `Bug` errors).

Layout constants come from the generated `Gen.DiskLayout`; the theorems are generic in a
`Layout` satisfying `Layout.OK`, which is `decide`-checked for the generated values below.
-/
namespace AranyaV.Disk
open AranyaV.Wire

/-! ## side conditions on the translated declarations -/

/-- `ROOT_A + rootMax ≤ ROOT_B`, `ROOT_B + rootMax ≤ FREE_START`, `0 < PREALLOC_CHUNK` for the
constants of the current source (`rootMax = 56` bytes is the longest root record) -/
theorem layout_ok : Layout.real.OK := ⟨by decide, by decide, by decide⟩

theorem rootA_ne_rootB : Layout.real.rootA ≠ Layout.real.rootB := by decide

/-- the 4-byte big-endian length prefix and the field types of `Root` the model was written for -/
theorem codec_ok : Gen.DiskLayout.lenPrefixLen = lenPrefixLen ∧
    Gen.DiskLayout.rootLayout = rootLayoutExpected := by decide

/-! ## statement vocabulary -/

section
variable (L : Layout) (ck : Checksum)

/-- the medium after a crash once the first `n` I/O calls of the run were issued, fault choice `χ` -/
def crashImage (calls : List Call) (n : Nat) (χ : List (List Bool)) : Img :=
  (Disk.empty.execAll ((run L ck calls).take n)).crash χ

/-- root written by the last commit whose final barrier is among the first `n` I/O calls
(`create` issues two: `fallocate`, `fsync`) -/
def doneAt (calls : List Call) (n : Nat) : Option Root :=
  doneFrom L ck (Writer.create L).1 none calls (n - 2)

/-- root of the commit whose root write has started but not finished after `n` I/O calls -/
def progAt (calls : List Call) (n : Nat) : Option Root :=
  progFrom L ck (Writer.create L).1 calls (n - 2)

/-- every item appended by the run, with its offset -/
def runRecs (calls : List Call) : List Rec := recsOf L ck (Writer.create L).1 calls

/-- the two stated hypotheses -/
def RunHyps (calls : List Call) : Prop :=
  ChecksumOK L ck (Writer.create L).1 Disk.empty calls ∧ Bounded L ck (Writer.create L).1 calls

end

variable {L : Layout} {ck : Checksum}

theorem create_inv (hL : L.OK) : WInv L ck (Writer.create L).1 Disk.empty none L.freeStart [] := by
  have hz : ∀ s, loadValid ck Disk.empty.durable s = none := by
    intro s; unfold loadValid; rw [loadRoot_zero (fun _ _ => rfl)]
  have hl : ∀ s, lenOK Disk.empty.durable s := by
    intro s; unfold lenOK lenAt Disk.empty rootMax; simp
  refine ⟨⟨Or.inl rfl, hl _, hl _, hz _, ?_, ?_, ?_, ?_, ?_, ?_⟩, ?_, ?_⟩
  · intro r' h; rw [hz] at h; cases h
  · intro r h; cases h
  · intro p h; cases h
  · simp [Writer.create, Root.new]
  · intro r h; cases h
  · intro rec h; cases h
  · simp [Writer.create, Root.new]
  · simp [Writer.create, Root.new]

theorem exec_run (L : Layout) (ck : Checksum) (calls : List Call) (n : Nat) :
    Disk.empty.execAll ((run L ck calls).take n) =
      Disk.empty.execAll ((trace L ck (Writer.create L).1 calls).take (n - 2)) := by
  unfold run
  simp only [Writer.create]
  match n with
  | 0 => rfl
  | 1 => simp [Disk.execAll, Disk.exec]
  | n + 2 =>
    simp only [List.cons_append, List.nil_append, List.take_succ_cons, Disk.execAll, Disk.exec,
      Nat.add_sub_cancel]
    rfl

theorem run_safeAt (hL : L.OK) (calls : List Call) (h : RunHyps L ck calls) (n : Nat)
    (χ : List (List Bool)) :
    SafeAt L ck (crashImage L ck calls n χ) (doneAt L ck calls n) (progAt L ck calls n)
      (runRecs L ck calls) := by
  have := run_safe hL calls _ _ _ _ _ (create_inv (ck := ck) hL) h.1 h.2 (n - 2) χ
  unfold crashImage doneAt progAt runRecs
  rw [exec_run]
  simpa using this

/-! ## the property theorems -/

/-- **recover_cases.**  For every run, crash point and fault choice: `open` fails only if no
commit had completed; otherwise it returns the root of the last commit whose final barrier
returned (`doneAt`), or the root of the commit whose root write was in progress (`progAt`). -/
theorem recover_cases (hL : L.OK) (calls : List Call) (h : RunHyps L ck calls) (n : Nat)
    (χ : List (List Bool)) :
    match Writer.open L ck (crashImage L ck calls n χ) with
    | none => doneAt L ck calls n = none
    | some w => some w.root = doneAt L ck calls n ∨ some w.root = progAt L ck calls n :=
  (run_safeAt hL calls h n χ).1

/-- the commit in progress is the successor (generation + 1) of the last completed one: `open`
returns commit `k` or commit `k + 1` -/
theorem recover_k_or_succ (calls : List Call) (n : Nat) (r : Root)
    (h : progAt L ck calls n = some r) :
    r.gen = ((doneAt L ck calls n).map (·.gen)).getD 0 + 1 :=
  prog_succ L ck calls _ none (n - 2) r (by simp [Writer.create, Root.new]) h

/-- whatever `open` returns was written by a commit of the run -/
theorem recovered_is_commit (hL : L.OK) (calls : List Call) (h : RunHyps L ck calls) (n : Nat)
    (χ : List (List Bool)) (w : Writer) (ho : Writer.open L ck (crashImage L ck calls n χ) = some w) :
    w.root ∈ commitRoots L ck (Writer.create L).1 calls := by
  have := recover_cases hL calls h n χ
  rw [ho] at this
  rcases this with h' | h'
  · rcases doneFrom_mem L ck calls _ _ _ _ h'.symm with h'' | h''
    · cases h''
    · exact h''
  · exact progFrom_mem L ck calls _ _ _ h'.symm

/-- **records_intact.**  Every item the run appended that ends at or below the recovered
`free_offset` is byte-for-byte intact (length prefix and content) in the crash image: it was
covered by a barrier that preceded the root write, and nothing written later overlaps it. -/
theorem records_intact (hL : L.OK) (calls : List Call) (h : RunHyps L ck calls) (n : Nat)
    (χ : List (List Bool)) (w : Writer) (ho : Writer.open L ck (crashImage L ck calls n χ) = some w) :
    ∀ rec ∈ runRecs L ck calls, (rec.end_ : Int) ≤ w.root.free →
      agreeRec (crashImage L ck calls n χ) rec :=
  (run_safeAt hL calls h n χ).2 w ho

/-- **reachable_durable.**  If the caller only ever refers to offsets returned by earlier appends
(`WF`), every offset reachable from the recovered root — head set, fact cache, and transitively
whatever the records there refer to — is the offset of an appended item that lies entirely below
the recovered `free_offset` and is intact in the crash image. -/
theorem reachable_durable (hL : L.OK) (calls : List Call) (h : RunHyps L ck calls)
    (hwf : WF L ck (Writer.create L).1 [] calls) (n : Nat) (χ : List (List Bool)) (w : Writer)
    (ho : Writer.open L ck (crashImage L ck calls n χ) = some w) (o : Nat)
    (hr : Reach (runRecs L ck calls) w.root o) :
    ∃ rec ∈ runRecs L ck calls, rec.off = o ∧ (rec.end_ : Int) ≤ w.root.free ∧
      agreeRec (crashImage L ck calls n χ) rec := by
  have hinv := reach_inv L ck calls (Writer.create L).1 [] [] (by simp [Writer.create, Root.new]) hwf
    (fun o h => by cases h) (fun rec h => by cases h)
  simp only [List.nil_append] at hinv
  have hmem := recovered_is_commit hL calls h n χ w ho
  obtain ⟨rec, hm, ho', he⟩ := reach_below hinv.1 (hinv.2 _ hmem).1 (hinv.2 _ hmem).2 hr
  exact ⟨rec, hm, ho', he, records_intact hL calls h n χ w ho rec hm he⟩

/-- **no_future_data.**  Nothing at or beyond the recovered `free_offset` is reachable: data
appended after the recovered commit is never visible. -/
theorem no_future_data (hL : L.OK) (calls : List Call) (h : RunHyps L ck calls)
    (hwf : WF L ck (Writer.create L).1 [] calls) (n : Nat) (χ : List (List Bool)) (w : Writer)
    (ho : Writer.open L ck (crashImage L ck calls n χ) = some w) (o : Nat)
    (hr : Reach (runRecs L ck calls) w.root o) : (o : Int) < w.root.free := by
  obtain ⟨rec, _, ho', he, _⟩ := reachable_durable hL calls h hwf n χ w ho o hr
  have : rec.off < rec.end_ := by unfold Rec.end_; omega
  omega

/-- what `open` decides: the slot it takes the root from holds that root and the other slot holds
nothing newer; the other slot is scheduled for the next root write -/
theorem open_spec (hL : L.OK) (img : Img) (w : Writer) (ho : Writer.open L ck img = some w) :
    ∃ chosen, (chosen = L.rootA ∨ chosen = L.rootB) ∧ w.nextRoot = L.other chosen ∧
      loadValid ck img chosen = some w.root ∧
      ∀ r', loadValid ck img (L.other chosen) = some r' → r'.gen ≤ w.root.gen := by
  unfold Writer.open at ho
  cases ha : loadValid ck img L.rootA with
  | none =>
    cases hb : loadValid ck img L.rootB with
    | none => simp [ha, hb] at ho
    | some b =>
      simp only [ha, hb, Option.some.injEq] at ho
      subst ho
      exact ⟨L.rootB, Or.inr rfl, rfl, hb, fun r' h => by rw [Layout.other_B hL, ha] at h; cases h⟩
  | some a =>
    cases hb : loadValid ck img L.rootB with
    | none =>
      simp only [ha, hb, Option.some.injEq] at ho
      subst ho
      exact ⟨L.rootA, Or.inl rfl, rfl, ha, fun r' h => by rw [L.other_A, hb] at h; cases h⟩
    | some b =>
      simp only [ha, hb] at ho
      by_cases hlt : a.gen < b.gen
      · simp only [hlt, if_true, Option.some.injEq] at ho
        subst ho
        refine ⟨L.rootB, Or.inr rfl, rfl, hb, fun r' h => ?_⟩
        rw [Layout.other_B hL, ha] at h; cases h; exact Nat.le_of_lt hlt
      · simp only [hlt, if_false, Option.some.injEq] at ho
        subst ho
        refine ⟨L.rootA, Or.inl rfl, rfl, ha, fun r' h => ?_⟩
        rw [L.other_A, hb] at h; cases h; exact Nat.le_of_not_lt hlt

/-- **slots_alternate.**  On *any* image on which `open` succeeds, the slot it schedules for the
next root write is not the slot it took the root from, and holds nothing newer; the next commit
writes exactly that slot (its last three I/O calls) and flips again.  So the newest valid root
is never overwritten, also across reopen. -/
theorem slots_alternate (hL : L.OK) (img : Img) (w : Writer) (ho : Writer.open L ck img = some w) :
    (w.nextRoot = L.rootA ∨ w.nextRoot = L.rootB) ∧
    loadValid ck img (L.other w.nextRoot) = some w.root ∧
    (∀ r', loadValid ck img w.nextRoot = some r' → r'.gen ≤ w.root.gen) ∧
    ∀ heads fact, (w.commit L ck heads fact).1.nextRoot = L.other w.nextRoot ∧
      (w.commit L ck heads fact).2.drop ((w.commit L ck heads fact).2.length - 3) =
        [.write w.nextRoot (be32Enc (encBody (commitRoot ck w heads fact)).length),
         .write (w.nextRoot + lenPrefixLen) (encBody (commitRoot ck w heads fact)), .fdatasync] := by
  obtain ⟨chosen, hc, hnext, hload, hold⟩ := open_spec hL img w ho
  refine ⟨?_, ?_, ?_, ?_⟩
  · rw [hnext]; exact Layout.other_slot hL hc
  · rw [hnext, Layout.other_other hL hc]; exact hload
  · intro r' h; rw [hnext] at h; exact hold r' h
  · intro heads fact
    refine ⟨commit_next L ck w heads fact, ?_⟩
    rw [commit_ops]
    rw [List.drop_left' (by simp)]

/-! ## the theorems for the constants of the current source -/

theorem recover_cases_real (ck : Checksum) (calls : List Call) (h : RunHyps Layout.real ck calls)
    (n : Nat) (χ : List (List Bool)) :
    match Writer.open Layout.real ck (crashImage Layout.real ck calls n χ) with
    | none => doneAt Layout.real ck calls n = none
    | some w => some w.root = doneAt Layout.real ck calls n ∨ some w.root = progAt Layout.real ck calls n :=
  recover_cases layout_ok calls h n χ

/-! ## non-vacuity: the hypotheses are satisfiable by a concrete multi-call run

A run `append; append; commit` on the real layout with a (degenerate, table-lookup) checksum
that satisfies `ChecksumOK` outright: only the one record of the run validates, because every
other field combination is given a checksum no `u64` varint can decode to. -/

def exRoot : Root := { gen := 1, heads := some 12299, fact := some 12288, free := 12304, sum := 7 }

def exCk : Checksum := fun g h f fr =>
  if g = exRoot.gen ∧ h = exRoot.heads ∧ f = exRoot.fact ∧ fr = exRoot.free then 7 else 2 ^ 64

def exCalls : List Call := [.append [1, 2] [], .append [9] [12288], .commit [3] [12294] 12288]

theorem decBody_sum_lt {bs : Bytes} {r : Root} (h : decBody bs = some r) : r.sum < 2 ^ 64 := by
  unfold decBody at h
  split at h
  · cases h
  · split at h
    · cases h
    · split at h
      · cases h
      · split at h
        · cases h
        · split at h
          · cases h
          · rename_i hs
            simp only [Option.some.injEq] at h
            rw [← h]
            exact varintDec64_lt hs

theorem exCk_valid {img : Img} {s : Nat} {r : Root} (h : loadValid exCk img s = some r) : r = exRoot := by
  unfold loadValid at h
  split at h
  · rename_i r0 hl
    split at h
    · rename_i hv
      simp only [Option.some.injEq] at h
      subst h
      have hlt := decBody_sum_lt hl
      simp only [Root.valid, exCk, beq_iff_eq] at hv
      split at hv
      · rename_i hf
        obtain ⟨h1, h2, h3, h4⟩ := hf
        cases r0
        simp only [exRoot] at *
        subst h1 h2 h3 h4 hv
        rfl
      · omega
    · cases h
  · cases h

example : Layout.real.OK ∧ RunHyps Layout.real exCk exCalls ∧
    WF Layout.real exCk (Writer.create Layout.real).1 [] exCalls := by
  have hroot : (Writer.commit Layout.real exCk
      (Writer.step Layout.real exCk (Writer.step Layout.real exCk (Writer.create Layout.real).1
        (.append [1, 2] [])).1 (.append [9] [12288])).1 [3] 12288).1.root = exRoot := by decide
  refine ⟨layout_ok, ⟨⟨trivial, trivial, ?_, trivial⟩, ⟨trivial, trivial, ?_, trivial⟩⟩, ?_⟩
  · intro m1 m2 r' h
    left
    rw [exCk_valid h]
    exact hroot.symm
  · show Root.Bounded _
    rw [hroot]
    exact ⟨by decide, by intro v h; cases h; decide, by intro v h; cases h; decide, by decide, by decide⟩
  · simp only [WF, exCalls]
    decide

/-- and in that run both outcomes of `recover_cases` occur: with the root write torn away the
image does not open (no commit had completed); with everything kept it opens as commit 1 -/
example : doneAt Layout.real exCk exCalls 10 = none ∧ progAt Layout.real exCk exCalls 10 = some exRoot ∧
    doneAt Layout.real exCk exCalls 12 = some exRoot := by decide

end AranyaV.Disk
