import AranyaV.Proofs.DiskIO7
/-!
# C15 — File-backed graph storage survives crashes

Property theorems for `AranyaV.Disk` (model of the libc linear-storage `Writer`: two checksummed
root slots, append-only data region, `fdatasync` barriers).  They quantify over **every** run
(list of `append`/`commit` calls of any length and content after `create`), **every** crash point
(prefix `n` of the op stream) and **every** fault choice `χ` (per unsynced `pwrite`, an arbitrary
sub-mask of its bytes reaches the medium: lost / kept / torn at byte granularity).

**Level: partial by nature.**  The theorems are about the file-system model stated in
`Model/Disk.lean` (data is volatile until the next barrier on the fd, then durable; no file size,
no directory entry, no I/O errors) and assume

* `ChecksumOK` — for every root write of the run: whatever byte-mix of the old slot content and
  the new record reaches the medium, it validates only as the new record or as what validated in
  that slot before (SipHash is not collision-free: the real failure probability is about 2⁻⁶⁴ per
  torn image; the checksum function is a parameter, there is no axiom);
* `Bounded` — the records fit `u64`/`i64` (beyond, the real code returns `Bug` errors).

Layout constants come from the generated `Gen.DiskLayout`; the theorems are generic in a
`Layout` satisfying `Layout.OK`, which is `decide`-checked for the generated values below.
-/
namespace AranyaV.Disk
open AranyaV.Wire

/-! ## side conditions on the translated declarations -/

/-- `ROOT_A + rootMax ≤ ROOT_B`, `ROOT_B + rootMax ≤ FREE_START`, `0 < PREALLOC_CHUNK` for the
constants of the current source (`rootMax = 56` bytes is the longest root record) -/
theorem layout_ok : Layout.real.OK := ⟨by decide, by decide, by decide⟩

theorem rootA_ne_rootB : Layout.real.rootA ≠ Layout.real.rootB := by decide

/-- the 4-byte big-endian length prefix and the field types of `Root` the model was written for -/
theorem codec_ok : Gen.DiskLayout.lenPrefixLen = lenPrefixLen ∧
    Gen.DiskLayout.rootLayout = rootLayoutExpected := by decide

/-! ## statement vocabulary -/

section
variable (L : Layout) (ck : Checksum)

/-- the medium after a crash once the first `n` I/O calls of the run were issued, fault choice `χ` -/
def crashImage (calls : List Call) (n : Nat) (χ : List (List Bool)) : Img :=
  (Disk.empty.execAll ((run L ck calls).take n)).crash χ

/-- root written by the last commit whose final barrier is among the first `n` I/O calls
(`create` issues two: `fallocate`, `fsync`) -/
def doneAt (calls : List Call) (n : Nat) : Option Root :=
  doneFrom L ck (Writer.create L).1 none calls (n - 2)

/-- root of the commit whose root write has started but not finished after `n` I/O calls -/
def progAt (calls : List Call) (n : Nat) : Option Root :=
  progFrom L ck (Writer.create L).1 calls (n - 2)

/-- every item appended by the run, with its offset -/
def runRecs (calls : List Call) : List Rec := recsOf L ck (Writer.create L).1 calls

/-- the two stated hypotheses -/
def RunHyps (calls : List Call) : Prop :=
  ChecksumOK L ck (Writer.create L).1 Disk.empty calls ∧ Bounded L ck (Writer.create L).1 calls

end

variable {L : Layout} {ck : Checksum}

theorem create_inv (hL : L.OK) : WInv L ck (Writer.create L).1 Disk.empty none L.freeStart [] := by
  have hz : ∀ s, loadValid ck Disk.empty.durable s = none := by
    intro s; unfold loadValid; rw [loadRoot_zero (fun _ _ => rfl)]
  have hl : ∀ s, lenOK Disk.empty.durable s := by
    intro s; unfold lenOK lenAt Disk.empty rootMax; simp
  refine ⟨⟨Or.inl rfl, hl _, hl _, hz _, ?_, ?_, ?_, ?_, ?_, ?_, ?_⟩, ?_, ?_⟩
  · intro r' h; rw [hz] at h; cases h
  · intro r h; cases h
  · intro p h; cases h
  · simp [Writer.create, Root.new]
  · intro r h; cases h
  · intro r h; cases h
  · intro rec h; cases h
  · simp [Writer.create, Root.new]
  · simp [Writer.create, Root.new]

theorem exec_run (L : Layout) (ck : Checksum) (calls : List Call) (n : Nat) :
    Disk.empty.execAll ((run L ck calls).take n) =
      Disk.empty.execAll ((trace L ck (Writer.create L).1 calls).take (n - 2)) := by
  unfold run
  simp only [Writer.create]
  match n with
  | 0 => rfl
  | 1 => simp [Disk.execAll, Disk.exec]
  | n + 2 =>
    simp only [List.cons_append, List.nil_append, List.take_succ_cons, Disk.execAll, Disk.exec,
      Nat.add_sub_cancel]
    rfl

theorem run_safeAt (hL : L.OK) (calls : List Call) (h : RunHyps L ck calls) (n : Nat)
    (χ : List (List Bool)) :
    SafeAt L ck (crashImage L ck calls n χ) (doneAt L ck calls n) (progAt L ck calls n)
      (runRecs L ck calls) := by
  have := (run_safe hL calls _ _ _ _ _ (create_inv (ck := ck) hL) h.1 h.2 (n - 2) χ).1
  unfold crashImage doneAt progAt runRecs
  rw [exec_run]
  simpa using this

/-! ## the property theorems -/

/-- **recover_cases.**  For every run, crash point and fault choice: `open` fails only if no
commit had completed; otherwise it returns the root of the last commit whose final barrier
returned (`doneAt`), or the root of the commit whose root write was in progress (`progAt`). -/
theorem recover_cases (hL : L.OK) (calls : List Call) (h : RunHyps L ck calls) (n : Nat)
    (χ : List (List Bool)) :
    match Writer.open L ck (crashImage L ck calls n χ) with
    | none => doneAt L ck calls n = none
    | some w => some w.root = doneAt L ck calls n ∨ some w.root = progAt L ck calls n :=
  (run_safeAt hL calls h n χ).1

/-- the commit in progress is the successor (generation + 1) of the last completed one: `open`
returns commit `k` or commit `k + 1` -/
theorem recover_k_or_succ (calls : List Call) (n : Nat) (r : Root)
    (h : progAt L ck calls n = some r) :
    r.gen = ((doneAt L ck calls n).map (·.gen)).getD 0 + 1 :=
  prog_succ L ck calls _ none (n - 2) r (by simp [Writer.create, Root.new]) h

/-- whatever `open` returns was written by a commit of the run -/
theorem recovered_is_commit (hL : L.OK) (calls : List Call) (h : RunHyps L ck calls) (n : Nat)
    (χ : List (List Bool)) (w : Writer) (ho : Writer.open L ck (crashImage L ck calls n χ) = some w) :
    w.root ∈ commitRoots L ck (Writer.create L).1 calls := by
  have := recover_cases hL calls h n χ
  rw [ho] at this
  rcases this with h' | h'
  · rcases doneFrom_mem L ck calls _ _ _ _ h'.symm with h'' | h''
    · cases h''
    · exact h''
  · exact progFrom_mem L ck calls _ _ _ h'.symm

/-- **records_intact.**  Every item the run appended that ends at or below the recovered
`free_offset` is byte-for-byte intact (length prefix and content) in the crash image: it was
covered by a barrier that preceded the root write, and nothing written later overlaps it. -/
theorem records_intact (hL : L.OK) (calls : List Call) (h : RunHyps L ck calls) (n : Nat)
    (χ : List (List Bool)) (w : Writer) (ho : Writer.open L ck (crashImage L ck calls n χ) = some w) :
    ∀ rec ∈ runRecs L ck calls, (rec.end_ : Int) ≤ w.root.free →
      agreeRec (crashImage L ck calls n χ) rec :=
  (run_safeAt hL calls h n χ).2 w ho

/-- **reachable_durable.**  If the caller only ever refers to offsets returned by earlier appends
(`WF`), every offset reachable from the recovered root — head set, fact cache, and transitively
whatever the records there refer to — is the offset of an appended item that lies entirely below
the recovered `free_offset` and is intact in the crash image. -/
theorem reachable_durable (hL : L.OK) (calls : List Call) (h : RunHyps L ck calls)
    (hwf : WF L ck (Writer.create L).1 [] calls) (n : Nat) (χ : List (List Bool)) (w : Writer)
    (ho : Writer.open L ck (crashImage L ck calls n χ) = some w) (o : Nat)
    (hr : Reach (runRecs L ck calls) w.root o) :
    ∃ rec ∈ runRecs L ck calls, rec.off = o ∧ (rec.end_ : Int) ≤ w.root.free ∧
      agreeRec (crashImage L ck calls n χ) rec := by
  have hinv := reach_inv L ck calls (Writer.create L).1 [] [] (by simp [Writer.create, Root.new]) hwf
    (fun o h => by cases h) (fun rec h => by cases h)
  simp only [List.nil_append] at hinv
  have hmem := recovered_is_commit hL calls h n χ w ho
  obtain ⟨rec, hm, ho', he⟩ := reach_below hinv.1 (hinv.2 _ hmem).1 (hinv.2 _ hmem).2 hr
  exact ⟨rec, hm, ho', he, records_intact hL calls h n χ w ho rec hm he⟩

/-- **no_future_data.**  Nothing at or beyond the recovered `free_offset` is reachable: data
appended after the recovered commit is never visible. -/
theorem no_future_data (hL : L.OK) (calls : List Call) (h : RunHyps L ck calls)
    (hwf : WF L ck (Writer.create L).1 [] calls) (n : Nat) (χ : List (List Bool)) (w : Writer)
    (ho : Writer.open L ck (crashImage L ck calls n χ) = some w) (o : Nat)
    (hr : Reach (runRecs L ck calls) w.root o) : (o : Int) < w.root.free := by
  obtain ⟨rec, _, ho', he, _⟩ := reachable_durable hL calls h hwf n χ w ho o hr
  have : rec.off < rec.end_ := by unfold Rec.end_; omega
  omega

/-- **slots_alternate.**  On *any* image on which `open` succeeds, the slot it schedules for the
next root write is not the slot it took the root from, and holds nothing newer; the next commit
writes exactly that slot (its last three I/O calls) and flips again.  So the newest valid root
is never overwritten, also across reopen. -/
theorem slots_alternate (hL : L.OK) (img : Img) (w : Writer) (ho : Writer.open L ck img = some w) :
    (w.nextRoot = L.rootA ∨ w.nextRoot = L.rootB) ∧
    loadValid ck img (L.other w.nextRoot) = some w.root ∧
    (∀ r', loadValid ck img w.nextRoot = some r' → r'.gen ≤ w.root.gen) ∧
    ∀ heads fact, (w.commit L ck heads fact).1.nextRoot = L.other w.nextRoot ∧
      (w.commit L ck heads fact).2.drop ((w.commit L ck heads fact).2.length - 3) =
        [.write w.nextRoot (be32Enc (encBody (commitRoot ck w heads fact)).length),
         .write (w.nextRoot + lenPrefixLen) (encBody (commitRoot ck w heads fact)), .fdatasync] := by
  obtain ⟨chosen, hc, hnext, hload, hold⟩ := open_spec hL img w ho
  refine ⟨?_, ?_, ?_, ?_⟩
  · rw [hnext]; exact Layout.other_slot hL hc
  · rw [hnext, Layout.other_other hL hc]; exact hload
  · intro r' h; rw [hnext] at h; exact hold r' h
  · intro heads fact
    refine ⟨commit_next L ck w heads fact, ?_⟩
    rw [commit_ops]
    rw [List.drop_left' (by simp)]

/-! ## histories with any number of crashes: `create; (calls; crash χ; open)*`

`HState.init` is the state after `create` returned (a crash inside `create` is covered by
`recover_cases` with `n < 2`).  A history is a list of `Segment`s `(calls, n, χ)`; `histFrom`
runs them: each segment executes its calls from the current writer on the current medium,
crashes after `n` I/O calls with fault choice `χ`, and `open`s the crash image; the recovered
image — stale bytes beyond the recovered `free_offset` and a stale / torn record in the other
slot included — is the medium of the next segment.  The hypotheses `ChecksumOK`/`Bounded`
(`HistHyps`) and `WF` (`HistWF`) are stated per segment against the state it starts from. -/

theorem init_inv (hL : L.OK) : HInv L ck (HState.init L) := ⟨L.freeStart, create_inv hL⟩

/-- **recovered_image_inv.**  The invariant that holds of every image from which `open`
succeeds after a crash: the opened writer on that image satisfies the writer invariant again
(recovered root in the slot other than `next_root`, nothing as new in `next_root`, every item
below the recovered frontier intact), so everything proved for a run from `create` holds for a
run from the recovered image. -/
theorem recovered_image_inv (hL : L.OK) {st st' : HState} {s : Segment} (hi : HInv L ck st)
    (hck : ChecksumOK L ck st.w st.d s.calls) (hbd : Bounded L ck st.w s.calls)
    (hn : st.next L ck s = some st') : HInv L ck st' :=
  reopen_inv hL hi hck hbd hn

/-- **recover_cases_multi.**  After any history of crashes and successful reopens, for every
further list of calls, crash point and fault choice: `open` fails only if no commit ever
completed (`doneFrom … = none`), otherwise returns the last completed commit — which, if no
commit completed since the last reopen, is the root that reopen recovered (`st.done`) — or the
commit in progress. -/
theorem recover_cases_multi (hL : L.OK) (segs : List Segment) (st : HState)
    (hh : HistHyps L ck (HState.init L) segs) (h : histFrom L ck (HState.init L) segs = some st)
    (s : Segment) (hck : ChecksumOK L ck st.w st.d s.calls) (hbd : Bounded L ck st.w s.calls) :
    match Writer.open L ck (st.image L ck s) with
    | none => doneFrom L ck st.w st.done s.calls s.n = none
    | some w => some w.root = doneFrom L ck st.w st.done s.calls s.n ∨
        some w.root = progFrom L ck st.w s.calls s.n :=
  (hist_safe hL segs st (init_inv hL) hh h s hck hbd).1.1

/-- once a reopen has succeeded, no later crash makes `open` fail -/
theorem reopen_succeeds_multi (hL : L.OK) (segs : List Segment) (hne : segs ≠ []) (st : HState)
    (hh : HistHyps L ck (HState.init L) segs) (h : histFrom L ck (HState.init L) segs = some st)
    (s : Segment) (hck : ChecksumOK L ck st.w st.d s.calls) (hbd : Bounded L ck st.w s.calls) :
    ∃ w, Writer.open L ck (st.image L ck s) = some w := by
  have hc := recover_cases_multi hL segs st hh h s hck hbd
  have hd := hist_done segs _ _ h (Or.inl hne)
  have hs := doneFrom_isSome L ck s.calls st.w st.done s.n hd
  cases ho : Writer.open L ck (st.image L ck s) with
  | none => rw [ho] at hc; rw [hc] at hs; cases hs
  | some w => exact ⟨w, rfl⟩

/-- **records_intact_multi.**  Every item of any era that survived all earlier reopens
(`st.recs`) or was appended in the current era, and that ends at or below the recovered
`free_offset`, is byte-identical in the crash image. -/
theorem records_intact_multi (hL : L.OK) (segs : List Segment) (st : HState)
    (hh : HistHyps L ck (HState.init L) segs) (h : histFrom L ck (HState.init L) segs = some st)
    (s : Segment) (hck : ChecksumOK L ck st.w st.d s.calls) (hbd : Bounded L ck st.w s.calls)
    (w : Writer) (ho : Writer.open L ck (st.image L ck s) = some w) :
    ∀ rec ∈ st.allRecs L ck s, (rec.end_ : Int) ≤ w.root.free → agreeRec (st.image L ck s) rec :=
  (hist_safe hL segs st (init_inv hL) hh h s hck hbd).1.2 w ho

/-- **reachable_durable_multi.**  With the caller discipline in every era (`HistWF`: after a
reopen only offsets of surviving items are known), everything reachable from the root recovered
after the (k+1)-th crash is an item lying entirely below the recovered `free_offset`, intact in
the crash image. -/
theorem reachable_durable_multi (hL : L.OK) (segs : List Segment) (st : HState)
    (hh : HistHyps L ck (HState.init L) segs) (hwf : HistWF L ck (HState.init L) segs)
    (h : histFrom L ck (HState.init L) segs = some st)
    (s : Segment) (hck : ChecksumOK L ck st.w st.d s.calls) (hbd : Bounded L ck st.w s.calls)
    (hwfs : WF L ck st.w (st.recs.map (·.off)) s.calls)
    (w : Writer) (ho : Writer.open L ck (st.image L ck s) = some w) (o : Nat)
    (hr : Reach (st.allRecs L ck s) w.root o) :
    ∃ rec ∈ st.allRecs L ck s, rec.off = o ∧ (rec.end_ : Int) ≤ w.root.free ∧
      agreeRec (st.image L ck s) rec := by
  have hri := hist_rinv hL segs _ _ (init_inv hL) (init_rinv L) hh hwf h
  obtain ⟨hrefs, hroots⟩ := era_reach (L := L) (ck := ck) (s := s) hri hwfs
  have hc := recover_cases_multi hL segs st hh h s hck hbd
  rw [ho] at hc
  have hmem : st.done = some w.root ∨ w.root ∈ commitRoots L ck st.w s.calls := by
    rcases hc with h' | h'
    · rcases doneFrom_mem L ck s.calls _ _ _ _ h'.symm with h'' | h''
      · exact Or.inl h''
      · exact Or.inr h''
    · exact Or.inr (progFrom_mem L ck s.calls _ _ _ h'.symm)
  obtain ⟨hhd, hft⟩ := hroots w.root hmem
  obtain ⟨rec, hm, ho', he⟩ := reach_below hrefs hhd hft hr
  exact ⟨rec, hm, ho', he, records_intact_multi hL segs st hh h s hck hbd w ho rec hm he⟩

/-- **no_future_data_multi** -/
theorem no_future_data_multi (hL : L.OK) (segs : List Segment) (st : HState)
    (hh : HistHyps L ck (HState.init L) segs) (hwf : HistWF L ck (HState.init L) segs)
    (h : histFrom L ck (HState.init L) segs = some st)
    (s : Segment) (hck : ChecksumOK L ck st.w st.d s.calls) (hbd : Bounded L ck st.w s.calls)
    (hwfs : WF L ck st.w (st.recs.map (·.off)) s.calls)
    (w : Writer) (ho : Writer.open L ck (st.image L ck s) = some w) (o : Nat)
    (hr : Reach (st.allRecs L ck s) w.root o) : (o : Int) < w.root.free := by
  obtain ⟨rec, _, ho', he, _⟩ := reachable_durable_multi hL segs st hh hwf h s hck hbd hwfs w ho o hr
  have : rec.off < rec.end_ := by unfold Rec.end_; omega
  omega

/-! ## I/O errors (`Model/DiskFault`): every `pwrite` / barrier / `fallocate` may fail

The adversary picks, per storage call, the failing I/O call and how many bytes of a failing
`write_all` were still written (`Fault`).  `Writer.stepF` transliterates which in-memory fields
are already updated when the error propagates.  Proved for faults anywhere except inside a root
write (`EarlyRun`); a failing root `pwrite` / final barrier is modelled, run by the driver and
compared with the real code on injected failures, but its proof is open (hence `_partial`). -/

/-- **recover_cases_io_partial.**  Run from `create` with injected I/O errors (none of them inside
a root write), crash after any number `n` of I/O calls, any `χ`: `open` fails only if no commit
has returned `Ok`, else returns the last commit that returned `Ok` or the commit in progress —
a failed call never corrupts the durable state and a commit that reported success is never lost.

Full statement (open): the same without `EarlyRun`, with the third alternative "or the root of a
commit that reported an error after its root write was issued, whose generation is larger than
that of the last `Ok` commit". -/
theorem recover_cases_io_partial (hL : L.OK) (cs : List (Call × Fault))
    (he : EarlyRun L ck (Writer.create L).1 cs) (hh : HypsF L ck (Writer.create L).1 Disk.empty cs)
    (n : Nat) (χ : List (List Bool)) :
    match Writer.open L ck ((Disk.empty.execAll ((traceF L ck (Writer.create L).1 cs).take n)).crash χ) with
    | none => doneFromF L ck (Writer.create L).1 none cs n = none
    | some w => some w.root = doneFromF L ck (Writer.create L).1 none cs n ∨
        some w.root = progFromF L ck (Writer.create L).1 cs n :=
  run_safeF_partial hL cs _ _ _ _ _ (create_inv hL) he hh n χ

/-- one storage call with an early fault (or none) re-establishes the writer invariant, with the
committed root changed only by a commit that returned `Ok` -/
theorem failed_call_keeps_invariant_partial (hL : L.OK) {w : Writer} {d : Disk} {done : Option Root}
    {D : Nat} {recs : List Rec} (h : WInv L ck w d done D recs) (c : Call) (f : Fault)
    (he : f.Early L ck w c) (hbd : Bounded L ck w [c]) :
    ∃ D' recs', WInv L ck (w.stepF L ck c f).1 (d.execAll (w.stepF L ck c f).2.1)
      (doneAfterF L ck w c f done) D' recs' ∧ (∀ r ∈ recs, r ∈ recs') :=
  stepF_inv_partial hL h c f he hbd

theorem create_gq (hL : L.OK) : GQ L ck Disk.empty (G.init L) ∧ Link (Writer.create L).1 (G.init L) := by
  have hz : ∀ s, loadValid ck Disk.empty.durable s = none := by
    intro s; unfold loadValid; rw [loadRoot_zero (fun _ _ => rfl)]
  have hl : ∀ s, lenOK Disk.empty.durable s := by
    intro s; unfold lenOK lenAt Disk.empty rootMax; simp
  refine ⟨⟨Or.inl rfl, hl _, hl _, hz _, ?_, ?_, ?_, ?_, ?_, ?_, Nat.le_refl _, Nat.le_refl _, ?_⟩, ⟨rfl, rfl, rfl⟩⟩
  · intro r' h; rw [hz] at h; cases h
  · intro a h; rcases h with h | h <;> cases h
  · intro r h; cases h
  · intro a h; cases h
  · intro p h; cases h
  · intro a h; cases h
  · intro rec h; cases h

/-- **recover_cases_io.**  Run from `create` in which ANY I/O call of any storage call may fail
(adversary-chosen `Fault` per call: failing `fallocate`, `fsync`, data or root `pwrite` with any
number of bytes still written, data barrier, final barrier), crash after any number `n` of I/O
calls, any fault choice `χ`:

* `open` fails only if no commit has returned `Ok` so far;
* otherwise it returns the root of the last commit that returned `Ok`, or a root that some commit
  of the run attempted to write (a commit in progress, or one that reported an error after its
  root write was issued) whose generation is larger than that of the last `Ok` commit.

So a failed operation never corrupts the durable state and a commit that reported success is
never lost or rolled back.  Hypotheses (`HypsIO`): per commit, the attempted root fits the
machine types (`bounded_of_limits` reduces this to four physical bounds) and `TornOKp` — the
checksum hypothesis in its pointwise form — against the medium after that commit's data barrier. -/
theorem recover_cases_io (hL : L.OK) (cs : List (Call × Fault))
    (hh : HypsIO L ck (Writer.create L).1 Disk.empty cs) (n : Nat) (χ : List (List Bool)) :
    (Writer.open L ck ((Disk.empty.execAll ((traceF L ck (Writer.create L).1 cs).take n)).crash χ) = none →
      doneFromF L ck (Writer.create L).1 none cs n = none) ∧
    ∀ w, Writer.open L ck ((Disk.empty.execAll ((traceF L ck (Writer.create L).1 cs).take n)).crash χ) = some w →
      some w.root = doneFromF L ck (Writer.create L).1 none cs n ∨
      (w.root ∈ attemptsF L ck (Writer.create L).1 cs ∧
        ∀ r, doneFromF L ck (Writer.create L).1 none cs n = some r → r.gen < w.root.gen) := by
  obtain ⟨q, hl⟩ := create_gq (ck := ck) hL
  have := run_io hL cs _ _ _ [] q hl (fun r h => by rcases h with h | h <;> cases h) hh n χ
  refine ⟨by simpa [G.init] using this.1, fun w hw => ?_⟩
  have := (this.2 w hw).1
  simpa [G.init] using this

/-- **records_intact_io.**  Same runs (I/O errors anywhere): every item that some call of the run
appended completely (`recsF`: the write frontier moved past it — also the head set of a commit
that failed later) and that ends at or below the recovered `free_offset` is byte-identical in
the crash image.  Together with `recover_cases_io`: everything the recovered root can refer to
was synced before its root write and is readable; nothing at or beyond the recovered frontier is
part of the recovered state. -/
theorem records_intact_io (hL : L.OK) (cs : List (Call × Fault))
    (hh : HypsIO L ck (Writer.create L).1 Disk.empty cs) (n : Nat) (χ : List (List Bool)) (w : Writer)
    (ho : Writer.open L ck ((Disk.empty.execAll ((traceF L ck (Writer.create L).1 cs).take n)).crash χ) = some w) :
    ∀ rec ∈ recsF L ck (Writer.create L).1 cs, (rec.end_ : Int) ≤ w.root.free →
      agreeRec ((Disk.empty.execAll ((traceF L ck (Writer.create L).1 cs).take n)).crash χ) rec := by
  obtain ⟨q, hl⟩ := create_gq (ck := ck) hL
  have := (run_io hL cs _ _ _ [] q hl (fun r h => by rcases h with h | h <;> cases h) hh n χ).2 w ho
  simpa [G.init] using this.2.1

/-! ### histories `create; (calls with I/O errors; crash χ; open)*`

`SegmentF = (calls with a `Fault` each, n, χ)`, `histFromF` as `histFrom`; `HistHypsF` states
`HypsIO` per era against the image that era starts from. -/

/-- **recovered_image_inv_io.**  Also with I/O errors in the era, the generalised invariant holds
again on every image from which `open` succeeds (no attempt pending, recovered root committed). -/
theorem recovered_image_inv_io (hL : L.OK) {st st' : HStateF} {s : SegmentF} (hi : HInvF L ck st)
    (hh : HypsIO L ck st.w st.d s.calls) (hn : st.next L ck s = some st') : HInvF L ck st' :=
  reopen_invF hL hi hh hn

/-- **recover_cases_io_multi.**  After any history of eras with I/O errors, crashes and successful
reopens, for a further era with I/O errors anywhere, any crash point and any χ: `open` fails only
if no commit ever returned `Ok`; otherwise it returns the last commit that returned `Ok` (the root
recovered by the previous reopen if none since) or a root a commit of this era attempted, newer
than that. -/
theorem recover_cases_io_multi (hL : L.OK) (segs : List SegmentF) (st : HStateF)
    (hh : HistHypsF L ck (HStateF.init L) segs) (h : histFromF L ck (HStateF.init L) segs = some st)
    (s : SegmentF) (hs : HypsIO L ck st.w st.d s.calls) :
    (Writer.open L ck (st.image L ck s) = none → doneFromF L ck st.w st.done s.calls s.n = none) ∧
    ∀ w, Writer.open L ck (st.image L ck s) = some w →
      some w.root = doneFromF L ck st.w st.done s.calls s.n ∨
      (w.root ∈ attemptsF L ck st.w s.calls ∧
        ∀ r, doneFromF L ck st.w st.done s.calls s.n = some r → r.gen < w.root.gen) :=
  ⟨(hist_io hL segs st hh h s hs).1, fun w hw => ((hist_io hL segs st hh h s hs).2 w hw).1⟩

/-- **records_intact_io_multi.**  In such a history every item of any era that survived all
earlier reopens, or was appended completely in the current era, and ends at or below the
recovered `free_offset` is byte-identical in the crash image. -/
theorem records_intact_io_multi (hL : L.OK) (segs : List SegmentF) (st : HStateF)
    (hh : HistHypsF L ck (HStateF.init L) segs) (h : histFromF L ck (HStateF.init L) segs = some st)
    (s : SegmentF) (hs : HypsIO L ck st.w st.d s.calls) (w : Writer)
    (ho : Writer.open L ck (st.image L ck s) = some w) :
    ∀ rec ∈ st.allRecs L ck s, (rec.end_ : Int) ≤ w.root.free → agreeRec (st.image L ck s) rec :=
  ((hist_io hL segs st hh h s hs).2 w ho).2

/-- the pointwise checksum hypothesis implies the mask form used by the fault-free theorems -/
theorem tornOKp_implies_tornOK {old : Img} {s : Nat} {a : Root} (h : TornOKp ck old s a) :
    TornOK ck old s a := h.mask

/-- **bounded_from_limits.**  `Bounded` is not an independent hypothesis: it follows from the
checksum being a `u64`, the fact-cache offsets being `u64`s, fewer than `2^64` commits and a file
smaller than `2^63` bytes. -/
theorem bounded_from_limits (hck : CkRange ck) (calls : List Call)
    (hg : nCommits calls < 2 ^ 64) (hb : L.freeStart + totalBytes calls < 2 ^ 63)
    (hf : FactsU64 calls) : Bounded L ck (Writer.create L).1 calls :=
  bounded_of_limits hck calls _ (by simp [Writer.create, Root.new])
    (by simpa [Writer.create, Root.new] using hg) (by simpa [Writer.create, Root.new] using hb) hf

/-- `recover_cases` with `Bounded` replaced by the four physical bounds -/
theorem recover_cases_limits (hL : L.OK) (calls : List Call)
    (hck : ChecksumOK L ck (Writer.create L).1 Disk.empty calls) (hr : CkRange ck)
    (hg : nCommits calls < 2 ^ 64) (hb : L.freeStart + totalBytes calls < 2 ^ 63)
    (hf : FactsU64 calls) (n : Nat) (χ : List (List Bool)) :
    match Writer.open L ck (crashImage L ck calls n χ) with
    | none => doneAt L ck calls n = none
    | some w => some w.root = doneAt L ck calls n ∨ some w.root = progAt L ck calls n :=
  recover_cases hL calls ⟨hck, bounded_from_limits hr calls hg hb hf⟩ n χ

/-! ## short files: a read beyond EOF is an invalid root, never a panic

`Writer.openSz` is `Writer::open` on a file of `size` bytes (`read_exact` fails when the range is
not inside the file; `open` maps every load error to "slot invalid").  The functions are total —
there is no panic outcome to reach. -/

/-- a short file can only hide a root, never invent one -/
theorem loadValidSz_sub (img : Img) (size off : Nat) (r : Root)
    (h : loadValidSz ck img size off = some r) : loadValid ck img off = some r := by
  unfold loadValidSz loadRootSz at h
  unfold loadValid
  split at h
  · rename_i r0 h0
    split at h0
    · rw [h0]; exact h
    · cases h0
  · cases h

/-- a slot that is entirely inside the file loads as in the unbounded model -/
theorem loadValidSz_eq (img : Img) (size off : Nat) (hlen : lenOK img off) (hs : off + rootMax ≤ size) :
    loadValidSz ck img size off = loadValid ck img off := by
  unfold lenOK at hlen
  unfold loadValidSz loadRootSz loadValid
  rw [if_pos ⟨by unfold rootMax at hs; omega, by omega⟩]
  cases loadRoot img off <;> rfl

/-- a slot whose length prefix or body reaches beyond EOF is invalid -/
theorem loadValidSz_short (img : Img) (size off : Nat) (h : size < off + 4 + lenAt img off) :
    loadValidSz ck img size off = none := by
  unfold loadValidSz loadRootSz
  rw [if_neg (by omega)]

/-- **open_short_file.**  If the file still contains both root slots (always the case once
`create`'s `fallocate` + `fsync` returned) `open` is unaffected by the file size; in general the
root it returns also validates in the unbounded image. -/
theorem open_short_file (img : Img) (size : Nat) (hA : lenOK img L.rootA) (hB : lenOK img L.rootB)
    (hs : L.rootA + rootMax ≤ size ∧ L.rootB + rootMax ≤ size) :
    Writer.openSz L ck img size = Writer.open L ck img := by
  unfold Writer.openSz Writer.open
  rw [loadValidSz_eq img size _ hA hs.1, loadValidSz_eq img size _ hB hs.2]
  cases loadValid ck img L.rootA <;> cases loadValid ck img L.rootB <;> rfl

/-- a file that ends before the root slots (crash before `create`'s `fallocate` was durable) does
not open, whatever it contains -/
theorem open_truncated_none (hL : L.OK) (img : Img) (size : Nat) (h : size < L.rootA + 4) :
    Writer.openSz L ck img size = none := by
  have hb := hL.a_b
  unfold Writer.openSz
  rw [loadValidSz_short img size L.rootA (by omega), loadValidSz_short img size L.rootB (by omega)]

/-! ## the theorems for the constants of the current source -/

theorem recover_cases_real (ck : Checksum) (calls : List Call) (h : RunHyps Layout.real ck calls)
    (n : Nat) (χ : List (List Bool)) :
    match Writer.open Layout.real ck (crashImage Layout.real ck calls n χ) with
    | none => doneAt Layout.real ck calls n = none
    | some w => some w.root = doneAt Layout.real ck calls n ∨ some w.root = progAt Layout.real ck calls n :=
  recover_cases layout_ok calls h n χ

/-! ## non-vacuity: the hypotheses are satisfiable by a concrete multi-call run

A run `append; append; commit` on the real layout with a (degenerate, table-lookup) checksum
that satisfies `ChecksumOK` outright: only the one record of the run validates, because every
other field combination is given a checksum no `u64` varint can decode to. -/

def exRoot : Root := { gen := 1, heads := some 12299, fact := some 12288, free := 12304, sum := 7 }

def exCk : Checksum := fun g h f fr =>
  if g = exRoot.gen ∧ h = exRoot.heads ∧ f = exRoot.fact ∧ fr = exRoot.free then 7 else 2 ^ 64

def exCalls : List Call := [.append [1, 2] [], .append [9] [12288], .commit [3] [12294] 12288]

theorem decBody_sum_lt {bs : Bytes} {r : Root} (h : decBody bs = some r) : r.sum < 2 ^ 64 := by
  unfold decBody at h
  split at h
  · cases h
  · split at h
    · cases h
    · split at h
      · cases h
      · split at h
        · cases h
        · split at h
          · cases h
          · rename_i hs
            simp only [Option.some.injEq] at h
            rw [← h]
            exact varintDec64_lt hs

theorem exCk_valid {img : Img} {s : Nat} {r : Root} (h : loadValid exCk img s = some r) : r = exRoot := by
  unfold loadValid at h
  split at h
  · rename_i r0 hl
    split at h
    · rename_i hv
      simp only [Option.some.injEq] at h
      subst h
      have hlt := decBody_sum_lt hl
      simp only [Root.valid, exCk, beq_iff_eq] at hv
      split at hv
      · rename_i hf
        obtain ⟨h1, h2, h3, h4⟩ := hf
        cases r0
        simp only [exRoot] at *
        subst h1 h2 h3 h4 hv
        rfl
      · omega
    · cases h
  · cases h

theorem exRoot_eq : (Writer.commit Layout.real exCk
    (Writer.step Layout.real exCk (Writer.step Layout.real exCk (Writer.create Layout.real).1
      (.append [1, 2] [])).1 (.append [9] [12288])).1 [3] 12288).1.root = exRoot := by decide

theorem exHyps : RunHyps Layout.real exCk exCalls := by
  refine ⟨⟨trivial, trivial, ?_, trivial⟩, ⟨trivial, trivial, ?_, trivial⟩⟩
  · intro m1 m2 r' h
    left
    rw [exCk_valid h]
    exact exRoot_eq.symm
  · show Root.Bounded _
    rw [exRoot_eq]
    exact ⟨by decide, by intro v h; cases h; decide, by intro v h; cases h; decide, by decide, by decide⟩

example : Layout.real.OK ∧ RunHyps Layout.real exCk exCalls ∧
    WF Layout.real exCk (Writer.create Layout.real).1 [] exCalls := by
  refine ⟨layout_ok, exHyps, ?_⟩
  simp only [WF, exCalls]
  decide

/-- and in that run both outcomes of `recover_cases` occur: with the root write torn away the
image does not open (no commit had completed); with everything kept it opens as commit 1 -/
example : doneAt Layout.real exCk exCalls 10 = none ∧ progAt Layout.real exCk exCalls 10 = some exRoot ∧
    doneAt Layout.real exCk exCalls 12 = some exRoot := by decide

/-! non-vacuity of the multi-crash theorems: the run above crashes with its root write complete
but the final barrier missing (10 I/O calls after `create`, everything pending kept), the image
reopens as commit 1, and a second era (an append torn in the middle) starts from it; all
hypotheses of `recover_cases_multi` hold for this history. -/

def exSeg1 : Segment := ⟨exCalls, 10, [[true, true, true, true], List.replicate 19 true]⟩
def exSeg2 : Segment := ⟨[.append [7, 7, 7] [12299]], 3, [[true, true, false, true]]⟩

example : (histFrom Layout.real exCk (HState.init Layout.real) [exSeg1]).map (fun st => (st.done, st.w.nextRoot))
    = some (some exRoot, Layout.real.rootB) := by decide +kernel

example : HistHyps Layout.real exCk (HState.init Layout.real) [exSeg1, exSeg2] := by
  refine ⟨exHyps.1, exHyps.2, ?_⟩
  split
  · trivial
  · exact ⟨⟨trivial, trivial⟩, ⟨trivial, trivial⟩, by split <;> trivial⟩

end AranyaV.Disk
