import AranyaV.Proofs.KeyStore
/-!
# C45 — Key stores behave as maps

`Spec` is the abstract map `Id → Option Key` (plus the id of the live entry).  `Mem` models
`MemStore`, `Fs` models `fs_keystore::Store` as a directory of files with per-entry file
descriptors and read offsets (see `AranyaV/Model/KeyStore.lean`).  The theorems quantify over
every operation sequence over `entry / get / insert / remove / drop / Store::get /
try_insert / KeyStore::remove / reopen`, every id and every `u64` key; there is no length bound.

`Fs.step true` is the code after the F4 fix (`OccupiedEntry::get` rewinds the descriptor);
`Fs.step false` is the code as found, for which the refinement is false (`fs_old_not_map`).
-/
namespace AranyaV.KeyStore

theorem mem_run_sim {s : Mem} {t : Spec} (h : MemRel s t) (ops : List Op) :
    (Mem.run s ops).1 = (Spec.run t ops).1 ∧ MemRel (Mem.run s ops).2 (Spec.run t ops).2 := by
  induction ops generalizing s t with
  | nil => exact ⟨rfl, h⟩
  | cons op ops ih =>
    obtain ⟨h1, h2⟩ := mem_step_sim h op
    obtain ⟨h3, h4⟩ := ih h2
    simp only [Mem.run, Spec.run]
    exact ⟨by rw [h1, h3], h4⟩

theorem fs_run_sim {s : Fs} {t : Spec} (h : FsRel s t) (ops : List Op) :
    (Fs.run true s ops).1 = (Spec.run t ops).1 ∧ FsRel (Fs.run true s ops).2 (Spec.run t ops).2 := by
  induction ops generalizing s t with
  | nil => exact ⟨rfl, h⟩
  | cons op ops ih =>
    obtain ⟨h1, h2⟩ := fs_step_sim h op
    obtain ⟨h3, h4⟩ := ih h2
    simp only [Fs.run, Spec.run]
    exact ⟨by rw [h1, h3], h4⟩

/-- **`MemStore` behaves as the map**: starting from the empty store, every operation sequence
gets exactly the answers the abstract map gives, and the stored bytes are the encodings of the
map's bindings. -/
theorem mem_refines_map (ops : List Op) :
    (Mem.run {} ops).1 = (Spec.run {} ops).1 ∧
    ∀ i, aget (Mem.run {} ops).2.keys i = ((Spec.run {} ops).2.m i).map enc := by
  obtain ⟨h1, h2⟩ := mem_run_sim memRel_init ops
  exact ⟨h1, h2.1⟩

/-- **The file-system store behaves as the map**: starting from an empty directory, every
operation sequence (including reopening the directory) gets exactly the answers the abstract map
gives — in particular no `get`/`remove` ever fails, whatever was read before through the same
entry — and the simulation relation holds at the end. -/
theorem fs_refines_map (ops : List Op) :
    (Fs.run true {} ops).1 = (Spec.run {} ops).1 ∧
    FsRel (Fs.run true {} ops).2 (Spec.run {} ops).2 :=
  fs_run_sim fsRel_init ops

/-- **Directory contents**: whenever no entry is alive, the directory holds exactly one file
per binding of the map, containing the encoded key, and nothing else (a dropped vacant entry,
a removed key leave nothing behind); this is also what the listing printed by the driver (and
compared with the real directory) shows. -/
theorem fs_dir_exact (ops : List Op) (hc : (Spec.run {} ops).2.cur = none) (j : Nat) :
    (Fs.run true {} ops).2.file j = ((Spec.run {} ops).2.m j).map enc ∧
    aget (Fs.run true {} ops).2.listing j = ((Spec.run {} ops).2.m j).map enc := by
  obtain ⟨hb, hA | hB | hC⟩ := (fs_refines_map ops).2
  · exact ⟨hA.2.2 j, by rw [aget_listing hb]; exact hA.2.2 j⟩
  · obtain ⟨i, k, a, off, h, _⟩ := hB; rw [hc] at h; cases h
  · obtain ⟨i, a, h, _⟩ := hC; rw [hc] at h; cases h

theorem spec_run_append (t : Spec) (xs ys : List Op) :
    Spec.run t (xs ++ ys) =
      ((Spec.run t xs).1 ++ (Spec.run (Spec.run t xs).2 ys).1, (Spec.run (Spec.run t xs).2 ys).2) := by
  induction xs generalizing t with
  | nil => simp [Spec.run]
  | cons x xs ih => simp [Spec.run, ih]

theorem fs_run_append (s : Fs) (xs ys : List Op) :
    Fs.run true s (xs ++ ys) =
      ((Fs.run true s xs).1 ++ (Fs.run true (Fs.run true s xs).2 ys).1,
       (Fs.run true (Fs.run true s xs).2 ys).2) := by
  induction xs generalizing s with
  | nil => simp [Fs.run]
  | cons x xs ih => simp [Fs.run, ih]

/-- **A vacant entry dropped without an insert leaves nothing behind**: after any history, taking
an entry for an absent id and dropping it answers `vac`, `ok` and the directory is file for file
what it was before. -/
theorem fs_vacant_drop_leaves_nothing (ops : List Op) (i : Nat)
    (hc : (Spec.run {} ops).2.cur = none) (hi : (Spec.run {} ops).2.m i = none) :
    let s := (Fs.run true {} ops).2
    (Fs.run true s [.entry i, .drop]).1 = [.vac, .ok] ∧
    ∀ j, (Fs.run true s [.entry i, .drop]).2.file j = s.file j := by
  intro s
  have h0 := (fs_refines_map ops).2
  obtain ⟨h1, h2⟩ := fs_run_sim h0 [.entry i, .drop]
  have hs : Spec.run (Spec.run {} ops).2 [.entry i, .drop] = ([.vac, .ok], (Spec.run {} ops).2) := by
    cases ht : (Spec.run {} ops).2 with
    | mk m cur =>
      rw [ht] at hc hi
      simp only at hc hi
      subst hc
      simp [Spec.run, Spec.step, hi]
  rw [hs] at h1 h2
  refine ⟨h1, fun j => ?_⟩
  obtain ⟨_, hA | hB | hC⟩ := h2
  · obtain ⟨_, hA' | hB' | hC'⟩ := h0
    · rw [hA.2.2 j, hA'.2.2 j]
    · obtain ⟨_, _, _, _, h, _⟩ := hB'; rw [hc] at h; cases h
    · obtain ⟨_, _, h, _⟩ := hC'; rw [hc] at h; cases h
  · obtain ⟨_, _, _, _, h, _⟩ := hB; rw [hc] at h; cases h
  · obtain ⟨_, _, h, _⟩ := hC; rw [hc] at h; cases h

/-- **A failed insert leaves the id vacant and nothing behind**: after any history, an insert
(through a vacant entry or through `try_insert`) of a key whose serialisation fails after a partial
write answers `err`, every file is what it was before, and the id can still be inserted. -/
theorem fs_failed_insert_leaves_nothing (ops : List Op) (i : Nat) (k k' : UInt64)
    (hc : (Spec.run {} ops).2.cur = none) (hi : (Spec.run {} ops).2.m i = none) :
    let s := (Fs.run true {} ops).2
    (Fs.run true s [.entry i, .insertFail k, .tryInsertFail i k, .sget i, .tryInsert i k', .sget i]).1
      = [.vac, .err, .err, .none, .ok, .key k'] ∧
    ∀ j, (Fs.run true s [.entry i, .insertFail k, .tryInsertFail i k]).2.file j = s.file j := by
  intro s
  have h0 := (fs_refines_map ops).2
  obtain ⟨h1, _⟩ := fs_run_sim h0 [.entry i, .insertFail k, .tryInsertFail i k, .sget i, .tryInsert i k', .sget i]
  obtain ⟨_, h2⟩ := fs_run_sim h0 [.entry i, .insertFail k, .tryInsertFail i k]
  cases ht : (Spec.run {} ops).2 with
  | mk m cur =>
    rw [ht] at hc hi h1 h2 h0
    simp only at hc hi
    subst hc
    have hs1 : (Spec.run ⟨m, none⟩ [.entry i, .insertFail k, .tryInsertFail i k, .sget i, .tryInsert i k', .sget i]).1
        = [.vac, .err, .err, .none, .ok, .key k'] := by
      simp [Spec.run, Spec.step, hi, upd]
    have hs2 : (Spec.run ⟨m, none⟩ [.entry i, .insertFail k, .tryInsertFail i k]).2 = ⟨m, none⟩ := by
      simp [Spec.run, Spec.step, hi]
    rw [hs1] at h1
    rw [hs2] at h2
    refine ⟨h1, fun j => ?_⟩
    obtain ⟨_, hA | hB | hC⟩ := h2
    · obtain ⟨_, hA' | hB' | hC'⟩ := h0
      · rw [hA.2.2 j, hA'.2.2 j]
      · obtain ⟨_, _, _, _, h, _⟩ := hB'; cases h
      · obtain ⟨_, _, h, _⟩ := hC'; cases h
    · obtain ⟨_, _, _, _, h, _⟩ := hB; cases h
    · obtain ⟨_, _, h, _⟩ := hC; cases h

/-- **Reopening shows the same contents**: `Store::open` on the same directory changes nothing. -/
theorem fs_reopen_same (s : Fs) (h : s.cur = none) : s.step true .reopen = (.ok, s) := by
  simp [Fs.step, h]

/-- the codec fact the refinement rests on, for every `u64` -/
theorem codec_round_trip (k : UInt64) (rest : List UInt8) :
    dec (enc k ++ rest) = .ok (k, (enc k).length) := dec_enc k rest

/-! ## the abstract map really is the map of the property statement -/

/-- an id is occupied exactly after an insert through a vacant entry … -/
theorem spec_insert_then_occupied (t : Spec) (i : Nat) (k : UInt64) (hc : t.cur = none)
    (hi : t.m i = none) :
    (Spec.run t [.entry i, .insert k, .entry i, .get, .drop, .sget i]).1
      = [.vac, .ok, .occ, .key k, .ok, .key k] := by
  obtain ⟨m, cur⟩ := t
  simp only at hc hi
  subst hc
  simp [Spec.run, Spec.step, hi, upd]

/-- … and until it is removed -/
theorem spec_remove_then_vacant (t : Spec) (i : Nat) (k : UInt64) (hc : t.cur = none)
    (hi : t.m i = some k) :
    (Spec.run t [.entry i, .remove, .sget i, .entry i]).1 = [.occ, .key k, .none, .vac] := by
  obtain ⟨m, cur⟩ := t
  simp only at hc hi
  subst hc
  simp [Spec.run, Spec.step, hi, upd]

/-! ## non-vacuity and the defect -/

/-- a concrete non-trivial history: the refinement's conclusion is about real answers -/
example : (Fs.run true {} [.tryInsert 0 24, .entry 0, .get, .get, .remove, .entry 0, .drop, .sget 0]).1
    = [.ok, .occ, .key 24, .key 24, .key 24, .vac, .ok, .none] := by decide

example : (Fs.run true {} [.tryInsertFail 0 24, .sget 0, .entry 0, .insertFail 7, .entry 0, .insert 300, .sget 0]).1
    = [.err, .none, .vac, .err, .vac, .ok, .key 300] := by decide

example : (Mem.run {} [.entry 1, .insert 65536, .tryInsert 1 3, .sremove 1, .sget 1]).1
    = [.vac, .ok, .exists, .key 65536, .none] := by decide

/-- `fs_vacant_drop_leaves_nothing` has satisfiable hypotheses -/
example : (Spec.run {} [.tryInsert 0 5]).2.cur = none ∧ (Spec.run {} [.tryInsert 0 5]).2.m 1 = none := by
  decide

/-- **F4** — the code as found (no rewind): the second `get` through the same entry fails, and
`remove` after a `get` deletes the file and then reports an error.  The map answers `key 24`. -/
theorem fs_old_not_map :
    (Fs.run false {} [.tryInsert 0 24, .entry 0, .get, .get]).1 = [.ok, .occ, .key 24, .err] ∧
    (Fs.run false {} [.tryInsert 0 24, .entry 0, .get, .remove, .sget 0]).1
      = [.ok, .occ, .key 24, .err, .none] ∧
    (Spec.run {} [.tryInsert 0 24, .entry 0, .get, .get]).1 = [.ok, .occ, .key 24, .key 24] := by
  decide

end AranyaV.KeyStore
