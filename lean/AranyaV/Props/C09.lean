import AranyaV.Proofs.TrxRoot
/-!
# C09 — The head set is exactly the frontier

Model: `AranyaV.Trx` (Model/Trx.lean), the transliteration of `Transaction` / `commit` /
`ClientState::action` after the repair of F1/F1b/F6 (notes/C06.md).  All statements quantify over
every history `ops : List Op` of the client LTS — any number of concurrently open transactions,
any batching, flushes, duplicates, rejected commands, failed merges, actions — with no bound.
-/
namespace AranyaV.Trx
open AranyaV.Spec AranyaV.Gen

/-- **TipsInv.**  After any history, for every open transaction that holds the current head-set
stamp, `heads ∪ {phead if a perspective is in flight}` is exactly the frontier of
committed ∪ written-by-the-transaction ∪ in-flight commands (`view`); the written tips together
with the covered tips `pbase` are exactly the frontier of committed ∪ written, and the key list is
strictly ascending. -/
theorem TipsInv (gid : Nat) (ops : List Op) {st : Store} {s : Nat} {t : Trx}
    (hst : (run { gid := gid } ops).store = some st) (hm : (s, t) ∈ (run { gid := gid } ops).trxs)
    (ho : t.offset = some st.stamp) :
    (∀ i, i ∈ tipsOf t ↔ i ∈ frontier (cmds (view st t))) ∧
    (∀ i, (i ∈ t.heads ∨ i ∈ t.pbase) ↔ i ∈ frontier (cmds (st.graph ++ t.written))) ∧
    t.heads.Pairwise (· < ·) ∧ WF (cmds (view st t)) := by
  have hinv := run_inv (ClientInv.init gid) ops
  have ht := hinv.trxs s t hm
  rw [hst] at ht
  simp only [TrxOK, ho] at ht
  have hi := ht.2 trivial
  refine ⟨fun i => ?_, fun i => ?_, hi.sorted, hi.wf⟩
  · rw [mem_frontier]; exact tipsOf_iff hi i
  · rw [mem_frontier]; exact hi.heads i

/-- The invariant is inductive: it holds of the empty client and every operation of the LTS keeps it
(this is what `TipsInv` and `commit_heads_frontier` are instances of). -/
theorem tips_inductive : (∀ gid, ClientInv { gid := gid }) ∧ (∀ cl op, ClientInv cl → ClientInv (step cl op).1) :=
  ⟨ClientInv.init, fun _ op h => step_inv h op⟩

/-- every arm of `add_commands` on a transaction that holds the current stamp keeps its tips equal
to the frontier (rejected commands, missing parents, failed merges included) -/
theorem tips_add (gid : Nat) {st : Store} {t : Trx} (sink : List SinkEv) (batch : List In) (n : Nat)
    (h : TrxInv st t) :
    ∀ i, i ∈ tipsOf (addLoop gid st t sink batch n).1 ↔
      i ∈ frontier (cmds (view st (addLoop gid st t sink batch n).1)) := by
  intro i
  rw [mem_frontier]
  exact tipsOf_iff (addLoop_refines gid batch sink n h).1 i

/-- `flush` changes neither the view nor the set of tips -/
theorem tips_flush {st : Store} {t : Trx} (h : TrxInv st t) :
    view st (flushT t) = view st t ∧ (∀ i, i ∈ tipsOf (flushT t) ↔ i ∈ tipsOf t) := by
  refine ⟨h.view_flush.1, fun i => ?_⟩
  rw [tipsOf_iff (flushT_inv h).1, tipsOf_iff h, h.view_flush.1]

/-- **commit_heads_frontier.**  After any history the committed head set is strictly ascending by
id (hence duplicate-free) and equals the `frontier` of the committed graph: exactly the committed
commands that no committed command names as a parent. -/
theorem commit_heads_frontier (gid : Nat) (ops : List Op) {st : Store}
    (hst : (run { gid := gid } ops).store = some st) :
    st.heads = frontier (cmds st.graph) ∧ st.heads.Pairwise (· < ·) ∧ st.heads.Nodup ∧ WF (cmds st.graph) := by
  have hs := (run_inv (ClientInv.init gid) ops).store st hst
  exact ⟨eq_frontier hs.sorted hs.heads, hs.sorted, sorted_nodup hs.sorted, hs.wf⟩

/-- nothing committed is out of reach of the head set: every committed command is an
ancestor-or-self of a head -/
theorem heads_cover (gid : Nat) (ops : List Op) {st : Store}
    (hst : (run { gid := gid } ops).store = some st) :
    ∀ x ∈ ids (cmds st.graph), ∃ h ∈ st.heads, Reach (cmds st.graph) x h := by
  have hs := (run_inv (ClientInv.init gid) ops).store st hst
  intro x hx
  obtain ⟨t, ht, hr⟩ := reach_tip hs.wf x hx
  exact ⟨t, (hs.heads t).mpr ht, hr⟩

/-- **init_anc_all.**  After any history the committed graph starts with the init command (the
parentless command whose id is the graph id) and that command is an ancestor of every head other
than itself (`Spec.anc` is the executable ancestry test of `Spec.Graph`). -/
theorem init_anc_all (gid : Nat) (ops : List Op) {st : Store}
    (hst : (run { gid := gid } ops).store = some st) :
    ∃ c0 rest, st.graph = c0 :: rest ∧ c0.cmd.id = gid ∧ c0.cmd.parents = [] ∧
      ∀ h ∈ st.heads, h = gid ∨ anc (cmds st.graph) gid h = true := by
  have hs := (run_inv (ClientInv.init gid) ops).store st hst
  have hr := (run_root (ClientInv.init gid) (RootInv.init gid) ops).store st hst
  rw [run_gid] at hr
  obtain ⟨c0, rest, hg, hid, hp, hrest⟩ := hr
  refine ⟨c0, rest, hg, hid, hp, ?_⟩
  intro h hh
  by_cases e : h = gid
  · exact Or.inl e
  · right
    rw [anc_iff hs.wf]
    refine ⟨fun e' => e e'.symm, ?_⟩
    have hmem : h ∈ ids (cmds st.graph) := ((hs.heads h).mp hh).1
    have := root_reaches hs.wf (c0 := c0.cmd) (rest := cmds rest) (by rw [hg]; rfl)
      (by intro d hd; simp only [cmds, List.mem_map] at hd; obtain ⟨x, hx, rfl⟩ := hd; exact hrest x hx) h hmem
    rw [hid] at this; exact this

/-! ## non-vacuity: a concrete history with a duplicate, a deep parent, a rejected command, a
flush and a merge of two tips -/

private def i0 : In := { cmd := { id := 10, parents := [], prio := .init, body := [.set 0 0] }, pol := true }
private def a1 : In := { cmd := { id := 21, parents := [10], prio := .basic 0, body := [.set 1 1] }, pol := false }
private def a2 : In := { cmd := { id := 22, parents := [21], prio := .basic 0, body := [.set 2 2] }, pol := false }
private def b1 : In := { cmd := { id := 15, parents := [10], prio := .basic 1, body := [.set 3 3] }, pol := false }
private def zz : In := { cmd := { id := 99, parents := [21], prio := .basic 0, body := [.set 4 4, .emit 7, .fail] }, pol := false }
private def mm : In := { cmd := { id := 50, parents := [15, 22], prio := .merge, body := [] }, pol := false }
private def hist : List AranyaV.Trx.Op :=
  [.openT 0, .add 0 [i0, a1, a2], .flush 0, .add 0 [b1, a2], .add 0 [zz], .add 0 [a1]]

example : (run { gid := 10 } hist).store.map (·.heads) = some [10] := by decide +kernel
example : ((run { gid := 10 } hist).trxs.map (fun x => (x.2.heads, x.2.pbase, x.2.phead, x.2.offset))) =
    [([15, 22], [], none, some 0)] := by decide +kernel
example : (run { gid := 10 } (hist ++ [.add 0 [mm], .commit 0])).store.map (fun s => (s.heads, s.stamp, s.graph.map (·.cmd.id))) =
    some ([50], 1, [10, 21, 22, 15, 50]) := by decide +kernel

end AranyaV.Trx
