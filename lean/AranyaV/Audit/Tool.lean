import Lean
/-!
`#audit_module M` prints, for every theorem declared in module `M`, one line
`AUDIT <name> :: <axiom> <axiom> ...` (sorted), then `AUDIT-DONE <count>`.
Used by `./check` to (a) count proof obligations, (b) verify that no theorem depends on
anything but `propext`, `Classical.choice`, `Quot.sound` (in particular not `sorryAx`,
not `Lean.ofReduceBool`/`Lean.trustCompiler` from `native_decide`, no `bv_decide` axioms).
-/
open Lean Elab Command

elab "#audit_module " id:ident : command => do
  let env ← getEnv
  let modName := id.getId
  let some modIdx := env.getModuleIdx? modName
    | throwError "module {modName} is not imported"
  let mut names : Array Name := #[]
  for (n, ci) in env.constants.map₁.toList do
    if env.getModuleIdxFor? n == some modIdx then
      if let .thmInfo _ := ci then
        if !n.isInternalDetail then
          names := names.push n
  let sorted := names.qsort (fun a b => a.toString < b.toString)
  for n in sorted do
    let axs ← Lean.collectAxioms n
    let axs := axs.qsort (fun a b => a.toString < b.toString)
    logInfo m!"AUDIT {n} :: {" ".intercalate (axs.toList.map toString)}"
  logInfo m!"AUDIT-DONE {sorted.size}"
