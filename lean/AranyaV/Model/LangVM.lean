import AranyaV.Spec.Lang
/-!
# Model.LangVM — `RunState::step` / `run` (aranya-policy-vm/src/machine.rs) for the C22–C24 fragment

State: value stack (head = top), scopes (`ScopeManager.locals`: function frames, each a list of
block scopes, innermost first), `call_state` (return addresses and saved stack pointers share one
stack, as in the Rust code), pc, foreign-call log.  `step` matches exhaustively on the generated
`Instruction`; instructions outside the fragment (facts, queries, publish/emit, serialize,
recall, `Next`/`Last`) end in `MErr.unsupported`.  The 100-slot stack limit (`STACK_SIZE`) is not
modelled: a real run may additionally end in `StackOverflow`, which the properties except.
-/
namespace AranyaV.Lang
open AranyaV.Gen.Lang

inductive Label where
  | anon (n : Nat)
  | fn (name : Nat)
  deriving DecidableEq, Repr, Inhabited

/-- `Meta::FFI(module, procedure)` names (the only `Meta` the fragment emits) -/
abbrev MetaInfo := Nat × Nat

abbrev Instr := Instruction Val Nat Label MetaInfo

structure VM where
  stack : List Val
  scopes : List Env
  calls : List Nat
  pc : Nat
  log : Log

inductive MErr where
  | invalidAddress | stackUnderflow | invalidType | badState | unresolvedTarget
  | notDefined | alreadyDefined | invalidStructMember | invalidSchema
  | ffi | unknown | unsupported
  deriving DecidableEq, Repr, Inhabited

inductive StepRes where
  | running (s : VM)
  | exited (r : ExitReason) (s : VM)
  | error (e : MErr) (log : Log)

/-- static machine data: program memory + schemas/globals/foreign functions -/
structure Machine where
  prog : List Instr
  p : Program
  /-- number of arguments a foreign function pops -/
  ffiArity : Nat → Nat → Option Nat

def wrapVal : WrapType → Val → Val
  | .Ok, v => .ok v
  | .Err, v => .err v
  | .Some, v => .some v

def VM.next (s : VM) : StepRes := .running { s with pc := s.pc + 1 }
def VM.push (s : VM) (v : Val) : VM := { s with stack := v :: s.stack }

def popN : Nat → List Val → Option (List Val × List Val)
  | 0, st => Option.some ([], st)
  | _ + 1, [] => Option.none
  | n + 1, v :: st => match popN n st with
    | Option.some (vs, st') => Option.some (v :: vs, st')
    | Option.none => Option.none

/-- `MStructGet`: pop `n` identifiers (first popped first) -/
def popIdents : Nat → List Val → Except MErr (List Nat × List Val)
  | 0, st => .ok ([], st)
  | _ + 1, [] => .error .stackUnderflow
  | n + 1, .ident k :: st => match popIdents n st with
    | .ok (ks, st') => .ok (k :: ks, st')
    | .error e => .error e
  | _ + 1, _ :: _ => .error .invalidType

/-- `MStructGet`: for each name remove the field from `fs`, push name and value -/
def mget : List Nat → List (Nat × Val) → List Val → Except MErr (List Val)
  | [], _, st => .ok st
  | k :: ks, fs, st => match getField fs k with
    | Option.none => .error .invalidStructMember
    | Option.some v => mget ks (removeField fs k) (v :: .ident k :: st)

/-- `MStructSet`: pop `n` (value, identifier) pairs -/
def popPairs : Nat → List Val → Except MErr (List (Nat × Val) × List Val)
  | 0, st => .ok ([], st)
  | _ + 1, [] => .error .stackUnderflow
  | _ + 1, [_] => .error .stackUnderflow
  | n + 1, v :: .ident k :: st => match popPairs n st with
    | .ok (kvs, st') => .ok ((k, v) :: kvs, st')
    | .error e => .error e
  | _ + 1, _ :: _ :: _ => .error .invalidType

def msetFields (d : List (Nat × Ty)) : List (Nat × Val) → List (Nat × Val) → Except MErr (List (Nat × Val))
  | [], fs => .ok fs
  | (k, v) :: kvs, fs => match d.find? (·.1 == k) with
    | Option.none => .error .invalidStructMember
    | Option.some (_, t) => if v.fitsType t then msetFields d kvs (setField fs k v) else .error .invalidStructMember

def step (m : Machine) (s : VM) : StepRes :=
  match m.prog[s.pc]? with
  | Option.none => .error .invalidAddress s.log
  | Option.some ins =>
    match ins with
    | .SaveSP => VM.next { s with calls := s.stack.length :: s.calls }
    | .RestoreSP => match s.calls with
      | [] => .error .badState s.log
      | saved :: cs =>
        if s.stack.length < saved + 1 then .error .badState s.log
        else if s.stack.length = saved + 1 then VM.next { s with calls := cs }
        else match s.stack with
          | [] => .error .stackUnderflow s.log
          | v :: rest => VM.next { s with calls := cs, stack := v :: rest.drop (rest.length - saved) }
    | .Const v => VM.next (s.push v)
    | .Identifier i => VM.next (s.push (.ident i))
    | .Def k => match s.stack with
      | [] => .error .stackUnderflow s.log
      | v :: st => match s.scopes with
        | [] => .error .badState s.log
        | env :: fr => match bindVar m.p env k v with
          | Option.some env' => VM.next { s with stack := st, scopes := env' :: fr }
          | Option.none => .error .alreadyDefined s.log
    | .Get k => match s.scopes with
      | [] => match m.p.global k with
        | Option.some v => VM.next (s.push v)
        | Option.none => .error .notDefined s.log
      | env :: _ => match lookupVar m.p env k with
        | Option.some v => VM.next (s.push v)
        | Option.none => .error .notDefined s.log
    | .Dup => match s.stack with
      | [] => .error .stackUnderflow s.log
      | v :: _ => VM.next (s.push v)
    | .Pop => VM.next { s with stack := s.stack.tail }
    | .Block => match s.scopes with
      | [] => .error .badState s.log
      | env :: fr => VM.next { s with scopes := ([] :: env) :: fr }
    | .End => match s.scopes with
      | [] => .error .badState s.log
      | [] :: _ => .error .badState s.log
      | (_ :: env) :: fr => VM.next { s with scopes := env :: fr }
    | .Jump t => match t with
      | .Unresolved _ => .error .unresolvedTarget s.log
      | .Resolved n => .running { s with pc := n }
    | .Branch t => match s.stack with
      | [] => .error .stackUnderflow s.log
      | .bool c :: st =>
        if c then match t with
          | .Unresolved _ => .error .unresolvedTarget s.log
          | .Resolved n => .running { s with stack := st, pc := n }
        else VM.next { s with stack := st }
      | _ :: _ => .error .invalidType s.log
    | .Next => .error .unsupported s.log
    | .Last => .error .unsupported s.log
    | .Call t => match t with
      | .Unresolved _ => .error .unresolvedTarget s.log
      | .Resolved n => .running { s with scopes := [[]] :: s.scopes, calls := s.pc :: s.calls, pc := n }
    | .Recall _ => .error .unsupported s.log
    | .ExtCall mi pi => match m.ffiArity mi pi with
      | Option.none => .error .ffi s.log
      | Option.some ar => match popN ar s.stack with
        | Option.none => .error .stackUnderflow s.log
        | Option.some (rargs, st) =>
          let args := rargs.reverse
          match m.p.ffi mi pi args with
          | .ret v => VM.next { s with stack := v :: st, log := (mi, pi, args) :: s.log }
          | .fail => .error .ffi ((mi, pi, args) :: s.log)
          | .bad => .error .invalidType s.log
    | .Return => match s.calls with
      | [] => .exited .Normal s
      | ra :: cs => match s.scopes with
        | [] => .error .badState s.log
        | _ :: fr => .running { s with calls := cs, scopes := fr, pc := ra + 1 }
    | .Exit r => .exited r s
    | .Add => match s.stack with
      | .int b :: .int a :: st => VM.next { s with stack := checked (a + b) :: st }
      | [] => .error .stackUnderflow s.log
      | [_] => .error .stackUnderflow s.log
      | _ :: _ :: _ => .error .invalidType s.log
    | .Sub => match s.stack with
      | .int b :: .int a :: st => VM.next { s with stack := checked (a - b) :: st }
      | [] => .error .stackUnderflow s.log
      | [_] => .error .stackUnderflow s.log
      | _ :: _ :: _ => .error .invalidType s.log
    | .SaturatingAdd => match s.stack with
      | .int b :: .int a :: st => VM.next { s with stack := .int (saturate (a + b)) :: st }
      | [] => .error .stackUnderflow s.log
      | [_] => .error .stackUnderflow s.log
      | _ :: _ :: _ => .error .invalidType s.log
    | .SaturatingSub => match s.stack with
      | .int b :: .int a :: st => VM.next { s with stack := .int (saturate (a - b)) :: st }
      | [] => .error .stackUnderflow s.log
      | [_] => .error .stackUnderflow s.log
      | _ :: _ :: _ => .error .invalidType s.log
    | .Not => match s.stack with
      | .bool b :: st => VM.next { s with stack := .bool (!b) :: st }
      | [] => .error .stackUnderflow s.log
      | _ :: _ => .error .invalidType s.log
    | .Gt => match s.stack with
      | .int b :: .int a :: st => VM.next { s with stack := .bool (decide (a > b)) :: st }
      | [] => .error .stackUnderflow s.log
      | [_] => .error .stackUnderflow s.log
      | _ :: _ :: _ => .error .invalidType s.log
    | .Lt => match s.stack with
      | .int b :: .int a :: st => VM.next { s with stack := .bool (decide (a < b)) :: st }
      | [] => .error .stackUnderflow s.log
      | [_] => .error .stackUnderflow s.log
      | _ :: _ :: _ => .error .invalidType s.log
    | .Eq => match s.stack with
      | b :: a :: st => VM.next { s with stack := .bool (a.beq b) :: st }
      | _ => .error .stackUnderflow s.log
    | .FactNew _ => .error .unsupported s.log
    | .FactKeySet _ => .error .unsupported s.log
    | .FactValueSet _ => .error .unsupported s.log
    | .StructNew name => VM.next (s.push (.struct name []))
    | .StructSet f => match s.stack with
      | v :: .struct name fs :: st => match m.p.structDef name with
        | Option.none => .error .invalidSchema s.log
        | Option.some d =>
          if d.any (·.1 == f) then VM.next { s with stack := .struct name (setField fs f v) :: st }
          else .error .invalidStructMember s.log
      | [] => .error .stackUnderflow s.log
      | [_] => .error .stackUnderflow s.log
      | _ :: _ :: _ => .error .invalidType s.log
    | .StructGet f => match s.stack with
      | .struct _ fs :: st => match getField fs f with
        | Option.some v => VM.next { s with stack := v :: st }
        | Option.none => .error .invalidStructMember s.log
      | [] => .error .stackUnderflow s.log
      | _ :: _ => .error .invalidType s.log
    | .MStructSet n => match popPairs n s.stack with
      | .error e => .error e s.log
      | .ok (kvs, st) => match st with
        | .struct name fs :: st' => match m.p.structDef name with
          | Option.none => .error .invalidSchema s.log
          | Option.some d => match msetFields d kvs fs with
            | .ok fs' => VM.next { s with stack := .struct name fs' :: st' }
            | .error e => .error e s.log
        | [] => .error .stackUnderflow s.log
        | _ :: _ => .error .invalidType s.log
    | .MStructGet n => match popIdents n s.stack with
      | .error e => .error e s.log
      | .ok (ks, st) => match st with
        | .struct _ fs :: st' => match mget ks fs st' with
          | .ok st'' => VM.next { s with stack := st'' }
          | .error e => .error e s.log
        | [] => .error .stackUnderflow s.log
        | _ :: _ => .error .invalidType s.log
    | .Cast to => match s.stack with
      | .struct _ fs :: st => match m.p.structDef to with
        | Option.none => .error .notDefined s.log
        | Option.some d => if castOk fs d then VM.next { s with stack := .struct to fs :: st } else .error .unknown s.log
      | [] => .error .stackUnderflow s.log
      | _ :: _ => .error .invalidType s.log
    | .Wrap w => match s.stack with
      | v :: st => VM.next { s with stack := wrapVal w v :: st }
      | [] => .error .stackUnderflow s.log
    | .Is w => match s.stack with
      | v :: st => VM.next { s with stack := .bool (isWrap w v) :: st }
      | [] => .error .stackUnderflow s.log
    | .Unwrap w => match s.stack with
      | v :: st => match unwrap w v with
        | Option.some inner => VM.next { s with stack := inner :: st }
        | Option.none => .error .invalidType s.log
      | [] => .error .stackUnderflow s.log
    | .Publish => .error .unsupported s.log
    | .Create => .error .unsupported s.log
    | .Delete => .error .unsupported s.log
    | .Update => .error .unsupported s.log
    | .Emit => .error .unsupported s.log
    | .Query => .error .unsupported s.log
    | .FactCount _ => .error .unsupported s.log
    | .QueryStart => .error .unsupported s.log
    | .QueryNext _ => .error .unsupported s.log
    | .Serialize => .error .unsupported s.log
    | .Deserialize => .error .unsupported s.log
    | .Meta _ => VM.next s

inductive RunRes where
  | exited (r : ExitReason) (s : VM)
  | error (e : MErr) (log : Log)
  | oof

def run (m : Machine) : Nat → VM → RunRes
  | 0, _ => .oof
  | n + 1, s => match step m s with
    | .running s' => run m n s'
    | .exited r s' => .exited r s'
    | .error e l => .error e l

/-- the state the harness starts a function call from: `RunState::new`, pc at the function's
label, arguments pushed in order -/
def VM.init (entry : Nat) (args : List Val) : VM :=
  { stack := args.reverse, scopes := [[[]]], calls := [], pc := entry, log := [] }

end AranyaV.Lang
