import AranyaV.Gen.ConstsText
/-
Model of `aranya_policy_text::{Text, Identifier}` and their private `Repr`
(crates/aranya-policy-text/src/{repr,text,ident}.rs).

Strings are byte lists.  A Rust `&str` argument is a byte list that is valid UTF-8 (that is a
typing guarantee of the caller, stated as a hypothesis where it matters); the decoders that
start from raw bytes (`&CStr`, a serde format, an rkyv archive) perform the UTF-8 check
themselves and the model does too (`utf8Valid`, the RFC 3629 grammar `core::str::from_utf8`
implements).

`Repr` has three variants; `Repr::from_str` picks `Inline` iff `len ≤ MAX_INLINE` (generated
constant) and stores `len as u8`; `as_str` of an inline value is `from_utf8_unchecked` of the
first `len` bytes of the 22-byte array — modelled literally (`take`), so that "the unchecked
slice is exactly the validated input" is a theorem (`repr_content`) and not built in.

Every public way to obtain a `Text` / `Identifier` is a function here:
`Text::new`, `text!` (macro-time validation), `FromStr`, `TryFrom<String>`, `TryFrom<&CStr>`,
`&a + &b`, serde `Deserialize`, rkyv checked access (`CheckBytes` of the archived string +
`Verify`) and rkyv deserialize of a verified archive, `From<Identifier> for Text`;
`ident!`, `FromStr`, `TryFrom<String>`, `TryFrom<Text>` (keeps the representation), serde,
rkyv access/deserialize, `ArchivedIdentifier::deserialize`.
`debug_assert!`s are modelled as an explicit `panic` outcome.
-/
namespace AranyaV.Text
open AranyaV.Gen.Text

/-! ## UTF-8 (RFC 3629, as checked by `core::str::from_utf8`) -/

def cont (b : UInt8) : Bool := 0x80 ≤ b && b ≤ 0xBF

/-- admissible second byte of a 3-byte sequence -/
def second3 (b0 b1 : UInt8) : Bool :=
  if b0 = 0xE0 then 0xA0 ≤ b1 && b1 ≤ 0xBF
  else if b0 = 0xED then 0x80 ≤ b1 && b1 ≤ 0x9F
  else cont b1

/-- admissible second byte of a 4-byte sequence -/
def second4 (b0 b1 : UInt8) : Bool :=
  if b0 = 0xF0 then 0x90 ≤ b1 && b1 ≤ 0xBF
  else if b0 = 0xF4 then 0x80 ≤ b1 && b1 ≤ 0x8F
  else cont b1

def utf8Valid : List UInt8 → Bool
  | [] => true
  | b0 :: rest =>
    if b0 ≤ 0x7F then utf8Valid rest
    else if 0xC2 ≤ b0 && b0 ≤ 0xDF then
      match rest with
      | b1 :: r => cont b1 && utf8Valid r
      | _ => false
    else if 0xE0 ≤ b0 && b0 ≤ 0xEF then
      match rest with
      | b1 :: b2 :: r => second3 b0 b1 && cont b2 && utf8Valid r
      | _ => false
    else if 0xF0 ≤ b0 && b0 ≤ 0xF4 then
      match rest with
      | b1 :: b2 :: b3 :: r => second4 b0 b1 && cont b2 && cont b3 && utf8Valid r
      | _ => false
    else false

/-! ## `Repr` -/

inductive Repr where
  | static (s : List UInt8)
  | inline (bytes : List UInt8) (len : Nat)
  | heap (s : List UInt8)
deriving DecidableEq

/-- `Repr::from_str`: `len as u8` is the truncating cast -/
def Repr.fromStr (s : List UInt8) : Repr :=
  if s.length ≤ maxInline then
    .inline (s ++ List.replicate (maxInline - s.length) 0) (s.length % 2 ^ inlineLenBits)
  else .heap s

/-- `Repr::as_str` (for `Inline`: `from_utf8_unchecked(&bytes[..len])`) -/
def Repr.asStr : Repr → List UInt8
  | .static s => s
  | .inline bytes len => bytes.take len
  | .heap s => s

def Repr.isInline : Repr → Bool
  | .inline _ _ => true
  | _ => false

structure Text where
  repr : Repr
deriving DecidableEq

structure Identifier where
  text : Text
deriving DecidableEq

def Text.asStr (t : Text) : List UInt8 := t.repr.asStr
def Identifier.asStr (i : Identifier) : List UInt8 := i.text.asStr

/-! ## validation -/

/-- `s.bytes().position(|b| b == 0)` -/
def nulPos : List UInt8 → Nat → Option Nat
  | [], _ => none
  | b :: bs, i => if b = 0 then some i else nulPos bs (i + 1)

inductive TextErr where
  | containsNul (index : Nat)
  | utf8
  | format
deriving DecidableEq

/-- `Text::validate` -/
def validateText (s : List UInt8) : Except TextErr Unit :=
  match nulPos s 0 with
  | some i => .error (.containsNul i)
  | none => .ok ()

def isAlpha (b : UInt8) : Bool := (65 ≤ b && b ≤ 90) || (97 ≤ b && b ≤ 122)
def isAlnum (b : UInt8) : Bool := isAlpha b || (48 ≤ b && b ≤ 57)
/-- `b.is_ascii_alphanumeric() || b == b'_'` -/
def tailOk (b : UInt8) : Bool := isAlnum b || b = 95

inductive IdentErr where
  | notEmpty
  | initialNotAlphabetic
  | trailingNotValid (index : Nat)
  | format
deriving DecidableEq

/-- first index (counting from `i`) whose byte fails `tailOk` -/
def badTail : List UInt8 → Nat → Option Nat
  | [], _ => none
  | b :: bs, i => if tailOk b then badTail bs (i + 1) else some i

/-- `Identifier::validate` -/
def validateIdent (s : List UInt8) : Except IdentErr Unit :=
  match s with
  | [] => .error .notEmpty
  | b :: rest =>
    if !isAlpha b then .error .initialNotAlphabetic
    else match badTail rest 1 with
      | some i => .error (.trailingNotValid i)
      | none => .ok ()

/-! ## `Text` constructors and decoders -/

/-- `Text::new()` / `Default` -/
def Text.new : Text := ⟨.static []⟩

/-- `text!(lit)`: `validate_text!` rejects the literal at compile time (`none`) or the value is
`Static(lit)` -/
def Text.lit (s : List UInt8) : Option Text :=
  if s.contains 0 then none else some ⟨.static s⟩

/-- `FromStr` (and `TryFrom<String>`, which calls it) -/
def Text.fromStr (s : List UInt8) : Except TextErr Text :=
  match validateText s with
  | .error e => .error e
  | .ok () => .ok ⟨Repr.fromStr s⟩

/-- `TryFrom<&CStr>`: `c` = the bytes before the terminator (a `CStr` has no interior NUL) -/
def Text.fromCStr (c : List UInt8) : Except TextErr Text :=
  if utf8Valid c then .ok ⟨Repr.fromStr c⟩ else .error .utf8

inductive Outcome (α : Type) where
  | val (a : α)
  | panic


/-- `&a + &b`; the `debug_assert!(Text::validate(&s).is_ok())` is the `panic` outcome -/
def Text.add (a b : Text) : Outcome Text :=
  let s := a.asStr ++ b.asStr
  match validateText s with
  | .error _ => .panic
  | .ok () => .val ⟨Repr.fromStr s⟩

/-- serde `Deserialize`: the format hands over a string (`raw`, UTF-8 checked by the format);
`Repr::from_str` first, validation of `r.as_str()` second -/
def Text.deserialize (raw : List UInt8) : Except TextErr Text :=
  if !utf8Valid raw then .error .format
  else
    let r := Repr.fromStr raw
    match validateText r.asStr with
    | .error e => .error e
    | .ok () => .ok ⟨r⟩

/-- an `ArchivedText` that passed checked access: its string bytes -/
structure ArchivedText where
  bytes : List UInt8
deriving DecidableEq

/-- rkyv checked access: `CheckBytes` of the archived string (UTF-8) then `Verify::verify`
(`Text::validate`) -/
def Text.access (raw : List UInt8) : Except TextErr ArchivedText :=
  if !utf8Valid raw then .error .format
  else match validateText raw with
    | .error e => .error e
    | .ok () => .ok ⟨raw⟩

/-- rkyv `Deserialize` of an archived text -/
def ArchivedText.deserialize (a : ArchivedText) : Text := ⟨Repr.fromStr a.bytes⟩

/-- `From<Identifier> for Text` -/
def Identifier.toText (i : Identifier) : Text := i.text

/-! ## `Identifier` constructors and decoders -/

/-- `ident!(lit)` -/
def Identifier.lit (s : List UInt8) : Option Identifier :=
  match s with
  | [] => none
  | b :: rest => if isAlpha b && rest.all tailOk then some ⟨⟨.static s⟩⟩ else none

/-- outcome of `Identifier::validate` including its `debug_assert!(Text::validate(s).is_ok())` -/
def validateIdentDbg (s : List UInt8) : Outcome (Except IdentErr Unit) :=
  match validateIdent s with
  | .error e => .val (.error e)
  | .ok () => match validateText s with
    | .error _ => .panic
    | .ok () => .val (.ok ())

/-- `FromStr` (and `TryFrom<String>`) -/
def Identifier.fromStr (s : List UInt8) : Except IdentErr Identifier :=
  match validateIdent s with
  | .error e => .error e
  | .ok () => .ok ⟨⟨Repr.fromStr s⟩⟩

/-- `TryFrom<Text>`: keeps the text's representation -/
def Identifier.fromText (t : Text) : Except IdentErr Identifier :=
  match validateIdent t.asStr with
  | .error e => .error e
  | .ok () => .ok ⟨t⟩

/-- serde `Deserialize` -/
def Identifier.deserialize (raw : List UInt8) : Except IdentErr Identifier :=
  if !utf8Valid raw then .error .format
  else
    let r := Repr.fromStr raw
    match validateIdent r.asStr with
    | .error e => .error e
    | .ok () => .ok ⟨⟨r⟩⟩

structure ArchivedIdentifier where
  bytes : List UInt8
deriving DecidableEq

/-- rkyv checked access: the inner `ArchivedText` is checked (UTF-8, no NUL) and then
`Identifier::validate` -/
def Identifier.access (raw : List UInt8) : Except IdentErr ArchivedIdentifier :=
  match Text.access raw with
  | .error _ => .error .format
  | .ok a => match validateIdent a.bytes with
    | .error e => .error e
    | .ok () => .ok ⟨a.bytes⟩

/-- `ArchivedIdentifier::deserialize` / rkyv `Deserialize` -/
def ArchivedIdentifier.deserialize (a : ArchivedIdentifier) : Identifier :=
  ⟨⟨Repr.fromStr a.bytes⟩⟩

/-! ## comparison traits (`Repr`'s hand-written impls, all through `as_str`) -/

def Repr.eq (a b : Repr) : Bool := a.asStr == b.asStr

/-- `str::cmp`: byte-wise lexicographic -/
def cmpBytes : List UInt8 → List UInt8 → Ordering
  | [], [] => .eq
  | [], _ :: _ => .lt
  | _ :: _, [] => .gt
  | a :: as, b :: bs => if a < b then .lt else if b < a then .gt else cmpBytes as bs

def Repr.cmp (a b : Repr) : Ordering := cmpBytes a.asStr b.asStr

/-- what `Hash for str` feeds to the hasher: the bytes, then `0xff` -/
def Repr.hashInput (a : Repr) : List UInt8 := a.asStr ++ [0xff]

end AranyaV.Text
